------------------------------ MODULE TextFmt ------------------------------
(***************************************************************************)
(* audiolazy.lazy_text (extension check X01): float_str (frac / pi / auto  *)
(* strategies), multiplication_formatter, pair_strings_sum_formatter and   *)
(* the str() of Poly / ZFilter built from them, rst_table, small_doc,      *)
(* format_docstring.  Operational layer = the Python statements (one step  *)
(* per loop iteration), definition layer = "the text, read back, denotes   *)
(* the documented value" with readers that share nothing with the printers.*)
(***************************************************************************)
EXTENDS TextNum

---------------------------------------------------------------------------
(* float_str.frac / float_str.pi                                            *)
(* case [k |-> "frac", x |-> rational (= value / symbol_value), sym |-> text, after |-> BOOLEAN,  *)
(*       M |-> max_denominator >= 1]                                                             *)
PiSym == <<"$", "\\", "p", "i", "$">>
SymOK(sym) == \A i \in DOMAIN sym : sym[i] \notin DigitSet \cup {"/", "-", "."}

FracText(num, den, sym, after) ==               \* the output_data list of the code (value # 0)
  LET n == Abs(num) IN
     (IF num < 0 THEN <<"-">> ELSE <<>>)
  \o (IF n # 1 \/ sym = <<>> \/ after THEN NatStr(n) ELSE <<>>)
  \o (IF ~after THEN sym ELSE <<>>)
  \o (IF den # 1 THEN <<"/">> \o NatStr(den) ELSE <<>>)
  \o (IF after THEN sym ELSE <<>>)

\* Fraction.limit_denominator: continued-fraction loop, one FracStep per iteration
FracInit(c) == IF c.x[1] = 0 THEN [ph |-> "zero"]
               ELSE IF c.x[2] <= c.M THEN [ph |-> "emit", num |-> c.x[1], den |-> c.x[2]]
               ELSE [ph |-> "cf", p0 |-> 0, q0 |-> 1, p1 |-> 1, q1 |-> 0, n |-> c.x[1], d |-> c.x[2]]
FracDone(c, s) == s.ph = "done"
FracStep(c, s) ==
  IF s.ph = "zero" THEN [ph |-> "done", out |-> <<"0">>]
  ELSE IF s.ph = "cf"
  THEN LET a  == s.n \div s.d
           q2 == s.q0 + a * s.q1
       IN IF q2 > c.M THEN [ph |-> "pick", p0 |-> s.p0, q0 |-> s.q0, p1 |-> s.p1, q1 |-> s.q1, d |-> s.d]
          ELSE [ph |-> "cf", p0 |-> s.p1, q0 |-> s.q1, p1 |-> s.p0 + a * s.p1, q1 |-> q2,
                n |-> s.d, d |-> s.n - a * s.d]
  ELSE IF s.ph = "pick"
  THEN LET kk == (c.M - s.q0) \div s.q1
           \* which of (p0+k*p1)/(q0+k*q1) and p1/q1 is closer: compare 2*d with denominator/(q0+k*q1)
           b  == IF 2 * s.d * (s.q0 + kk * s.q1) <= c.x[2] THEN <<s.p1, s.q1>>
                 ELSE <<s.p0 + kk * s.p1, s.q0 + kk * s.q1>>
       IN [ph |-> "emit", num |-> b[1], den |-> b[2]]
  ELSE [ph |-> "done", out |-> FracText(s.num, s.den, c.sym, c.after)]
FracRes(c, s) == s.out
FracOp(c) == FracRes(c, Iter(FracDone, FracStep, c, FracInit(c)))
FracStrOf(x, sym, after, M) == FracOp([k |-> "frac", x |-> x, sym |-> sym, after |-> after, M |-> M])
\* the two candidates of limit_denominator are equally close (only then does float noise matter)
FracTie(x, M) ==
  LET s == Iter(LAMBDA c, t : t.ph # "cf", FracStep, [M |-> M, x |-> x, sym |-> <<>>, after |-> FALSE],
                FracInit([x |-> x, M |-> M]))
  IN /\ s.ph = "pick"
     /\ 2 * s.d * (s.q0 + ((M - s.q0) \div s.q1) * s.q1) = x[2]

\* reader (definition layer):  [-][digits]sym[/digits]   or   [-]digits[/digits]sym  (after)
FracRead(text, sym, after) ==      \* [ok, v, canon]
  LET neg  == text # <<>> /\ text[1] = "-"
      t0   == IF neg THEN Tail(text) ELSE text
      body == IF after THEN Take(t0, Len(t0) - Len(sym)) ELSE t0
      nd   == LeadIn(body, DigitSet)
      nums == Take(body, nd)
      r1   == Drop(body, nd)
      r2   == IF after THEN r1 ELSE Drop(r1, Len(sym))
      dens == IF r2 = <<>> THEN <<"1">> ELSE Tail(r2)
      shape == /\ (after => EndsWith(t0, sym))
               /\ (~after => StartsWith(r1, sym))
               /\ (r2 = <<>> \/ (r2[1] = "/" /\ AllDigits(dens)))
               /\ (nums = <<>> => (~after /\ sym # <<>>))
      n    == IF nums = <<>> THEN 1 ELSE NatVal(nums)
      d    == NatVal(dens)
  IN IF text = <<"0">> THEN [ok |-> TRUE, v |-> RZero, canon |-> TRUE]
     ELSE IF ~shape \/ d = 0 THEN [ok |-> FALSE, v |-> RZero, canon |-> FALSE]
     ELSE [ok |-> TRUE, v |-> IF neg THEN Norm(-n, d) ELSE Norm(n, d),
           canon |-> /\ GCD(n, d) = 1 /\ (n > 0 \/ (d = 1 /\ r2 = <<>>))     \* a value rounded to zero is "0" + symbol
                     /\ (r2 # <<>> => d >= 2)
                     /\ (nums # <<>> => NatStr(n) = nums) /\ NatStr(d) = dens
                     /\ (nums = <<"1">> => (sym = <<>> \/ after))]
NearestNum(x, q) == RInt(RMul(x, R(q)))
\* documented: the value rounded to the closest fraction with denominator <= max_denominator,
\* written as a ratio with the symbol as numerator multiplier
FracDefOK(c, out) ==
  LET r == FracRead(out, c.sym, c.after) IN
  /\ r.ok /\ r.canon
  /\ r.v[2] <= c.M
  /\ (c.x[1] = 0 => out = <<"0">>)
  /\ IF c.x[2] <= c.M THEN r.v = c.x                                  \* representable: no rounding
     ELSE \A q \in 1..c.M : RLe(RAbs(RSub(c.x, r.v)), RAbs(RSub(c.x, Norm(NearestNum(c.x, q), q))))

---------------------------------------------------------------------------
(* float_str (auto): case [k |-> "auto", val |-> [pi |-> BOOLEAN, r |-> rational] (the number r or r*pi),  *)
(*   order |-> text over "prf", size |-> sequence of integers, after |-> BOOLEAN, M |-> integer]       *)
(* pi is enclosed by 333/106 < pi < 355/113; a candidate text that is not the same at both ends is   *)
(* "undecided" (outside the modelled set).                                                            *)
PiLo == <<333, 106>>
PiHi == <<355, 113>>
Und == [ok |-> FALSE, s |-> <<>>]
Enclosed(lo, hi, sym, after, M) ==
  LET a == FracStrOf(lo, sym, after, M)
      b == FracStrOf(hi, sym, after, M)
  IN IF a = b THEN [ok |-> TRUE, s |-> a] ELSE Und
Cand(c, ch) ==
  LET r == c.val.r IN
  CASE ch = "p" -> IF c.val.pi
                   THEN IF r[2] > c.M /\ FracTie(r, c.M) THEN Und
                        ELSE [ok |-> TRUE, s |-> FracStrOf(r, PiSym, c.after, c.M)]
                   ELSE IF r[1] >= 0 THEN Enclosed(RDiv(r, PiHi), RDiv(r, PiLo), PiSym, c.after, c.M)
                        ELSE Enclosed(RDiv(r, PiLo), RDiv(r, PiHi), PiSym, c.after, c.M)
    [] ch = "r" -> IF ~c.val.pi THEN [ok |-> TRUE, s |-> FracStrOf(r, <<>>, FALSE, c.M)]
                   ELSE IF r[1] >= 0 THEN Enclosed(RMul(r, PiLo), RMul(r, PiHi), <<>>, FALSE, c.M)
                        ELSE Enclosed(RMul(r, PiHi), RMul(r, PiLo), <<>>, FALSE, c.M)
    [] ch = "f" -> IF ~c.val.pi THEN [ok |-> TRUE, s |-> GFmt(r)]
                   ELSE IF r[1] = 0 THEN [ok |-> TRUE, s |-> <<"0">>] ELSE Und
ShownSize(ch, s) == IF ch = "p" THEN MaxI(1, Len(s) - Len(PiSym) + 1) ELSE Len(s)

AutoInit(c) == IF Len(c.order) # Len(c.size) THEN [ph |-> "done", err |-> "ValueError", und |-> FALSE, out |-> <<>>]
               ELSE [ph |-> "try", i |-> 1]
AutoDone(c, s) == s.ph = "done"
AutoStep(c, s) ==
  IF s.i > Len(c.order)
  THEN LET f == Cand(c, "f") IN [ph |-> "done", err |-> "none", und |-> ~f.ok, out |-> f.s]
  ELSE LET ch == c.order[s.i] IN
       IF ch \notin {"p", "r", "f"} THEN [ph |-> "done", err |-> "KeyError", und |-> FALSE, out |-> <<>>]
       ELSE LET cd == Cand(c, ch) IN
            IF ~cd.ok THEN [ph |-> "done", err |-> "none", und |-> TRUE, out |-> <<>>]
            ELSE IF ShownSize(ch, cd.s) <= c.size[s.i] THEN [ph |-> "done", err |-> "none", und |-> FALSE, out |-> cd.s]
            ELSE [ph |-> "try", i |-> s.i + 1]
AutoRes(c, s) == [err |-> s.err, und |-> s.und, out |-> s.out]
AutoOp(c) == AutoRes(c, Iter(AutoDone, AutoStep, c, AutoInit(c)))

\* a decimal value v denotes x to six significant digits (half a unit of the sixth digit)
GDenotesVal(x, v) ==
  IF x[1] = 0 THEN v = RZero
  ELSE LET a  == RAbs(x)
           e  == DecExp(a)
           N  == IF e <= 5 THEN a[1] * 10^(5 - e) ELSE a[1]
           D  == IF e <= 5 THEN a[2] ELSE a[2] * 10^(e - 5)
           w  == RAbs(v)
           \* v scaled to units of the sixth digit must be an integer m <= 10^6 (divide before multiplying)
           isint == IF e <= 5 THEN 10^(5 - e) % w[2] = 0 ELSE w[2] = 1 /\ w[1] % 10^(e - 5) = 0
           m  == IF e <= 5 THEN w[1] * (10^(5 - e) \div w[2]) ELSE w[1] \div 10^(e - 5)
       IN /\ isint /\ m <= 1000000
          /\ 2 * Abs(N - m * D) <= D
          /\ RSign(v) = RSign(x)
GDenotes(x, text) == LET rd == ReadNum(text) IN rd.ok /\ GDenotesVal(x, rd.v)
\* documented choice rule: the first formatter in `order` whose shown length is within its `size` entry,
\* else the float form; what is chosen denotes the value (ratio of pi / ratio / six digits)
AutoDefOK(c, r) ==
  IF Len(c.order) # Len(c.size) THEN r.err = "ValueError"
  ELSE \/ r.und
       \/ r.err = "KeyError" /\ \E j \in DOMAIN c.order : c.order[j] \notin {"p", "r", "f"}
       \/ /\ r.err = "none"
          /\ \/ \E j \in DOMAIN c.order :
                  /\ c.order[j] \in {"p", "r", "f"}
                  /\ Cand(c, c.order[j]).ok /\ r.out = Cand(c, c.order[j]).s
                  /\ ShownSize(c.order[j], r.out) <= c.size[j]
                  /\ \A i \in 1..(j - 1) : ShownSize(c.order[i], Cand(c, c.order[i]).s) > c.size[i]
             \/ /\ \A i \in DOMAIN c.order : ShownSize(c.order[i], Cand(c, c.order[i]).s) > c.size[i]
                /\ r.out = Cand(c, "f").s
          /\ \/ FracRead(r.out, PiSym, c.after).ok /\ Find(r.out, PiSym) > 0
             \/ FracRead(r.out, <<>>, FALSE).ok
             \/ (~c.val.pi /\ GDenotes(c.val.r, r.out))

---------------------------------------------------------------------------
(* multiplication_formatter / pair_strings_sum_formatter / str(Poly) / str(ZFilter)                 *)
(* numbers: [t |-> "int" | "float" | "frac", v |-> rational]  (an "int" has denominator 1)            *)
NumRat(n)  == n.v
NumText(n) == CASE n.t = "int" -> IntStr(n.v[1])
                [] n.t = "frac" -> FracStr(n.v)
                [] n.t = "float" -> IF n.v[2] = 1 THEN IntStr(n.v[1]) ELSE GFmt(n.v)   \* ".0" hidden / "{:g}"
MulFmt(power, value, sym) ==
  LET txt == NumText(value)
      whole == value.t # "float" \/ value.v[2] = 1        \* a formatted non-integer float is a string: never == 1
  IN IF power # 0
     THEN LET suffix == IF power = 1 THEN <<>> ELSE <<"^">> \o IntStr(power) IN
          IF whole /\ NumRat(value) = ROne THEN sym \o suffix
          ELSE IF whole /\ NumRat(value) = R(-1) THEN <<"-">> \o sym \o suffix
          ELSE txt \o <<" ", "*", " ">> \o sym \o suffix
     ELSE txt
PairSum(a, b) == IF b # <<>> /\ b[1] = "-" THEN a \o <<" ", "-", " ">> \o Tail(b) ELSE a \o <<" ", "+", " ">> \o b

\* Poly keeps its terms by ascending power and drops zero coefficients
RECURSIVE SortTerms(_)
SortTerms(ts) == IF ts = <<>> THEN <<>>
                 ELSE LET i == CHOOSE i \in DOMAIN ts : \A j \in DOMAIN ts : ts[i].p <= ts[j].p IN
                      <<ts[i]>> \o SortTerms([j \in 1..(Len(ts) - 1) |-> IF j < i THEN ts[j] ELSE ts[j + 1]])
LiveTerms(ts) == SortTerms(SelectSeq(ts, LAMBDA t : NumRat(t.v) # RZero))

\* case [k |-> "poly", terms |-> sequence of [p |-> integer, v |-> number]]   (symbol "x")
\* case [k |-> "mulfmt", p, v, sym]   case [k |-> "pairsum", a, b]
PolyInit(c) == [ph |-> "term", i |-> 1, acc |-> <<>>, ts |-> LiveTerms(c.terms)]
PolyDone(c, s) == s.ph = "done"
PolyStep(c, s) ==                             \* reduce(pair_strings_sum_formatter, term_strings)
  IF s.i > Len(s.ts) THEN [ph |-> "done", out |-> IF s.ts = <<>> THEN <<"0">> ELSE s.acc]
  ELSE LET t == MulFmt(c.sign * s.ts[s.i].p, s.ts[s.i].v, c.sym) IN
       [ph |-> "term", i |-> s.i + 1, acc |-> IF s.i = 1 THEN t ELSE PairSum(s.acc, t), ts |-> s.ts]
PolyRes(c, s) == s.out
PolyStrOp(c) == PolyRes(c, Iter(PolyDone, PolyStep, c, PolyInit(c)))
PolyCase(ts) == [k |-> "poly", terms |-> ts, sym |-> <<"x">>, sign |-> 1]
ZSide(ts)    == [k |-> "poly", terms |-> ts, sym |-> <<"z">>, sign |-> -1]     \* numpoly / denpoly are in z^-1

\* reader: a sum of terms -> set of <<power, coefficient>>
Plus3  == <<" ", "+", " ">>
Minus3 == <<" ", "-", " ">>
Star3  == <<" ", "*", " ">>
RECURSIVE SplitTerms(_, _)
SplitTerms(s, neg) ==
  LET pp == Find(s, Plus3)
      pm == Find(s, Minus3)
      p  == IF pp = 0 THEN pm ELSE IF pm = 0 THEN pp ELSE MinI(pp, pm)
  IN IF p = 0 THEN <<[neg |-> neg, body |-> s]>>
     ELSE <<[neg |-> neg, body |-> Take(s, p - 1)]>> \o SplitTerms(Drop(s, p + 2), s[p + 1] = "-")
ReadSym(sp, sym) ==            \* [ok, p]
  IF sp = sym THEN [ok |-> TRUE, p |-> 1]
  ELSE IF StartsWith(sp, sym \o <<"^">>) /\ IsIntText(Drop(sp, Len(sym) + 1))
       THEN [ok |-> TRUE, p |-> IntVal(Drop(sp, Len(sym) + 1))]
       ELSE [ok |-> FALSE, p |-> 0]
ReadTerm(t, sym) ==            \* [ok, p, v]
  LET ps == Find(t.body, Star3)
      sg(v) == IF t.neg THEN RNeg(v) ELSE v
  IN IF ps > 0
     THEN LET cf == ReadNum(Take(t.body, ps - 1))
              sy == ReadSym(Drop(t.body, ps + 2), sym)
          IN [ok |-> cf.ok /\ sy.ok, p |-> sy.p, v |-> sg(cf.v)]
     ELSE IF StartsWith(t.body, sym)
     THEN LET sy == ReadSym(t.body, sym) IN [ok |-> sy.ok, p |-> sy.p, v |-> sg(ROne)]
     ELSE LET cf == ReadNum(t.body) IN [ok |-> cf.ok, p |-> 0, v |-> sg(cf.v)]
ReadPoly(text, sym) ==         \* [ok, terms (set of <<p, v>> with v # 0), dup]
  LET ts == IF text # <<>> /\ text[1] = "-" THEN SplitTerms(Tail(text), TRUE) ELSE SplitTerms(text, FALSE)
      rs == [i \in DOMAIN ts |-> ReadTerm(ts[i], sym)]
  IN [ok    |-> text # <<>> /\ \A i \in DOMAIN rs : rs[i].ok,
      terms |-> {<<rs[i].p, rs[i].v>> : i \in {j \in DOMAIN rs : rs[j].v # RZero}},
      dup   |-> \E i, j \in DOMAIN rs : i < j /\ rs[i].p = rs[j].p]
TermSet(ts, sign) == {<<sign * ts[i].p, NumRat(ts[i].v)>> : i \in {j \in DOMAIN ts : NumRat(ts[j].v) # RZero}}
\* the text of a polynomial, read back, is the polynomial (one term per power)
\* (a float coefficient is printed with "{:g}": six significant digits)
TermsMatch(want, got) == /\ {t[1] : t \in want} = {t[1] : t \in got}
                         /\ \A t \in want : \E g \in got : g[1] = t[1] /\ (g[2] = t[2] \/ GDenotesVal(t[2], g[2]))
PolyDefOK(c, out) == LET r == ReadPoly(out, c.sym) IN r.ok /\ ~r.dup /\ TermsMatch(TermSet(c.terms, c.sign), r.terms)

\* case [k |-> "zf", num |-> terms, den |-> terms]
ContSep == <<"\n", "\n", " ", " ", " ", " ", ".", ".", ".", "c", "o", "n", "t", "i", "n", "u", "e", ".", ".", ".", "\n", "\n">>
Slice80(s, b) == SubSeq(s, 80 * b + 1, MinI(80 * (b + 1), Len(s)))
\* the constructor shifts both polynomials so that the denominator starts at z^0
ZfShift(c) == LET ps == {LiveTerms(c.den)[i].p : i \in DOMAIN LiveTerms(c.den)} IN CHOOSE m \in ps : \A q \in ps : m <= q
ShiftTerms(ts, m) == [i \in DOMAIN ts |-> [p |-> ts[i].p - m, v |-> ts[i].v]]
ZfInit(c) == [ph |-> "num"]
ZfDone(c, s) == s.ph = "done"
ZfStep(c, s) ==
  IF s.ph = "num" THEN [ph |-> "den", num |-> PolyStrOp(ZSide(ShiftTerms(c.num, ZfShift(c))))]
  ELSE IF s.ph = "den" THEN [ph |-> "layout", num |-> s.num, den |-> PolyStrOp(ZSide(ShiftTerms(c.den, ZfShift(c))))]
  ELSE IF s.den = <<"1">> THEN [ph |-> "done", out |-> s.num]
  ELSE LET ln   == Len(s.num)
           ld   == Len(s.den)
           line == Rep("-", MaxI(ln, ld))
           off  == Abs(ln - ld) \div 2
           num  == IF off > 0 /\ ld > ln THEN Rep(" ", off) \o s.num ELSE s.num
           den  == IF off > 0 /\ ln > ld THEN Rep(" ", off) \o s.den ELSE s.den
           brk  == Len(line) \div 80
           outs == [b \in 1..(brk + 1) |->
                      Slice80(num, b - 1) \o <<"\n">> \o Slice80(line, b - 1) \o <<"\n">> \o Slice80(den, b - 1)]
       IN [ph |-> "done", out |-> JoinWith(outs, ContSep)]
ZfRes(c, s) == s.out
ZfStrOp(c) == ZfRes(c, Iter(ZfDone, ZfStep, c, ZfInit(c)))

\* reader: numerator over a rule of dashes over the denominator (in 80-column pieces); one line = no feedback
ZfRead(text) ==               \* [ok, num, den (sets of terms), rule |-> BOOLEAN, centred |-> BOOLEAN]
  IF Find(text, <<"\n">>) = 0
  THEN LET n == ReadPoly(text, <<"z">>) IN
       [ok |-> n.ok /\ ~n.dup, num |-> n.terms, den |-> {<<0, ROne>>}, rule |-> TRUE, centred |-> TRUE]
  ELSE LET chunks == SplitOn(text, ContSep)
           parts  == [i \in DOMAIN chunks |-> SplitOn(chunks[i], <<"\n">>)]
           three  == \A i \in DOMAIN parts : Len(parts[i]) = 3
           numl   == Concat([i \in DOMAIN parts |-> parts[i][1]])
           rule   == Concat([i \in DOMAIN parts |-> parts[i][2]])
           denl   == Concat([i \in DOMAIN parts |-> parts[i][3]])
           n      == ReadPoly(Strip(numl), <<"z">>)
           d      == ReadPoly(Strip(denl), <<"z">>)
           ln     == Len(Strip(numl))
           ld     == Len(Strip(denl))
       IN IF ~three THEN [ok |-> FALSE, num |-> {}, den |-> {}, rule |-> FALSE, centred |-> FALSE]
          ELSE [ok |-> n.ok /\ d.ok /\ ~n.dup /\ ~d.dup, num |-> n.terms, den |-> d.terms,
                rule |-> /\ \A i \in DOMAIN rule : rule[i] = "-"
                         /\ Len(rule) = MaxI(ln, ld)
                         /\ \A i \in DOMAIN parts : i < Len(parts) => Len(parts[i][2]) = 80,
                centred |-> /\ LeadIn(numl, {" "}) = (IF ld > ln THEN (ld - ln) \div 2 ELSE 0)
                            /\ LeadIn(denl, {" "}) = (IF ln > ld THEN (ln - ld) \div 2 ELSE 0)]
\* the text denotes the same fraction, written with a denominator that starts at z^0
ShiftSet(T, m) == {<<t[1] + m, t[2]>> : t \in T}
ZfDefOK(c, out) ==
  LET r == ZfRead(out) IN
  /\ r.ok /\ r.rule /\ r.centred
  /\ \A t \in r.den : t[1] <= 0
  /\ \E t \in r.den : t[1] = 0
  /\ \E m \in -20..20 : /\ TermsMatch(ShiftSet(TermSet(c.num, -1), m), r.num)
                        /\ TermsMatch(ShiftSet(TermSet(c.den, -1), m), r.den)

---------------------------------------------------------------------------
(* rst_table: case [k |-> "table", data |-> sequence of rows; a row is a sequence of cells; a cell is  *)
(*   [m |-> FALSE, s |-> text] or [m |-> TRUE, ss |-> sequence of texts] (multi-row cell),            *)
(*   schema |-> [none |-> BOOLEAN, cols |-> sequence of texts]]                                        *)
CellLines(cell) == IF cell.m THEN cell.ss ELSE <<cell.s>>
RowHeight(row)  == LET hs == {Len(CellLines(row[j])) : j \in DOMAIN row} IN
                   IF hs = {} THEN 0 ELSE CHOOSE h \in hs : \A g \in hs : g <= h
ExpandRow(row)  == [i \in 1..RowHeight(row) |->                    \* zip_longest(*prow, fillvalue="")
                      [j \in DOMAIN row |-> IF i <= Len(CellLines(row[j])) THEN CellLines(row[j])[i] ELSE <<>>]]
MaxOver(S) == CHOOSE h \in S : \A g \in S : g <= h
TblInit(c) == [ph |-> "expand", i |-> 1, pdata |-> <<>>]
TblDone(c, s) == s.ph = "done"
TblLine(sizes, row, centre) ==
  JoinWith([j \in DOMAIN sizes |-> IF centre THEN CenterF(row[j], sizes[j]) ELSE LJust(row[j], sizes[j])], <<" ">>)
TblStep(c, s) ==
  IF s.ph = "expand"
  THEN IF s.i > Len(c.data) THEN [ph |-> "sizes", pdata |-> s.pdata]
       ELSE [ph |-> "expand", i |-> s.i + 1, pdata |-> s.pdata \o ExpandRow(c.data[s.i])]
  ELSE IF s.ph = "sizes"
  THEN LET schema == IF c.schema.none THEN s.pdata[1] ELSE c.schema.cols      \* header = first row
           body   == IF c.schema.none THEN Tail(s.pdata) ELSE s.pdata
           sizes  == [j \in DOMAIN schema |->
                        MaxOver({Len(schema[j])} \cup {Len(s.pdata[i][j]) : i \in DOMAIN s.pdata})]
           border == JoinWith([j \in DOMAIN sizes |-> Rep("=", sizes[j])], <<" ">>)
       IN [ph |-> "rows", i |-> 1, body |-> body, sizes |-> sizes, border |-> border,
           out |-> <<border, TblLine(sizes, schema, TRUE), border>>]
  ELSE IF s.i > Len(s.body) THEN [ph |-> "done", out |-> Append(s.out, s.border)]
       ELSE [s EXCEPT !.i = s.i + 1, !.out = Append(s.out, TblLine(s.sizes, s.body[s.i], FALSE))]
TblRes(c, s) == s.out
TableOp(c) == TblRes(c, Iter(TblDone, TblStep, c, TblInit(c)))

\* definition: a reStructuredText simple table.  Column j is as wide as its longest text (titles included);
\* three equal borders of "=" runs; every line equally long; titles centred, cells left-aligned; reading the
\* columns back gives the texts.
TblAllRows(c) == Concat([i \in DOMAIN c.data |-> ExpandRow(c.data[i])])
TblHeader(c)  == IF c.schema.none THEN TblAllRows(c)[1] ELSE c.schema.cols
TblBody(c)    == IF c.schema.none THEN Tail(TblAllRows(c)) ELSE TblAllRows(c)
TblWidth(c, j) == MaxOver({Len(TblHeader(c)[j])} \cup {Len(TblAllRows(c)[i][j]) : i \in DOMAIN TblAllRows(c)})
RECURSIVE TblOffset(_, _)
TblOffset(c, j) == IF j = 1 THEN 0 ELSE TblOffset(c, j - 1) + TblWidth(c, j - 1) + 1
TblCell(c, line, j) == SubSeq(line, TblOffset(c, j) + 1, TblOffset(c, j) + TblWidth(c, j))
TableDefOK(c, out) ==
  LET hdr == TblHeader(c)
      bod == TblBody(c)
      nc  == Len(hdr)
      tot == TblOffset(c, nc) + TblWidth(c, nc)
  IN /\ Len(out) = Len(bod) + 4
     /\ \A i \in DOMAIN out : Len(out[i]) = tot
     /\ out[1] = out[3] /\ out[1] = out[Len(out)]
     /\ \A p \in 1..tot : out[1][p] = (IF \E j \in 2..nc : p = TblOffset(c, j) THEN " " ELSE "=")
     /\ \A i \in DOMAIN out : \A j \in 2..nc : out[i][TblOffset(c, j)] = " "
     /\ \A j \in 1..nc :                                    \* titles centred (the odd blank on either side)
          LET t   == TblCell(c, out[2], j)
              pad == TblWidth(c, j) - Len(hdr[j])
          IN \E lp \in {pad \div 2, pad - pad \div 2} : t = Rep(" ", lp) \o hdr[j] \o Rep(" ", pad - lp)
     /\ \A i \in DOMAIN bod : \A j \in 1..nc :
          TblCell(c, out[i + 3], j) = bod[i][j] \o Rep(" ", TblWidth(c, j) - Len(bod[i][j]))

---------------------------------------------------------------------------
(* small_doc: case [k |-> "doc", kind |-> "func" | "plain" | "instance", lines |-> sequence of texts,  *)
(*   indent |-> text, width |-> integer]                                                              *)
(*  "func": an object whose own docstring is the lines; "plain": an object of a class without         *)
(*  docstring whose str() is the lines; "instance": any other object (its class has a docstring)      *)
NoDocText == <<"\\", " ", "*", " ", "*", " ", "*", " ", "*", " ", ".", ".", ".", "n", "o", " ", "d", "o", "c", "s",
               "t", "r", "i", "n", "g", ".", ".", ".", " ", "*", " ", "*", " ", "*", " ", "*", " ", "\\", " ">>
IsBlankLine(l) == \A i \in DOMAIN l : l[i] \in Blank
StripLines(ls) == [i \in DOMAIN ls |-> Strip(ls[i])]
TrimBlankLines(ls) == LET P == {i \in DOMAIN ls : ~IsBlankLine(ls[i])} IN
                      IF P = {} THEN <<>> ELSE SubSeq(ls, CHOOSE i \in P : \A j \in P : i <= j,
                                                          CHOOSE i \in P : \A j \in P : j <= i)
FirstParagraph(ls) == LET P == {i \in DOMAIN ls : ls[i] = <<>>} IN
                      IF P = {} THEN ls ELSE Take(ls, (CHOOSE i \in P : \A j \in P : i <= j) - 1)
Ticks == <<"`", "`">>
DocText(c) ==
  IF c.kind = "func"
  THEN IF \A i \in DOMAIN c.lines : IsBlankLine(c.lines[i]) THEN NoDocText
       ELSE JoinWith(FirstParagraph(StripLines(TrimBlankLines(c.lines))), <<" ">>)
  ELSE LET d == StripLines(c.lines) IN                       \* str(obj).splitlines(), stripped
       IF Len(d) = 1 THEN Ticks \o d[1] \o Ticks ELSE JoinWith(d, <<" ">>)
DocInit(c) == [ph |-> "wrap", i |-> 1, words |-> WordsOf(DocText(c)), result |-> <<>>]
DocDone(c, s) == s.ph = "done"
DocStep(c, s) ==
  LET W == c.width - Len(c.indent) IN
  IF s.i > Len(s.words) THEN [ph |-> "done", out |-> [j \in DOMAIN s.result |-> c.indent \o s.result[j]]]
  ELSE LET w == s.words[s.i]
           n == Len(s.result)
       IN [s EXCEPT !.i = s.i + 1,
                    !.result = IF Len(w) <= W
                               THEN IF n > 0 /\ Len(s.result[n]) + Len(w) + 1 <= W
                                    THEN [s.result EXCEPT ![n] = s.result[n] \o <<" ">> \o w]
                                    ELSE Append(s.result, w)
                               ELSE s.result \o ChunksOf(w, W)]
DocRes(c, s) == s.out
SmallDocOp(c) == DocRes(c, Iter(DocDone, DocStep, c, DocInit(c)))

\* definition: the first paragraph (or the object cast to text), word-wrapped: no line longer than
\* max_width, every line starts with the indent, the words in order, no word moved down that still fitted
DocWordsDef(c) ==
  IF c.kind = "func" THEN WordsOf(DocText(c))
  ELSE WordsOf(JoinWith(c.lines, <<" ">>))                      \* "themselves cast to string"
Unticked(w) == IF StartsWith(w, Ticks) /\ EndsWith(w, Ticks) /\ Len(w) >= 4 THEN SubSeq(w, 3, Len(w) - 2) ELSE w
DocDefOK(c, out) ==
  LET W     == c.width - Len(c.indent)
      body  == [j \in DOMAIN out |-> Drop(out[j], Len(c.indent))]
      want  == Concat([i \in DOMAIN DocWordsDef(c) |-> ChunksOf(DocWordsDef(c)[i], W)])
      got   == Concat([j \in DOMAIN body |-> WordsOf(body[j])])
      plain == Concat([i \in DOMAIN want |-> want[i]])
      gotc  == Concat([i \in DOMAIN got |-> got[i]])
  IN /\ \A j \in DOMAIN out : StartsWith(out[j], c.indent) /\ Len(out[j]) <= c.width /\ body[j] # <<>>
     /\ \A j \in DOMAIN body : body[j] = JoinWith(WordsOf(body[j]), <<" ">>)        \* single blanks only
     /\ IF c.kind = "func" THEN got = want
        ELSE gotc = plain \/ gotc = Ticks \o plain \o Ticks                          \* with or without ``..``
     /\ (c.kind = "func" =>
           \A j \in 1..(Len(body) - 1) : Len(body[j]) + 1 + Len(WordsOf(body[j + 1])[1]) > W)

---------------------------------------------------------------------------
(* format_docstring: case [k |-> "fmtdoc", tpl |-> tokens, args |-> sequence of texts,                 *)
(*   kw |-> sequence of [n |-> name, s |-> text], doc |-> [has |-> BOOLEAN, toks |-> tokens]]          *)
(* token: [t |-> "lit", s |-> text] | [t |-> "pos", i |-> 0-based index] | [t |-> "kw", n |-> name]    *)
KwHas(kw, n) == \E i \in DOMAIN kw : kw[i].n = n
KwGet(kw, n) == kw[CHOOSE i \in DOMAIN kw : kw[i].n = n /\ \A j \in DOMAIN kw : kw[j].n = n => j <= i].s
RECURSIVE FmtRun(_, _, _, _, _)
\* str.format, field by field; the first missing field raises
FmtRun(toks, i, args, kw, acc) ==
  IF i > Len(toks) THEN [err |-> "none", s |-> acc]
  ELSE LET t == toks[i] IN
       IF t.t = "lit" THEN FmtRun(toks, i + 1, args, kw, acc \o t.s)
       ELSE IF t.t = "pos"
       THEN IF t.i + 1 > Len(args) THEN [err |-> "IndexError", s |-> <<>>]
            ELSE FmtRun(toks, i + 1, args, kw, acc \o args[t.i + 1])
       ELSE IF ~KwHas(kw, t.n) THEN [err |-> "KeyError", s |-> <<>>]
            ELSE FmtRun(toks, i + 1, args, kw, acc \o KwGet(kw, t.n))
FdInit(c) == [ph |-> "doc"]
FdDone(c, s) == s.ph = "done"
FdStep(c, s) ==
  IF s.ph = "doc"
  THEN IF ~c.doc.has THEN [ph |-> "tpl", kw |-> c.kw]
       ELSE LET d == FmtRun(c.doc.toks, 1, c.args, c.kw, <<>>) IN
            IF d.err # "none" THEN [ph |-> "done", err |-> d.err, out |-> <<>>]
            ELSE [ph |-> "tpl", kw |-> Append(c.kw, [n |-> "__doc__", s |-> d.s])]     \* kwargs["__doc__"] = ...
  ELSE LET r == FmtRun(c.tpl, 1, c.args, s.kw, <<>>) IN [ph |-> "done", err |-> r.err, out |-> r.s]
FdRes(c, s) == [err |-> s.err, out |-> s.out]
FmtDocOp(c) == FdRes(c, Iter(FdDone, FdStep, c, FdInit(c)))

\* definition: every field replaced by its argument, "{__doc__}" by the function's own formatted docstring
FieldText(t, args, kw) == CASE t.t = "lit" -> t.s [] t.t = "pos" -> args[t.i + 1] [] t.t = "kw" -> KwGet(kw, t.n)
FieldOK(t, args, kw)   == CASE t.t = "lit" -> TRUE [] t.t = "pos" -> t.i + 1 <= Len(args) [] t.t = "kw" -> KwHas(kw, t.n)
Subst(toks, args, kw)  == Concat([i \in DOMAIN toks |-> FieldText(toks[i], args, kw)])
FdDefOK(c, r) ==
  LET docok == \A i \in DOMAIN c.doc.toks : FieldOK(c.doc.toks[i], c.args, c.kw)
      kw2   == IF c.doc.has /\ docok
               THEN Append(c.kw, [n |-> "__doc__", s |-> Subst(c.doc.toks, c.args, c.kw)]) ELSE c.kw
      tplok == \A i \in DOMAIN c.tpl : FieldOK(c.tpl[i], c.args, kw2)
  IN IF (c.doc.has /\ ~docok) \/ ~tplok THEN r.err \in {"KeyError", "IndexError"}
     ELSE r.err = "none" /\ r.out = Subst(c.tpl, c.args, kw2)
=============================================================================
