INIT Init
NEXT Next
INVARIANT IndexIsMatch
INVARIANT TableFacts
INVARIANT SymbolOrder
INVARIANT DocExamples
INVARIANT ErrorTexts
INVARIANT LibIsSound
CHECK_DEADLOCK FALSE
