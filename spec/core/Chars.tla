------------------------------- MODULE Chars -------------------------------
(***************************************************************************)
(* Strings for TLC: a string is a SEQUENCE OF ONE-CHARACTER STRINGS, so    *)
(* that the usual sequence operators are the string operators.  Printers   *)
(* (int -> text, "%g", repr of a two-decimal float, str.format padding)    *)
(* and the matching readers (text -> exact rational) used by module Text   *)
(* (extension check X01: lazy_text / lazy_midi / rint / almost_eq).        *)
(***************************************************************************)
EXTENDS Rat

DigitSeq    == <<"0", "1", "2", "3", "4", "5", "6", "7", "8", "9">>
DigitSet    == {DigitSeq[i] : i \in 1..10}
DigitCh(d)  == DigitSeq[d + 1]
DigitVal(c) == (CHOOSE i \in 1..10 : DigitSeq[i] = c) - 1

UpperSeq == <<"A","B","C","D","E","F","G","H","I","J","K","L","M","N","O","P","Q","R","S","T","U","V","W","X","Y","Z">>
LowerSeq == <<"a","b","c","d","e","f","g","h","i","j","k","l","m","n","o","p","q","r","s","t","u","v","w","x","y","z">>
LowerCh(c) == IF \E i \in 1..26 : UpperSeq[i] = c THEN LowerSeq[CHOOSE i \in 1..26 : UpperSeq[i] = c] ELSE c
UpperCh(c) == IF \E i \in 1..26 : LowerSeq[i] = c THEN UpperSeq[CHOOSE i \in 1..26 : LowerSeq[i] = c] ELSE c
LowerStr(s) == [i \in DOMAIN s |-> LowerCh(s[i])]
UpperStr(s) == [i \in DOMAIN s |-> UpperCh(s[i])]
Blank == {" ", "\n", "\t"}
\* a TLA+ string literal as a sequence of characters (TLC evaluates Len / SubSeq on strings)
Ch(lit) == [i \in 1..Len(lit) |-> SubSeq(lit, i, i)]

Rep(c, n)  == [i \in 1..n |-> c]                     \* n <= 0 gives the empty string
Take(s, k) == SubSeq(s, 1, IF k < Len(s) THEN k ELSE Len(s))
Drop(s, k) == SubSeq(s, k + 1, Len(s))
MaxI(a, b) == IF a < b THEN b ELSE a
MinI(a, b) == IF a < b THEN a ELSE b

\* number of leading / trailing characters that lie in the set S
LeadIn(s, S)  == CHOOSE k \in 0..Len(s) : /\ \A i \in 1..k : s[i] \in S
                                          /\ (k = Len(s) \/ s[k + 1] \notin S)
TrailIn(s, S) == CHOOSE k \in 0..Len(s) : /\ \A i \in (Len(s) - k + 1)..Len(s) : s[i] \in S
                                          /\ (k = Len(s) \/ s[Len(s) - k] \notin S)
LStripSet(s, S) == Drop(s, LeadIn(s, S))
RStripSet(s, S) == Take(s, Len(s) - TrailIn(s, S))
StripSet(s, S)  == RStripSet(LStripSet(s, S), S)
Strip(s)        == StripSet(s, Blank)                \* str.strip()

StartsWith(s, p) == Len(p) <= Len(s) /\ SubSeq(s, 1, Len(p)) = p
EndsWith(s, p)   == Len(p) <= Len(s) /\ SubSeq(s, Len(s) - Len(p) + 1, Len(s)) = p
\* first position at which `sub` occurs in s (0 = it does not)
Find(s, sub) == LET P == {i \in 1..(Len(s) - Len(sub) + 1) : SubSeq(s, i, i + Len(sub) - 1) = sub}
                IN IF P = {} THEN 0 ELSE CHOOSE i \in P : \A j \in P : i <= j

RECURSIVE JoinWith(_, _)
JoinWith(ss, sep) == IF Len(ss) = 0 THEN <<>> ELSE IF Len(ss) = 1 THEN ss[1]
                     ELSE ss[1] \o sep \o JoinWith(Tail(ss), sep)
RECURSIVE SplitOn(_, _)                               \* str.split(sep)
SplitOn(s, sep) == LET p == Find(s, sep) IN
                   IF p = 0 THEN <<s>> ELSE <<SubSeq(s, 1, p - 1)>> \o SplitOn(Drop(s, p + Len(sep) - 1), sep)
RECURSIVE WordsOf(_)                                  \* str.split(): maximal runs of non-blank characters
WordsOf(s) == LET t == LStripSet(s, Blank) IN
              IF t = <<>> THEN <<>>
              ELSE LET P == {i \in DOMAIN t : t[i] \in Blank}
                       e == IF P = {} THEN Len(t) + 1 ELSE CHOOSE i \in P : \A j \in P : i <= j
                   IN <<SubSeq(t, 1, e - 1)>> \o WordsOf(Drop(t, e - 1))
RECURSIVE ChunksOf(_, _)                              \* blocks(word, w, padval=""): pieces of w characters
ChunksOf(s, w) == IF Len(s) <= w THEN <<s>> ELSE <<Take(s, w)>> \o ChunksOf(Drop(s, w), w)
RECURSIVE SumLen(_)
SumLen(ss) == IF Len(ss) = 0 THEN 0 ELSE Len(ss[1]) + SumLen(Tail(ss))
RECURSIVE Concat(_)
Concat(ss) == IF Len(ss) = 0 THEN <<>> ELSE ss[1] \o Concat(Tail(ss))

\* "{:<w}" and "{:^w}" of str.format (centre: the odd blank goes to the right)
LJust(s, w)  == s \o Rep(" ", w - Len(s))
CenterF(s, w) == LET pad == w - Len(s) IN
                 IF pad <= 0 THEN s ELSE Rep(" ", pad \div 2) \o s \o Rep(" ", pad - pad \div 2)

---------------------------------------------------------------------------
(* integers                                                                *)
RECURSIVE NatStr(_)
NatStr(n)   == IF n < 10 THEN <<DigitCh(n)>> ELSE NatStr(n \div 10) \o <<DigitCh(n % 10)>>
IntStr(i)   == IF i < 0 THEN <<"-">> \o NatStr(-i) ELSE NatStr(i)
AllDigits(s) == s # <<>> /\ \A i \in DOMAIN s : s[i] \in DigitSet
RECURSIVE NatVal(_)
NatVal(s)   == IF Len(s) = 0 THEN 0 ELSE 10 * NatVal(SubSeq(s, 1, Len(s) - 1)) + DigitVal(s[Len(s)])
\* what Python's int() reads after stripping: optional sign, digits
IsIntText(s) == LET t == IF s # <<>> /\ s[1] \in {"-", "+"} THEN Tail(s) ELSE s IN AllDigits(t)
IntVal(s)   == IF s[1] = "-" THEN -NatVal(Tail(s)) ELSE IF s[1] = "+" THEN NatVal(Tail(s)) ELSE NatVal(s)
FracStr(q)  == IF q[2] = 1 THEN IntStr(q[1]) ELSE IntStr(q[1]) \o <<"/">> \o NatStr(q[2])   \* str(Fraction)

---------------------------------------------------------------------------
(* "{:g}".format(x) for an exact rational x (the float is exact: dyadic).  *)
(* Six significant digits, round half to even on the exact value, fixed    *)
(* notation for decimal exponents -4..5, trailing zeros removed.           *)
RECURSIVE DecExpUp(_, _)
DecExpUp(a, e)   == IF a[1] < a[2] * 10^(e + 1) THEN e ELSE DecExpUp(a, e + 1)      \* a >= 1
RECURSIVE DecExpDown(_, _)
DecExpDown(a, e) == IF a[1] * 10^(-e) >= a[2] THEN e ELSE DecExpDown(a, e - 1)      \* 0 < a < 1
DecExp(a)        == IF a[1] >= a[2] THEN DecExpUp(a, 0) ELSE DecExpDown(a, -1)      \* floor(log10 a)

RoundHalfEven(N, D) == LET q == N \div D
                           r == N % D
                       IN IF 2 * r > D \/ (2 * r = D /\ q % 2 = 1) THEN q + 1 ELSE q
Sig6(a) == LET e == DecExp(a)
               N == IF e <= 5 THEN a[1] * 10^(5 - e) ELSE a[1]
               D == IF e <= 5 THEN a[2] ELSE a[2] * 10^(e - 5)
               m == RoundHalfEven(N, D)
           IN IF m = 1000000 THEN [m |-> 100000, e |-> e + 1] ELSE [m |-> m, e |-> e]
Exp2Str(e) == (IF e < 0 THEN <<"-">> ELSE <<"+">>) \o (IF Abs(e) < 10 THEN <<"0">> ELSE <<>>) \o NatStr(Abs(e))
GFmtPos(a) ==
  LET s  == Sig6(a)
      ds == NatStr(s.m)
      e  == s.e
  IN IF e < -4 \/ e >= 6
     THEN LET rest == RStripSet(Drop(ds, 1), {"0"}) IN
          <<ds[1]>> \o (IF rest = <<>> THEN <<>> ELSE <<".">> \o rest) \o <<"e">> \o Exp2Str(e)
     ELSE IF e >= 0
     THEN LET fp == RStripSet(Drop(ds, e + 1), {"0"}) IN
          Take(ds, e + 1) \o (IF fp = <<>> THEN <<>> ELSE <<".">> \o fp)
     ELSE <<"0", ".">> \o Rep("0", -e - 1) \o RStripSet(ds, {"0"})
GFmt(x) == IF x[1] = 0 THEN <<"0">> ELSE IF x[1] < 0 THEN <<"-">> \o GFmtPos(RAbs(x)) ELSE GFmtPos(x)

\* repr(round(y, 2)) for an exact y >= 0: round half to even to hundredths, shortest decimal with a point
Round2Str(y) == LET k  == RoundHalfEven(y[1] * 100, y[2])
                    ip == k \div 100
                    fp == k % 100
                IN NatStr(ip) \o <<".">> \o
                   (IF fp % 10 = 0 THEN <<DigitCh(fp \div 10)>> ELSE <<DigitCh(fp \div 10), DigitCh(fp % 10)>>)

---------------------------------------------------------------------------
(* reader: decimal / fraction / exponent text -> exact rational            *)
\* [ok |-> BOOLEAN, v |-> rational]; accepts  [-]ddd  [-]ddd.ddd  [-]ddd/ddd  [-]d.ddde[+-]dd
Bad == [ok |-> FALSE, v |-> RZero]
Good(v) == [ok |-> TRUE, v |-> v]
ReadUnsigned(s) ==
  LET pe == Find(s, <<"e">>)
      ps == Find(s, <<"/">>)
      pd == Find(s, <<".">>)
  IN IF ps > 0
     THEN LET n == Take(s, ps - 1)
              d == Drop(s, ps)
          IN IF AllDigits(n) /\ AllDigits(d) /\ NatVal(d) > 0 THEN Good(Norm(NatVal(n), NatVal(d))) ELSE Bad
     ELSE LET man == IF pe > 0 THEN Take(s, pe - 1) ELSE s
              ex  == IF pe > 0 THEN Drop(s, pe) ELSE <<"0">>
              ip  == IF pd > 0 THEN Take(man, pd - 1) ELSE man
              fp  == IF pd > 0 THEN Drop(man, pd) ELSE <<>>
          IN IF ~AllDigits(ip) \/ (pd > 0 /\ ~AllDigits(fp)) \/ ~IsIntText(ex) THEN Bad
             ELSE LET kk == IntVal(ex) - Len(fp)              \* digits * 10^kk
                  IN Good(IF kk >= 0 THEN R(NatVal(ip \o fp) * 10^kk) ELSE Norm(NatVal(ip \o fp), 10^(-kk)))
ReadNum(s) == IF s = <<>> THEN Bad
              ELSE IF s[1] = "-" THEN LET r == ReadUnsigned(Tail(s)) IN [ok |-> r.ok, v |-> RNeg(r.v)]
              ELSE ReadUnsigned(s)
=============================================================================
