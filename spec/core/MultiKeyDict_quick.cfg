CONSTANTS
  Keys = {"a", "b", "c"}
  Values = {"v1", "v2", "v3"}
  MaxTuple = 3
INIT Init
NEXT Next
VIEW View
INVARIANT TypeOK
INVARIANT Coherent
INVARIANT OneTuplePerValue
INVARIANT LenCountsValues
PROPERTY LastWriteWins
PROPERTY OrderIsRecency
PROPERTY DelMissingRaises
CHECK_DEADLOCK FALSE
