---------------------------- MODULE OpClassX05Q ----------------------------
(* X05 quick grid of OpClass: 13 declarations x 4 `without` x (8 builder subsets x 7 bodies).               *)
EXTENDS OpClass, OpGrid

QOps == {KDefault, S("+ - * / **"), S("add * > >= < <="), S("+ - * pow truediv eq ne "), S("pos neg invert"),
         S("r"), TInt(1), TInt(2), KSeq(<<TFn("__add__"), S("~")>>), S("+ foo"), S("div"), TNone, S("+ add")}
QWos == {KDefault, S("r"), S("1 +"), S("foo")}
QDecls == {[ops |-> o, wo |-> w] : o \in QOps, w \in QWos}
QHands == {{}, {"__add__"}, {"__add__", "__radd__", "__pos__"}, {"__eq__", "__ne__", "__hash__"},
           {"__sub__", "__abs__", "helper"}, {"__add__", "__sub__", "__mul__", "__eq__", "__ne__", "__pow__", "__truediv__"},
           {"__neg__", "__invert__", "__rsub__", "__radd__"}}
QBodies == {[name |-> "Klass", bld |-> b, hand |-> h, inh |-> {}] : b \in SUBSET Kinds, h \in QHands}
           \cup {[name |-> "Sub", bld |-> b, hand |-> {}, inh |-> {"__add__", "__pos__", "__eq__"}] : b \in SUBSET Kinds}
           \cup {[name |-> "C2", bld |-> Kinds, hand |-> {"__radd__"}, inh |-> {"__radd__", "__sub__"}]}
=============================================================================
