--------------------------- MODULE StrategyDict ---------------------------
(***************************************************************************)
(* audiolazy.lazy_core.StrategyDict (property C15, second half): a         *)
(* MultiKeyDict whose names are also instance attributes and which has a   *)
(* default strategy.  Operational layer = the code's __setitem__ /         *)
(* __delitem__ / __delattr__ / __call__ on top of MultiKeyDict's operators;*)
(* definition layer = "default is the first strategy stored, re-chosen     *)
(* after the default loses all its names".                                 *)
(***************************************************************************)
EXTENDS MultiKeyDict

VARIABLES attrs,    \* instance attributes that are strategy names: name -> value
          dflt,     \* operational: vars(self).get("default")  ("none" = class-level fallback)
          ddef      \* definition layer's default

svars == <<m, kv, ord, res, last, attrs, dflt, ddef>>
SView == <<m, kv, ord, res, attrs, dflt, ddef>>
None == "none"

\* StrategyDict.__delitem__(key); precondition k \in DOMAIN s.m.kd
SDel(s, k) ==
  LET keys == s.m.kd[k]
      v    == s.m.st[keys]
  IN [m     |-> OpDel(s.m, k),
      attrs |-> IF k \in DOMAIN s.attrs /\ s.attrs[k] = v THEN Drop(s.attrs, k) ELSE s.attrs,
      dflt  |-> IF Len(keys) = 1 /\ v = s.dflt THEN None ELSE s.dflt]

\* StrategyDict.__setitem__(key, value)
SSet(s, ks, v) ==
  LET RECURSIVE DelEach(_, _)
      DelEach(x, i) == IF i > Len(ks) THEN x
                       ELSE DelEach(IF ks[i] \in DOMAIN x.m.kd THEN SDel(x, ks[i]) ELSE x, i + 1)
      s1 == DelEach(s, 1)
  IN [m     |-> OpSet(s1.m, ks, v),
      attrs |-> [k \in DOMAIN s1.attrs \cup Range(ks) |-> IF k \in Range(ks) THEN v ELSE s1.attrs[k]],
      dflt  |-> IF s1.dflt = None THEN v ELSE s1.dflt]

Cur == [m |-> m, attrs |-> attrs, dflt |-> dflt]

SInit == Init /\ attrs = Empty /\ dflt = None /\ ddef = None

DefDefault(d, f) == IF d \in {f[k] : k \in DOMAIN f} THEN d ELSE None

SSetItem(ks, v) ==
  /\ LET n == SSet(Cur, ks, v) IN m' = n.m /\ attrs' = n.attrs /\ dflt' = n.dflt
  /\ kv'  = DefSetKv(kv, ks, v)
  /\ ord' = DefSetOrd(ord, ks, v)
  /\ ddef' = LET d == DefDefault(ddef, DefSetKv(kv, ks, v)) IN IF d = None THEN v ELSE d
  /\ res' = "ok"
  /\ last' = <<"set", ks, v>>

\* `del sd[k]` and `del sd.k` (same effect when the name is a strategy)
SDelItem(k, how) ==
  /\ k \in DOMAIN m.kd
  /\ LET n == SDel(Cur, k) IN m' = n.m /\ attrs' = n.attrs /\ dflt' = n.dflt
  /\ ord' = DefDelOrd(ord, kv, k)
  /\ kv'  = DefDelKv(kv, k)
  /\ ddef' = DefDefault(ddef, DefDelKv(kv, k))
  /\ res' = "ok"
  /\ last' = <<how, k>>

SDelMissing(k, how) ==
  /\ k \notin DOMAIN m.kd
  /\ res' = IF how = "del" THEN "KeyError" ELSE "AttributeError"
  /\ last' = <<how, k>>
  /\ UNCHANGED <<m, kv, ord, attrs, dflt, ddef>>

SNext == \/ \E ks \in Tuples, v \in Values : SSetItem(ks, v)
         \/ \E k \in Keys, how \in {"del", "delattr"} : SDelItem(k, how) \/ SDelMissing(k, how)

SSpec == SInit /\ [][SNext]_svars

---------------------------------------------------------------------------
\* every name is an attribute equal to the item
AttrEqualsItem == \A k \in DOMAIN kv : k \in DOMAIN attrs /\ attrs[k] = kv[k]
\* (stronger than the property; holds on the model) no attribute outlives its name
NoStaleAttr == DOMAIN attrs = DOMAIN kv
\* the code's default bookkeeping is the definition's
DefaultRefines == dflt = ddef
\* default, when set, is a stored strategy.  (It may be unset while strategies exist: after the
\* default loses its last name the *next* strategy stored becomes the default, as documented.)
DefaultIsStored == ddef # None => ddef \in {kv[k] : k \in DOMAIN kv}
\* first strategy stored becomes the default and stays while it keeps a name
DefaultIsFirst ==
  [][/\ (ddef = None /\ last'[1] = "set" => ddef' = last'[3])
     /\ (ddef # None /\ ddef \in {kv'[k] : k \in DOMAIN kv'} => ddef' = ddef)]_svars
\* calling the dict calls the default (class-level fallback returns NotImplemented)
CallResult == IF dflt = None THEN "NotImplemented" ELSE dflt
CallCallsDefault == CallResult = IF ddef = None THEN "NotImplemented" ELSE ddef
===========================================================================
