----------------------------- MODULE OpGetX05Q -----------------------------
(* X05 quick grid of OpGet: every single query value of the pool in every form, all pairs over a 12-value    *)
(* sub-pool; `without`: None, 9 single values, 3 two-value queries.                                         *)
EXTENDS OpGet, OpGrid

QPairPool == {S("+"), S("add"), S("r"), S("1"), TInt(2), TFn("__add__"), S("div"), S("foo"), S("all"), S(">>"),
              S("pos"), TNone}
QWo == {TNone, S("r"), S("+"), S("add"), TInt(1), S("2"), TFn("__sub__"), S("foo"), S("rdiv"), S("all"),
        S("- + *"), KSeq(<<TFn("__add__"), S("r")>>), KSeq(<<S("pos"), TInt(7)>>), S(""), KSeq(<<>>)}
QKeys == {TNone, S(""), S(" \t"), KSeq(<<>>), KSeq(<<S("")>>)} \cup KeysOfAll(Seqs1(Pool(0)) \cup Seqs2(QPairPool))

=============================================================================
