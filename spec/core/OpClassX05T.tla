---------------------------- MODULE OpClassX05T ----------------------------
(* X05 thorough grid of OpClass: 24 declarations x 7 `without` x (8 builder subsets x 14 bodies + extras).   *)
EXTENDS OpClass, OpGrid

TOps == {KDefault, S("all"), S("+ - * / **"), S("add * > >= < <="), S("+ - * pow truediv eq ne "), S("pos neg invert"),
         S("+ - * / // % ** << >> & | ^ ~"), S("r"), TInt(1), TInt(2), S("2 1"), KSeq(<<TFn("__add__"), S("~")>>),
         S("+ foo"), S("foo +"), S("div"), TNone, S("+ add"), S("- r"), KSeq(<<S("== !="), TInt(1), TFn("__matmul__")>>),
         S("@"), S(""), KSeq(<<S("~ +"), TList>>), KSeq(<<S("__rsub__ __sub__ neg")>>), TFn("__rshift__")}
TWos == {KDefault, S("r"), S("1 +"), S("foo"), TInt(2), KSeq(<<TFn("__add__"), S("neg")>>), S("all")}
TDecls == {[ops |-> o, wo |-> w] : o \in TOps, w \in TWos}
THands == {{}, {"__add__"}, {"__add__", "__radd__", "__pos__"}, {"__eq__", "__ne__", "__hash__"},
           {"__sub__", "__abs__", "helper"}, {"__add__", "__sub__", "__mul__", "__eq__", "__ne__", "__pow__", "__truediv__"},
           {"__neg__", "__invert__", "__rsub__", "__radd__"}, {"__pos__", "__neg__", "__invert__"},
           {"__add__", "__sub__", "__mul__", "__truediv__", "__pow__"}, {"__radd__"}, {"__rrshift__", "__rshift__"},
           {"__matmul__", "__rmatmul__", "__lt__"}, {"__div__", "__rdiv__", "add"}, AllDnames}
TBodies == {[name |-> "Klass", bld |-> b, hand |-> h, inh |-> {}] : b \in SUBSET Kinds, h \in THands}
           \cup {[name |-> "Sub", bld |-> b, hand |-> {}, inh |-> {"__add__", "__pos__", "__eq__"}] : b \in SUBSET Kinds}
           \cup {[name |-> "C2", bld |-> Kinds, hand |-> {"__radd__"}, inh |-> {"__radd__", "__sub__"}],
                 [name |-> "A_b9", bld |-> {"unary"}, hand |-> {"__neg__"}, inh |-> AllDnames]}
=============================================================================
