CONSTANTS
  Keys <- TKeys
  Wos <- TWo
INIT Init
NEXT Next
INVARIANT TypeOK
INVARIANT MachineIsRun
INVARIANT Refines
INVARIANT PrefixOfWant
INVARIANT WithoutExcludes
INVARIANT OnceWhenDisjoint
INVARIANT LazyError
INVARIANT NoneSelectsNothing
INVARIANT SplitAgrees
CHECK_DEADLOCK FALSE
