------------------------------ MODULE OpFacts ------------------------------
(* X05: the constant-level facts of OpTable (the dictionary `_all` is the relation Matches, shape of the     *)
(* table, order within a symbol, the docstrings' examples) as named invariants of a one-state model, so      *)
(* that TLC evaluates them once and reports them by name.                                                    *)
EXTENDS OpBuild
VARIABLE x
Init == x = 0
Next == UNCHANGED x
LibIsSound == LibSound(0)
ASSUME PrintT(<<"ROWS", Rows>>)
ASSUME PrintT(<<"REPRS", [r \in 1..NRows |-> Repr(Rows[r])]>>)
=============================================================================
