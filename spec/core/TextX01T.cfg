CONSTANTS
  Groups <- X01ThoroughGroups
  CasesOf <- X01Thorough
INIT Init
NEXT Next
INVARIANT Conforms
INVARIANT RintOK
INVARIANT AeqOK
INVARIANT MidiRoundTrip
INVARIANT OctOK
INVARIANT FracOK
INVARIANT AutoOK
INVARIANT FmtOK
INVARIANT TableOK
INVARIANT DocOK
INVARIANT FmtDocOK
CHECK_DEADLOCK FALSE
