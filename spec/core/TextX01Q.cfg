CONSTANTS
  Groups <- X01QuickGroups
  CasesOf <- X01Quick
INIT Init
NEXT Next
INVARIANT Conforms
INVARIANT RintOK
INVARIANT AeqOK
INVARIANT MidiRoundTrip
INVARIANT OctOK
INVARIANT FracOK
INVARIANT AutoOK
INVARIANT FmtOK
INVARIANT TableOK
INVARIANT DocOK
INVARIANT FmtDocOK
CHECK_DEADLOCK FALSE
