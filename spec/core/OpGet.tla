------------------------------- MODULE OpGet -------------------------------
(***************************************************************************)
(* X05: the generator returned by OpMethod.get(key, without) as a machine. *)
(* One behaviour per case of the grid `Cases` (records [key, wo]); the     *)
(* state is what a consumer can observe: the instances yielded so far and  *)
(* the way the iteration ended.                                            *)
(*                                                                         *)
(*   new     the generator object exists, no code of `get` has run         *)
(*   Start   first next(): `ignore = set(cls.get(without))` (the inner     *)
(*           iteration runs to its end; its exception leaves `get` before  *)
(*           anything was yielded), `if key is None: return`               *)
(*   Token   one turn of `for op_descr in key:` -- the instances of        *)
(*           `_all[op_descr]` outside `ignore` are yielded                 *)
(*   Raise   the turn whose `_all[op_descr]` fails: ValueError (two        *)
(*           messages) / TypeError; what was yielded before stays yielded  *)
(*   Finish  the chain of tokens is exhausted: StopIteration               *)
(***************************************************************************)
EXTENDS OpTable

CONSTANTS Keys,     \* the values passed as `key`
          Wos       \* the values passed as `without`

VARIABLES case,     \* [key, wo]
          ph,       \* "pick" | "new" | "run" | "done" | "raised"
          ign,      \* the set `ignore` (instances)
          ti,       \* position in the token chain (1-based, next to be looked up)
          out,      \* instances yielded so far
          err       \* how the iteration ended (NoErr while it runs / StopIteration)
vars == <<case, ph, ign, ti, out, err>>

KeyToks == Toks(case.key)

\* the grid is Keys \X Wos; the initial states fix `without` only and Pick chooses the key, so that the
\* workers build the grid in parallel (TLC computes initial states with one thread)
Init == /\ \E w \in Wos : case = [key |-> TNone, wo |-> w]
        /\ ph = "pick" /\ ign = {} /\ ti = 0 /\ out = <<>> /\ err = NoErr

Pick == /\ ph = "pick"
        /\ \E k \in Keys : case' = [case EXCEPT !.key = k]
        /\ ph' = "new"
        /\ UNCHANGED <<ign, ti, out, err>>

Start ==
  /\ ph = "new"
  /\ LET w == IgnoreOf(case.wo) IN
       IF w.err # NoErr
       THEN /\ ph' = "raised" /\ err' = w.err /\ UNCHANGED <<ign, ti>>
       ELSE /\ ign' = SeqRange(w.out) /\ err' = err
            /\ IF case.key.k = "none" THEN ph' = "done" /\ ti' = ti
               ELSE ph' = "run" /\ ti' = 1
  /\ UNCHANGED <<case, out>>

Token ==
  /\ ph = "run" /\ ti <= Len(KeyToks)
  /\ TokStep(KeyToks[ti], ign).err = NoErr
  /\ out' = out \o TokStep(KeyToks[ti], ign).out
  /\ ti' = ti + 1
  /\ UNCHANGED <<case, ph, ign, err>>

Raise ==
  /\ ph = "run" /\ ti <= Len(KeyToks)
  /\ TokStep(KeyToks[ti], ign).err # NoErr
  /\ err' = TokStep(KeyToks[ti], ign).err
  /\ ph' = "raised"
  /\ UNCHANGED <<case, ign, ti, out>>

Finish ==
  /\ ph = "run" /\ ti > Len(KeyToks)
  /\ ph' = "done"
  /\ UNCHANGED <<case, ign, ti, out, err>>

Next == Pick \/ Start \/ Token \/ Raise \/ Finish
Spec == Init /\ [][Next]_vars

---------------------------------------------------------------------------
Final  == ph \in {"done", "raised"}
Picked == ph # "pick"
Want   == DefGet(case.key, case.wo)              \* the documented answer to the query

TypeOK == /\ ph \in {"pick", "new", "run", "done", "raised"}
          /\ \A i \in DOMAIN out : out[i] \in 1..NRows
          /\ ign \subseteq 1..NRows
          /\ (ph = "raised") = (err # NoErr)

\* the machine is the pure operator the trace module judges with
MachineIsRun == Final => [out |-> out, err |-> err] = RunGet(case.key, case.wo)

\* operational layer == definition layer: same instances in the same order, same ending
Refines == Final => [out |-> out, err |-> err] = Want
\* ... and on the way the yielded items are a prefix of the documented answer (nothing is taken back)
PrefixOfWant == Picked => LET w == Want.out IN Len(out) <= Len(w) /\ out = SubSeq(w, 1, Len(out))

\* nothing that `without` selects is ever yielded
WithoutExcludes ==
  (Picked /\ case.wo.k # "none") =>
     LET wt == DefToks(case.wo) IN \A i \in DOMAIN out : ~\E j \in DOMAIN wt : Matches(wt[j], Rows[out[i]])

\* "all OpMethod instances that match the query once": no repetition when the query values do not overlap
OnceWhenDisjoint == (Final /\ DisjointQuery(case.key)) => NoRepeat(out)

\* laziness of the error: a bad value in `without` costs the first next(); a bad value in `key` is reported
\* exactly when the iteration reaches it, after the answers to the values before it
LazyError ==
  Picked =>
    LET bw == IF case.wo.k = "none" THEN 0 ELSE FirstBad(DefToks(case.wo))
        kt == DefToks(case.key)
    IN /\ bw # 0 => (ph = "new" \/ (ph = "raised" /\ out = <<>>))
       /\ (ph = "raised" /\ bw = 0) => (FirstBad(kt) = ti /\ err = DefErr(kt[ti]))
       /\ ph = "done" => (case.key.k = "none" \/ FirstBad(kt) = 0)

\* `None` selects nothing; an empty string / empty iterable select nothing either
NoneSelectsNothing == (Final /\ err = NoErr /\ (case.key.k = "none" \/ Toks(case.key) = <<>>)) => out = <<>>

\* the two readings of "whitespace-separated" agree on every string of the grid
SplitAgrees ==
  LET Strs(key) == IF key.k = "str" THEN {key.s}
                   ELSE IF key.k = "seq" THEN {key.items[i].s : i \in {j \in DOMAIN key.items : key.items[j].k = "str"}}
                   ELSE {}
  IN ph = "new" => \A s \in Strs(case.key) \cup Strs(case.wo) : WordsAgree(s)
=============================================================================
