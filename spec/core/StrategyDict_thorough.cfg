CONSTANTS
  Keys = {"a", "b", "c", "d"}
  Values = {"v1", "v2", "v3"}
  MaxTuple = 2
INIT SInit
NEXT SNext
VIEW SView
INVARIANT TypeOK
INVARIANT Coherent
INVARIANT OneTuplePerValue
INVARIANT LenCountsValues
INVARIANT AttrEqualsItem
INVARIANT NoStaleAttr
INVARIANT DefaultRefines
INVARIANT DefaultIsStored
INVARIANT CallCallsDefault
PROPERTY LastWriteWins
PROPERTY OrderIsRecency
PROPERTY DefaultIsFirst
CHECK_DEADLOCK FALSE
