------------------------------ MODULE OpBuild ------------------------------
(***************************************************************************)
(* X05, second half: AbstractOperatorOverloaderMeta.__new__ (constant      *)
(* level; the loop as a state machine is in OpClass.tla).                  *)
(*                                                                         *)
(* A construction case                                                     *)
(*   [name  |-> class name,                                                *)
(*    ops   |-> value of mcls.__operators__ (KDefault = not overridden),   *)
(*    wo    |-> value of mcls.__without__   (KDefault = not overridden),   *)
(*    bld   |-> the template kinds ("binary" / "rbinary" / "unary") whose  *)
(*              builder of the concrete metaclass returns a callable,      *)
(*    hand  |-> names written by hand in the class body (the namespace),   *)
(*    inh   |-> names written by hand in a BASE class (not the namespace)] *)
(* Operational layer: CStep, one turn of                                   *)
(*   `for op in OpMethod.get(mcls.__operators__, without=mcls.__without__)`*)
(* Definition layer: DefConstruct, the contract of the class docstring --  *)
(* every selected operator is implemented by the class directly or by the  *)
(* builder of its kind, the class has priority, TypeError otherwise.       *)
(* Last part: the metaclass declarations of the library as data and the    *)
(* operator dunders each concrete class must therefore own.                *)
(***************************************************************************)
EXTENDS OpTable

KDefault == Tk("default", "", 0)
EffOps(c) == IF c.ops.k = "default" THEN TStr("all") ELSE c.ops     \* lazy_core.py:262  __operators__ = "all"
EffWo(c)  == IF c.wo.k = "default" THEN TNone ELSE c.wo             \* lazy_core.py:263  __without__ = None

\* `{(False, 1): mcls.__unary__, (False, 2): mcls.__binary__, (True, 2): mcls.__rbinary__}[op.rev, op.arity]`
KindOf(row) == IF row.arity = 1 THEN "unary" ELSE IF row.rev THEN "rbinary" ELSE "binary"
Kinds == {"binary", "rbinary", "unary"}

NoBuilderErr(c, row) ==
  Err("TypeError", "Class '" \o c.name \o "' has no builder/template for operator method '" \o row.dname \o "'")

---------------------------------------------------------------------------
(* operational layer                                                       *)
\* state of the loop: i = next item of the generator, inst = dunders set with setattr (as records
\* [d = attribute name, kind = builder that made it, op = operator it was made for, nm = its __name__]),
\* calls = the builder calls that returned a callable, in order, err = the exception that left __new__
CInit == [ph |-> "loop", i |-> 1, inst |-> {}, calls |-> <<>>, err |-> NoErr]

\* g = RunGet(EffOps(c), EffWo(c)): what the generator yields and how it ends
CStep(c, g, st) ==
  IF st.i > Len(g.out)
  THEN IF g.err = NoErr THEN [st EXCEPT !.ph = "done"]                       \* `return cls`
       ELSE [st EXCEPT !.ph = "raised", !.err = g.err]                      \* the query's own exception
  ELSE LET row  == Rows[g.out[st.i]]
           kind == KindOf(row)
       IN IF row.dname \in c.hand                                           \* `if op.dname not in namespace`
          THEN [st EXCEPT !.i = @ + 1]
          ELSE IF kind \in c.bld
               THEN [st EXCEPT !.i = @ + 1,
                               !.calls = Append(@, <<kind, row.dname>>),
                               \* `dunder.__name__ = op.dname; setattr(cls, dunder.__name__, dunder)`
                               !.inst = {x \in @ : x.d # row.dname}
                                        \cup {[d |-> row.dname, kind |-> kind, op |-> row.name, nm |-> row.dname]}]
               ELSE [st EXCEPT !.ph = "raised",                             \* `if not callable(dunder): raise`
                               !.err = NoBuilderErr(c, row)]

RECURSIVE CRun(_, _, _)
CRun(c, g, st) == IF st.ph # "loop" THEN st ELSE CRun(c, g, CStep(c, g, st))
Construct(c) == CRun(c, RunGet(EffOps(c), EffWo(c)), CInit)

\* the class dictionary restricted to operator dunders, after a successful construction
ClassDunders(c, st) == {x.d : x \in st.inst} \cup (c.hand \cap AllDnames)

---------------------------------------------------------------------------
(* definition layer                                                        *)
\* "There are three method builders ...: __binary__, __rbinary__ and __unary__": which one an operator needs
DefKind(row) == CASE row.arity = 2 /\ ~row.rev -> "binary"
                  [] row.arity = 2 /\ row.rev  -> "rbinary"
                  [] row.arity = 1             -> "unary"
\* a selected operator nobody implements: not written by hand, and the builder of its kind is missing
Lacks(c, r) == Rows[r].dname \notin c.hand /\ DefKind(Rows[r]) \notin c.bld
FirstLack(c, sel) == IF \A j \in DOMAIN sel : ~Lacks(c, sel[j]) THEN 0
                     ELSE CHOOSE j \in DOMAIN sel : Lacks(c, sel[j]) /\ \A k \in 1..(j - 1) : ~Lacks(c, sel[k])
DefInstalled(c, sel) ==
  {[d |-> Rows[r].dname, kind |-> DefKind(Rows[r]), op |-> Rows[r].name, nm |-> Rows[r].dname] :
      r \in {q \in SeqRange(sel) : Rows[q].dname \notin c.hand}}
DefOutcome(c, g) ==
  IF FirstLack(c, g.out) # 0
  THEN [res |-> "raised", err |-> NoBuilderErr(c, Rows[g.out[FirstLack(c, g.out)]]), inst |-> {}]
  ELSE IF g.err # NoErr THEN [res |-> "raised", err |-> g.err, inst |-> {}]
  ELSE [res |-> "done", err |-> NoErr, inst |-> DefInstalled(c, g.out)]
\* g.out: the operators the declaration selects (documented selection, query order)
DefConstruct(c) == DefOutcome(c, DefGet(EffOps(c), EffWo(c)))

---------------------------------------------------------------------------
(* the library's own declarations, transcribed (file:line of the pinned tree; `none` = the builder is the     *)
(* inherited one of AbstractOperatorOverloaderMeta, which returns NotImplemented)                            *)
LibMetas ==
  [StreamMeta      |-> [ops |-> KDefault, wo |-> KDefault,                             \* lazy_stream.py:41 (no override)
                        bld |-> [binary |-> "__binary__", rbinary |-> "__rbinary__", unary |-> "__unary__"]],  \* :47 :57 :67
   PolyMeta        |-> [ops |-> TStr("+ - * pow truediv eq ne "), wo |-> KDefault,     \* lazy_poly.py:46-49
                        bld |-> [binary |-> "none", rbinary |-> "__rbinary__", unary |-> "__unary__"]],        \* :51 :57
   ZFilterMeta     |-> [ops |-> TStr("+ - * / **"), wo |-> KDefault,                   \* lazy_filters.py:698
                        bld |-> [binary |-> "none", rbinary |-> "__rbinary__", unary |-> "__unary__"]],        \* :700 :708
   FilterListMeta  |-> [ops |-> TStr("add * > >= < <="), wo |-> KDefault,              \* lazy_filters.py:901
                        bld |-> [binary |-> "__binary__", rbinary |-> "__binary__", unary |-> "none"]],        \* :903, :910 alias
   TableLookupMeta |-> [ops |-> TStr("+ - * / // % ** << >> & | ^ ~"), wo |-> KDefault, \* lazy_synth.py:462
                        bld |-> [binary |-> "__binary__", rbinary |-> "__rbinary__", unary |-> "__unary__"]]]  \* :464 :481 :490

\* concrete classes: metaclass, bases as written, operator dunders written by hand in the class body
LibClasses ==
  [Stream         |-> [meta |-> "StreamMeta", bases |-> <<"Iterable">>, hand |-> {}],                 \* lazy_stream.py:74
   ControlStream  |-> [meta |-> "StreamMeta", bases |-> <<"Stream">>, hand |-> {}],                   \* lazy_stream.py:439
   StreamTeeHub   |-> [meta |-> "StreamMeta", bases |-> <<"Stream">>, hand |-> {}],                   \* lazy_stream.py:472
   Streamix       |-> [meta |-> "StreamMeta", bases |-> <<"Stream">>, hand |-> {}],                   \* lazy_stream.py:636
   RecStream      |-> [meta |-> "StreamMeta", bases |-> <<"Stream">>, hand |-> {}],                   \* lazy_io.py:143
   WavStream      |-> [meta |-> "StreamMeta", bases |-> <<"Stream">>, hand |-> {}],                   \* lazy_wav.py:31
   Poly           |-> [meta |-> "PolyMeta", bases |-> <<"object">>,                                   \* lazy_poly.py:66
                       hand |-> {"__add__", "__sub__", "__mul__", "__eq__", "__ne__", "__pow__", "__truediv__"}],  \* :373-451
   ZFilter        |-> [meta |-> "ZFilterMeta", bases |-> <<"LinearFilter">>,                          \* lazy_filters.py:716
                       hand |-> {"__add__", "__sub__", "__mul__", "__truediv__", "__pow__"}],         \* :750-780
   FilterList     |-> [meta |-> "FilterListMeta", bases |-> <<"list", "LinearFilterProperties">>,     \* lazy_filters.py:913
                       hand |-> {"__eq__", "__ne__"}],                                                \* :959 :962
   CascadeFilter  |-> [meta |-> "FilterListMeta", bases |-> <<"FilterList">>, hand |-> {}],           \* lazy_filters.py:976
   ParallelFilter |-> [meta |-> "FilterListMeta", bases |-> <<"FilterList">>, hand |-> {}],           \* lazy_filters.py:1030
   TableLookup    |-> [meta |-> "TableLookupMeta", bases |-> <<"object">>,                            \* lazy_synth.py:498
                       hand |-> {"__eq__", "__ne__"}]]                                                \* :552 :557

LibCase(cn, hand) ==
  LET m == LibMetas[LibClasses[cn].meta] IN
  [name |-> cn, ops |-> m.ops, wo |-> m.wo, bld |-> {k \in Kinds : m.bld[k] # "none"}, hand |-> hand, inh |-> {}]

\* what the class dictionary of a library class holds: operator dunder -> where it comes from
\* ("hand" or the name of the metaclass method that built it)
LibExpected(cn) ==
  LET c  == LibCase(cn, LibClasses[cn].hand)
      st == Construct(c)
      m  == LibMetas[LibClasses[cn].meta]
  IN [res |-> st.ph, err |-> st.err,
      dunders |-> {[d |-> x.d, origin |-> m.bld[x.kind], nm |-> x.nm] : x \in st.inst}
                  \cup {[d |-> d, origin |-> "hand", nm |-> d] : d \in c.hand \cap AllDnames}]

\* a subclass with an empty body (`class Sub(Base): pass`): the same declaration, nothing written by hand
LibSubclassExpected(cn, subname) ==
  LET st == Construct([LibCase(cn, {}) EXCEPT !.name = subname]) IN [res |-> st.ph, err |-> st.err]

\* the library's own classes are constructible, and what they own is what the definition layer promises
LibSound(u) ==
  \A cn \in DOMAIN LibClasses :
    LET c == LibCase(cn, LibClasses[cn].hand)
        d == DefConstruct(c)
    IN /\ Construct(c).ph = "done" /\ d.res = "done"
       /\ Construct(c).inst = d.inst
       /\ LibClasses[cn].hand \subseteq AllDnames
=============================================================================
