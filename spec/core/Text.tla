-------------------------------- MODULE Text --------------------------------
(***************************************************************************)
(* Extension check X01: lazy_text and the small numeric helpers.           *)
(*                                                                         *)
(* One machine for all helpers: a case record (field k names the helper)   *)
(* is picked, the helper's operational steps (modules TextNum / TextFmt,   *)
(* one step per loop iteration / statement group of the Python code) are   *)
(* taken until it is done, and the result is published in `res`.  The      *)
(* invariants state the documented behaviour (definition layers) of the    *)
(* published result; `Judge` is the same statement as a function of an     *)
(* OBSERVED output and is what spec/trace/TextTrace.tla applies to the     *)
(* recordings of the real code.                                            *)
(***************************************************************************)
EXTENDS TextFmt, TLC

CONSTANTS Groups,      \* names of the case groups
          CasesOf(_)   \* group name -> set of case records (an operator: built per group, by the worker that picks it)

SingleShot == {"shz", "str2midi", "midi2freq", "freq2midi", "str2freq", "freq2str", "mulfmt", "pairsum",
               "autolist"}
CallInit(c) == [ph |-> "call"]
CallDone(c, s) == s.ph = "done"
AutoOf(c, v) == AutoOp([k |-> "auto", val |-> v, order |-> c.order, size |-> c.size, after |-> c.after, M |-> c.M])
CallValue(c) ==
  CASE c.k = "shz"       -> ShzOp(c)
    [] c.k = "str2midi"  -> Str2MidiOp(c.s)
    [] c.k = "midi2freq" -> Midi2FreqOp(c.m)
    [] c.k = "freq2midi" -> Freq2MidiOp(c.f)
    [] c.k = "str2freq"  -> Str2FreqOp(c.s)
    [] c.k = "freq2str"  -> Freq2StrOp(c.f)
    [] c.k = "mulfmt"    -> MulFmt(c.p, c.v, c.sym)
    [] c.k = "pairsum"   -> PairSum(c.a, c.b)
    [] c.k = "autolist"  -> [i \in DOMAIN c.vals |-> AutoOf(c, c.vals[i])]       \* element by element
CallStep(c, s) == [ph |-> "done", out |-> CallValue(c)]

KInit(c) == CASE c.k = "rint" -> RintInit(c) [] c.k = "aeq" -> AeqInit(c) [] c.k = "midi2str" -> M2sInit(c)
              [] c.k = "octaves" -> OctInit(c) [] c.k = "frac" -> FracInit(c) [] c.k = "auto" -> AutoInit(c)
              [] c.k = "poly" -> PolyInit(c) [] c.k = "zf" -> ZfInit(c) [] c.k = "table" -> TblInit(c)
              [] c.k = "doc" -> DocInit(c) [] c.k = "fmtdoc" -> FdInit(c) [] OTHER -> CallInit(c)
KDone(c, s) == s.ph = "done"
KStep(c, s) == CASE c.k = "rint" -> RintStep(c, s) [] c.k = "aeq" -> AeqStep(c, s) [] c.k = "midi2str" -> M2sStep(c, s)
              [] c.k = "octaves" -> OctStep(c, s) [] c.k = "frac" -> FracStep(c, s) [] c.k = "auto" -> AutoStep(c, s)
              [] c.k = "poly" -> PolyStep(c, s) [] c.k = "zf" -> ZfStep(c, s) [] c.k = "table" -> TblStep(c, s)
              [] c.k = "doc" -> DocStep(c, s) [] c.k = "fmtdoc" -> FdStep(c, s) [] OTHER -> CallStep(c, s)
KRes(c, s) == CASE c.k = "rint" -> RintRes(c, s) [] c.k = "aeq" -> AeqRes(c, s) [] c.k = "midi2str" -> M2sRes(c, s)
              [] c.k = "octaves" -> OctRes(c, s) [] c.k = "frac" -> FracRes(c, s) [] c.k = "auto" -> AutoRes(c, s)
              [] c.k = "poly" -> PolyRes(c, s) [] c.k = "zf" -> ZfRes(c, s) [] c.k = "table" -> TblRes(c, s)
              [] c.k = "doc" -> DocRes(c, s) [] c.k = "fmtdoc" -> FdRes(c, s) [] OTHER -> s.out
\* the whole helper as a function of its case (what the trace module evaluates)
Run(c) == KRes(c, Iter(KDone, KStep, c, KInit(c)))

Q16 == 65536
\* round(x * 2^16) without leaving 32 bits (denominators up to 10^4)
QuantQ(x) == LET ip == x[1] \div x[2]
                 fr == x[1] % x[2]
             IN ip * Q16 + RInt(<<fr * Q16, x[2]>>)
\* the published result in the encoding of an observation (floats quantised exactly)
AsObserved(c, r) ==
  CASE c.k = "shz" -> [s |-> r.s, q |-> QuantQ(RMul(r.hzpi, c.rate))]
    [] c.k \in {"midi2freq", "str2freq"} -> IF r.t = "a4" THEN [t |-> "a4", q |-> QuantQ(r.tw)] ELSE r
    [] c.k = "freq2midi" -> IF r.t = "num" THEN [t |-> "num", q |-> QuantQ(r.v)] ELSE r
    [] OTHER -> r


VARIABLES case, pc, st, res
vars == <<case, pc, st, res>>

\* (TLC computes initial states with one thread: Init only names the group, Pick draws the case)
Init == /\ \E g \in Groups : case = [k |-> "pick", g |-> g]
        /\ pc = "pick" /\ st = <<>> /\ res = <<>>
Pick == /\ pc = "pick"
        /\ case' \in CasesOf(case.g)
        /\ pc' = "run" /\ st' = KInit(case') /\ UNCHANGED res

StepOf(kind) == /\ pc = "run" /\ case.k = kind /\ ~KDone(case, st)
                /\ st' = KStep(case, st) /\ UNCHANGED <<case, pc, res>>
RintAct == StepOf("rint")
AeqAct  == StepOf("aeq")
M2sAct  == StepOf("midi2str")
OctAct  == StepOf("octaves")
FracAct == StepOf("frac")
AutoAct == StepOf("auto")
PolyAct == StepOf("poly")
ZfAct   == StepOf("zf")
TblAct  == StepOf("table")
DocAct  == StepOf("doc")
FdAct   == StepOf("fmtdoc")
CallAct == /\ pc = "run" /\ case.k \in SingleShot /\ ~KDone(case, st)
           /\ st' = KStep(case, st) /\ UNCHANGED <<case, pc, res>>
Finish  == /\ pc = "run" /\ KDone(case, st)
           /\ res' = AsObserved(case, KRes(case, st)) /\ pc' = "done" /\ UNCHANGED <<case, st>>
Next == Pick \/ RintAct \/ AeqAct \/ M2sAct \/ OctAct \/ FracAct \/ AutoAct \/ PolyAct \/ ZfAct \/ TblAct \/ DocAct
        \/ FdAct \/ CallAct \/ Finish
Spec == Init /\ [][Next]_vars

---------------------------------------------------------------------------
(* The documented behaviour as a verdict on an output `out` of case c: "ok" or the name of the       *)
(* failing clause.  Quantised floats: q = round(value * 2^16).                                        *)
NearQ(q, x) == Abs(q - QuantQ(x)) <= 2
PitchNear(obs, want) ==      \* obs: [t, q] observed; want: pitch value of the spec
  IF want.t = "num" THEN obs.t = "num" /\ NearQ(obs.q, want.v) ELSE obs.t = want.t
FreqNear(obs, want) ==
  IF want.t = "a4" THEN obs.t = "a4" /\ NearQ(obs.q, want.tw) ELSE obs.t = want.t

Judge(c, out) ==
  CASE c.k = "rint" ->
         IF out # RintDef(c) THEN "rint-nearest-multiple" ELSE "ok"
    [] c.k = "aeq" ->
         IF out = AeqDef(c) \/ AeqInnerPadOpen(c) THEN "ok" ELSE "almost_eq-elementwise"
    [] c.k = "shz" ->
         IF out.s = c.rate /\ NearQ(out.q, R(2)) THEN "ok" ELSE "sHz"            \* q: rate * Hz / pi, quantised
    [] c.k = "str2midi" ->
         IF c.s = <<"?">> THEN (IF out.t = "nan" THEN "ok" ELSE "str2midi-question-mark")
         ELSE IF ~InGrammar(c.s) THEN "ok"                                   \* outside the documented grammar
         ELSE IF out = Num(R(Str2MidiDef(c.s))) THEN "ok" ELSE "str2midi-grammar"
    [] c.k = "midi2str" ->
         IF ~M2sDenotes(c, out) THEN "midi2str-denotes"
         ELSE IF c.m.t = "num" /\ c.m.v[2] = 1 /\ Str2MidiOp(out) # c.m THEN "midi2str-roundtrip"
         ELSE "ok"
    [] c.k = "midi2freq" -> IF FreqNear(out, Midi2FreqOp(c.m)) THEN "ok" ELSE "midi2freq"
    [] c.k = "freq2midi" -> IF PitchNear(out, Freq2MidiOp(c.f)) THEN "ok" ELSE "freq2midi"
    [] c.k = "str2freq"  -> IF ~InGrammar(c.s) /\ c.s # <<"?">> THEN "ok"
                            ELSE IF FreqNear(out, Str2FreqOp(c.s)) THEN "ok" ELSE "str2freq"
    [] c.k = "freq2str"  ->
         IF M2sDenotes([m |-> Freq2MidiOp(c.f), sharp |-> TRUE], out) THEN "ok" ELSE "freq2str-denotes"
    [] c.k = "octaves" -> IF OctDefOK(c, out) THEN "ok" ELSE "octaves"
    [] c.k = "frac" -> IF FracDefOK(c, out) THEN "ok" ELSE "float_str.frac-closest-ratio"
    [] c.k = "auto" -> IF AutoOp(c).und THEN "UNDECIDED"                      \* outside the modelled set
                       ELSE IF AutoDefOK(c, out) THEN "ok" ELSE "float_str.auto-choice"
    [] c.k = "autolist" ->
         IF /\ Len(out) = Len(c.vals)
            /\ \A i \in DOMAIN c.vals :
                 \/ AutoOf(c, c.vals[i]).und
                 \/ AutoDefOK([val |-> c.vals[i], order |-> c.order, size |-> c.size, after |-> c.after, M |-> c.M], out[i])
         THEN "ok" ELSE "float_str.auto-iterable"
    [] c.k = "mulfmt" ->
         LET r == ReadPoly(out, c.sym) IN
         IF r.ok /\ TermsMatch(TermSet(<<[p |-> c.p, v |-> c.v]>>, 1), r.terms) THEN "ok" ELSE "multiplication_formatter"
    [] c.k = "pairsum" ->
         LET r == ReadPoly(out, <<"x">>)
             a == ReadPoly(c.a, <<"x">>)
             b == ReadPoly(c.b, <<"x">>)
         IN IF r.ok /\ r.terms = a.terms \cup b.terms THEN "ok" ELSE "pair_strings_sum_formatter"
    [] c.k = "poly" -> IF PolyDefOK(c, out) THEN "ok" ELSE "poly-str-reads-back"
    [] c.k = "zf" -> IF ZfDefOK(c, out) THEN "ok" ELSE "zfilter-str-reads-back"
    [] c.k = "table" -> IF TblBody(c) = <<>> THEN "ok"            \* a table without data rows: not documented
                        ELSE IF TableDefOK(c, out) THEN "ok" ELSE "rst_table"
    [] c.k = "doc" -> IF DocDefOK(c, out) THEN "ok" ELSE "small_doc"
    [] c.k = "fmtdoc" -> IF FdDefOK(c, out) THEN "ok" ELSE "format_docstring"

---------------------------------------------------------------------------
(* Invariants: the operational layer refines the definition layer, helper by helper                   *)
DoneK(K) == pc = "done" /\ case.k \in K
raw      == KRes(case, st)                       \* the operational result before quantisation
Conforms == pc = "done" => Judge(case, res) \in {"ok", "UNDECIDED"}

RintOK == DoneK({"rint"}) => /\ res = RintDef(case)
                             /\ RintNearest(case, res) /\ RintTieAway(case, res)
AeqOK  == DoneK({"aeq"}) => /\ res = AeqDef(case)
                            /\ res = AeqOp(Swapped(case))                       \* symmetric
                            /\ (AeqOp(Strict(case)) => AeqOp(Loose(case)))      \* the type test only removes
MidiRoundTrip ==
  /\ DoneK({"midi2str"}) /\ case.m.t = "num" /\ case.m.v[2] = 1 => Str2MidiOp(res) = case.m
  /\ DoneK({"midi2str"}) /\ case.m.t # "num" => Str2MidiOp(res) = Special("nan")
  /\ DoneK({"str2midi"}) /\ InGrammar(case.s) =>
        /\ res = Num(R(Str2MidiDef(case.s)))
        /\ Str2MidiOp(Midi2StrOp([m |-> res, sharp |-> TRUE])) = res
        /\ Str2MidiOp(Midi2StrOp([m |-> res, sharp |-> FALSE])) = res
  /\ DoneK({"midi2freq"}) => Freq2MidiOp(raw) = case.m
  /\ DoneK({"freq2str"}) /\ case.f.t = "a4" /\ case.f.tw[2] = 1 => Str2FreqOp(res) = case.f
OctOK  == DoneK({"octaves"}) => OctDefOK(case, res)
FracOK == DoneK({"frac"}) => FracDefOK(case, res)
AutoOK == DoneK({"auto"}) => AutoDefOK(case, res)
FmtOK  == /\ DoneK({"poly"}) => PolyDefOK(case, res)
          /\ DoneK({"zf"}) => ZfDefOK(case, res)
TableOK == DoneK({"table"}) => TableDefOK(case, res)
DocOK   == DoneK({"doc"}) => DocDefOK(case, res)
FmtDocOK == DoneK({"fmtdoc"}) => FdDefOK(case, res)
=============================================================================
