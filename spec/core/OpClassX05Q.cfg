CONSTANTS
  Decls <- QDecls
  Bodies <- QBodies
INIT Init
NEXT Next
INVARIANT TypeOK
INVARIANT MachineIsConstruct
INVARIANT Refines
INVARIANT ErrorIff
INVARIANT FirstLacking
INVARIANT InstalledExactly
INVARIANT NameSet
INVARIANT ManualWins
INVARIANT NothingElse
INVARIANT CallsJustified
INVARIANT InheritedIgnored
INVARIANT Defaults

CHECK_DEADLOCK FALSE
