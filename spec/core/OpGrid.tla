------------------------------- MODULE OpGrid -------------------------------
(* X05: builders of the query grids (constant level, every builder has a parameter so that TLC does not      *)
(* evaluate it at start-up).  A query is described by the sequence of tokens the loop of `get` will see;     *)
(* KeysOf gives the Python values that flatten to it: one item per token, the words joined into one string   *)
(* (single blanks / mixed whitespace), runs of words joined inside an iterable, the bare scalar.             *)
EXTENDS OpTable

S(w) == TStr(w)
RECURSIVE JoinFrom(_, _, _)
JoinFrom(ts, i, sep) == IF i > Len(ts) THEN "" ELSE IF i = Len(ts) THEN ts[i].s ELSE ts[i].s \o sep \o JoinFrom(ts, i + 1, sep)
AllStr(ts) == \A i \in DOMAIN ts : ts[i].k = "str"

RECURSIVE Grouped(_, _, _)
\* maximal runs of consecutive words become one string item ("nested strings with several tokens")
Grouped(ts, i, cur) ==
  IF i > Len(ts) THEN (IF cur = "" THEN <<>> ELSE <<TStr(cur)>>)
  ELSE IF ts[i].k = "str" THEN Grouped(ts, i + 1, IF cur = "" THEN ts[i].s ELSE cur \o " " \o ts[i].s)
  ELSE (IF cur = "" THEN <<>> ELSE <<TStr(cur)>>) \o <<ts[i]>> \o Grouped(ts, i + 1, "")

KeysOf(ts) ==
  {KSeq(ts), KSeq(Grouped(ts, 1, ""))}
  \cup (IF AllStr(ts) THEN {TStr(JoinFrom(ts, 1, " ")), TStr(" " \o JoinFrom(ts, 1, "\t ") \o "\n")} ELSE {})
  \cup (IF Len(ts) = 1 /\ ts[1].k \in {"str", "int", "fn"} THEN {ts[1]} ELSE {})

Seqs1(P)  == {<<a>> : a \in P}
Seqs2(P)  == {<<a, b>> : a \in P, b \in P}
Seqs3(P)  == {<<a, b, c>> : a \in P, b \in P, c \in P}
KeysOfAll(SS) == UNION {KeysOf(ts) : ts \in SS}

\* the pool of single query values: every kind the docstring lists, the names it warns about, unknown ones
Pool(u) ==
  {S("+"), S("-"), S("*"), S("**"), S("<<"), S(">>"), S("~"), S("=="), S("@"), S("%"),
   S("add"), S("radd"), S("pos"), S("rshift"), S("rrshift"), S("ror"), S("__rsub__"), S("__invert__"), S("__rshift__"),
   S("all"), S("r"), S("1"), S("2"), S("3"), S("div"), S("__rdiv__"), S("foo"), S("__radd"), S("rr"),
   TInt(1), TInt(2), TInt(3), TInt(0), TInt(-12),
   TFn("__add__"), TFn("__rshift__"), TFn("__neg__"), TFn("__abs__"), TFn("__concat__"),
   TNone, TList}

GetGrid(keys, wos) == {[key |-> k, wo |-> w] : k \in keys, w \in wos}
=============================================================================
