------------------------------- MODULE OpNbr -------------------------------
(***************************************************************************)
(* X05: the small neighbours of the operator machinery, as expectations    *)
(* for recorded executions (constant level).                               *)
(*                                                                         *)
(* lazy_compat.meta(bases.., metaclass=M)                                   *)
(*   `class X(meta(B1, .., metaclass=M))` is `class X(B1, .., metaclass=M)`*)
(*   of Python 3: the class is an instance of M (of `type` when no         *)
(*   metaclass is named), its bases are the given ones (`object` when      *)
(*   none), M.__new__ ran exactly once for X with X's name and body, and   *)
(*   runs again for every subclass.                                        *)
(* lazy_stream.tostream(func, module_name=None)                            *)
(*   the decorated function returns Stream(func(...)); name and docstring  *)
(*   are the function's, __module__ is module_name when given; calling it  *)
(*   consumes nothing (a generator function's body has not started).       *)
(* lazy_stream.avoid_stream(cls)                                           *)
(*   returns cls itself; afterwards the binary / reflected templates of    *)
(*   Stream (and of its subclasses) answer NotImplemented for an operand   *)
(*   that is an instance of cls (subclasses included) and go on building   *)
(*   a Stream for any other operand; unary templates have no operand.      *)
(***************************************************************************)
EXTENDS OpBuild

MetaExpected(c) ==
  [type     |-> IF c.hasmeta THEN "M" ELSE "type",
   bases    |-> IF c.bases = <<>> THEN <<"object">> ELSE c.bases,
   \* calls of M.__new__ as [name, bases, body names seen]: one for the class, one more for the subclass
   newcalls |-> IF c.hasmeta
                THEN << [name |-> c.name, bases |-> IF c.bases = <<>> THEN <<"object">> ELSE c.bases, sawbody |-> TRUE],
                        [name |-> c.sub, bases |-> <<c.name>>, sawbody |-> TRUE] >>
                ELSE << >>,
   subtype  |-> IF c.hasmeta THEN "M" ELSE "type"]
MetaVerdict(r) ==
  LET e == MetaExpected(r.c) IN
  IF r.obs.type # e.type THEN "type"
  ELSE IF r.obs.bases # e.bases THEN "bases"
  ELSE IF r.obs.newcalls # e.newcalls THEN "new-calls"
  ELSE IF r.obs.subtype # e.subtype THEN "subclass-type"
  ELSE IF ~r.obs.issub THEN "subclass"
  ELSE "ok"

ToStreamExpected(c) ==
  [isstream |-> TRUE, out |-> c.items, name |-> c.fname, doc |-> c.fdoc,
   module   |-> IF c.modname = "" THEN c.fmodule ELSE c.modname,
   started  |-> c.fkind # "gen"]            \* a plain function has run when the call returns; a generator has not
ToStreamVerdict(r) ==
  LET e == ToStreamExpected(r.c) IN
  IF r.obs.isstream # e.isstream THEN "not-a-stream"
  ELSE IF r.obs.started # e.started THEN "eager"
  ELSE IF r.obs.out # e.out THEN "items"
  ELSE IF r.obs.name # e.name \/ r.obs.doc # e.doc THEN "wraps"
  ELSE IF r.obs.module # e.module THEN "module"
  ELSE "ok"

AvoidExpected(c) ==
  IF c.kind # "unary" /\ c.registered /\ c.rel \in {"same", "sub"} THEN "NotImplemented" ELSE "Stream"
AvoidVerdict(r) ==
  IF ~r.obs.returned_same THEN "decorator-result"
  ELSE IF r.obs.result # AvoidExpected(r.c) THEN "operand"
  ELSE "ok"
=============================================================================
