----------------------------- MODULE TextX01Q -----------------------------
(* quick tier grid of the extension check X01 *)
EXTENDS TextX01
X01Quick ==
  [g \in {"rint", "aeq", "shz", "midi", "m2s", "f2s", "oct", "frac", "auto", "fmt", "poly", "zf", "table", "doc", "fmtdoc"} |->
     CASE g = "rint" -> RintGrid(11, {1, 2, 4}, {1, 2, 3, 5})
       [] g = "aeq" -> AeqScalar(2)
                 \cup AeqFlat(2, 2)
                 \cup AeqNested(2)
                 \cup AeqBits(0)
       [] g = "shz" -> ShzGrid(0)
       [] g = "midi" -> Str2MidiGrid(1)
                 \cup Midi2FreqGrid(0)
                 \cup Freq2MidiGrid(0)
                 \cup Str2FreqGrid(0)
       [] g = "m2s" -> Midi2StrGrid(-14, 130, 8)
       [] g = "f2s" -> Freq2StrGrid(-57, 50)
       [] g = "oct" -> OctGrid({R(1), R(3), R(8), <<55, 2>>, R(440), <<5, 4>>}, {<<1, 2>>, R(2), R(4), R(20), <<55, 2>>}, {R(5), R(8), R(16), R(20000)})
                 \cup OctBad(0)
       [] g = "frac" -> FracApprox(20, {1, 2, 3, 5, 7, 16, 1000})
                 \cup FracShape(ShapeXs(0), {2, 1000})
       [] g = "auto" -> AutoGrid(1, {6, 20})
                 \cup AutoListGrid(0)
       [] g = "fmt" -> MulFmtGrid(0)
                 \cup PairSumGrid(0)
       [] g = "poly" -> PolyGrid({-1, 0, 1, 2, 5}, 2, 1)
       [] g = "zf" -> ZfGrid(0)
       [] g = "table" -> TableGrid(1, {<<C1(Ch("a")), CM(<<Ch("a"), Ch("bbb")>>)>>, <<C1(Ch("ccc d")), C1(<<>>)>>})
       [] g = "doc" -> DocGrid(1, {5, 8, 80}, {<<>>, Ch("> ")})
       [] g = "fmtdoc" -> FdGrid(2, FdTriples(0))]
=============================================================================
