------------------------------ MODULE TextNum ------------------------------
(***************************************************************************)
(* The small numeric helpers of audiolazy (extension check X01):           *)
(*   lazy_misc.rint, almost_eq.bits / almost_eq.diff, sHz,                 *)
(*   lazy_midi.str2midi / midi2str / midi2freq / freq2midi / str2freq /    *)
(*   freq2str / octaves.                                                   *)
(* Every helper K has an OPERATIONAL layer shaped like the code            *)
(*   KInit(c), KDone(c, s), KStep(c, s), KRes(c, s)   (one KStep per loop  *)
(*   iteration / statement group of the Python function)                   *)
(* and a DEFINITION layer that states the documented behaviour (KDef...).  *)
(* Numbers are exact: integers and normalised rationals (module Rat).      *)
(***************************************************************************)
EXTENDS Chars, FiniteSets

RECURSIVE Iter(_, _, _, _)
\* run a step function to its end: Iter(Done, Step, c, s)
Iter(D(_, _), S(_, _), c, s) == IF D(c, s) THEN s ELSE Iter(D, S, c, S(c, s))

---------------------------------------------------------------------------
(* rint(x, step): case [k |-> "rint", x |-> rational, step |-> integer >= 1]                 *)
RintInit(c) == [ph |-> "divmod"]
RintDone(c, s) == s.ph = "done"
RintStep(c, s) ==
  IF s.ph = "divmod"
  THEN LET div == RFloor(RDiv(c.x, R(c.step)))                        \* divmod(x, step)
       IN [ph |-> "adjust", div |-> div, mod |-> RSub(c.x, R(div * c.step))]
  ELSE LET err  == <<1, 10>>                                          \* min(step / 10., .1), step >= 1
           r0   == R(s.div * c.step)
           r1   == IF c.x[1] > 0 THEN RAdd(r0, err) ELSE IF c.x[1] < 0 THEN RSub(r0, err) ELSE r0
           twom == RMul(R(2), s.mod)
           up   == IF c.x[1] >= 0 THEN RLe(R(c.step), twom) ELSE RLt(R(c.step), twom)
           r2   == IF up THEN RAdd(r1, R(c.step)) ELSE r1
       IN [ph |-> "done", out |-> RTrunc(r2)]                         \* int(result)
RintRes(c, s) == s.out
RintOp(c) == RintRes(c, Iter(RintDone, RintStep, c, RintInit(c)))

\* documented: the step multiple nearest to x; halfway -> the one farthest from zero
RintDef(c) == RInt(RDiv(c.x, R(c.step))) * c.step
RintNearest(c, out) == /\ out % c.step = 0
                       /\ RLe(RMul(R(2), RAbs(RSub(R(out), c.x))), R(c.step))
RintTieAway(c, out) == (RMul(R(2), RAbs(RSub(R(out), c.x))) = R(c.step)) => RLt(RAbs(c.x), RAbs(R(out)))

---------------------------------------------------------------------------
(* almost_eq: values are leaves [t |-> "int"|"float", v |-> integer] (the number v * 2^-unit)  *)
(* or containers [t |-> "list"|"tuple", items |-> sequence of values].                         *)
(* case [k |-> "aeq", strat |-> "bits"|"diff", a, b, bits, tol, md (max_diff in units),        *)
(*       ign |-> BOOLEAN (ignore_type), pad |-> leaf]                                          *)
IsIter(x)   == x.t \in {"list", "tuple"}
FloatZero   == [t |-> "float", v |-> 0]
SigBits(b)  == CASE b = 32 -> 23 [] b = 64 -> 52 [] b = 80 -> 63 [] b = 128 -> 112
AeqPower(c) == c.tol - SigBits(c.bits) - 1
AeqClose(c, x, y) ==
  IF c.strat = "diff" THEN Abs(x - y) <= c.md
  ELSE LET p == AeqPower(c) IN
       IF p <= 0 THEN Abs(x - y) * 2^(-p) <= Abs(x + y) ELSE Abs(x - y) <= 2^p * Abs(x + y)
ItemOr(x, i, pad) == IF i <= Len(x.items) THEN x.items[i] ELSE pad

RECURSIVE AeqRec(_, _, _, _)
\* the code: type test, iterable test, zip_longest with the pad (the recursive call does not forward
\* `pad`, so inner levels are padded with the default 0.)
AeqRec(c, a, b, pad) ==
  IF ~(c.ign \/ a.t = b.t) THEN FALSE
  ELSE IF IsIter(a) # IsIter(b) THEN FALSE
  ELSE IF IsIter(a)
       THEN \A i \in 1..MaxI(Len(a.items), Len(b.items)) :
              AeqRec(c, ItemOr(a, i, pad), ItemOr(b, i, pad), FloatZero)
       ELSE AeqClose(c, a.v, b.v)
AeqInit(c) == [ph |-> "call"]
AeqDone(c, s) == s.ph = "done"
AeqStep(c, s) == [ph |-> "done", out |-> AeqRec(c, c.a, c.b, c.pad)]
AeqRes(c, s) == s.out
AeqOp(c) == AeqRec(c, c.a, c.b, c.pad)

\* definition layer (no recursion, depth <= 2): an element-wise comparison of the padded operands
LeafEq(c, x, y) == /\ ~IsIter(x) /\ ~IsIter(y) /\ (c.ign \/ x.t = y.t) /\ AeqClose(c, x.v, y.v)
FlatEq(c, x, y, pad) ==          \* x, y both leaves or both flat containers
  IF IsIter(x) /\ IsIter(y)
  THEN /\ (c.ign \/ x.t = y.t)
       /\ \A i \in 1..MaxI(Len(x.items), Len(y.items)) : LeafEq(c, ItemOr(x, i, pad), ItemOr(y, i, pad))
  ELSE LeafEq(c, x, y)
AeqDef(c) ==
  IF IsIter(c.a) /\ IsIter(c.b)
  THEN /\ (c.ign \/ c.a.t = c.b.t)
       /\ \A i \in 1..MaxI(Len(c.a.items), Len(c.b.items)) :
            FlatEq(c, ItemOr(c.a, i, c.pad), ItemOr(c.b, i, c.pad), FloatZero)
  ELSE LeafEq(c, c.a, c.b)
\* the documentation promises padding with `pad`; whether INNER levels use it too is left open
AeqInnerPadOpen(c) ==
  /\ c.pad.v # 0 /\ IsIter(c.a) /\ IsIter(c.b)
  /\ \E i \in 1..MinI(Len(c.a.items), Len(c.b.items)) :
       /\ IsIter(c.a.items[i]) /\ IsIter(c.b.items[i])
       /\ Len(c.a.items[i].items) # Len(c.b.items[i].items)
Swapped(c) == [c EXCEPT !.a = c.b, !.b = c.a]
Strict(c)  == [c EXCEPT !.ign = FALSE]
Loose(c)   == [c EXCEPT !.ign = TRUE]

---------------------------------------------------------------------------
(* sHz(rate): case [k |-> "shz", rate |-> rational > 0];  Hz is reported as the multiple of pi   *)
ShzOp(c)  == [s |-> c.rate, hzpi |-> RDiv(R(2), c.rate)]

---------------------------------------------------------------------------
(* MIDI numbers and note names.  A pitch value is [t |-> "num", v |-> rational] or one of the   *)
(* specials [t |-> "nan"], [t |-> "inf"], [t |-> "ninf"], [t |-> "error"].                       *)
Num(v)    == [t |-> "num", v |-> v]
Special(n) == [t |-> n]
NameDelta(ch) == CASE ch = "c" -> -9 [] ch = "d" -> -7 [] ch = "e" -> -5 [] ch = "f" -> -4
                   [] ch = "g" -> -2 [] ch = "a" -> 0 [] ch = "b" -> 2
AccSet == {"b", "#", "x"}
AccDelta(ch) == CASE ch = "b" -> -1 [] ch = "#" -> 1 [] ch = "x" -> 2
RECURSIVE AccSum(_)
AccSum(s) == IF s = <<>> THEN 0 ELSE AccDelta(s[1]) + AccSum(Tail(s))

\* str2midi as the code does it: "?" -> nan; strip, lower, name = first char, accidents = takewhile,
\* the rest through int()
Str2MidiOp(str) ==
  IF str = <<"?">> THEN Special("nan")
  ELSE LET data == LowerStr(Strip(str)) IN
       IF data = <<>> THEN Special("error")
       ELSE LET na   == LeadIn(Tail(data), AccSet)
                rest == Strip(Drop(data, na + 1))
            IN IF ~IsIntText(rest) \/ data[1] \notin {"a", "b", "c", "d", "e", "f", "g"} THEN Special("error")
               ELSE Num(R(69 + NameDelta(data[1]) + AccSum(SubSeq(data, 2, na + 1)) + 12 * (IntVal(rest) - 4)))

\* definition: note-name grammar  letter accidental* octave ; pitch = 12*(octave+1) + semitone + accidentals
Semitone(ch) == CASE ch = "c" -> 0 [] ch = "d" -> 2 [] ch = "e" -> 4 [] ch = "f" -> 5
                  [] ch = "g" -> 7 [] ch = "a" -> 9 [] ch = "b" -> 11
InGrammar(str) ==
  LET d == LowerStr(Strip(str)) IN
  /\ Len(d) >= 2 /\ d[1] \in {"a", "b", "c", "d", "e", "f", "g"}
  /\ \E n \in 0..(Len(d) - 2) : /\ \A i \in 2..(n + 1) : d[i] \in AccSet
                                /\ IsIntText(Drop(d, n + 1))
Str2MidiDef(str) ==
  LET d == LowerStr(Strip(str))
      n == CHOOSE n \in 0..(Len(d) - 2) : (\A i \in 2..(n + 1) : d[i] \in AccSet) /\ IsIntText(Drop(d, n + 1))
  IN 12 * (IntVal(Drop(d, n + 1)) + 1) + Semitone(d[1]) + AccSum(SubSeq(d, 2, n + 1))

SharpNames == <<<<"C">>, <<"C", "#">>, <<"D">>, <<"D", "#">>, <<"E">>, <<"F">>, <<"F", "#">>, <<"G">>,
                <<"G", "#">>, <<"A">>, <<"A", "#">>, <<"B">>>>
FlatNames  == <<<<"C">>, <<"D", "b">>, <<"D">>, <<"E", "b">>, <<"E">>, <<"F">>, <<"G", "b">>, <<"G">>,
                <<"A", "b">>, <<"A">>, <<"B", "b">>, <<"B">>>>

\* midi2str: case [k |-> "midi2str", m |-> pitch value, sharp |-> BOOLEAN]
M2sInit(c) == [ph |-> IF c.m.t = "num" THEN "note" ELSE "special"]
M2sDone(c, s) == s.ph = "done"
M2sStep(c, s) ==
  IF s.ph = "special" THEN [ph |-> "done", out |-> <<"?">>]
  ELSE IF s.ph = "note"
  THEN LET num  == RSub(c.m.v, R(12))                                       \* midi - (69 - 48 - 9)
           note == RSub(RMod(RAdd(num, <<1, 2>>), R(12)), <<1, 2>>)         \* (num + .5) % 12 - .5
       IN [ph |-> "round", num |-> num, note |-> note]
  ELSE IF s.ph = "round"
  THEN LET rn == RoundHalfEven(s.note[1], s.note[2])                        \* int(round(note))
       IN [ph |-> "name", rnote |-> rn, error |-> RSub(s.note, R(rn)),
           octave |-> RInt(RDiv(RSub(s.num, s.note), R(12)))]
  ELSE LET nm == (IF c.sharp THEN SharpNames ELSE FlatNames)[s.rnote + 1] \o IntStr(s.octave)
       IN [ph |-> "done",
           out |-> IF RLt(RAbs(s.error), <<1, 10000>>) THEN nm
                   ELSE nm \o (IF s.error[1] > 0 THEN <<"+">> ELSE <<"-">>)
                           \o Round2Str(RMul(R(100), RAbs(s.error))) \o <<"%">>]
M2sRes(c, s) == s.out
Midi2StrOp(c) == M2sRes(c, Iter(M2sDone, M2sStep, c, M2sInit(c)))

\* definition: the text DENOTES a pitch: name (by the grammar above) plus/minus a percentage of a semitone
LastSign(str) == LET P == {i \in DOMAIN str : str[i] \in {"+", "-"}} IN
                 IF P = {} THEN 0 ELSE CHOOSE i \in P : \A j \in P : j <= i
NameDenotes(str) ==       \* [ok, v]
  IF str # <<>> /\ str[Len(str)] = "%"
  THEN LET p   == LastSign(str)
           pct == ReadNum(SubSeq(str, p + 1, Len(str) - 1))
           bas == Take(str, p - 1)
       IN IF p < 2 \/ ~pct.ok \/ ~InGrammar(bas) THEN Bad
          ELSE Good(IF str[p] = "+" THEN RAdd(R(Str2MidiDef(bas)), RDiv(pct.v, R(100)))
                    ELSE RSub(R(Str2MidiDef(bas)), RDiv(pct.v, R(100))))
  ELSE IF InGrammar(str) THEN Good(R(Str2MidiDef(str))) ELSE Bad
NamePercent(str) == IF str # <<>> /\ str[Len(str)] = "%"
                    THEN ReadNum(SubSeq(str, LastSign(str) + 1, Len(str) - 1)).v ELSE RZero
\* the name is within 1e-4 (suppressed deviation) + 0.005 % (two printed decimals) of the number
M2sDenotes(c, out) ==
  IF c.m.t # "num" THEN out = <<"?">>
  ELSE LET d == NameDenotes(out) IN
       /\ d.ok
       /\ RLe(RAbs(RSub(d.v, c.m.v)), <<3, 20000>>)
       /\ RLe(NamePercent(out), R(50))
       /\ (c.sharp => \A i \in 2..Len(out) : out[i] # "b")
       /\ (~c.sharp => \A i \in DOMAIN out : out[i] # "#")
       /\ out[1] \in {"A", "B", "C", "D", "E", "F", "G"}

\* frequencies are written 440 * 2^(tw/12): value [t |-> "a4", tw |-> rational] or
\* [t |-> "zero"], [t |-> "neg"], [t |-> "inf"], [t |-> "ninf"], [t |-> "nan"]
Midi2FreqOp(m) == CASE m.t = "num"  -> [t |-> "a4", tw |-> RSub(m.v, R(69))]
                    [] m.t = "inf"  -> [t |-> "inf"]
                    [] m.t = "ninf" -> [t |-> "zero"]
                    [] m.t = "error" -> [t |-> "error"]
                    [] OTHER        -> [t |-> "nan"]
Freq2MidiOp(f) == CASE f.t = "a4"   -> Num(RAdd(R(69), f.tw))
                    [] f.t = "inf"  -> Special("inf")
                    [] f.t = "zero" -> Special("ninf")
                    [] OTHER        -> Special("nan")          \* negative, -inf, nan
Str2FreqOp(str) == Midi2FreqOp(Str2MidiOp(str))
Freq2StrOp(f)   == Midi2StrOp([k |-> "midi2str", m |-> Freq2MidiOp(f), sharp |-> TRUE])

---------------------------------------------------------------------------
(* octaves(freq, fmin, fmax): case [k |-> "octaves", f, lo, hi : rationals]                       *)
OctInit(c) == [ph |-> "validate", f |-> c.f]
OctDone(c, s) == s.ph = "done"
RECURSIVE OctDownList(_, _)
OctDownList(f, lo) == IF RLt(lo, f) THEN OctDownList(RDiv(f, R(2)), lo) \o <<f>> ELSE <<>>   \* takewhile(x > fmin)[::-1]
RECURSIVE OctUpList(_, _)
OctUpList(f, hi)   == IF RLt(f, hi) THEN <<f>> \o OctUpList(RMul(f, R(2)), hi) ELSE <<>>      \* takewhile(x < fmax)
OctStep(c, s) ==
  IF s.ph = "validate"
  THEN IF c.f[1] <= 0 \/ c.lo[1] <= 0 \/ c.hi[1] <= 0 THEN [ph |-> "done", err |-> "ValueError", out |-> <<>>]
       ELSE [ph |-> "up", f |-> c.f]
  ELSE IF s.ph = "up"
  THEN IF RLt(s.f, c.lo) THEN [ph |-> "up", f |-> RMul(s.f, R(2))] ELSE [ph |-> "down", f |-> s.f]
  ELSE IF s.ph = "down"
  THEN IF RLt(c.hi, s.f) THEN [ph |-> "down", f |-> RDiv(s.f, R(2))] ELSE [ph |-> "list", f |-> s.f]
  ELSE IF RLt(s.f, c.lo) THEN [ph |-> "done", err |-> "none", out |-> <<>>]          \* gone back and forth
       ELSE [ph |-> "done", err |-> "none",
             out |-> OctDownList(s.f, c.lo) \o OctUpList(RMul(s.f, R(2)), c.hi)]
OctRes(c, s) == [err |-> s.err, out |-> s.out]
OctavesOp(c) == OctRes(c, Iter(OctDone, OctStep, c, OctInit(c)))

\* definition: every freq * 2^k inside the range, ascending.  The documentation does not say whether the
\* end points belong to the range: they are left open (must contain the open set, stay inside the closed).
IsPow2(n) == \E k \in 0..30 : n = 2^k
OctaveOf(x, f) == LET q == RDiv(x, f) IN (q[1] = 1 /\ IsPow2(q[2])) \/ (q[2] = 1 /\ IsPow2(q[1]))
OctValid(c) == c.f[1] > 0 /\ c.lo[1] > 0 /\ c.hi[1] > 0
RECURSIVE OctCountOpen(_, _, _)
\* number of octaves strictly inside the range, starting from the smallest octave above lo
OctLeast(c) == LET up == Iter(LAMBDA cc, s : ~RLe(s, cc.lo), LAMBDA cc, s : RMul(s, R(2)), c, c.f)
               IN Iter(LAMBDA cc, s : RLe(RDiv(s, R(2)), cc.lo), LAMBDA cc, s : RDiv(s, R(2)), c, up)
OctCountOpen(c, x, n) == IF RLt(x, c.hi) THEN OctCountOpen(c, RMul(x, R(2)), n + 1) ELSE n
OctDefOK(c, r) ==
  IF ~OctValid(c) THEN r.err = "ValueError"
  ELSE /\ r.err = "none"
       /\ \A i \in DOMAIN r.out : RLe(c.lo, r.out[i]) /\ RLe(r.out[i], c.hi)          \* inside the closed range
       /\ \A i \in 1..(Len(r.out) - 1) : r.out[i + 1] = RMul(r.out[i], R(2))           \* ascending octaves
       /\ (r.out # <<>> => OctaveOf(r.out[1], c.f))
       /\ LET least == OctLeast(c)                                                     \* smallest octave > lo
              n     == OctCountOpen(c, least, 0)
          IN \A j \in 0..(n - 1) : \E i \in DOMAIN r.out : r.out[i] = RMul(least, R(2^j))
=============================================================================
