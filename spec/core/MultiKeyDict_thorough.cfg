CONSTANTS
  Keys = {"a", "b", "c", "d"}
  Values = {"v1", "v2", "v3"}
  MaxTuple = 2
INIT Init
NEXT Next
VIEW View
INVARIANT TypeOK
INVARIANT Coherent
INVARIANT OneTuplePerValue
INVARIANT LenCountsValues
PROPERTY LastWriteWins
PROPERTY OrderIsRecency
PROPERTY DelMissingRaises
CHECK_DEADLOCK FALSE
