----------------------------- MODULE OpGetX05T -----------------------------
(* X05 thorough grid of OpGet: all pairs over the whole pool, all triples over an 8-value sub-pool, every    *)
(* form; `without`: None, 14 single values, 9 queries of two or three values.                               *)
EXTENDS OpGet, OpGrid

TTriplePool == {S("-"), S("radd"), S("r"), TInt(1), TFn("__sub__"), S("__div__"), S("nope"), S("all")}
TWo == {TNone, S("r"), S("+"), S("add"), TInt(1), S("2"), TFn("__sub__"), S("foo"), S("rdiv"), S("all"), TInt(2), S("1"),
        S("__rshift__"), TFn("__abs__"), S("~"),
        S("- + *"), KSeq(<<TFn("__add__"), S("r")>>), KSeq(<<S("pos"), TInt(7)>>), S(""), KSeq(<<>>),
        KSeq(<<S("- + *"), S("%"), S("r")>>), S("r 1"), KSeq(<<TInt(1), S("== != foo")>>), KSeq(<<TList>>)}
TKeys == {TNone, S(""), S(" \t"), KSeq(<<>>), KSeq(<<S("")>>), KSeq(<<S(" "), S("")>>)}
         \cup KeysOfAll(Seqs1(Pool(0)) \cup Seqs2(Pool(0)) \cup Seqs3(TTriplePool))
=============================================================================
