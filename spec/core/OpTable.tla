------------------------------ MODULE OpTable ------------------------------
(***************************************************************************)
(* audiolazy.lazy_core.OpMethod (extension check X05, first half): the     *)
(* table of operator methods and the query language of                     *)
(* OpMethod.get(key, without).  Constant level only (no variables): the    *)
(* generator machine is in OpGet.tla, class construction in OpBuild.tla /  *)
(* OpClass.tla, the judge of recorded executions in trace/OpTableTrace.tla.*)
(*                                                                         *)
(* Operational layer (shaped like the code)                                *)
(*   OpSymbols    the text of `_initialize` (one line per symbol)          *)
(*   MkRow        the RULES of `_insert` (rev / dname / arity / func are   *)
(*                computed from the name, nothing is copied from a run)    *)
(*   InsertOp     the update of the dictionary `_all` (key list, create or *)
(*                append), an operator method = its insertion index        *)
(*   Toks         str.split() of strings / chain over iterables            *)
(*   TokStep, GetFrom, RunGet   the generator body of `get`                *)
(* Definition layer (shaped like the documented contract of `get`)         *)
(*   Matches      which operator a single query value selects              *)
(*   DefWords     "whitespace-separated query names"                       *)
(*   DefGet       per query value, the matching operators in table order,  *)
(*                minus everything `without` selects                       *)
(* Strings are native TLC strings (Len / SubSeq / \o work on them).        *)
(***************************************************************************)
EXTENDS Integers, Sequences, FiniteSets, TLC

---------------------------------------------------------------------------
(* native strings                                                          *)
Blank      == {" ", "\t", "\n", "\r"}            \* the whitespace the case grids use (str.split() knows more)
ChAt(s, i) == SubSeq(s, i, i)
StartsWithCh(s, c) == Len(s) >= 1 /\ ChAt(s, 1) = c
DigitSeq   == <<"0", "1", "2", "3", "4", "5", "6", "7", "8", "9">>
RECURSIVE NatStr(_)
NatStr(n)  == IF n < 10 THEN DigitSeq[n + 1] ELSE NatStr(n \div 10) \o DigitSeq[(n % 10) + 1]
IntStr(i)  == IF i < 0 THEN "-" \o NatStr(-i) ELSE NatStr(i)              \* "{}".format(int)

RECURSIVE WordsFrom(_, _, _, _)
\* str.split(): scan from position i; start = first position of the word being read (0 = between words)
WordsFrom(s, i, start, acc) ==
  IF i > Len(s) THEN (IF start = 0 THEN acc ELSE Append(acc, SubSeq(s, start, Len(s))))
  ELSE IF ChAt(s, i) \in Blank
       THEN WordsFrom(s, i + 1, 0, IF start = 0 THEN acc ELSE Append(acc, SubSeq(s, start, i - 1)))
       ELSE WordsFrom(s, i + 1, IF start = 0 THEN i ELSE start, acc)
Words(s) == WordsFrom(s, 1, 0, <<>>)

SeqRange(s) == {s[i] : i \in DOMAIN s}
RECURSIVE FlatFrom(_, _)
FlatFrom(ss, i) == IF i > Len(ss) THEN <<>> ELSE ss[i] \o FlatFrom(ss, i + 1)
Flat(ss) == FlatFrom(ss, 1)                                               \* itertools.chain.from_iterable

---------------------------------------------------------------------------
(* query values                                                            *)
(* A token (one element the loop of `get` looks up in `_all`):             *)
(*   [k |-> "str", s |-> text]   a string                                  *)
(*   [k |-> "int", n |-> i]      an int                                    *)
(*   [k |-> "fn",  s |-> name]   the function `name` of module operator    *)
(*   [k |-> "none"]              None (inside an iterable)                 *)
(*   [k |-> "list"]              a list inside an iterable (unhashable)    *)
(* A key (what is passed as `key` / `without` / `__operators__`):          *)
(*   a token of kind none / str / int / fn, or                             *)
(*   [k |-> "seq", items |-> <<token, ...>>]  a non-string iterable        *)
(* every record carries all four fields so that they compare as values.    *)
Tk(k, s, n)  == [k |-> k, s |-> s, n |-> n, items |-> <<>>]
TStr(s)      == Tk("str", s, 0)
TInt(n)      == Tk("int", "", n)
TFn(f)       == Tk("fn", f, 0)
TNone        == Tk("none", "", 0)
TList        == Tk("list", "", 0)
KSeq(items)  == [k |-> "seq", s |-> "", n |-> 0, items |-> items]

\* `if isinstance(key, STR_TYPES) or not isinstance(key, Iterable): key = [key]` and then
\* `chain.from_iterable(el.split() if isinstance(el, STR_TYPES) else [el] for el in key)`
ElemToks(e) == IF e.k = "str" THEN [i \in DOMAIN Words(e.s) |-> TStr(Words(e.s)[i])] ELSE <<e>>
Toks(key)   == IF key.k = "seq" THEN Flat([i \in DOMAIN key.items |-> ElemToks(key.items[i])])
               ELSE ElemToks(key)

---------------------------------------------------------------------------
(* the table: text of OpMethod._initialize (lazy_core.py:184-206)          *)
HasMatmul == TRUE                                   \* lazy_compat.HAS_MATMUL: Python >= 3.5
OpSymbols ==
  << "+ add radd pos",
     "- sub rsub neg",
     "* mul rmul",
     "/ truediv rtruediv",
     "// floordiv rfloordiv",
     "% mod rmod",
     "** pow rpow",
     ">> rshift rrshift",
     "<< lshift rlshift",
     "~ invert",
     "& and rand",
     "| or ror",
     "^ xor rxor",
     "< lt",
     "<= le",
     "== eq",
     "!= ne",
     "> gt",
     ">= ge" >> \o (IF HasMatmul THEN << "@ matmul rmatmul" >> ELSE << >>)

\* OpMethod._insert(name, symbol), lazy_core.py:158-165
MkRow(name, symbol) ==
  LET rev == StartsWithCh(name, "r") /\ name # "rshift" IN
  [name   |-> name,
   symbol |-> symbol,
   rev    |-> rev,
   dname  |-> "__" \o name \o "__",
   arity  |-> IF name \in {"pos", "neg", "invert"} THEN 1 ELSE 2,
   func   |-> "__" \o (IF rev THEN SubSeq(name, 2, Len(name)) ELSE name) \o "__"]   \* name[self.rev:]

\* keys under which `_insert` files the new instance (lazy_core.py:168-171)
InsertKeys(row) ==
  << TStr("all"), TStr(row.symbol), TStr(row.name), TStr(row.dname), TFn(row.func),
     TInt(row.arity), TStr(IntStr(row.arity)) >> \o (IF row.rev THEN << TStr("r") >> ELSE << >>)

RECURSIVE AddKeys(_, _, _, _)
\* `if key not in cls._all: cls._all[key] = [self]  else: cls._all[key].append(self)`
AddKeys(idx, keys, j, r) ==
  IF j > Len(keys) THEN idx
  ELSE AddKeys(IF keys[j] \in DOMAIN idx THEN [idx EXCEPT ![keys[j]] = Append(@, r)]
               ELSE (keys[j] :> <<r>>) @@ idx, keys, j + 1, r)

EmptyIdx == [x \in {} |-> <<>>]
InsertOp(tb, name, symbol) ==
  LET row == MkRow(name, symbol)
      r   == Len(tb.rows) + 1                        \* the new instance
  IN [rows |-> Append(tb.rows, row), idx |-> AddKeys(tb.idx, InsertKeys(row), 1, r)]

RECURSIVE InsertNames(_, _, _)
\* `symbol, names = op_line.split(None, 1)`, `for name in names.split(): cls._insert(name, symbol)`
InsertNames(tb, ws, j) == IF j > Len(ws) THEN tb ELSE InsertNames(InsertOp(tb, ws[j], ws[1]), ws, j + 1)
RECURSIVE InsertLines(_, _, _)
InsertLines(tb, lines, i) ==
  IF i > Len(lines) THEN tb ELSE InsertLines(InsertNames(tb, Words(lines[i]), 2), lines, i + 1)

Table  == InsertLines([rows |-> <<>>, idx |-> EmptyIdx], OpSymbols, 1)
Rows   == Table.rows                                 \* instance r = Rows[r]
AllIdx == Table.idx                                  \* OpMethod._all
NRows  == Len(Rows)
Repr(row) == "<" \o row.name \o " operator method ('" \o row.symbol \o "' symbol)>"     \* __repr__

AllDnames == {Rows[r].dname : r \in 1..NRows}
\* the functions module `operator` offers under double-underscore names (Python 3.12; transcribed, used only to
\* state that `getattr(operator, ...)` of _insert finds every function it asks for)
OperatorDunders ==
  {"__abs__", "__add__", "__and__", "__call__", "__concat__", "__contains__", "__delitem__", "__eq__",
   "__floordiv__", "__ge__", "__getitem__", "__gt__", "__iadd__", "__iand__", "__iconcat__", "__ifloordiv__",
   "__ilshift__", "__imatmul__", "__imod__", "__imul__", "__index__", "__inv__", "__invert__", "__ior__",
   "__ipow__", "__irshift__", "__isub__", "__itruediv__", "__ixor__", "__le__", "__lshift__", "__lt__",
   "__matmul__", "__mod__", "__mul__", "__ne__", "__neg__", "__not__", "__or__", "__pos__", "__pow__",
   "__rshift__", "__setitem__", "__sub__", "__truediv__", "__xor__"}

---------------------------------------------------------------------------
(* results and errors                                                      *)
NoErr         == [t |-> "none", msg |-> ""]
Err(t, msg)   == [t |-> t, msg |-> msg]
\* "{}".format(op_descr) of a token
TokText(t) == CASE t.k = "str"  -> t.s
                [] t.k = "int"  -> IntStr(t.n)
                [] t.k = "fn"   -> "<built-in function " \o SubSeq(t.s, 3, Len(t.s) - 2) \o ">"
                [] t.k = "none" -> "None"
                [] OTHER        -> "?"
DivNames == {"div", "__div__", "rdiv", "__rdiv__"}
\* the `except KeyError:` branch (lazy_core.py:152-155)
UnknownErr(t) == IF t.k = "str" /\ t.s \in DivNames THEN Err("ValueError", "Use only 'truediv' for division")
                 ELSE Err("ValueError", "Operator '" \o TokText(t) \o "' unknown")
\* `cls._all[op_descr]` with an unhashable op_descr: Python's own TypeError (message not modelled)
UnhashErr == Err("TypeError", "")

---------------------------------------------------------------------------
(* operational layer of `get`                                              *)
RECURSIVE Scan(_, _, _)
\* `for op in cls._all[op_descr]: if op not in ignore: yield op`
Scan(lst, j, ign) == IF j > Len(lst) THEN <<>>
                     ELSE (IF lst[j] \in ign THEN <<>> ELSE <<lst[j]>>) \o Scan(lst, j + 1, ign)

\* one turn of `for op_descr in key:` -> what is yielded during it and the exception that ends it
TokStep(t, ign) ==
  IF t.k = "list" THEN [out |-> <<>>, err |-> UnhashErr]
  ELSE IF t \in DOMAIN AllIdx THEN [out |-> Scan(AllIdx[t], 1, ign), err |-> NoErr]
  ELSE [out |-> <<>>, err |-> UnknownErr(t)]

RECURSIVE GetFrom(_, _, _, _)
GetFrom(toks, i, ign, acc) ==
  IF i > Len(toks) THEN [out |-> acc, err |-> NoErr]
  ELSE LET s == TokStep(toks[i], ign) IN
       IF s.err # NoErr THEN [out |-> acc, err |-> s.err]
       ELSE GetFrom(toks, i + 1, ign, acc \o s.out)

\* `ignore = set() if without is None else set(cls.get(without))`: the inner call runs to its end (or raises)
IgnoreOf(wo) == IF wo.k = "none" THEN [out |-> <<>>, err |-> NoErr] ELSE GetFrom(Toks(wo), 1, {}, <<>>)

\* a complete iteration of get(key, without): items yielded (instances, in order) and how it ended
RunGet(key, wo) ==
  LET w == IgnoreOf(wo) IN
  IF w.err # NoErr THEN [out |-> <<>>, err |-> w.err]                  \* raised by the first next()
  ELSE IF key.k = "none" THEN [out |-> <<>>, err |-> NoErr]             \* `if key is None: return`
  ELSE GetFrom(Toks(key), 1, SeqRange(w.out), <<>>)

---------------------------------------------------------------------------
(* definition layer of `get`: the documented query language                *)
\* what a single query value selects (docstring of OpMethod.get, the bullet list)
Matches(t, row) ==
  \/ /\ t.k = "str"
     /\ \/ t.s = "all"                                  \* every operator available
        \/ t.s = row.symbol                             \* "+", "&", "**": binary, reversed and unary of the symbol
        \/ t.s = row.name \/ t.s = row.dname            \* names "with or without the double underscores"
        \/ t.s = "r" /\ row.rev                         \* only the reversed operators
        \/ t.s = "1" /\ row.arity = 1
        \/ t.s = "2" /\ row.arity = 2
  \/ t.k = "int" /\ t.n = row.arity                     \* 1 unary, 2 binary (including reversed binary)
  \/ t.k = "fn" /\ t.s = row.func                       \* operator.__add__: "it and the reversed"
Known(t)  == \E r \in 1..NRows : Matches(t, Rows[r])
DefSel(t) == SelectSeq([r \in 1..NRows |-> r], LAMBDA r : Matches(t, Rows[r]))       \* table order

\* "a string with whitespace-separated query names": the maximal blank-free pieces, left to right --
\* the k-th piece runs from the k-th position where a piece begins to the k-th position where one ends
RECURSIVE Ascending(_)
Ascending(P) == IF P = {} THEN <<>> ELSE LET m == CHOOSE x \in P : \A y \in P : x <= y IN <<m>> \o Ascending(P \ {m})
DefWords(s) ==
  LET NonBl(i) == ChAt(s, i) \notin Blank
      begins == Ascending({i \in 1..Len(s) : NonBl(i) /\ (i = 1 \/ ~NonBl(i - 1))})
      ends   == Ascending({i \in 1..Len(s) : NonBl(i) /\ (i = Len(s) \/ ~NonBl(i + 1))})
  IN [k \in DOMAIN begins |-> SubSeq(s, begins[k], ends[k])]
DefElemToks(e) == IF e.k = "str" THEN [i \in DOMAIN DefWords(e.s) |-> TStr(DefWords(e.s)[i])] ELSE <<e>>
DefToks(key)   == IF key.k = "seq" THEN Flat([i \in DOMAIN key.items |-> DefElemToks(key.items[i])])
                  ELSE DefElemToks(key)
Valid(t)   == t.k # "list" /\ Known(t)
DefErr(t)  == IF t.k = "list" THEN UnhashErr ELSE UnknownErr(t)
FirstBad(ts) == IF \A i \in DOMAIN ts : Valid(ts[i]) THEN 0
                ELSE CHOOSE i \in DOMAIN ts : ~Valid(ts[i]) /\ \A j \in 1..(i - 1) : Valid(ts[j])

DefGet(key, wo) ==
  LET wt == IF wo.k = "none" THEN <<>> ELSE DefToks(wo)
      kt == IF key.k = "none" THEN <<>> ELSE DefToks(key)
      Excluded(r) == \E i \in DOMAIN wt : Matches(wt[i], Rows[r])
      bw == FirstBad(wt)
      bk == FirstBad(kt)
      n  == IF bk = 0 THEN Len(kt) ELSE bk - 1          \* the query values answered before the bad one
  IN IF bw # 0 THEN [out |-> <<>>, err |-> DefErr(wt[bw])]
     ELSE [out |-> Flat([i \in 1..n |-> SelectSeq(DefSel(kt[i]), LAMBDA r : ~Excluded(r))]),
           err |-> IF bk = 0 THEN NoErr ELSE DefErr(kt[bk])]

\* the query values of a key select pairwise disjoint sets of operators ("matches the query once")
DisjointQuery(key) ==
  LET kt == IF key.k = "none" THEN <<>> ELSE DefToks(key) IN
  \A i, j \in DOMAIN kt : i < j => ~\E r \in 1..NRows : Matches(kt[i], Rows[r]) /\ Matches(kt[j], Rows[r])
NoRepeat(s) == \A i, j \in DOMAIN s : i < j => s[i] # s[j]

---------------------------------------------------------------------------
(* facts about the table (constant-level invariants; the docstrings' own examples are among them)           *)
Names(res) == [i \in DOMAIN res.out |-> Rows[res.out[i]].name]
Q(s)       == RunGet(TStr(s), TNone)

\* the dictionary built by the insertions is the relation of the definition layer
IndexIsMatch ==
  /\ \A t \in DOMAIN AllIdx : AllIdx[t] = DefSel(t) /\ AllIdx[t] # <<>>
  /\ \A r \in 1..NRows : \A j \in DOMAIN InsertKeys(Rows[r]) : InsertKeys(Rows[r])[j] \in DOMAIN AllIdx

KindOK(row) == <<row.rev, row.arity>> \in {<<FALSE, 1>>, <<FALSE, 2>>, <<TRUE, 2>>}
TableFacts ==
  /\ NRows = IF HasMatmul THEN 35 ELSE 33
  /\ \A r, q \in 1..NRows : r # q => Rows[r].name # Rows[q].name /\ Rows[r].dname # Rows[q].dname
  /\ \A r \in 1..NRows : Rows[r].func \in OperatorDunders /\ KindOK(Rows[r])
  /\ {Rows[r].name : r \in {q \in 1..NRows : Rows[q].arity = 1}} = {"pos", "neg", "invert"}
  \* a reversed operator is the mirror of the forward one: same symbol, same function, name "r" + name
  /\ \A r \in 1..NRows : Rows[r].rev =>
        \E q \in 1..NRows : /\ ~Rows[q].rev /\ Rows[q].arity = 2 /\ Rows[r].name = "r" \o Rows[q].name
                            /\ Rows[q].symbol = Rows[r].symbol /\ Rows[q].func = Rows[r].func /\ q < r
  /\ \A r \in 1..NRows : ~Rows[r].rev => Rows[r].func = Rows[r].dname
  /\ Cardinality({r \in 1..NRows : Rows[r].rev}) = IF HasMatmul THEN 13 ELSE 12
  \* comparisons have no reversed form
  /\ \A r \in 1..NRows : Rows[r].symbol \in {"<", "<=", "==", "!=", ">", ">="} => ~Rows[r].rev /\ Rows[r].arity = 2

\* "the yielding order is <binary>, <reversed binary> and <unary>" for the methods of one symbol
RankOf(row) == IF row.arity = 1 THEN 3 ELSE IF row.rev THEN 2 ELSE 1
SymbolOrder ==
  \A r \in 1..NRows :
    LET res == Q(Rows[r].symbol).out IN
    /\ \A i, j \in DOMAIN res : i < j => RankOf(Rows[res[i]]) < RankOf(Rows[res[j]])
    /\ \A i \in DOMAIN res : Rows[res[i]].symbol = Rows[r].symbol
    /\ r \in SeqRange(res)

\* the examples of the docstrings of OpMethod and OpMethod.get
DocExamples ==
  /\ Names(Q("*")) = <<"mul", "rmul">>
  /\ Len(Q(">>").out) = 2
  /\ Names(Q("__add__")) = <<"add">> /\ Rows[Q("__add__").out[1]].func = "__add__"
  /\ Rows[Q("rsub").out[1]].symbol = "-"
  /\ LET mod == Q("%").out IN ~Rows[mod[1]].rev /\ Rows[mod[2]].rev /\ Rows[mod[2]].arity = 2
  /\ LET add == Q("+").out IN Rows[add[3]].arity = 1 /\ add[3] = Q("pos").out[1]
  /\ LET f == RunGet(TFn("__add__"), TNone).out IN Rows[f[1]].symbol = "+" /\ Len(f) = 2
  /\ Len(Q("<< >>").out) = 4
  /\ Len(RunGet(TStr("<< >>"), TStr("r")).out) = 2
  /\ Names(RunGet(KSeq(<<TStr("+"), TStr("&")>>), KSeq(<<TFn("__add__"), TStr("r")>>))) = <<"pos", "and">>
  /\ Cardinality(SeqRange(RunGet(TInt(2), KSeq(<<TStr("- + *"), TStr("%"), TStr("r")>>)).out))
       = IF HasMatmul THEN 15 ELSE 14
  /\ Cardinality(SeqRange(Q("all").out)) = NRows
  \* the example row of the class docstring: OpMethod.get("__radd__")
  /\ LET op == Rows[Q("__radd__").out[1]] IN
       op.name = "radd" /\ op.dname = "__radd__" /\ op.func = "__add__" /\ op.symbol = "+" /\ op.rev /\ op.arity = 2
  /\ RunGet(TNone, TNone) = [out |-> <<>>, err |-> NoErr]

\* the texts of the exceptions, spelled out (lazy_core.py:153-155; the docstring of the metaclass: "Don't use div!")
ErrorTexts ==
  /\ \A w \in {"div", "__div__", "rdiv", "__rdiv__"} :
        /\ Q(w) = [out |-> <<>>, err |-> Err("ValueError", "Use only 'truediv' for division")]
        /\ RunGet(TStr("+"), TStr(w)).err = Err("ValueError", "Use only 'truediv' for division")
  /\ Q("foo").err = Err("ValueError", "Operator 'foo' unknown")
  /\ Q("truediv").err = NoErr /\ Q("idiv").err = Err("ValueError", "Operator 'idiv' unknown")
  /\ RunGet(TInt(3), TNone).err = Err("ValueError", "Operator '3' unknown")
  /\ RunGet(TInt(-12), TNone).err = Err("ValueError", "Operator '-12' unknown")
  /\ RunGet(TFn("__abs__"), TNone).err = Err("ValueError", "Operator '<built-in function abs>' unknown")
  /\ RunGet(KSeq(<<TNone>>), TNone).err = Err("ValueError", "Operator 'None' unknown")
  /\ RunGet(KSeq(<<TStr("~"), TList>>), TNone) = [out |-> Q("~").out, err |-> Err("TypeError", "")]
  /\ Names(Q("+ foo")) = <<"add", "radd", "pos">>            \* three items are yielded before the exception

\* splitting: the scanner and the declarative reading agree (checked on the strings of a grid by the machines too)
WordsAgree(s) == Words(s) = DefWords(s)
=============================================================================
