--------------------------- MODULE MultiKeyDict ---------------------------
(***************************************************************************)
(* audiolazy.lazy_core.MultiKeyDict (property C15, first half).            *)
(*                                                                         *)
(* Operational layer: the three dictionaries of the implementation         *)
(*   kd  : key   -> key tuple      (_keys_dict)                            *)
(*   inv : value -> key tuple      (_inv_dict)                             *)
(*   st  : key tuple -> value      (the dict itself)                       *)
(* with __setitem__ / __delitem__ transcribed statement by statement.      *)
(* Definition layer: what the property says -- a key->value map `kv` plus, *)
(* per value, its keys in order of most recent assignment `ord`.           *)
(* TLC checks that the first refines the second over the full reachable    *)
(* state graph (no history bound).                                         *)
(***************************************************************************)
EXTENDS Integers, Sequences, FiniteSets, TLC

CONSTANTS Keys,       \* key universe (strings)
          Values,     \* value universe (pairwise unequal hashables)
          MaxTuple    \* longest key tuple given to one assignment

VARIABLES m,          \* operational state [kd, inv, st]
          kv, ord,    \* definition layer
          res,        \* outcome of the last call: "ok" | "KeyError"
          last        \* the last call and its arguments (write-only; hidden by VIEW)

vars == <<m, kv, ord, res, last>>
View == <<m, kv, ord, res>>

---------------------------------------------------------------------------
Range(s)      == {s[i] : i \in DOMAIN s}
Without(s, k) == SelectSeq(s, LAMBDA x : x # k)
Drop(f, k)    == [x \in DOMAIN f \ {k} |-> f[x]]
Empty         == [x \in {} |-> 0]

\* keep the last occurrence of every element ("last insertion has priority")
DedupLast(s) ==
  LET RECURSIVE D(_, _)
      D(i, acc) == IF i = 0 THEN acc
                   ELSE IF s[i] \in Range(acc) THEN D(i - 1, acc)
                   ELSE D(i - 1, <<s[i]>> \o acc)
  IN D(Len(s), <<>>)

Tuples == UNION {[1..n -> Keys] : n \in 1..MaxTuple}

---------------------------------------------------------------------------
(* Operational layer, as pure operators on the record of the three maps    *)

\* MultiKeyDict.__delitem__(key); precondition key \in DOMAIN mm.kd
OpDel(mm, k) ==
  LET kt   == mm.kd[k]
      v    == mm.st[kt]
      nk   == Without(kt, k)
      kd1  == Drop(mm.kd, k)
      inv1 == Drop(mm.inv, v)
      st1  == Drop(mm.st, kt)
  IN IF Len(nk) > 0
     THEN [kd  |-> [x \in DOMAIN kd1 |-> IF x \in Range(nk) THEN nk ELSE kd1[x]],
           inv |-> (v :> nk) @@ inv1,
           st  |-> (nk :> v) @@ st1]
     ELSE [kd |-> kd1, inv |-> inv1, st |-> st1]

\* MultiKeyDict.__setitem__(key, value); ks is the already "tuple-ised" key
OpSet(mm, ks, v) ==
  LET k1  == IF v \in DOMAIN mm.inv THEN mm.inv[v] \o ks ELSE ks
      key == DedupLast(k1)
      RECURSIVE DelAll(_, _)
      DelAll(x, i) == IF i > Len(key) THEN x
                      ELSE DelAll(IF key[i] \in DOMAIN x.kd THEN OpDel(x, key[i]) ELSE x, i + 1)
      m2  == DelAll(mm, 1)
  IN [kd  |-> [x \in DOMAIN m2.kd \cup Range(key) |-> IF x \in Range(key) THEN key ELSE m2.kd[x]],
      inv |-> (v :> key) @@ m2.inv,
      st  |-> (key :> v) @@ m2.st]

---------------------------------------------------------------------------
(* Definition layer                                                        *)

DefSetKv(f, ks, v) == [k \in DOMAIN f \cup Range(ks) |-> IF k \in Range(ks) THEN v ELSE f[k]]

DefSetOrd(o, ks, v) ==
  LET new  == DedupLast(ks)
      strip(s) == SelectSeq(s, LAMBDA x : x \notin Range(new))
      oldv == IF v \in DOMAIN o THEN strip(o[v]) ELSE <<>>
      keep == {w \in DOMAIN o \ {v} : strip(o[w]) # <<>>}
  IN (v :> (oldv \o new)) @@ [w \in keep |-> strip(o[w])]

DefDelKv(f, k)  == Drop(f, k)
DefDelOrd(o, f, k) ==
  LET v == f[k]
      s == Without(o[v], k)
  IN IF s = <<>> THEN Drop(o, v) ELSE [o EXCEPT ![v] = s]

---------------------------------------------------------------------------
Init == /\ m = [kd |-> Empty, inv |-> Empty, st |-> Empty]
        /\ kv = Empty /\ ord = Empty /\ res = "ok" /\ last = <<"init">>

SetItem(ks, v) ==
  /\ m'   = OpSet(m, ks, v)
  /\ kv'  = DefSetKv(kv, ks, v)
  /\ ord' = DefSetOrd(ord, ks, v)
  /\ res' = "ok"
  /\ last' = <<"set", ks, v>>

DelItem(k) ==
  /\ k \in DOMAIN m.kd
  /\ m'   = OpDel(m, k)
  /\ ord' = DefDelOrd(ord, kv, k)
  /\ kv'  = DefDelKv(kv, k)
  /\ res' = "ok"
  /\ last' = <<"del", k>>

DelMissing(k) ==
  /\ k \notin DOMAIN m.kd
  /\ res' = "KeyError"
  /\ last' = <<"del", k>>
  /\ UNCHANGED <<m, kv, ord>>

Next == \/ \E ks \in Tuples, v \in Values : SetItem(ks, v)
        \/ \E k \in Keys : DelItem(k) \/ DelMissing(k)

Spec == Init /\ [][Next]_vars

---------------------------------------------------------------------------
(* Properties                                                              *)

\* the three maps describe one relation, and it is the definition layer's
Coherent ==
  /\ DOMAIN m.kd = DOMAIN kv
  /\ \A k \in DOMAIN kv : m.kd[k] \in DOMAIN m.st /\ m.st[m.kd[k]] = kv[k]
  /\ DOMAIN m.inv = DOMAIN ord
  /\ \A v \in DOMAIN ord : m.inv[v] = ord[v]
  /\ DOMAIN m.st = {ord[v] : v \in DOMAIN ord}
  /\ \A v \in DOMAIN ord : m.st[ord[v]] = v

\* each value owns exactly one tuple listing exactly its keys, without repeats
OneTuplePerValue ==
  /\ DOMAIN ord = {kv[k] : k \in DOMAIN kv}
  /\ \A v \in DOMAIN ord :
        /\ Range(ord[v]) = {k \in DOMAIN kv : kv[k] = v}
        /\ Len(ord[v]) = Cardinality(Range(ord[v]))
        /\ Len(ord[v]) > 0

LenCountsValues == Cardinality(DOMAIN m.st) = Cardinality({kv[k] : k \in DOMAIN kv})

\* d[k] is the last value assigned to k; the tuple ends with the keys just assigned
LastWriteWins ==
  [][last'[1] = "set" =>
       LET ks == last'[2]  v == last'[3]  new == DedupLast(ks) IN
        /\ \A k \in Range(ks) : kv'[k] = v
        /\ \A k \in DOMAIN kv \ Range(ks) : k \in DOMAIN kv' /\ kv'[k] = kv[k]
        /\ SubSeq(ord'[v], Len(ord'[v]) - Len(new) + 1, Len(ord'[v])) = new]_vars

\* keys not touched by an assignment keep their relative order in every tuple
OrderIsRecency ==
  [][last'[1] = "set" =>
       LET ks == last'[2] IN
        \A w \in DOMAIN ord :
           LET rest == SelectSeq(ord[w], LAMBDA x : x \notin Range(ks))
           IN rest # <<>> =>
                /\ w \in DOMAIN ord'
                /\ SelectSeq(ord'[w], LAMBDA x : x \notin Range(ks)) = rest]_vars

DelMissingRaises ==
  [][(last'[1] = "del" /\ last'[2] \notin DOMAIN kv) => res' = "KeyError" /\ kv' = kv /\ ord' = ord]_vars

TypeOK == /\ DOMAIN kv \subseteq Keys
          /\ \A k \in DOMAIN kv : kv[k] \in Values
          /\ res \in {"ok", "KeyError", "AttributeError"}
===========================================================================
