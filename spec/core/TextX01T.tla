----------------------------- MODULE TextX01T -----------------------------
(* thorough tier grid of the extension check X01 *)
EXTENDS TextX01
X01ThoroughGroups == {"rint", "aeq", "shz", "midi", "m2s", "f2s", "oct", "frac", "auto", "fmt", "poly", "zf", "table", "doc", "fmtdoc"}
X01Thorough(g) ==
  CASE g = "rint" -> RintGrid(200, {1, 2, 4, 8}, {1, 2, 3, 5, 7, 10, 12})
       [] g = "aeq" -> AeqScalar(5)
                 \cup AeqFlat(5, 2)
                 \cup AeqNested(5)
                 \cup AeqBits(0)
       [] g = "shz" -> ShzGrid(0)
       [] g = "midi" -> Str2MidiGrid(2)
                 \cup Midi2FreqGrid(0)
                 \cup Freq2MidiGrid(0)
                 \cup Str2FreqGrid(0)
       [] g = "m2s" -> Midi2StrGrid(-60, 200, 31)
       [] g = "f2s" -> Freq2StrGrid(-69, 70)
       [] g = "oct" -> OctGrid({R(1), R(3), R(8), <<55, 2>>, R(440), <<5, 4>>, R(7), <<1, 8>>, R(20000), R(16)},
               {<<1, 2>>, R(2), R(4), R(20), <<55, 2>>, R(3), <<1, 16>>, R(8)},
               {R(5), R(8), R(16), R(20000), R(4), <<7, 2>>, R(440)})
                 \cup OctBad(0)
       [] g = "frac" -> FracApprox(80, {1, 2, 3, 4, 5, 6, 7, 9, 11, 13, 16, 30, 1000})
                 \cup FracShape(ShapeXs(0), {1, 2, 5, 1000, 1000000})
       [] g = "auto" -> AutoGrid(2, {6, 20, 30, 1000000})
                 \cup AutoListGrid(0)
       [] g = "fmt" -> MulFmtGrid(0)
                 \cup PairSumGrid(0)
       [] g = "poly" -> PolyGrid({-2, -1, 0, 1, 2, 5, 10}, 3, 1)
                 \cup PolyGrid({0, 1, 3}, 2, 2)
       [] g = "zf" -> ZfGrid(0)
       [] g = "table" -> TableGrid(2, Rows2(1))
       [] g = "doc" -> DocGrid(2, {4, 5, 8, 13, 80}, {<<>>, Ch("> "), Ch("\n  ")})
       [] g = "fmtdoc" -> FdGrid(3, FdTriples(0))
=============================================================================
