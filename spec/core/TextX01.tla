------------------------------ MODULE TextX01 ------------------------------
(* Case grids of the extension check X01 (module Text).  Builders only: every definition has a  *)
(* parameter (TLC evaluates zero-arity definitions at start-up); the tiers are in TextX01Q/T.    *)
EXTENDS Text

SeqsUpTo(S, n) == UNION {[1..k -> S] : k \in 0..n}
SeqsOf(S, lens) == UNION {[1..k -> S] : k \in lens}

\* ---- rint -------------------------------------------------------------------------------------
RintGrid(N, Dens, Steps) == {[k |-> "rint", x |-> Norm(n, d), step |-> s] : n \in -N..N, d \in Dens, s \in Steps}

\* ---- almost_eq (leaf values in units of 2^-unit) ----------------------------------------------
F(v) == [t |-> "float", v |-> v]
I(v) == [t |-> "int", v |-> v]
L(items) == [t |-> "list", items |-> items]
T(items) == [t |-> "tuple", items |-> items]
AeqP(strat, bits, tol, md, ign) == [strat |-> strat, bits |-> bits, tol |-> tol, md |-> md, ign |-> ign]
AeqParams(n) == IF n = 2 THEN {AeqP("bits", 32, 22, 0, TRUE), AeqP("diff", 32, 1, 1, FALSE)}
                ELSE {AeqP("bits", 32, 22, 0, TRUE), AeqP("bits", 32, 24, 0, FALSE),
                      AeqP("diff", 32, 1, 1, FALSE), AeqP("diff", 32, 1, 0, TRUE), AeqP("bits", 32, 21, 0, FALSE)}
AeqCase(p, a, b, pad, unit) == [k |-> "aeq", strat |-> p.strat, a |-> a, b |-> b, bits |-> p.bits, tol |-> p.tol,
                                md |-> p.md, ign |-> p.ign, pad |-> pad, unit |-> unit]
AeqLeaves(u) == {F(0), F(8), F(9), F(-8), F(16), I(0), I(8)}
AeqScalar(np) == {AeqCase(p, a, b, F(0), 3) : p \in AeqParams(np), a \in AeqLeaves(0), b \in AeqLeaves(0)}
AeqFlat(np, n) ==
  {AeqCase(p, L(s), b, pad, 3) : p \in AeqParams(np), s \in SeqsUpTo({F(0), F(8), F(9)}, n),
                                 b \in {L(x) : x \in SeqsUpTo({F(8), F(9)}, n)} \cup {T(x) : x \in SeqsUpTo({F(8), F(9)}, n)},
                                 pad \in {F(0), F(8)}}
AeqInner(u) == {L(x) : x \in SeqsUpTo({F(8), F(9)}, 2)}
AeqNested(np) ==
  {AeqCase(p, L(<<x>>), L(<<y>>), pad, 3) : p \in AeqParams(np), x \in AeqInner(0), y \in AeqInner(0), pad \in {F(0), F(8)}}
  \cup {AeqCase(p, L(<<x, F(8)>>), T(<<y>>), pad, 3) : p \in AeqParams(2), x \in AeqInner(0), y \in AeqInner(0), pad \in {F(0), F(8)}}
  \cup {AeqCase(p, L(<<x>>), L(<<F(8)>>), F(0), 3) : p \in AeqParams(2), x \in AeqInner(0)}
  \cup {AeqCase(p, L(<<x, y>>), L(<<x>>), pad, 3) : p \in AeqParams(2), x \in AeqInner(0), y \in {L(<<>>), L(<<F(8)>>)}, pad \in {F(0), F(8)}}
AeqBits(u) ==
  {AeqCase(AeqP("bits", 32, 1, 0, TRUE), F(4194304), F(4194304 + j), F(0), 22) : j \in -3..3}      \* defaults, 1 + j*2^-22
  \cup {AeqCase(AeqP("bits", b, SigBits(b) - 1, 0, TRUE), F(x), F(y), F(0), 3) :
          b \in {32, 64, 80, 128}, x \in {8, 9}, y \in {8, 9, 16, -9}}                                  \* power -2

\* ---- sHz -------------------------------------------------------------------------------------
ShzGrid(u) == {[k |-> "shz", rate |-> r] : r \in {R(1), R(2), R(3), R(8), R(1000), R(22050), R(44100), R(48000), <<1, 2>>, <<11025, 2>>}}

\* ---- MIDI ------------------------------------------------------------------------------------
Letters7 == {"c", "d", "e", "f", "g", "a", "b"}
AccPool(n) == IF n = 1 THEN {<<>>, <<"b">>, <<"#">>, <<"x">>, <<"b", "b">>}
              ELSE {<<>>, <<"b">>, <<"#">>, <<"x">>, <<"b", "b">>, <<"#", "#">>, <<"b", "#">>, <<"x", "b">>, <<"b", "b", "b">>}
OctPool(n) == IF n = 1 THEN {Ch("-1"), Ch("0"), Ch("4"), Ch("10"), Ch("+4")}
              ELSE {Ch("-1"), Ch("-2"), Ch("0"), Ch("4"), Ch("9"), Ch("10"), Ch("+4"), Ch("04")}
NoteNames(n) == {<<UpperCh(l)>> \o a \o o : l \in Letters7, a \in AccPool(n), o \in OctPool(n)}
Decorated(u) == LET base == {<<l>> \o a \o o : l \in Letters7, a \in {<<>>, <<"b">>, <<"#">>}, o \in {Ch("4"), Ch("-1")}} IN
                {UpperStr(s) : s \in base} \cup {<<" ">> \o s \o <<" ", " ">> : s \in base} \cup base
BadNames(u) == {Ch("?"), Ch(" ?"), Ch("h4"), Ch("c"), <<>>, Ch("4"), Ch("c4.5"), Ch("c#"), Ch("c 4"), Ch("#4")}
Str2MidiGrid(n) == {[k |-> "str2midi", s |-> s] : s \in NoteNames(n) \cup Decorated(0) \cup BadNames(0)}
Specials3 == {Special("inf"), Special("ninf"), Special("nan")}
Midi2StrGrid(lo, hi, fine) ==
  {[k |-> "midi2str", m |-> m, sharp |-> b] : b \in BOOLEAN,
     m \in {Num(R(n)) : n \in lo..hi}
           \cup {Num(Norm(n, 4)) : n \in 236..252}                          \* quarter tones 59..63
           \cup {Num(Norm(1920 + j, 32)) : j \in 1..fine}                   \* 60 + j/32: exact ties of the 2-decimal rounding
           \cup {Num(Norm(600000 + j, 10000)) : j \in {-2, 2, 3, 50, 1234, 4999, -4999, 5001, -5001}}
           \cup {Num(Norm(6000000 + j, 100000)) : j \in {5, -5, 9, -9}}     \* deviation below 1e-4: not shown
           \cup {Num(<<-47, 4>>), Num(<<1, 2>>), Num(<<-1, 2>>)}
           \cup Specials3}
Midi2FreqGrid(u) == {[k |-> "midi2freq", m |-> m] :
                       m \in {Num(R(n)) : n \in {-12, 0, 21, 57, 60, 69, 70, 81, 127}} \cup {Num(<<139, 2>>)} \cup Specials3}
FreqSpecials == {[t |-> x] : x \in {"zero", "neg", "inf", "ninf", "nan"}}
A4(tw) == [t |-> "a4", tw |-> tw]
Freq2MidiGrid(u) == {[k |-> "freq2midi", f |-> f] :
                       f \in {A4(R(n)) : n \in {-48, -12, -9, 0, 1, 3, 12, 24}} \cup {A4(<<1, 2>>)} \cup FreqSpecials}
Str2FreqGrid(u) == {[k |-> "str2freq", s |-> s] : s \in {Ch("A4"), Ch("a3"), Ch("C4"), Ch("Bb2"), Ch("F#2"), Ch("c-1"), Ch("?"), Ch("Ax5")}}
Freq2StrGrid(lo, hi) == {[k |-> "freq2str", f |-> f] :
                           f \in {A4(R(n)) : n \in lo..hi} \cup {A4(Norm(n, 4)) : n \in {1, -1, 3, 5, -7, 9}}
                                 \cup {A4(<<1, 10>>), A4(<<-3, 10>>)} \cup (FreqSpecials \ {[t |-> "ninf"], [t |-> "nan"]})}

\* ---- octaves ---------------------------------------------------------------------------------
OctGrid(Fs, Los, His) == {[k |-> "octaves", f |-> f, lo |-> lo, hi |-> hi] : f \in Fs, lo \in Los, hi \in His}
OctBad(u) == {[k |-> "octaves", f |-> f, lo |-> lo, hi |-> hi] :
                f \in {R(0), R(-1), R(5)}, lo \in {R(0), R(2), R(-2)}, hi \in {R(8), R(0)}}

\* ---- float_str -------------------------------------------------------------------------------
FracCase(x, sym, after, M, pi) == [k |-> "frac", x |-> x, sym |-> sym, after |-> after, M |-> M, pi |-> pi]
FracApprox(N, Ms) == {FracCase(Norm(n, 16), <<>>, FALSE, m, FALSE) : n \in (-N)..(2 * N), m \in Ms}
SymPool(u) == {<<<<>>, FALSE>>, <<Ch("s"), FALSE>>, <<Ch("s"), TRUE>>, <<Ch(" Hz"), TRUE>>, <<Ch("steps"), FALSE>>}
FracShape(Xs, Ms) ==
  {FracCase(x, sa[1], sa[2], m, FALSE) : x \in Xs, sa \in SymPool(0), m \in Ms}
  \cup {c \in {FracCase(x, PiSym, a, m, TRUE) : x \in Xs \cup {<<1, 3>>, <<-2, 9>>, <<11, 12>>, <<22, 7>>}, a \in BOOLEAN, m \in Ms} :
          ~(c.x[2] > c.M /\ FracTie(c.x, c.M))}                      \* the float quotient value/pi decides exact ties
ShapeXs(u) == {RZero, ROne, R(-1), <<1, 2>>, <<-1, 2>>, R(3), <<3, 4>>, <<-5, 4>>, <<1, 8>>, <<25, 2>>}

Val(pi, r) == [pi |-> pi, r |-> r]
AutoCase(v, order, size, after, M) == [k |-> "auto", val |-> v, order |-> order, size |-> size, after |-> after, M |-> M]
AutoVals(n) == {Val(FALSE, r) : r \in {RZero, <<1, 2>>, <<-1, 2>>, R(3), <<1, 8>>, <<25, 2>>, <<12345, 8>>, R(100), <<3, 16>>, <<1, 64>>}
                                     \cup (IF n = 1 THEN {} ELSE {<<1, 1024>>, <<-7, 4>>, <<5, 1>>, <<99, 1>>})}
               \cup {Val(TRUE, r) : r \in {ROne, <<1, 2>>, <<-1, 3>>, <<2, 9>>, <<11, 12>>, R(2), <<1, 7>>, <<17, 16>>, RZero}
                                     \cup (IF n = 1 THEN {} ELSE {<<5, 4>>, <<-3, 2>>, <<1, 12>>, <<7, 6>>})}
DefaultOrder == Ch("pprpr")
DefaultSize  == <<4, 5, 3, 6, 4>>
AutoOrders(u) == {<<Ch("f"), <<8>>>>, <<Ch("rf"), <<3, 3>>>>, <<Ch("p"), <<8>>>>, <<Ch("rp"), <<2, 3>>>>, <<Ch("fr"), <<4, 9>>>>,
                  <<Ch("pr"), <<4>>>>, <<Ch("q"), <<3>>>>, <<Ch("rq"), <<1, 3>>>>, <<<<>>, <<>>>>}
BigVals(u) == {Val(FALSE, r) : r \in {R(1234567), <<999999, 1>>, <<19999995, 10>>, <<-12345, 8>>, R(100000), <<1, 512>>}}
AutoGrid(n, Ms) ==
  {AutoCase(v, os[1], os[2], FALSE, 20) : v \in BigVals(0), os \in {<<Ch("f"), <<8>>>>, <<Ch("rf"), <<3, 3>>>>, <<Ch("ff"), <<5, 7>>>>}} \cup
  {AutoCase(v, DefaultOrder, DefaultSize, a, m) : v \in AutoVals(n), a \in BOOLEAN, m \in Ms}
  \cup {AutoCase(v, os[1], os[2], FALSE, m) : v \in AutoVals(n), os \in AutoOrders(0), m \in Ms}
AutoListGrid(u) ==
  {[k |-> "autolist", vals |-> vs, order |-> os[1], size |-> os[2], after |-> FALSE, M |-> 20] :
     vs \in {<<Val(FALSE, <<1, 2>>), Val(FALSE, <<3, 16>>)>>, <<Val(FALSE, <<1, 8>>)>>, <<>>,
             <<Val(TRUE, <<1, 2>>), Val(FALSE, <<25, 2>>), Val(FALSE, RZero)>>},
     os \in {<<Ch("rf"), <<3, 3>>>>, <<Ch("f"), <<8>>>>, <<DefaultOrder, DefaultSize>>}}

\* ---- multiplication_formatter / Poly / ZFilter -----------------------------------------------
NI(v) == [t |-> "int", v |-> R(v)]
NF(n, d) == [t |-> "float", v |-> Norm(n, d)]
NQ(n, d) == [t |-> "frac", v |-> Norm(n, d)]
CoefPool(n) == IF n = 1 THEN {NI(1), NI(-1), NI(2), NF(5, 2), NF(-1, 1), NQ(-1, 2)}
               ELSE {NI(0), NI(1), NI(-1), NI(2), NI(-12), NF(1, 1), NF(-1, 1), NF(5, 2), NF(-1, 8), NF(3, 1), NF(0, 1),
                     NQ(1, 2), NQ(-3, 4), NQ(1, 1), NQ(-1, 1), NQ(2, 1), NF(1, 1024), NF(1234567, 1), NF(-12345, 8)}
MulFmtGrid(u) == {[k |-> "mulfmt", p |-> p, v |-> v, sym |-> s] : p \in {-2, -1, 0, 1, 2, 10}, v \in CoefPool(2), s \in {Ch("x"), Ch("z")}}
PairSumGrid(u) ==
  {[k |-> "pairsum", a |-> a, b |-> b] :
     a \in {MulFmt(0, NI(1), Ch("x")), MulFmt(0, NF(-5, 2), Ch("x")), PairSum(Ch("1"), Ch("x^-1"))},
     b \in {MulFmt(1, v, Ch("x")) : v \in CoefPool(1)} \cup {MulFmt(3, NI(-1), Ch("x")), MulFmt(2, NQ(-3, 4), Ch("x"))}}
RECURSIVE DescSeq(_)
\* the powers of a set, descending (so that the model's sorting has work to do)
DescSeq(S) == IF S = {} THEN <<>> ELSE LET m == CHOOSE x \in S : \A y \in S : y <= x IN <<m>> \o DescSeq(S \ {m})
TermSeqs(Ps, pool) == {[i \in DOMAIN DescSeq(Ps) |-> [p |-> DescSeq(Ps)[i], v |-> f[DescSeq(Ps)[i]]]] : f \in [Ps -> pool]}
PolyGrid(Pows, maxn, n) ==
  {PolyCase(ts) : ts \in UNION {TermSeqs(Ps, CoefPool(IF Cardinality(Ps) <= 1 THEN 2 ELSE n)) :
                                   Ps \in {Q \in SUBSET Pows : Cardinality(Q) <= maxn}}}
ZTerms(s) == [i \in DOMAIN s |-> [p |-> s[i][1], v |-> s[i][2]]]
ZNums(u) == {ZTerms(<<<<0, NI(1)>>>>), ZTerms(<<>>), ZTerms(<<<<1, NI(1)>>>>), ZTerms(<<<<0, NI(2)>>, <<1, NI(1)>>>>),
             ZTerms(<<<<0, NF(1, 1)>>, <<2, NF(-1, 4)>>>>), ZTerms(<<<<0, NI(1)>>, <<1, NI(-2)>>, <<2, NI(3)>>, <<3, NF(1, 2)>>>>),
             ZTerms(<<<<2, NI(0)>>>>)}
ZDens(u) == {ZTerms(<<<<0, NI(1)>>>>), ZTerms(<<<<0, NI(1)>>, <<1, NI(-1)>>>>), ZTerms(<<<<0, NI(2)>>, <<1, NI(-1)>>>>),
             ZTerms(<<<<0, NI(1)>>, <<1, NF(1, 2)>>, <<2, NF(-1, 4)>>, <<3, NI(1)>>>>), ZTerms(<<<<0, NF(1, 1)>>>>),
             ZTerms(<<<<0, NI(1)>>, <<5, NF(-1, 2)>>>>), ZTerms(<<<<1, NI(1)>>>>)}
LongNum(n) == [i \in 1..n |-> [p |-> i - 1, v |-> NI(i + 1)]]
ZfGrid(u) == {[k |-> "zf", num |-> a, den |-> b] : a \in ZNums(0), b \in ZDens(0)}
             \cup {[k |-> "zf", num |-> LongNum(n), den |-> ZTerms(<<<<0, NI(1)>>, <<1, NF(1, 2)>>>>)] : n \in {9, 10, 14}}
             \cup {[k |-> "zf", num |-> ZTerms(<<<<0, NI(1)>>>>), den |-> LongNum(12)]}

\* ---- rst_table -------------------------------------------------------------------------------
C1(s)  == [m |-> FALSE, s |-> s]
CM(ss) == [m |-> TRUE, ss |-> ss]
CellPool(n) == IF n = 1 THEN {C1(<<>>), C1(Ch("a")), C1(Ch("ccc d"))}
               ELSE {C1(<<>>), C1(Ch("a")), C1(Ch("bb")), C1(Ch("ccc d")), C1(Ch("12"))}
MultiPool(u) == {CM(<<Ch("a"), Ch("bbb")>>), CM(<<Ch("x")>>), CM(<<>>), CM(<<<<>>, Ch("yy"), Ch("z")>>)}
Rows2(n) == {<<a, b>> : a \in CellPool(n), b \in CellPool(n) \cup MultiPool(0)} \cup {<<a, b>> : a \in MultiPool(0), b \in {C1(Ch("bb")), CM(<<Ch("q"), Ch("rs")>>)}}
Schemas2(u) == {[none |-> FALSE, cols |-> <<Ch("h"), Ch("kk")>>], [none |-> FALSE, cols |-> <<<<>>, Ch("wide title")>>],
                [none |-> FALSE, cols |-> <<Ch("Name"), Ch("x")>>], [none |-> TRUE, cols |-> <<>>]}
TableGrid(n, two) ==
  {[k |-> "table", data |-> <<r>>, schema |-> s] : r \in Rows2(n), s \in Schemas2(0)}
  \cup {[k |-> "table", data |-> <<r1, r2>>, schema |-> s] : r1 \in two, r2 \in Rows2(1), s \in Schemas2(0)}
  \cup {[k |-> "table", schema |-> [none |-> nn, cols |-> <<Ch("this"), Ch("is_"), Ch("a"), Ch("test")>>],
         data |-> <<<<C1(Ch("1")), C1(Ch("2")), C1(Ch("3")), C1(Ch("hybrid"))>>,
                    <<C1(Ch("3")), C1(Ch("mixed")), C1(Ch("0.5")), C1(Ch("123123"))>>>>] : nn \in BOOLEAN}

\* ---- small_doc -------------------------------------------------------------------------------
DocCase(kind, lines, indent, width) == [k |-> "doc", kind |-> kind, lines |-> lines, indent |-> indent, width |-> width]
LinePool(n) == IF n = 1 THEN {Ch("ab cd"), Ch("  efghijk "), Ch("lmn opq rs.")}
               ELSE {Ch("ab cd"), Ch("  efghijk "), Ch("lmn opq rs."), Ch("x"), Ch("a  b"), Ch("abcdefghijklmno pq")}
DocBodies(n) ==
  {pre \o body \o post : pre \in {<<>>, <<<<>>, Ch("   ")>>},
                         body \in SeqsOf(LinePool(n), {1, 2}),
                         post \in {<<>>, <<<<>>, Ch("Second paragraph.")>>, <<Ch(" "), Ch("tail")>>, <<Ch("   ")>>}}
  \cup {<<Ch("  ")>>, <<Ch(" "), <<>>>>}                                                   \* blank docstrings
DocGrid(n, Ws, Ins) ==
  {DocCase("func", ls, ind, w) : ls \in DocBodies(n), ind \in Ins, w \in Ws}
  \cup {DocCase(kd, ls, ind, w) : kd \in {"plain", "instance"}, ind \in Ins, w \in Ws,
          ls \in {<<Ch("69")>>, <<Ch("a b")>>, <<Ch("two"), Ch(" lines here")>>, <<Ch("abcdefghijkl")>>}}

\* ---- format_docstring ------------------------------------------------------------------------
Lit(s) == [t |-> "lit", s |-> s]
Pos(i) == [t |-> "pos", i |-> i]
Kw(n)  == [t |-> "kw", n |-> n]
TokPool(u) == {Lit(Ch("A ")), Pos(0), Pos(1), Kw("name"), Kw("__doc__")}
FdGrid(maxlen, triples) ==
  {[k |-> "fmtdoc", tpl |-> tp, args |-> ar, kw |-> kw, doc |-> d] :
     tp \in SeqsUpTo(TokPool(0), maxlen) \cup triples,
     ar \in {<<>>, <<Ch("x"), Ch("yy")>>},
     kw \in {<<>>, <<[n |-> "name", s |-> Ch("N")]>>},
     d  \in {[has |-> FALSE, toks |-> <<>>], [has |-> TRUE, toks |-> <<Lit(Ch("Doc."))>>],
             [has |-> TRUE, toks |-> <<Lit(Ch("d=")), Pos(0)>>], [has |-> TRUE, toks |-> <<Kw("name"), Lit(Ch("!"))>>]}}
FdTriples(u) == {<<Lit(Ch("The ")), Kw("name"), Lit(Ch(" has"))>>, <<Pos(0), Lit(Ch(", ")), Pos(1)>>,
                 <<Lit(Ch("x:")), Kw("__doc__"), Lit(Ch("->END"))>>, <<Pos(1), Kw("__doc__"), Pos(0)>>}
=============================================================================
