CONSTANTS
  NF = 1
  NK = 2
  Fail = {2}
  MaxCalls = 3
INIT Init
NEXT Next
INVARIANT TypeOK
INVARIANT CallsAccounted
INVARIANT EntriesAreResults
INVARIANT FailureNotCached
PROPERTY NoRecompute
PROPERTY FirstResultSticks
PROPERTY MissComputesOnce
PROPERTY ReadsArePure
PROPERTY Independent
CHECK_DEADLOCK FALSE
