------------------------------ MODULE OpClass ------------------------------
(***************************************************************************)
(* X05: AbstractOperatorOverloaderMeta.__new__ as a machine -- one action  *)
(* per operator the declaration selects:                                   *)
(*   Build   the dunder is not in the namespace and the builder of its     *)
(*           kind returns a callable: __name__ is set, setattr on the class*)
(*   Keep    the dunder was written by hand in the class body: untouched   *)
(*   Fail    no builder/template: TypeError naming class and dunder        *)
(*   QueryError  the generator of OpMethod.get raised (bad declaration)    *)
(*   Done    the generator is exhausted: the class is returned             *)
(* Grid: Decls (pairs __operators__ / __without__) x Bodies (builders,     *)
(* hand-written names, names inherited from a base, class name).           *)
(***************************************************************************)
EXTENDS OpBuild

CONSTANTS Decls,    \* set of [ops, wo]
          Bodies    \* set of [name, bld, hand, inh]

VARIABLES ccase,    \* the construction case
          gen,      \* the generator `OpMethod.get(mcls.__operators__, without=mcls.__without__)`: [out, err]
          dsel,     \* the documented answer to the same query, DefGet (definition layer; read by invariants only)
          st        \* state of the loop
cvars == <<ccase, gen, dsel, st>>

NoCase == [name |-> "", ops |-> KDefault, wo |-> KDefault, bld |-> {}, hand |-> {}, inh |-> {}]
Init == /\ \E d \in Decls : ccase = [NoCase EXCEPT !.ops = d.ops, !.wo = d.wo]
        /\ st = [CInit EXCEPT !.ph = "pick"]
        /\ gen = RunGet(EffOps(ccase), EffWo(ccase))
        /\ dsel = DefGet(EffOps(ccase), EffWo(ccase))

Pick == /\ st.ph = "pick"
        /\ \E b \in Bodies : ccase' = [ccase EXCEPT !.name = b.name, !.bld = b.bld, !.hand = b.hand, !.inh = b.inh]
        /\ st' = CInit
        /\ UNCHANGED <<gen, dsel>>

InLoop == st.i <= Len(gen.out)
Cur    == Rows[gen.out[st.i]]
Turn   == st' = CStep(ccase, gen, st) /\ UNCHANGED <<ccase, gen, dsel>>

Keep       == st.ph = "loop" /\ InLoop /\ Cur.dname \in ccase.hand /\ Turn
Build      == st.ph = "loop" /\ InLoop /\ Cur.dname \notin ccase.hand /\ KindOf(Cur) \in ccase.bld /\ Turn
Fail       == st.ph = "loop" /\ InLoop /\ Cur.dname \notin ccase.hand /\ KindOf(Cur) \notin ccase.bld /\ Turn
QueryError == st.ph = "loop" /\ ~InLoop /\ gen.err # NoErr /\ Turn
Done       == st.ph = "loop" /\ ~InLoop /\ gen.err = NoErr /\ Turn

Next == Pick \/ Keep \/ Build \/ Fail \/ QueryError \/ Done
Spec == Init /\ [][Next]_cvars

---------------------------------------------------------------------------
Final  == st.ph \in {"done", "raised"}
Picked == st.ph # "pick"
Want   == DefOutcome(ccase, dsel)                          \* = DefConstruct(ccase)
Sel    == dsel.out                                         \* documented selection, query order
Lacking(r) == Lacks(ccase, r)

TypeOK == /\ st.ph \in {"pick", "loop", "done", "raised"}
          /\ (st.ph = "raised") = (st.err # NoErr)
          /\ \A x \in st.inst : x.d \in AllDnames /\ x.kind \in Kinds

MachineIsConstruct == Final => st = Construct(ccase)

\* operational == definition: same outcome, same exception, and on success the same dunders installed
Refines == Final => /\ st.ph = Want.res /\ st.err = Want.err
                    /\ st.ph = "done" => st.inst = Want.inst

\* TypeError iff some selected operator is neither hand-written nor buildable (a bad declaration is a ValueError)
ErrorIff == Final => ((st.err.t = "TypeError" /\ st.err.msg # "") <=> \E j \in DOMAIN Sel : Lacking(Sel[j]))
\* ... and it names the FIRST such operator in the order of the query
FirstLacking ==
  (Final /\ \E j \in DOMAIN Sel : Lacking(Sel[j])) =>
     LET j == CHOOSE k \in DOMAIN Sel : Lacking(Sel[k]) /\ \A l \in 1..(k - 1) : ~Lacking(Sel[l])
     IN st.err = NoBuilderErr(ccase, Rows[Sel[j]])

\* on success: installed = selected \ hand-written, each from the template of its kind, named as its dunder
InstalledExactly ==
  st.ph = "done" =>
     /\ {x.d : x \in st.inst} = {Rows[r].dname : r \in SeqRange(Sel)} \ ccase.hand
     /\ \A x \in st.inst : \E r \in SeqRange(Sel) : Rows[r].dname = x.d /\ x.kind = DefKind(Rows[r]) /\ x.op = Rows[r].name
     /\ \A x, y \in st.inst : x.d = y.d => x = y
NameSet == \A x \in st.inst : x.nm = x.d
\* "the class has priority when both exist": a name of the namespace is never overwritten ...
ManualWins == Picked => \A x \in st.inst : x.d \notin ccase.hand
\* ... and nothing outside the selection is ever installed, at any moment of the loop
NothingElse == Picked => \A x \in st.inst : \E r \in SeqRange(Sel) : Rows[r].dname = x.d
\* a builder is only called for a selected operator that is not hand-written, with the kind of that operator
CallsJustified ==
  Picked => \A i \in DOMAIN st.calls :
     \E r \in SeqRange(Sel) : Rows[r].dname = st.calls[i][2] /\ DefKind(Rows[r]) = st.calls[i][1] /\ Rows[r].dname \notin ccase.hand
\* 'By default, __operators__ is "all" and __without__ is None': every operator of the table ends up in the class
Defaults == (st.ph = "done" /\ ccase.ops.k = "default" /\ ccase.wo.k = "default") =>
               {x.d : x \in st.inst} \cup (ccase.hand \cap AllDnames) = AllDnames
\* what a base class wrote by hand plays no role (only the namespace of the class being built is consulted)
InheritedIgnored == Final => st = Construct([ccase EXCEPT !.inh = {}])
=============================================================================
