CONSTANTS
  Q = 4
  Deltas = {0, 2, 6}
  Lens = {0, 2}
  Keeps = {FALSE, TRUE}
  MaxLive = 3
  MaxCount = 20
  MaxEv = 0
  MaxN = 0
  Values = {"v1"}
INIT Init
NEXT Next
VIEW GraphView
CONSTRAINT GraphBound
INVARIANT TypeOK
INVARIANT OutIsPlaying
INVARIANT Refines
INVARIANT StartTimes
INVARIANT CountTracksBase
INVARIANT NoDrift
INVARIANT ClosedForm
INVARIANT Termination
INVARIANT NegativeDeltaRejected
CHECK_DEADLOCK FALSE
