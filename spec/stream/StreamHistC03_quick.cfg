CONSTANTS
  MaxOps = 3
  MaxH = 3
  Bases <- AllBases
  TakeToks <- TokTakeRep
  PeekToks <- TokPeekRep
  SkipToks <- TokSkipRep
  LimitToks <- TokLimitRep
  Menu <- AllMenu
  UnfoldLen = 7
INIT Init
NEXT Next
INVARIANT RetAgree
INVARIANT Independent
PROPERTY PeekPure
CHECK_DEADLOCK FALSE
