CONSTANTS
  Vals <- CtlVals
  TakeNs = {1, 2, 3}
  Data <- CtlData
INIT Init
NEXT Next
INVARIANT Tracks
PROPERTY SeenAtNext
PROPERTY SetIsSilent
PROPERTY EndsWithData
CHECK_DEADLOCK FALSE
