------------------------------- MODULE CtlFn -------------------------------
(***************************************************************************)
(* The two small state machines of extension check X03 as pure step        *)
(* functions on state records (used by the machine modules MiscCtl /       *)
(* MiscHub for the full state graphs and by MiscTrace for recorded runs).  *)
(*                                                                         *)
(* ControlStream: an object with an attribute `value` and a generator      *)
(* `while True: yield self.value`; a derived expression is an xmap node    *)
(* over iter(data) and iter(cs) (left operand pulled first).  The state is *)
(*   [expr, val, ph, d, per]: expression shape, current attribute value,   *)
(*   samples already pulled from the data operand, its items, periodic?    *)
(* StreamTeeHub: the list `_iters` of tee copies; iter() pops one, peek /  *)
(* copy need one but do not pop, take() is refused, __del__ warns about    *)
(* the copies left and clears the list.  State [iters, n, used, cleared]. *)
(***************************************************************************)
EXTENDS Integers, Sequences

CMin(a, b) == IF a < b THEN a ELSE b

---------------------------------------------------------------------------
CsExprs == {"self", "neg", "rsub", "add", "csleft", "mul2add", "gt"}
UsesData(expr) == expr \in {"add", "csleft", "mul2add", "gt"}

\* one output sample from data item x and the control value v
ExprVal(expr, x, v) ==
  CASE expr = "self"    -> v                   \* cs
    [] expr = "neg"     -> -v                  \* -cs
    [] expr = "rsub"    -> 10 - v              \* 10 - cs
    [] expr = "add"     -> x + v               \* data + cs
    [] expr = "csleft"  -> v - x               \* cs - data
    [] expr = "mul2add" -> v * 2 + x           \* cs * 2 + data
    [] expr = "gt"      -> IF v > x THEN 1 ELSE 0      \* cs > data   (True == 1)

CsNew(expr, v0, d, per) == [expr |-> expr, val |-> v0, ph |-> 0, d |-> d, per |-> per]
DataAt(s, k) == IF s.per THEN s.d[(k % Len(s.d)) + 1] ELSE s.d[k + 1]

CsSet(s, v) == [s EXCEPT !.val = v]            \* cs.value = v : nothing is pulled, nothing is buffered

\* res.take(n): every sample reads the attribute at the moment it is produced
CsTake(s, n) ==
  LET m == IF UsesData(s.expr) /\ ~s.per THEN CMin(n, Len(s.d) - s.ph) ELSE n
      out == [j \in 1..m |-> ExprVal(s.expr, IF UsesData(s.expr) THEN DataAt(s, s.ph + j - 1) ELSE 0, s.val)]
      ph1 == IF ~UsesData(s.expr) THEN 0 ELSE IF s.per THEN (s.ph + m) % Len(s.d) ELSE s.ph + m
  IN [st |-> [s EXCEPT !.ph = ph1], out |-> out]

\* cs.take(n) on the control stream itself while an expression is derived from it (same generator)
CsTakeDirect(s, n) == [st |-> s, out |-> [j \in 1..n |-> s.val]]

---------------------------------------------------------------------------
HubNew(n) == [iters |-> [i \in 1..n |-> i], n |-> n, used |-> 0, cleared |-> FALSE]
HubLeft(h) == Len(h.iters)

\* iter(hub) in any disguise (Stream(hub), list(hub), hub + 1, hub.map(f), ...)
HubUse(h) ==
  IF HubLeft(h) > 0 THEN [st |-> [h EXCEPT !.iters = SubSeq(@, 1, Len(@) - 1), !.used = @ + 1], res |-> <<"ok">>]
  ELSE [st |-> h, res |-> <<"IndexError">>]
\* hub.peek(k) / hub.copy(): need a copy, do not consume one
HubPeek(h) == [st |-> h, res |-> IF HubLeft(h) > 0 THEN <<"ok">> ELSE <<"IndexError">>]
\* hub.take(): always refused
HubTake(h) == [st |-> h, res |-> <<"AttributeError">>]
\* hub.__del__() (explicit call, or the last reference going away)
HubDel(h) ==
  [st |-> [h EXCEPT !.iters = <<>>, !.cleared = @ \/ HubLeft(h) > 0],
   res |-> IF HubLeft(h) > 0 THEN <<"warn", HubLeft(h)>> ELSE <<"nowarn">>]

\* definition: a warning exactly when copies were requested and not all used, saying how many
DefLeak(n, used, cleared) == IF cleared \/ used >= n THEN <<"nowarn">> ELSE <<"warn", n - used>>
============================================================================
