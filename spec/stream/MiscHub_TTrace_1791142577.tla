---- MODULE MiscHub_TTrace_1791142577 ----
EXTENDS Sequences, TLCExt, MiscHub, Toolbox, Naturals, TLC

_expression ==
    LET MiscHub_TEExpression == INSTANCE MiscHub_TEExpression
    IN MiscHub_TEExpression!expression
----

_trace ==
    LET MiscHub_TETrace == INSTANCE MiscHub_TETrace
    IN MiscHub_TETrace!trace
----

_inv ==
    ~(
        TLCGet("level") = Len(_TETrace)
        /\
        res = (<<"nowarn">>)
        /\
        alive = (TRUE)
        /\
        last = (<<"calldel">>)
        /\
        hub = ([n |-> 1, cleared |-> TRUE, used |-> 0, iters |-> <<>>])
    )
----

_init ==
    /\ alive = _TETrace[1].alive
    /\ res = _TETrace[1].res
    /\ last = _TETrace[1].last
    /\ hub = _TETrace[1].hub
----

_next ==
    /\ \E i,j \in DOMAIN _TETrace:
        /\ \/ /\ j = i + 1
              /\ i = TLCGet("level")
        /\ alive  = _TETrace[i].alive
        /\ alive' = _TETrace[j].alive
        /\ res  = _TETrace[i].res
        /\ res' = _TETrace[j].res
        /\ last  = _TETrace[i].last
        /\ last' = _TETrace[j].last
        /\ hub  = _TETrace[i].hub
        /\ hub' = _TETrace[j].hub

\* Uncomment the ASSUME below to write the states of the error trace
\* to the given file in Json format. Note that you can pass any tuple
\* to `JsonSerialize`. For example, a sub-sequence of _TETrace.
    \* ASSUME
    \*     LET J == INSTANCE Json
    \*         IN J!JsonSerialize("MiscHub_TTrace_1791142577.json", _TETrace)

=============================================================================

 Note that you can extract this module `MiscHub_TEExpression`
  to a dedicated file to reuse `expression` (the module in the 
  dedicated `MiscHub_TEExpression.tla` file takes precedence 
  over the module `MiscHub_TEExpression` below).

---- MODULE MiscHub_TEExpression ----
EXTENDS Sequences, TLCExt, MiscHub, Toolbox, Naturals, TLC

expression == 
    [
        \* To hide variables of the `MiscHub` spec from the error trace,
        \* remove the variables below.  The trace will be written in the order
        \* of the fields of this record.
        alive |-> alive
        ,res |-> res
        ,last |-> last
        ,hub |-> hub
        
        \* Put additional constant-, state-, and action-level expressions here:
        \* ,_stateNumber |-> _TEPosition
        \* ,_aliveUnchanged |-> alive = alive'
        
        \* Format the `alive` variable as Json value.
        \* ,_aliveJson |->
        \*     LET J == INSTANCE Json
        \*     IN J!ToJson(alive)
        
        \* Lastly, you may build expressions over arbitrary sets of states by
        \* leveraging the _TETrace operator.  For example, this is how to
        \* count the number of times a spec variable changed up to the current
        \* state in the trace.
        \* ,_aliveModCount |->
        \*     LET F[s \in DOMAIN _TETrace] ==
        \*         IF s = 1 THEN 0
        \*         ELSE IF _TETrace[s].alive # _TETrace[s-1].alive
        \*             THEN 1 + F[s-1] ELSE F[s-1]
        \*     IN F[_TEPosition - 1]
    ]

=============================================================================



Parsing and semantic processing can take forever if the trace below is long.
 In this case, it is advised to uncomment the module below to deserialize the
 trace from a generated binary file.

\*
\*---- MODULE MiscHub_TETrace ----
\*EXTENDS IOUtils, MiscHub, TLC
\*
\*trace == IODeserialize("MiscHub_TTrace_1791142577.bin", TRUE)
\*
\*=============================================================================
\*

---- MODULE MiscHub_TETrace ----
EXTENDS MiscHub, TLC

trace == 
    <<
    ([res |-> <<"new">>,alive |-> TRUE,last |-> <<"init">>,hub |-> [n |-> 1, cleared |-> FALSE, used |-> 0, iters |-> <<1>>]]),
    ([res |-> <<"nowarn">>,alive |-> TRUE,last |-> <<"calldel">>,hub |-> [n |-> 1, cleared |-> TRUE, used |-> 0, iters |-> <<>>]])
    >>
----


=============================================================================

---- CONFIG MiscHub_TTrace_1791142577 ----
CONSTANTS
    MaxN = 3

INVARIANT
    _inv

CHECK_DEADLOCK
    \* CHECK_DEADLOCK off because of PROPERTY or INVARIANT above.
    FALSE

INIT
    _init

NEXT
    _next

CONSTANT
    _TETrace <- _trace

ALIAS
    _expression
=============================================================================
\* Generated on Sun Oct 04 19:36:18 UTC 2026