CONSTANTS
  MaxOps = 4
  MaxH = 3
  Bases <- CoreBases
  TakeToks <- TokTakeCore
  PeekToks <- TokPeekCore
  SkipToks <- TokSkipCore
  LimitToks <- TokLimitCore
  Menu <- CoreMenu
  UnfoldLen = 7
INIT Init
NEXT Next
INVARIANT RetAgree
INVARIANT Independent
PROPERTY PeekPure
CHECK_DEADLOCK FALSE
