----------------------------- MODULE MiscX03Q -----------------------------
EXTENDS MiscX03

QTabs == {Tb(<<>>, 1), Tb(<<R(0)>>, 1), Tb(<<R(2)>>, 2), Tb(<<R(1), R(-2)>>, 1), Tb(<<Q(1, 2), R(3)>>, 1),
          Tb(<<Q(-3, 2), R(0), R(2)>>, 1), Tb(<<R(3), R(-1), Q(1, 3)>>, 2)}
QITabs == {Tb(<<>>, 1), Tb(<<R(0)>>, 1), Tb(<<R(5)>>, 2), Tb(<<R(1), R(-2)>>, 1), Tb(<<R(-5), R(6)>>, 1),
           Tb(<<R(3), R(0), R(12)>>, 1), Tb(<<R(7), R(-1), R(2)>>, 2)}
QNums  == {R(-2), R(-1), R(0), R(1), R(2), R(3), Q(1, 2)}
QINums == {R(-3), R(-1), R(0), R(1), R(2), R(6)}
QHds   == {<< <<0, R(1)>> >>, << <<1, R(2)>> >>, << <<0, R(1)>>, <<1, Q(1, 2)>> >>, << <<2, R(-1)>>, <<0, R(3)>> >>,
           << <<3, R(1)>> >>, << <<0, R(1)>>, <<1, R(1)>>, <<2, R(1)>> >>}
QHTabs == {Tb(<<>>, 1), Tb(<<R(1), R(2), R(3), R(4)>>, 1), Tb(<<R(1), R(-2), Q(1, 2), R(0), R(5), R(7)>>, 2),
           Tb(<<R(2), R(-1), R(4)>>, 1)}
QPool  == {It(<<>>), It(<<1>>), It(<<2, 3>>), Non(7), Non(8)}
QSeqs  == {<<>>, <<4>>, <<1, 2>>, <<5, 6, 7>>}

X03Quick ==
  [optable |-> {[x |-> 0]},
   tbin    |-> TbinCases(QTabs, QNums, TblBinNames \ BitNames) \cup TbinCases(QITabs, QINums, BitNames \cup {"pow", "floordiv", "mod"}),
   tun     |-> TunCases(QTabs, {"pos", "neg"}) \cup TunCases(QITabs, TblUnNames),
   tget    |-> TgetCases(QTabs \cup QITabs, {R(0), Q(1, 2), R(1), Q(5, 4), R(2), Q(7, 2), R(3), Q(13, 4), R(7), Q(61, 8)}),
   tnorm   |-> {[self |-> x] : x \in QITabs \cup QTabs \cup {Tb(<<R(1), R(-4), R(2)>>, 3), Tb(<<R(2), R(-2)>>, 1),
                                                          Tb(<<R(-2), R(2)>>, 1), Tb(<<R(0), R(0)>>, 1), Tb(<<R(3), R(1)>>, 1)}},
   tharm   |-> TharmCases(QHTabs, QHds),
   teq     |-> TeqCases(QTabs \cup {Tb(<<R(2)>>, 1), Tb(<<R(3), R(-1), Q(1, 3)>>, 1), Tb(<<R(3), R(-1), Q(1, 2)>>, 2)}),
   tfacts  |-> {[x |-> 0]},
   ctor    |-> CtorCases(QPool, 0..3, 7),
   count   |-> [start : {0, 2, -3}, step : {1, 3, -2, 0}, h : {5}],
   repeat  |-> [v : {4}, times : {-1, 0, 1, 2, 7}, h : {5}],
   cycle   |-> [s : QSeqs, h : {7}],
   islice  |-> IsliceCases({[i \in 1..n |-> 10 + i] : n \in 0..6}, 0..3, {-1} \cup 0..7, 1..3),
   chain   |-> ChainCases(QSeqs, 0..3),
   zipl    |-> ZiplCases(QSeqs, 1..3, {0, -1}),
   zips    |-> ChainCases(QSeqs, 1..3),
   accum   |-> [s : {<<>>, <<3>>, <<1, 2, 3>>, <<5, -7, 2, 2>>}],
   linames |-> {[itnames |-> ItNames312], [itnames |-> ItNames38]},
   tee     |-> [kind : {"stream", "iterator", "list", "number"}, s : {<<1, 2>>}, n : 0..3],
   attr    |-> [elems : {<<>>, << <<1, 2>> >>, << <<1, 2>>, <<-3, 4>>, <<0, 1>> >>},
                name : {"real", "imag", "numerator", "denominator", NextName, "nosuchattr"}],
   meth    |-> [elems : {<<>>, << <<1, 2>>, <<-3, 4>> >>}, name : {"conjugate", "as_integer_ratio"}],
   call    |-> [fs : {<<>>, <<[c |-> 2, d |-> 1]>>, <<[c |-> 2, d |-> 1], [c |-> -1, d |-> 0], [c |-> 0, d |-> 5]>>},
                x : {0, 3}, y : {0, 4}],
   abs     |-> [s : {<<>>, <<-1, 2, 0, -7>>}],
   proto   |-> {[x |-> 0]},
   zpad    |-> [s : {<<>>, <<1>>, <<1, 2, 3>>}, left : 0..2, right : 0..2, zero : {0, 9}],
   blk     |-> [s : {[i \in 1..n |-> i] : n \in 0..9}, size : 1..4, pad : {0, -1}],
   shz     |-> [rate : {R(1), R(2), R(3), R(5), R(44100), Q(1, 2)}],
   f2l     |-> [v : UnitVals({R(0), R(1), R(-1), R(2), R(8), Q(1, 4), Q(-3, 2), R(30)})],
   orange  |-> [args : SeqsOver(-2..4, 0..3) \cup {<<1, 2, 3, 4>>}],
   items   |-> [pairs : {<<>>, << <<1, 2>> >>, << <<3, 4>>, <<1, 2>>, <<7, 0>> >>}]]
===========================================================================
