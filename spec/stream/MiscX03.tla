----------------------------- MODULE MiscX03 -----------------------------
(* Case-grid builders for X03 (the tier grids are in MiscX03Q / MiscX03T: TLC evaluates every   *)
(* zero-arity definition at start-up, so everything here takes a parameter).                    *)
EXTENDS MiscGrid

Q(n, d)   == Norm(n, d)
RS(s)     == [i \in DOMAIN s |-> R(s[i])]                     \* integer sequence -> Rat sequence
Tb(t, cy) == [t |-> t, cy |-> cy]
OTbl(t, cy) == [k |-> "tbl", t |-> t, cy |-> cy]
ONum(v)   == [k |-> "num", v |-> v]
ORef(k)   == [k |-> k]
SeqsOver(S, lens) == UNION {[1..n -> S] : n \in lens}

\* ---- TableLookup ------------------------------------------------------------------------
TbinCases(tabs, nums, ops) ==
  {c \in [op : ops, rev : {FALSE}, self : tabs,
          other : {OTbl(x.t, x.cy) : x \in tabs} \cup {ONum(v) : v \in nums} \cup {ORef("frac"), ORef("list")}]
        : OpCovered(c.op, c.rev, c.self, c.other)}
  \cup {c \in [op : ops, rev : {TRUE}, self : tabs,
               other : {ONum(v) : v \in nums} \cup {ORef("frac"), ORef("list")} \cup {OTbl(x.t, x.cy) : x \in {Tb(<<R(1)>>, 1)}}]
        : OpCovered(c.op, c.rev, c.self, c.other)}
TunCases(tabs, ops) == [op : ops, self : tabs]
TgetCases(tabs, idxs) == {c \in [t : {x.t : x \in tabs}, idx : idxs] : Len(c.t) > 0}
TeqCases(tabs) == [self : tabs, other : {OTbl(x.t, x.cy) : x \in tabs} \cup {ORef("list")}]
TharmCases(tabs, hds) == [self : tabs, hd : hds]

\* ---- Stream constructor ---------------------------------------------------------------------
It(s)  == [it |-> TRUE, s |-> s]
Non(v) == [it |-> FALSE, s |-> <<v>>]
CtorCases(pool, lens, h) == [args : SeqsOver(pool, lens), h : {h}]

\* ---- itertools --------------------------------------------------------------------------------
IsliceCases(seqs, starts, stops, steps) == [s : seqs, start : starts, stop : stops, step : steps]
ChainCases(pool, lens) == [ss : SeqsOver(pool, lens)]
ZiplCases(pool, lens, fills) == [ss : SeqsOver(pool, lens), fill : fills]

\* ---- units -------------------------------------------------------------------------------------
UnitVals(rs) == {UOne(r) : r \in rs} \cup {UPi(r) : r \in rs}
==========================================================================
