------------------------------ MODULE MiscCtl ------------------------------
(***************************************************************************)
(* X03, ControlStream with operators: the full state graph of one control  *)
(* stream, one expression derived from it through the Stream operators,    *)
(* assignments to `value` interleaved with reads of the expression.        *)
(*                                                                         *)
(* Operational layer: CtlFn!CsSet / CsTake / CsTakeDirect on the record    *)
(* [expr, val, ph, d, per] (attribute + generator + xmap node).            *)
(* Definition layer: `assigned` = the value most recently given to the     *)
(* control (constructor argument at first) and `pulled` = how many samples *)
(* the expression has produced; sample k of the expression is              *)
(* f(data[k], value assigned last before sample k was requested).          *)
(***************************************************************************)
EXTENDS CtlFn, TLC

CONSTANTS Vals,       \* control values
          TakeNs,     \* sample counts asked in one take
          Data        \* items of the data operand (finite: as is; periodic: repeated)

VARIABLES cs,         \* operational state
          assigned,   \* definition layer: last assigned value
          res,        \* what the last call returned (sequence of samples; <<>> for an assignment)
          last        \* the last call (write-only, for the action properties)
vars == <<cs, assigned, res, last>>

\* configuration values (cfg files cannot hold tuples / negative numbers)
CtlVals == {7, 9, -2}
CtlData == <<1, 3, 8>>
CtlValsT == {7, 9, -2, 0}
CtlDataT == <<1, 3, 8, -4>>

Init == /\ \E e \in CsExprs, per \in BOOLEAN, v \in Vals : cs = CsNew(e, v, Data, per) /\ assigned = v
        /\ res = <<>> /\ last = <<"init">>

SetValue(v) == /\ cs' = CsSet(cs, v) /\ assigned' = v
               /\ res' = <<>> /\ last' = <<"set", v>>
Take(n)     == /\ cs' = CsTake(cs, n).st /\ res' = CsTake(cs, n).out
               /\ last' = <<"take", n>> /\ UNCHANGED assigned
TakeCs(n)   == /\ cs.expr # "self"
               /\ cs' = CsTakeDirect(cs, n).st /\ res' = CsTakeDirect(cs, n).out
               /\ last' = <<"takecs", n>> /\ UNCHANGED assigned
ReadValue   == /\ res' = <<cs.val>> /\ last' = <<"read">> /\ UNCHANGED <<cs, assigned>>

Next == \/ \E v \in Vals : SetValue(v)
        \/ \E n \in TakeNs : Take(n) \/ TakeCs(n)
        \/ ReadValue
Spec == Init /\ [][Next]_vars

---------------------------------------------------------------------------
Tracks == cs.val = assigned

\* every sample of a take is computed from the value assigned last before it: the change is seen at the
\* next sample, and only there (nothing was buffered from before the assignment)
SeenAtNext ==
  [][last'[1] = "take" =>
       \A j \in DOMAIN res' :
          res'[j] = ExprVal(cs.expr, IF UsesData(cs.expr) THEN DataAt(cs, cs.ph + j - 1) ELSE 0, assigned)]_vars

\* an assignment by itself produces nothing and moves nothing
SetIsSilent == [][last'[1] = "set" => (cs'.ph = cs.ph /\ res' = <<>>)]_vars

\* a finite data operand ends the expression; the control never does
EndsWithData ==
  [][last'[1] = "take" =>
       Len(res') = IF UsesData(cs.expr) /\ ~cs.per THEN CMin(last'[2], Len(cs.d) - cs.ph) ELSE last'[2]]_vars
============================================================================
