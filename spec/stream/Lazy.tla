-------------------------------- MODULE Lazy --------------------------------
(***************************************************************************)
(* Everything is lazy (property C02): building a stage reads nothing from  *)
(* its source, and after k outputs the stage has read no more than         *)
(* Need(k) source items.                                                   *)
(*                                                                         *)
(* Every public stage constructor of the library belongs to one of the     *)
(* read-pattern classes below (the table stage -> class lives in the       *)
(* harness and in DESIGN.md appendix B).  Operational layer: the reading   *)
(* loop of the class, one request for an output = one Step, counting the   *)
(* source items pulled.  Definition layer: the closed form Need(c, k) --   *)
(* the length of the shortest source prefix that determines outputs 1..k.  *)
(* TLC checks NoReadAtConstruction, BoundedRead and that Need is monotone  *)
(* in k, which is what makes the bound compose along chains of stages:     *)
(* a chain s2(s1(src)) needs at most Need1(Need2(k)).                      *)
(***************************************************************************)
EXTENDS Integers, Sequences, FiniteSets, TLC

CONSTANTS Cases,    \* set of [cls, a, b, c (integer parameters), len (source length, -1 = endless), pat (selection pattern)]
          MaxK      \* outputs requested

Inf == 1000000
MinOf(x, y) == IF x < y THEN x ELSE y
MaxOf(x, y) == IF x > y THEN x ELSE y
CeilDiv(x, y) == -((-x) \div y)
SrcLen(c) == IF c.len < 0 THEN Inf ELSE c.len
\* does the source item at (1-based) position i pass the stage's predicate (periodic continuation of the pattern)
Passes(c, i) == c.pat[((i - 1) % Len(c.pat)) + 1]

---------------------------------------------------------------------------
(* Definition layer: Need(c, k) for k >= 1 outputs (0 for k = 0)           *)
RECURSIVE KthPass(_, _, _)
\* position of the k-th passing item at or after position i (Inf when the pattern never passes again)
KthPass(c, i, k) ==
  IF \A j \in 1..Len(c.pat) : ~c.pat[j] THEN Inf
  ELSE IF Passes(c, i) THEN (IF k = 1 THEN i ELSE KthPass(c, i + 1, k - 1)) ELSE KthPass(c, i + 1, k)

\* resample: threshold = (order+1)/2 in halves: th2 = order+1 (twice the threshold); step = old/new
\* reads rint(th) items first; output m is produced at idx = int(th) + (m-1)*step - pops, pops minimal with idx <= th
RsFirst(c)   == (c.c + 2) \div 2                       \* rint((order+1)/2): half away from zero
RsInt(c)     == (c.c + 1) \div 2                       \* int((order+1)/2)
\* pops before output k: max(0, ceil(int(th) + (k-1)*old/new - th)) = ceil((2*new*int(th) + 2*(k-1)*old - new*th2) / (2*new))
RsPops(c, k) == MaxOf(0, CeilDiv(2 * c.b * RsInt(c) + 2 * (k - 1) * c.a - c.b * (c.c + 1), 2 * c.b))

Need(c, k) ==
  IF k = 0 THEN 0 ELSE
  CASE c.cls = "sw"       -> k                                        \* sample-wise stages
    [] c.cls = "blocks"   -> (k - 1) * c.b + c.a                      \* a = size, b = hop
    [] c.cls = "skip"     -> c.a + k                                  \* a = n
    [] c.cls = "every"    -> (k - 1) * c.a + 1                        \* islice(0, None, a)
    [] c.cls = "limit"    -> MinOf(k, c.a)
    [] c.cls = "sel"      -> KthPass(c, 1, k)                         \* filter / ifilter / compress
    [] c.cls = "twhile"   -> k                                        \* takewhile (a items pass)
    [] c.cls = "dwhile"   -> c.a + k                                  \* dropwhile (a items dropped)
    [] c.cls = "prefix"   -> MaxOf(0, k - c.a)                        \* chain / append / zero_pad(left = a)
    [] c.cls = "ola"      -> ((k - 1) \div c.b) * c.b + c.a           \* overlap-add of blocks(a, b)
    [] c.cls = "pair"     -> k + 1                                    \* pairwise
    [] c.cls = "batched"  -> k * c.a
    [] c.cls = "resample" -> RsFirst(c) + RsPops(c, k)                \* a = old, b = new, c = order

\* resample advances its position by the float old/new; when that ratio is not exactly representable the
\* accumulated position can sit one rounding error above the threshold and one more item is read early: the
\* observed executions are judged against Need + 1 for such ratios (the statement only promises a fixed look-ahead)
IsPow2(n) == n \in {1, 2, 4, 8, 16, 32, 64}
NeedUB(c, k) == Need(c, k) + (IF c.cls = "resample" /\ ~IsPow2(c.b) /\ k > 0 THEN 1 ELSE 0)

\* what may have been read once the stage has reported its end
NeedEnd(c) == IF c.cls = "limit" THEN MinOf(c.a, SrcLen(c)) ELSE SrcLen(c)

---------------------------------------------------------------------------
(* Operational layer *)
VARIABLES case, pulled, emitted, ended, built, st
vars == <<case, pulled, emitted, ended, built, st>>

Avail == SrcLen(case) - pulled

Init == /\ case \in Cases
        /\ pulled = 0 /\ emitted = 0 /\ ended = FALSE /\ built = FALSE
        /\ st = [first |-> TRUE, left |-> 0, idx2 |-> 0]

\* constructing the stage (wrapping the source) reads nothing
Build == /\ ~built /\ built' = TRUE /\ UNCHANGED <<case, pulled, emitted, ended, st>>

\* read `want` items; Emit when they were all there, End otherwise
ReadThen(want, newst) ==
  IF Avail >= want
  THEN pulled' = pulled + want /\ emitted' = emitted + 1 /\ ended' = FALSE /\ st' = newst
  ELSE pulled' = pulled + Avail /\ emitted' = emitted /\ ended' = TRUE /\ st' = st

RECURSIVE ScanPass(_, _)
\* number of items read from position i until (and including) the first passing one, bounded by what is available
ScanPass(i, avail) == IF avail = 0 THEN 0 ELSE IF Passes(case, i) THEN 1 ELSE 1 + ScanPass(i + 1, avail - 1)

Step ==
  /\ built /\ ~ended /\ emitted < MaxK
  /\ UNCHANGED <<case, built>>
  /\ LET c == case  nf == [st EXCEPT !.first = FALSE] IN
     CASE c.cls = "sw"      -> ReadThen(1, nf)
       [] c.cls = "blocks"  ->
            \* block j starts at item (j-1)*hop; complete blocks read up to their last item; the tail block
            \* (C08: more than max(size-hop, 0) real items left) uses up the source
            LET j == emitted + 1
                s0 == (j - 1) * c.b
                L == SrcLen(c) IN
            IF s0 + c.a <= L
            THEN pulled' = s0 + c.a /\ emitted' = emitted + 1 /\ ended' = FALSE /\ st' = nf
            ELSE IF L - s0 > MaxOf(c.a - c.b, 0)
                 THEN pulled' = L /\ emitted' = emitted + 1 /\ ended' = FALSE /\ st' = nf
                 ELSE pulled' = MaxOf(pulled, L) /\ emitted' = emitted /\ ended' = TRUE /\ st' = st
       [] c.cls \in {"skip", "dwhile"} -> ReadThen(IF st.first THEN c.a + 1 ELSE 1, nf)
       [] c.cls = "every"   -> ReadThen(IF st.first THEN 1 ELSE c.a, nf)
       [] c.cls = "limit"   -> IF emitted = c.a
                               THEN ended' = TRUE /\ UNCHANGED <<pulled, emitted, st>>      \* stops without reading
                               ELSE ReadThen(1, nf)
       [] c.cls = "sel"     ->
            LET n == ScanPass(pulled + 1, MinOf(Avail, 4 * Len(c.pat) + 4)) IN
            IF n > 0 /\ Passes(c, pulled + n)
            THEN pulled' = pulled + n /\ emitted' = emitted + 1 /\ ended' = FALSE /\ st' = nf
            ELSE pulled' = pulled + n /\ emitted' = emitted /\ ended' = TRUE /\ st' = st
       [] c.cls = "twhile"  -> IF emitted < c.a THEN ReadThen(1, nf)
                               ELSE \* reads the first failing item (if any) and ends
                                    /\ pulled' = pulled + MinOf(1, Avail) /\ ended' = TRUE /\ UNCHANGED <<emitted, st>>
       [] c.cls = "prefix"  -> IF emitted < c.a
                               THEN emitted' = emitted + 1 /\ UNCHANGED <<pulled, ended, st>>    \* from the prefix
                               ELSE ReadThen(1, nf)
       [] c.cls = "ola"     ->
            \* one block per hop outputs; the first needs `size` items, later ones `hop`; the flush at the end
            \* hands out the remaining size - hop samples without reading
            IF st.left > 0 THEN emitted' = emitted + 1 /\ st' = [st EXCEPT !.left = @ - 1] /\ UNCHANGED <<pulled, ended>>
            ELSE LET want == IF st.first THEN c.a ELSE c.b IN
                 IF Avail >= want
                 THEN pulled' = pulled + want /\ emitted' = emitted + 1 /\ ended' = FALSE
                      /\ st' = [st EXCEPT !.first = FALSE, !.left = c.b - 1]
                 ELSE \* no further complete block: (tail block / flush are outside the bound: the source is used up)
                      pulled' = pulled + Avail /\ ended' = TRUE /\ UNCHANGED <<emitted, st>>
       [] c.cls = "pair"    -> ReadThen(IF st.first THEN 2 ELSE 1, nf)
       [] c.cls = "batched" -> IF Avail >= c.a THEN ReadThen(c.a, nf)
                               ELSE IF Avail > 0 THEN pulled' = pulled + Avail /\ emitted' = emitted + 1
                                                      /\ ended' = FALSE /\ st' = nf
                               ELSE ended' = TRUE /\ UNCHANGED <<pulled, emitted, st>>
       [] c.cls = "resample" ->
            \* idx2 = 2*new*idx (integer); threshold2 = new*(order+1)
            IF st.first
            THEN IF Avail >= RsFirst(c)
                 THEN pulled' = pulled + RsFirst(c) /\ emitted' = emitted + 1 /\ ended' = FALSE
                      /\ st' = [st EXCEPT !.first = FALSE, !.idx2 = 2 * c.b * RsInt(c)]
                 ELSE pulled' = pulled + Avail /\ ended' = TRUE /\ UNCHANGED <<emitted, st>>
            ELSE LET i2   == st.idx2 + 2 * c.a                  \* idx += step
                     pops == MaxOf(0, CeilDiv(i2 - c.b * (c.c + 1), 2 * c.b))
                 IN IF Avail >= pops
                    THEN pulled' = pulled + pops /\ emitted' = emitted + 1 /\ ended' = FALSE
                         /\ st' = [st EXCEPT !.idx2 = i2 - 2 * c.b * pops]
                    ELSE pulled' = pulled + Avail /\ ended' = TRUE /\ UNCHANGED <<emitted, st>>

Next == Build \/ Step
Spec == Init /\ [][Next]_vars

---------------------------------------------------------------------------
NoReadAtConstruction == emitted = 0 /\ ~ended => pulled = 0
BoundedRead  == IF ended THEN pulled <= NeedEnd(case) ELSE pulled <= MinOf(Need(case, emitted), SrcLen(case))
\* the machine reads exactly what the definition says is needed (so Need is not a loose bound)
TightRead    == (~ended /\ emitted > 0) => pulled = MinOf(Need(case, emitted), SrcLen(case))
Monotone     == \A k \in 0..MaxK : Need(case, k) <= Need(case, k + 1)
\* a request on an endless source terminates: bounded work per output (variant: the scan is bounded by the pattern)
EndlessOK    == case.len < 0 => (ended => case.cls \in {"limit", "twhile", "sel"})

\* chains: Need of stage c2 applied to the outputs of stage c1
NeedChain(c1, c2, k) == NeedUB(c1, NeedUB(c2, k))
===========================================================================
