CONSTANTS
  Q = 4
  Deltas = {0, 1, 2, 3, 4, 6, 7, 11}
  Lens = {0, 1, 2, 3}
  Keeps = {FALSE, TRUE}
  MaxLive = 2
  MaxCount = 60
  MaxEv = 0
  MaxN = 0
  Values = {"v1"}
INIT Init
NEXT Next
VIEW GraphView
CONSTRAINT GraphBound
INVARIANT TypeOK
INVARIANT OutIsPlaying
INVARIANT Refines
INVARIANT StartTimes
INVARIANT CountTracksBase
INVARIANT NoDrift
INVARIANT ClosedForm
INVARIANT Termination
INVARIANT NegativeDeltaRejected
CHECK_DEADLOCK FALSE
