CONSTANTS
  MaxN = 3
INIT Init
NEXT Next
INVARIANT Counts
INVARIANT NoExtraCopy
PROPERTY LeakLaw
PROPERTY UseFailsWhenEmpty
PROPERTY PeekKeeps
CHECK_DEADLOCK FALSE
