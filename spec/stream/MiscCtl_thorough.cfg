CONSTANTS
  Vals <- CtlValsT
  TakeNs = {0, 1, 2, 3, 5}
  Data <- CtlDataT
INIT Init
NEXT Next
INVARIANT Tracks
PROPERTY SeenAtNext
PROPERTY SetIsSilent
PROPERTY EndsWithData
CHECK_DEADLOCK FALSE
