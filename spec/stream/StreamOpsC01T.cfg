CONSTANTS
  Programs <- C01Thorough
  Horizon = 5
INIT Init
NEXT Next
INVARIANT WF
INVARIANT ElementwiseLaw
INVARIANT EndLaw
INVARIANT NoOverRead
INVARIANT OpTableShape
CHECK_DEADLOCK FALSE
