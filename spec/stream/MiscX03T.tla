----------------------------- MODULE MiscX03T -----------------------------
EXTENDS MiscX03

TVals  == {R(-2), Q(-1, 2), R(0), R(1), Q(3, 2)}
TIVals == {R(-5), R(-1), R(0), R(2), R(6)}
TabsOver(V) == {Tb(t, 1) : t \in SeqsOver(V, 0..2)}
TTabs  == TabsOver(TVals) \cup {Tb(t, 1) : t \in SeqsOver({R(-2), Q(3, 2), R(0)}, {3})} \cup {Tb(<<R(2)>>, 2), Tb(<<Q(1, 2), R(3)>>, 2), Tb(<<Q(-3, 2), R(0), R(2)>>, 1),
                               Tb(<<R(3), R(-1), Q(1, 3)>>, 2), Tb(<<R(1), R(1), R(0), Q(-2, 3)>>, 1),
                               Tb(<<R(3), R(-1), Q(1, 3)>>, 1), Tb(<<R(0), R(0), R(0)>>, 1)}
TITabs == TabsOver(TIVals) \cup {Tb(t, 1) : t \in SeqsOver({R(-5), R(6), R(0)}, {3})} \cup {Tb(<<R(5)>>, 2), Tb(<<R(-5), R(6)>>, 2), Tb(<<R(3), R(0), R(12)>>, 1),
                                 Tb(<<R(7), R(-1), R(2)>>, 2), Tb(<<R(7), R(-1), R(2)>>, 1), Tb(<<R(1), R(2), R(4), R(-8)>>, 1)}
TNums  == {R(-2), R(-1), R(0), R(1), R(2), R(3), Q(1, 2), Q(-1, 4), R(5)}
TINums == {R(-3), R(-1), R(0), R(1), R(2), R(4), R(6), R(11)}
THds   == {<< <<0, R(1)>> >>, << <<1, R(2)>> >>, << <<0, R(1)>>, <<1, Q(1, 2)>> >>, << <<2, R(-1)>>, <<0, R(3)>> >>,
           << <<3, R(1)>> >>, << <<0, R(1)>>, <<1, R(1)>>, <<2, R(1)>> >>, << <<5, R(2)>>, <<1, R(-1)>> >>,
           << <<0, Q(1, 2)>>, <<1, Q(1, 4)>>, <<3, Q(1, 8)>> >>, << <<7, R(1)>> >>, << <<4, R(1)>>, <<0, R(-1)>> >>}
THTabs == {Tb(<<>>, 1), Tb(<<R(5)>>, 1), Tb(<<R(1), R(2), R(3), R(4)>>, 1), Tb(<<R(1), R(-2), Q(1, 2), R(0), R(5), R(7)>>, 2),
           Tb(<<R(2), R(-1), R(4)>>, 1), Tb(<<R(1), R(2), R(3), R(4), R(5), R(6), R(7), R(8)>>, 3),
           Tb([i \in 1..12 |-> Q(i * i - 20, 3)], 1), Tb(<<R(1), R(0), R(-1), R(0), R(2)>>, 1)}
TPool  == {It(<<>>), It(<<1>>), It(<<2, 3>>), It(<<4, 5, 6>>), Non(7), Non(8)}
TSeqs  == {<<>>, <<4>>, <<1, 2>>, <<5, 6, 7>>, <<8, 9, 8, 9>>}

X03Thorough ==
  [optable |-> {[x |-> 0]},
   tbin    |-> TbinCases(TTabs, TNums, TblBinNames \ BitNames) \cup TbinCases(TITabs, TINums, BitNames \cup {"pow", "floordiv", "mod"}),
   tun     |-> TunCases(TTabs, {"pos", "neg"}) \cup TunCases(TITabs, TblUnNames),
   tget    |-> TgetCases(TTabs \cup TITabs, {Q(n, 8) : n \in 0..40} \cup {R(7), Q(61, 8), R(12), Q(99, 4)}),
   tnorm   |-> {[self |-> x] : x \in TITabs \cup TTabs \cup {Tb(<<R(1), R(-4), R(2)>>, 3), Tb(<<R(2), R(-2)>>, 1),
                                                          Tb(<<R(-2), R(2)>>, 1), Tb(<<R(3), R(1)>>, 1), Tb(<<R(-3), R(3), R(1)>>, 1)}},
   tharm   |-> TharmCases(THTabs, THds),
   teq     |-> TeqCases(TTabs \cup {Tb(<<R(2)>>, 1), Tb(<<R(3), R(-1), Q(1, 3)>>, 1), Tb(<<R(3), R(-1), Q(1, 2)>>, 2)}),
   tfacts  |-> {[x |-> 0]},
   ctor    |-> CtorCases(TPool, 0..4, 14),
   count   |-> [start : {0, 2, -3, 100}, step : {1, 3, -2, 0, 7}, h : {9}],
   repeat  |-> [v : {4, -1}, times : {-1, 0, 1, 2, 7, 9, 12}, h : {9}],
   cycle   |-> [s : TSeqs, h : {13}],
   islice  |-> IsliceCases({[i \in 1..n |-> 10 + i] : n \in 0..9}, 0..5, {-1} \cup 0..10, 1..4),
   chain   |-> ChainCases(TSeqs, 0..4),
   zipl    |-> ZiplCases(TSeqs, 1..4, {0, -1}),
   zips    |-> ChainCases(TSeqs, 1..4),
   accum   |-> [s : SeqsOver({-3, 0, 2, 5}, 0..4)],
   linames |-> {[itnames |-> ItNames312], [itnames |-> ItNames38]},
   tee     |-> [kind : {"stream", "iterator", "list", "number"}, s : {<<>>, <<1, 2>>, <<3, 1, 2>>}, n : 0..5],
   attr    |-> [elems : SeqsOver({<<1, 2>>, <<-3, 4>>, <<0, 1>>, <<5, 1>>}, 0..3),
                name : {"real", "imag", "numerator", "denominator", NextName, "nosuchattr"}],
   meth    |-> [elems : SeqsOver({<<1, 2>>, <<-3, 4>>, <<0, 1>>}, 0..3), name : {"conjugate", "as_integer_ratio"}],
   call    |-> [fs : SeqsOver({[c |-> 2, d |-> 1], [c |-> -1, d |-> 0], [c |-> 0, d |-> 5]}, 0..3), x : {0, 3, -2}, y : {0, 4}],
   abs     |-> [s : SeqsOver({-7, -1, 0, 2}, 0..4)],
   proto   |-> {[x |-> 0]},
   zpad    |-> [s : {<<>>, <<1>>, <<1, 2, 3>>, <<4, 4, 4, 4, 4>>}, left : 0..4, right : 0..4, zero : {0, 9}],
   blk     |-> [s : {[i \in 1..n |-> i] : n \in 0..16}, size : 1..6, pad : {0, -1}],
   shz     |-> [rate : {R(n) : n \in {1, 2, 3, 5, 8, 10, 44100, 48000, 96000}} \cup {Q(1, 2), Q(3, 4), Q(441, 10)}],
   f2l     |-> [v : UnitVals({R(0), R(1), R(-1), R(2), R(8), Q(1, 4), Q(-3, 2), R(30), Q(1, 3), Q(7, 5), R(1000)})],
   orange  |-> [args : SeqsOver(-3..5, 0..3) \cup {<<1, 2, 3, 4>>}],
   items   |-> [pairs : {<<>>, << <<1, 2>> >>, << <<3, 4>>, <<1, 2>>, <<7, 0>> >>, << <<9, 9>>, <<8, 9>>, <<7, 9>>, <<6, 9>> >>}]]
===========================================================================
