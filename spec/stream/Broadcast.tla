------------------------------ MODULE Broadcast ------------------------------
(***************************************************************************)
(* The container-kind table of audiolazy.lazy_misc.elementwise (property   *)
(* C01, second half): a broadcasting function applied to a container C     *)
(* returns the same kind of container with f applied to each element,      *)
(* f(C)[i] = f(C[i]); scalars (and strings) go straight to f; lazy inputs  *)
(* (generator, range, map, filter, zip, enumerate) stay lazy: nothing is   *)
(* read before the result is iterated.                                     *)
(***************************************************************************)
EXTENDS Integers, Sequences, FiniteSets, TLC

Eager   == {"list", "tuple", "deque", "set", "frozenset"}
Lazy    == {"generator", "range", "map", "filter", "zip", "enumerate"}
\* Stream subclasses (a ControlStream, a Streamix mixer, a StreamTeeHub) are streams: the result is a Stream
StreamKinds == {"Stream", "ControlStream", "Streamix", "StreamTeeHub"}
Kinds   == {"scalar", "str"} \cup StreamKinds \cup Eager \cup Lazy
OutKind(k) == IF k \in {"scalar", "str"} THEN "scalar" ELSE IF k \in Lazy THEN "generator"
              ELSE IF k \in StreamKinds THEN "Stream" ELSE k
Unordered(k) == k \in {"set", "frozenset"}

VARIABLES kind, n
Init == kind \in Kinds /\ n \in 0..3 /\ (kind \in {"scalar", "str"} => n = 1)
Next == UNCHANGED <<kind, n>>

\* the table is closed and idempotent on what it returns
Closed == OutKind(kind) \in Kinds \cup {"scalar"} /\ (OutKind(kind) # "scalar" => OutKind(OutKind(kind)) = OutKind(kind))

\* verdict on one observation record r of a real call
Verdict(r) ==
  IF r.outkind # OutKind(r.kind) THEN "container-kind"
  ELSE IF r.kind \in Lazy /\ r.read_at_call # 0 THEN "not-lazy"
  ELSE IF r.kind \in StreamKinds /\ r.read_at_call # 0 THEN "not-lazy"
  ELSE IF ~Unordered(r.kind) /\ r.kind \notin {"scalar", "str"} /\ r.outlen # r.n THEN "length"
  ELSE IF ~r.elementwise THEN "value"
  ELSE "ok"
==============================================================================
