--------------------------- MODULE StreamHistC03 ---------------------------
(* Configurations of StreamHist for C03. *)
EXTENDS StreamHist

AllBases == {Fin(<<>>), Fin(<<1>>), Fin(<<1, 2>>), Fin(<<1, 2, 3>>), [pre |-> <<>>, per |-> <<1, 2>>],
             Fin(<<4, 4, 4>>), [pre |-> <<>>, per |-> <<4>>]}     \* constant streams: repeat(4, 3) and Stream(4)
AllMenu  == {"take", "next", "copy", "peek", "skip", "limit", "append", "appendh", "map", "filter", "tee",
             "thub", "use", "hpeek", "hcopy", "htake"}

\* depth 1-2: every count token (the numeric normalisation clause)
TokTakeAll  == {"None", "inf", "-1", "0", "1", "2", "3", "5", "0.4", "0.6", "1.4", "1.6", "3.7", "-inf", "nan", "-2.5"}
TokSkipAll  == {"-1", "0", "1", "2", "4", "0.4", "0.6", "1.4", "1.6", "2.7"}
\* deeper: representative counts (within / equal to / beyond the remaining length)
TokTakeRep  == {"None", "0", "2", "5", "inf"}
TokPeekRep  == {"None", "2", "5"}
TokSkipRep  == {"1", "4"}
TokLimitRep == {"0", "2"}
\* depth 4: core methods on two bases
CoreMenu    == {"take", "next", "copy", "peek", "skip", "limit", "append", "map", "filter"}
CoreBases   == {Fin(<<1, 2, 3>>), [pre |-> <<>>, per |-> <<1, 2>>]}
TokTakeCore == {"None", "2", "5"}
TokPeekCore == {"2", "5"}
TokSkipCore == {"1"}
TokLimitCore == {"2"}
============================================================================
