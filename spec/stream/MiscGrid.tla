----------------------------- MODULE MiscGrid -----------------------------
(***************************************************************************)
(* X03, function-grid part: every case of the grid `Cases` (a record       *)
(* kind -> set of cases) is evaluated by the operational layer; the        *)
(* invariants state that the result is the definition layer's and that the *)
(* per-kind laws hold.  TLC's dump of the "done" states is what the        *)
(* harness replays on the real code.                                       *)
(***************************************************************************)
EXTENDS Misc

CONSTANT Cases

VARIABLES kind, case, phase, out
vars == <<kind, case, phase, out>>

Init == /\ kind \in DOMAIN Cases
        /\ case \in Cases[kind]
        /\ phase = "built" /\ out = <<>>

Evaluate == /\ phase = "built"
            /\ out' = Eval(kind, case)
            /\ phase' = "done"
            /\ UNCHANGED <<kind, case>>

Next == Evaluate
Spec == Init /\ [][Next]_vars

Refines == (phase = "done" /\ HasDef(kind, case)) => out = Def(kind, case)
Laws    == phase = "done" => KindLaw(kind, case, out)
\* non-vacuity helpers: the grid contains every kind
AllKinds == {"optable", "tbin", "tun", "tget", "tnorm", "tharm", "teq", "tfacts", "ctor", "count", "repeat",
             "cycle", "islice", "chain", "zipl", "zips", "accum", "linames", "tee", "attr", "meth", "call", "abs",
             "proto", "zpad", "blk", "shz", "f2l", "orange", "items"}
GridComplete == DOMAIN Cases = AllKinds /\ \A k \in AllKinds : Cases[k] # {}
ASSUME GridComplete
===========================================================================
