---- MODULE MiscX03Q_TTrace_1791142580 ----
EXTENDS Sequences, TLCExt, MiscX03Q, Toolbox, Naturals, TLC

_expression ==
    LET MiscX03Q_TEExpression == INSTANCE MiscX03Q_TEExpression
    IN MiscX03Q_TEExpression!expression
----

_trace ==
    LET MiscX03Q_TETrace == INSTANCE MiscX03Q_TETrace
    IN MiscX03Q_TETrace!trace
----

_inv ==
    ~(
        TLCGet("level") = Len(_TETrace)
        /\
        phase = ("done")
        /\
        kind = ("islice")
        /\
        case = ([start |-> 0, step |-> 1, s |-> <<11, 12>>, stop |-> -1])
        /\
        out = (<<11>>)
    )
----

_init ==
    /\ kind = _TETrace[1].kind
    /\ phase = _TETrace[1].phase
    /\ case = _TETrace[1].case
    /\ out = _TETrace[1].out
----

_next ==
    /\ \E i,j \in DOMAIN _TETrace:
        /\ \/ /\ j = i + 1
              /\ i = TLCGet("level")
        /\ kind  = _TETrace[i].kind
        /\ kind' = _TETrace[j].kind
        /\ phase  = _TETrace[i].phase
        /\ phase' = _TETrace[j].phase
        /\ case  = _TETrace[i].case
        /\ case' = _TETrace[j].case
        /\ out  = _TETrace[i].out
        /\ out' = _TETrace[j].out

\* Uncomment the ASSUME below to write the states of the error trace
\* to the given file in Json format. Note that you can pass any tuple
\* to `JsonSerialize`. For example, a sub-sequence of _TETrace.
    \* ASSUME
    \*     LET J == INSTANCE Json
    \*         IN J!JsonSerialize("MiscX03Q_TTrace_1791142580.json", _TETrace)

=============================================================================

 Note that you can extract this module `MiscX03Q_TEExpression`
  to a dedicated file to reuse `expression` (the module in the 
  dedicated `MiscX03Q_TEExpression.tla` file takes precedence 
  over the module `MiscX03Q_TEExpression` below).

---- MODULE MiscX03Q_TEExpression ----
EXTENDS Sequences, TLCExt, MiscX03Q, Toolbox, Naturals, TLC

expression == 
    [
        \* To hide variables of the `MiscX03Q` spec from the error trace,
        \* remove the variables below.  The trace will be written in the order
        \* of the fields of this record.
        kind |-> kind
        ,phase |-> phase
        ,case |-> case
        ,out |-> out
        
        \* Put additional constant-, state-, and action-level expressions here:
        \* ,_stateNumber |-> _TEPosition
        \* ,_kindUnchanged |-> kind = kind'
        
        \* Format the `kind` variable as Json value.
        \* ,_kindJson |->
        \*     LET J == INSTANCE Json
        \*     IN J!ToJson(kind)
        
        \* Lastly, you may build expressions over arbitrary sets of states by
        \* leveraging the _TETrace operator.  For example, this is how to
        \* count the number of times a spec variable changed up to the current
        \* state in the trace.
        \* ,_kindModCount |->
        \*     LET F[s \in DOMAIN _TETrace] ==
        \*         IF s = 1 THEN 0
        \*         ELSE IF _TETrace[s].kind # _TETrace[s-1].kind
        \*             THEN 1 + F[s-1] ELSE F[s-1]
        \*     IN F[_TEPosition - 1]
    ]

=============================================================================



Parsing and semantic processing can take forever if the trace below is long.
 In this case, it is advised to uncomment the module below to deserialize the
 trace from a generated binary file.

\*
\*---- MODULE MiscX03Q_TETrace ----
\*EXTENDS IOUtils, MiscX03Q, TLC
\*
\*trace == IODeserialize("MiscX03Q_TTrace_1791142580.bin", TRUE)
\*
\*=============================================================================
\*

---- MODULE MiscX03Q_TETrace ----
EXTENDS MiscX03Q, TLC

trace == 
    <<
    ([phase |-> "built",kind |-> "islice",case |-> [start |-> 0, step |-> 1, s |-> <<11, 12>>, stop |-> -1],out |-> <<>>]),
    ([phase |-> "done",kind |-> "islice",case |-> [start |-> 0, step |-> 1, s |-> <<11, 12>>, stop |-> -1],out |-> <<11>>])
    >>
----


=============================================================================

---- CONFIG MiscX03Q_TTrace_1791142580 ----
CONSTANTS
    Cases <- X03Quick

INVARIANT
    _inv

CHECK_DEADLOCK
    \* CHECK_DEADLOCK off because of PROPERTY or INVARIANT above.
    FALSE

INIT
    _init

NEXT
    _next

CONSTANT
    _TETrace <- _trace

ALIAS
    _expression
=============================================================================
\* Generated on Sun Oct 04 19:36:24 UTC 2026