---- MODULE MiscCtl_TTrace_1791142578 ----
EXTENDS MiscCtl, Sequences, TLCExt, Toolbox, Naturals, TLC

_expression ==
    LET MiscCtl_TEExpression == INSTANCE MiscCtl_TEExpression
    IN MiscCtl_TEExpression!expression
----

_trace ==
    LET MiscCtl_TETrace == INSTANCE MiscCtl_TETrace
    IN MiscCtl_TETrace!trace
----

_inv ==
    ~(
        TLCGet("level") = Len(_TETrace)
        /\
        cs = ([per |-> FALSE, expr |-> "add", val |-> -2, ph |-> 1, d |-> <<1, 3, 8>>])
        /\
        res = (<<1>>)
        /\
        last = (<<"take", 1>>)
        /\
        assigned = (-2)
    )
----

_init ==
    /\ cs = _TETrace[1].cs
    /\ assigned = _TETrace[1].assigned
    /\ res = _TETrace[1].res
    /\ last = _TETrace[1].last
----

_next ==
    /\ \E i,j \in DOMAIN _TETrace:
        /\ \/ /\ j = i + 1
              /\ i = TLCGet("level")
        /\ cs  = _TETrace[i].cs
        /\ cs' = _TETrace[j].cs
        /\ assigned  = _TETrace[i].assigned
        /\ assigned' = _TETrace[j].assigned
        /\ res  = _TETrace[i].res
        /\ res' = _TETrace[j].res
        /\ last  = _TETrace[i].last
        /\ last' = _TETrace[j].last

\* Uncomment the ASSUME below to write the states of the error trace
\* to the given file in Json format. Note that you can pass any tuple
\* to `JsonSerialize`. For example, a sub-sequence of _TETrace.
    \* ASSUME
    \*     LET J == INSTANCE Json
    \*         IN J!JsonSerialize("MiscCtl_TTrace_1791142578.json", _TETrace)

=============================================================================

 Note that you can extract this module `MiscCtl_TEExpression`
  to a dedicated file to reuse `expression` (the module in the 
  dedicated `MiscCtl_TEExpression.tla` file takes precedence 
  over the module `MiscCtl_TEExpression` below).

---- MODULE MiscCtl_TEExpression ----
EXTENDS MiscCtl, Sequences, TLCExt, Toolbox, Naturals, TLC

expression == 
    [
        \* To hide variables of the `MiscCtl` spec from the error trace,
        \* remove the variables below.  The trace will be written in the order
        \* of the fields of this record.
        cs |-> cs
        ,assigned |-> assigned
        ,res |-> res
        ,last |-> last
        
        \* Put additional constant-, state-, and action-level expressions here:
        \* ,_stateNumber |-> _TEPosition
        \* ,_csUnchanged |-> cs = cs'
        
        \* Format the `cs` variable as Json value.
        \* ,_csJson |->
        \*     LET J == INSTANCE Json
        \*     IN J!ToJson(cs)
        
        \* Lastly, you may build expressions over arbitrary sets of states by
        \* leveraging the _TETrace operator.  For example, this is how to
        \* count the number of times a spec variable changed up to the current
        \* state in the trace.
        \* ,_csModCount |->
        \*     LET F[s \in DOMAIN _TETrace] ==
        \*         IF s = 1 THEN 0
        \*         ELSE IF _TETrace[s].cs # _TETrace[s-1].cs
        \*             THEN 1 + F[s-1] ELSE F[s-1]
        \*     IN F[_TEPosition - 1]
    ]

=============================================================================



Parsing and semantic processing can take forever if the trace below is long.
 In this case, it is advised to uncomment the module below to deserialize the
 trace from a generated binary file.

\*
\*---- MODULE MiscCtl_TETrace ----
\*EXTENDS MiscCtl, IOUtils, TLC
\*
\*trace == IODeserialize("MiscCtl_TTrace_1791142578.bin", TRUE)
\*
\*=============================================================================
\*

---- MODULE MiscCtl_TETrace ----
EXTENDS MiscCtl, TLC

trace == 
    <<
    ([cs |-> [per |-> FALSE, expr |-> "add", val |-> -2, ph |-> 0, d |-> <<1, 3, 8>>],res |-> <<>>,last |-> <<"init">>,assigned |-> -2]),
    ([cs |-> [per |-> FALSE, expr |-> "add", val |-> -2, ph |-> 1, d |-> <<1, 3, 8>>],res |-> <<1>>,last |-> <<"take", 1>>,assigned |-> -2])
    >>
----


=============================================================================

---- CONFIG MiscCtl_TTrace_1791142578 ----
CONSTANTS
    Vals <- CtlVals
    TakeNs = { 1 , 2 , 3 }
    Data <- CtlData

INVARIANT
    _inv

CHECK_DEADLOCK
    \* CHECK_DEADLOCK off because of PROPERTY or INVARIANT above.
    FALSE

INIT
    _init

NEXT
    _next

CONSTANT
    _TETrace <- _trace

ALIAS
    _expression
=============================================================================
\* Generated on Sun Oct 04 19:36:19 UTC 2026