------------------------------ MODULE MiscHub ------------------------------
(***************************************************************************)
(* X03, StreamTeeHub copies used / left and the MemoryLeakWarning of       *)
(* __del__: full state graph for hubs of 0..MaxN copies.                   *)
(* Operational layer: CtlFn!HubUse / HubPeek / HubTake / HubDel on the     *)
(* list of copies.  Definition layer: the counters n (requested) and used; *)
(* the warning appears exactly when the hub goes away (or __del__ is       *)
(* called) with copies left, says how many, and is given once.             *)
(***************************************************************************)
EXTENDS CtlFn, TLC

CONSTANT MaxN

VARIABLES hub, alive, res, last
vars == <<hub, alive, res, last>>

Init == /\ \E n \in 0..MaxN : hub = HubNew(n)
        /\ alive = TRUE /\ res = <<"new">> /\ last = <<"init">>

Use     == /\ alive /\ hub' = HubUse(hub).st  /\ res' = HubUse(hub).res  /\ last' = <<"use">>  /\ UNCHANGED alive
Peek    == /\ alive /\ hub' = HubPeek(hub).st /\ res' = HubPeek(hub).res /\ last' = <<"peek">> /\ UNCHANGED alive
Copy    == /\ alive /\ hub' = HubPeek(hub).st /\ res' = HubPeek(hub).res /\ last' = <<"copy">> /\ UNCHANGED alive
TakeRefused == /\ alive /\ hub' = HubTake(hub).st /\ res' = HubTake(hub).res /\ last' = <<"take">> /\ UNCHANGED alive
CallDel == /\ alive /\ hub' = HubDel(hub).st  /\ res' = HubDel(hub).res  /\ last' = <<"calldel">> /\ UNCHANGED alive
Drop    == /\ alive /\ hub' = HubDel(hub).st  /\ res' = HubDel(hub).res  /\ last' = <<"drop">> /\ alive' = FALSE

Next == Use \/ Peek \/ Copy \/ TakeRefused \/ CallDel \/ Drop
Spec == Init /\ [][Next]_vars

---------------------------------------------------------------------------
\* the list of copies is the counter pair
Counts == HubLeft(hub) = IF hub.cleared THEN 0 ELSE hub.n - hub.used
\* the leak law: __del__ warns exactly about the copies requested and never used, once
LeakLaw == [][last'[1] \in {"calldel", "drop"} => res' = DefLeak(hub.n, hub.used, hub.cleared)]_vars
\* no use beyond the requested number ever succeeds
NoExtraCopy == hub.used <= hub.n
UseFailsWhenEmpty == [][(last'[1] \in {"use", "peek", "copy"} /\ HubLeft(hub) = 0) => res' = <<"IndexError">>]_vars
PeekKeeps == [][last'[1] \in {"peek", "copy", "take"} => hub' = hub]_vars
============================================================================
