----------------------------- MODULE TableVal -----------------------------
(***************************************************************************)
(* audiolazy.lazy_synth.TableLookup AS A VALUE (extension check X03).      *)
(*                                                                         *)
(* A table value is [t |-> sequence of Rat, cy |-> number of cycles].      *)
(* Another operand is [k |-> "tbl", t, cy] | [k |-> "num", v |-> Rat]      *)
(* | [k |-> "frac"] | [k |-> "list"] (objects the templates refuse).       *)
(* Results are [e |-> "none" | exception class, t, cy].                    *)
(*                                                                         *)
(* Operational layer (shaped like the code): the operator rows selected by *)
(* TableLookupMeta.__operators__ out of OpMethod's symbol table; the three *)
(* dunder templates (__binary__: cycles test, size test, list              *)
(* comprehension over zip / over the table with the number; __rbinary__:   *)
(* numbers only; __unary__); __getitem__ with int()/ceil(); normalize =    *)
(* division by the FIRST element of largest magnitude (signed);            *)
(* harmonize = sum over the dict of cycle(table[::partial+1]) * amplitude, *)
(* first len(table) items.                                                 *)
(* Definition layer (shaped like the documentation): "applies the         *)
(* operators to the table contents, elementwise; table length and number   *)
(* of cycles should be equal"; linear interpolation between neighbouring   *)
(* samples of the periodically extended table; normalised range [-1, 1]    *)
(* reaching an end; harmonic k+1 = every (k+1)-th sample of the periodic   *)
(* table.                                                                  *)
(***************************************************************************)
EXTENDS Rat, FiniteSets, TLC

MinOf(S) == CHOOSE x \in S : \A y \in S : x <= y

---------------------------------------------------------------------------
(* The operator table: OpMethod._initialize (symbol, binary name) rows     *)
ArithSyms == << <<"+", "add">>, <<"-", "sub">>, <<"*", "mul">>, <<"/", "truediv">>, <<"//", "floordiv">>,
                <<"%", "mod">>, <<"**", "pow">>, <<">>", "rshift">>, <<"<<", "lshift">>, <<"&", "and">>,
                <<"|", "or">>, <<"^", "xor">>, <<"@", "matmul">> >>
UnarySyms == << <<"+", "pos">>, <<"-", "neg">>, <<"~", "invert">> >>
CmpSyms   == << <<"<", "lt">>, <<"<=", "le">>, <<"==", "eq">>, <<"!=", "ne">>, <<">", "gt">>, <<">=", "ge">> >>

SeqRange(s) == {s[i] : i \in DOMAIN s}
AllOpRows ==
  {[name |-> p[2], sym |-> p[1], rev |-> FALSE, arity |-> 2] : p \in SeqRange(ArithSyms) \cup SeqRange(CmpSyms)}
  \cup {[name |-> "r" \o p[2], sym |-> p[1], rev |-> TRUE, arity |-> 2] : p \in SeqRange(ArithSyms)}
  \cup {[name |-> p[2], sym |-> p[1], rev |-> FALSE, arity |-> 1] : p \in SeqRange(UnarySyms)}

\* operational: OpMethod.get(TableLookupMeta.__operators__) -- every row carrying one of the symbols
TblSymbols == {"+", "-", "*", "/", "//", "%", "**", "<<", ">>", "&", "|", "^", "~"}
TblOpRows  == {r \in AllOpRows : r.sym \in TblSymbols}

\* definition: the arithmetic and bitwise operators, binary + reflected + unary; no comparison, no matmul
TblBinNames == {"add", "sub", "mul", "truediv", "floordiv", "mod", "pow", "lshift", "rshift", "and", "or", "xor"}
TblUnNames  == {"pos", "neg", "invert"}
BitNames    == {"lshift", "rshift", "and", "or", "xor"}
DefTblOpNames == TblBinNames \cup {"r" \o n : n \in TblBinNames} \cup TblUnNames

OpTableLaw == /\ {r.name : r \in TblOpRows} = DefTblOpNames
              /\ Cardinality(TblOpRows) = 27
              /\ Cardinality(AllOpRows) = 35
              /\ \A r \in TblOpRows : r.name \notin {"lt", "le", "eq", "ne", "gt", "ge", "matmul", "rmatmul"}
              /\ \A r \in TblOpRows : r.rev <=> (r.arity = 2 /\ r.name \notin TblBinNames)

---------------------------------------------------------------------------
(* One element operation (exact rationals; integers are rationals with denominator 1)     *)
OkV(v)  == [e |-> "none", v |-> v]
ErrV(s) == [e |-> s, v |-> RZero]
ZDE     == ErrV("ZeroDivisionError")

RECURSIVE Pow2(_)
Pow2(n) == IF n <= 0 THEN 1 ELSE 2 * Pow2(n - 1)

\* two's complement bit operations on unbounded integers (\div is floor division, % is non-negative)
BitFn(f, x, y) == CASE f = "and" -> x /\ y [] f = "or" -> x \/ y [] f = "xor" -> x # y
RECURSIVE BitOp(_, _, _)
BitOp(f, a, b) ==
  IF a \in {0, -1} /\ b \in {0, -1}
  THEN IF BitFn(f, a = -1, b = -1) THEN -1 ELSE 0
  ELSE 2 * BitOp(f, a \div 2, b \div 2) + (IF BitFn(f, a % 2 = 1, b % 2 = 1) THEN 1 ELSE 0)

\* the quantifier of the check: bit operations on integers, integer exponents
ElemCovered(nm, a, b) ==
  /\ nm \in BitNames => (RIsInt(a) /\ RIsInt(b) /\ Abs(b[1]) <= 12)
  /\ nm = "pow" => (RIsInt(b) /\ Abs(b[1]) <= 6)

ElemOp(nm, a, b) ==
  CASE nm = "add"      -> OkV(RAdd(a, b))
    [] nm = "sub"      -> OkV(RSub(a, b))
    [] nm = "mul"      -> OkV(RMul(a, b))
    [] nm = "truediv"  -> IF b[1] = 0 THEN ZDE ELSE OkV(RDiv(a, b))
    [] nm = "floordiv" -> IF b[1] = 0 THEN ZDE ELSE OkV(R(RFloor(RDiv(a, b))))
    [] nm = "mod"      -> IF b[1] = 0 THEN ZDE ELSE OkV(RMod(a, b))
    [] nm = "pow"      -> IF a[1] = 0 /\ b[1] < 0 THEN ZDE ELSE OkV(RPow(a, b[1]))
    [] nm = "lshift"   -> IF b[1] < 0 THEN ErrV("ValueError") ELSE OkV(R(a[1] * Pow2(b[1])))
    [] nm = "rshift"   -> IF b[1] < 0 THEN ErrV("ValueError") ELSE OkV(R(a[1] \div Pow2(b[1])))
    [] nm \in {"and", "or", "xor"} -> OkV(R(BitOp(nm, a[1], b[1])))

ElemUn(nm, a) ==
  CASE nm = "pos" -> a [] nm = "neg" -> RNeg(a) [] nm = "invert" -> R(-a[1] - 1)

---------------------------------------------------------------------------
(* Operational layer: the dunder templates                                 *)
TRes(e, t, cy) == [e |-> e, t |-> t, cy |-> cy]
TErr(e)        == TRes(e, <<>>, 0)

\* [op_func(d1, d2) for d1, d2 in zip(self.table, other.table)] -- stops at the first exception
RECURSIVE ZipLoop(_, _, _, _, _)
ZipLoop(nm, s, o, i, acc) ==
  IF i > Len(s) \/ i > Len(o) THEN [e |-> "none", t |-> acc]
  ELSE LET r == ElemOp(nm, s[i], o[i])
       IN IF r.e # "none" THEN [e |-> r.e, t |-> <<>>] ELSE ZipLoop(nm, s, o, i + 1, Append(acc, r.v))

\* [op_func(data, other) for data in self.table]   (swap = the reflected template)
RECURSIVE NumLoop(_, _, _, _, _, _)
NumLoop(nm, s, v, swap, i, acc) ==
  IF i > Len(s) THEN [e |-> "none", t |-> acc]
  ELSE LET r == IF swap THEN ElemOp(nm, v, s[i]) ELSE ElemOp(nm, s[i], v)
       IN IF r.e # "none" THEN [e |-> r.e, t |-> <<>>] ELSE NumLoop(nm, s, v, swap, i + 1, Append(acc, r.v))

Wrap(r, cy) == IF r.e = "none" THEN TRes("none", r.t, cy) ELSE TErr(r.e)

OpBinary(nm, self, other) ==
  IF other.k = "tbl"
  THEN IF self.cy # other.cy THEN TErr("ValueError")                \* "Incompatible number of cycles"
       ELSE IF Len(self.t) # Len(other.t) THEN TErr("ValueError")   \* "Incompatible sizes"
       ELSE Wrap(ZipLoop(nm, self.t, other.t, 1, <<>>), self.cy)
  ELSE IF other.k = "num" THEN Wrap(NumLoop(nm, self.t, other.v, FALSE, 1, <<>>), self.cy)
  ELSE TErr("NotImplementedError")

OpRBinary(nm, self, other) ==
  IF other.k = "num" THEN Wrap(NumLoop(nm, self.t, other.v, TRUE, 1, <<>>), self.cy)
  ELSE TErr("NotImplementedError")

OpUnary(nm, self) == TRes("none", [i \in DOMAIN self.t |-> ElemUn(nm, self.t[i])], self.cy)

TableOp(nm, rev, self, other) == IF rev THEN OpRBinary(nm, self, other) ELSE OpBinary(nm, self, other)

\* every element operation the call performs is inside the check's quantifier
OpCovered(nm, rev, self, other) ==
  IF other.k = "tbl" THEN \A i \in DOMAIN self.t : i \in DOMAIN other.t => ElemCovered(nm, self.t[i], other.t[i])
  ELSE IF other.k = "num" THEN \A i \in DOMAIN self.t :
            IF rev THEN ElemCovered(nm, other.v, self.t[i]) ELSE ElemCovered(nm, self.t[i], other.v)
  ELSE TRUE

(* Definition layer: elementwise on the contents; equal length and cycles required *)
DefTableOp(nm, rev, self, other) ==
  LET refused  == other.k \notin {"tbl", "num"} \/ (rev /\ other.k = "tbl")
      mismatch == other.k = "tbl" /\ (self.cy # other.cy \/ Len(self.t) # Len(other.t))
      pair(i)  == IF other.k = "tbl" THEN <<self.t[i], other.t[i]>>
                  ELSE IF rev THEN <<other.v, self.t[i]>> ELSE <<self.t[i], other.v>>
      el       == [i \in DOMAIN self.t |-> ElemOp(nm, pair(i)[1], pair(i)[2])]
      bad      == {i \in DOMAIN self.t : el[i].e # "none"}
  IN IF refused THEN TErr("NotImplementedError")
     ELSE IF mismatch THEN TErr("ValueError")
     ELSE IF bad # {} THEN TErr(el[MinOf(bad)].e)
     ELSE TRes("none", [i \in DOMAIN self.t |-> el[i].v], self.cy)

---------------------------------------------------------------------------
(* __getitem__: index idx >= 0 (a rational), table not empty               *)
OpGetItem(t, idx) ==
  LET L  == Len(t)
      ii == RTrunc(idx)                      \* int(idx)
      fr == RSub(idx, R(ii))                 \* idx - int(idx)
      ce == RCeil(idx)                       \* int(ceil(idx))
  IN RAdd(RMul(t[(ii % L) + 1], RSub(ROne, fr)), RMul(t[(ce % L) + 1], fr))

DefGetItem(t, idx) ==
  LET L == Len(t)
      k == RFloor(idx)
      f == RSub(idx, R(k))
  IN RAdd(RMul(RSub(ROne, f), t[(k % L) + 1]), RMul(f, t[((k + 1) % L) + 1]))

---------------------------------------------------------------------------
(* normalize                                                               *)
RECURSIVE FirstMaxAbs(_, _, _)
FirstMaxAbs(t, i, best) ==            \* max(table, key=abs): the first of the largest
  IF i > Len(t) THEN best
  ELSE FirstMaxAbs(t, i + 1, IF RLt(RAbs(best), RAbs(t[i])) THEN t[i] ELSE best)

OpNormalize(self) ==
  IF Len(self.t) = 0 THEN TErr("ValueError")           \* max() of an empty sequence (outside the documentation)
  ELSE LET m == FirstMaxAbs(self.t, 2, self.t[1])
       IN IF m[1] = 0 THEN TErr("ValueError")          \* "Can't normalize zeros"
          ELSE TRes("none", [i \in DOMAIN self.t |-> RDiv(self.t[i], m)], self.cy)

\* the documented contract: same length / cycles, a scaled copy, range [-1, 1], one end reached
NormContract(self, res) ==
  IF \A i \in DOMAIN self.t : self.t[i][1] = 0
  THEN res.e = "ValueError"
  ELSE /\ res.e = "none" /\ res.cy = self.cy /\ Len(res.t) = Len(self.t)
       /\ \A i \in DOMAIN res.t : RLe(RAbs(res.t[i]), ROne)
       /\ \E i \in DOMAIN res.t : RAbs(res.t[i]) = ROne
       /\ \E i \in DOMAIN self.t : \E s \in {self.t[i], RNeg(self.t[i])} :
             s[1] # 0 /\ \A j \in DOMAIN self.t : RMul(res.t[j], s) = self.t[j]

---------------------------------------------------------------------------
(* harmonize: hd is the dictionary as a sequence of <<partial, amplitude>> (partial >= 0 integer) *)
Strided(t, st) == [j \in 1..((Len(t) + st - 1) \div st) |-> t[(j - 1) * st + 1]]      \* t[::st]

RECURSIVE HarmSum(_, _, _, _)
HarmSum(t, hd, j, k) ==      \* sample j (1-based) of sum(...): ((0 + s1) + s2) + ...
  IF k = 0 THEN RZero
  ELSE LET s == Strided(t, hd[k][1] + 1)
       IN RAdd(HarmSum(t, hd, j, k - 1), RMul(s[((j - 1) % Len(s)) + 1], hd[k][2]))

OpHarmonize(self, hd) ==
  TRes("none", [j \in 1..Len(self.t) |-> HarmSum(self.t, hd, j, Len(hd))], self.cy)

HarmDivides(self, hd) == \A k \in DOMAIN hd : Len(self.t) % (hd[k][1] + 1) = 0

RECURSIVE DefHarmSum(_, _, _, _)
DefHarmSum(t, hd, j, k) ==   \* harmonic p+1 reads the periodic table (p+1) times as fast
  IF k = 0 THEN RZero
  ELSE RAdd(DefHarmSum(t, hd, j, k - 1), RMul(t[(((j - 1) * (hd[k][1] + 1)) % Len(t)) + 1], hd[k][2]))

DefHarmonize(self, hd) ==
  TRes("none", [j \in 1..Len(self.t) |-> DefHarmSum(self.t, hd, j, Len(hd))], self.cy)

---------------------------------------------------------------------------
(* == / != / len                                                           *)
TblEq(self, other) == other.k = "tbl" /\ self.cy = other.cy /\ self.t = other.t

---------------------------------------------------------------------------
(* module constants that are exact                                         *)
DefaultTableSize == 65536            \* 2**16
TableFacts == [size |-> DefaultTableSize, sinlen |-> DefaultTableSize, sawlen |-> DefaultTableSize,
               sincycles |-> 1, sawcycles |-> 1,
               sin0 |-> <<0, 1>>, sinq |-> <<1, 1>>, sin3q |-> <<-1, 1>>,     \* table[0], [N/4], [3N/4]
               saw0 |-> <<-1, 1>>, sawlast |-> <<1, 1>>]
===========================================================================
