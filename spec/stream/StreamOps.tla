----------------------------- MODULE StreamOps -----------------------------
(***************************************************************************)
(* Stream operators act element by element (property C01, first half).     *)
(*                                                                         *)
(* A program is an expression tree over leaves of a given kind:            *)
(*   "S" finite Stream, "P" periodic (endless) Stream, "I" finite          *)
(*   non-Stream iterable (list / tuple / generator), "C" scalar.           *)
(* Elements are opaque atoms <<"e", leaf, position>> / <<"c", leaf>>;      *)
(* applying an operator builds the term <<op, a, b>>, so the comparison    *)
(* is independent of any arithmetic.                                       *)
(*                                                                         *)
(* Operational layer: the pull machine the metaclass templates build       *)
(* (xmap over iter(left), iter(right); the scalar captured in the lambda;  *)
(* the reflected template when the left operand is not a Stream; for the   *)
(* six comparisons Python dispatches to the mirrored dunder of the right   *)
(* operand).  Definition layer: Out[i] = op(L[i], R[i]), length = min over *)
(* the iterable operands, scalars repeated.                                *)
(***************************************************************************)
EXTENDS Integers, Sequences, FiniteSets, TLC

CONSTANTS Programs,   \* set of expression trees
          Horizon     \* number of outputs compared for endless results

Arith == {"add", "sub", "mul", "truediv", "floordiv", "mod", "pow", "rshift", "lshift", "and", "or", "xor", "matmul"}
Cmp   == {"lt", "le", "eq", "ne", "gt", "ge"}
Unary == {"pos", "neg", "invert"}
Mirror(op) == CASE op = "lt" -> "gt" [] op = "gt" -> "lt" [] op = "le" -> "ge" [] op = "ge" -> "le"
                [] op = "eq" -> "eq" [] op = "ne" -> "ne"

\* ---- the operator table built by OpMethod._initialize (35 rows) -----------------------------
OpRows ==
  {[name |-> o, rev |-> FALSE, arity |-> 2] : o \in Arith \cup Cmp}
  \cup {[name |-> "r" \o o, rev |-> TRUE, arity |-> 2] : o \in Arith}
  \cup {[name |-> o, rev |-> FALSE, arity |-> 1] : o \in Unary}
OpTableShape == /\ Cardinality(OpRows) = 35
                /\ Cardinality({r \in OpRows : r.rev}) = 13
                /\ Cardinality({r \in OpRows : r.arity = 1}) = 3
                /\ [name |-> "rshift", rev |-> FALSE, arity |-> 2] \in OpRows     \* starts with "r", not reflected
                /\ [name |-> "rrshift", rev |-> TRUE, arity |-> 2] \in OpRows

\* ---- trees ------------------------------------------------------------------------------------
Leaf(kind, id, n) == [t |-> "leaf", kind |-> kind, id |-> id, n |-> n]   \* n: length (S, I) or period (P)
Bin(op, l, r)     == [t |-> "bin", op |-> op, l |-> l, r |-> r]
Un(op, c)         == [t |-> "un", op |-> op, c |-> c]

IsStreamTyped(x) == x.t # "leaf" \/ x.kind \in {"S", "P"}
IsScalar(x)      == x.t = "leaf" /\ x.kind = "C"

RECURSIVE Leaves(_)
Leaves(x) == IF x.t = "leaf" THEN {x.id} ELSE IF x.t = "un" THEN Leaves(x.c) ELSE Leaves(x.l) \cup Leaves(x.r)

RECURSIVE WellFormed(_)
WellFormed(x) ==
  CASE x.t = "leaf" -> TRUE
    [] x.t = "un"   -> IsStreamTyped(x.c) /\ WellFormed(x.c)
    [] x.t = "bin"  -> /\ IsStreamTyped(x.l) \/ IsStreamTyped(x.r)      \* some Stream dunder is what runs
                       /\ WellFormed(x.l) /\ WellFormed(x.r)
                       /\ Leaves(x.l) \cap Leaves(x.r) = {}

Atom(x, j) == IF x.kind = "C" THEN <<"c", x.id>> ELSE <<"e", x.id, j>>

---------------------------------------------------------------------------
(* Definition layer *)
Inf == 1000000
MinOf(a, b) == IF a < b THEN a ELSE b
RECURSIVE DefLen(_), DefAt(_, _)
DefLen(x) ==
  CASE x.t = "leaf" -> IF x.kind \in {"P", "C"} THEN Inf ELSE x.n
    [] x.t = "un"   -> DefLen(x.c)
    [] x.t = "bin"  -> MinOf(DefLen(x.l), DefLen(x.r))
\* i-th element (1-based) of the value of x
DefAt(x, i) ==
  CASE x.t = "leaf" -> IF x.kind = "P" THEN Atom(x, ((i - 1) % x.n) + 1) ELSE Atom(x, i)
    [] x.t = "un"   -> <<x.op, DefAt(x.c, i)>>
    [] x.t = "bin"  -> <<x.op, DefAt(x.l, i), DefAt(x.r, i)>>
DefOut(x) == [i \in 1..MinOf(DefLen(x), Horizon) |-> DefAt(x, i)]

---------------------------------------------------------------------------
(* Operational layer: pull machine.  cur: leaf id -> items already pulled. *)
END == <<"END">>
RECURSIVE PullNode(_, _)
\* <<cur', term or END>>
PullNode(cur, x) ==
  CASE x.t = "leaf" ->
         IF x.kind = "P" THEN <<[cur EXCEPT ![x.id] = @ + 1], Atom(x, (cur[x.id] % x.n) + 1)>>
         ELSE IF cur[x.id] < x.n THEN <<[cur EXCEPT ![x.id] = @ + 1], Atom(x, cur[x.id] + 1)>>
         ELSE <<cur, END>>
    [] x.t = "un" ->
         LET r == PullNode(cur, x.c) IN IF r[2] = END THEN r ELSE <<r[1], <<x.op, r[2]>>>>
    [] x.t = "bin" ->
         IF IsStreamTyped(x.l)
         THEN \* plain template on the left operand: op(self_i, other_i); self pulled first
              IF IsScalar(x.r)
              THEN LET a == PullNode(cur, x.l) IN
                   IF a[2] = END THEN a ELSE <<a[1], <<x.op, a[2], Atom(x.r, 0)>>>>
              ELSE LET a == PullNode(cur, x.l) IN
                   IF a[2] = END THEN a
                   ELSE LET b == PullNode(a[1], x.r) IN
                        IF b[2] = END THEN b ELSE <<b[1], <<x.op, a[2], b[2]>>>>
         ELSE IF x.op \in Arith
         THEN \* reflected template on the right operand: op(other_i, self_i); other pulled first
              IF IsScalar(x.l)
              THEN LET b == PullNode(cur, x.r) IN
                   IF b[2] = END THEN b ELSE <<b[1], <<x.op, Atom(x.l, 0), b[2]>>>>
              ELSE LET a == PullNode(cur, x.l) IN
                   IF a[2] = END THEN a
                   ELSE LET b == PullNode(a[1], x.r) IN
                        IF b[2] = END THEN b ELSE <<b[1], <<x.op, a[2], b[2]>>>>
         ELSE \* comparison with a non-Stream left operand: Python calls the mirrored dunder of the right one
              IF IsScalar(x.l)
              THEN LET b == PullNode(cur, x.r) IN
                   IF b[2] = END THEN b ELSE <<b[1], <<Mirror(x.op), b[2], Atom(x.l, 0)>>>>
              ELSE LET b == PullNode(cur, x.r) IN
                   IF b[2] = END THEN b
                   ELSE LET a == PullNode(b[1], x.l) IN
                        IF a[2] = END THEN a ELSE <<a[1], <<Mirror(x.op), b[2], a[2]>>>>

\* a comparison term and its mirror denote the same value (lt(a,b) = gt(b,a), eq symmetric)
RECURSIVE TermEq(_, _)
TermEq(a, b) ==
  IF a[1] \in {"e", "c"} \/ b[1] \in {"e", "c"} THEN a = b
  ELSE IF Len(a) # Len(b) THEN FALSE
  ELSE IF Len(a) = 2 THEN a[1] = b[1] /\ TermEq(a[2], b[2])
  ELSE \/ (a[1] = b[1] /\ TermEq(a[2], b[2]) /\ TermEq(a[3], b[3]))
       \/ (a[1] \in Cmp /\ b[1] = Mirror(a[1]) /\ TermEq(a[2], b[3]) /\ TermEq(a[3], b[2]))
SeqTermEq(s, t) == Len(s) = Len(t) /\ \A i \in DOMAIN s : TermEq(s[i], t[i])

VARIABLES prog, cur, out, ended
vars == <<prog, cur, out, ended>>

Init == /\ prog \in Programs
        /\ cur = [id \in Leaves(prog) |-> 0]
        /\ out = <<>> /\ ended = FALSE

Pull == /\ ~ended /\ Len(out) < Horizon
        /\ LET r == PullNode(cur, prog) IN
             /\ cur' = r[1]
             /\ IF r[2] = END THEN ended' = TRUE /\ out' = out
                ELSE ended' = FALSE /\ out' = Append(out, r[2])
        /\ UNCHANGED prog
Next == Pull
Spec == Init /\ [][Next]_vars

WF == WellFormed(prog)
\* the machine's outputs so far are the definition's, element by element
ElementwiseLaw == SeqTermEq(out, SubSeq(DefOut(prog), 1, Len(out)))
\* it ends exactly when the shortest iterable operand ends
EndLaw == /\ ended => Len(out) = DefLen(prog)
          /\ Len(out) <= DefLen(prog)
\* each source item is read at most once more than the outputs produced need (laziness of the zip)
NoOverRead == \A id \in DOMAIN cur : cur[id] <= Len(out) + 1

\* what an observer of the real expression must see: first Horizon outputs, and whether it ended by then
Expected(x) == [out |-> DefOut(x), ended |-> DefLen(x) < Horizon]
===========================================================================
