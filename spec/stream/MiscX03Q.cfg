CONSTANTS
  Cases <- X03Quick
INIT Init
NEXT Next
INVARIANT Refines
INVARIANT Laws
CHECK_DEADLOCK FALSE
