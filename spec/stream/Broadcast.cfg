INIT Init
NEXT Next
INVARIANT Closed
CHECK_DEADLOCK FALSE
