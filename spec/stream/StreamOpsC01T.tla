---------------------------- MODULE StreamOpsC01T ----------------------------
EXTENDS StreamOpsC01
C01Thorough == Depth1(0) \cup Depth2(Basis(0), {"neg", "invert"})
==============================================================================
