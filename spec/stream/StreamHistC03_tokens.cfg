CONSTANTS
  MaxOps = 2
  MaxH = 3
  Bases <- AllBases
  TakeToks <- TokTakeAll
  PeekToks <- TokTakeAll
  SkipToks <- TokSkipAll
  LimitToks <- TokSkipAll
  Menu <- AllMenu
  UnfoldLen = 7
INIT Init
NEXT Next
INVARIANT RetAgree
INVARIANT Independent
PROPERTY PeekPure
CHECK_DEADLOCK FALSE
