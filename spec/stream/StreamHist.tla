---------------------------- MODULE StreamHist ----------------------------
(***************************************************************************)
(* audiolazy.lazy_stream.Stream / StreamTeeHub / lazy_itertools.tee under  *)
(* arbitrary histories of their methods  (property C03).                   *)
(*                                                                         *)
(* Operational layer: the pull machine the code builds out of itertools -- *)
(* every Stream handle owns an iterator expression (`_data`) made of lazy  *)
(* nodes: list / cycle / repeat sources, tee branches reading a shared     *)
(* per-group buffer, the lazy `skipper`, the `limit` generator, map,       *)
(* filter, chain.  Methods replace `_data` in place exactly as the code    *)
(* does (copy = tee + reassignment, peek = copy + take on the copy, ...).  *)
(* Definition layer: an immutable list per live handle (finite prefix +    *)
(* optional period), every method being the plain list operation.          *)
(* TLC checks, for every history up to the bound, that every return value  *)
(* of the machine equals the list model's (RetAgree) and that every live   *)
(* handle still unfolds to its list (Independent), whatever the order in   *)
(* which copies are consumed.                                              *)
(***************************************************************************)
EXTENDS Integers, Sequences, FiniteSets, TLC

CONSTANTS MaxOps,       \* history length bound
          MaxH,         \* handles that may exist (live or dead)
          Bases,        \* initial streams: set of [pre |-> seq, per |-> seq]
          TakeToks, PeekToks, SkipToks, LimitToks,   \* count tokens offered to the methods
          Menu,         \* set of method names offered
          UnfoldLen     \* prefix length compared by the refinement invariant

END == 0                \* pull result "exhausted" (items are positive integers)

---------------------------------------------------------------------------
(* count tokens: what the caller passes as n                               *)
\* take / peek: None -> single item; inf -> all; float -> rint if > 0 else 0; negative int -> 0
IntToks     == [i \in -5..60 |-> ToString(i)]
IsIntTok(t) == \E i \in DOMAIN IntToks : IntToks[i] = t
IntOf(t)    == CHOOSE i \in DOMAIN IntToks : IntToks[i] = t
\* the float tokens and the integer each is nearest to (no ties among them)
FloatNear(t) ==
  CASE t = "1.4" -> 1 [] t = "1.6" -> 2 [] t = "3.7" -> 4 [] t = "2.7" -> 3 [] t = "0.4" -> 0 [] t = "0.6" -> 1 [] t = "6.2" -> 6
    [] t = "9.8" -> 10 [] t = "-2.5" -> -3 [] t = "-0.3" -> 0 [] t = "-inf" -> -1000 [] t = "nan" -> -1000
Clamp0(x)   == IF x < 0 THEN 0 ELSE x
TakeCount(tok) == IF IsIntTok(tok) THEN Clamp0(IntOf(tok)) ELSE Clamp0(FloatNear(tok))
\* skip / limit: int(round(n)) (non-tie floats only); a negative count skips nothing / limits to nothing
SkipCount(tok) == IF IsIntTok(tok) THEN Clamp0(IntOf(tok)) ELSE Clamp0(FloatNear(tok))

---------------------------------------------------------------------------
(* Definition layer: immutable lists  r = [pre, per]  (pre \o per \o per ...) *)
Fin(s)         == [pre |-> s, per |-> <<>>]
IsEndless(r)   == r.per # <<>>
RECURSIVE Unroll(_, _)
Unroll(r, k)   == IF Len(r.pre) >= k \/ r.per = <<>> THEN r
                  ELSE Unroll([r EXCEPT !.pre = @ \o r.per], k)
DPrefix(r, k)  == LET u == Unroll(r, k) IN SubSeq(u.pre, 1, IF Len(u.pre) < k THEN Len(u.pre) ELSE k)
DDrop(r, k)    == LET u == Unroll(r, k) IN
                  [u EXCEPT !.pre = SubSeq(u.pre, (IF Len(u.pre) < k THEN Len(u.pre) ELSE k) + 1, Len(u.pre))]
DLimit(r, k)   == Fin(DPrefix(r, k))
DAppend(r, t)  == IF IsEndless(r) THEN r ELSE [pre |-> r.pre \o t.pre, per |-> t.per]
MapF(x)        == x + 10
SeqMap(s)      == [i \in DOMAIN s |-> MapF(s[i])]
DMap(r)        == [pre |-> SeqMap(r.pre), per |-> SeqMap(r.per)]
Pass(p, x)     == IF p = "odd" THEN x % 2 = 1 ELSE x % 10 <= 1
DFilter(r, p)  == [pre |-> SelectSeq(r.pre, LAMBDA x : Pass(p, x)), per |-> SelectSeq(r.per, LAMBDA x : Pass(p, x))]
\* a filter that never passes on an endless stream never returns: excluded (not a property violation)
FilterHangs(r, p) == IsEndless(r) /\ SelectSeq(r.per, LAMBDA x : Pass(p, x)) = <<>>

---------------------------------------------------------------------------
(* Operational layer.  M = [nodes |-> <<node>>, grp |-> <<[par, buf]>>]       *)
SetNode(M, id, nd) == [M EXCEPT !.nodes[id] = nd]
AddNode(M, nd)     == [M EXCEPT !.nodes = Append(@, nd)]
NewId(M)           == Len(M.nodes) + 1

RECURSIVE Pull(_, _), DropN(_, _, _), FilterPull(_, _, _)
\* Pull(M, id) = <<M', item or END>>
Pull(M, id) ==
  LET nd == M.nodes[id] IN
  CASE nd.k = "list" -> IF nd.i <= Len(nd.s) THEN <<SetNode(M, id, [nd EXCEPT !.i = @ + 1]), nd.s[nd.i]>>
                        ELSE <<M, END>>
    [] nd.k = "cyc"  -> <<SetNode(M, id, [nd EXCEPT !.i = (@ % Len(nd.s)) + 1]), nd.s[nd.i]>>
    [] nd.k = "rep"  -> <<M, nd.v>>
    [] nd.k = "br"   ->                                     \* itertools.tee branch
         LET g == M.grp[nd.g] IN
         IF nd.off < Len(g.buf)
         THEN <<SetNode(M, id, [nd EXCEPT !.off = @ + 1]), g.buf[nd.off + 1]>>
         ELSE LET r == Pull(M, g.par) IN
              IF r[2] = END THEN <<r[1], END>>
              ELSE <<SetNode([r[1] EXCEPT !.grp[nd.g].buf = Append(@, r[2])], id, [nd EXCEPT !.off = @ + 1]), r[2]>>
    [] nd.k = "skip" ->                                     \* Stream.skip's lazy skipper
         LET M1 == DropN(M, nd.c, nd.n) IN Pull(SetNode(M1, id, [nd EXCEPT !.n = 0]), nd.c)
    [] nd.k = "lim"  ->                                     \* Stream.limit's generator
         IF nd.left = 0 THEN <<M, END>>
         ELSE LET r == Pull(M, nd.c) IN
              IF r[2] = END THEN <<SetNode(r[1], id, [nd EXCEPT !.left = 0]), END>>
              ELSE <<SetNode(r[1], id, [nd EXCEPT !.left = @ - 1]), r[2]>>
    [] nd.k = "map"  -> LET r == Pull(M, nd.c) IN IF r[2] = END THEN r ELSE <<r[1], MapF(r[2])>>
    [] nd.k = "fil"  -> FilterPull(M, nd.c, nd.p)
    [] nd.k = "chain" ->                                    \* itertools.chain(a, b)
         IF nd.ina THEN LET r == Pull(M, nd.a) IN
                        IF r[2] # END THEN r
                        ELSE Pull(SetNode(r[1], id, [nd EXCEPT !.ina = FALSE]), nd.b)
         ELSE Pull(M, nd.b)
DropN(M, id, n) == IF n = 0 THEN M ELSE LET r == Pull(M, id) IN IF r[2] = END THEN r[1] ELSE DropN(r[1], id, n - 1)
FilterPull(M, id, p) == LET r == Pull(M, id) IN
                        IF r[2] = END \/ Pass(p, r[2]) THEN r ELSE FilterPull(r[1], id, p)

RECURSIVE TakeN(_, _, _, _)
\* pull up to c items (c = -1: all): <<M', items>>
TakeN(M, id, c, acc) ==
  IF c = 0 THEN <<M, acc>>
  ELSE LET r == Pull(M, id) IN
       IF r[2] = END THEN <<r[1], acc>> ELSE TakeN(r[1], id, c - 1, Append(acc, r[2]))
Unfold(M, id, k) == TakeN(M, id, k, <<>>)[2]

\* node for the iterator of a literal argument
SrcNode(r) == IF r.per = <<>> THEN [k |-> "list", s |-> r.pre, i |-> 1]
              ELSE IF r.pre = <<>> /\ Len(r.per) = 1 THEN [k |-> "rep", v |-> r.per[1]]
              ELSE IF r.pre = <<>> THEN [k |-> "cyc", s |-> r.per, i |-> 1]
              ELSE [k |-> "bad"]

\* itertools.tee(node, n): a new group and n fresh branches; returns <<M', <<ids>>>>
RECURSIVE AddBranches(_, _, _, _)
AddBranches(M, g, n, ids) == IF n = 0 THEN <<M, ids>>
                             ELSE AddBranches(AddNode(M, [k |-> "br", g |-> g, off |-> 0]), g, n - 1,
                                              Append(ids, NewId(M)))
Tee(M, id, n) == LET M1 == [M EXCEPT !.grp = Append(@, [par |-> id, buf |-> <<>>])]
                 IN AddBranches(M1, Len(M1.grp), n, <<>>)

---------------------------------------------------------------------------
VARIABLES M,       \* the machine
          hd,      \* handle -> node id of its `_data`   (sequence; 0 = dead)
          rem,     \* handle -> list model
          hub,     \* <<>> or <<[its |-> <<branch ids>>, rem |-> list]>>  (at most one StreamTeeHub)
          hist,    \* the history: sequence of calls
          ret,     \* return value of the last call according to the machine
          dret     \* ... according to the list model
vars == <<M, hd, rem, hub, hist, ret, dret>>

Live == {h \in DOMAIN hd : hd[h] # 0}
NH   == Len(hd)

RList(s)  == [t |-> "list", v |-> s]
RItem(x)  == [t |-> "item", v |-> x]
RExc(e)   == [t |-> "exc", v |-> e]
RNone     == [t |-> "none", v |-> 0]
RNew(h)   == [t |-> "new", v |-> h]

Init == \E b \in Bases :
          /\ M = [nodes |-> <<SrcNode(b)>>, grp |-> <<>>]
          /\ hd = <<1>> /\ rem = <<b>> /\ hub = <<>>
          /\ hist = <<[op |-> "init", pre |-> b.pre, per |-> b.per]>>
          /\ ret = RNone /\ dret = RNone

Can(op) == op \in Menu /\ Len(hist) <= MaxOps

\* ---- take(n) / next(iter(s)) -----------------------------------------------------------------
TakeOn(h, tok, name) ==
  /\ h \in Live
  /\ ~(tok = "inf" /\ IsEndless(rem[h]))
  /\ hist' = Append(hist, [op |-> name, h |-> h, n |-> tok])
  /\ IF tok = "None"
     THEN LET r == Pull(M, hd[h]) IN
          /\ M' = r[1]
          /\ ret' = IF r[2] = END THEN RExc("StopIteration") ELSE RItem(r[2])
          /\ dret' = IF DPrefix(rem[h], 1) = <<>> THEN RExc("StopIteration") ELSE RItem(DPrefix(rem[h], 1)[1])
          /\ rem' = [rem EXCEPT ![h] = DDrop(@, 1)]
     ELSE LET c == IF tok = "inf" THEN -1 ELSE TakeCount(tok)
              r == TakeN(M, hd[h], c, <<>>)
              dc == IF tok = "inf" THEN Len(rem[h].pre) ELSE c IN
          /\ M' = r[1]
          /\ ret' = RList(r[2])
          /\ dret' = RList(DPrefix(rem[h], dc))
          /\ rem' = [rem EXCEPT ![h] = DDrop(@, dc)]
  /\ UNCHANGED <<hd, hub>>

Take(h, tok) == Can("take") /\ tok \in TakeToks /\ TakeOn(h, tok, "take")
NextItem(h)  == Can("next") /\ TakeOn(h, "None", "next")

\* ---- copy(): a, b = tee(self._data); self._data = a; return Stream(b) -------------------------
Copy(h) ==
  /\ Can("copy") /\ h \in Live /\ NH < MaxH
  /\ LET t == Tee(M, hd[h], 2) IN
       /\ M' = t[1]
       /\ hd' = Append([hd EXCEPT ![h] = t[2][1]], t[2][2])
  /\ rem' = Append(rem, rem[h])
  /\ hist' = Append(hist, [op |-> "copy", h |-> h])
  /\ ret' = RNew(NH + 1) /\ dret' = RNew(NH + 1)
  /\ UNCHANGED hub

\* ---- peek(n) = self.copy().take(n) ---------------------------------------------------------------
Peek(h, tok) ==
  /\ Can("peek") /\ h \in Live /\ tok \in PeekToks
  /\ ~(tok = "inf" /\ IsEndless(rem[h]))
  /\ LET t == Tee(M, hd[h], 2)
         b == t[2][2] IN
       /\ hd' = [hd EXCEPT ![h] = t[2][1]]
       /\ IF tok = "None"
          THEN LET r == Pull(t[1], b) IN
               /\ M' = r[1]
               /\ ret' = IF r[2] = END THEN RExc("StopIteration") ELSE RItem(r[2])
               /\ dret' = IF DPrefix(rem[h], 1) = <<>> THEN RExc("StopIteration") ELSE RItem(DPrefix(rem[h], 1)[1])
          ELSE LET c == IF tok = "inf" THEN -1 ELSE TakeCount(tok)
                   r == TakeN(t[1], b, c, <<>>) IN
               /\ M' = r[1]
               /\ ret' = RList(r[2])
               /\ dret' = RList(DPrefix(rem[h], IF tok = "inf" THEN Len(rem[h].pre) ELSE c))
  /\ hist' = Append(hist, [op |-> "peek", h |-> h, n |-> tok])
  /\ UNCHANGED <<rem, hub>>

\* ---- skip(n) / limit(n): lazy wrappers, return self -------------------------------------------
Skip(h, tok) ==
  /\ Can("skip") /\ h \in Live /\ tok \in SkipToks
  /\ M' = AddNode(M, [k |-> "skip", n |-> SkipCount(tok), c |-> hd[h]])
  /\ hd' = [hd EXCEPT ![h] = NewId(M)]
  /\ rem' = [rem EXCEPT ![h] = DDrop(@, SkipCount(tok))]
  /\ hist' = Append(hist, [op |-> "skip", h |-> h, n |-> tok])
  /\ ret' = RNone /\ dret' = RNone /\ UNCHANGED hub

Limit(h, tok) ==
  /\ Can("limit") /\ h \in Live /\ tok \in LimitToks
  /\ M' = AddNode(M, [k |-> "lim", left |-> SkipCount(tok), c |-> hd[h]])
  /\ hd' = [hd EXCEPT ![h] = NewId(M)]
  /\ rem' = [rem EXCEPT ![h] = DLimit(@, SkipCount(tok))]
  /\ hist' = Append(hist, [op |-> "limit", h |-> h, n |-> tok])
  /\ ret' = RNone /\ dret' = RNone /\ UNCHANGED hub

\* ---- append(*other): chain(self._data, Stream(*other)._data) -----------------------------------
AppendArgs == { [tag |-> "list", r |-> Fin(<<7, 8>>)],          \* append([7, 8])
                [tag |-> "empty", r |-> Fin(<<>>)],             \* append([])
                [tag |-> "scalar", r |-> [pre |-> <<>>, per |-> <<9>>]],      \* append(9): endless repeat
                [tag |-> "cycle", r |-> [pre |-> <<>>, per |-> <<5, 6>>]] }   \* append(5, 6): endless cycle
AppendLit(h, a) ==
  /\ Can("append") /\ h \in Live /\ a \in AppendArgs
  /\ LET M1 == AddNode(M, SrcNode(a.r)) IN
       /\ M' = AddNode(M1, [k |-> "chain", a |-> hd[h], b |-> NewId(M), ina |-> TRUE])
       /\ hd' = [hd EXCEPT ![h] = NewId(M1)]
  /\ rem' = [rem EXCEPT ![h] = DAppend(@, a.r)]
  /\ hist' = Append(hist, [op |-> "append", h |-> h, arg |-> a.tag])
  /\ ret' = RNone /\ dret' = RNone /\ UNCHANGED hub

\* append(other stream): the other stream's iterator becomes the tail; the other handle must not be used again
AppendH(h, g) ==
  /\ Can("appendh") /\ h \in Live /\ g \in Live /\ h # g
  /\ M' = AddNode(M, [k |-> "chain", a |-> hd[h], b |-> hd[g], ina |-> TRUE])
  /\ hd' = [hd EXCEPT ![h] = NewId(M), ![g] = 0]
  /\ rem' = [rem EXCEPT ![h] = DAppend(@, rem[g])]
  /\ hist' = Append(hist, [op |-> "appendh", h |-> h, g |-> g])
  /\ ret' = RNone /\ dret' = RNone /\ UNCHANGED hub

MapOp(h) ==
  /\ Can("map") /\ h \in Live
  /\ M' = AddNode(M, [k |-> "map", c |-> hd[h]])
  /\ hd' = [hd EXCEPT ![h] = NewId(M)]
  /\ rem' = [rem EXCEPT ![h] = DMap(@)]
  /\ hist' = Append(hist, [op |-> "map", h |-> h])
  /\ ret' = RNone /\ dret' = RNone /\ UNCHANGED hub

FilterOp(h, p) ==
  /\ Can("filter") /\ h \in Live /\ ~FilterHangs(rem[h], p)
  /\ M' = AddNode(M, [k |-> "fil", p |-> p, c |-> hd[h]])
  /\ hd' = [hd EXCEPT ![h] = NewId(M)]
  /\ rem' = [rem EXCEPT ![h] = DFilter(@, p)]
  /\ hist' = Append(hist, [op |-> "filter", h |-> h, p |-> p])
  /\ ret' = RNone /\ dret' = RNone /\ UNCHANGED hub

\* ---- lazy_itertools.tee(s, n): n independent Streams; s itself is spent ------------------------
TeeOp(h, n) ==
  /\ Can("tee") /\ h \in Live /\ NH + n <= MaxH
  /\ LET t == Tee(M, hd[h], n) IN
       /\ M' = t[1]
       /\ hd' = [hd EXCEPT ![h] = 0] \o t[2]
  /\ rem' = rem \o [i \in 1..n |-> rem[h]]
  /\ hist' = Append(hist, [op |-> "tee", h |-> h, n |-> n])
  /\ ret' = RNew(NH + 1) /\ dret' = RNew(NH + 1) /\ UNCHANGED hub

\* ---- thub(s, n): StreamTeeHub with n uses; s itself is spent ------------------------------------
Thub(h, n) ==
  /\ Can("thub") /\ h \in Live /\ hub = <<>>
  /\ LET t == Tee(M, hd[h], n) IN
       /\ M' = t[1]
       /\ hub' = <<[its |-> t[2], rem |-> rem[h]]>>
  /\ hd' = [hd EXCEPT ![h] = 0]
  /\ hist' = Append(hist, [op |-> "thub", h |-> h, n |-> n])
  /\ ret' = RNone /\ dret' = RNone /\ UNCHANGED rem

\* Stream(hub) / iter(hub): pops one prepared copy, IndexError when none is left.
\* wrap: "use" (plain), or one of the wrappers hub.limit/skip/map (= Stream(hub).<method>)
HubWraps == {"use", "limit2", "skip1", "map", "filterodd", "append78"}
HubUse(wrap) ==
  /\ Can("use") /\ hub # <<>> /\ wrap \in HubWraps
  /\ hist' = Append(hist, [op |-> "use", w |-> wrap])
  /\ IF hub[1].its = <<>>
     THEN /\ ret' = RExc("IndexError") /\ dret' = RExc("IndexError")
          /\ UNCHANGED <<M, hd, rem, hub>>
     ELSE LET k  == Len(hub[1].its)
              id == hub[1].its[k]                              \* self._iters.pop()
              nd == CASE wrap = "use"    -> [k |-> "none"]
                      [] wrap = "limit2" -> [k |-> "lim", left |-> 2, c |-> id]
                      [] wrap = "skip1"  -> [k |-> "skip", n |-> 1, c |-> id]
                      [] wrap = "map"    -> [k |-> "map", c |-> id]
                      [] wrap = "filterodd" -> [k |-> "fil", p |-> "odd", c |-> id]
                      [] wrap = "append78"  -> [k |-> "chain", a |-> id, b |-> NewId(M), ina |-> TRUE]
              r0 == hub[1].rem
              r1 == CASE wrap = "use" -> r0 [] wrap = "limit2" -> DLimit(r0, 2)
                      [] wrap = "skip1" -> DDrop(r0, 1) [] wrap = "map" -> DMap(r0)
                      [] wrap = "filterodd" -> DFilter(r0, "odd") [] wrap = "append78" -> DAppend(r0, Fin(<<7, 8>>)) IN
          /\ NH < MaxH
          /\ ~(wrap = "filterodd" /\ FilterHangs(r0, "odd"))
          /\ hub' = <<[hub[1] EXCEPT !.its = SubSeq(@, 1, k - 1)]>>
          /\ IF wrap = "use" THEN M' = M /\ hd' = Append(hd, id)
             ELSE IF wrap = "append78"
                  THEN \* Stream(hub).append([7, 8]): the literal's iterator, then the chain node
                       LET M1 == AddNode(M, SrcNode(Fin(<<7, 8>>))) IN
                       M' = AddNode(M1, [k |-> "chain", a |-> id, b |-> NewId(M), ina |-> TRUE])
                       /\ hd' = Append(hd, NewId(M1))
                  ELSE M' = AddNode(M, nd) /\ hd' = Append(hd, NewId(M))
          /\ rem' = Append(rem, r1)
          /\ ret' = RNew(NH + 1) /\ dret' = RNew(NH + 1)

\* hub.peek(n) / hub.copy(): tee of the first prepared copy, no use consumed; IndexError when none left
HubPeek(tok) ==
  /\ Can("hpeek") /\ hub # <<>> /\ tok \in PeekToks
  /\ ~(tok = "inf" /\ IsEndless(hub[1].rem))
  /\ hist' = Append(hist, [op |-> "hpeek", n |-> tok])
  /\ IF hub[1].its = <<>>
     THEN /\ ret' = RExc("IndexError") /\ dret' = RExc("IndexError") /\ UNCHANGED <<M, hd, rem, hub>>
     ELSE LET t == Tee(M, hub[1].its[1], 2)
              b == t[2][2]
              r0 == hub[1].rem IN
          /\ hub' = <<[hub[1] EXCEPT !.its[1] = t[2][1]]>>
          /\ IF tok = "None"
             THEN LET r == Pull(t[1], b) IN
                  /\ M' = r[1]
                  /\ ret' = IF r[2] = END THEN RExc("StopIteration") ELSE RItem(r[2])
                  /\ dret' = IF DPrefix(r0, 1) = <<>> THEN RExc("StopIteration") ELSE RItem(DPrefix(r0, 1)[1])
             ELSE LET c == IF tok = "inf" THEN -1 ELSE TakeCount(tok)
                      r == TakeN(t[1], b, c, <<>>) IN
                  /\ M' = r[1]
                  /\ ret' = RList(r[2])
                  /\ dret' = RList(DPrefix(r0, IF tok = "inf" THEN Len(r0.pre) ELSE c))
          /\ UNCHANGED <<hd, rem>>

HubCopy ==
  /\ Can("hcopy") /\ hub # <<>>
  /\ hist' = Append(hist, [op |-> "hcopy"])
  /\ IF hub[1].its = <<>>
     THEN /\ ret' = RExc("IndexError") /\ dret' = RExc("IndexError") /\ UNCHANGED <<M, hd, rem, hub>>
     ELSE LET t == Tee(M, hub[1].its[1], 2) IN
          /\ NH < MaxH
          /\ M' = t[1]
          /\ hub' = <<[hub[1] EXCEPT !.its[1] = t[2][1]]>>
          /\ hd' = Append(hd, t[2][2])
          /\ rem' = Append(rem, hub[1].rem)
          /\ ret' = RNew(NH + 1) /\ dret' = RNew(NH + 1)

\* hub.take(...) is refused (the code raises AttributeError; C03 does not name the class, so any exception counts)
HubTake ==
  /\ Can("htake") /\ hub # <<>>
  /\ hist' = Append(hist, [op |-> "htake"])
  /\ ret' = RExc("Refused") /\ dret' = RExc("Refused")
  /\ UNCHANGED <<M, hd, rem, hub>>

Next ==
  \/ \E h \in Live, tok \in TakeToks : Take(h, tok)
  \/ \E h \in Live, tok \in PeekToks : Peek(h, tok)
  \/ \E h \in Live, tok \in SkipToks : Skip(h, tok)
  \/ \E h \in Live, tok \in LimitToks : Limit(h, tok)
  \/ \E h \in Live : NextItem(h)
  \/ \E h \in Live : Copy(h)
  \/ \E h \in Live : MapOp(h)
  \/ \E h \in Live, p \in {"odd", "small"} : FilterOp(h, p)
  \/ \E h \in Live, a \in AppendArgs : AppendLit(h, a)
  \/ \E h \in Live, g \in Live : AppendH(h, g)
  \/ \E h \in Live, n \in {2, 3} : TeeOp(h, n)
  \/ \E h \in Live, n \in {1, 2} : Thub(h, n)
  \/ \E w \in HubWraps : HubUse(w)
  \/ \E tok \in PeekToks : HubPeek(tok)
  \/ HubCopy \/ HubTake

Spec == Init /\ [][Next]_vars

---------------------------------------------------------------------------
\* every return value / exception of the machine is the list model's
RetAgree == ret = dret
\* every live handle (and every unused hub copy) still yields its whole remaining list, whatever was
\* consumed through the others
Independent ==
  /\ \A h \in Live : Unfold(M, hd[h], UnfoldLen) = DPrefix(rem[h], UnfoldLen)
  /\ hub # <<>> => \A i \in DOMAIN hub[1].its : Unfold(M, hub[1].its[i], UnfoldLen) = DPrefix(hub[1].rem, UnfoldLen)
\* peek removes nothing
PeekPure == [][(hist'[Len(hist')].op \in {"peek", "hpeek"}) => rem' = rem]_vars
===========================================================================
