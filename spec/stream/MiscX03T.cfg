CONSTANTS
  Cases <- X03Thorough
INIT Init
NEXT Next
INVARIANT Refines
INVARIANT Laws
CHECK_DEADLOCK FALSE
