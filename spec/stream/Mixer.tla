------------------------------- MODULE Mixer -------------------------------
(***************************************************************************)
(* audiolazy.lazy_stream.Streamix and ControlStream (property C16).        *)
(*                                                                         *)
(* Time.  A delta is a whole number of TICKS, Q ticks = one sample (Q = 4: *)
(* quarter samples, exact in the code's floats).  The code's `count` is    *)
(* kept in HALF-TICKS (1/(2Q) sample) so that its initial value 0.5 is the *)
(* integer Q, `count -= delta` subtracts 2*delta and `count += 1.` adds    *)
(* 2*Q.                                                                    *)
(*                                                                         *)
(* Operational layer (shaped like the code, lazy_stream.py:684-746):       *)
(*   count, np (= _not_playing, FIFO of (delta, iterator)), pl (= _playing,*)
(*   list of iterators: event id, items consumed, data length), ended      *)
(*   (generator finished).  OpStep is one pass of the `while True` body:   *)
(*   start-while `count >= delta` / sum / prune / stop-test / count += 1.  *)
(* Definition layer (shaped like the property):                            *)
(*   closed form, absolute:  T_i = d_1+...+d_i (CumT), event i starts at   *)
(*     max(nearest sample of T_i, sample at which it was added)            *)
(*     (StartLo / StartHi: the two readings of "nearest" at an exact       *)
(*     half-sample tie), sample n is the set Due(E, S, n) of items due,    *)
(*     the output ends at EndOf(E, S) = max_i (S_i + len_i);               *)
(*   the same closed form in the moving frame of "now" (sched, base):      *)
(*     an event table [id, off = start - now, len] filled at Add with      *)
(*     off = max(nearest(T_last + d - now), 0); this is what makes the     *)
(*     reachable state graph finite although histories are unbounded.      *)
(* History variables evs / now / gid record the absolute history so that   *)
(* TLC can compare the frame with the absolute closed form.                *)
(*                                                                         *)
(* The operational layer resolves half-sample ties downwards, as the code  *)
(* does (`>=`).  The property leaves the tie direction open: the trace     *)
(* module (MixerTrace) judges observations with StartLo AND StartHi.       *)
(*                                                                         *)
(* An output sample is the set of items summed, an item is <<event, k>>    *)
(* (k-th item of the event's data, 0-based): the zero value and `+` are    *)
(* the only arithmetic, the binding uses symbolic items.                   *)
(***************************************************************************)
EXTENDS Integers, Sequences, FiniteSets, TLC

CONSTANTS Q,          \* ticks per sample
          Deltas,     \* deltas (ticks, >= 0) offered to add()
          Lens,       \* data lengths offered to add()
          Keeps,      \* subset of BOOLEAN: values of `keep` explored
          MaxLive,    \* event slots: at most MaxLive events pending/playing at once
          MaxCount,   \* state constraint of the graph configurations (half-ticks)
          MaxEv, MaxN,\* state constraint of the history configurations
          Values      \* ControlStream value universe

VARIABLES keep, count, np, pl, ended,   \* operational layer
          out,                          \* the sample just returned by next() (set of items summed)
          sched, base,                  \* definition layer in the frame of `now`
          evs, now, gid,                \* absolute history: events added (d, len, at), samples emitted,
                                        \*   slot id -> index in evs
          cval, cdef                    \* ControlStream: the attribute / the value most recently assigned

mvars == <<keep, count, np, pl, ended, out, sched, base, evs, now, gid>>
cvars == <<cval, cdef>>
vars  == <<mvars, cvars>>
\* the history variables are write-only: hidden from the fingerprint in the graph configurations
GraphView == <<keep, count, np, pl, ended, out, sched, base, cval, cdef>>

NegDeltas == {-1, -Q}    \* negative deltas offered to add() (cfg files cannot write negative numbers)

Max2(a, b) == IF a >= b THEN a ELSE b
MapSeq(s, F(_)) == IF s = <<>> THEN <<>> ELSE [i \in 1..Len(s) |-> F(s[i])]

---------------------------------------------------------------------------
(* Definition layer: the closed form                                       *)

\* d_lo + ... + d_hi, summed by halves (recursion depth log n: recorded histories have hundreds of events)
RECURSIVE SumD(_, _, _)
SumD(E, lo, hi) == IF lo > hi THEN 0
                   ELSE IF lo = hi THEN E[lo].d
                   ELSE LET mid == (lo + hi) \div 2 IN SumD(E, lo, mid) + SumD(E, mid + 1, hi)
CumT(E, i) == SumD(E, 1, i)                                          \* T_i = d_1 + ... + d_i, in ticks

\* nearest sample of t ticks; the two differ only when t is an exact half-sample tie
NearLo(t) == (2 * t + Q - 1) \div (2 * Q)      \* ceil(t/Q - 1/2)
NearHi(t) == (2 * t + Q) \div (2 * Q)          \* floor(t/Q + 1/2)

StartLo(E, i) == Max2(NearLo(CumT(E, i)), E[i].at)
StartHi(E, i) == Max2(NearHi(CumT(E, i)), E[i].at)

\* items due at sample n when event i starts at S[i] (S[i] = -1: not started)
Due(E, S, n) ==
  {<<i, n - S[i]>> : i \in {j \in DOMAIN E : S[j] >= 0 /\ S[j] <= n /\ n < S[j] + E[j].len}}

\* an event plays or pends at sample n
AliveAt(E, S, n) == \E i \in DOMAIN E : n < S[i] + E[i].len

RECURSIVE MaxEnd(_, _, _)
MaxEnd(E, S, i) == IF i = 0 THEN 0 ELSE Max2(MaxEnd(E, S, i - 1), S[i] + E[i].len)
EndOf(E, S) == MaxEnd(E, S, Len(E))            \* max_i(S_i + len_i): length of the output without keep

LoStarts(E) == [i \in DOMAIN E |-> StartLo(E, i)]

---------------------------------------------------------------------------
(* Operational layer, as pure operators                                    *)

\* Streamix.add(delta, data): validation and queueing
OpAdd(q, d, id, len) ==
  IF d < 0 THEN [err |-> "ValueError", q |-> q]
  ELSE [err |-> "none", q |-> Append(q, [d |-> d, id |-> id, len |-> len])]

\* while self._not_playing and (count >= self._not_playing[0][0]): popleft / append / count -= delta
RECURSIVE OpStart(_, _, _)
OpStart(c, q, p) ==
  IF q # <<>> /\ c >= 2 * Head(q).d
  THEN OpStart(c - 2 * Head(q).d, Tail(q),
               Append(p, [id |-> Head(q).id, pos |-> 0, len |-> Head(q).len]))
  ELSE [c |-> c, q |-> q, p |-> p]

\* one pass of the generator body from (c, q, p): summed items, pruned list, stop test
OpBody(k, c, q, p) ==
  LET s    == OpStart(c, q, p)
      has(e) == e.pos < e.len                                  \* next(snd) gives an item
      sum  == {<<s.p[i].id, s.p[i].pos>> : i \in {j \in DOMAIN s.p : has(s.p[j])}}
      p2   == MapSeq(SelectSeq(s.p, has), LAMBDA e : [e EXCEPT !.pos = @ + 1])
  IN [c |-> s.c, q |-> s.q, p |-> p2, out |-> sum,
      stop |-> ~(k \/ p2 # <<>> \/ s.q # <<>>)]

OpStep == OpBody(keep, count, np, pl)

---------------------------------------------------------------------------
(* Definition layer in the frame of now                                    *)

DefOut  == {<<sched[i].id, -sched[i].off>> : i \in {j \in DOMAIN sched : sched[j].off <= 0}}
DefStop == ~keep /\ sched = <<>>
DefAdvance(sc) ==
  LET moved == MapSeq(sc, LAMBDA e : [e EXCEPT !.off = @ - 1])
  IN SelectSeq(moved, LAMBDA e : e.off + e.len > 0)           \* still playing or pending

RECURSIVE QSum(_, _)
QSum(q, i) == IF i = 0 THEN 0 ELSE QSum(q, i - 1) + q[i].d     \* deltas of q[1..i]

LiveIds == {np[i].id : i \in DOMAIN np} \cup {pl[i].id : i \in DOMAIN pl}
             \cup {sched[i].id : i \in DOMAIN sched}
FreeIds == (1..MaxLive) \ LiveIds

AddAs(d, len, id) ==
  /\ LET r == OpAdd(np, d, id, len) IN r.err = "none" /\ np' = r.q
  /\ LET off == Max2(NearLo(base + d), 0)
     IN sched' = IF off + len > 0 THEN Append(sched, [id |-> id, off |-> off, len |-> len])
                 ELSE sched                                  \* empty and due at once: never plays
  /\ base' = base + d
  /\ evs' = Append(evs, [d |-> d, len |-> len, at |-> now])
  /\ gid' = [gid EXCEPT ![id] = Len(evs) + 1]
  /\ UNCHANGED <<keep, count, pl, ended, out, now, cvars>>

---------------------------------------------------------------------------
NoCtl == /\ cval = "none" /\ cdef = "none"

Init == /\ keep \in Keeps
        /\ count = Q /\ np = <<>> /\ pl = <<>> /\ ended = FALSE /\ out = {}
        /\ sched = <<>> /\ base = 0
        /\ evs = <<>> /\ now = 0 /\ gid = [i \in 1..MaxLive |-> 0]
        /\ NoCtl

\* smix.add(d / Q, data of `len` items); the event gets the smallest free slot
Add(d, len) ==
  /\ ~ended /\ FreeIds # {}
  /\ AddAs(d, len, CHOOSE x \in FreeIds : \A y \in FreeIds : x <= y)

\* smix.add(negative, ...) raises ValueError and changes nothing
AddRejected(d) ==
  /\ ~ended
  /\ OpAdd(np, d, 0, 0).err = "ValueError"
  /\ UNCHANGED vars

\* next(smix) returns zero + the items in out'
Step ==
  /\ ~ended
  /\ LET r == OpStep IN
       /\ ~r.stop /\ out' = r.out
       /\ count' = r.c + 2 * Q /\ np' = r.q /\ pl' = r.p
  /\ sched' = DefAdvance(sched) /\ base' = base - Q
  /\ now' = now + 1
  /\ UNCHANGED <<keep, ended, evs, gid, cvars>>

\* next(smix) raises StopIteration (now and ever after)
Stop ==
  /\ IF ended THEN TRUE ELSE OpStep.stop
  /\ ended' = TRUE
  /\ IF ended THEN UNCHANGED <<count, np, pl>>
     ELSE LET r == OpStep IN count' = r.c /\ np' = r.q /\ pl' = r.p
  /\ out' = {}
  /\ UNCHANGED <<keep, sched, base, evs, now, gid, cvars>>

Next == \/ \E d \in Deltas, len \in Lens : Add(d, len)
        \/ \E d \in NegDeltas : AddRejected(d)
        \/ Step
        \/ Stop

Spec == Init /\ [][Next]_vars

GraphBound == count <= MaxCount
HistBound  == Len(evs) <= MaxEv /\ now <= MaxN

---------------------------------------------------------------------------
(* ControlStream: `self.value` read by the generator at each step          *)

CInit == /\ \E v \in Values : cval = v /\ cdef = v
         /\ keep = FALSE /\ count = Q /\ np = <<>> /\ pl = <<>> /\ ended = FALSE /\ out = {}
         /\ sched = <<>> /\ base = 0 /\ evs = <<>> /\ now = 0 /\ gid = <<>>
CAssign(v) == cval' = v /\ cdef' = v /\ UNCHANGED mvars        \* cs.value = v
CRead(v)   == v = cval /\ UNCHANGED vars                        \* next(cs) returns v
CNext == \/ \E v \in Values : CAssign(v)
         \/ \E v \in Values : CRead(v)
ControlYieldsLastAssigned == cval = cdef

---------------------------------------------------------------------------
(* Properties                                                              *)

TypeOK ==
  /\ keep \in BOOLEAN /\ ended \in BOOLEAN /\ count \in Int /\ base \in Int /\ now \in Nat
  /\ \A i \in DOMAIN np : np[i].d >= 0 /\ np[i].len >= 0 /\ np[i].id \in 1..MaxLive
  /\ \A i \in DOMAIN pl : pl[i].pos \in 0..pl[i].len /\ pl[i].id \in 1..MaxLive
  /\ \A i \in DOMAIN sched : sched[i].off + sched[i].len > 0
  /\ Cardinality(LiveIds) >= Len(np) /\ Cardinality(LiveIds) >= Len(sched)

\* the sample just returned is one item of every iterator still in the list (so `out` adds no states)
OutIsPlaying == out = {<<pl[i].id, pl[i].pos - 1>> : i \in DOMAIN pl}

\* the sample / the end the machine is about to produce is the definition's
Refines == ~ended => /\ OpStep.out = DefOut
                     /\ OpStep.stop = DefStop

\* every event is where its start time says: before it in the queue, after it playing at the due item
StartTimes ==
  /\ \A i \in DOMAIN sched :
       LET e == sched[i] IN
       IF e.off < 0 THEN \E j \in DOMAIN pl : pl[j].id = e.id /\ pl[j].pos = -e.off /\ pl[j].len = e.len
       ELSE \E j \in DOMAIN np : np[j].id = e.id /\ np[j].len = e.len
  /\ \A j \in DOMAIN np :
       \/ \E i \in DOMAIN sched : sched[i].id = np[j].id /\ sched[i].off >= 0
       \/ np[j].len = 0 /\ NearLo(base - (QSum(np, Len(np)) - QSum(np, j))) <= 0
  /\ \A j \in DOMAIN pl :
       \/ \E i \in DOMAIN sched : sched[i].id = pl[j].id /\ sched[i].off < 0
       \/ pl[j].pos = pl[j].len                                 \* exhausted, pruned at the next pass
  \* base - (deltas queued after np[j]) is T of np[j] in the frame of now

\* the code's count is the frame's origin: count/2 - (deltas still queued) = Q/2 - base
CountTracksBase == ~ended => count - 2 * QSum(np, Len(np)) = Q - 2 * base

\* start samples are functions of the exact T_i, however many deltas were accumulated:
\* the frame's table and origin are the absolute closed form shifted by `now`
NoDrift ==
  /\ base = CumT(evs, Len(evs)) - Q * now
  /\ \A k \in DOMAIN sched : now + sched[k].off = StartLo(evs, gid[sched[k].id])

\* absolute closed form: items due at sample `now`, and the end
ClosedForm ==
  ~ended => LET r == OpStep  S == LoStarts(evs) IN
              /\ {<<gid[x[1]], x[2]>> : x \in r.out} = Due(evs, S, now)
              /\ r.stop = (~keep /\ ~AliveAt(evs, S, now))

\* without keep the output ends exactly at max_i(S_i + len_i); with keep it never ends
Termination ==
  /\ ended => ~keep /\ now = EndOf(evs, LoStarts(evs)) /\ sched = <<>> /\ np = <<>> /\ pl = <<>>
  /\ (~ended /\ ~keep /\ now >= EndOf(evs, LoStarts(evs))) => OpStep.stop

NegativeDeltaRejected ==
  /\ \A d \in NegDeltas : OpAdd(np, d, 0, 0) = [err |-> "ValueError", q |-> np]
  /\ \A d \in Deltas : OpAdd(np, d, 0, 0).err = "none"
===========================================================================
