CONSTANTS
  Q = 4
  Deltas = {0, 1, 2, 6}
  Lens = {0, 1, 2}
  Keeps = {FALSE, TRUE}
  MaxLive = 2
  MaxCount = 0
  MaxEv = 2
  MaxN = 5
  Values = {"v1"}
INIT Init
NEXT Next
CONSTRAINT HistBound
INVARIANT TypeOK
INVARIANT OutIsPlaying
INVARIANT Refines
INVARIANT StartTimes
INVARIANT CountTracksBase
INVARIANT NoDrift
INVARIANT ClosedForm
INVARIANT Termination
INVARIANT NegativeDeltaRejected
CHECK_DEADLOCK FALSE
