------------------------------ MODULE LazyC02 ------------------------------
(* Case grid for C02. *)
EXTENDS Lazy

C(cls, a, b, c, len, pat) == [cls |-> cls, a |-> a, b |-> b, c |-> c, len |-> len, pat |-> pat]
Lens(u)  == {-1} \cup 0..7
Pats(u)  == UNION {[1..n -> BOOLEAN] : n \in 1..3}
Grid(u) ==
       {C("sw", 0, 0, 0, l, <<TRUE>>) : l \in Lens(0)}
  \cup {C("blocks", a, b, 0, l, <<TRUE>>) : a \in 1..3, b \in 1..4, l \in Lens(0)}
  \cup {C(k, a, 0, 0, l, <<TRUE>>) : k \in {"skip", "dwhile", "limit", "prefix"}, a \in 0..3, l \in Lens(0)}
  \cup {C(k, a, 0, 0, l, <<TRUE>>) : k \in {"every", "batched"}, a \in 1..3, l \in Lens(0)}
  \* (a predicate that never passes on an endless source never returns: outside the property)
  \cup {c \in {C("sel", 0, 0, 0, l, p) : l \in Lens(0), p \in Pats(0)} : c.len >= 0 \/ \E j \in DOMAIN c.pat : c.pat[j]}
  \cup {c \in {C("twhile", a, 0, 0, l, <<TRUE>>) : a \in 0..3, l \in Lens(0)} : c.len < 0 \/ c.a <= c.len}
  \cup {c \in {C("ola", a, b, 0, l, <<TRUE>>) : a \in 1..3, b \in 1..3, l \in Lens(0)} : c.b <= c.a}
  \cup {C("pair", 0, 0, 0, l, <<TRUE>>) : l \in Lens(0)}
  \cup {C("resample", a, b, c, l, <<TRUE>>) : a \in 1..3, b \in 1..3, c \in 1..3, l \in {-1, 0, 1, 2, 3, 5, 7}}
C02Grid == Grid(0)
============================================================================
