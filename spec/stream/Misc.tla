------------------------------- MODULE Misc -------------------------------
(***************************************************************************)
(* Extension check X03: stream-side pieces of AudioLazy that the listed    *)
(* properties do not cover, as ONE evaluator over tagged cases.            *)
(*                                                                         *)
(*   Eval(kind, c) -- operational layer (TableVal / IterFn / CtlFn         *)
(*                    operators written after the code's branches, loops)  *)
(*   Def(kind, c)  -- definition layer (the documented meaning)            *)
(* Module MiscGrid runs both on a case grid and checks the laws; module    *)
(* MiscTrace judges observations of the real code with the same operators. *)
(*                                                                         *)
(* Units (sHz, freq2lag, lag2freq): a quantity is [u |-> "one" | "pi",     *)
(* r |-> Rat], i.e. r or r*pi, so 2*pi/v is exact.                         *)
(***************************************************************************)
EXTENDS TableVal, IterFn, CtlFn

UOne(r) == [u |-> "one", r |-> r]
UPi(r)  == [u |-> "pi", r |-> r]
\* sHz(rate) = (float(rate), 2 * pi / rate)
OpSHz(rate) == [s |-> rate, hz |-> UPi(RDiv(R(2), rate))]
\* freq2lag(v) = lag2freq(v) = 2 * pi / v
TwoPiOver(v) == IF v.r[1] = 0 THEN [e |-> "ZeroDivisionError", q |-> UOne(RZero)]
                ELSE [e |-> "none", q |-> [u |-> IF v.u = "pi" THEN "one" ELSE "pi", r |-> RDiv(R(2), v.r)]]

\* what the Stream protocol answers (exception class or fact)
StreamProtocol == [bool |-> "TypeError", not |-> "TypeError", next_builtin |-> "TypeError",
                   dunder_next |-> "AttributeError", iter_twice |-> "same-object", iter_feeds |-> "advances",
                   abs_inplace |-> "same-object", zero_pad_type |-> "generator", orange_type |-> "list",
                   xrange_is |-> "range", iteritems_type |-> "iterator"]

Eval(kind, c) ==
  CASE kind = "optable" -> TblOpRows
    [] kind = "tbin"    -> TableOp(c.op, c.rev, c.self, c.other)
    [] kind = "tun"     -> OpUnary(c.op, c.self)
    [] kind = "tget"    -> OpGetItem(c.t, c.idx)
    [] kind = "tnorm"   -> OpNormalize(c.self)
    [] kind = "tharm"   -> OpHarmonize(c.self, c.hd)
    [] kind = "teq"     -> TblEq(c.self, c.other)
    [] kind = "tfacts"  -> TableFacts
    [] kind = "ctor"    -> OpStreamCtor(c.args, c.h)
    [] kind = "count"   -> Count(c.start, c.step, c.h)
    [] kind = "repeat"  -> Repeat(c.v, c.times, c.h)
    [] kind = "cycle"   -> Cycle(c.s, c.h)
    [] kind = "islice"  -> OpISlice(c.s, c.start, c.stop, c.step)
    [] kind = "chain"   -> OpChain(c.ss)
    [] kind = "zipl"    -> ZipLongest(c.ss, c.fill)
    [] kind = "zips"    -> ZipShortest(c.ss)
    [] kind = "accum"   -> Accumulate(c.s)
    [] kind = "linames" -> [names |-> LiNames(c.itnames), kinds |-> [n \in LiNames(c.itnames) |-> LiKind(n)],
                            strat |-> LiStrategies, dflt |-> [d \in DOMAIN LiStrategies |-> LiDefault(d)]]
    [] kind = "tee"     -> DefTee(c.kind, c.s, c.n)
    [] kind = "attr"    -> GetAttrStream(c.elems, c.name)
    [] kind = "meth"    -> MethodStream(c.elems, c.name)
    [] kind = "call"    -> CallStream(c.fs, c.x, c.y)
    [] kind = "abs"     -> AbsStream(c.s)
    [] kind = "proto"   -> StreamProtocol
    [] kind = "zpad"    -> OpZeroPad(c.s, c.left, c.right, c.zero)
    [] kind = "blk"     -> OpBlocksNoHop(c.s, c.size, c.pad)
    [] kind = "shz"     -> OpSHz(c.rate)
    [] kind = "f2l"     -> TwoPiOver(c.v)
    [] kind = "orange"  -> OpORange(c.args)
    [] kind = "items"   -> [items |-> c.pairs, values |-> [i \in DOMAIN c.pairs |-> c.pairs[i][2]]]

\* kinds whose definition layer is a second, independently written function of the same case
HasDef(kind, c) ==
  \/ kind \in {"tbin", "ctor", "islice", "chain", "zpad", "blk", "orange"}
  \/ kind = "tget"
  \/ kind = "tharm" /\ HarmDivides(c.self, c.hd)

Def(kind, c) ==
  CASE kind = "tbin"   -> DefTableOp(c.op, c.rev, c.self, c.other)
    [] kind = "tget"   -> DefGetItem(c.t, c.idx)
    [] kind = "tharm"  -> DefHarmonize(c.self, c.hd)
    [] kind = "ctor"   -> DefStreamCtor(c.args, c.h)
    [] kind = "islice" -> DefISlice(c.s, c.start, c.stop, c.step)
    [] kind = "chain"  -> DefChain(c.ss)
    [] kind = "zpad"   -> DefZeroPadSeq(c.s, c.left, c.right, c.zero)
    [] kind = "blk"    -> DefBlocksNoHop(c.s, c.size, c.pad)
    [] kind = "orange" -> DefORange(c.args)

\* laws that are not of the form Eval = Def
KindLaw(kind, c, out) ==
  CASE kind = "optable" -> OpTableLaw
    [] kind \in {"tbin", "tun", "tharm"} ->                          \* length and cycles go through every operator
         out.e = "none" => (out.cy = c.self.cy /\ Len(out.t) = Len(c.self.t))
    [] kind = "tnorm"   -> Len(c.self.t) > 0 => NormContract(c.self, out)
    [] kind = "blk"     -> out = ChunksNoHop(c.s, c.size, c.pad)       \* hop=None is hop=size: plain chunks
    [] kind = "shz"     -> out.hz.u = "pi" /\ RMul(out.hz.r, out.s) = R(2)      \* Hz * s = 2 pi
    [] kind = "f2l"     -> out.e = "none" => TwoPiOver(out.q) = [e |-> "none", q |-> c.v]      \* round trip
    [] kind = "linames" -> /\ LiFixed \cup {"imap", "ifilter"} \subseteq out.names
                           /\ \A n \in c.itnames : LiRename(n) \in out.names
                           /\ "filterfalse" \notin out.names /\ "zip_longest" \notin out.names
    [] kind = "tee"     -> Len(out.out) = c.n
    [] kind = "teq"     -> (out => Len(c.self.t) = Len(c.other.t))
    [] OTHER -> TRUE
===========================================================================
