---------------------------- MODULE StreamOpsC01 ----------------------------
(* Program grids for C01. *)
EXTENDS StreamOps

AllBin == Arith \cup Cmp
\* one operator per syntactic class
Basis(unused) == {"add", "pow", "floordiv", "lt", "eq", "and", "matmul", "sub"}

LeafSet(id, lens, pers) == {Leaf("S", id, n) : n \in lens} \cup {Leaf("I", id, n) : n \in lens}
                           \cup {Leaf("P", id, n) : n \in pers} \cup {Leaf("C", id, 0)}
Str(id, lens, pers) == {Leaf("S", id, n) : n \in lens} \cup {Leaf("P", id, n) : n \in pers}

\* depth 1: every operator, every operand-kind pair with a Stream on at least one side, lengths 0..3
Depth1(unused) == {p \in {Bin(op, l, r) : op \in AllBin, l \in LeafSet(1, 0..3, 1..2), r \in LeafSet(2, 0..3, 1..2)} : WellFormed(p)}
          \cup {Un(op, c) : op \in Unary, c \in Str(1, 0..3, 1..2)}

L2(id) == LeafSet(id, {0, 2, 3}, {2})
\* depth 2 over the basis: (a op b) op c, a op (b op c), op(a op b), (op a) op b
Depth2(ops, unops) ==
  {p \in {Bin(o2, Bin(o1, a, b), c) : o1 \in ops, o2 \in ops, a \in L2(1), b \in L2(2), c \in L2(3)} : WellFormed(p)}
  \cup {p \in {Bin(o2, a, Bin(o1, b, c)) : o1 \in ops, o2 \in ops, a \in L2(1), b \in L2(2), c \in L2(3)} : WellFormed(p)}
  \cup {p \in {Un(u, Bin(o1, a, b)) : u \in unops, o1 \in ops, a \in L2(1), b \in L2(2)} : WellFormed(p)}
  \cup {p \in {Bin(o1, Un(u, a), b) : u \in unops, o1 \in ops, a \in Str(1, {0, 2, 3}, {2}), b \in L2(2)} : WellFormed(p)}

\* (TLC evaluates every zero-arity definition of the modules it loads at start-up, so the grids themselves
\*  live in StreamOpsC01Q / StreamOpsC01T and everything here takes parameters or is small)
=============================================================================
