CONSTANTS
  Cases <- C02Grid
  MaxK = 6
INIT Init
NEXT Next
INVARIANT NoReadAtConstruction
INVARIANT BoundedRead
INVARIANT TightRead
INVARIANT Monotone
INVARIANT EndlessOK
CHECK_DEADLOCK FALSE
