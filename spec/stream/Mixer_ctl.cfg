CONSTANTS
  Q = 4
  Deltas = {}
  Lens = {}
  Keeps = {}
  MaxLive = 0
  MaxCount = 0
  MaxEv = 0
  MaxN = 0
  Values = {"v1", "v2", "v3"}
INIT CInit
NEXT CNext
INVARIANT ControlYieldsLastAssigned
CHECK_DEADLOCK FALSE
