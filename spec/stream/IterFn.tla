------------------------------ MODULE IterFn ------------------------------
(***************************************************************************)
(* Stream-side functions of extension check X03 that are pure functions    *)
(* of small inputs: the Stream constructor rules, the lazy_itertools       *)
(* wrappers (names, result kinds, item-by-item semantics), tee(),          *)
(* elementwise attribute / call / abs, lazy_misc and lazy_compat helpers.  *)
(*                                                                         *)
(* Items are integers (or whatever the case needs); an endless result is   *)
(* represented by its first `h` items together with endless = TRUE.        *)
(* Every function has an operational form (the code's branches / loops)    *)
(* and a definition form (the documented meaning); module Misc states that *)
(* they agree on every case.                                               *)
(***************************************************************************)
EXTENDS Integers, Sequences, FiniteSets, TLC, BlocksDef

IMin(a, b) == IF a < b THEN a ELSE b
IMax(a, b) == IF a < b THEN b ELSE a
Prefix(s, n) == SubSeq(s, 1, IMin(n, Len(s)))
MinOf2(S) == CHOOSE x \in S : \A y \in S : x <= y
MaxOf2(S) == CHOOSE x \in S : \A y \in S : x >= y

RECURSIVE Flatten(_)
Flatten(ss) == IF ss = <<>> THEN <<>> ELSE Head(ss) \o Flatten(Tail(ss))

\* first h items of the endless repetition of the non-empty sequence s
Periodic(s, h) == [i \in 1..h |-> s[((i - 1) % Len(s)) + 1]]

SRes(e, out, endless) == [e |-> e, out |-> out, endless |-> endless]
SErr(e) == SRes(e, <<>>, FALSE)

---------------------------------------------------------------------------
(* Stream called with dargs: an argument is [it |-> is it iterable, s |-> its items (iterable) or <<itself>>] *)
OpStreamCtor(args, h) ==
  IF Len(args) = 0 THEN SErr("TypeError")                              \* "Missing argument(s)"
  ELSE IF Len(args) = 1
       THEN IF args[1].it THEN SRes("none", Prefix(args[1].s, h), FALSE)        \* iter(dargs[0])
            ELSE SRes("none", [i \in 1..h |-> args[1].s[1]], TRUE)               \* it.repeat(dargs[0])
       ELSE IF \A i \in DOMAIN args : args[i].it
            THEN SRes("none", Prefix(Flatten([i \in DOMAIN args |-> args[i].s]), h), FALSE)    \* it.chain
            ELSE IF ~\E i \in DOMAIN args : args[i].it
                 THEN SRes("none", Periodic([i \in DOMAIN args |-> args[i].s[1]], h), TRUE)    \* it.cycle
                 ELSE SErr("TypeError")                                 \* both kinds

\* the documentation: iterables are chained; non-iterables are repeated endlessly; nothing else
DefStreamCtor(args, h) ==
  LET its == {i \in DOMAIN args : args[i].it} IN
  IF args = <<>> \/ (its # {} /\ its # DOMAIN args) THEN SErr("TypeError")
  ELSE IF its = {} THEN SRes("none", Periodic(Flatten([i \in DOMAIN args |-> args[i].s]), h), TRUE)
  ELSE SRes("none", Prefix(Flatten([i \in DOMAIN args |-> args[i].s]), h), FALSE)

---------------------------------------------------------------------------
(* itertools originals on small inputs (what the wrappers must reproduce item by item)         *)
Count(start, step, h)  == [i \in 1..h |-> start + (i - 1) * step]
Repeat(v, times, h)    == [i \in 1..(IF times < 0 THEN h ELSE IMin(times, h)) |-> v]     \* times = -1: endless
Cycle(s, h)            == IF s = <<>> THEN <<>> ELSE Periodic(s, h)

\* islice(s, start, stop, step): stop = -1 stands for None.  Operational: the next-target loop.
RECURSIVE ISliceLoop(_, _, _, _, _)
ISliceLoop(s, nxt, stop, step, acc) ==
  IF stop # -1 /\ nxt >= stop THEN acc
  ELSE IF nxt >= Len(s) THEN acc
  ELSE ISliceLoop(s, nxt + step, stop, step, Append(acc, s[nxt + 1]))
OpISlice(s, start, stop, step) == ISliceLoop(s, start, stop, step, <<>>)

DefISlice(s, start, stop, step) ==
  LET lim == IF stop = -1 THEN Len(s) ELSE IMin(stop, Len(s))
      cnt == IF lim <= start THEN 0 ELSE (lim - start + step - 1) \div step
  IN [k \in 1..cnt |-> s[start + (k - 1) * step + 1]]

\* chain / chain.from_iterable: definition by position (item k lies in the first sequence whose
\* cumulative length reaches k)
RECURSIVE CumLen(_, _)
CumLen(ss, j) == IF j = 0 THEN 0 ELSE CumLen(ss, j - 1) + Len(ss[j])
DefChain(ss) ==
  [k \in 1..CumLen(ss, Len(ss)) |->
     LET j == MinOf2({x \in DOMAIN ss : CumLen(ss, x) >= k}) IN ss[j][k - CumLen(ss, j - 1)]]
OpChain(ss) == Flatten(ss)

ZipShortest(ss) ==
  IF ss = <<>> THEN <<>>
  ELSE LET n == MinOf2({Len(ss[j]) : j \in DOMAIN ss}) IN [i \in 1..n |-> [j \in DOMAIN ss |-> ss[j][i]]]
ZipLongest(ss, fill) ==
  IF ss = <<>> THEN <<>>
  ELSE LET n == MaxOf2({Len(ss[j]) : j \in DOMAIN ss})
       IN [i \in 1..n |-> [j \in DOMAIN ss |-> IF i <= Len(ss[j]) THEN ss[j][i] ELSE fill]]

RECURSIVE RunSum(_, _)
RunSum(s, k) == IF k = 0 THEN 0 ELSE RunSum(s, k - 1) + s[k]
Accumulate(s) == [k \in DOMAIN s |-> RunSum(s, k)]

---------------------------------------------------------------------------
(* lazy_itertools.__all__ as a function of the interpreter's itertools (public callables)      *)
LiFixed == {"chain", "izip", "tee", "accumulate"}
LiRename(n) == IF n = "filterfalse" THEN "ifilterfalse" ELSE IF n = "zip_longest" THEN "izip_longest" ELSE n
LiNames(itnames) == LiFixed \cup {LiRename(n) : n \in itnames \ LiFixed} \cup {"imap", "ifilter"}

\* what calling the name gives: a Stream, a tuple of Streams (tee) or a strategy dictionary
LiKind(n) == IF n = "tee" THEN "tuple" ELSE IF n \in {"chain", "izip", "accumulate"} THEN "strategies" ELSE "stream"

\* strategy names in registration order; the default is the first strategy
LiStrategies == [chain      |-> << <<"chain">>, <<"star", "from_iterable">> >>,
                 izip       |-> << <<"izip", "smallest">>, <<"longest">> >>,
                 accumulate |-> << <<"accumulate", "itertools">>, <<"func", "pure_python">>, <<"z">> >>]
LiDefault(d) == LiStrategies[d][1][1]

ItNames312 == {"accumulate", "batched", "chain", "combinations", "combinations_with_replacement", "compress",
               "count", "cycle", "dropwhile", "filterfalse", "groupby", "islice", "pairwise", "permutations",
               "product", "repeat", "starmap", "takewhile", "tee", "zip_longest"}
ItNames38  == ItNames312 \ {"batched", "pairwise"}

\* tee(data, n): kind of data -> what comes back
TeeKind(kind) == IF kind \in {"stream", "iterator"} THEN "streams" ELSE "same"
DefTee(kind, s, n) ==      \* n results; each independent Stream holds all the items
  [k |-> TeeKind(kind), out |-> [i \in 1..n |-> s]]

---------------------------------------------------------------------------
(* elementwise attribute / method / call / abs.  Attribute elements are Gaussian integers        *)
(* <<re, im>> (attributes real, imag; method conjugate) or fractions <<n, d>> (numerator,       *)
(* denominator; method as_integer_ratio); callables are affine f(x, y=0) = c*x + d + y.          *)
NextName == "__next__"
AttrOf(e, name) ==
  CASE name \in {"real", "numerator"}   -> e[1]
    [] name \in {"imag", "denominator"} -> e[2]
AttrNames == {"real", "imag", "numerator", "denominator"}
GetAttrStream(elems, name) ==
  IF name = NextName THEN SErr("AttributeError")        \* refused at once: "Streams are iterable, not iterators"
  ELSE IF name \notin AttrNames                         \* an attribute the items do not have: lazily, at the first read
       THEN (IF elems = <<>> THEN SRes("none", <<>>, FALSE) ELSE SErr("AttributeError-on-read"))
  ELSE SRes("none", [i \in DOMAIN elems |-> AttrOf(elems[i], name)], FALSE)
MethodStream(elems, name) ==
  SRes("none", [i \in DOMAIN elems |->
                  CASE name = "conjugate" -> <<elems[i][1], -elems[i][2]>>
                    [] name = "as_integer_ratio" -> elems[i]], FALSE)
CallStream(fs, x, y) == SRes("none", [i \in DOMAIN fs |-> fs[i].c * x + fs[i].d + y], FALSE)
AbsStream(s) == SRes("none", [i \in DOMAIN s |-> IF s[i] < 0 THEN -s[i] ELSE s[i]], FALSE)

---------------------------------------------------------------------------
(* lazy_misc                                                                                     *)
OpZeroPad(s, left, right, zero) == [i \in 1..left |-> zero] \o s \o [i \in 1..right |-> zero]
DefZeroPadSeq(s, left, right, zero) == DefZeroPad(Len(s), left, right, LAMBDA i : s[i], zero)

\* blocks(seq, size) with hop not given: the hop <= size loop with reinit_idx = size - size = 0
RECURSIVE BlkLoop(_, _, _, _, _, _)
BlkLoop(s, size, i, res, idx, acc) ==
  IF i > Len(s)
  THEN IF idx > 0 THEN [out |-> acc, res |-> res, idx |-> idx] ELSE [out |-> acc, res |-> res, idx |-> 0]
  ELSE LET r1 == IF Len(res) = size THEN Tail(res) \o <<s[i]>> ELSE Append(res, s[i])     \* deque(maxlen=size)
       IN IF idx = size - 1 THEN BlkLoop(s, size, i + 1, r1, 0, Append(acc, r1))
          ELSE BlkLoop(s, size, i + 1, r1, idx + 1, acc)
RECURSIVE PadTo(_, _, _, _)
PadTo(res, size, pad, k) ==            \* for _ in xrange(idx, size): res.append(padval)
  IF k = 0 THEN res ELSE PadTo(IF Len(res) = size THEN Tail(res) \o <<pad>> ELSE Append(res, pad), size, pad, k - 1)
OpBlocksNoHop(s, size, pad) ==
  LET m == BlkLoop(s, size, 1, <<>>, 0, <<>>)
  IN IF m.idx > 0 THEN Append(m.out, PadTo(m.res, size, pad, size - m.idx)) ELSE m.out
DefBlocksNoHop(s, size, pad) == DefBlocks(Len(s), size, EffHop(size, 0), LAMBDA i : s[i], pad)
\* the plain reading: consecutive chunks of `size`, the last one filled up
ChunksNoHop(s, size, pad) ==
  [k \in 1..((Len(s) + size - 1) \div size) |->
     [j \in 1..size |-> IF (k - 1) * size + j <= Len(s) THEN s[(k - 1) * size + j] ELSE pad]]

---------------------------------------------------------------------------
(* lazy_compat                                                                                   *)
\* orange of args = list(range(*args)); args is a sequence of 0..4 integers
RECURSIVE RangeLoop(_, _, _, _)
RangeLoop(cur, stop, step, acc) ==
  IF (step > 0 /\ cur >= stop) \/ (step < 0 /\ cur <= stop) THEN acc
  ELSE RangeLoop(cur + step, stop, step, Append(acc, cur))
OpORange(args) ==
  IF Len(args) = 0 \/ Len(args) > 3 THEN SErr("TypeError")
  ELSE LET start == IF Len(args) = 1 THEN 0 ELSE args[1]
           stop  == IF Len(args) = 1 THEN args[1] ELSE args[2]
           step  == IF Len(args) = 3 THEN args[3] ELSE 1
       IN IF step = 0 THEN SErr("ValueError") ELSE SRes("none", RangeLoop(start, stop, step, <<>>), FALSE)
DefORange(args) ==
  IF Len(args) = 0 \/ Len(args) > 3 THEN SErr("TypeError")
  ELSE LET start == IF Len(args) = 1 THEN 0 ELSE args[1]
           stop  == IF Len(args) = 1 THEN args[1] ELSE args[2]
           step  == IF Len(args) = 3 THEN args[3] ELSE 1
           cnt   == IF step > 0 THEN IMax(0, (stop - start + step - 1) \div step)
                    ELSE IMax(0, (start - stop - step - 1) \div (-step))
       IN IF step = 0 THEN SErr("ValueError") ELSE SRes("none", [k \in 1..cnt |-> start + (k - 1) * step], FALSE)
===========================================================================
