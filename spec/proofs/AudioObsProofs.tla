--------------------------- MODULE AudioObsProofs ---------------------------
(***************************************************************************)
(* TLAPS proof, for EVERY number of players, every chunk count and every   *)
(* history length, that the guards of the property-level specification     *)
(* AudioObs (spec/io/AudioObsDef.tla: Refusal / Apply) imply the promise   *)
(* of C17 read off its state: TLC checks the same on small instances       *)
(* (AudioObs.cfg), this is the unbounded argument.                         *)
(*     tlapm -I ../io AudioObsProofs.tla                                   *)
(***************************************************************************)
EXTENDS AudioObs, TLAPS

ASSUME Assm == /\ NP \in Nat
               /\ NChunks \in [Players -> Nat]
               /\ Wait \in BOOLEAN

SS == {"none", "open", "stopped", "closed"}
TS == {"new", "running", "ended"}
CS == {"no", "closing", "closed", "reclosing"}

TypeOK == /\ obs.ost \in [Players -> SS]
          /\ obs.wr \in [Players -> Seq(Nat)]
          /\ obs.th \in [Players -> TS]
          /\ obs.ustop \in SUBSET Players
          /\ obs.ufault \in SUBSET Players
          /\ obs.cl \in CS
          /\ obs.term \in Nat
          /\ obs = [ost |-> obs.ost, wr |-> obs.wr, th |-> obs.th, ustop |-> obs.ustop, ufault |-> obs.ufault,
                    cl |-> obs.cl, term |-> obs.term]

\* chunks in order, each once, nothing invented (pointwise form of ObsInOrderOnce)
InOrder  == \A t \in Players : /\ Len(obs.wr[t]) <= NChunks[t]
                               /\ \A i \in 1..Len(obs.wr[t]) : obs.wr[t][i] = i
Inv == TypeOK /\ InOrder /\ ObsComplete /\ ObsAfterClose /\ ObsTermOnce

LEMMA InitInv == obs = ObsInit => Inv
  BY Assm DEF ObsInit, ObsInitOf, Cfg, PlayersOf, Players, Inv, TypeOK, InOrder, ObsComplete, ObsAfterClose,
              ObsTermOnce, Excused, Done, SS, TS, CS

LEMMA StepInv == Inv /\ [ObsNext]_obs => Inv'
<1> SUFFICES ASSUME Inv, [ObsNext]_obs PROVE Inv'
  OBVIOUS
<1>1. CASE UNCHANGED obs
  BY <1>1 DEF Inv, TypeOK, InOrder, ObsComplete, ObsAfterClose, ObsTermOnce, Excused, Done
<1>2. CASE ObsNext
  <2>1. PICK e \in Events : WellFormed(e) /\ Refusal(Cfg, e, obs) = "ok" /\ obs' = Apply(e, obs)
    BY <1>2 DEF ObsNext
  <2>2. e.k \in Kinds /\ e.t \in 0..NP /\ e.n \in Nat
    BY Assm DEF Events
  <2> USE Assm, <2>1, <2>2 DEF Inv, TypeOK, InOrder, ObsComplete, ObsAfterClose, ObsTermOnce, Excused, Done, Cfg,
                          PlayersOf, Players, WellFormed, PlayerKinds, Kinds, SS, TS, CS
  <2>a. CASE e.k = "open"         BY <2>a DEF Refusal, Apply
  <2>b. CASE e.k = "start"        BY <2>b DEF Refusal, Apply
  <2>c. CASE e.k = "write"
    <3>1. e.t \in Players /\ obs.ost[e.t] = "open" /\ e.n = Len(obs.wr[e.t]) + 1 /\ e.n <= NChunks[e.t]
          /\ obs.cl \notin {"closed", "reclosing"}
      BY <2>c DEF Refusal
    <3>2. obs' = [obs EXCEPT !.wr[e.t] = Append(@, e.n)]
      BY <2>c DEF Apply
    <3>3. /\ Len(obs'.wr[e.t]) = Len(obs.wr[e.t]) + 1
          /\ \A i \in 1..Len(obs.wr[e.t]) : obs'.wr[e.t][i] = obs.wr[e.t][i]
          /\ obs'.wr[e.t][Len(obs.wr[e.t]) + 1] = e.n
          /\ obs'.wr[e.t] \in Seq(Nat)
          /\ \A t \in Players : t # e.t => obs'.wr[t] = obs.wr[t]
      BY <3>1, <3>2
    <3> QED BY <3>1, <3>2, <3>3
  <2>d. CASE e.k = "write-fault"  BY <2>d DEF Refusal, Apply
  <2>e. CASE e.k = "stop_stream"  BY <2>e DEF Refusal, Apply
  <2>f. CASE e.k = "start_stream" BY <2>f DEF Refusal, Apply
  <2>g. CASE e.k = "close_stream" BY <2>g DEF Refusal, Apply
  <2>h. CASE e.k = "end"          BY <2>h DEF Refusal, Apply
  <2>i. CASE e.k = "terminate"
    <3>1. obs.term = 0 /\ obs.cl = "closing"
      BY <2>i DEF Refusal
    <3>2. obs' = [obs EXCEPT !.term = @ + 1]
      BY <2>i DEF Apply
    <3> QED BY <3>1, <3>2
  <2>j. CASE e.k = "call-stop"    BY <2>j DEF Refusal, Apply
  <2>k. CASE e.k = "call-close"   BY <2>k DEF Refusal, Apply
  <2>l. CASE e.k = "ret-close"    BY <2>l DEF Refusal, Apply
  <2>m. CASE e.k = "ret-play"     BY <2>m DEF Refusal, Apply
  <2> QED BY <2>a, <2>b, <2>c, <2>d, <2>e, <2>f, <2>g, <2>h, <2>i, <2>j, <2>k, <2>l, <2>m
<1> QED BY <1>1, <1>2

THEOREM Promise == ObsSpec => [](ObsComplete /\ ObsAfterClose /\ ObsTermOnce /\ InOrder)
<1>1. ObsSpec => []Inv
  BY InitInv, StepInv, PTL DEF ObsSpec
<1> QED BY <1>1, PTL DEF Inv
=============================================================================
