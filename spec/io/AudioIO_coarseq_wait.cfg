CONSTANTS
  NP = 2
  NChunks <- Chunks21
  MaxCtl = 2
  Wait = TRUE
  StopWakes = TRUE
  JoinAll = TRUE
  Faults = FALSE
  RunFinally = TRUE
INIT Init
NEXT CNext
INVARIANT InOrderOnce
INVARIANT Complete
INVARIANT NoWriteWhenNotOpen
INVARIANT TerminateAtMostOnce
INVARIANT AllClosed
INVARIANT TerminatedOnce
INVARIANT NoThreadAlive
INVARIANT PlayRaisesAfterClose
INVARIANT WaitsForAll
INVARIANT SecondCloseIsNoOp
INVARIANT StopIsPrompt
CHECK_DEADLOCK FALSE
