------------------------------ MODULE AudioIO ------------------------------
(***************************************************************************)
(* audiolazy.lazy_io.AudioIO / AudioThread  (property C17).                *)
(*                                                                         *)
(* PlusCal model with one label per access to state shared between threads *)
(* (DESIGN.md appendix A).  Processes: Main (the caller: an arbitrary      *)
(* bounded control history over play / pause / resume / stop, then close,  *)
(* then one more play that must raise) and one Player per AudioThread (the *)
(* `run` loop and its destructor-like step).                               *)
(*                                                                         *)
(* Labels are either VISIBLE (a call into threading / the audio backend:   *)
(* what the deterministic scheduler of the harness can interleave and what *)
(* recorded traces contain) or INVISIBLE (plain attribute reads/writes     *)
(* such as `halting`, `finished`, `self in _threads`).  `Next` is the fine *)
(* grained relation (every label is a scheduling point); `CNext` is the    *)
(* coarse one (a thread runs from one visible operation up to the next),   *)
(* which is exactly what the harness' scheduler realises.  Every coarse    *)
(* behaviour is a fine behaviour, so properties checked on `Spec` hold for *)
(* both.                                                                   *)
(*                                                                         *)
(* Variant switches document the two defects found on the pinned commit:   *)
(*   StopWakes = FALSE : stop() only clears `go`; a player blocked in      *)
(*                       go.wait() is never woken (close() hangs)          *)
(*   RunFinally = FALSE: an exception in the run loop (Faults) kills the   *)
(*                       thread before its destructor-like step: it stays  *)
(*                       registered and close() spins on it forever        *)
(*   JoinAll   = FALSE : close() joins only threads still registered, so   *)
(*                       it can return while a self-deregistered player    *)
(*                       has not ended yet.  TRUE: thread_finished() moves *)
(*                       the thread to `_finishing`, which close() joins   *)
(***************************************************************************)
EXTENDS Integers, Sequences, FiniteSets, TLC

CONSTANTS NP,          \* number of AudioThread objects that may be created
          NChunks,     \* sequence: chunks in the audio of player t
          MaxCtl,      \* control calls issued before close
          Wait,        \* AudioIO(wait=...)
          StopWakes,   \* variant: stop() wakes a paused player and run re-tests halting
          JoinAll,     \* variant: close() also joins players that deregistered themselves
          Faults,      \* fault model: a device write (or the audio iterable) may raise, once per player
          RunFinally   \* variant: run() performs its destructor-like step in a `finally` clause

Players == 1..NP
MainId  == 0

\* labels of a player that will test `halting` before it writes again: just after a write_stream call, and from
\* stop_stream to the test after go.wait() (not p2: `self.halting or not self.go.is_set()` has read halting already)
PastWrite == {"p1h", "p3", "p4", "p5", "p5h"}

(* --algorithm AudioIO {
variables
  mgrLock = -1, haltLock = -1,                 \* -1 free, else holder
  thrLock = [t \in Players |-> -1],
  go = [t \in Players |-> TRUE],               \* threading.Event (its flag)
  released = [t \in Players |-> FALSE],        \* a set() has notified the player blocked in go.wait(): Event.wait
                                               \* returns once notified even if the flag is cleared again before the
                                               \* waiter runs (threading.Condition semantics)
  halting = [t \in Players |-> FALSE],         \* AudioThread.halting
  finished = FALSE,                            \* AudioIO.finished
  threads = <<>>,                              \* AudioIO._threads
  finishing = <<>>,                            \* AudioIO._finishing (fixed variant): deregistered, maybe still alive
  started = [t \in Players |-> FALSE],
  alive = [t \in Players |-> FALSE],           \* OS thread exists and has not ended
  written = [t \in Players |-> <<>>],          \* chunk indices received by the device stream
  sstate = [t \in Players |-> "none"],         \* device stream: none / open / stopped / closed
  terminated = 0,                              \* PyAudio.terminate() calls
  badWrite = FALSE,                            \* a write reached a stream that was not open
  nctl = 0,
  closed = FALSE,                              \* close() has returned
  playRaised = FALSE,                          \* play() after close raised
  aliveAtClose = {},                           \* players alive when close() returned
  openAtClose = {},                            \* device streams not closed when close() returned
  faulted = [t \in Players |-> FALSE],         \* the player's run loop was left by an exception
  userStopped = [t \in Players |-> FALSE],     \* (ghost) the CALLER asked this player to stop (not close() itself)
  lateW = [t \in Players |-> 0],               \* (ghost) chunks written after the stop message was set
  noMore = [t \in Players |-> FALSE],          \* (ghost) the stop message came between a write and the next start_stream
  closes = 0;                                  \* completed close() calls

define {
  Started      == {t \in Players : started[t]}
  PausedForever == {t \in Started : ~go[t] /\ ~halting[t]}
}

macro Acquire(l, who) { await l = -1; l := who; }
macro Release(l) { l := -1; }

process (Main = MainId)
  variables tgt = 0, th = 0, tojoin = <<>>;
{
ctl:
  while (TRUE) {
    either {   \* ---- play(audio): create the next AudioThread
      await nctl < MaxCtl /\ \E t \in Players : ~started[t];
      tgt := CHOOSE t \in Players : ~started[t] /\ \A u \in Players : u < t => started[u];
      nctl := nctl + 1;
mp1:  Acquire(mgrLock, MainId);                                  \* with self.lock:
mp2:  if (finished) {                                    \*   if self.finished: raise
mpE:    Release(mgrLock); playRaised := TRUE;
      } else {
mp3:    sstate[tgt] := "open";                           \*   AudioThread(...): pa.open(output=True)
mp4:    threads := Append(threads, tgt);                 \*   self._threads.append(new_thread)
mp5:    started[tgt] := TRUE; alive[tgt] := TRUE;        \*   new_thread.start()
mp6:    Release(mgrLock);
      }
    } or {     \* ---- thread.pause()
      await nctl < MaxCtl /\ Started # {};
      with (t \in Started) { tgt := t };
      nctl := nctl + 1;
pa1:  Acquire(thrLock[tgt], MainId);
pa2:  go[tgt] := FALSE;                                  \* self.go.clear()
pa3:  Release(thrLock[tgt]);
    } or {     \* ---- thread.play()  (resume); also used, uncounted, to honour the wait=True assumption
      await Started # {} /\ (nctl < MaxCtl \/ (Wait /\ PausedForever # {}));
      if (nctl < MaxCtl) { with (t \in Started) { tgt := t }; nctl := nctl + 1; }
      else { with (t \in PausedForever) { tgt := t } };
re1:  Acquire(thrLock[tgt], MainId);
re2:  go[tgt] := TRUE;                                   \* self.go.set()
      if (pc[tgt] = "p5") { released[tgt] := TRUE };
re3:  Release(thrLock[tgt]);
    } or {     \* ---- thread.stop()
      await nctl < MaxCtl /\ Started # {};
      with (t \in Started) { tgt := t };
      nctl := nctl + 1;
st1:  Acquire(thrLock[tgt], MainId);
st2:  if (~halting[tgt]) { noMore[tgt] := pc[tgt] \in PastWrite };
      halting[tgt] := TRUE;                              \* self.halting = True
      userStopped[tgt] := TRUE;
st3:  if (StopWakes) { go[tgt] := TRUE; if (pc[tgt] = "p5") { released[tgt] := TRUE } }
      else { go[tgt] := FALSE };                         \* self.go.clear()  (fixed: set)
st4:  Release(thrLock[tgt]);
    } or {     \* ---- close()   (environment assumption for wait=True: nobody is left paused forever)
      await ~Wait \/ PausedForever = {};
c0:   Acquire(haltLock, MainId);                                 \* with self.halting:
c1:   if (~finished) {
        finished := TRUE;
c2:     Acquire(mgrLock, MainId);                                \* while True: with self.lock:
c3:     if (threads = <<>>) {                            \*   thread = self._threads[0] / IndexError
c3r:      Release(mgrLock);
          goto c8;
        } else {
          th := threads[1];
c3s:      Release(mgrLock);
        };
c4:     if (~Wait) {                                     \* if not self.wait: thread.stop()
cs1:      Acquire(thrLock[th], MainId);
cs2:      if (~halting[th]) { noMore[th] := pc[th] \in PastWrite };
          halting[th] := TRUE;
cs3:      if (StopWakes) { go[th] := TRUE; if (pc[th] = "p5") { released[th] := TRUE } }
          else { go[th] := FALSE };
cs4:      Release(thrLock[th]);
        };
c7:     await ~alive[th];                                \* thread.join()
        goto c2;
c8:     tojoin := IF JoinAll THEN finishing ELSE <<>>;   \* (fixed) for thread in list(self._finishing):
c8a:    if (tojoin # <<>>) {
          th := Head(tojoin); tojoin := Tail(tojoin);
c8j:      await ~alive[th];                              \*   thread.join()
          goto c8a;
        };
c9:     openAtClose := {t \in Started : sstate[t] # "closed"};   \* assert not self._pa._streams
        terminated := terminated + 1;                    \* self._pa.terminate()
      };
c10:  Release(haltLock);
      closed := TRUE;
      closes := closes + 1;
      aliveAtClose := {t \in Players : alive[t]};
      \* ---- afterwards: play must raise
ap1:  Acquire(mgrLock, MainId);
ap2:  if (finished) { playRaised := TRUE };
ap3:  Release(mgrLock);
      \* ---- and a second close() (what leaving the with-block after an explicit close() does) runs the same
      \* code: it finds `finished` set and does nothing
      if (closes < 2) { goto c0 } else { goto Fin };
    }
  };
Fin: skip;
}

process (Player \in Players)
  variables idx = 0;
{
p0: await alive[self];                                   \* run() begins
p1: while (idx < NChunks[self]) {                        \* for chunk in chunks(self.audio, ...):
p1w:  either {
        idx := idx + 1;
        if (sstate[self] # "open") { badWrite := TRUE };
        if (halting[self]) { lateW[self] := lateW[self] + 1 };
        written[self] := Append(written[self], idx);     \*   write_stream(st, chunk, ...)
      } or {                                             \*   ... raises (device error, audio iterable raising)
        await Faults /\ ~faulted[self];
        faulted[self] := TRUE;
        if (RunFinally) { goto p8 } else { goto p13 };   \*   as pinned: the thread dies, nothing is cleaned up
      };
p1h:  if (StopWakes /\ halting[self]) { goto p3 };       \*   (fixed) if self.halting or ...
p2:   if (go[self]) { goto p1 };                         \*   if not self.go.is_set():
p3:   sstate[self] := "stopped";                         \*     self.stream.stop_stream()
p4:   if (halting[self]) { goto p8 };                    \*     if self.halting: break
p5:   await go[self] \/ released[self];                  \*     self.go.wait()
      released[self] := FALSE;
p5h:  if (StopWakes /\ halting[self]) { goto p8 };       \*     (fixed) stopped while paused
p6:   sstate[self] := "open";                            \*     self.stream.start_stream()
    };
p8: Acquire(thrLock[self], self);                              \* with self.lock:
p9: if (\E i \in DOMAIN threads : threads[i] = self) {   \*   if self in self.device_manager._threads:
p9c:  sstate[self] := "closed";                          \*     self.stream.close()
p10:  Acquire(mgrLock, self);                                  \*     thread_finished: with self.lock:
p11:  threads := SelectSeq(threads, LAMBDA x : x # self);\*       self._threads.remove(thread)
p11b: if (JoinAll) {                                     \*       (fixed) remember it until it has really ended
        finishing := Append(SelectSeq(finishing, LAMBDA x : alive[x]), self);
      };
p11r: Release(mgrLock);
    };
p12: Release(thrLock[self]);
p13: alive[self] := FALSE;                               \* run() returns, the thread ends
}
} *)
\* BEGIN TRANSLATION
VARIABLES pc, mgrLock, haltLock, thrLock, go, released, halting, finished, 
          threads, finishing, started, alive, written, sstate, terminated, 
          badWrite, nctl, closed, playRaised, aliveAtClose, openAtClose, 
          faulted, userStopped, lateW, noMore, closes

(* define statement *)
Started      == {t \in Players : started[t]}
PausedForever == {t \in Started : ~go[t] /\ ~halting[t]}

VARIABLES tgt, th, tojoin, idx

vars == << pc, mgrLock, haltLock, thrLock, go, released, halting, finished, 
           threads, finishing, started, alive, written, sstate, terminated, 
           badWrite, nctl, closed, playRaised, aliveAtClose, openAtClose, 
           faulted, userStopped, lateW, noMore, closes, tgt, th, tojoin, idx
        >>

ProcSet == {MainId} \cup (Players)

Init == (* Global variables *)
        /\ mgrLock = -1
        /\ haltLock = -1
        /\ thrLock = [t \in Players |-> -1]
        /\ go = [t \in Players |-> TRUE]
        /\ released = [t \in Players |-> FALSE]
        /\ halting = [t \in Players |-> FALSE]
        /\ finished = FALSE
        /\ threads = <<>>
        /\ finishing = <<>>
        /\ started = [t \in Players |-> FALSE]
        /\ alive = [t \in Players |-> FALSE]
        /\ written = [t \in Players |-> <<>>]
        /\ sstate = [t \in Players |-> "none"]
        /\ terminated = 0
        /\ badWrite = FALSE
        /\ nctl = 0
        /\ closed = FALSE
        /\ playRaised = FALSE
        /\ aliveAtClose = {}
        /\ openAtClose = {}
        /\ faulted = [t \in Players |-> FALSE]
        /\ userStopped = [t \in Players |-> FALSE]
        /\ lateW = [t \in Players |-> 0]
        /\ noMore = [t \in Players |-> FALSE]
        /\ closes = 0
        (* Process Main *)
        /\ tgt = 0
        /\ th = 0
        /\ tojoin = <<>>
        (* Process Player *)
        /\ idx = [self \in Players |-> 0]
        /\ pc = [self \in ProcSet |-> CASE self = MainId -> "ctl"
                                        [] self \in Players -> "p0"]

ctl == /\ pc[MainId] = "ctl"
       /\ \/ /\ nctl < MaxCtl /\ \E t \in Players : ~started[t]
             /\ tgt' = (CHOOSE t \in Players : ~started[t] /\ \A u \in Players : u < t => started[u])
             /\ nctl' = nctl + 1
             /\ pc' = [pc EXCEPT ![MainId] = "mp1"]
          \/ /\ nctl < MaxCtl /\ Started # {}
             /\ \E t \in Started:
                  tgt' = t
             /\ nctl' = nctl + 1
             /\ pc' = [pc EXCEPT ![MainId] = "pa1"]
          \/ /\ Started # {} /\ (nctl < MaxCtl \/ (Wait /\ PausedForever # {}))
             /\ IF nctl < MaxCtl
                   THEN /\ \E t \in Started:
                             tgt' = t
                        /\ nctl' = nctl + 1
                   ELSE /\ \E t \in PausedForever:
                             tgt' = t
                        /\ nctl' = nctl
             /\ pc' = [pc EXCEPT ![MainId] = "re1"]
          \/ /\ nctl < MaxCtl /\ Started # {}
             /\ \E t \in Started:
                  tgt' = t
             /\ nctl' = nctl + 1
             /\ pc' = [pc EXCEPT ![MainId] = "st1"]
          \/ /\ ~Wait \/ PausedForever = {}
             /\ pc' = [pc EXCEPT ![MainId] = "c0"]
             /\ UNCHANGED <<nctl, tgt>>
       /\ UNCHANGED << mgrLock, haltLock, thrLock, go, released, halting, 
                       finished, threads, finishing, started, alive, written, 
                       sstate, terminated, badWrite, closed, playRaised, 
                       aliveAtClose, openAtClose, faulted, userStopped, lateW, 
                       noMore, closes, th, tojoin, idx >>

mp1 == /\ pc[MainId] = "mp1"
       /\ mgrLock = -1
       /\ mgrLock' = MainId
       /\ pc' = [pc EXCEPT ![MainId] = "mp2"]
       /\ UNCHANGED << haltLock, thrLock, go, released, halting, finished, 
                       threads, finishing, started, alive, written, sstate, 
                       terminated, badWrite, nctl, closed, playRaised, 
                       aliveAtClose, openAtClose, faulted, userStopped, lateW, 
                       noMore, closes, tgt, th, tojoin, idx >>

mp2 == /\ pc[MainId] = "mp2"
       /\ IF finished
             THEN /\ pc' = [pc EXCEPT ![MainId] = "mpE"]
             ELSE /\ pc' = [pc EXCEPT ![MainId] = "mp3"]
       /\ UNCHANGED << mgrLock, haltLock, thrLock, go, released, halting, 
                       finished, threads, finishing, started, alive, written, 
                       sstate, terminated, badWrite, nctl, closed, playRaised, 
                       aliveAtClose, openAtClose, faulted, userStopped, lateW, 
                       noMore, closes, tgt, th, tojoin, idx >>

mpE == /\ pc[MainId] = "mpE"
       /\ mgrLock' = -1
       /\ playRaised' = TRUE
       /\ pc' = [pc EXCEPT ![MainId] = "ctl"]
       /\ UNCHANGED << haltLock, thrLock, go, released, halting, finished, 
                       threads, finishing, started, alive, written, sstate, 
                       terminated, badWrite, nctl, closed, aliveAtClose, 
                       openAtClose, faulted, userStopped, lateW, noMore, 
                       closes, tgt, th, tojoin, idx >>

mp3 == /\ pc[MainId] = "mp3"
       /\ sstate' = [sstate EXCEPT ![tgt] = "open"]
       /\ pc' = [pc EXCEPT ![MainId] = "mp4"]
       /\ UNCHANGED << mgrLock, haltLock, thrLock, go, released, halting, 
                       finished, threads, finishing, started, alive, written, 
                       terminated, badWrite, nctl, closed, playRaised, 
                       aliveAtClose, openAtClose, faulted, userStopped, lateW, 
                       noMore, closes, tgt, th, tojoin, idx >>

mp4 == /\ pc[MainId] = "mp4"
       /\ threads' = Append(threads, tgt)
       /\ pc' = [pc EXCEPT ![MainId] = "mp5"]
       /\ UNCHANGED << mgrLock, haltLock, thrLock, go, released, halting, 
                       finished, finishing, started, alive, written, sstate, 
                       terminated, badWrite, nctl, closed, playRaised, 
                       aliveAtClose, openAtClose, faulted, userStopped, lateW, 
                       noMore, closes, tgt, th, tojoin, idx >>

mp5 == /\ pc[MainId] = "mp5"
       /\ started' = [started EXCEPT ![tgt] = TRUE]
       /\ alive' = [alive EXCEPT ![tgt] = TRUE]
       /\ pc' = [pc EXCEPT ![MainId] = "mp6"]
       /\ UNCHANGED << mgrLock, haltLock, thrLock, go, released, halting, 
                       finished, threads, finishing, written, sstate, 
                       terminated, badWrite, nctl, closed, playRaised, 
                       aliveAtClose, openAtClose, faulted, userStopped, lateW, 
                       noMore, closes, tgt, th, tojoin, idx >>

mp6 == /\ pc[MainId] = "mp6"
       /\ mgrLock' = -1
       /\ pc' = [pc EXCEPT ![MainId] = "ctl"]
       /\ UNCHANGED << haltLock, thrLock, go, released, halting, finished, 
                       threads, finishing, started, alive, written, sstate, 
                       terminated, badWrite, nctl, closed, playRaised, 
                       aliveAtClose, openAtClose, faulted, userStopped, lateW, 
                       noMore, closes, tgt, th, tojoin, idx >>

pa1 == /\ pc[MainId] = "pa1"
       /\ (thrLock[tgt]) = -1
       /\ thrLock' = [thrLock EXCEPT ![tgt] = MainId]
       /\ pc' = [pc EXCEPT ![MainId] = "pa2"]
       /\ UNCHANGED << mgrLock, haltLock, go, released, halting, finished, 
                       threads, finishing, started, alive, written, sstate, 
                       terminated, badWrite, nctl, closed, playRaised, 
                       aliveAtClose, openAtClose, faulted, userStopped, lateW, 
                       noMore, closes, tgt, th, tojoin, idx >>

pa2 == /\ pc[MainId] = "pa2"
       /\ go' = [go EXCEPT ![tgt] = FALSE]
       /\ pc' = [pc EXCEPT ![MainId] = "pa3"]
       /\ UNCHANGED << mgrLock, haltLock, thrLock, released, halting, finished, 
                       threads, finishing, started, alive, written, sstate, 
                       terminated, badWrite, nctl, closed, playRaised, 
                       aliveAtClose, openAtClose, faulted, userStopped, lateW, 
                       noMore, closes, tgt, th, tojoin, idx >>

pa3 == /\ pc[MainId] = "pa3"
       /\ thrLock' = [thrLock EXCEPT ![tgt] = -1]
       /\ pc' = [pc EXCEPT ![MainId] = "ctl"]
       /\ UNCHANGED << mgrLock, haltLock, go, released, halting, finished, 
                       threads, finishing, started, alive, written, sstate, 
                       terminated, badWrite, nctl, closed, playRaised, 
                       aliveAtClose, openAtClose, faulted, userStopped, lateW, 
                       noMore, closes, tgt, th, tojoin, idx >>

re1 == /\ pc[MainId] = "re1"
       /\ (thrLock[tgt]) = -1
       /\ thrLock' = [thrLock EXCEPT ![tgt] = MainId]
       /\ pc' = [pc EXCEPT ![MainId] = "re2"]
       /\ UNCHANGED << mgrLock, haltLock, go, released, halting, finished, 
                       threads, finishing, started, alive, written, sstate, 
                       terminated, badWrite, nctl, closed, playRaised, 
                       aliveAtClose, openAtClose, faulted, userStopped, lateW, 
                       noMore, closes, tgt, th, tojoin, idx >>

re2 == /\ pc[MainId] = "re2"
       /\ go' = [go EXCEPT ![tgt] = TRUE]
       /\ IF pc[tgt] = "p5"
             THEN /\ released' = [released EXCEPT ![tgt] = TRUE]
             ELSE /\ TRUE
                  /\ UNCHANGED released
       /\ pc' = [pc EXCEPT ![MainId] = "re3"]
       /\ UNCHANGED << mgrLock, haltLock, thrLock, halting, finished, threads, 
                       finishing, started, alive, written, sstate, terminated, 
                       badWrite, nctl, closed, playRaised, aliveAtClose, 
                       openAtClose, faulted, userStopped, lateW, noMore, 
                       closes, tgt, th, tojoin, idx >>

re3 == /\ pc[MainId] = "re3"
       /\ thrLock' = [thrLock EXCEPT ![tgt] = -1]
       /\ pc' = [pc EXCEPT ![MainId] = "ctl"]
       /\ UNCHANGED << mgrLock, haltLock, go, released, halting, finished, 
                       threads, finishing, started, alive, written, sstate, 
                       terminated, badWrite, nctl, closed, playRaised, 
                       aliveAtClose, openAtClose, faulted, userStopped, lateW, 
                       noMore, closes, tgt, th, tojoin, idx >>

st1 == /\ pc[MainId] = "st1"
       /\ (thrLock[tgt]) = -1
       /\ thrLock' = [thrLock EXCEPT ![tgt] = MainId]
       /\ pc' = [pc EXCEPT ![MainId] = "st2"]
       /\ UNCHANGED << mgrLock, haltLock, go, released, halting, finished, 
                       threads, finishing, started, alive, written, sstate, 
                       terminated, badWrite, nctl, closed, playRaised, 
                       aliveAtClose, openAtClose, faulted, userStopped, lateW, 
                       noMore, closes, tgt, th, tojoin, idx >>

st2 == /\ pc[MainId] = "st2"
       /\ IF ~halting[tgt]
             THEN /\ noMore' = [noMore EXCEPT ![tgt] = pc[tgt] \in PastWrite]
             ELSE /\ TRUE
                  /\ UNCHANGED noMore
       /\ halting' = [halting EXCEPT ![tgt] = TRUE]
       /\ userStopped' = [userStopped EXCEPT ![tgt] = TRUE]
       /\ pc' = [pc EXCEPT ![MainId] = "st3"]
       /\ UNCHANGED << mgrLock, haltLock, thrLock, go, released, finished, 
                       threads, finishing, started, alive, written, sstate, 
                       terminated, badWrite, nctl, closed, playRaised, 
                       aliveAtClose, openAtClose, faulted, lateW, closes, tgt, 
                       th, tojoin, idx >>

st3 == /\ pc[MainId] = "st3"
       /\ IF StopWakes
             THEN /\ go' = [go EXCEPT ![tgt] = TRUE]
                  /\ IF pc[tgt] = "p5"
                        THEN /\ released' = [released EXCEPT ![tgt] = TRUE]
                        ELSE /\ TRUE
                             /\ UNCHANGED released
             ELSE /\ go' = [go EXCEPT ![tgt] = FALSE]
                  /\ UNCHANGED released
       /\ pc' = [pc EXCEPT ![MainId] = "st4"]
       /\ UNCHANGED << mgrLock, haltLock, thrLock, halting, finished, threads, 
                       finishing, started, alive, written, sstate, terminated, 
                       badWrite, nctl, closed, playRaised, aliveAtClose, 
                       openAtClose, faulted, userStopped, lateW, noMore, 
                       closes, tgt, th, tojoin, idx >>

st4 == /\ pc[MainId] = "st4"
       /\ thrLock' = [thrLock EXCEPT ![tgt] = -1]
       /\ pc' = [pc EXCEPT ![MainId] = "ctl"]
       /\ UNCHANGED << mgrLock, haltLock, go, released, halting, finished, 
                       threads, finishing, started, alive, written, sstate, 
                       terminated, badWrite, nctl, closed, playRaised, 
                       aliveAtClose, openAtClose, faulted, userStopped, lateW, 
                       noMore, closes, tgt, th, tojoin, idx >>

c0 == /\ pc[MainId] = "c0"
      /\ haltLock = -1
      /\ haltLock' = MainId
      /\ pc' = [pc EXCEPT ![MainId] = "c1"]
      /\ UNCHANGED << mgrLock, thrLock, go, released, halting, finished, 
                      threads, finishing, started, alive, written, sstate, 
                      terminated, badWrite, nctl, closed, playRaised, 
                      aliveAtClose, openAtClose, faulted, userStopped, lateW, 
                      noMore, closes, tgt, th, tojoin, idx >>

c1 == /\ pc[MainId] = "c1"
      /\ IF ~finished
            THEN /\ finished' = TRUE
                 /\ pc' = [pc EXCEPT ![MainId] = "c2"]
            ELSE /\ pc' = [pc EXCEPT ![MainId] = "c10"]
                 /\ UNCHANGED finished
      /\ UNCHANGED << mgrLock, haltLock, thrLock, go, released, halting, 
                      threads, finishing, started, alive, written, sstate, 
                      terminated, badWrite, nctl, closed, playRaised, 
                      aliveAtClose, openAtClose, faulted, userStopped, lateW, 
                      noMore, closes, tgt, th, tojoin, idx >>

c2 == /\ pc[MainId] = "c2"
      /\ mgrLock = -1
      /\ mgrLock' = MainId
      /\ pc' = [pc EXCEPT ![MainId] = "c3"]
      /\ UNCHANGED << haltLock, thrLock, go, released, halting, finished, 
                      threads, finishing, started, alive, written, sstate, 
                      terminated, badWrite, nctl, closed, playRaised, 
                      aliveAtClose, openAtClose, faulted, userStopped, lateW, 
                      noMore, closes, tgt, th, tojoin, idx >>

c3 == /\ pc[MainId] = "c3"
      /\ IF threads = <<>>
            THEN /\ pc' = [pc EXCEPT ![MainId] = "c3r"]
                 /\ th' = th
            ELSE /\ th' = threads[1]
                 /\ pc' = [pc EXCEPT ![MainId] = "c3s"]
      /\ UNCHANGED << mgrLock, haltLock, thrLock, go, released, halting, 
                      finished, threads, finishing, started, alive, written, 
                      sstate, terminated, badWrite, nctl, closed, playRaised, 
                      aliveAtClose, openAtClose, faulted, userStopped, lateW, 
                      noMore, closes, tgt, tojoin, idx >>

c3r == /\ pc[MainId] = "c3r"
       /\ mgrLock' = -1
       /\ pc' = [pc EXCEPT ![MainId] = "c8"]
       /\ UNCHANGED << haltLock, thrLock, go, released, halting, finished, 
                       threads, finishing, started, alive, written, sstate, 
                       terminated, badWrite, nctl, closed, playRaised, 
                       aliveAtClose, openAtClose, faulted, userStopped, lateW, 
                       noMore, closes, tgt, th, tojoin, idx >>

c3s == /\ pc[MainId] = "c3s"
       /\ mgrLock' = -1
       /\ pc' = [pc EXCEPT ![MainId] = "c4"]
       /\ UNCHANGED << haltLock, thrLock, go, released, halting, finished, 
                       threads, finishing, started, alive, written, sstate, 
                       terminated, badWrite, nctl, closed, playRaised, 
                       aliveAtClose, openAtClose, faulted, userStopped, lateW, 
                       noMore, closes, tgt, th, tojoin, idx >>

c4 == /\ pc[MainId] = "c4"
      /\ IF ~Wait
            THEN /\ pc' = [pc EXCEPT ![MainId] = "cs1"]
            ELSE /\ pc' = [pc EXCEPT ![MainId] = "c7"]
      /\ UNCHANGED << mgrLock, haltLock, thrLock, go, released, halting, 
                      finished, threads, finishing, started, alive, written, 
                      sstate, terminated, badWrite, nctl, closed, playRaised, 
                      aliveAtClose, openAtClose, faulted, userStopped, lateW, 
                      noMore, closes, tgt, th, tojoin, idx >>

cs1 == /\ pc[MainId] = "cs1"
       /\ (thrLock[th]) = -1
       /\ thrLock' = [thrLock EXCEPT ![th] = MainId]
       /\ pc' = [pc EXCEPT ![MainId] = "cs2"]
       /\ UNCHANGED << mgrLock, haltLock, go, released, halting, finished, 
                       threads, finishing, started, alive, written, sstate, 
                       terminated, badWrite, nctl, closed, playRaised, 
                       aliveAtClose, openAtClose, faulted, userStopped, lateW, 
                       noMore, closes, tgt, th, tojoin, idx >>

cs2 == /\ pc[MainId] = "cs2"
       /\ IF ~halting[th]
             THEN /\ noMore' = [noMore EXCEPT ![th] = pc[th] \in PastWrite]
             ELSE /\ TRUE
                  /\ UNCHANGED noMore
       /\ halting' = [halting EXCEPT ![th] = TRUE]
       /\ pc' = [pc EXCEPT ![MainId] = "cs3"]
       /\ UNCHANGED << mgrLock, haltLock, thrLock, go, released, finished, 
                       threads, finishing, started, alive, written, sstate, 
                       terminated, badWrite, nctl, closed, playRaised, 
                       aliveAtClose, openAtClose, faulted, userStopped, lateW, 
                       closes, tgt, th, tojoin, idx >>

cs3 == /\ pc[MainId] = "cs3"
       /\ IF StopWakes
             THEN /\ go' = [go EXCEPT ![th] = TRUE]
                  /\ IF pc[th] = "p5"
                        THEN /\ released' = [released EXCEPT ![th] = TRUE]
                        ELSE /\ TRUE
                             /\ UNCHANGED released
             ELSE /\ go' = [go EXCEPT ![th] = FALSE]
                  /\ UNCHANGED released
       /\ pc' = [pc EXCEPT ![MainId] = "cs4"]
       /\ UNCHANGED << mgrLock, haltLock, thrLock, halting, finished, threads, 
                       finishing, started, alive, written, sstate, terminated, 
                       badWrite, nctl, closed, playRaised, aliveAtClose, 
                       openAtClose, faulted, userStopped, lateW, noMore, 
                       closes, tgt, th, tojoin, idx >>

cs4 == /\ pc[MainId] = "cs4"
       /\ thrLock' = [thrLock EXCEPT ![th] = -1]
       /\ pc' = [pc EXCEPT ![MainId] = "c7"]
       /\ UNCHANGED << mgrLock, haltLock, go, released, halting, finished, 
                       threads, finishing, started, alive, written, sstate, 
                       terminated, badWrite, nctl, closed, playRaised, 
                       aliveAtClose, openAtClose, faulted, userStopped, lateW, 
                       noMore, closes, tgt, th, tojoin, idx >>

c7 == /\ pc[MainId] = "c7"
      /\ ~alive[th]
      /\ pc' = [pc EXCEPT ![MainId] = "c2"]
      /\ UNCHANGED << mgrLock, haltLock, thrLock, go, released, halting, 
                      finished, threads, finishing, started, alive, written, 
                      sstate, terminated, badWrite, nctl, closed, playRaised, 
                      aliveAtClose, openAtClose, faulted, userStopped, lateW, 
                      noMore, closes, tgt, th, tojoin, idx >>

c8 == /\ pc[MainId] = "c8"
      /\ tojoin' = IF JoinAll THEN finishing ELSE <<>>
      /\ pc' = [pc EXCEPT ![MainId] = "c8a"]
      /\ UNCHANGED << mgrLock, haltLock, thrLock, go, released, halting, 
                      finished, threads, finishing, started, alive, written, 
                      sstate, terminated, badWrite, nctl, closed, playRaised, 
                      aliveAtClose, openAtClose, faulted, userStopped, lateW, 
                      noMore, closes, tgt, th, idx >>

c8a == /\ pc[MainId] = "c8a"
       /\ IF tojoin # <<>>
             THEN /\ th' = Head(tojoin)
                  /\ tojoin' = Tail(tojoin)
                  /\ pc' = [pc EXCEPT ![MainId] = "c8j"]
             ELSE /\ pc' = [pc EXCEPT ![MainId] = "c9"]
                  /\ UNCHANGED << th, tojoin >>
       /\ UNCHANGED << mgrLock, haltLock, thrLock, go, released, halting, 
                       finished, threads, finishing, started, alive, written, 
                       sstate, terminated, badWrite, nctl, closed, playRaised, 
                       aliveAtClose, openAtClose, faulted, userStopped, lateW, 
                       noMore, closes, tgt, idx >>

c8j == /\ pc[MainId] = "c8j"
       /\ ~alive[th]
       /\ pc' = [pc EXCEPT ![MainId] = "c8a"]
       /\ UNCHANGED << mgrLock, haltLock, thrLock, go, released, halting, 
                       finished, threads, finishing, started, alive, written, 
                       sstate, terminated, badWrite, nctl, closed, playRaised, 
                       aliveAtClose, openAtClose, faulted, userStopped, lateW, 
                       noMore, closes, tgt, th, tojoin, idx >>

c9 == /\ pc[MainId] = "c9"
      /\ openAtClose' = {t \in Started : sstate[t] # "closed"}
      /\ terminated' = terminated + 1
      /\ pc' = [pc EXCEPT ![MainId] = "c10"]
      /\ UNCHANGED << mgrLock, haltLock, thrLock, go, released, halting, 
                      finished, threads, finishing, started, alive, written, 
                      sstate, badWrite, nctl, closed, playRaised, aliveAtClose, 
                      faulted, userStopped, lateW, noMore, closes, tgt, th, 
                      tojoin, idx >>

c10 == /\ pc[MainId] = "c10"
       /\ haltLock' = -1
       /\ closed' = TRUE
       /\ closes' = closes + 1
       /\ aliveAtClose' = {t \in Players : alive[t]}
       /\ pc' = [pc EXCEPT ![MainId] = "ap1"]
       /\ UNCHANGED << mgrLock, thrLock, go, released, halting, finished, 
                       threads, finishing, started, alive, written, sstate, 
                       terminated, badWrite, nctl, playRaised, openAtClose, 
                       faulted, userStopped, lateW, noMore, tgt, th, tojoin, 
                       idx >>

ap1 == /\ pc[MainId] = "ap1"
       /\ mgrLock = -1
       /\ mgrLock' = MainId
       /\ pc' = [pc EXCEPT ![MainId] = "ap2"]
       /\ UNCHANGED << haltLock, thrLock, go, released, halting, finished, 
                       threads, finishing, started, alive, written, sstate, 
                       terminated, badWrite, nctl, closed, playRaised, 
                       aliveAtClose, openAtClose, faulted, userStopped, lateW, 
                       noMore, closes, tgt, th, tojoin, idx >>

ap2 == /\ pc[MainId] = "ap2"
       /\ IF finished
             THEN /\ playRaised' = TRUE
             ELSE /\ TRUE
                  /\ UNCHANGED playRaised
       /\ pc' = [pc EXCEPT ![MainId] = "ap3"]
       /\ UNCHANGED << mgrLock, haltLock, thrLock, go, released, halting, 
                       finished, threads, finishing, started, alive, written, 
                       sstate, terminated, badWrite, nctl, closed, 
                       aliveAtClose, openAtClose, faulted, userStopped, lateW, 
                       noMore, closes, tgt, th, tojoin, idx >>

ap3 == /\ pc[MainId] = "ap3"
       /\ mgrLock' = -1
       /\ IF closes < 2
             THEN /\ pc' = [pc EXCEPT ![MainId] = "c0"]
             ELSE /\ pc' = [pc EXCEPT ![MainId] = "Fin"]
       /\ UNCHANGED << haltLock, thrLock, go, released, halting, finished, 
                       threads, finishing, started, alive, written, sstate, 
                       terminated, badWrite, nctl, closed, playRaised, 
                       aliveAtClose, openAtClose, faulted, userStopped, lateW, 
                       noMore, closes, tgt, th, tojoin, idx >>

Fin == /\ pc[MainId] = "Fin"
       /\ TRUE
       /\ pc' = [pc EXCEPT ![MainId] = "Done"]
       /\ UNCHANGED << mgrLock, haltLock, thrLock, go, released, halting, 
                       finished, threads, finishing, started, alive, written, 
                       sstate, terminated, badWrite, nctl, closed, playRaised, 
                       aliveAtClose, openAtClose, faulted, userStopped, lateW, 
                       noMore, closes, tgt, th, tojoin, idx >>

Main == ctl \/ mp1 \/ mp2 \/ mpE \/ mp3 \/ mp4 \/ mp5 \/ mp6 \/ pa1 \/ pa2
           \/ pa3 \/ re1 \/ re2 \/ re3 \/ st1 \/ st2 \/ st3 \/ st4 \/ c0
           \/ c1 \/ c2 \/ c3 \/ c3r \/ c3s \/ c4 \/ cs1 \/ cs2 \/ cs3
           \/ cs4 \/ c7 \/ c8 \/ c8a \/ c8j \/ c9 \/ c10 \/ ap1 \/ ap2
           \/ ap3 \/ Fin

p0(self) == /\ pc[self] = "p0"
            /\ alive[self]
            /\ pc' = [pc EXCEPT ![self] = "p1"]
            /\ UNCHANGED << mgrLock, haltLock, thrLock, go, released, halting, 
                            finished, threads, finishing, started, alive, 
                            written, sstate, terminated, badWrite, nctl, 
                            closed, playRaised, aliveAtClose, openAtClose, 
                            faulted, userStopped, lateW, noMore, closes, tgt, 
                            th, tojoin, idx >>

p1(self) == /\ pc[self] = "p1"
            /\ IF idx[self] < NChunks[self]
                  THEN /\ pc' = [pc EXCEPT ![self] = "p1w"]
                  ELSE /\ pc' = [pc EXCEPT ![self] = "p8"]
            /\ UNCHANGED << mgrLock, haltLock, thrLock, go, released, halting, 
                            finished, threads, finishing, started, alive, 
                            written, sstate, terminated, badWrite, nctl, 
                            closed, playRaised, aliveAtClose, openAtClose, 
                            faulted, userStopped, lateW, noMore, closes, tgt, 
                            th, tojoin, idx >>

p1w(self) == /\ pc[self] = "p1w"
             /\ \/ /\ idx' = [idx EXCEPT ![self] = idx[self] + 1]
                   /\ IF sstate[self] # "open"
                         THEN /\ badWrite' = TRUE
                         ELSE /\ TRUE
                              /\ UNCHANGED badWrite
                   /\ IF halting[self]
                         THEN /\ lateW' = [lateW EXCEPT ![self] = lateW[self] + 1]
                         ELSE /\ TRUE
                              /\ lateW' = lateW
                   /\ written' = [written EXCEPT ![self] = Append(written[self], idx'[self])]
                   /\ pc' = [pc EXCEPT ![self] = "p1h"]
                   /\ UNCHANGED faulted
                \/ /\ Faults /\ ~faulted[self]
                   /\ faulted' = [faulted EXCEPT ![self] = TRUE]
                   /\ IF RunFinally
                         THEN /\ pc' = [pc EXCEPT ![self] = "p8"]
                         ELSE /\ pc' = [pc EXCEPT ![self] = "p13"]
                   /\ UNCHANGED <<written, badWrite, lateW, idx>>
             /\ UNCHANGED << mgrLock, haltLock, thrLock, go, released, halting, 
                             finished, threads, finishing, started, alive, 
                             sstate, terminated, nctl, closed, playRaised, 
                             aliveAtClose, openAtClose, userStopped, noMore, 
                             closes, tgt, th, tojoin >>

p1h(self) == /\ pc[self] = "p1h"
             /\ IF StopWakes /\ halting[self]
                   THEN /\ pc' = [pc EXCEPT ![self] = "p3"]
                   ELSE /\ pc' = [pc EXCEPT ![self] = "p2"]
             /\ UNCHANGED << mgrLock, haltLock, thrLock, go, released, halting, 
                             finished, threads, finishing, started, alive, 
                             written, sstate, terminated, badWrite, nctl, 
                             closed, playRaised, aliveAtClose, openAtClose, 
                             faulted, userStopped, lateW, noMore, closes, tgt, 
                             th, tojoin, idx >>

p2(self) == /\ pc[self] = "p2"
            /\ IF go[self]
                  THEN /\ pc' = [pc EXCEPT ![self] = "p1"]
                  ELSE /\ pc' = [pc EXCEPT ![self] = "p3"]
            /\ UNCHANGED << mgrLock, haltLock, thrLock, go, released, halting, 
                            finished, threads, finishing, started, alive, 
                            written, sstate, terminated, badWrite, nctl, 
                            closed, playRaised, aliveAtClose, openAtClose, 
                            faulted, userStopped, lateW, noMore, closes, tgt, 
                            th, tojoin, idx >>

p3(self) == /\ pc[self] = "p3"
            /\ sstate' = [sstate EXCEPT ![self] = "stopped"]
            /\ pc' = [pc EXCEPT ![self] = "p4"]
            /\ UNCHANGED << mgrLock, haltLock, thrLock, go, released, halting, 
                            finished, threads, finishing, started, alive, 
                            written, terminated, badWrite, nctl, closed, 
                            playRaised, aliveAtClose, openAtClose, faulted, 
                            userStopped, lateW, noMore, closes, tgt, th, 
                            tojoin, idx >>

p4(self) == /\ pc[self] = "p4"
            /\ IF halting[self]
                  THEN /\ pc' = [pc EXCEPT ![self] = "p8"]
                  ELSE /\ pc' = [pc EXCEPT ![self] = "p5"]
            /\ UNCHANGED << mgrLock, haltLock, thrLock, go, released, halting, 
                            finished, threads, finishing, started, alive, 
                            written, sstate, terminated, badWrite, nctl, 
                            closed, playRaised, aliveAtClose, openAtClose, 
                            faulted, userStopped, lateW, noMore, closes, tgt, 
                            th, tojoin, idx >>

p5(self) == /\ pc[self] = "p5"
            /\ go[self] \/ released[self]
            /\ released' = [released EXCEPT ![self] = FALSE]
            /\ pc' = [pc EXCEPT ![self] = "p5h"]
            /\ UNCHANGED << mgrLock, haltLock, thrLock, go, halting, finished, 
                            threads, finishing, started, alive, written, 
                            sstate, terminated, badWrite, nctl, closed, 
                            playRaised, aliveAtClose, openAtClose, faulted, 
                            userStopped, lateW, noMore, closes, tgt, th, 
                            tojoin, idx >>

p5h(self) == /\ pc[self] = "p5h"
             /\ IF StopWakes /\ halting[self]
                   THEN /\ pc' = [pc EXCEPT ![self] = "p8"]
                   ELSE /\ pc' = [pc EXCEPT ![self] = "p6"]
             /\ UNCHANGED << mgrLock, haltLock, thrLock, go, released, halting, 
                             finished, threads, finishing, started, alive, 
                             written, sstate, terminated, badWrite, nctl, 
                             closed, playRaised, aliveAtClose, openAtClose, 
                             faulted, userStopped, lateW, noMore, closes, tgt, 
                             th, tojoin, idx >>

p6(self) == /\ pc[self] = "p6"
            /\ sstate' = [sstate EXCEPT ![self] = "open"]
            /\ pc' = [pc EXCEPT ![self] = "p1"]
            /\ UNCHANGED << mgrLock, haltLock, thrLock, go, released, halting, 
                            finished, threads, finishing, started, alive, 
                            written, terminated, badWrite, nctl, closed, 
                            playRaised, aliveAtClose, openAtClose, faulted, 
                            userStopped, lateW, noMore, closes, tgt, th, 
                            tojoin, idx >>

p8(self) == /\ pc[self] = "p8"
            /\ (thrLock[self]) = -1
            /\ thrLock' = [thrLock EXCEPT ![self] = self]
            /\ pc' = [pc EXCEPT ![self] = "p9"]
            /\ UNCHANGED << mgrLock, haltLock, go, released, halting, finished, 
                            threads, finishing, started, alive, written, 
                            sstate, terminated, badWrite, nctl, closed, 
                            playRaised, aliveAtClose, openAtClose, faulted, 
                            userStopped, lateW, noMore, closes, tgt, th, 
                            tojoin, idx >>

p9(self) == /\ pc[self] = "p9"
            /\ IF \E i \in DOMAIN threads : threads[i] = self
                  THEN /\ pc' = [pc EXCEPT ![self] = "p9c"]
                  ELSE /\ pc' = [pc EXCEPT ![self] = "p12"]
            /\ UNCHANGED << mgrLock, haltLock, thrLock, go, released, halting, 
                            finished, threads, finishing, started, alive, 
                            written, sstate, terminated, badWrite, nctl, 
                            closed, playRaised, aliveAtClose, openAtClose, 
                            faulted, userStopped, lateW, noMore, closes, tgt, 
                            th, tojoin, idx >>

p9c(self) == /\ pc[self] = "p9c"
             /\ sstate' = [sstate EXCEPT ![self] = "closed"]
             /\ pc' = [pc EXCEPT ![self] = "p10"]
             /\ UNCHANGED << mgrLock, haltLock, thrLock, go, released, halting, 
                             finished, threads, finishing, started, alive, 
                             written, terminated, badWrite, nctl, closed, 
                             playRaised, aliveAtClose, openAtClose, faulted, 
                             userStopped, lateW, noMore, closes, tgt, th, 
                             tojoin, idx >>

p10(self) == /\ pc[self] = "p10"
             /\ mgrLock = -1
             /\ mgrLock' = self
             /\ pc' = [pc EXCEPT ![self] = "p11"]
             /\ UNCHANGED << haltLock, thrLock, go, released, halting, 
                             finished, threads, finishing, started, alive, 
                             written, sstate, terminated, badWrite, nctl, 
                             closed, playRaised, aliveAtClose, openAtClose, 
                             faulted, userStopped, lateW, noMore, closes, tgt, 
                             th, tojoin, idx >>

p11(self) == /\ pc[self] = "p11"
             /\ threads' = SelectSeq(threads, LAMBDA x : x # self)
             /\ pc' = [pc EXCEPT ![self] = "p11b"]
             /\ UNCHANGED << mgrLock, haltLock, thrLock, go, released, halting, 
                             finished, finishing, started, alive, written, 
                             sstate, terminated, badWrite, nctl, closed, 
                             playRaised, aliveAtClose, openAtClose, faulted, 
                             userStopped, lateW, noMore, closes, tgt, th, 
                             tojoin, idx >>

p11b(self) == /\ pc[self] = "p11b"
              /\ IF JoinAll
                    THEN /\ finishing' = Append(SelectSeq(finishing, LAMBDA x : alive[x]), self)
                    ELSE /\ TRUE
                         /\ UNCHANGED finishing
              /\ pc' = [pc EXCEPT ![self] = "p11r"]
              /\ UNCHANGED << mgrLock, haltLock, thrLock, go, released, 
                              halting, finished, threads, started, alive, 
                              written, sstate, terminated, badWrite, nctl, 
                              closed, playRaised, aliveAtClose, openAtClose, 
                              faulted, userStopped, lateW, noMore, closes, tgt, 
                              th, tojoin, idx >>

p11r(self) == /\ pc[self] = "p11r"
              /\ mgrLock' = -1
              /\ pc' = [pc EXCEPT ![self] = "p12"]
              /\ UNCHANGED << haltLock, thrLock, go, released, halting, 
                              finished, threads, finishing, started, alive, 
                              written, sstate, terminated, badWrite, nctl, 
                              closed, playRaised, aliveAtClose, openAtClose, 
                              faulted, userStopped, lateW, noMore, closes, tgt, 
                              th, tojoin, idx >>

p12(self) == /\ pc[self] = "p12"
             /\ thrLock' = [thrLock EXCEPT ![self] = -1]
             /\ pc' = [pc EXCEPT ![self] = "p13"]
             /\ UNCHANGED << mgrLock, haltLock, go, released, halting, 
                             finished, threads, finishing, started, alive, 
                             written, sstate, terminated, badWrite, nctl, 
                             closed, playRaised, aliveAtClose, openAtClose, 
                             faulted, userStopped, lateW, noMore, closes, tgt, 
                             th, tojoin, idx >>

p13(self) == /\ pc[self] = "p13"
             /\ alive' = [alive EXCEPT ![self] = FALSE]
             /\ pc' = [pc EXCEPT ![self] = "Done"]
             /\ UNCHANGED << mgrLock, haltLock, thrLock, go, released, halting, 
                             finished, threads, finishing, started, written, 
                             sstate, terminated, badWrite, nctl, closed, 
                             playRaised, aliveAtClose, openAtClose, faulted, 
                             userStopped, lateW, noMore, closes, tgt, th, 
                             tojoin, idx >>

Player(self) == p0(self) \/ p1(self) \/ p1w(self) \/ p1h(self) \/ p2(self)
                   \/ p3(self) \/ p4(self) \/ p5(self) \/ p5h(self)
                   \/ p6(self) \/ p8(self) \/ p9(self) \/ p9c(self)
                   \/ p10(self) \/ p11(self) \/ p11b(self) \/ p11r(self)
                   \/ p12(self) \/ p13(self)

(* Allow infinite stuttering to prevent deadlock on termination. *)
Terminating == /\ \A self \in ProcSet: pc[self] = "Done"
               /\ UNCHANGED vars

Next == Main
           \/ (\E self \in Players: Player(self))
           \/ Terminating

Spec == Init /\ [][Next]_vars

Termination == <>(\A self \in ProcSet: pc[self] = "Done")

\* END TRANSLATION

---------------------------------------------------------------------------
(* Labels that are NOT calls into threading / the backend: the harness' scheduler cannot       *)
(* interleave other threads between a visible operation and the invisible code that follows it *)
Invisible == {"mp2", "mp4", "st2", "cs2", "c1", "c3", "c4", "c8", "c8a", "ap2", "p1", "p1h", "p4", "p5h", "p9", "p11", "p11b",
              "ctl", "Fin"}

ProcAt(p) == pc[p]
CNext == \/ (\E self \in Players : Player(self) /\ \A q \in ProcSet : pc[q] \in Invisible => q = self)
         \/ (Main /\ \A q \in ProcSet : pc[q] \in Invisible => q = MainId)
CSpec == Init /\ [][CNext]_vars

Fairness == WF_vars(Main) /\ \A t \in Players : WF_vars(Player(t))
LiveSpec == Init /\ [][Next]_vars /\ Fairness

---------------------------------------------------------------------------
(* Safety *)
Prefix(s, n) == s = [i \in 1..Len(s) |-> i] /\ Len(s) <= n
\* chunks reach the device in order, each once, nothing invented
InOrderOnce == \A t \in Players : Prefix(written[t], NChunks[t])
\* a player that was never stopped and has ended delivered everything
\* (only a stop requested by the CALLER excuses missing chunks when wait is true: close() itself must not stop
\*  players it is supposed to wait for)
Excused(t) == faulted[t] \/ userStopped[t] \/ (~Wait /\ halting[t])
Complete == \A t \in Players : (started[t] /\ ~alive[t] /\ ~Excused(t)) => Len(written[t]) = NChunks[t]
NoWriteWhenNotOpen == ~badWrite
TerminateAtMostOnce == terminated <= 1
\* after close() has returned
AllClosed          == closed => openAtClose = {} /\ \A t \in Started : sstate[t] = "closed"
TerminatedOnce     == closed => terminated = 1
NoThreadAlive      == closed => aliveAtClose = {}
PlayRaisesAfterClose == pc[MainId] = "Done" => playRaised
\* wait=True waits for all audio
WaitsForAll == (closed /\ Wait) => \A t \in Started : userStopped[t] \/ faulted[t] \/ Len(written[t]) = NChunks[t]
\* close() of a closed manager does nothing
\* a stop is prompt: the chunk being written when the stop message arrives is the last one, and a player that
\* was past its write (testing the flags, stopping its stream, parked in wait, just woken) writes nothing more
StopIsPrompt == StopWakes => \A t \in Players : lateW[t] <= 1 /\ (noMore[t] => lateW[t] = 0)
SecondCloseIsNoOp == pc[MainId] = "Done" => terminated = 1

---------------------------------------------------------------------------
(* Refinement: the observable projection of this model is a behaviour of the property-level          *)
(* specification AudioObs (backend calls, thread life, the caller's stop / close / play only).        *)
CloseLabels == {"c0", "c1", "c2", "c3", "c3r", "c3s", "c4", "cs1", "cs2", "cs3", "cs4", "c7", "c8", "c8a", "c8j",
                "c9", "c10"}
ObsMap == [ost   |-> sstate,
           wr    |-> written,
           th    |-> [t \in Players |-> IF ~started[t] THEN "new" ELSE IF alive[t] THEN "running" ELSE "ended"],
           ustop |-> {t \in Players : userStopped[t]},
           ufault |-> {t \in Players : faulted[t]},
           cl    |-> IF pc[MainId] \in CloseLabels THEN (IF closes = 0 THEN "closing" ELSE "reclosing")
                     ELSE (IF closes = 0 THEN "no" ELSE "closed"),
           term  |-> terminated]
Obs == INSTANCE AudioObs WITH obs <- ObsMap
ObsRefined == Obs!ObsSpec

\* chunk-count vectors for the configurations (cfg files cannot write tuples)
Chunks22  == <<2, 2>>
Chunks21  == <<2, 1>>
Chunks3   == <<3>>
Chunks02  == <<0, 2>>
Chunks33  == <<3, 3>>
Chunks222 == <<2, 2, 2>>
Chunks123 == <<1, 2, 3>>
Chunks111 == <<1, 1, 1>>

(* Liveness: close always returns *)
CloseReturns == <>(pc[MainId] = "Done")
CloseReturnsOnceCalled == (pc[MainId] = "c0") ~> (pc[MainId] = "Done")
===========================================================================
