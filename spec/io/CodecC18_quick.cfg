CONSTANTS
  ChunkCases <- ChunkQuick
  WavCases <- WavQuick
  Native = "<"
SPECIFICATION FairSpec
INVARIANT ArrayIsStructPrefix
INVARIANT StructEqualsArray
INVARIANT UnpackPack
INVARIANT NoStaleExport
INVARIANT ChunkCaseOK
INVARIANT SignExtensionRefines
INVARIANT RepackIsData
INVARIANT RangeHalfOpen
INVARIANT KeepRange
INVARIANT HeaderMirrors
INVARIANT ClosedOnceExhausted
INVARIANT WavCaseOK
PROPERTY EventuallyClosed
CHECK_DEADLOCK FALSE
