----------------------------- MODULE CodecC18T -----------------------------
(* Thorough grids for C18 (a module of their own: TLC evaluates every constant definition of the  *)
(* modules it loads at start-up, and these sets take ~30 s to build).                              *)
EXTENDS CodecC18

ChunkThorough == UNION {CG(f, 2, {3, 4, 5}, 1..4, Orders, {0, -1}) : f \in {"b", "h", "i"}}
                 \cup CG("i", 1, {5}, 1..4, Orders, {MinInt32, 2147483647})
                 \cup UNION {CG(f, 2, {3, 4, 5}, 1..4, Orders, {0, 3}) : f \in {"f", "d"}}


WavThorough == WavSingles(8, 0..255, {8000, 1}) \cup WavSingles(16, BytePool7 \cup {2, 64}, {44100})
               \cup WavSingles(24, BytePool7, {48000}) \cup WavSingles(32, BytePool7, {192000})
               \cup UNION {WavSeqs(b, {1, 2}, 0..5, 0..6, {22050, 11025}) : b \in {8, 16, 24, 32}}
============================================================================
