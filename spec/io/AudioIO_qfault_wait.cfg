CONSTANTS
  NP = 2
  NChunks <- Chunks21
  MaxCtl = 2
  Wait = TRUE
  StopWakes = TRUE
  JoinAll = TRUE
  Faults = TRUE
  RunFinally = TRUE
SPECIFICATION LiveSpec
PROPERTY ObsRefined
INVARIANT InOrderOnce
INVARIANT Complete
INVARIANT NoWriteWhenNotOpen
INVARIANT TerminateAtMostOnce
INVARIANT AllClosed
INVARIANT TerminatedOnce
INVARIANT NoThreadAlive
INVARIANT PlayRaisesAfterClose
INVARIANT WaitsForAll
INVARIANT SecondCloseIsNoOp
INVARIANT StopIsPrompt
PROPERTY CloseReturns
CHECK_DEADLOCK FALSE
