----------------------------- MODULE CodecC18 -----------------------------
(* Case grids for C18.  Integer pools: the extremes of each width and their neighbours, -1/0/1 and   *)
(* mid-range bit patterns (0x55.., 0xAA.., 0x00FF.., 0x7F80.., 0x80 in the middle byte).             *)
(* WAV files are given by their bytes: every sample over a byte pool that contains 0x00 0x01 0x7F    *)
(* 0x80 0xFF (so min, min+1, -1, 0, 1, max-1.. of every width and every sign-extension pattern),     *)
(* alone, and files of 0..5 frames, mono and stereo, keep on and off.                              *)
EXTENDS Codec

Pool(fmt) == CASE fmt = "b" -> <<-128, -127, -1, 0, 1, 126, 127, 85, -86>>
               [] fmt = "h" -> <<-32768, -32767, -1, 0, 1, 32766, 32767, 255, -256, 32640, 128>>
               [] fmt = "i" -> <<MinInt32, MinInt32 + 1, -1, 0, 1, 2147483646, 2147483647, 16711935,
                                 -16711936, 2139095040, 8388608, -8388609, 65536>>
               [] fmt = "f" -> <<-6, -1, 0, 1, 3, 1000>>          \* k stands for k/4
               [] fmt = "d" -> <<-6, -1, 0, 1, 3, 1000>>
PoolSet(fmt) == {Pool(fmt)[k] : k \in 1..Len(Pool(fmt))}
\* all sequences up to length L, and rotations of the pool for the longer ones
Short(fmt, L) == UNION {[1..k -> PoolSet(fmt)] : k \in 0..L}
Long(fmt, Ls) == {[k \in 1..L |-> Pool(fmt)[((k + s) % Len(Pool(fmt))) + 1]] : L \in Ls, s \in 0..(Len(Pool(fmt)) - 1)}

CG(f, L, Ls, sizes, orders, pads) ==
  {[kind |-> "chunk", fmt |-> f, order |-> o, size |-> z, seq |-> s, pad |-> p] :
      o \in orders, z \in sizes, p \in pads, s \in Short(f, L) \cup Long(f, Ls)}

Orders == {"none", "<", ">"}
ChunkQuick    == CG("b", 2, {3, 5}, 1..3, Orders, {0}) \cup CG("h", 2, {3, 5}, 1..3, Orders, {-1})
                 \cup CG("i", 2, {3, 5}, 1..3, Orders, {0})
                 \cup CG("h", 1, {4}, {4}, Orders, {0, 32767}) \cup CG("i", 1, {4}, {4}, Orders, {MinInt32})
                 \cup CG("f", 1, {3, 5}, 1..3, Orders, {0}) \cup CG("d", 1, {3, 5}, 1..3, Orders, {-1})
BytePool5 == {0, 1, 127, 128, 255}
BytePool7 == {0, 1, 127, 128, 129, 254, 255}
Samples(bits, bp) == [1..(bits \div 8) -> bp]
\* mono files of one sample, the sample ranging over every byte tuple of the pool
WavSingles(bits, bp, rates) ==
  {[kind |-> "wav", bits |-> bits, ch |-> 1, keep |-> kp, rate |-> r, data |-> s] :
      kp \in BOOLEAN, r \in rates, s \in Samples(bits, bp)}
\* files of nf = 0..5 frames (mono or stereo) cut from a byte pattern that walks through the pool
Walk(bp7, len, off) == [k \in 1..len |-> bp7[((k * 3 + off) % Len(bp7)) + 1]]
BP7 == <<0, 255, 128, 127, 1, 254, 129>>
WavSeqs(bits, chs, ns, offs, rates) ==
  {[kind |-> "wav", bits |-> bits, ch |-> c, keep |-> kp, rate |-> r,
    data |-> Walk(BP7, nf * c * (bits \div 8), off)] :
      c \in chs, kp \in BOOLEAN, r \in rates, nf \in ns, off \in offs}

WavQuick    == WavSingles(8, 0..255, {8000}) \cup WavSingles(16, BytePool5, {44100})
               \cup WavSingles(24, BytePool5, {48000}) \cup WavSingles(32, BytePool5, {1})
               \cup UNION {WavSeqs(b, {1, 2}, 0..5, 0..6, {22050}) : b \in {8, 16, 24, 32}}
============================================================================
