----------------------------- MODULE RecStream -----------------------------
(***************************************************************************)
(* audiolazy.lazy_io.RecStream / AudioIO.record / the recording part of    *)
(* AudioIO.close  (growth of the specification beyond C17: the input side  *)
(* of the audio manager; single-threaded).                                 *)
(*                                                                         *)
(* Operational layer: the `rec` generator (read one chunk from the device  *)
(* while `_recording`, hand its samples out one by one, and in its         *)
(* `finally` close the device stream, clear the flag and unregister), the  *)
(* `stop` method, and the loop of close() that stops and drains every      *)
(* registered recording, last first.                                       *)
(* Definition layer: a recording delivers the device's samples in order,   *)
(* without gaps, whole chunks only; after stop() it ends at the next chunk *)
(* boundary; its device stream is closed exactly once, when it ends; after *)
(* close() nothing is registered, everything is closed, the backend is     *)
(* terminated once.                                                        *)
(***************************************************************************)
EXTENDS Integers, Sequences, FiniteSets, TLC

CONSTANTS NR,        \* recordings that may be started
          CS,        \* samples per chunk
          MaxRead    \* samples read per recording (bound)

Recs == 1..NR

VARIABLES st,        \* r -> "none" | "fresh" | "running" | "done"   (generator state)
          flag,      \* r -> self._recording
          got,       \* r -> samples handed out so far
          inch,      \* r -> samples of the current chunk not handed out yet
          dev,       \* r -> chunks read from the device stream
          closes,    \* r -> times the device stream was closed
          regs,      \* AudioIO._recordings (sequence of r)
          term,      \* PyAudio.terminate() calls
          fin,       \* AudioIO.finished
          ret,       \* outcome of the last call: sample index, "StopIteration", "ok"
          last       \* the last call (write-only; VIEW)
vars == <<st, flag, got, inch, dev, closes, regs, term, fin, ret, last>>
View == <<st, flag, got, inch, dev, closes, regs, term, fin, ret>>

Init == /\ st = [r \in Recs |-> "none"] /\ flag = [r \in Recs |-> FALSE]
        /\ got = [r \in Recs |-> 0] /\ inch = [r \in Recs |-> 0] /\ dev = [r \in Recs |-> 0]
        /\ closes = [r \in Recs |-> 0] /\ regs = <<>> /\ term = 0 /\ fin = FALSE
        /\ ret = "ok" /\ last = <<"init">>

Without(s, r) == SelectSeq(s, LAMBDA x : x # r)

\* record(): opens the input stream, registers the RecStream (recordings are numbered in creation order)
Record(r) ==
  /\ ~fin /\ st[r] = "none" /\ \A q \in Recs : q < r => st[q] # "none"
  /\ st' = [st EXCEPT ![r] = "fresh"] /\ flag' = [flag EXCEPT ![r] = TRUE]
  /\ regs' = Append(regs, r)
  /\ ret' = "ok" /\ last' = <<"record", r>>
  /\ UNCHANGED <<got, inch, dev, closes, term, fin>>

\* the generator's end: finally: file_obj.close(); _recording = False; recording_finished(self)
Finish(r, s, f, c, g) ==
  /\ st' = [s EXCEPT ![r] = "done"] /\ flag' = [f EXCEPT ![r] = FALSE]
  /\ closes' = [c EXCEPT ![r] = @ + 1] /\ regs' = Without(g, r)

\* next(recstream)
Read(r) ==
  /\ st[r] \in {"fresh", "running", "done"} /\ got[r] < MaxRead
  /\ last' = <<"read", r>>
  /\ IF st[r] = "done" THEN ret' = "StopIteration" /\ UNCHANGED <<st, flag, got, inch, dev, closes, regs>>
     ELSE IF inch[r] > 0
          THEN /\ got' = [got EXCEPT ![r] = @ + 1] /\ inch' = [inch EXCEPT ![r] = @ - 1]
               /\ ret' = got[r] + 1
               /\ st' = [st EXCEPT ![r] = "running"] /\ UNCHANGED <<flag, dev, closes, regs>>
          ELSE IF flag[r]                                   \* while self._recording: read a chunk
               THEN /\ dev' = [dev EXCEPT ![r] = @ + 1] /\ inch' = [inch EXCEPT ![r] = CS - 1]
                    /\ got' = [got EXCEPT ![r] = @ + 1] /\ ret' = got[r] + 1
                    /\ st' = [st EXCEPT ![r] = "running"] /\ UNCHANGED <<flag, closes, regs>>
               ELSE /\ Finish(r, st, flag, closes, regs) /\ ret' = "StopIteration"
                    /\ UNCHANGED <<got, inch, dev>>
  /\ UNCHANGED <<term, fin>>

Stop(r) ==
  /\ st[r] # "none"
  /\ flag' = [flag EXCEPT ![r] = FALSE]
  /\ ret' = "ok" /\ last' = <<"stop", r>>
  /\ UNCHANGED <<st, got, inch, dev, closes, regs, term, fin>>

\* close(): while self._recordings: recst = self._recordings[-1]; recst.stop(); recst.take(inf)
RECURSIVE Drain(_)
\* state record [st, flag, got, inch, closes, regs]
Drain(x) ==
  IF x.regs = <<>> THEN x
  ELSE LET r == x.regs[Len(x.regs)] IN
       \* stop, then drain: the rest of the current chunk is handed out (and dropped), then the generator ends
       Drain([st     |-> [x.st EXCEPT ![r] = "done"],
              flag   |-> [x.flag EXCEPT ![r] = FALSE],
              got    |-> [x.got EXCEPT ![r] = @ + x.inch[r]],
              inch   |-> [x.inch EXCEPT ![r] = 0],
              closes |-> [x.closes EXCEPT ![r] = @ + 1],
              regs   |-> Without(x.regs, r)])
Close ==
  /\ last' = <<"close">> /\ ret' = "ok"
  /\ IF fin THEN UNCHANGED <<st, flag, got, inch, closes, regs, term, fin>>
     ELSE LET y == Drain([st |-> st, flag |-> flag, got |-> got, inch |-> inch, closes |-> closes, regs |-> regs]) IN
          /\ st' = y.st /\ flag' = y.flag /\ got' = y.got /\ inch' = y.inch /\ closes' = y.closes /\ regs' = y.regs
          /\ term' = term + 1 /\ fin' = TRUE
  /\ UNCHANGED dev

Next == \/ \E r \in Recs : Record(r) \/ Read(r) \/ Stop(r)
        \/ Close
Spec == Init /\ [][Next]_vars

---------------------------------------------------------------------------
\* samples come in order without gaps, whole chunks only
InOrderWholeChunks == \A r \in Recs : got[r] + inch[r] = dev[r] * CS
ClosedOnceWhenDone == \A r \in Recs : closes[r] = (IF st[r] = "done" THEN 1 ELSE 0)
RegisteredIffAlive == \A r \in Recs : (\E i \in DOMAIN regs : regs[i] = r) <=> st[r] \in {"fresh", "running"}
FlagMeansRecording == \A r \in Recs : flag[r] => st[r] \in {"fresh", "running"}
AfterClose == fin => /\ regs = <<>> /\ term = 1
                     /\ \A r \in Recs : st[r] # "none" => st[r] = "done" /\ closes[r] = 1
\* after stop() the recording ends at the next chunk boundary: no further chunk is read from the device
StopHoldsDevice == [][\A r \in Recs : ~flag[r] => dev'[r] = dev[r]]_vars
===========================================================================
