CONSTANTS
  NP = 2
  NChunks <- ObsChunks21
  Wait = TRUE
SPECIFICATION ObsSpec
INVARIANT ObsInOrderOnce
INVARIANT ObsComplete
INVARIANT ObsAfterClose
INVARIANT ObsTermOnce
CHECK_DEADLOCK FALSE
