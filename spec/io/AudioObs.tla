------------------------------ MODULE AudioObs ------------------------------
(***************************************************************************)
(* Property C17 stated over what can be OBSERVED from outside the library: *)
(* the calls a PyAudio-compatible backend receives (open, write, stop /    *)
(* start / close of a device stream, terminate), the life of the player    *)
(* threads (started, ended) and the caller's own calls (stop, close and    *)
(* its return, play and whether it raised).  Nothing in this module names  *)
(* a lock, a flag or a list of the implementation: any AudioIO whose       *)
(* observable behaviour is a behaviour of ObsSpec satisfies the safety     *)
(* half of C17 ("always returns" is liveness: CloseReturns in AudioIO.tla, *)
(* and the step bound of the scheduler on real executions).                *)
(*                                                                         *)
(*   AudioIO.tla  (implementation-shaped model)  refines  AudioObs         *)
(*        -- checked by TLC: PROPERTY ObsRefined in the AudioIO cfgs       *)
(*   real executions, projected on their observable events, are judged by  *)
(*   Verdict below (spec/trace/AudioObsTrace.tla) -- THIS is the verdict   *)
(*   of the check; disagreement with the implementation-shaped model alone *)
(*   is reported as model drift, not as a violation of the property.       *)
(*                                                                         *)
(* The state is one record so that the same two operators (Refusal, Apply) *)
(* define the next-state relation AND judge recorded traces.               *)
(***************************************************************************)
EXTENDS AudioObsDef

CONSTANTS NP,        \* players that may be created
          NChunks,   \* sequence: chunks in the audio of player t
          Wait       \* AudioIO(wait=...)

Players == 1..NP
Cfg     == [np |-> NP, chunks |-> NChunks, wait |-> Wait]
ObsInit == ObsInitOf(Cfg)

---------------------------------------------------------------------------
(* As a specification: every behaviour whose steps are observations that are not refused *)
VARIABLE obs

MaxN == IF NP = 0 THEN 0 ELSE CHOOSE m \in {NChunks[t] : t \in Players} : \A t \in Players : NChunks[t] <= m
Events == [k : Kinds, t : 0..NP, n : 0..(MaxN + 1)]
WellFormed(e) == IF e.k \in {"terminate", "call-close", "ret-close", "ret-play"} THEN e.t = 0 ELSE e.t \in Players

ObsNext == \E e \in Events : WellFormed(e) /\ Refusal(Cfg, e, obs) = "ok" /\ obs' = Apply(e, obs)
ObsSpec == obs = ObsInit /\ [][ObsNext]_obs

\* the promise, read off the state (each follows from the guards above; TLC checks that on ObsSpec itself)
ObsInOrderOnce == \A t \in Players : obs.wr[t] = [i \in 1..Len(obs.wr[t]) |-> i] /\ Len(obs.wr[t]) <= NChunks[t]
ObsComplete    == \A t \in Players : obs.th[t] = "ended" /\ ~Excused(Cfg, obs, t) => Done(Cfg, obs, t)
ObsAfterClose  == obs.cl = "closed" =>
                    /\ \A t \in Players : obs.ost[t] \in {"none", "closed"} /\ obs.th[t] # "running"
                    /\ obs.term = 1
                    /\ Wait => \A t \in Players : obs.th[t] = "new" \/ Done(Cfg, obs, t) \/ t \in obs.ustop \/ t \in obs.ufault
ObsTermOnce    == obs.term <= 1

ObsChunks21 == <<2, 1>>
=============================================================================
