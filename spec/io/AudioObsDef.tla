---------------------------- MODULE AudioObsDef ----------------------------
(***************************************************************************)
(* The operators of the property-level specification AudioObs, with the    *)
(* configuration (c.np players, c.chunks[t] chunks each, c.wait) as a      *)
(* parameter, so that the same text defines the next-state relation of     *)
(* AudioObs and judges recorded traces of any configuration                *)
(* (spec/trace/AudioObsTrace.tla).                                         *)
(***************************************************************************)
EXTENDS Integers, Sequences, FiniteSets

PlayersOf(c) == 1..c.np

\* ost[t]  device stream of player t: "none" / "open" / "stopped" / "closed"
\* wr[t]   chunk numbers received by that stream
\* th[t]   player thread: "new" / "running" / "ended"
\* ustop   players the CALLER asked to stop;  ufault: players whose device write raised
\* cl      "no" / "closing" / "closed" / "reclosing"  (close() called / returned / called again)
\* term    PyAudio.terminate() calls
ObsInitOf(c) == [ost |-> [t \in PlayersOf(c) |-> "none"], wr |-> [t \in PlayersOf(c) |-> <<>>],
                 th |-> [t \in PlayersOf(c) |-> "new"], ustop |-> {}, ufault |-> {}, cl |-> "no", term |-> 0]

Kinds == {"open", "start", "write", "write-fault", "stop_stream", "start_stream", "close_stream", "end",
          "terminate", "call-stop", "call-close", "ret-close", "ret-play"}
\* an event: [k |-> kind, t |-> player (0 when none), n |-> chunk number of a write / 1 iff a play raised]

Done(c, s, t)    == Len(s.wr[t]) = c.chunks[t]
\* a player may end early only if the caller stopped it, its device failed, or close() is stopping
\* everything (wait = False)
Excused(c, s, t) == t \in s.ustop \/ t \in s.ufault \/ (~c.wait /\ s.cl # "no")

\* why the event cannot be the next observation of a system that keeps the promise ("ok" when it can)
PlayerKinds == Kinds \ {"terminate", "call-close", "ret-close", "ret-play"}
Refusal(c, e, s) ==
  LET t == e.t IN
  CASE e.k \in PlayerKinds /\ t \notin PlayersOf(c) ->
         \* a stream / thread that no play() before close() created
         IF s.cl # "no" THEN "PlayRaisesAfterClose" ELSE "unknown-player"
    [] e.k = "open"  -> IF s.cl # "no" THEN "PlayRaisesAfterClose" ELSE IF s.ost[t] # "none" THEN "opened-twice" ELSE "ok"
    [] e.k = "start" -> IF s.cl # "no" THEN "PlayRaisesAfterClose" ELSE IF s.th[t] # "new" THEN "started-twice" ELSE "ok"
    [] e.k = "write" -> IF s.ost[t] # "open" THEN "NoWriteWhenNotOpen"
                        ELSE IF e.n # Len(s.wr[t]) + 1 \/ e.n > c.chunks[t] THEN "InOrderOnce"
                        ELSE IF s.cl \in {"closed", "reclosing"} THEN "write-after-close"
                        ELSE "ok"
    [] e.k = "write-fault"  -> "ok"
    [] e.k \in {"stop_stream", "start_stream"} -> IF s.ost[t] \notin {"open", "stopped"} THEN "stream-used-when-not-open" ELSE "ok"
    [] e.k = "close_stream" -> IF s.ost[t] \notin {"open", "stopped"} THEN "stream-closed-twice" ELSE "ok"
    [] e.k = "end"   -> IF s.th[t] # "running" THEN "ended-twice"
                        ELSE IF ~Done(c, s, t) /\ ~Excused(c, s, t) THEN "Complete" ELSE "ok"
    [] e.k = "terminate"  -> IF s.term # 0 THEN "TerminateAtMostOnce"
                             ELSE IF s.cl # "closing" THEN "terminate-outside-close" ELSE "ok"
    [] e.k = "call-stop"  -> "ok"
    [] e.k = "call-close" -> IF s.cl \in {"closing", "reclosing"} THEN "close-reentered" ELSE "ok"
    [] e.k = "ret-close"  ->
         IF s.cl \notin {"closing", "reclosing"} THEN "close-returned-uncalled"
         ELSE IF \E p \in PlayersOf(c) : s.ost[p] \notin {"none", "closed"} THEN "AllClosed"
         ELSE IF s.term # 1 THEN "TerminatedOnce"
         ELSE IF \E p \in PlayersOf(c) : s.th[p] = "running" THEN "NoThreadAlive"
         ELSE IF c.wait /\ \E p \in PlayersOf(c) : s.th[p] # "new" /\ ~Done(c, s, p) /\ p \notin s.ustop /\ p \notin s.ufault
              THEN "WaitsForAll"
         ELSE "ok"
    [] e.k = "ret-play"   -> IF s.cl = "closed" /\ e.n # 1 THEN "PlayRaisesAfterClose" ELSE "ok"
    [] OTHER -> "unknown-event"

Apply(e, s) ==
  LET t == e.t IN
  CASE e.k = "open"         -> [s EXCEPT !.ost[t] = "open"]
    [] e.k = "start"        -> [s EXCEPT !.th[t] = "running"]
    [] e.k = "write"        -> [s EXCEPT !.wr[t] = Append(@, e.n)]
    [] e.k = "write-fault"  -> [s EXCEPT !.ufault = @ \cup {t}]
    [] e.k = "stop_stream"  -> [s EXCEPT !.ost[t] = "stopped"]
    [] e.k = "start_stream" -> [s EXCEPT !.ost[t] = "open"]
    [] e.k = "close_stream" -> [s EXCEPT !.ost[t] = "closed"]
    [] e.k = "end"          -> [s EXCEPT !.th[t] = "ended"]
    [] e.k = "terminate"    -> [s EXCEPT !.term = @ + 1]
    [] e.k = "call-stop"    -> [s EXCEPT !.ustop = @ \cup {t}]
    [] e.k = "call-close"   -> [s EXCEPT !.cl = IF @ = "no" THEN "closing" ELSE "reclosing"]
    [] e.k = "ret-close"    -> [s EXCEPT !.cl = "closed"]
    [] OTHER                -> s

=============================================================================
