------------------------------- MODULE Codec -------------------------------
(***************************************************************************)
(* PCM byte codecs of AudioLazy (property C18): audiolazy.lazy_io.chunks   *)
(* (struct and array strategies) and audiolazy.lazy_wav.WavStream.         *)
(* A byte is 0..255, a byte string a sequence of bytes.                    *)
(*                                                                         *)
(* Operational layer                                                       *)
(*   chunks.array : the fill loop -- a buffer pre-loaded with 0..size-1,   *)
(*                  one element stored per step at idx, the buffer         *)
(*                  exported when idx reaches size, the tail padded;       *)
(*   chunks.struct: blocks(seq, size, padval) then Struct.pack per block;  *)
(*   packing      : two's complement by floor division,                    *)
(*                  byte k = (v \div 256^k) % 256, reversed for ">";       *)
(*   WavStream    : header read at construction, readframes(1) per step,   *)
(*                  stereo frames cut in two, the per-width unpackers      *)
(*                  (ord; "<h"; zero byte prefixed + "<i" + >> 8; "<i"),   *)
(*                  keep / normalise, file closed when the reader runs out.*)
(* Definition layer                                                        *)
(*   what the statement says: the chunks, concatenated and unpacked, are   *)
(*   the sequence followed by pads up to a multiple of size; a WAV sample  *)
(*   is the stored little-endian two's complement integer (unsigned for 8  *)
(*   bit), or (that integer - 128*[8 bit]) / 2^(bits-1).                   *)
(* TLC integers are 32-bit: 2^31 and 2^32 do not exist, so 32-bit samples  *)
(* are always decomposed with the top byte taken signed, and a normalised  *)
(* sample is the pair <<numerator, bits>> (denominator 2^(bits-1)).        *)
(* Values of the float formats f / d are opaque tokens k standing for the  *)
(* dyadic number k/4: the specification fixes where each value goes, the   *)
(* IEEE encoding itself is left to the round trip through stdlib struct.   *)
(***************************************************************************)
EXTENDS Integers, Sequences, TLC, FiniteSets

CONSTANTS ChunkCases,   \* [kind |-> "chunk", fmt, order ("none" | "<" | ">"), size, seq, pad]
          WavCases,     \* [kind |-> "wav", bits, ch, keep, rate, data]
          Native        \* byte order of the machine: "<" or ">"

P256(k)  == CASE k = 0 -> 1 [] k = 1 -> 256 [] k = 2 -> 65536 [] k = 3 -> 16777216
MinInt32 == -2147483647 - 1
Width(fmt)    == CASE fmt = "b" -> 1 [] fmt = "h" -> 2 [] fmt = "i" -> 4 [] fmt = "f" -> 4 [] fmt = "d" -> 8
IsIntFmt(fmt) == fmt \in {"b", "h", "i"}
FmtMin(fmt)   == CASE fmt = "b" -> -128 [] fmt = "h" -> -32768 [] fmt = "i" -> MinInt32
FmtMax(fmt)   == CASE fmt = "b" -> 127  [] fmt = "h" -> 32767  [] fmt = "i" -> 2147483647
Eff(order)    == IF order = "none" THEN Native ELSE order

Rev(s) == [k \in 1..Len(s) |-> s[Len(s) + 1 - k]]
\* concatenation of a sequence of sequences of one common length (no recursion: the trace module
\* applies these operators to hundreds of chunks, and deep recursion exhausts TLC's Java stack)
Flat(ss) == IF ss = <<>> THEN <<>>
            ELSE LET L == Len(ss[1])
                 IN [i \in 1..(Len(ss) * L) |-> ss[((i - 1) \div L) + 1][((i - 1) % L) + 1]]

---------------------------------------------------------------------------
(* packing (operational): two's complement by floor division                *)
PackLE(v, w)       == [k \in 1..w |-> (v \div P256(k - 1)) % 256]
Pack(v, w, order)  == IF Eff(order) = "<" THEN PackLE(v, w) ELSE Rev(PackLE(v, w))

(* unpacking (definition): positional value of the bytes, top byte signed   *)
RECURSIVE LowSum(_, _)
LowSum(b, k) == IF k = 0 THEN 0 ELSE b[k] * P256(k - 1) + LowSum(b, k - 1)      \* bytes 1..k, unsigned
SignedByte(x)       == IF x >= 128 THEN x - 256 ELSE x
UnpackLE(b)         == SignedByte(b[Len(b)]) * P256(Len(b) - 1) + LowSum(b, Len(b) - 1)
Unpack(b, order)    == IF Eff(order) = "<" THEN UnpackLE(b) ELSE UnpackLE(Rev(b))
Pieces(bytes, w)    == [j \in 1..(Len(bytes) \div w) |-> SubSeq(bytes, (j - 1) * w + 1, j * w)]
UnpackAll(bytes, w, order) == [j \in 1..(Len(bytes) \div w) |-> Unpack(Pieces(bytes, w)[j], order)]

---------------------------------------------------------------------------
(* chunks                                                                   *)
\* one exported chunk: the values it carries and, for the integer formats, its bytes
Export(c, vals) == [vals  |-> vals,
                    bytes |-> IF IsIntFmt(c.fmt)
                              THEN Flat([k \in 1..Len(vals) |-> Pack(vals[k], Width(c.fmt), c.order)])
                              ELSE <<>>]

\* chunks.struct: lazy_misc.blocks with hop = size (a deque of maxlen size, yielded when full, the last
\* one completed with padval when at least one element is in it), then Struct(order + size + fmt).pack
BlockSeq(s, size, pad) ==
  [j \in 1..((Len(s) + size - 1) \div size) |->
     [k \in 1..size |-> IF (j - 1) * size + k <= Len(s) THEN s[(j - 1) * size + k] ELSE pad]]
StructChunks(c) == LET bl == BlockSeq(c.seq, c.size, c.pad) IN [j \in 1..Len(bl) |-> Export(c, bl[j])]

\* definition: "the sequence followed by pad values up to a multiple of size"
Padded(c)  == c.seq \o [k \in 1..((c.size - (Len(c.seq) % c.size)) % c.size) |-> c.pad]
NChunks(c) == (Len(c.seq) + c.size - 1) \div c.size

---------------------------------------------------------------------------
(* WavStream                                                                *)
WBytes(c) == c.bits \div 8
\* the unpackers, as coded
StructI(b) == b[1] + 256 * b[2] + 65536 * b[3] + 16777216 * SignedByte(b[4])      \* Struct("<i").unpack
U8(b)  == b[1]                                                                    \* ord
U16(b) == LET u == b[1] + 256 * b[2] IN IF u >= 32768 THEN u - 65536 ELSE u        \* Struct("<h").unpack
U24(b) == StructI(<<0>> \o b) \div 256                                            \* a(b"\x00" + v)[0] >> 8
U32(b) == StructI(b)
Unpacker(bits, b) == CASE bits = 8 -> U8(b) [] bits = 16 -> U16(b) [] bits = 24 -> U24(b) [] bits = 32 -> U32(b)
\* keep: the integer; else (unpacker(el) - 128 for 8 bit) / (1 << (bits - 1)), as <<numerator, bits>>
Conv(c, b) == LET v == Unpacker(c.bits, b)
              IN IF c.keep THEN v ELSE <<IF c.bits = 8 THEN v - 128 ELSE v, c.bits>>

\* definition: the stored integer -- unsigned for 8 bit, else little-endian two's complement:
\* u - 2^bits * [u >= 2^(bits-1)] on the unsigned positional value u (for 32 bit, where u does not fit a
\* TLC integer, the same number written with the top byte signed)
Stored(bits, b) ==
  IF bits = 8 THEN b[1]
  ELSE IF bits = 32 THEN UnpackLE(b)
  ELSE LET u == LowSum(b, Len(b)) IN IF u >= P256(Len(b) - 1) * 128 THEN u - (P256(Len(b) - 1) * 128) * 2 ELSE u
Present(c, v)  == IF c.keep THEN v ELSE <<v - (IF c.bits = 8 THEN 128 ELSE 0), c.bits>>
WavDecodeOf(c) == LET ps == Pieces(c.data, WBytes(c)) IN [j \in 1..Len(ps) |-> Present(c, Stored(c.bits, ps[j]))]
FrameBytes(c)  == c.ch * WBytes(c)

---------------------------------------------------------------------------
VARIABLES case,
          st,     \* chunk: "run" | "done";  wav: "open" | "closed"
          pos,    \* chunk: elements consumed;  wav: bytes read from the file
          buf,    \* chunk: the array buffer;  wav: samples of the current frame not yet yielded
          idx,    \* chunk: fill index
          out,    \* chunk: exported chunks;  wav: samples yielded
          hdr     \* wav: rate / channels / bits attributes
vars == <<case, st, pos, buf, idx, out, hdr>>

Init ==
  \/ /\ case \in ChunkCases
     /\ st = "run" /\ pos = 0 /\ idx = 0 /\ out = <<>> /\ hdr = <<>>
     /\ buf = [k \in 1..case.size |-> k - 1]                    \* array.array(dfmt, xrange(size))
  \/ /\ case \in WavCases
     /\ st = "open" /\ pos = 0 /\ idx = 0 /\ out = <<>> /\ buf = <<>>
     /\ hdr = [rate |-> case.rate, channels |-> case.ch, bits |-> case.bits]

IsChunk == case.kind = "chunk"
IsWav   == case.kind = "wav"

\* for el in seq: chunk[idx] = el; idx += 1; if idx == size: yield export; idx = 0
Fill ==
  /\ IsChunk /\ st = "run" /\ pos < Len(case.seq)
  /\ LET b1 == [buf EXCEPT ![idx + 1] = case.seq[pos + 1]]
     IN /\ buf' = b1
        /\ IF idx + 1 = case.size
           THEN out' = Append(out, Export(case, b1)) /\ idx' = 0
           ELSE out' = out /\ idx' = idx + 1
  /\ pos' = pos + 1
  /\ UNCHANGED <<case, st, hdr>>

\* if idx != 0: pad positions idx..size-1, yield export
Tail_ ==
  /\ IsChunk /\ st = "run" /\ pos = Len(case.seq)
  /\ IF idx # 0
     THEN LET b1 == [k \in 1..case.size |-> IF k > idx THEN case.pad ELSE buf[k]]
          IN buf' = b1 /\ out' = Append(out, Export(case, b1))
     ELSE UNCHANGED <<buf, out>>
  /\ st' = "done"
  /\ UNCHANGED <<case, pos, idx, hdr>>

\* el = w.readframes(1); mono: one sample; stereo: el[:width], el[width:]
ReadFrame ==
  /\ IsWav /\ st = "open" /\ buf = <<>> /\ pos < Len(case.data)
  /\ LET w  == WBytes(case)
         el == SubSeq(case.data, pos + 1, pos + FrameBytes(case))
         ps == IF case.ch = 1 THEN <<el>> ELSE <<SubSeq(el, 1, w), SubSeq(el, w + 1, Len(el))>>
     IN /\ out' = Append(out, Conv(case, ps[1]))
        /\ buf' = Tail(ps)
  /\ pos' = pos + FrameBytes(case)
  /\ UNCHANGED <<case, st, idx, hdr>>

YieldSecond ==
  /\ IsWav /\ st = "open" /\ buf # <<>>
  /\ out' = Append(out, Conv(case, Head(buf)))
  /\ buf' = Tail(buf)
  /\ UNCHANGED <<case, st, pos, idx, hdr>>

\* readframes returns nothing: break, and the finally clause closes the file
Eof ==
  /\ IsWav /\ st = "open" /\ buf = <<>> /\ pos = Len(case.data)
  /\ st' = "closed"
  /\ UNCHANGED <<case, pos, buf, idx, out, hdr>>

Next == Fill \/ Tail_ \/ ReadFrame \/ YieldSecond \/ Eof
Spec == Init /\ [][Next]_vars
\* a consumer that keeps asking
FairSpec == Spec /\ WF_vars(Next)
\* ... finds the file closed / the generator finished in the end
EventuallyClosed == <>(st \in {"closed", "done"})

---------------------------------------------------------------------------
(* chunks: invariants                                                        *)
ChunkVals(o)  == Flat([j \in 1..Len(o) |-> o[j].vals])
ChunkBytes(o) == Flat([j \in 1..Len(o) |-> o[j].bytes])

\* the two strategies yield the same chunks, in the same order, at every moment
ArrayIsStructPrefix == IsChunk => out = SubSeq(StructChunks(case), 1, Len(out))
StructEqualsArray   == IsChunk /\ st = "done" => out = StructChunks(case)
\* concatenated and unpacked with the same format and byte order: the sequence, then pads
UnpackPack ==
  IsChunk /\ st = "done" =>
     /\ Len(out) = NChunks(case)
     /\ ChunkVals(out) = Padded(case)
     /\ IsIntFmt(case.fmt) =>
          /\ \A j \in 1..Len(out) : Len(out[j].bytes) = case.size * Width(case.fmt)
          /\ UnpackAll(ChunkBytes(out), Width(case.fmt), case.order) = Padded(case)
\* nothing of the buffer's initial contents (0..size-1) is ever exported
NoStaleExport == IsChunk => \A j \in 1..Len(out) : \A k \in 1..case.size :
                               out[j].vals[k] = Padded(case)[(j - 1) * case.size + k]
\* the grid stays inside the formats' ranges (else Struct.pack / array would refuse the value)
ChunkCaseOK == IsChunk /\ IsIntFmt(case.fmt) =>
                  \A v \in {case.seq[k] : k \in 1..Len(case.seq)} \cup {case.pad} :
                     v >= FmtMin(case.fmt) /\ v <= FmtMax(case.fmt)

(* WavStream: invariants                                                     *)
\* the unpackers (zero-prefix and shift for 24 bit included) compute the stored integer
SignExtensionRefines == IsWav => out = SubSeq(WavDecodeOf(case), 1, Len(out))
\* packing the decoded integer gives back the file's bytes (8 bit: the byte itself)
RepackIsData ==
  IsWav /\ case.keep =>
     \A k \in 1..Len(out) :
        LET b == Pieces(case.data, WBytes(case))[k]
        IN IF case.bits = 8 THEN <<out[k]>> = b ELSE PackLE(out[k], WBytes(case)) = b
\* [-1, 1): -2^(bits-1) <= numerator <= 2^(bits-1) - 1   (2^(bits-1) written as h + h, h = 2^(bits-2))
HalfOf(bits) == CASE bits = 8 -> 64 [] bits = 16 -> 16384 [] bits = 24 -> 4194304 [] bits = 32 -> 1073741824
RangeHalfOpen ==
  IsWav /\ ~case.keep =>
     \A k \in 1..Len(out) :
        LET h == HalfOf(case.bits) IN
        /\ out[k][2] = case.bits
        /\ out[k][1] >= (-h) - h /\ out[k][1] <= (h - 1) + h
KeepRange ==
  IsWav /\ case.keep =>
     \A k \in 1..Len(out) :
        LET h == HalfOf(case.bits) IN
        IF case.bits = 8 THEN out[k] \in 0..255 ELSE out[k] >= (-h) - h /\ out[k] <= (h - 1) + h
HeaderMirrors == IsWav => hdr = [rate |-> case.rate, channels |-> case.ch, bits |-> case.bits]
\* open while anything is left, closed only after everything was yielded, and never stuck open
ClosedOnceExhausted ==
  IsWav =>
     /\ st = "closed" => out = WavDecodeOf(case) /\ buf = <<>> /\ pos = Len(case.data)
     /\ Len(out) < Len(WavDecodeOf(case)) => st = "open"
     /\ pos <= Len(case.data) /\ pos % FrameBytes(case) = 0     \* so ReadFrame / YieldSecond / Eof is enabled while open
WavCaseOK == IsWav => /\ case.bits \in {8, 16, 24, 32} /\ case.ch \in {1, 2}
                      /\ Len(case.data) % FrameBytes(case) = 0
                      /\ \A k \in 1..Len(case.data) : case.data[k] \in 0..255
============================================================================
