CONSTANTS
  NR = 2
  CS = 2
  MaxRead = 5
INIT Init
NEXT Next
VIEW View
INVARIANT InOrderWholeChunks
INVARIANT ClosedOnceWhenDone
INVARIANT RegisteredIffAlive
INVARIANT FlagMeansRecording
INVARIANT AfterClose
PROPERTY StopHoldsDevice
CHECK_DEADLOCK FALSE
