CONSTANTS
  Cases <- X04Thorough
  NegPowRefuses = TRUE
INIT Init
NEXT Next
INVARIANT Refines
INVARIANT Laws
CHECK_DEADLOCK FALSE
