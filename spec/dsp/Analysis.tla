------------------------------ MODULE Analysis ------------------------------
(***************************************************************************)
(* audiolazy.lazy_analysis / lazy_itertools sample-wise tools (property    *)
(* C20): maverage.deque/recursive/fir, accumulate.accumulate/func/z, amdf, *)
(* envelope.rms/abs/squared, clip, zcross, unwrap.                         *)
(*                                                                         *)
(* Operational layer: one machine per tool, shaped like the code -- the    *)
(* deque with a running mean, the ZFilter strategies as cases of the       *)
(* LinearFilter register machine of module Filter (its Step action is      *)
(* reused verbatim), the running total, the delay line + abs + deque of    *)
(* amdf, the one-pole recursion of the envelope low-pass, the four         *)
(* None/limit branches of clip, the two loops of zcross, the delta         *)
(* accumulator of unwrap with its two floor-modulo candidates.  One Step   *)
(* reads one input sample and emits one output sample.                     *)
(* Definition layer: what the property says -- mean of the last `size`     *)
(* samples with the zero value as pre-history, running sums, mean of       *)
(* |x[n]-x[n-lag]|, low-pass of |x| / x^2, saturation, the hysteresis      *)
(* comparator described through "the most recent sample outside the band", *)
(* and the three relational clauses of unwrap.                             *)
(*                                                                         *)
(* Samples: the linear tools (maverage, accumulate) run on linear forms    *)
(* over the symbols x1..xMaxLen, Z (module Lin): one run decides the       *)
(* identity for every input of that length and every zero value.  The      *)
(* non-linear tools run on rationals drawn sample by sample from the       *)
(* case's pool, so the reachable states are exactly all inputs of length   *)
(* <= case.len over that pool.  Definitions take the input as an argument  *)
(* (a sequence of forms of any dimension: a rational r is the 1-dim form   *)
(* <<r>>), so module AnalysisTrace can judge recorded runs with them.      *)
(***************************************************************************)
EXTENDS Filter

VARIABLES xs,      \* the input read so far (linear forms for the linear tools, rationals otherwise)
          st       \* tool-specific machine state
avars == <<case, n, out, mreg, dreg, err, xs, st>>

None     == <<>>                 \* an absent limit
Some(r)  == <<r>>
F1(r)    == <<r>>                \* a rational as a 1-dimensional linear form
Half     == <<1, 2>>

---------------------------------------------------------------------------
(* Case constructors.  The filter-based strategies are described by the    *)
(* coefficient lists the code's z-expressions denote.                      *)

\* maverage.deque(size)(sig, zero)
MavDeque(size, zero) ==
  [tool |-> "maverage", strat |-> "deque", size |-> size, zero |-> zero]
\* maverage.recursive(size) = (1./size) * (1 - z ** -size) / (1 - z ** -1)
MavRecursive(size, zero) ==
  [tool |-> "maverage", strat |-> "recursive", size |-> size, zero |-> zero, mem |-> "none", adv |-> 0,
   b |-> [k \in 1..(size + 1) |-> Const(IF k = 1 THEN <<1, size>> ELSE IF k = size + 1 THEN <<-1, size>> ELSE RZero)],
   a |-> <<Const(ROne), Const(R(-1))>>]
\* maverage.fir(size) = sum((1./size) * z ** -i for i in xrange(size))
MavFir(size, zero) ==
  [tool |-> "maverage", strat |-> "fir", size |-> size, zero |-> zero, mem |-> "none", adv |-> 0,
   b |-> [k \in 1..size |-> Const(<<1, size>>)],
   a |-> <<Const(ROne)>>]
\* accumulate.accumulate = itertools.accumulate, accumulate.func = the generator, accumulate.z = 1 / (1 - z ** -1)
AccIter == [tool |-> "accumulate", strat |-> "accumulate"]
AccFunc == [tool |-> "accumulate", strat |-> "func"]
AccZ    == [tool |-> "accumulate", strat |-> "z", zero |-> "num", mem |-> "none", adv |-> 0,
            b |-> <<Const(ROne)>>, a |-> <<Const(ROne), Const(R(-1))>>]
\* amdf(lag, size)(sig, zero): zero a rational
Amdf(lag, size, zero, pool, len) ==
  [tool |-> "amdf", lag |-> lag, size |-> size, zero |-> zero, pool |-> pool, len |-> len]
\* envelope.<strat>(sig, cutoff): the pole R and gain g of lowpass(cutoff) stay indeterminates (see EnvDef)
Envelope(strat, pool, len) == [tool |-> "envelope", strat |-> strat, pool |-> pool, len |-> len]
\* clip(sig, low, high): limits None or Some(rational)
Clip(low, high, pool, len) == [tool |-> "clip", low |-> low, high |-> high, pool |-> pool, len |-> len]
\* zcross(seq, hysteresis, first_sign)
ZCross(hyst, fs, pool, len) == [tool |-> "zcross", hyst |-> hyst, fs |-> fs, pool |-> pool, len |-> len]
\* unwrap(sig, max_delta, step)
Unwrap(md, step, pool, len) == [tool |-> "unwrap", md |-> md, step |-> step, pool |-> pool, len |-> len]

IsFilt(c)   == c.tool \in {"maverage", "accumulate"} /\ c.strat \in {"recursive", "fir", "z"}
IsLinear(c) == c.tool \in {"maverage", "accumulate"}

---------------------------------------------------------------------------
(* maverage.deque: data = deque of the last `size` scaled samples, mean = running mean_value *)
DequeInit(size, zero) == [data |-> [k \in 1..size |-> LDiv(zero, R(size))], mean |-> zero]
DequeStep(s, el, size) ==
  LET m1 == LSub(s.mean, Head(s.data))                 \* mean_value -= data.popleft()
      nv == LDiv(el, R(size))                          \* new_value = el * size_inv
  IN [data |-> Append(Tail(s.data), nv),               \* data.append(new_value)
      mean |-> LAdd(m1, nv)]                           \* mean_value += new_value

(* accumulate.accumulate / func: the first item starts the total *)
AccStep(s, el) == [started |-> TRUE, total |-> IF s.started THEN LAdd(s.total, el) ELSE el]

(* amdf: filt = 1 - z ** -lag (delay line loaded with zero), abs, maverage(size)(.., zero=zero) *)
LAbs1(f) == <<RAbs(f[1])>>
AmdfInit(c) == [dl |-> [k \in 1..c.lag |-> F1(c.zero)], dq |-> DequeInit(c.size, F1(c.zero))]
AmdfStep(c, s, v) ==
  LET x  == F1(v)
      d  == LSub(x, s.dl[c.lag])
      dq == DequeStep(s.dq, LAbs1(d), c.size)
  IN [dl |-> [k \in 1..c.lag |-> IF k = 1 THEN x ELSE s.dl[k - 1]], dq |-> dq]

(* envelope: y[n] = g*u[n] + R*y[n-1] with y[-1] = 0 and u = |x| or x^2.  With g and R indeterminate,     *)
(* y[n]/g is a polynomial in R; it is kept as its coefficient sequence (R^0 first).  rms takes the     *)
(* square root of the result.                                                                           *)
Rect(strat, v) == IF strat = "abs" THEN RAbs(v) ELSE RPow(v, 2)        \* abs(sig)  /  sig ** 2
EnvStep(c, p, v) == <<Rect(c.strat, v)>> \o p           \* u + R * p

(* clip: the four branches of the code *)
BadLimits(c) == c.low # None /\ c.high # None /\ RLt(c.high[1], c.low[1])
ClipEl(c, el) ==
  IF c.low = None THEN (IF c.high = None THEN el
                        ELSE IF RLt(el, c.high[1]) THEN el ELSE c.high[1])
  ELSE IF c.high = None THEN (IF RLt(c.low[1], el) THEN el ELSE c.low[1])
  ELSE IF RLt(c.high[1], el) THEN c.high[1]
  ELSE IF RLt(el, c.low[1]) THEN c.low[1] ELSE el

(* zcross *)
ZSgn(v) == IF RLt(v, RZero) THEN -1 ELSE 1              \* -1 if el < 0 else 1
ZOutside(h, v) == RLt(h, v) \/ RLt(v, RNeg(h))          \* (el > hysteresis) or (el < neg_hyst)
ZInit(c) == IF c.fs = RZero THEN [phase |-> "first", sign |-> 0]
            ELSE [phase |-> "main", sign |-> ZSgn(c.fs)]

(* unwrap *)
UInit == [started |-> FALSE, d0 |-> RZero, delta |-> RZero]
UStep(c, s, v) ==
  IF ~s.started THEN [started |-> TRUE, d0 |-> v, delta |-> RZero]       \* delta = d0 - d0
  ELSE LET dd == RSub(v, s.d0)
           c1 == RMod(dd, c.step)
           c2 == RMod(dd, RNeg(c.step))
           m  == IF RLe(RAbs(c1), RAbs(c2)) THEN c1 ELSE c2            \* min(c1, c2, key=abs): first of equals
       IN [started |-> TRUE, d0 |-> v,
           delta |-> IF RLt(c.md, RAbs(dd)) THEN RAdd(s.delta, RAdd(RNeg(dd), m)) ELSE s.delta]

---------------------------------------------------------------------------
InitSt(c) ==
  IF c.tool = "maverage" /\ c.strat = "deque" THEN DequeInit(c.size, Zero(c))
  ELSE IF c.tool = "accumulate" THEN [started |-> FALSE, total |-> LZero(NS)]
  ELSE IF c.tool = "amdf" THEN AmdfInit(c)
  ELSE IF c.tool = "envelope" THEN <<>>
  ELSE IF c.tool = "zcross" THEN ZInit(c)
  ELSE IF c.tool = "unwrap" THEN UInit
  ELSE <<>>

AInit ==
  /\ n = 0 /\ out = <<>> /\ err = "none" /\ xs = <<>>
  /\ \/ /\ case \in {c \in Cases : IsFilt(c)}            \* Filter's Init
        /\ mreg = MemInit(case)
        /\ dreg = [k \in 1..(Lb(case) - 1) |-> Zero(case)]
        /\ st = <<>>
     \/ /\ case \in {c \in Cases : ~IsFilt(c)}
        /\ mreg = <<>> /\ dreg = <<>>
        /\ st = InitSt(case)

Emit(x, y, s) == /\ xs' = Append(xs, x) /\ out' = Append(out, y) /\ st' = s /\ n' = n + 1
                 /\ UNCHANGED <<case, err, mreg, dreg>>

\* the ZFilter strategies: the register machine of module Filter
StepFilt == /\ IsFilt(case)
            /\ Step
            /\ xs' = Append(xs, XSym(n + 1)) /\ UNCHANGED st

StepDeque == /\ case.tool = "maverage" /\ case.strat = "deque" /\ n < MaxLen
             /\ LET s == DequeStep(st, XSym(n + 1), case.size) IN Emit(XSym(n + 1), s.mean, s)

StepAcc == /\ case.tool = "accumulate" /\ case.strat \in {"accumulate", "func"} /\ n < MaxLen
           /\ LET s == AccStep(st, XSym(n + 1)) IN Emit(XSym(n + 1), s.total, s)

StepAmdf == /\ case.tool = "amdf" /\ n < case.len
            /\ \E v \in case.pool : LET s == AmdfStep(case, st, v) IN Emit(v, s.dq.mean, s)

StepEnv == /\ case.tool = "envelope" /\ n < case.len
           /\ \E v \in case.pool : LET p == EnvStep(case, st, v) IN Emit(v, p, p)

RefuseClip == /\ case.tool = "clip" /\ err = "none" /\ BadLimits(case)
              /\ err' = "ValueError"
              /\ UNCHANGED <<case, n, out, mreg, dreg, xs, st>>

StepClip == /\ case.tool = "clip" /\ ~BadLimits(case) /\ n < case.len
            /\ \E v \in case.pool : Emit(v, ClipEl(case, v), st)

\* first loop: emit 0 until (and including) the first sample outside the band, which fixes the sign
StepZFirst == /\ case.tool = "zcross" /\ st.phase = "first" /\ n < case.len
              /\ \E v \in case.pool :
                   Emit(v, 0, IF ZOutside(case.hyst, v) THEN [phase |-> "main", sign |-> ZSgn(v)] ELSE st)

\* main loop: el * last_sign < neg_hyst
StepZMain == /\ case.tool = "zcross" /\ st.phase = "main" /\ n < case.len
             /\ \E v \in case.pool :
                  IF RLt(RMul(v, R(st.sign)), RNeg(case.hyst))
                  THEN Emit(v, 1, [phase |-> "main", sign |-> ZSgn(v)])
                  ELSE Emit(v, 0, st)

StepUnwrap == /\ case.tool = "unwrap" /\ n < case.len
              /\ \E v \in case.pool : LET s == UStep(case, st, v) IN Emit(v, RAdd(v, s.delta), s)

ANext == StepFilt \/ StepDeque \/ StepAcc \/ StepAmdf \/ StepEnv \/ RefuseClip \/ StepClip
         \/ StepZFirst \/ StepZMain \/ StepUnwrap
ASpec == AInit /\ [][ANext]_avars

---------------------------------------------------------------------------
(* Definition layer.  x is the input (1-based), i < 1 is the pre-history.  *)
XAt(x, zero, i) == IF i < 1 THEN zero ELSE x[i]

\* sum_{i = lo..hi} f[i] by bisection (recursion depth log2 of the range, so recorded runs of a few
\* hundred samples can be judged too)
RECURSIVE LSumRange(_, _, _, _)
LSumRange(f, lo, hi, ns) ==
  IF lo > hi THEN LZero(ns) ELSE IF lo = hi THEN f[lo]
  ELSE LET mid == (lo + hi) \div 2 IN LAdd(LSumRange(f, lo, mid, ns), LSumRange(f, mid + 1, hi, ns))

\* mean of the last `size` samples, earlier samples taken as the zero value
MeanDef(x, zero, size, t) ==
  LDiv(LSumRange([i \in (t - size + 1)..t |-> XAt(x, zero, i)], t - size + 1, t, Len(zero)), R(size))
MavDef(x, zero, size)     == [t \in 1..Len(x) |-> MeanDef(x, zero, size, t)]

\* running sums
AccDef(x) == [t \in 1..Len(x) |-> LSumRange(x, 1, t, Len(x[1]))]

\* moving average of |x[n] - x[n-lag]|   (x a sequence of rationals)
AmdfDef(x, zero, lag, size) ==
  LET xf == [i \in 1..Len(x) |-> F1(x[i])]
      d  == [i \in 1..Len(x) |-> LAbs1(LSub(xf[i], XAt(xf, F1(zero), i - lag)))]
  IN MavDef(d, F1(zero), size)

\* low-pass of |x| / x^2 by g / (1 - R z^-1) from rest: y[t] = g * sum_k R^k u[t-k]; coefficient of R^(k-1) at position k
EnvU(strat, v)   == CASE strat = "abs" -> (IF RLt(v, RZero) THEN RNeg(v) ELSE v)          \* |x|
                      [] strat \in {"squared", "rms"} -> RMul(v, v)                       \* x^2
EnvDef(x, strat) == [t \in 1..Len(x) |-> [k \in 1..t |-> EnvU(strat, x[t - k + 1])]]
\* the same statement as a recurrence on observed samples: u[t] = (y[t] - R*y[t-1]) / g  (the driver solves
\* it in floats with the code's own g and R, snaps to the sample lattice, and TLC judges the identity)
EnvInnovDef(x, strat) == [t \in 1..Len(x) |-> EnvU(strat, x[t])]

\* saturation by the limits that are not None
ClipDefEl(c, el) == LET lo == IF c.low = None THEN el ELSE RMax(el, c.low[1])
                    IN IF c.high = None THEN lo ELSE RMin(lo, c.high[1])
ClipDef(c, x)    == [i \in 1..Len(x) |-> ClipDefEl(c, x[i])]
Bounded(c, y)    == /\ c.low = None  \/ RLe(c.low[1], y)
                    /\ c.high = None \/ RLe(y, c.high[1])

\* zcross: the sign in force when sample t is examined is that of the most recent earlier sample outside
\* the band [-h, h], else the initial one (0 = undecided); output 1 exactly at samples outside the band
\* on the side opposite to that sign.
\* index of the last sample among x[1..t] outside the band (0 if none)
Beyond(h, v) == RLt(h, RAbs(v))                         \* |v| > h: outside the band [-h, h]
ZLastOutside(x, h, t) ==
  LET J == {j \in 1..t : Beyond(h, x[j]) /\ \A k \in (j + 1)..t : ~Beyond(h, x[k])}
  IN IF J = {} THEN 0 ELSE CHOOSE j \in J : TRUE
ZSignAt(x, h, fs, t) == LET j == ZLastOutside(x, h, t - 1) IN
                        IF j = 0 THEN (IF fs = RZero THEN 0 ELSE RSign(fs)) ELSE RSign(x[j])
ZDefAt(x, h, fs, t)  == LET s == ZSignAt(x, h, fs, t) IN
                        IF s # 0 /\ Beyond(h, x[t]) /\ RSign(x[t]) = -s THEN 1 ELSE 0
ZCrossDef(x, h, fs)  == [t \in 1..Len(x) |-> ZDefAt(x, h, fs, t)]

\* unwrap: three relational clauses (the statement leaves the choice between +step/2 and -step/2 open)
UMultiples(x, y, step)     == \A i \in DOMAIN x : RIsInt(RDiv(RSub(y[i], x[i]), step))
USmooth(x, md)             == \A i \in 2..Len(x) : RLe(RAbs(RSub(x[i], x[i - 1])), md)
UUntouched(x, y, md)       == USmooth(x, md) => y = x
UNoBigJump(y, md, step)    == \A i \in 2..Len(y) : RLe(RAbs(RSub(y[i], y[i - 1])), RMax(md, RDiv(step, R(2))))

---------------------------------------------------------------------------
(* Invariants: every reachable state of every machine satisfies the property's clause *)
OnePerSample   == Len(out) = n /\ Len(xs) = n
MavIsMean      == case.tool = "maverage" => out = MavDef(xs, Zero(case), case.size)
AccIsRunSum    == case.tool = "accumulate" => out = AccDef(xs)
FiltIsDiffEq   == IsFilt(case) => DiffEq                  \* register machine == difference equation (module Filter)
AmdfIsMeanDiff == case.tool = "amdf" => out = AmdfDef(xs, case.zero, case.lag, case.size)
EnvIsLowpass   == case.tool = "envelope" => out = EnvDef(xs, case.strat)
ClipSaturates  == case.tool = "clip" => out = ClipDef(case, xs)
ClipBounded    == case.tool = "clip" => \A i \in DOMAIN out : Bounded(case, out[i])
ClipIdempotent == case.tool = "clip" => \A i \in DOMAIN out : ClipEl(case, out[i]) = out[i]
ClipRefuses    == (case.tool = "clip" /\ BadLimits(case)) => out = <<>>
ZCrossIsDef    == case.tool = "zcross" => out = ZCrossDef(xs, case.hyst, case.fs)
UnwrapMultiples == case.tool = "unwrap" => UMultiples(xs, out, case.step)
UnwrapUntouched == case.tool = "unwrap" => UUntouched(xs, out, case.md)
UnwrapNoBigJump == case.tool = "unwrap" => UNoBigJump(out, case.md, case.step)

\* action property: a step reads one sample and appends one output; nothing already emitted is rewritten
\* (with the invariants at every prefix: the defining formulas are causal, as a lazy Stream needs)
AppendOnly == [][n' = n + 1 => /\ Len(out') = Len(out) + 1 /\ SubSeq(out', 1, Len(out)) = out
                              /\ Len(xs') = Len(xs) + 1 /\ SubSeq(xs', 1, Len(xs)) = xs]_avars
===========================================================================
