CONSTANTS
  Cases <- X04Quick
  NegPowRefuses = TRUE
INIT Init
NEXT Next
INVARIANT Refines
INVARIANT Laws
CHECK_DEADLOCK FALSE
