---------------------------- MODULE FilterStructQ ----------------------------
EXTENDS FilterStructG
X02Quick ==
  CombCases({"fb", "ff"}, {R(0), R(1), R(2), R(3), Q(1, 2), Q(5, 4), Q(3, 2), Q(5, 2), R(-1)},
            {C(1), C(-1), CH, C(2), C(0), SP(<<Q(1, 2), R(2)>>), SF(<<R(1), Q(-1, 2), R(2)>>)},
            {TRUE, FALSE}, {"none", "exact"}, {"sym"})
  \cup CombCases({"fb", "ff"}, {R(2), Q(3, 2)}, {CH}, {TRUE}, {"none"}, {"num"})
  \cup CombCases({"fb", "ff"}, {Q(1, 4), Q(3, 4), Q(9, 4)}, {C(1), C(-1), C(2)}, {TRUE}, {"none", "exact"}, {"sym"})
  \cup TauCases({R(1), R(2), Q(3, 2), Q(9, 4)}, {TRUE, FALSE}, {"none", "exact"})
  \cup ListCases({"C", "P", "L"}, ArgSetsQ(0), 0)
  \cup PredCases({"C", "P", "L"}, 0)
  \cup CallCases({MF, MG, MD, M3, FnM}, 2, CallExtraQ(0), {"sym", "num"})
  \cup ZfCases(NumsQ(0), DensQ(0)) \cup ZPowCases(-3..3)
  \cup LinCases(FPolysQ(0), LinDens(0))
  \cup NormRuns(DesignCases({ <<3, <<Inf>> >>, <<4, <<2>> >>, <<2, <<3>> >>, <<0, <<Inf>> >>,
                              <<3, <<Inf, Inf>> >>, <<4, <<2, 3>> >>, <<4, <<Inf, 1>> >>, <<2, <<4, 4>> >> }))
  \cup NameCases(0)
=============================================================================
