CONSTANTS
  MaxLen = 4
  MaxMem = 3
  Cases <- C04Quick
INIT Init
NEXT Next
INVARIANT OnePerInput
INVARIANT DiffEq
INVARIANT NonCausalRefuses
INVARIANT AllZeroFilter
CHECK_DEADLOCK FALSE
