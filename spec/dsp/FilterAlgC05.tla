---------------------------- MODULE FilterAlgC05 ----------------------------
(* Case grids for C05.  The atoms are the filters of DESIGN section 4: constants, the delay, FIR and    *)
(* IIR sections with coefficients in the dyadic rationals, the non-causal z.  Every grid operator takes *)
(* the tier as a parameter (TLC evaluates parameterless constant definitions eagerly at start-up).     *)
EXTENDS FilterAlg

CONSTANT Tier        \* "quick" | "thorough"

Half   == Q2(1, 2)
P1     == PConst(ROne)
\* name |-> tree
AK0    == Lit(PEmpty, P1)                                               \* 0
AK1    == Lit(P1, P1)                                                   \* 1
AK2    == Lit(PConst(R(2)), P1)                                         \* 2
AKm1   == Lit(PConst(R(-1)), P1)                                        \* -1
AZi    == Lit(Mono(1, ROne), P1)                                        \* z^-1
AS     == Lit((0 :> ROne) @@ (1 :> ROne), P1)                           \* 1 + z^-1
AH     == Lit((0 :> ROne) @@ (1 :> RNeg(Half)), P1)                     \* 1 - 1/2 z^-1
AQ     == Lit((0 :> R(2)) @@ (1 :> R(-1)) @@ (2 :> ROne), P1)           \* 2 - z^-1 + z^-2
AIH    == Lit(P1, (0 :> ROne) @@ (1 :> RNeg(Half)))                     \* 1 / (1 - 1/2 z^-1)
AIH2   == Lit(PConst(R(2)), (0 :> ROne) @@ (1 :> RNeg(Half)))           \* 2 / (1 - 1/2 z^-1)
AAP    == Lit((0 :> ROne) @@ (1 :> ROne), (0 :> ROne) @@ (1 :> Half))   \* (1 + z^-1) / (1 + 1/2 z^-1)
AZ     == Lit(Mono(-1, ROne), P1)                                       \* z (non-causal)
AS2    == Lit((0 :> R(2)) @@ (1 :> ROne), P1)                           \* 2 + z^-1  (differs from 1 + z^-1 in the numerator only)
AD2    == Lit(P1, PConst(R(2)))                                         \* 1 / 2 stored with denominator 2 (one-term / one-term, gain 2)
AG     == Lit((0 :> ROne) @@ (1 :> R(-1)), PConst(R(2)))                \* (1 - z^-1) / 2

AtomsAll    == {AK0, AK1, AK2, AKm1, AZi, AS, AH, AQ, AIH, AAP, AZ, AD2}
AtomsSmall  == {AK2, AZi, AS, AH, AIH, AZ, AD2}
Scal        == {R(2), R(-1), Half}
BinOps      == {"add", "sub", "mul", "div", "subst"}
NumOps      == {"add", "sub", "mul", "div"}

\* depth 1 over a set of operand trees A (right operands B)
Depth1(A, B, exps) ==
  {Bn(o, l, r) : o \in BinOps, l \in A, r \in B}
  \cup {Pw(l, e) : l \in A, e \in exps}
  \cup {Bn(o, l, Num(c)) : o \in NumOps, l \in A, c \in Scal}
  \cup {Bn(o, Num(c), r) : o \in NumOps, r \in A, c \in Scal}
  \cup {Un1(o, l) : o \in {"neg", "pos"}, l \in A}
\* depth 2: a depth-1 tree combined with an atom on either side
Depth2(T1, B, ops, exps) ==
  {Bn(o, l, r) : o \in ops, l \in T1, r \in B}
  \cup {Bn(o, l, r) : o \in ops, l \in B, r \in T1}
  \cup {Pw(l, e) : l \in T1, e \in exps}
  \cup {Un1("neg", l) : l \in T1}

Trees(t) ==
  IF t = "quick"
  THEN AtomsAll \cup Depth1(AtomsAll, AtomsAll, -2..3)
       \cup Depth2(Depth1({AS, AIH, AZi}, {AH, AAP}, {-1, 2}), {AQ, AIH}, {"add", "mul", "div"}, {-1, 2})
       \cup {Bn("subst", l, r) : l \in {Bn("add", AIH, AZi), Bn("mul", AS, AH)}, r \in {AIH, AZ, Bn("sub", AZi, Num(Half))}}
  ELSE AtomsAll \cup Depth1(AtomsAll, AtomsAll, -2..3)
       \cup Depth2(Depth1(AtomsSmall, AtomsSmall, {-2, -1, 2}), {AZi, AS, AH, AQ, AIH, AAP}, BinOps, {-1, 2})

\* operand pools of the laws (trees, so that the driver can build them)
PoolPair(t) ==
  IF t = "quick"
  THEN {AK0, AK2, AZi, AS, AS2, AH, AQ, AIH, AIH2, AAP, AZ, AG, Bn("mul", AS, AIH), Bn("add", AIH, AZi), Bn("div", AH, AQ)}
  ELSE AtomsAll \cup {AS2, AIH2, AG, Bn("sub", AQ, AS2), Bn("mul", AIH, AIH2), Bn("subst", AS, AIH), Bn("mul", AS, AIH), Bn("add", AIH, AZi), Bn("div", AH, AQ), Bn("sub", AAP, AIH),
                      Bn("mul", AZi, AZi), Pw(AIH, 2), Bn("div", AS, AAP), Bn("mul", Num(Half), AQ), Pw(AS, 2),
                      Bn("add", AZ, AK1)}
PoolTriple(t) ==
  IF t = "quick" THEN {AK2, AZi, AS, AH, AIH, AAP, AZ}
  ELSE {AK0, AK2, AKm1, AZi, AS, AH, AQ, AIH, AIH2, AAP, AZ, AG, Bn("mul", AS, AIH), Bn("div", AH, AQ), Pw(AS, 2)}
PoolCausal(t) ==
  IF t = "quick" THEN {AK2, AZi, AS, AH, AQ, AIH, AAP, AG}
  ELSE {AK0, AK1, AK2, AKm1, AZi, AS, AH, AQ, AIH, AIH2, AAP, AG, AD2, Bn("mul", AS, AIH), Bn("add", AIH, AZi), Bn("div", AH, AQ)}

C05Grid(t) ==
  {[kind |-> "tree", t |-> x] : x \in Trees(t)}
  \cup {[kind |-> "pair", f |-> x, g |-> y] : x \in PoolPair(t), y \in PoolPair(t)}
  \cup {[kind |-> "triple", f |-> x, g |-> y, h |-> w] : x \in PoolTriple(t), y \in PoolTriple(t), w \in PoolTriple(t)}
  \cup {[kind |-> "one", f |-> x, c |-> c, e |-> e] : x \in PoolCausal(t), c \in Scal, e \in 0..3}
  \cup {[kind |-> "delay", k |-> k] : k \in 0..(MaxLen + 1)}
C05Cases == C05Grid(Tier)
=============================================================================
