CONSTANTS
  MaxLen = 4
  MaxMem = 3
  Cases = {}
  Raw6 <- C06Quick
INIT Init6
NEXT Next6
INVARIANT OnePerInput
INVARIANT DiffEq6
INVARIANT EndsWithShortest6
INVARIANT TeeAccounting
INVARIANT NthValue
INVARIANT ReadBound
INVARIANT EndsExactly
INVARIANT ConstStream
INVARIANT ConstReads0
CHECK_DEADLOCK FALSE
