CONSTANTS
  MaxN = 40
  MaxSize = 10
  MaxHop = 14
  MaxPad = 5
  MaxZN = 6
  Cases <- C08Grid
INIT Init
NEXT Next
INVARIANT TypeOK
INVARIANT BlocksRefine
INVARIANT IdxInv
INVARIANT ResInv
INVARIANT PadOnlyAtEnd
INVARIANT ProducedWhenDue
INVARIANT ZeroPadRefine
PROPERTY Monotone
CHECK_DEADLOCK FALSE
