CONSTANTS
  Sizes = {3}
  ReconSizes = {2, 4}
  Lens = {7}
  Styles = {"direct", "decorator", "partial"}
  ReconWA = {"absent", "tri", "half", "ramp"}
  ReconWS = {"absent", "ones", "tri"}
  Cases <- C09Stft
INIT Init
NEXT Next
INVARIANT ScopeOK
INVARIANT MergeLaterWins
INVARIANT ErrorsAsDefined
INVARIANT OnlyOlaOptions
INVARIANT WindowBeforeFunc
INVARIANT PipelineOrder
INVARIANT StftRefine
INVARIANT IdentityReconstructs
CHECK_DEADLOCK FALSE
