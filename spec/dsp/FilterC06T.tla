----------------------------- MODULE FilterC06T -----------------------------
(* thorough grid of C06                                                                                       *)
EXTENDS FilterC06
C06Thorough == Keep(GridA(Shapes, VarFull)
                    \cup PairsSS(1..8, BSrcQ \cup {Fin(<<2, 1, 1>>)})
                    \cup PairsSL(1..8, 1..4, BSrcF)
                    \cup Powers(1..8, BSrcQ \cup {Fin(<<2, 1, 1>>)})
                    \cup Scalings(1..8, BSrcF)
                    \cup Triples({2, 5, 6}, {Per(<<2, -1, 1>>), Fin(<<-1, 2, 1>>)})
                    \cup Triples({1, 4}, {Fin(<<2, -1>>)}))
=============================================================================
