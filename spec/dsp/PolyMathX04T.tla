---------------------------- MODULE PolyMathX04T ----------------------------
EXTENDS PolyMathX04

TKeyItems == {<<RZero, FALSE>>, <<ROne, FALSE>>, <<R(2), TRUE>>, <<R(-1), FALSE>>, <<Q(3, 2), TRUE>>, <<ROne, TRUE>>,
              <<R(3), FALSE>>, <<Q(1, 2), TRUE>>, <<R(-2), TRUE>>}
TCoefs    == {RZero, ROne, R(2), Q(-1, 2)}
TObjs     == {Obj(<<>>, ZFloat), Obj(<<>>, ZInt), Obj(<< <<ROne, R(2)>> >>, ZInt), Obj(<< <<R(2), ROne>>, <<RZero, R(2)>> >>, ZFloat),
              Obj(<< <<Q(3, 2), R(2)>>, <<R(-1), Q(1, 2)>>, <<ROne, ROne>> >>, ZFrac),
              Obj(<< <<RZero, RZero>>, <<ROne, ROne>> >>, ZV(R(2), "int")),
              Obj(<< <<R(3), Q(-1, 2)>>, <<R(-2), R(2)>>, <<Q(1, 2), ROne>>, <<RZero, R(5)>> >>, ZFloat)}
\* (data sets take a dummy parameter: they are built by the worker that picks the group, not at start-up)
TDataA(u) == {[form |-> "none"]} \cup NumData({RZero, R(2), Q(1, 2), Q(-1, 2)})
             \cup ListData({RZero, ROne, R(2), Q(-1, 2)}, 0..4) \cup {[form |-> "list", s |-> <<R(7), ROne, R(7), Q(-1, 2), RZero, R(7)>>]}
             \cup DictData(TKeyItems, TCoefs, 1) \cup DictData(TKeyItems, TCoefs, 2)
             \cup PolyData(TObjs) \cup OpaqueData
TDataB(u) == DictData(TKeyItems, {ROne, R(2)}, 3)
TDataC(u) == {d \in DictData(TKeyItems, {ROne, R(2), Q(-1, 2)}, 3) : \E i \in 1..3 : d.ps[i].c = Q(-1, 2)}
TDataD(u) == DictData({<<RZero, FALSE>>, <<R(2), TRUE>>, <<Q(3, 2), TRUE>>, <<R(-1), TRUE>>, <<R(5), FALSE>>}, {RZero, R(2)}, 4)

P3a  == (0 :> ROne) @@ (1 :> Q(1, 2)) @@ (2 :> R(-1))
P3b  == (0 :> R(2)) @@ (2 :> R(-1)) @@ (3 :> ROne)
P2s  == (-1 :> Q(1, 2)) @@ (1 :> R(-1))
P2c  == (0 :> ROne) @@ (1 :> ROne)
P2n  == (-2 :> Q(-1, 3)) @@ (3 :> R(2))
P4   == (-1 :> ROne) @@ (0 :> R(-2)) @@ (1 :> Q(1, 2)) @@ (3 :> ROne)
TPolys == {PEmpty, PConst(R(3)), PConst(Q(-1, 2)), PConst(ROne), PX, Mono(2, R(2)), Mono(-2, Q(1, 2)), Mono(-1, R(-1)),
           Mono(3, Q(-2, 3)), Mono(1, R(-3)), P2c, P2s, P2n, P3a, P3b, P4}
TNums  == {RZero, ROne, R(-1), R(2), Q(-1, 2), Q(2, 3)}
TZs    == {ZFloat, ZInt, ZFrac}
TAs    == PVs(TPolys, TZs)

TItems == {Item(RZero, FALSE, R(5)), Item(ROne, TRUE, RZero), Item(ROne, FALSE, R(2)), Item(Q(3, 2), TRUE, ROne),
           Item(R(4), TRUE, R(2)), Item(R(-1), FALSE, R(2)), Item(R(-2), TRUE, Q(-1, 2)), Item(Q(1, 2), TRUE, RZero),
           Item(R(3), FALSE, RZero), Item(RZero, TRUE, Q(-1, 2))}

TReals == {NInt(n) : n \in {-1000, -8, -2, -1, 0, 1, 2, 3, 8, 10, 16, 100, 1000, 1024, 100000}}
          \cup {NFloat(r) : r \in {RZero, Q(1, 2), Q(-1, 2), R(2), R(-1), R(100), Q(1, 1024), Q(3, 4), R(-8), ROne}}
          \cup {NFrac(r) : r \in {Q(1, 2), Q(-1, 3), Q(1, 10), R(-1), Q(1, 100), Q(7, 3), RZero, ROne}}
          \cup {NBool(TRUE), NBool(FALSE)}
TCplx  == {NCplx(a, b) : a \in {R(-1), RZero, ROne, R(3), Q(1, 2)}, b \in {R(-2), RZero, ROne, R(4)}}
TSpec  == {NSpec("inf"), NSpec("-inf"), NSpec("nan"), NSpec("-0.0")}
TAllNums == TReals \cup TCplx \cup TSpec
TBases == {NInt(10), NInt(2), NInt(0), NInt(-1), NInt(1), NInt(3), NInt(-10), NFloat(ROne), NFloat(Q(1, 2)), NFloat(RZero),
           NFloat(Q(-1, 2)), NFloat(R(10)), NFrac(Q(3, 2)), NFrac(ROne), NFrac(Q(-1, 2)), NFrac(RZero), NBool(TRUE), NBool(FALSE),
           NSpec("-0.0"), NSpec("inf"), NSpec("-inf"), NSpec("nan")}
TFactNums == {NInt(n) : n \in -5..60} \cup {NInt(80), NInt(100), NInt(150)} \cup {NFloat(R(n)) : n \in -3..12}
             \cup {NFloat(Q(5, 2)), NFloat(Q(-5, 2)), NFloat(Q(1, 1024)), NBool(TRUE), NBool(FALSE), NFrac(R(3)), NFrac(Q(1, 2)),
                   NCplx(R(3), RZero), NCplx(RZero, RZero), NOther("str"), NOther("none")} \cup TSpec

X04Thorough ==
  [ctor1    |-> G("ctor", CtorCases(TDataA(0), {ZNone})),
   ctor2    |-> G("ctor", CtorCases(TDataA(0), {ZGiven(ZInt)})),
   ctor3    |-> G("ctor", CtorCases(TDataA(0), {ZGiven(ZV(R(2), "int"))})),
   ctor4    |-> G("ctor", CtorCases(TDataA(0), {ZGiven(ZFrac)})),
   ctor5    |-> G("ctor", CtorCases(TDataA(0), {ZGiven(ZV(Q(-1, 2), "float"))})),
   ctor6    |-> G("ctor", CtorCases(TDataB(0), {ZNone})),
   ctor7    |-> G("ctor", CtorCases(TDataB(0), {ZGiven(ZInt)})),
   ctor9    |-> G("ctor", CtorCases(TDataB(0), {ZGiven(ZFrac)})),
   ctor11   |-> G("ctor", CtorCases(TDataC(0), {ZNone})),
   ctor13   |-> G("ctor", CtorCases(TDataC(0), {ZGiven(ZV(R(2), "int"))})),
   ctor15   |-> G("ctor", CtorCases(TDataC(0), {ZGiven(ZV(Q(-1, 2), "float"))})),
   ctor16   |-> G("ctor", CtorCases(TDataD(0), {ZNone})),
   ctor17   |-> G("ctor", CtorCases(TDataD(0), {ZGiven(ZInt)})),
   ctor18   |-> G("ctor", CtorCases(TDataD(0), {ZGiven(ZV(R(2), "int"))})),
   ctor19   |-> G("ctor", CtorCases(TDataD(0), {ZGiven(ZFrac)})),
   ctor20   |-> G("ctor", CtorCases(TDataD(0), {ZGiven(ZV(Q(-1, 2), "float"))})),
   optable  |-> G("optable", {[x |-> 0]}),
   arith    |-> G("arith", ArithCases(TAs, {OPoly(p, z) : p \in {PEmpty, PConst(R(-3)), PX, P2c, P2s, P2n, P3a, P4, Mono(-1, R(-1)), Mono(2, R(2))}, z \in TZs},
                           {ONum(v) : v \in TNums})),
   div      |-> G("div", DivCases(TAs, Operands({PEmpty, PConst(R(3)), PConst(Q(-1, 2)), Mono(1, R(2)), Mono(-2, Q(1, 2)), Mono(3, R(-1)), P2c, P3a, P4},
                                       TZs, {RZero, R(2), Q(-1, 2), ROne, R(-3)}), {ONum(ROne), ONum(R(2)), ONum(RZero)})),
   pow      |-> G("pow", PowCases(TAs, IntExp(-4..4) \cup PolyExp({PEmpty, PConst(R(2)), PConst(R(-1)), PConst(R(3)), PConst(R(-2)), PX, P2c, Mono(-1, ROne)}))),
   powf     |-> G("powf", PowFCases(-3..4, {ROne, R(4), Q(1, 4), R(9), Q(4, 9), R(16), Q(1, 16), R(81)},
                          {Q(1, 2), Q(3, 2), Q(-1, 2), R(2), R(-1), R(3), Q(1, 4), Q(3, 4), Q(-1, 4), Q(5, 2)})),
   calc     |-> G("calc", CalcCases(TAs, -1..4)),
   eqnum    |-> G("eqnum", EqCases(TAs, Operands(TPolys, {ZFloat, ZInt, ZFrac, ZV(R(2), "int")}, TNums \cup {R(3), R(-3)}))),
   scopy    |-> G("scopy", SCopyCases({<<1, 2, 3, 4>>, <<>>, <<7>>, <<5, 6>>}, {"copy", "ctor"})),
   mutc     |-> G("mutc", MutCases(TObjs, {ZNone, ZGiven(ZInt), ZGiven(ZV(R(2), "int"))}, TItems)),
   xobj     |-> G("xobj", {[x |-> 0]}),
   lagnames |-> G("lagnames", {[x |-> 0]}),
   log      |-> G("log", LogCases(TAllNums, TBases)),
   log10    |-> G("log10", XCases(TAllNums)),
   log2     |-> G("log2", XCases(TAllNums)),
   log1p    |-> G("log1p", XCases(TAllNums \cup {NInt(-2), NFloat(Q(-3, 2)), NFrac(Q(-3, 2)), NFloat(Q(-1023, 1024))})),
   fact     |-> G("fact", XCases(TFactNums)),
   db       |-> G("db", DbCases(TAllNums \cup {NInt(-10), NInt(100), NFloat(Q(1, 100)), NInt(1000000), NFrac(Q(1, 1000)), NInt(-10000),
                                       NFloat(R(10)), NFrac(Q(-1, 10))})),
   sign     |-> G("sign", XCases(TAllNums \cup {NOther("str")})),
   abs      |-> G("abs", XCases(TAllNums \cup {NOther("str"), NCplx(Q(3, 2), R(2)), NCplx(R(-5), R(12)), NCplx(R(8), R(-15)), NCplx(Q(3, 5), Q(4, 5))})),
   cexp     |-> G("cexp", XCases(TAllNums \cup {NOther("str")})),
   phase    |-> G("phase", XCases(TAllNums \cup {NOther("str")})),
   consts   |-> G("consts", {[x |-> 0]}),
   mathall  |-> G("mathall", {[x |-> 0]})]
=============================================================================
