CONSTANTS
  Cases <- C14Thorough
INIT Init
NEXT Next
INVARIANT CaseOK
INVARIANT MachineIsGen
INVARIANT LenIsSize
INVARIANT ClosedForm
INVARIANT PeriodicIsPrefixOfSymm
INVARIANT Symmetric
INVARIANT SymmOfOne
INVARIANT RangeUnit
INVARIANT Cola
INVARIANT ColaNotVacuous
CHECK_DEADLOCK FALSE
