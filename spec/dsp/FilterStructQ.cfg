CONSTANTS
  MaxLen = 5
  MaxMem = 4
  Cases <- X02Quick
INIT SInit
NEXT SNext
INVARIANT SOnePerInput
INVARIANT CombMachine
INVARIANT CombLaw
INVARIANT CombLinearized
INVARIANT CallLaw
INVARIANT TeeOnce
INVARIANT CallRefuses
INVARIANT CascadeIsComposition
INVARIANT ListLaws
INVARIANT PredLaws
INVARIANT PolyLaws
INVARIANT ZfLaws
INVARIANT LinLaw
INVARIANT DesignLaw
INVARIANT NamesLaw
CHECK_DEADLOCK FALSE
