CONSTANTS
  Sizes = {3, 4}
  ReconSizes = {2, 3, 4}
  Lens = {6, 9}
  Styles = {"direct", "decorator", "partial"}
  ReconWA = {"absent", "none", "tri", "half", "ramp"}
  ReconWS = {"absent", "none", "ones", "tri"}
  Cases <- C09Stft
INIT Init
NEXT Next
INVARIANT ScopeOK
INVARIANT MergeLaterWins
INVARIANT ErrorsAsDefined
INVARIANT OnlyOlaOptions
INVARIANT WindowBeforeFunc
INVARIANT PipelineOrder
INVARIANT StftRefine
INVARIANT IdentityReconstructs
CHECK_DEADLOCK FALSE
