------------------------------ MODULE PolyObj ------------------------------
(***************************************************************************)
(* One audiolazy.Poly object under any history of item assignments, zero   *)
(* changes, hashing and copying (extension check X04, stateful part).      *)
(*                                                                         *)
(* Operational state: obj = [d, z] (the OrderedDict in creation order and  *)
(* the zero), hashed (the _hash attribute exists).  Definition layer: the  *)
(* polynomial as a SET `cf` of (power, coefficient) pairs and `frozen`.    *)
(* "Usually the instances of this class should be seen as immutable (this  *)
(* is a hashable instance), although there's no enforcement for that (and  *)
(* item set is allowed) until the hash is required."                       *)
(* The full reachable graph is explored (no history bound); every          *)
(* transition is replayed on a real object.                                *)
(***************************************************************************)
EXTENDS PolyVal

CONSTANTS Powers,     \* set of items <<Rat power, given-as-float flag>> a call may name
          Coefs,      \* set of Rat coefficients a call may store (contains the zero values' v)
          Zeros,      \* set of zero values the setter may install
          MaxTerms    \* bound on stored terms (keeps the graph finite; a call that would exceed it is not made)

VARIABLES obj, hashed, cf, frozen, res, last
vars == <<obj, hashed, cf, frozen, res, last>>
View == <<obj, hashed, cf, frozen, res>>

Init == /\ obj \in {Obj(<<>>, z) : z \in Zeros}
        /\ hashed = FALSE /\ cf = {} /\ frozen = FALSE /\ res = "none" /\ last = <<"init">>

SetItem(pw, c) ==
  LET it == Item(pw[1], pw[2], c)
      r  == VSetItem(obj, hashed, it)
  IN /\ Len(r.o.d) <= MaxTerms
     /\ obj' = r.o /\ res' = r.e
     /\ cf' = IF frozen THEN cf ELSE DSetItem(cf, obj.z, it)
     /\ last' = <<"set", pw[1], pw[2], c>>
     /\ UNCHANGED <<hashed, frozen>>

SetZero(z) ==
  LET r == VSetZero(obj, hashed, z)
  IN /\ obj' = r.o /\ res' = r.e
     /\ cf' = IF frozen THEN cf ELSE {t \in cf : t[2] # z.v}
     /\ last' = <<"zero", z.v, z.ty>>
     /\ UNCHANGED <<hashed, frozen>>

Hash == /\ hashed' = TRUE /\ frozen' = TRUE /\ res' = "none" /\ last' = <<"hash">>
        /\ UNCHANGED <<obj, cf>>

\* p = p.copy() / Poly(p): the history goes on with the new object, which is not frozen
Copy(how) == /\ obj' = VCopy(obj, ZNone) /\ hashed' = FALSE /\ frozen' = FALSE /\ res' = "none"
             /\ last' = <<how>> /\ UNCHANGED cf

Next == \/ \E pw \in Powers, c \in Coefs : SetItem(pw, c)
        \/ \E z \in Zeros : SetZero(z)
        \/ Hash
        \/ \E how \in {"copy", "ctor"} : Copy(how)
Spec == Init /\ [][Next]_vars

---------------------------------------------------------------------------
\* the store is the definition layer's polynomial, every power once, no zero stored
Refines      == PairsOf(obj.d) = cf /\ DistinctKeys(obj.d) /\ frozen = hashed
NoZeroStored == \A t \in PairsOf(obj.d) : t[2] # obj.z.v
\* what the views show is what the constructor contract says about the same terms
ViewsCoherent ==
  LET sh == Show(obj)
  IN /\ sh.srt = DSorted(cf) /\ sh.len = Cardinality(cf)
     /\ sh.islaur = DIsLaurent(cf) /\ sh.ispoly = DIsPolynomial(cf) /\ sh.order = DOrder(cf)
     /\ \A i \in DOMAIN ProbeKeys : sh.get[i] = DCoef(cf, obj.z, ProbeKeys[i])
\* once hashed, nothing changes the object and every mutation is refused
FrozenIsFinal == [][(hashed /\ hashed') => (obj' = obj /\ (last'[1] \in {"set", "zero"} => res' = "TypeError"))]_vars
\* creation order: a call never reorders the powers that stay, a new power goes to the end
KeySeq(d) == [i \in DOMAIN d |-> d[i][1]]
Keeps(d, e) == SelectSeq(KeySeq(d), LAMBDA k : k \in KeysOf(e))
CreationOrder == [][/\ Keeps(obj.d, obj'.d) = Keeps(obj'.d, obj.d)
                     /\ \A i, j \in DOMAIN obj'.d :
                           (obj'.d[i][1] \notin KeysOf(obj.d) /\ obj'.d[j][1] \in KeysOf(obj.d)) => j < i]_vars

---------------------------------------------------------------------------
\* constants of the two tiers (substituted in the cfg files; small sets, cheap to build at start-up)
Half     == Norm(1, 2)
PowersQ  == {<<RZero, FALSE>>, <<ROne, FALSE>>, <<ROne, TRUE>>, <<Half, TRUE>>}
CoefsQ   == {RZero, ROne, R(2)}
ZerosQ   == {ZFloat, ZInt, ZV(R(2), "int")}
PowersT  == {<<RZero, FALSE>>, <<ROne, FALSE>>, <<ROne, TRUE>>, <<Half, TRUE>>, <<R(-1), FALSE>>, <<R(-1), TRUE>>}
CoefsT   == {RZero, ROne, R(2), Norm(-1, 2)}
ZerosT   == {ZFloat, ZInt, ZV(R(2), "int"), ZFrac}
============================================================================
