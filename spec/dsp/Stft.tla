-------------------------------- MODULE Stft --------------------------------
(***************************************************************************)
(* audiolazy.lazy_analysis.stft (the wrapper, property C09 second half).   *)
(*                                                                         *)
(* A configuration is a calling style plus up to three keyword layers      *)
(*   direct    : stft(func, <a>)(sig, <c>)                                 *)
(*   decorator : stft(<a>)(func)(sig, <c>)        (@stft(<a>) def func)    *)
(*   partial   : stft(<a>)(<b>)(func)(sig, <c>)                            *)
(* Operational layer (lazy_analysis.py:1061-1147):                         *)
(*   MergeLayer  kws.update(layer), one layer after the other              *)
(*   Validate    size missing / hop > size / ola_* without ola / unknown   *)
(*               keyword -> error; otherwise block parameters and the      *)
(*               overlap-add keyword arguments (size, hop and every ola_*  *)
(*               option with the prefix removed) are split off             *)
(*   ProcBlock   next block of the signal (BlocksDef), multiplied by the   *)
(*               analysis window, then folded through the list             *)
(*               [before, transform, func, inverse_transform, after]       *)
(*               without the entries that are None                         *)
(*   Finish      ola = None: the processed blocks are the result;          *)
(*               otherwise ola(processed blocks, <olaArgs>)              *)
(* Definition layer: "later layer wins" (DefMerged), the nested            *)
(* application after(inverse(func(transform(before(w*B_k))))), DefOla on    *)
(* the processed blocks, Cola2/Covered for the reconstruction theorem.     *)
(* Stages are linear maps on blocks of linear forms that do not commute,   *)
(* so a changed order, a skipped stage or a wrong `size` argument changes  *)
(* the value.  Parameter values: size/hop integers; wnd / ola_wnd a window *)
(* kind ("none" = None); stages a stage name ("None" = None); ola "None" / *)
(* "list" (overlap_add.list) / "stub" (a recording stand-in).              *)
(***************************************************************************)
EXTENDS OlaDef, TLC

CONSTANT Cases
(* case: [style |-> "direct"|"decorator"|"partial", a, b, c |-> keyword layers (functions name -> value; *)
(*        b is empty unless style = "partial"), func |-> stage name, len |-> signal length]              *)

Names    == {"size", "hop", "wnd", "before", "transform", "inverse_transform", "after", "ola",
             "ola_wnd", "ola_normalize", "ola_lag", "zzz"}
\* the ola_-prefixed names and what is left of them when the prefix is removed
OlaStrip == [ola_wnd |-> "wnd", ola_normalize |-> "normalize", ola_lag |-> "lag"]
Known    == {"size", "hop", "wnd", "before", "transform", "inverse_transform", "after", "ola"}
StageNames == <<"before", "transform", "inverse_transform", "after">>

Empty     == [n \in {} |-> 0]
Upd(f, g) == [n \in (DOMAIN f) \cup (DOMAIN g) |-> IF n \in DOMAIN g THEN g[n] ELSE f[n]]   \* dict.update
Restrict(f, S) == [n \in (DOMAIN f) \cap S |-> f[n]]
Layers(c) == IF c.style = "partial" THEN <<c.a, c.b, c.c>> ELSE <<c.a, c.c>>

\* stage functions: linear maps on a block b (transform stages also receive the block size)
Stage(name, b, size) ==
  LET s == Len(b) IN
  CASE name = "id"   -> b
    [] name = "rot"  -> [j \in 1..s |-> b[(j % s) + 1]]
    [] name = "rev"  -> [j \in 1..s |-> b[s + 1 - j]]
    [] name = "ramp" -> [j \in 1..s |-> LScale(R(j), b[j])]
    [] name = "tsz"  -> [j \in 1..s |-> LScale(R(j + size), b[j])]
    [] name = "isz"  -> [j \in 1..s |-> LScale(R(size), b[(j % s) + 1])]

Signal(c) == [i \in 1..c.len |-> LSym(c.len, i)]
NS(c)     == c.len

-----------------------------------------------------------------------------
(* Definition layer                                                          *)
\* later layer wins
DefMerged(c) ==
  LET ls == Layers(c)
      dom == UNION {DOMAIN ls[i] : i \in DOMAIN ls}
      last(n) == CHOOSE i \in DOMAIN ls : n \in DOMAIN ls[i] /\ \A j \in DOMAIN ls : n \in DOMAIN ls[j] => j <= i
  IN [n \in dom |-> ls[last(n)][n]]

Get(kw, n, dflt) == IF n \in DOMAIN kw THEN kw[n] ELSE dflt

DefError(kw) ==
  IF "size" \notin DOMAIN kw THEN "TypeError"
  ELSE IF "hop" \in DOMAIN kw /\ kw["hop"] > kw["size"] THEN "ValueError"
  ELSE IF \E n \in DOMAIN kw : n \notin Known /\ (n \notin DOMAIN OlaStrip \/ kw["ola"] = "None") THEN "TypeError"
  ELSE "none"

\* what the overlap-add is called with: size, hop (0: None) and the ola_ options without their prefix
DefOlaArgs(kw) ==
  LET opts == {n \in DOMAIN kw : n \in DOMAIN OlaStrip} IN
  [n \in {"size", "hop"} \cup {OlaStrip[o] : o \in opts} |->
     IF n = "size" THEN kw["size"]
     ELSE IF n = "hop" THEN Get(kw, "hop", 0)
     ELSE kw[CHOOSE o \in opts : OlaStrip[o] = n]]

\* what C09 demands of the arguments f the overlap-add was really called with: only size, hop and stripped ola_
\* options, each with the value given, nothing given withheld -- a hop that was never given may be left to the
\* strategy's own default (None) instead of being passed as None
OlaArgsOK(f, kw) ==
  LET want == DefOlaArgs(kw) IN
  /\ DOMAIN f \subseteq DOMAIN want
  /\ \A n \in DOMAIN f : \/ f[n] = want[n]
                          \/ (n = "hop" /\ want[n] = 0 /\ f[n] = kw["size"])   \* ... or as its documented default
  /\ \A n \in DOMAIN want : n \in DOMAIN f \/ (n = "hop" /\ want[n] = 0)

\* configurations this model speaks about: numpy is absent, so every stage and the overlap-add
\* strategy must be named (their defaults import numpy); overlap_add.list takes wnd / normalize only
InScope(c) ==
  LET kw == DefMerged(c) IN
  /\ {"before", "transform", "inverse_transform", "after", "ola"} \subseteq DOMAIN kw
  /\ (c.style # "partial" => c.b = Empty)
  /\ (DefError(kw) = "none" /\ kw["ola"] = "list" => "ola_lag" \notin DOMAIN kw)

DefHop(kw)     == EffHop(kw["size"], Get(kw, "hop", 0))
DefBlocksOf(c, kw) == DefBlocks(c.len, kw["size"], DefHop(kw), LAMBDA i : Signal(c)[i], LZero(NS(c)))
DefAnalysisW(kw) == Wnd(Get(kw, "wnd", "none"), kw["size"])

Skip(name, b, size) == IF name = "None" THEN b ELSE Stage(name, b, size)
\* window, then before -> transform -> func -> inverse_transform -> after
DefProcess(c, kw, blk) ==
  LET sz == kw["size"]
      w  == ApplyWnd(DefAnalysisW(kw), blk)
  IN Skip(kw["after"], Skip(kw["inverse_transform"], Stage(c.func, Skip(kw["transform"],
          Skip(kw["before"], w, sz), sz), sz), sz), sz)

DefProcessed(c, kw) == LET B == DefBlocksOf(c, kw) IN [t \in DOMAIN B |-> DefProcess(c, kw, B[t])]
\* what the user function is handed for block t
DefFuncInput(c, kw, blk) ==
  Skip(kw["transform"], Skip(kw["before"], ApplyWnd(DefAnalysisW(kw), blk), kw["size"]), kw["size"])

DefSynthW(kw)  == Wnd(Get(kw, "ola_wnd", "none"), kw["size"])
DefSynthNorm(kw) == Get(kw, "ola_normalize", TRUE)

DefResult(c) ==
  LET kw == DefMerged(c) IN
  IF kw["ola"] = "list"
  THEN DefOla(DefProcessed(c, kw), kw["size"], DefHop(kw), DefSynthW(kw), DefSynthNorm(kw), NS(c))
  ELSE DefProcessed(c, kw)

\* hop-shifted copies of (analysis window * g * synthesis window) sum to one
Cola2(wa, ws, size, h, norm) ==
  LET g == DefG(ws, size, h, norm) IN
  \A j \in 1..h : RMul(g, StrideSum(LAMBDA p : RMul(DefW(wa, p), DefW(ws, p)), size, h, j)) = ROne

IdentityProcessing(c, kw) ==
  /\ c.func = "id"
  /\ \A i \in DOMAIN StageNames : kw[StageNames[i]] = "None"

-----------------------------------------------------------------------------
(* Operational layer                                                         *)
VARIABLES case, li, kws, err, olaArgs, nb, fseen, pb, res, pc, aux
vars == <<case, li, kws, err, olaArgs, nb, fseen, pb, res, pc, aux>>

Init == /\ case \in Cases
        /\ li = 0 /\ kws = Empty /\ err = "none" /\ olaArgs = Empty /\ nb = 0
        /\ fseen = <<>> /\ pb = <<>> /\ res = <<>> /\ pc = "merge"
        /\ aux = [cola |-> FALSE, ident |-> FALSE, nblocks |-> 0]

MergeLayer == /\ pc = "merge" /\ li < Len(Layers(case))
              /\ kws' = Upd(kws, Layers(case)[li + 1])
              /\ li' = li + 1
              /\ UNCHANGED <<case, err, olaArgs, nb, fseen, pb, res, pc, aux>>

Merged == /\ pc = "merge" /\ li = Len(Layers(case))
          /\ pc' = "validate"
          /\ UNCHANGED <<case, li, kws, err, olaArgs, nb, fseen, pb, res, aux>>

\* the code pops the known names and loops over what is left
Leftover == {n \in DOMAIN kws : n \notin Known}
Validate ==
  /\ pc = "validate"
  /\ IF "size" \notin DOMAIN kws THEN err' = "TypeError" /\ pc' = "done" /\ UNCHANGED <<olaArgs, aux>>
     ELSE IF "hop" \in DOMAIN kws /\ kws["hop"] > kws["size"]
          THEN err' = "ValueError" /\ pc' = "done" /\ UNCHANGED <<olaArgs, aux>>
     ELSE IF \E n \in Leftover : n \notin DOMAIN OlaStrip \/ kws["ola"] = "None"
          THEN err' = "TypeError" /\ pc' = "done" /\ UNCHANGED <<olaArgs, aux>>
     ELSE /\ err' = "none" /\ pc' = "blocks"
          /\ olaArgs' = Upd([size |-> kws["size"], hop |-> Get(kws, "hop", 0)],
                            [n \in {OlaStrip[o] : o \in Leftover} |->
                                kws[CHOOSE o \in Leftover : OlaStrip[o] = n]])
          /\ aux' = [cola    |-> Cola2(DefAnalysisW(kws), DefSynthW(kws), kws["size"], DefHop(kws),
                                       DefSynthNorm(kws)),
                     ident   |-> IdentityProcessing(case, kws),
                     nblocks |-> NBlocks(case.len, kws["size"], DefHop(kws))]
  /\ UNCHANGED <<case, li, kws, nb, fseen, pb, res>>

\* funcs = [f for f in [before, trans, func, itrans, after] if f is not None]; reduce over it
RECURSIVE Reduce(_, _, _)
Reduce(fs, data, size) == IF fs = <<>> THEN data ELSE Reduce(Tail(fs), Stage(Head(fs), data, size), size)

BlockSize == kws["size"]
BlockHop  == EffHop(BlockSize, Get(kws, "hop", 0))
ProcBlock ==
  /\ pc = "blocks" /\ nb < NBlocks(case.len, BlockSize, BlockHop)
  /\ LET raw   == DefBlock(nb, case.len, BlockSize, BlockHop, LAMBDA i : Signal(case)[i], LZero(NS(case)))
         wn    == Wnd(Get(kws, "wnd", "none"), BlockSize)
         wblk  == IF wn = <<>> THEN raw ELSE [j \in 1..BlockSize |-> LScale(wn[j], raw[j])]
         pre   == SelectSeq(<<kws["before"], kws["transform"]>>, LAMBDA f : f # "None")
         post  == SelectSeq(<<kws["inverse_transform"], kws["after"]>>, LAMBDA f : f # "None")
         funcs == pre \o <<case.func>> \o post
     IN /\ fseen' = Append(fseen, Reduce(pre, wblk, BlockSize))
        /\ pb'    = Append(pb, Reduce(funcs, wblk, BlockSize))
  /\ nb' = nb + 1
  /\ UNCHANGED <<case, li, kws, err, olaArgs, res, pc, aux>>

Finish ==
  /\ pc = "blocks" /\ nb = NBlocks(case.len, BlockSize, BlockHop)
  /\ res' = IF kws["ola"] = "list"
            THEN CodeOla(pb, olaArgs["size"], EffHop(olaArgs["size"], olaArgs["hop"]),
                         Wnd(Get(olaArgs, "wnd", "none"), olaArgs["size"]), Get(olaArgs, "normalize", TRUE),
                         NS(case))
            ELSE pb
  /\ pc' = "done"
  /\ UNCHANGED <<case, li, kws, err, olaArgs, nb, fseen, pb, aux>>

Next == MergeLayer \/ Merged \/ Validate \/ ProcBlock \/ Finish
Spec == Init /\ [][Next]_vars

-----------------------------------------------------------------------------
ScopeOK == InScope(case)

MergeLaterWins == pc # "merge" => kws = DefMerged(case)

ErrorsAsDefined == pc \in {"blocks", "done"} => err = DefError(DefMerged(case))

\* only size, hop and the ola_-prefixed options (prefix removed) reach the overlap-add
OnlyOlaOptions ==
  pc \in {"blocks", "done"} /\ err = "none" =>
    /\ olaArgs = DefOlaArgs(DefMerged(case))          \* (what this model of the code does; it satisfies ...)
    /\ OlaArgsOK(olaArgs, DefMerged(case))            \* (... what the property demands)
    /\ \A n \in DOMAIN olaArgs : n \in {"size", "hop"} \/ \E o \in DOMAIN kws : o \in DOMAIN OlaStrip /\ OlaStrip[o] = n

\* the user function sees the windowed block (after `before` and `transform` when present)
WindowBeforeFunc ==
  err = "none" /\ pc \in {"blocks", "done"} =>
    LET kw == DefMerged(case)
        B  == DefBlocksOf(case, kw)
    IN \A t \in DOMAIN fseen : fseen[t] = DefFuncInput(case, kw, B[t])

PipelineOrder ==
  err = "none" /\ pc \in {"blocks", "done"} =>
    LET kw == DefMerged(case) IN
    \A t \in DOMAIN pb : pb[t] = DefProcessed(case, kw)[t]

StftRefine == pc = "done" /\ err = "none" => res = DefResult(case)

\* identity processing + windows whose hop-shifted product copies sum to one: the input comes back
\* on every sample covered by all the blocks that can lie over it
IdentityReconstructs ==
  pc = "done" /\ err = "none" /\ kws["ola"] = "list" /\ aux.ident /\ aux.cola =>
    \A n \in 1..case.len : Covered(n, aux.nblocks, BlockSize, BlockHop) => res[n] = Signal(case)[n]
=============================================================================
