---------------------------- MODULE FilterStruct ----------------------------
(***************************************************************************)
(* Extension X02: the parts of audiolazy.lazy_filters that C04/C05/C06/C12 *)
(* do not cover.                                                           *)
(*                                                                         *)
(*  A. comb.fb / comb.ff / comb.tau (and fractional delays through         *)
(*     linearize()) RUN on the register machine of module Filter, which    *)
(*     this module EXTENDS unchanged: a comb case is a case of module      *)
(*     Filter whose b / a / adv fields are produced by CombOp (operational *)
(*     layer: the ZFilter expressions 1 + alpha*z^-D and 1/(1-alpha*z^-D)  *)
(*     and the tap-splitting loop of linearize) and whose documented       *)
(*     behaviour is CombDefSeq (definition layer: the difference equations *)
(*     y[n] = x[n] + alpha*y[n-D] / x[n] + alpha*x[n-D] of the docstrings, *)
(*     a fractional position being the linear interpolation of its two     *)
(*     neighbours).                                                        *)
(*  B. FilterList / CascadeFilter / ParallelFilter as LISTS: constructor   *)
(*     (unpacks a sole non-callable iterable), list operations, == / !=,   *)
(*     is_linear / is_lti / is_causal, callables, numpoly / denpoly /      *)
(*     freq_response refusing non-linear members, and CALLING: cascade =   *)
(*     composition in order, parallel = sum over a tee of the input where  *)
(*     every input item is read exactly once (CallStep: pull accounting).  *)
(*  C. ZFilter construction and properties: numlist / denlist / numdict /  *)
(*     dendict / numpolyz / denpolyz, is_causal, casts, z ** k,            *)
(*     linearize() on polynomials with fractional powers (operational: the *)
(*     split into floor and floor+1; definition: the triangular kernel of  *)
(*     linear interpolation).                                              *)
(*  D. resonator / lowpass / highpass: STRUCTURE only.  Operational layer: *)
(*     each strategy's ZFilter expression evaluated over abstract          *)
(*     coefficients (the set of parameters a coefficient depends on);      *)
(*     definition layer: the orders the docstrings state.  Names, aliases  *)
(*     and defaults of the strategy dictionaries; read accounting of       *)
(*     Stream-valued parameters.                                           *)
(*                                                                         *)
(* Samples are linear forms (module Lin through module Filter).            *)
(***************************************************************************)
EXTENDS Filter, Poly

VARIABLE res
svars == <<vars, res>>

XS       == [i \in 1..MaxLen |-> XSym(i)]
Tup(f)   == f \o <<>>                     \* force a function over 1..n into an explicit tuple
MaxOf(x, y) == IF x > y THEN x ELSE y
IsRun(c) == c.kind = "comb"

---------------------------------------------------------------------------
(* Coefficient records of module Filter: Const(v) or a stream record       *)
CScale(w, c) == IF c.k = "c" THEN Const(RMul(w, c.v))
                ELSE [c EXCEPT !.s = Tup([i \in DOMAIN c.s |-> RMul(w, c.s[i])])]
CNeg(c)      == CScale(R(-1), c)
CAddC(c, d)  == IF c.k = "c" /\ d.k = "c" THEN Const(RAdd(c.v, d.v))
                ELSE IF c.k = "c" THEN [d EXCEPT !.s = Tup([i \in DOMAIN d.s |-> RAdd(c.v, d.s[i])])]
                ELSE IF d.k = "c" THEN [c EXCEPT !.s = Tup([i \in DOMAIN c.s |-> RAdd(c.s[i], d.v)])]
                ELSE [c EXCEPT !.s = Tup([i \in DOMAIN c.s |-> RAdd(c.s[i], d.s[i])])]   \* (same shape)
CZero        == Const(RZero)
COne         == Const(ROne)

(* Polynomials with RATIONAL powers and coefficient records: sequences of  *)
(* <<power, coefficient>> pairs with pairwise distinct powers (creation    *)
(* order, as Poly keeps a non-Laurent polynomial).                         *)
FTerm(p, c)  == <<p, c>>
FPowers(fp)  == {fp[i][1] : i \in DOMAIN fp}
FIsInt(fp)   == \A i \in DOMAIN fp : RIsInt(fp[i][1])
FCoefAt(fp, p) == LET I == {i \in DOMAIN fp : fp[i][1] = p}
                  IN IF I = {} THEN CZero ELSE fp[CHOOSE i \in I : TRUE][2]
\* Poly never stores a constant zero
FDropZero(fp) == SelectSeq(fp, LAMBDA t : ~IsZeroCoef(t[2]))

---------------------------------------------------------------------------
(* linearize(): OPERATIONAL LAYER.  For every term (k, v): an integer k    *)
(* keeps its tap; otherwise left = floor(k), right = left + 1, the right   *)
(* weight is k - left, the left one 1 - (k - left); taps met twice add up. *)
(* (The code computes `left = int(k)`: the same for k >= 0.  For k < 0 the *)
(* specification states the interpolation the docstring promises.)         *)
LinPairs(t) == IF RIsInt(t[1]) THEN << <<t[1][1], t[2]>> >>
               ELSE LET left == RFloor(t[1])
                        wr   == RSub(t[1], R(left))
                        wl   == RSub(ROne, wr)
                    IN << <<left, CScale(wl, t[2])>>, <<left + 1, CScale(wr, t[2])>> >>
RECURSIVE LinAcc(_, _, _)
\* acc: function tap -> coefficient record (constants add; a stream tap is met once in every case used)
LinAcc(acc, ps, i) ==
  IF i > Len(ps) THEN acc
  ELSE LET k == ps[i][1]
           v == ps[i][2]
       IN LinAcc(IF k \in DOMAIN acc THEN [acc EXCEPT ![k] = CAddC(@, v)] ELSE acc @@ (k :> v), ps, i + 1)
RECURSIVE LinLoop(_, _, _)
LinLoop(acc, fp, i) == IF i > Len(fp) THEN acc ELSE LinLoop(LinAcc(acc, LinPairs(fp[i]), 1), fp, i + 1)
\* result: function from integer taps to coefficient records, constant zeros dropped (Poly's constructor)
LinOp(fp) == LET a == LinLoop(<<>>, fp, 1) IN [k \in {j \in DOMAIN a : ~IsZeroCoef(a[j])} |-> a[k]]

(* linearize(): DEFINITION LAYER.  Linear interpolation is the triangular  *)
(* kernel: the term c * z^-p contributes c * max(0, 1 - |j - p|) to tap j. *)
Hat(u)          == LET a == RAbs(u) IN IF RLt(a, ROne) THEN RSub(ROne, a) ELSE RZero
LinDefCoef(fp, j) == RSumFn([i \in DOMAIN fp |-> RMul(fp[i][2].v, Hat(RSub(R(j), fp[i][1])))], DOMAIN fp)
LinDefTaps(fp)  == UNION {{RFloor(fp[i][1]), RCeil(fp[i][1])} : i \in DOMAIN fp}
LinDef(fp)      == LET T == {j \in LinDefTaps(fp) : LinDefCoef(fp, j) # RZero}
                   IN [j \in T |-> Const(LinDefCoef(fp, j))]
FAllConst(fp)   == \A i \in DOMAIN fp : fp[i][2].k = "c"
\* linearize() ends with the class constructor: when the lowest denominator tap is not 0 any more (tap 0 cancelled)
\* both tap functions are shifted (LinearFilter.__init__)
ShiftTaps(t, m) == [k \in {j - m : j \in DOMAIN t} |-> t[k + m]]
LinShift(nt, dt) == IF DOMAIN dt = {} \/ PMinKey(DOMAIN dt) = 0 THEN [n |-> nt, d |-> dt]
                    ELSE [n |-> ShiftTaps(nt, PMinKey(DOMAIN dt)), d |-> ShiftTaps(dt, PMinKey(DOMAIN dt))]

---------------------------------------------------------------------------
(* A. COMB FILTERS                                                         *)
(* OPERATIONAL: the expressions of the three strategies as polynomials in  *)
(* z^-1 with rational powers.  D: delay (rational), al: coefficient record *)
Merge0(c, D, v) == IF D = RZero THEN FDropZero(<< FTerm(RZero, CAddC(c, v)) >>)          \* same power: Poly adds
                   ELSE FDropZero(<< FTerm(RZero, c), FTerm(D, v) >>)
CombNumFP(form, D, al) == IF form = "ff" THEN Merge0(COne, D, al) ELSE << FTerm(RZero, COne) >>
CombDenFP(form, D, al) == IF form = "ff" THEN << FTerm(RZero, COne) >> ELSE Merge0(COne, D, CNeg(al))
\* comb.tau: alpha = e ** (-delay / tau); the only exactly representable case is tau = inf: alpha = 1
TauAlpha(tau) == IF tau = "inf" THEN COne ELSE CZero

\* dense coefficient sequences of module Filter from a tap function: index i = tap (i - 1 - adv)
DenseFrom(tp, adv) == IF DOMAIN tp = {} THEN <<>>
                      ELSE Tup([i \in 1..(PMaxKey(DOMAIN tp) + adv + 1) |->
                                   IF (i - 1 - adv) \in DOMAIN tp THEN tp[i - 1 - adv] ELSE CZero])
AdvOf(tp)          == IF DOMAIN tp = {} THEN 0 ELSE MaxOf(0, -PMinKey(DOMAIN tp))
TapsOf(fp)         == [k \in {fp[i][1][1] : i \in DOMAIN fp} |-> FCoefAt(fp, R(k))]      \* integer powers only

\* the case of module Filter a comb call denotes (lin: linearize() applied)
CombCase(form, D, al0, tau, lin, mem, zero) ==
  LET al == IF form = "tau" THEN TauAlpha(tau) ELSE al0
      nf == CombNumFP(form, D, al)
      df == CombDenFP(form, D, al)
      nt == IF lin THEN LinOp(nf) ELSE TapsOf(nf)
      dt == IF lin THEN LinOp(df) ELSE TapsOf(df)
      av == AdvOf(nt)
  IN [kind |-> "comb", form |-> form, delay |-> D, alpha |-> al, tau |-> tau, lin |-> lin,
      mem |-> mem, zero |-> zero, adv |-> av, b |-> DenseFrom(nt, av), a |-> DenseFrom(dt, 0)]
\* a filter with a non-integer power cannot be run (nor listed): linearize() first
CombRunnable(form, D, lin) == lin \/ RIsInt(D)

(* DEFINITION: the difference equations of the docstrings.                 *)
\* the signal A (a function of an integer time) at the fractional time t - D
AtDelay(A(_), t, D) ==
  IF RIsInt(D) THEN A(t - D[1])
  ELSE LET k == RFloor(D)
           w == RSub(D, R(k))
       IN LAdd(LScale(RSub(ROne, w), A(t - k)), LScale(w, A(t - k - 1)))
RECURSIVE CombDefSeq(_, _)
CombDefSeq(c, t) ==
  IF t = 0 THEN <<>>
  ELSE LET prev == CombDefSeq(c, t - 1)
           tt   == t - 1
           X(j) == IF j < 0 THEN Zero(c) ELSE XSym(j + 1)
           Y(j) == IF j < 0 THEN DefMem(c, -j) ELSE prev[j + 1]
           al   == CoefAt(c.alpha, tt)
           y    == IF c.form = "ff" THEN LAdd(X(tt), LScale(al, AtDelay(X, tt, c.delay)))
                   ELSE IF c.delay = RZero THEN LDiv(X(tt), RSub(ROne, al))      \* y = x + alpha*y
                   ELSE IF RLt(c.delay, ROne) THEN                               \* y[t] occurs on both sides: solved for it
                        LDiv(LAdd(X(tt), LScale(RMul(al, c.delay), Y(tt - 1))), RSub(ROne, RMul(al, RSub(ROne, c.delay))))
                   ELSE LAdd(X(tt), LScale(al, AtDelay(Y, tt, c.delay)))
       IN Append(prev, y)
CombRunLen(c)  == MinOf(MaxLen, CoefLen(c.alpha))
CombExpected(c, len) ==
  IF RLt(c.delay, RZero) THEN [err |-> "ValueError", out |-> <<>>]
  ELSE [err |-> "none", out |-> CombDefSeq(c, MinOf(len, CombRunLen(c)))]

---------------------------------------------------------------------------
(* B. FILTER CONTAINERS                                                    *)
(* Members:  [m |-> "flt", b, a, adv]   a linear filter (fields as in module Filter)              *)
(*           [m |-> "num", c]           a number (callables casts it to LinearFilter)              *)
(*           [m |-> "fn"]               a callable that is not a linear filter: y[t] = (-1)^t x[t] *)
(*           [m |-> "box", cls, items]  a container; cls: "C"ascade "P"arallel "L" FilterList "list" *)
(* Argument only:  [m |-> "seq", items] a list / tuple / generator                                 *)
Flt(b, a, adv)  == [m |-> "flt", b |-> b, a |-> a, adv |-> adv]
NumM(c)         == [m |-> "num", c |-> c]
FnM             == [m |-> "fn"]
Box(cls, items) == [m |-> "box", cls |-> cls, items |-> items]
SeqA(items)     == [m |-> "seq", items |-> items]

\* FilterList.__init__: a sole argument that is iterable and not callable is unpacked.  CascadeFilter and
\* ParallelFilter objects are callable (kept as one member); a FilterList or a plain list is not.
Unpacks(a)      == a.m = "seq" \/ (a.m = "box" /\ a.cls \in {"L", "list"})
Construct(cls, args) == IF Len(args) = 1 /\ Unpacks(args[1]) THEN Box(cls, args[1].items) ELSE Box(cls, args)
\* FilterListMeta.__binary__: cls(super(cls, self).<op>(other)); for a subclass the super call is the same
\* template one level up (FilterList), so the list result is wrapped twice
Rewrap(cls, items) == IF cls = "L" THEN Construct("L", <<Box("list", items)>>)
                      ELSE Construct(cls, <<Construct("L", <<Box("list", items)>>)>>)
RECURSIVE Repeat(_, _)
Repeat(s, k)    == IF k <= 0 THEN <<>> ELSE s \o Repeat(s, k - 1)

\* ---- list operations: OPERATIONAL (what the class does) ----
OpAppend(c, x)   == [c EXCEPT !.items = Append(@, x)]
OpExtend(c, s)   == [c EXCEPT !.items = @ \o s.items]
OpConcat(c, o)   == Rewrap(c.cls, c.items \o o.items)            \* c + o   (o: list or container)
OpRConcat(o, c)  == Box("list", o.items \o c.items)              \* plain list + c: list.__add__
OpTimes(c, k)    == Rewrap(c.cls, Repeat(c.items, k))            \* c * k and k * c
OpIndex(c, i)    == LET len == Len(c.items)
                    IN IF i >= len \/ i < -len THEN [err |-> "IndexError"]
                       ELSE [err |-> "none", v |-> c.items[IF i < 0 THEN len + i + 1 ELSE i + 1]]
\* inherited list methods (used by recorded histories)
OpPop(c, i)      == LET r == OpIndex(c, i)
                        len == Len(c.items)
                        j == IF i < 0 THEN len + i + 1 ELSE i + 1
                    IN IF r.err # "none" THEN [err |-> r.err, box |-> c]
                       ELSE [err |-> "none", v |-> r.v, box |-> [c EXCEPT !.items = SubSeq(@, 1, j - 1) \o SubSeq(@, j + 1, len)]]
OpInsert(c, i, x) == LET len == Len(c.items)
                         j == IF i < 0 THEN MaxOf(0, len + i) ELSE MinOf(i, len)          \* items before the new one
                     IN [c EXCEPT !.items = SubSeq(@, 1, j) \o <<x>> \o SubSeq(@, j + 1, len)]
OpReverse(c)     == [c EXCEPT !.items = [i \in DOMAIN @ |-> @[Len(@) + 1 - i]]]
OpITimes(c, k)   == [c EXCEPT !.items = Repeat(@, k)]             \* c *= k: in place, the class stays
ClipIdx(i, len)  == IF i < 0 THEN MaxOf(0, len + i) ELSE MinOf(i, len)
OpSlice(c, lo, hi) == LET len == Len(c.items)
                      IN Box("list", SubSeq(c.items, ClipIdx(lo, len) + 1, ClipIdx(hi, len)))
\* __eq__: type(self) == type(other) and list.__eq__;  __ne__: type(self) != type(other) or list.__ne__
OpEqC(c, o)      == c.cls = o.cls /\ c.items = o.items
OpNeC(c, o)      == c.cls # o.cls \/ c.items # o.items
\* callables: members that are not callable are cast to LinearFilter
NumAsFlt(c)      == Flt(<<Const(c)>>, <<COne>>, 0)
Callable1(x)     == IF x.m = "num" THEN NumAsFlt(x.c) ELSE x
Callables(c)     == Tup([i \in DOMAIN c.items |-> Callable1(c.items[i])])

\* ---- predicates: OPERATIONAL (the all(...) folds over callables) ----
FltLti(f)        == (\A i \in DOMAIN f.b : ~IsStr(f.b[i])) /\ (\A i \in DOMAIN f.a : ~IsStr(f.a[i]))
FltCausal(f)     == ~Noncausal(f)
RECURSIVE IsLinearOp(_), IsLtiOp(_), IsCausalOp(_)
IsLinearOp(c) == \A i \in DOMAIN c.items :
                    LET x == Callable1(c.items[i])
                    IN x.m = "flt" \/ (x.m = "box" /\ IsLinearOp(x))          \* hasattr(filt, "is_linear")
IsLtiOp(c)    == IsLinearOp(c) /\ \A i \in DOMAIN c.items :
                    LET x == Callable1(c.items[i])
                    IN IF x.m = "flt" THEN FltLti(x) ELSE IsLtiOp(x)
IsCausalOp(c) == \A i \in DOMAIN c.items :
                    LET x == Callable1(c.items[i])
                    IN IF x.m = "flt" THEN FltCausal(x) ELSE IF x.m = "box" THEN IsCausalOp(x) ELSE TRUE
\* ---- predicates: DEFINITION (over the leaves of the nested structure) ----
RECURSIVE Leaves(_)
Leaves(c) == IF c.items = <<>> THEN <<>>
             ELSE LET h == Head(c.items)
                  IN (IF h.m = "box" THEN Leaves(h) ELSE <<h>>) \o Leaves([c EXCEPT !.items = Tail(@)])
LeafSet(c)     == {Leaves(c)[i] : i \in DOMAIN Leaves(c)}
IsLinearDef(c) == \A x \in LeafSet(c) : x.m \in {"flt", "num"}
IsLtiDef(c)    == \A x \in LeafSet(c) : x.m = "num" \/ (x.m = "flt" /\ FltLti(x))
IsCausalDef(c) == \A x \in LeafSet(c) : x.m = "flt" => FltCausal(x)

\* ---- numpoly / denpoly of a linear LTI container as one fraction ----
FV(nn, dd)    == [n |-> nn, d |-> dd]
PolyOfCoefs(cs, adv) == [k \in {i - 1 - adv : i \in {j \in DOMAIN cs : ~IsZeroCoef(cs[j])}} |-> cs[k + 1 + adv].v]
FVOf(x)       == IF x.m = "num" THEN FV(PConst(x.c), PConst(ROne)) ELSE FV(PolyOfCoefs(x.b, x.adv), PolyOfCoefs(x.a, 0))
SMake(nn, dd) == LET m == PMinKey(DOMAIN dd)                                 \* LinearFilter.__init__ shift
                 IN IF m = 0 THEN FV(nn, dd) ELSE FV(OpMul(nn, Mono(-m, ROne)), OpMul(dd, Mono(-m, ROne)))
\* operational: CascadeFilter folds Poly products over callables; ParallelFilter folds ZFilter.__add__
\* (equal-denominator shortcut) over the members cast to filters
SOpAdd(f, g)  == IF f.d = g.d THEN SMake(OpAdd(f.n, g.n), f.d)
                 ELSE SMake(OpAdd(OpMul(f.n, g.d), OpMul(g.n, f.d)), OpMul(f.d, g.d))
RECURSIVE FoldAddOp(_, _, _), FoldMulOp(_, _, _), FoldAddDef(_, _, _), FoldMulDef(_, _, _)
SOpMulND(f, g) == FV(OpMul(f.n, g.n), OpMul(f.d, g.d))
FoldAddOp(fs, i, acc) == IF i > Len(fs) THEN acc ELSE FoldAddOp(fs, i + 1, SOpAdd(acc, fs[i]))
FoldMulOp(fs, i, acc) == IF i > Len(fs) THEN acc ELSE FoldMulOp(fs, i + 1, SOpMulND(acc, fs[i]))
ContainerPolysOp(c) == LET fs == Tup([i \in DOMAIN c.items |-> FVOf(c.items[i])])
                       IN IF c.cls = "C" THEN FoldMulOp(fs, 2, fs[1]) ELSE FoldAddOp(fs, 2, fs[1])
\* definition: the product / the sum of the members' rational functions
QAddS(f, g)   == FV(DefAdd(DefMul(f.n, g.d), DefMul(g.n, f.d)), DefMul(f.d, g.d))
QMulS(f, g)   == FV(DefMul(f.n, g.n), DefMul(f.d, g.d))
QEquivS(f, g) == DefMul(f.n, g.d) = DefMul(g.n, f.d)
FoldAddDef(fs, i, acc) == IF i > Len(fs) THEN acc ELSE FoldAddDef(fs, i + 1, QAddS(acc, fs[i]))
FoldMulDef(fs, i, acc) == IF i > Len(fs) THEN acc ELSE FoldMulDef(fs, i + 1, QMulS(acc, fs[i]))
ContainerPolysDef(c) == LET fs == Tup([i \in DOMAIN c.items |-> FVOf(c.items[i])])
                        IN IF c.cls = "C" THEN FoldMulDef(fs, 2, fs[1]) ELSE FoldAddDef(fs, 2, fs[1])
\* access to numpoly / denpoly / freq_response
PolyAccess(c) == IF ~IsLinearOp(c) THEN [err |-> "AttributeError"] ELSE [err |-> "none", v |-> ContainerPolysOp(c)]
FlatLinear(c) == \A i \in DOMAIN c.items : c.items[i].m \in {"flt", "num"}

\* ---- calling: DEFINITION ----
\* a constant-coefficient causal filter at rest on an arbitrary input: x[<0] = y[<0] = the zero value
RECURSIVE SysTo(_, _, _, _)
SysTo(f, xs, zv, t) ==
  IF t = 0 THEN <<>>
  ELSE LET prev == SysTo(f, xs, zv, t - 1)
           tt   == t - 1
           X(j) == IF j < 0 THEN zv ELSE xs[j + 1]
           Y(j) == IF j < 0 THEN zv ELSE prev[j + 1]
           fw   == [k \in 0..(Len(f.b) - 1) |-> LScale(f.b[k + 1].v, X(tt - k))]
           bw   == [k \in 1..(Len(f.a) - 1) |-> LScale(f.a[k + 1].v, Y(tt - k))]
       IN Append(prev, LDiv(LSub(SumTerms(fw, 0, Len(f.b) - 1), SumTerms(bw, 1, Len(f.a) - 1)), f.a[1].v))
Alt(xs)        == Tup([i \in DOMAIN xs |-> IF i % 2 = 1 THEN xs[i] ELSE LNeg(xs[i])])
RECURSIVE CallDef(_, _, _), MemberOut(_, _, _), CascFrom(_, _, _, _), ParFrom(_, _, _, _, _)
MemberOut(x, xs, zv) ==
  IF x.m = "flt" THEN SysTo(x, xs, zv, Len(xs))
  ELSE IF x.m = "num" THEN Tup([i \in DOMAIN xs |-> LScale(x.c, xs[i])])
  ELSE IF x.m = "fn" THEN Alt(xs)
  ELSE CallDef(x, xs, zv)
CascFrom(items, i, data, zv) == IF i > Len(items) THEN data ELSE CascFrom(items, i + 1, MemberOut(items[i], data, zv), zv)
ParFrom(items, i, acc, xs, zv) ==
  IF i > Len(items) THEN acc
  ELSE LET o == MemberOut(items[i], xs, zv)
       IN ParFrom(items, i + 1, Tup([t \in DOMAIN acc |-> LAdd(acc[t], o[t])]), xs, zv)
CallDef(c, xs, zv) ==
  IF c.cls = "C" THEN CascFrom(c.items, 1, xs, zv)                                \* empty: the input itself
  ELSE IF c.items = <<>> THEN Tup([i \in DOMAIN xs |-> zv])                       \* empty: the zero value
  ELSE ParFrom(c.items, 2, MemberOut(c.items[1], xs, zv), xs, zv)
RunnableBox(c) == IsCausalDef(c) /\ \A x \in LeafSet(c) : x.m = "flt" => FltLti(x)

\* ---- calling: OPERATIONAL pull accounting (thub of the input with one branch per member) ----
RECURSIVE PullAll(_, _, _)
PullAll(cur, reads, i) ==
  IF i > Len(cur) THEN [cur |-> cur, reads |-> reads]
  ELSE LET need == cur[i] + 1
       IN PullAll([cur EXCEPT ![i] = need], IF need > reads THEN reads + 1 ELSE reads, i + 1)
CallInit(c) == [reads |-> 0, cur |-> IF c.cls = "P" THEN [i \in DOMAIN c.items |-> 0] ELSE <<>>]

---------------------------------------------------------------------------
(* C. ZFilter VALUES AND PROPERTIES (constant rational coefficients)       *)
\* numlist / denlist: ValueError for a negative power, else the dense list up to the highest power
DenseList(p)  == IF \E k \in DOMAIN p : k < 0 THEN [err |-> "ValueError"]
                 ELSE [err |-> "none",
                       v |-> IF DOMAIN p = {} THEN <<>> ELSE Tup([i \in 1..(PMaxKey(DOMAIN p) + 1) |-> PCoef(p, i - 1)])]
\* numpolyz: operational Poly(numerator[::-1])
RevSeq(s)     == Tup([i \in DOMAIN s |-> s[Len(s) + 1 - i]])
PolyOfList(s) == Compact([k \in {i - 1 : i \in DOMAIN s} |-> s[k + 1]])
PolyZOp(p)    == LET l == DenseList(p) IN IF l.err # "none" THEN l ELSE [err |-> "none", v |-> PolyOfList(RevSeq(l.v))]
\* definition: z^N * p(z^-1) with N the highest power: coefficient of z^j is the coefficient of z^-(N-j)
PolyZDef(p)   == IF DOMAIN p = {} THEN PEmpty
                 ELSE LET N == PMaxKey(DOMAIN p) IN [j \in {N - k : k \in DOMAIN p} |-> p[N - j]]
ZfResult(nn, dd) ==
  LET f == SMake(nn, dd)
  IN [n |-> f.n, d |-> f.d, causal |-> \A k \in DOMAIN f.n : k >= 0,
      numlist |-> DenseList(f.n), denlist |-> DenseList(f.d), numpolyz |-> PolyZOp(f.n), denpolyz |-> PolyZOp(f.d)]
\* LinearFilter(filter, den): the filter divided by den (a number or a ZFilter), then the constructor shift
SOpDiv(f, g)  == SMake(OpMul(f.n, g.d), OpMul(f.d, g.n))
QDivS(f, g)   == FV(DefMul(f.n, g.d), DefMul(f.d, g.n))
CastOp(f, den) == IF den.m = "none" THEN f
                  ELSE IF den.m = "num" THEN SMake(OpMul(f.n, PConst(RInv(den.c))), f.d)       \* self * (1 / number)
                  ELSE SOpDiv(f, SMake(den.n, den.d))
CastDef(f, den) == IF den.m = "none" THEN f
                   ELSE IF den.m = "num" THEN QDivS(f, FV(PConst(den.c), PConst(ROne)))
                   ELSE QDivS(f, FV(den.n, den.d))
ZPow(k)       == SMake(Mono(-k, ROne), PConst(ROne))         \* z ** k: the polynomial variable is z^-1

---------------------------------------------------------------------------
(* D. DESIGNED FILTERS: STRUCTURE                                          *)
(* An abstract coefficient is [dep |-> set of parameter names, one |-> it  *)
(* is the literal 1].  Expressions: [o |-> "k", dep], [o |-> "one"],       *)
(* [o |-> "zm", k] (z^-k), [o |-> "add"|"sub"|"mul"|"div", l, r].          *)
AC(dep)        == [dep |-> dep, one |-> FALSE]
AOne           == [dep |-> {}, one |-> TRUE]
AMulC(a, b)    == IF a.one THEN b ELSE IF b.one THEN a ELSE AC(a.dep \cup b.dep)
AAddC(a, b)    == AC(a.dep \cup b.dep)
AAddP(p, q)    == [k \in DOMAIN p \cup DOMAIN q |->
                     IF k \in DOMAIN p /\ k \in DOMAIN q THEN AAddC(p[k], q[k]) ELSE IF k \in DOMAIN p THEN p[k] ELSE q[k]]
ANegP(p)       == [k \in DOMAIN p |-> IF p[k].one THEN AC({}) ELSE p[k]]
AMulP(p, q)    == [k \in {i + j : i \in DOMAIN p, j \in DOMAIN q} |->
                     LET I  == {i \in DOMAIN p : (k - i) \in DOMAIN q}
                         i0 == CHOOSE i \in I : TRUE
                     IN IF Cardinality(I) = 1 THEN AMulC(p[i0], q[k - i0])
                        ELSE AC(UNION {p[i].dep \cup q[k - i].dep : i \in I})]
AFV(nn, dd)    == [n |-> nn, d |-> dd]
KE(dep)        == [o |-> "k", dep |-> dep]
OneE           == [o |-> "one"]
ZmE(k)         == [o |-> "zm", k |-> k]
BE(o, l, r)    == [o |-> o, l |-> l, r |-> r]
RECURSIVE AVal(_)
AVal(e) ==
  IF e.o = "k" THEN AFV(0 :> AC(e.dep), 0 :> AOne)
  ELSE IF e.o = "one" THEN AFV(0 :> AOne, 0 :> AOne)
  ELSE IF e.o = "zm" THEN AFV(e.k :> AOne, 0 :> AOne)
  ELSE LET f == AVal(e.l)
           g == AVal(e.r)
       IN IF e.o = "add" THEN (IF f.d = g.d THEN AFV(AAddP(f.n, g.n), f.d)
                               ELSE AFV(AAddP(AMulP(f.n, g.d), AMulP(g.n, f.d)), AMulP(f.d, g.d)))
          ELSE IF e.o = "sub" THEN (IF f.d = g.d THEN AFV(AAddP(f.n, ANegP(g.n)), f.d)
                               ELSE AFV(AAddP(AMulP(f.n, g.d), AMulP(ANegP(g.n), f.d)), AMulP(f.d, g.d)))
          ELSE IF e.o = "mul" THEN AFV(AMulP(f.n, g.n), AMulP(f.d, g.d))
          ELSE AFV(AMulP(f.n, g.d), AMulP(f.d, g.n))
\* the strategies, transcribed (R, cost, gain, G: intermediate values with the parameters they depend on)
Cut == {"cutoff"}
FB  == {"freq", "bandwidth"}
BW  == {"bandwidth"}
OnePoleDen(sign, dep) == BE(sign, OneE, BE("mul", KE(dep), ZmE(1)))                  \* 1 -/+ R * z^-1
OneZeroNum(sign)      == BE(sign, OneE, ZmE(1))                                      \* 1 +/- z^-1
ResDen(d1)            == BE("add", BE("sub", OneE, BE("mul", KE(d1), ZmE(1))), BE("mul", KE(BW), ZmE(2)))
DesignExpr(fam, name) ==
  IF fam = "lowpass" THEN
       (IF name \in {"pole", "pole_exp"} THEN BE("div", KE(Cut), OnePoleDen("sub", Cut))         \* (1 - R) / (1 - R z^-1)
        ELSE BE("div", BE("mul", KE(Cut), OneZeroNum("add")), OnePoleDen("add", Cut)))           \* G (1 + z^-1) / (1 + R z^-1)
  ELSE IF fam = "highpass" THEN
       (IF name \in {"pole", "pole_exp"} THEN BE("div", KE(Cut), OnePoleDen("add", Cut))
        ELSE BE("div", BE("mul", KE(Cut), OneZeroNum("sub")), OnePoleDen("sub", Cut)))
  ELSE IF name \in {"poles_exp", "freq_poles_exp"} THEN BE("div", KE(FB), ResDen(FB))            \* gain / denominator
  ELSE BE("div", BE("mul", KE(BW), BE("sub", OneE, ZmE(2))), ResDen(FB))                         \* gain (1 - z^-2) / den
DesignNames(fam) == IF fam = "resonator" THEN <<"poles_exp", "freq_poles_exp", "z_exp", "freq_z_exp">>
                    ELSE <<"pole", "z", "pole_exp", "z_exp">>
DesignParams(fam) == IF fam = "resonator" THEN <<"freq", "bandwidth">> ELSE <<"cutoff">>
DesignDefault(fam) == IF fam = "lowpass" THEN "pole" ELSE IF fam = "highpass" THEN "z" ELSE "poles_exp"
\* DEFINITION: what the docstrings say
DocPoles(fam)        == IF fam = "resonator" THEN 2 ELSE 1
DocNumPowers(fam, name) ==
  IF fam = "resonator" THEN (IF name \in {"z_exp", "freq_z_exp"} THEN {0, 2} ELSE {0})    \* zeros at 1 and -1 / none
  ELSE (IF name \in {"z", "z_exp"} THEN {0, 1} ELSE {0})                                  \* one zero / no zeros
\* strategy dictionaries: every name tuple, first name first (comb is the fourth dictionary of the module)
StrategyNames(fam) ==
  IF fam = "comb" THEN << <<"fb", "alpha", "fb_alpha", "feedback_alpha">>, <<"tau", "fb_tau", "feedback_tau">>,
                          <<"ff", "ff_alpha", "feedforward_alpha">> >>
  ELSE Tup([i \in DOMAIN DesignNames(fam) |-> <<DesignNames(fam)[i]>>])
StrategyDefault(fam) == IF fam = "comb" THEN "fb" ELSE DesignDefault(fam)
\* shape of a designed filter when the parameters in S are Streams
DesignShape(fam, name, S) ==
  LET v == AVal(DesignExpr(fam, name))
  IN [num |-> DOMAIN v.n, den |-> DOMAIN v.d, den0one |-> v.d[0].one,
      numS |-> {k \in DOMAIN v.n : v.n[k].dep \cap S # {}}, denS |-> {k \in DOMAIN v.d : v.d[k].dep \cap S # {}}]
\* run of a designed filter whose Stream parameters have the given lengths (Inf: endless): one read per
\* output from every parameter stream, none at construction, the output ends with the shortest
DesignRunLen(inlen, lens) == MinLen({inlen} \cup {lens[i] : i \in DOMAIN lens})
ReadsOk(reads, nout, len) == reads >= nout /\ reads <= MinOf(nout + 1, len)

---------------------------------------------------------------------------
(* THE CHECKING MACHINE                                                    *)
(* comb cases run on Step / Refuse of module Filter; call cases step the   *)
(* pull accounting; every other kind is evaluated once into `res`.         *)
Result(c) ==
  CASE c.kind = "listop" ->
         (LET b == Construct(c.cls, c.args)
          IN CASE c.op = "build"   -> [v |-> b]
               [] c.op = "append"  -> [v |-> OpAppend(b, c.x)]
               [] c.op = "extend"  -> [v |-> OpExtend(b, c.x)]
               [] c.op = "concat"  -> [v |-> OpConcat(b, c.x)]
               [] c.op = "rconcat" -> [v |-> OpRConcat(c.x, b)]
               [] c.op = "times"   -> [v |-> OpTimes(b, c.k)]
               [] c.op = "index"   -> [v |-> b, r |-> OpIndex(b, c.k)]
               [] c.op = "slice"   -> [v |-> b, r |-> OpSlice(b, c.lo, c.hi)]
               [] c.op = "cmp"     -> [v |-> b, o |-> IF c.x.m = "seq" THEN Box("list", c.x.items) ELSE c.x,
                                       eq |-> OpEqC(b, IF c.x.m = "seq" THEN Box("list", c.x.items) ELSE c.x),
                                       ne |-> OpNeC(b, IF c.x.m = "seq" THEN Box("list", c.x.items) ELSE c.x)]
               [] c.op = "pred"    -> [v |-> b, callables |-> Callables(b), linear |-> IsLinearOp(b),
                                       lti |-> IsLtiOp(b), causal |-> IsCausalOp(b)]
               [] c.op = "polys"   -> [v |-> b, r |-> PolyAccess(b)])
    [] c.kind = "zf"     -> ZfResult(c.n, c.d)
    [] c.kind = "cast"   -> [v |-> CastOp(SMake(c.n, c.d), c.den)]
    [] c.kind = "zpow"   -> (LET f == ZPow(c.k) IN [n |-> f.n, d |-> f.d, causal |-> \A k \in DOMAIN f.n : k >= 0,
                                                    numlist |-> DenseList(f.n), back |-> SOpDiv(f, ZPow(c.k))])
    [] c.kind = "lin"    -> (LET r == LinShift(LinOp(c.n), LinOp(c.d))
                             IN [n |-> r.n, d |-> r.d, runnable |-> FIsInt(c.n) /\ FIsInt(c.d)])
    [] c.kind = "design" -> [shape |-> DesignShape(c.fam, c.name, c.S),
                             nout  |-> DesignRunLen(c.inlen, c.lens)]
    [] c.kind = "names"  -> [names |-> StrategyNames(c.fam), default |-> StrategyDefault(c.fam)]

SInit == /\ case \in Cases /\ n = 0 /\ out = <<>> /\ err = "none"
         /\ IF IsRun(case) THEN /\ mreg = MemInit(case)
                                /\ dreg = [k \in 1..(Lb(case) - 1) |-> Zero(case)]
                                /\ res = <<>>
            ELSE /\ mreg = <<>> /\ dreg = <<>>
                 /\ res = IF case.kind = "call" THEN CallInit(case.c) ELSE <<>>

CombRun    == IsRun(case) /\ Step /\ UNCHANGED res          \* Step / Refuse of module Filter
CombRefuse == IsRun(case) /\ Refuse /\ UNCHANGED res

CallValue(c, pre, zv) == LET o == CallDef(c, pre, zv) IN o[Len(pre)]
CallStep ==
  /\ case.kind = "call" /\ RunnableBox(case.c) /\ n < MaxLen
  /\ LET p == PullAll(res.cur, res.reads, 1)
     IN /\ res' = IF case.c.cls = "P" /\ case.c.items # <<>> THEN p ELSE [res EXCEPT !.reads = @ + 1]
        /\ out' = Append(out, CallValue(case.c, SubSeq(XS, 1, n + 1), Zero(case)))
  /\ n' = n + 1 /\ UNCHANGED <<case, mreg, dreg, err>>
CallRefuse ==
  /\ case.kind = "call" /\ ~IsCausalDef(case.c) /\ err = "none"
  /\ err' = "ValueError" /\ UNCHANGED <<case, n, out, mreg, dreg, res>>
Eval ==
  /\ case.kind \notin {"comb", "call"} /\ err = "none"
  /\ res' = Result(case) /\ err' = "evaluated"
  /\ UNCHANGED <<case, n, out, mreg, dreg>>
SNext == CombRun \/ CombRefuse \/ CallStep \/ CallRefuse \/ Eval
SSpec == SInit /\ [][SNext]_svars

---------------------------------------------------------------------------
(* INVARIANTS                                                              *)
Done(k)        == case.kind = k /\ err = "evaluated"
DoneOp(o)      == Done("listop") /\ case.op = o
SOnePerInput   == Len(out) = n
\* A: the machine of module Filter on comb cases == its difference equation == the comb equation
CombMachine    == IsRun(case) => DiffEq /\ NonCausalRefuses /\ EndsWithShortest
CombLaw        == IsRun(case) => LET e == CombExpected(case, n)
                                 IN IF e.err = "none" THEN ~Noncausal(case) /\ out = e.out
                                    ELSE Noncausal(case) /\ out = <<>>
CombLinearized == IsRun(case) /\ case.lin /\ case.alpha.k = "c" =>          \* linearize == interpolation kernel
                     /\ LinOp(CombNumFP(case.form, case.delay, case.alpha)) = LinDef(CombNumFP(case.form, case.delay, case.alpha))
                     /\ LinOp(CombDenFP(case.form, case.delay, case.alpha)) = LinDef(CombDenFP(case.form, case.delay, case.alpha))
\* B: calling
CallLaw        == case.kind = "call" /\ RunnableBox(case.c) => out = SubSeq(CallDef(case.c, XS, Zero(case)), 1, n)
TeeOnce        == case.kind = "call" => /\ res.reads = n
                                        /\ \A i \in DOMAIN res.cur : res.cur[i] = n
CallRefuses    == case.kind = "call" /\ ~IsCausalDef(case.c) => out = <<>> /\ n = 0
CascadeIsComposition ==        \* two flat members: cascade(x) = g(f(x)), parallel(x) = f(x) + g(x)
  case.kind = "call" /\ RunnableBox(case.c) /\ Len(case.c.items) = 2 /\ n = MaxLen =>
     LET f  == case.c.items[1]
         g  == case.c.items[2]
         zv == Zero(case)
         fo == MemberOut(f, XS, zv)
         go == MemberOut(g, XS, zv)
     IN IF case.c.cls = "C" THEN out = MemberOut(g, fo, zv)
        ELSE out = Tup([t \in 1..MaxLen |-> LAdd(fo[t], go[t])])
\* B: list semantics (Python's list, stated on the item sequences)
ListLaws ==
  /\ DoneOp("build")   => LET a == case.args
                          IN res.v.cls = case.cls /\
                             res.v.items = (IF Len(a) = 1 /\ Unpacks(a[1]) THEN a[1].items ELSE a)
  /\ DoneOp("append")  => res.v.cls = case.cls /\ res.v.items = Construct(case.cls, case.args).items \o <<case.x>>
  /\ DoneOp("extend")  => res.v.cls = case.cls /\ res.v.items = Construct(case.cls, case.args).items \o case.x.items
  /\ DoneOp("concat")  => res.v.cls = case.cls /\ res.v.items = Construct(case.cls, case.args).items \o case.x.items
  /\ DoneOp("rconcat") => res.v.cls = "list" /\ res.v.items = case.x.items \o Construct(case.cls, case.args).items
  /\ DoneOp("times")   => LET base == Construct(case.cls, case.args).items
                          IN /\ res.v.cls = case.cls
                             /\ Len(res.v.items) = MaxOf(0, case.k) * Len(base)
                             /\ \A i \in DOMAIN res.v.items : res.v.items[i] = base[((i - 1) % Len(base)) + 1]
  /\ DoneOp("index")   => LET len == Len(res.v.items)
                          IN IF case.k >= len \/ case.k < -len THEN res.r.err = "IndexError"
                             ELSE res.r.v = res.v.items[((case.k + len) % len) + 1]
  /\ DoneOp("slice")   => \A i \in DOMAIN res.r.items : res.r.items[i] \in {res.v.items[j] : j \in DOMAIN res.v.items}
  /\ DoneOp("cmp")     => /\ res.eq # res.ne                                      \* exactly one of == and !=
                          /\ res.eq <=> (res.v = res.o)                           \* same class, same members in order
PredLaws ==
  DoneOp("pred") => /\ res.linear = IsLinearDef(res.v)
                    /\ res.lti = (IsLinearDef(res.v) /\ IsLtiDef(res.v))
                    /\ res.causal = IsCausalDef(res.v)
                    /\ Len(res.callables) = Len(res.v.items)
                    /\ \A i \in DOMAIN res.callables :
                          IF res.v.items[i].m = "num" THEN res.callables[i].m = "flt" ELSE res.callables[i] = res.v.items[i]
PolyLaws ==
  DoneOp("polys") => /\ (res.r.err = "AttributeError") <=> ~IsLinearDef(res.v)
                     /\ res.r.err = "none" /\ FlatLinear(res.v) => QEquivS(res.r.v, ContainerPolysDef(res.v))
\* C
ZfLaws ==
  /\ Done("zf") => /\ PMinKey(DOMAIN res.d) = 0 /\ IsPoly(res.n) /\ IsPoly(res.d)
                   /\ QEquivS(FV(res.n, res.d), FV(case.n, case.d))                 \* the same rational function
                   /\ res.causal <=> (res.numlist.err = "none")
                   /\ res.denlist.err = "none"
                   /\ res.causal => /\ \A k \in 0..(Len(res.numlist.v) - 1) : res.numlist.v[k + 1] = PCoef(res.n, k)
                                    /\ res.numpolyz.v = PolyZDef(res.n)
                   /\ res.denpolyz.v = PolyZDef(res.d)
  /\ Done("cast") => QEquivS(res.v, CastDef(SMake(case.n, case.d), case.den)) /\ PMinKey(DOMAIN res.v.d) = 0
  /\ Done("zpow") => /\ res.causal <=> (case.k <= 0)
                     /\ res.n = Mono(-case.k, ROne) /\ res.d = PConst(ROne)
                     /\ res.back = FV(PConst(ROne), PConst(ROne))                    \* z**k / z**k = 1
LinLaw ==
  Done("lin") /\ FAllConst(case.n) /\ FAllConst(case.d) =>
     LET r == LinShift(LinDef(case.n), LinDef(case.d)) IN res.n = r.n /\ res.d = r.d /\ (DOMAIN res.d # {} => PMinKey(DOMAIN res.d) = 0)
\* D
DesignLaw ==
  Done("design") => LET s == res.shape
                    IN /\ s.den = 0..DocPoles(case.fam)                              \* one pole / two poles
                       /\ s.num = DocNumPowers(case.fam, case.name)                  \* no zeros / one zero / zeros at +-1
                       /\ s.den0one
                       /\ (case.S = {}) => s.numS = {} /\ s.denS = {}
                       /\ (case.S # {}) => s.denS # {} /\ 0 \notin s.denS
                       /\ res.nout <= case.inlen
NamesLaw ==
  Done("names") => /\ (res.default = res.names[1][1] \/ case.fam = "highpass")   \* first strategy, unless reassigned
                   /\ \A i, j \in DOMAIN res.names : i # j =>
                         {res.names[i][k] : k \in DOMAIN res.names[i]} \cap {res.names[j][k] : k \in DOMAIN res.names[j]} = {}
                   /\ \E i \in DOMAIN res.names : res.default \in {res.names[i][k] : k \in DOMAIN res.names[i]}
=============================================================================
