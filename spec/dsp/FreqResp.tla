------------------------------ MODULE FreqResp ------------------------------
(***************************************************************************)
(* Property C12: audiolazy LinearFilter / CascadeFilter / ParallelFilter   *)
(* .freq_response, lazy_analysis.dft and their agreement with what a FIR   *)
(* filter does to signals, at the frequencies w_m = m*pi/2 (m = 0..3)      *)
(* where e^{-jw} is a Gaussian integer, so that every quantity is an exact *)
(* Gaussian rational (module CRat).                                        *)
(*                                                                         *)
(* Operational layer (shaped like the code)                                *)
(*   PolyCall     Poly.__call__: zero coefficients are not terms; Horner-  *)
(*                like scheme with merged powers for polynomials, plain    *)
(*                sum of coeff * value ** power for Laurent polynomials    *)
(*   OpSection    LinearFilter.freq_response: z_ = exp(-jw); num, den by   *)
(*                PolyCall; nan when den == 0, else num / den              *)
(*   OpFilt       reduce(mul) over a cascade, reduce(add) over a parallel  *)
(*                bank (a float nan absorbs)                               *)
(*   StepFr       the `elementwise` wrapper: one call per element of the   *)
(*                frequency container, in order, same kind of container    *)
(*   StepTd       the generated FIR generator on complex samples:          *)
(*                d-registers loaded with zero, m0 = (sum b_k d_k) / a0,   *)
(*                shift high-to-low                                        *)
(*   StepDft      dft: per frequency, in order, left-to-right sum of       *)
(*                x[n] * cexp(-j n f), divided by len(blk) when normalised *)
(* Definition layer (shaped like the property)                             *)
(*   DirectSum    sum_k c_k e^{-jwk}                                       *)
(*   DefSection   H(w) = sum_k b_k e^{-jwk} / sum_k a_k e^{-jwk}           *)
(*   TF           transfer function of a cascade (product of the rational  *)
(*                functions, by convolution of coefficient sequences) and  *)
(*                of a parallel bank (sum over a common denominator)       *)
(*   DefY         the FIR difference equation on x[n]                      *)
(*   DftDef       X(w) = sum_n x[n] (e^{-jw})^n  [/ N]                     *)
(* Invariants relate the layers (bottom of the module).                    *)
(***************************************************************************)
EXTENDS CRat, TLC, FiniteSets

CONSTANTS Cases,     \* function: group key -> set of case records (see below); it is applied one group at a
                     \* time by the Pick action, so that TLC's workers build the grid in parallel (initial
                     \* states are computed by a single thread)
          MaxLen     \* number of input samples fed to the time-domain cases

(* A section (LinearFilter):  [b |-> <<rationals>>, a |-> <<rationals>> (a[1] # 0), adv |-> Nat]     *)
(*   numerator coefficient i sits at delay i-1-adv (adv > 0: Laurent numerator), denominator          *)
(*   coefficient i at delay i-1.                                                                       *)
(* A filter:  [comb |-> "single" | "cascade" | "parallel", secs |-> <<sections>>]                     *)
(* Cases:                                                                                              *)
(*   [kind |-> "fr",  filt, ms |-> <<m, ...>> (frequency indices, w = m*pi/2), cont |-> container]    *)
(*   [kind |-> "td",  sec (FIR: a = <<a0>>, adv = 0), m, sig |-> "exp" | "imp"]                        *)
(*   [kind |-> "dft", x |-> <<Gaussian rationals>>, ms, norm |-> BOOLEAN,                              *)
(*                    lin |-> BOOLEAN, y |-> block like x, al, be |-> rationals]                       *)

NaN       == <<<<0, 0>>, <<0, 0>>>>         \* not a Gaussian rational (denominator 0): float nan
W(m)      == UnitJ(-m)                      \* e^{-j w_m}
Expo(m, t) == UnitJ(m * t)                  \* e^{+j w_m t}, the complex exponential of frequency w_m

MaxOf(S)  == CHOOSE x \in S : \A y \in S : y <= x
MaxI(x, y) == IF x < y THEN y ELSE x
CSumFn(f, lo, hi) == CSumRange(f, lo, hi)           \* sum_{i = lo..hi} f[i], by halving (module CRat)
RECURSIVE RSumFn(_, _, _)
RSumFn(f, lo, hi) == IF lo > hi THEN RZero
                     ELSE IF lo = hi THEN f[lo]
                     ELSE LET mid == (lo + hi) \div 2 IN RAdd(RSumFn(f, lo, mid), RSumFn(f, mid + 1, hi))

---------------------------------------------------------------------------
(* Operational layer: freq_response                                        *)

\* Poly stores only non-zero coefficients: the (power, coefficient) terms of a coefficient sequence
Terms(cs, adv) == {<<i - 1 - adv, cs[i]>> : i \in {j \in DOMAIN cs : cs[j] # RZero}}
Pows(T)        == {t[1] : t \in T}
CoefOf(T, p)   == (CHOOSE t \in T : t[1] = p)[2]

RECURSIVE HornerFrom(_, _, _, _)
\* reduce(horner_step, pairs) over the remaining terms T (all powers below opow), then * value ** last_power
HornerFrom(T, zv, opow, res) ==
  IF T = {} THEN CMul(res, CPow(zv, opow))
  ELSE LET np    == MaxOf(Pows(T))
           scale == IF opow = np + 1 THEN zv ELSE CPow(zv, opow - np)
       IN HornerFrom({t \in T : t[1] # np}, zv, np, CAdd(CReal(CoefOf(T, np)), CMul(res, scale)))

RECURSIVE SumTermsAt(_, _)
\* sum(coeff * value ** power for power, coeff in terms())
SumTermsAt(T, zv) ==
  IF T = {} THEN CZero
  ELSE LET t == CHOOSE u \in T : TRUE
       IN CAdd(CScale(t[2], CPow(zv, t[1])), SumTermsAt(T \ {t}, zv))

\* Poly.__call__(value) for a value of modulus 1 (so never the `value == 0` shortcut)
PolyCall(T, zv) ==
  IF T = {} THEN CZero                                            \* empty polynomial: its zero
  ELSE IF \A t \in T : t[1] >= 0                                  \* is_polynomial(): Horner-like scheme
       THEN LET p == MaxOf(Pows(T)) IN HornerFrom({t \in T : t[1] # p}, zv, p, CReal(CoefOf(T, p)))
       ELSE SumTermsAt(T, zv)

\* LinearFilter.freq_response at w_m
OpSection(sec, m) ==
  LET zv  == W(m)
      num == PolyCall(Terms(sec.b, sec.adv), zv)
      den == PolyCall(Terms(sec.a, 0), zv)
  IN IF den = CZero THEN NaN ELSE CDiv(num, den)

NMul(x, y) == IF x = NaN \/ y = NaN THEN NaN ELSE CMul(x, y)
NAdd(x, y) == IF x = NaN \/ y = NaN THEN NaN ELSE CAdd(x, y)

RECURSIVE ReduceResp(_, _, _, _, _)
\* functools.reduce(op, (filt.freq_response(freq) for filt in self.callables)): left fold from the first item
ReduceResp(comb, secs, m, i, acc) ==
  IF i > Len(secs) THEN acc
  ELSE LET r == OpSection(secs[i], m)
       IN ReduceResp(comb, secs, m, i + 1, IF comb = "cascade" THEN NMul(acc, r) ELSE NAdd(acc, r))

OpFilt(f, m) == IF f.comb = "single" THEN OpSection(f.secs[1], m)
                ELSE ReduceResp(f.comb, f.secs, m, 2, OpSection(f.secs[1], m))

\* the `elementwise` decorator: what comes back for a container of frequencies
SetKinds  == {"set", "frozenset"}
LazyKinds == {"generator", "map"}                 \* generators stay generators
Kinds     == {"scalar", "list", "tuple", "deque", "Stream"} \cup SetKinds \cup LazyKinds
ResultType(cont)  == IF cont \in LazyKinds THEN "generator" ELSE cont
Contents(cont, vals) == IF cont \in SetKinds THEN {vals[i] : i \in DOMAIN vals} ELSE vals

---------------------------------------------------------------------------
(* Operational layer: FIR filter on complex samples, dft                   *)

LastNZ(cs) == LET nz == {i \in DOMAIN cs : cs[i] # RZero} IN IF nz = {} THEN 0 ELSE MaxOf(nz)
Lb(sec)    == LastNZ(sec.b)
Order(sec) == MaxI(Lb(sec) - 1, 0)                \* number of d-registers = length of the filter memory

Sig(c, t)  == IF c.sig = "exp" THEN Expo(c.m, t) ELSE IF t = 0 THEN COne ELSE CZero

\* dft: sum(xn * cexp(-1j * n * f) for n, xn in enumerate(blk)) [ / len(blk) ]
RECURSIVE DftFold(_, _, _, _)
DftFold(x, m, n, acc) == IF n >= Len(x) THEN acc
                         ELSE DftFold(x, m, n + 1, CAdd(acc, CMul(x[n + 1], UnitJ(-(n * m)))))
OpDft(x, m, norm) == LET s == DftFold(x, m, 0, CZero) IN IF norm THEN CScaleDiv(s, R(Len(x))) ELSE s

Combo(c) == [n \in DOMAIN c.x |-> CAdd(CScale(c.al, c.x[n]), CScale(c.be, c.y[n]))]

---------------------------------------------------------------------------
VARIABLES case,    \* the case being run
          k,       \* number of results produced so far
          out,     \* the results: responses (fr), output samples (td), tuples of dft values (dft)
          dreg,    \* td: the generated code's registers d1..d(lb-1)
          ref      \* td: freq_response(w) of the filter, called before filtering
vars == <<case, k, out, dreg, ref>>

Init == /\ case \in {[kind |-> "group", g |-> g] : g \in DOMAIN Cases}
        /\ k = 0 /\ out = <<>> /\ dreg = <<>> /\ ref = CZero

\* a case of the group is chosen; a time-domain case loads its registers with zero and asks freq_response(w)
Pick == /\ case.kind = "group"
        /\ case' \in Cases[case.g]
        /\ dreg' = IF case'.kind = "td" THEN [j \in 1..Order(case'.sec) |-> CZero] ELSE <<>>
        /\ ref'  = IF case'.kind = "td" THEN OpSection(case'.sec, case'.m) ELSE CZero
        /\ UNCHANGED <<k, out>>

\* one more element of the frequency container goes through freq_response
StepFr == /\ case.kind = "fr" /\ k < Len(case.ms)
          /\ out' = Append(out, OpFilt(case.filt, case.ms[k + 1]))
          /\ k' = k + 1
          /\ UNCHANGED <<case, dreg, ref>>

\* one more input sample goes through the generated FIR code
StepTd == /\ case.kind = "td" /\ k < MaxLen
          /\ LET sec == case.sec
                 lb  == Lb(sec)
                 x   == Sig(case, k)
                 d   == [j \in 0..(lb - 1) |-> IF j = 0 THEN x ELSE dreg[j]]
                 fwd == [j \in 0..(lb - 1) |-> CScale(sec.b[j + 1], d[j])]
                 m0  == IF lb = 0 THEN CZero ELSE CScaleDiv(CSumFn(fwd, 0, lb - 1), sec.a[1])
             IN /\ out'  = Append(out, m0)
                /\ dreg' = [j \in 1..(lb - 1) |-> IF j = 1 THEN x ELSE dreg[j - 1]]
          /\ k' = k + 1
          /\ UNCHANGED <<case, ref>>

\* one more frequency of `freqs` is transformed
StepDft == /\ case.kind = "dft" /\ k < Len(case.ms)
           /\ LET m == case.ms[k + 1]
              IN out' = Append(out, IF case.lin
                                    THEN <<OpDft(case.x, m, case.norm), OpDft(case.y, m, case.norm),
                                           OpDft(Combo(case), m, case.norm)>>
                                    ELSE <<OpDft(case.x, m, case.norm)>>)
           /\ k' = k + 1
           /\ UNCHANGED <<case, dreg, ref>>

Next == Pick \/ StepFr \/ StepTd \/ StepDft
Spec == Init /\ [][Next]_vars

---------------------------------------------------------------------------
(* Definition layer                                                        *)

\* sum_k c_k e^{-j w_m k}, coefficient i at delay k = i-1-adv
DirectSum(cs, adv, m) ==
  CSumFn([i \in DOMAIN cs |-> CScale(cs[i], UnitJ(-(m * (i - 1 - adv))))], 1, Len(cs))

\* H(w) of one rational transfer function; nan where the denominator vanishes
DefSection(sec, m) ==
  LET den == DirectSum(sec.a, 0, m)
  IN IF den = CZero THEN NaN ELSE CDiv(DirectSum(sec.b, sec.adv, m), den)

\* polynomial product / sum on coefficient sequences
Conv(p, q) ==
  IF p = <<>> \/ q = <<>> THEN <<>>
  ELSE [n \in 1..(Len(p) + Len(q) - 1) |->
          RSumFn([i \in 1..Len(p) |-> IF n + 1 - i >= 1 /\ n + 1 - i <= Len(q)
                                      THEN RMul(p[i], q[n + 1 - i]) ELSE RZero], 1, Len(p))]
At(p, n)   == IF n \in DOMAIN p THEN p[n] ELSE RZero
PAdd(p, q) == [n \in 1..MaxI(Len(p), Len(q)) |-> RAdd(At(p, n), At(q, n))]
Delay(p, d) == [n \in 1..(IF p = <<>> THEN 0 ELSE Len(p) + d) |-> IF n <= d THEN RZero ELSE p[n - d]]

\* product and sum of two rational transfer functions
TFMul(s, t) == [b |-> Conv(s.b, t.b), a |-> Conv(s.a, t.a), adv |-> s.adv + t.adv]
TFAdd(s, t) == LET ad == MaxI(s.adv, t.adv)
               IN [b |-> PAdd(Conv(Delay(s.b, ad - s.adv), t.a), Conv(Delay(t.b, ad - t.adv), s.a)),
                   a |-> Conv(s.a, t.a), adv |-> ad]
RECURSIVE TFFold(_, _, _, _)
TFFold(comb, secs, i, acc) ==
  IF i > Len(secs) THEN acc
  ELSE TFFold(comb, secs, i + 1, IF comb = "cascade" THEN TFMul(acc, secs[i]) ELSE TFAdd(acc, secs[i]))
\* the transfer function of the whole structure as one rational function
TF(f) == IF f.comb = "single" THEN f.secs[1] ELSE TFFold(f.comb, f.secs, 2, f.secs[1])

\* what the property promises for freq_response at w_m
DefFilt(f, m) == DefSection(TF(f), m)

\* FIR difference equation  a0 y[t] = sum_j b_j x[t-j],  x[<0] = 0
DefY(c, t) ==
  CScaleDiv(CSumFn([j \in 0..(Len(c.sec.b) - 1) |-> IF t - j >= 0 THEN CScale(c.sec.b[j + 1], Sig(c, t - j))
                                                    ELSE CZero], 0, Len(c.sec.b) - 1), c.sec.a[1])

\* X(w_m) = sum_n x[n] (e^{-j w_m})^n, divided by N in the normalised form
DftDef(x, m, norm) ==
  LET s == CSumFn([n \in 0..(Len(x) - 1) |-> CMul(x[n + 1], CPow(W(m), n))], 0, Len(x) - 1)
  IN IF norm THEN CScaleDiv(s, R(Len(x))) ELSE s
Mean(x) == CScaleDiv(CSumSeq(x), R(Len(x)))

(* Guards: the part of the input space the property speaks about.          *)
\* denominator of a section at w_m: non-zero ("bounded away from zero" on the lattice of the pools), or
\* vanishing at w = 0, the one frequency where the code's float denominator is then exactly zero
DenOK(sec, m)     == m = 0 \/ DirectSum(sec.a, 0, m) # CZero
CoveredFilt(f, m) == \A i \in DOMAIN f.secs : DenOK(f.secs[i], m)
Covered(c) ==
  CASE c.kind = "fr"  -> \A i \in DOMAIN c.ms : CoveredFilt(c.filt, c.ms[i])
    [] c.kind = "td"  -> TRUE
    [] c.kind = "dft" -> ~(c.norm /\ c.x = <<>>)

---------------------------------------------------------------------------
(* Invariants                                                              *)

\* freq_response is the transfer function: of the section, of the product across a cascade, of the sum
\* across a parallel bank; nan exactly where the (combined) denominator vanishes; element by element
TransferFunction ==
  case.kind = "fr" => \A i \in 1..k : out[i] = DefFilt(case.filt, case.ms[i])
\* "multiplies across a cascade and adds across a parallel bank": the response of the structure is the
\* product / sum of the sections' transfer-function values, and that is the value of the structure's own
\* transfer function (polynomial product / sum over the common denominator)
RECURSIVE FoldDef(_, _, _, _, _)
FoldDef(comb, secs, m, i, acc) ==
  IF i > Len(secs) THEN acc
  ELSE FoldDef(comb, secs, m, i + 1, IF comb = "cascade" THEN NMul(acc, DefSection(secs[i], m))
                                     ELSE NAdd(acc, DefSection(secs[i], m)))
CombineDef(f, m) == FoldDef(f.comb, f.secs, m, 2, DefSection(f.secs[1], m))
CascadeProduct ==
  (case.kind = "fr" /\ case.filt.comb = "cascade") =>
      \A i \in 1..k : /\ out[i] = CombineDef(case.filt, case.ms[i])
                      /\ CombineDef(case.filt, case.ms[i]) = DefFilt(case.filt, case.ms[i])
ParallelSum ==
  (case.kind = "fr" /\ case.filt.comb = "parallel") =>
      \A i \in 1..k : /\ out[i] = CombineDef(case.filt, case.ms[i])
                      /\ CombineDef(case.filt, case.ms[i]) = DefFilt(case.filt, case.ms[i])
PerElement ==
  case.kind = "fr" => /\ Len(out) = k
                      /\ \A i \in 1..k : out[i] = OpFilt(case.filt, case.ms[i])
NanWhereDenVanishes ==
  case.kind = "fr" => \A i \in 1..k : (out[i] = NaN) <=> (DirectSum(TF(case.filt).a, 0, case.ms[i]) = CZero)

\* time domain (FIR): the register machine computes the difference equation; once the memory is full a
\* complex exponential comes out scaled by freq_response(w); the unnormalised DFT of the impulse response
\* (any number of samples >= its length) is freq_response(w)
DiffEqC     == case.kind = "td" => /\ Len(out) = k
                                   /\ \A t \in 0..(k - 1) : out[t + 1] = DefY(case, t)
RefIsH      == case.kind = "td" => ref = DefSection(case.sec, case.m)
SteadyState == (case.kind = "td" /\ case.sig = "exp") =>
                  \A t \in Order(case.sec)..(k - 1) : out[t + 1] = CMul(ref, Expo(case.m, t))
DftOfImpulseResponse ==
  (case.kind = "td" /\ case.sig = "imp" /\ k >= Lb(case.sec)) => DftDef(out, case.m, FALSE) = ref

\* dft is the defining sum, linear in the block, DC bin of the normalised form = mean
DftIsDefiningSum ==
  case.kind = "dft" => \A i \in 1..k : out[i][1] = DftDef(case.x, case.ms[i], case.norm)
DftLinear ==
  (case.kind = "dft" /\ case.lin) =>
      \A i \in 1..k : /\ out[i][2] = DftDef(case.y, case.ms[i], case.norm)
                      /\ out[i][3] = DftDef(Combo(case), case.ms[i], case.norm)
                      /\ out[i][3] = CAdd(CScale(case.al, out[i][1]), CScale(case.be, out[i][2]))
DcBinIsMean ==
  (case.kind = "dft" /\ case.norm) => \A i \in 1..k : case.ms[i] = 0 => out[i][1] = Mean(case.x)

---------------------------------------------------------------------------
(* What the property promises for a whole case (used by the trace module)  *)
ExpectedFr(c)  == [i \in DOMAIN c.ms |-> DefFilt(c.filt, c.ms[i])]
ExpectedDft(c) == [i \in DOMAIN c.ms |-> DftDef(c.x, c.ms[i], c.norm)]
===========================================================================
