---------------------------- MODULE FreqRespC12Quick ----------------------------
(* Root module of the quick tier of C12: the only parameterless grid TLC builds in this run. *)
EXTENDS FreqRespC12
TierCases == Grid("quick")
============================================================================
