------------------------------ MODULE Windows ------------------------------
(***************************************************************************)
(* audiolazy.lazy_analysis.window / wsymm  (property C14).                 *)
(*                                                                         *)
(* Operational layer: the two code templates the library fills with a      *)
(* formula string and exec()s --                                           *)
(*   periodic:  return [F(n, size) for n in xrange(size)]                  *)
(*   symmetric: if size == 1: return [1.0]                                 *)
(*              size, indexes = size - 1, xrange(size)                     *)
(*              return [F(n, size) for n in indexes]                       *)
(* as a machine call -> loop (one sample per step) -> ret, with the        *)
(* formulas F transcribed operation by operation from the table.           *)
(* Definition layer: the documented closed forms (`math` / `math_symm` of  *)
(* the table: the periodic formula with size, the symmetric one with       *)
(* size - 1), the prefix, symmetry, range and constant-overlap contracts.  *)
(* Samples are exact trigonometric forms (module TrigForm): rational       *)
(* numbers wherever the closed form is rational, canonical combinations of *)
(* cos(2 pi p/q) otherwise, so the relational contracts are decided at     *)
(* every size and not only where cos is rational.                          *)
(***************************************************************************)
EXTENDS TrigForm, WindowTable, TLC, FiniteSets

CONSTANT Cases      \* set of [name |-> sname, kind |-> "periodic"|"symm", size |-> 1.., alpha |-> <<n,d>>]

ADflt == <<0, 0>>                      \* "argument not given" (also the alpha of parameterless windows)
DefaultAlpha(name) == IF name = "blackman" THEN <<4, 25>> ELSE ROne     \* alpha=.16 / alpha=1
AlphaOf(name, a)   == IF a = ADflt THEN DefaultAlpha(name) ELSE a

---------------------------------------------------------------------------
(* The formulas of the table, in the code's order of operations            *)
RC(r) == TConst(r)

Formula(name, n, size, alpha) ==
  CASE name = "hann"       -> TScale(<<1, 2>>, TSub(RC(ROne), TCos(n, size)))
    [] name = "hamming"    -> TSub(RC(<<27, 50>>), TScale(<<23, 50>>, TCos(n, size)))
    [] name = "rect"       -> RC(ROne)
    [] name = "bartlett"   -> RC(RSub(ROne, RMul(RDiv(R(2), R(size)), RAbs(RSub(R(n), RDiv(R(size), R(2)))))))
    [] name = "triangular" -> RC(RSub(ROne, RMul(RDiv(R(2), R(size + 2)), RAbs(RSub(R(n), RDiv(R(size), R(2)))))))
    [] name = "blackman"   -> TSub(TAdd(RC(RDiv(RSub(ROne, alpha), R(2))),
                                        TScale(RDiv(alpha, R(2)), TCos(2 * n, size))),
                                   TScale(<<1, 2>>, TCos(n, size)))
    [] name = "cos"        -> TPow(TSin(n, 2 * size), alpha[1])          \* natural exponents only
ExpOK(name, alpha) == name # "cos" \/ (alpha[2] = 1 /\ alpha[1] >= 0)

VARIABLES case, pc, sz, cnt, n, out
vars == <<case, pc, sz, cnt, n, out>>

Alpha == AlphaOf(case.name, case.alpha)

Init == /\ case \in Cases
        /\ pc = "call" /\ sz = 0 /\ cnt = 0 /\ n = 0 /\ out = <<>>

Call == /\ pc = "call"
        /\ IF case.kind = "symm" /\ case.size = 1
           THEN out' = <<RC(ROne)>> /\ pc' = "ret" /\ UNCHANGED <<sz, cnt>>
           ELSE /\ sz'  = IF case.kind = "symm" THEN case.size - 1 ELSE case.size
                /\ cnt' = case.size
                /\ pc'  = "loop" /\ UNCHANGED out
        /\ UNCHANGED <<case, n>>

Loop == /\ pc = "loop" /\ n < cnt
        /\ out' = Append(out, Formula(case.name, n, sz, Alpha))
        /\ n' = n + 1
        /\ UNCHANGED <<case, pc, sz, cnt>>

Return == /\ pc = "loop" /\ n = cnt
          /\ pc' = "ret"
          /\ UNCHANGED <<case, sz, cnt, n, out>>

Next == Call \/ Loop \/ Return
Spec == Init /\ [][Next]_vars

\* the whole list a call returns (same templates, as a function; used for the *other* window of a contract)
GenList(name, kind, size, alpha) ==
  IF kind = "symm" /\ size = 1 THEN <<RC(ROne)>>
  ELSE LET s == IF kind = "symm" THEN size - 1 ELSE size
       IN [k \in 1..size |-> Formula(name, k - 1, s, AlphaOf(name, alpha))]

---------------------------------------------------------------------------
(* Definition layer: documented closed forms.  N is the `size` of the periodic formula.          *)
(* (The LaTeX of bartlett/triangular in the docstrings misplaces a fraction bar -- |(n-size)/2|  *)
(* for |n - size/2| -- and would describe a ramp; the windows' names, "triangular starting with  *)
(* zero" / "with no zero end-point", and the table formulas agree on the triangle stated here.)  *)
\* [sin(pi k/N)]^alpha: natural exponents by repeated product-to-sum; for any other positive exponent the
\* power is known exactly where the base is 0 or 1 (and is then the base itself)
IsNatExp(alpha)     == alpha[2] = 1 /\ alpha[1] >= 0
PowKnown(b, alpha)  == IsNatExp(alpha) \/ (alpha[2] > 0 /\ alpha[1] > 0 /\ TIsConst(b) /\ TValue(b) \in {RZero, ROne})
CosPow(b, alpha)    == IF IsNatExp(alpha) THEN TPow(b, alpha[1]) ELSE b

Math(name, k, N, alpha) ==
  CASE name = "hann"       -> TScale(<<1, 2>>, TSub(RC(ROne), TCos(k, N)))
    [] name = "hamming"    -> TAdd(RC(<<27, 50>>), TScale(<<-23, 50>>, TCos(k, N)))
    [] name = "rect"       -> RC(ROne)
    [] name = "bartlett"   -> RC(Norm(N - Abs(2 * k - N), N))                  \* 1 - |2k - N| / N
    [] name = "triangular" -> RC(Norm(N + 2 - Abs(2 * k - N), N + 2))
    [] name = "blackman"   -> TAdd(TAdd(RC(RDiv(RSub(ROne, alpha), R(2))), TScale(<<-1, 2>>, TCos(k, N))),
                                   TScale(RDiv(alpha, R(2)), TCos(2 * k, N)))
    [] name = "cos"        -> CosPow(TSin(k, 2 * N), alpha)

Closed(name, kind, k, size, alpha) ==
  LET a == AlphaOf(name, alpha) IN
  IF kind = "periodic" THEN Math(name, k, size, a)
  ELSE IF size = 1 THEN RC(ROne)
  ELSE IF name = "triangular" THEN RC(Norm(size + 1 - Abs(2 * k - size + 1), size + 1))   \* math_symm
  ELSE Math(name, k, size - 1, a)

\* is the closed form of this sample expressible here?  (always, except cos with a non-natural exponent)
ClosedKnown(name, kind, k, size, alpha) ==
  \/ name # "cos"
  \/ (kind = "symm" /\ size = 1)
  \/ PowKnown(TSin(k, 2 * (IF kind = "symm" THEN size - 1 ELSE size)), AlphaOf(name, alpha))

\* hops for which the statement promises constant hop-shifted sums of the periodic window
ColaHops(name, size) ==
  (IF size % 2 = 0 /\ name \in {"hann", "hamming", "bartlett", "rect"} THEN {size \div 2} ELSE {})
  \cup
  (IF size % 4 = 0 /\ name \in {"hann", "hamming", "blackman"} THEN {size \div 4} ELSE {})

\* positions (1-based) of the samples that overlap at offset m (1..h) when the window is shifted by h
HopIdx(size, h, m) == [k \in 1..(size \div h) |-> m + (k - 1) * h]
HopSums(w, h)      == [m \in 1..h |-> TSumSeq([k \in 1..(Len(w) \div h) |-> w[HopIdx(Len(w), h, m)[k]]])]
IsConstSeq(s)      == \A m \in DOMAIN s : s[m] = s[1]

\* range [0, 1]: decided by the value where the sample is rational, by the enclosure
\* TLo <= value <= THi (0 < cos < 1 on the canonical angles) where that is tight enough
InUnit(r)       == RLe(RZero, r) /\ RLe(r, ROne)
RangeProved(f)  == RLe(RZero, TLo(f)) /\ RLe(THi(f), ROne)
RangeRefuted(f) == RLt(THi(f), RZero) \/ RLt(ROne, TLo(f))
\* windows for which the enclosure is tight (each has at most one cosine term, or is rational)
EnclosureTight(name, alpha) == name \in {"hann", "hamming", "rect", "bartlett", "triangular"}
                               \/ (name = "cos" /\ alpha[1] \in {0, 1, 2})

---------------------------------------------------------------------------
Done == pc = "ret"

CaseOK        == ExpOK(case.name, Alpha) /\ case.size >= 1
MachineIsGen  == out = SubSeq(GenList(case.name, case.kind, case.size, case.alpha), 1, Len(out))
LenIsSize     == Done => Len(out) = case.size
ClosedForm    == \A k \in DOMAIN out : out[k] = Closed(case.name, case.kind, k - 1, case.size, case.alpha)
PeriodicIsPrefixOfSymm ==
  Done /\ case.kind = "periodic" =>
     out = SubSeq(GenList(case.name, "symm", case.size + 1, case.alpha), 1, case.size)
Symmetric     == Done /\ case.kind = "symm" => \A k \in DOMAIN out : out[k] = out[case.size + 1 - k]
SymmOfOne     == Done /\ case.kind = "symm" /\ case.size = 1 => out = <<RC(ROne)>>
RangeUnit     == case.kind = "periodic" =>
                   \A k \in DOMAIN out :
                      /\ ~RangeRefuted(out[k])
                      /\ TIsConst(out[k]) => InUnit(TValue(out[k]))
                      /\ EnclosureTight(case.name, Alpha) => RangeProved(out[k])
Cola          == Done /\ case.kind = "periodic" =>
                   \A h \in ColaHops(case.name, case.size) : IsConstSeq(HopSums(out, h))
\* sanity of the model itself: the contract is not vacuous -- blackman (alpha # 0) does NOT have
\* constant half-overlap sums, which is why the statement lists it for size/4 only
ColaNotVacuous == Done /\ case.kind = "periodic" /\ case.name = "blackman" /\ Alpha # RZero
                     /\ case.size % 2 = 0 /\ case.size >= 4 => ~IsConstSeq(HopSums(out, case.size \div 2))
============================================================================
