---------------------------- MODULE PolyMathGrid ----------------------------
(***************************************************************************)
(* X04, case-grid part: every case of `Cases` (a record kind -> set of     *)
(* cases) is evaluated by the operational layer; the invariants state that *)
(* the result is the definition layer's and that the per-kind laws hold.   *)
(* TLC's dump of the "done" states is what the harness replays on the real *)
(* code.                                                                   *)
(***************************************************************************)
EXTENDS PolyMath

CONSTANT Cases      \* group name -> [kind |-> kind of the cases, cases |-> set of cases]

VARIABLES group, kind, case, phase, out
vars == <<group, kind, case, phase, out>>

\* Initial states are computed by ONE TLC thread: Init enumerates only the groups, Pick (taken by the workers
\* in parallel) enumerates the cases of a group
Init == /\ group \in DOMAIN Cases
        /\ kind = Cases[group].kind
        /\ case = <<>> /\ phase = "group" /\ out = <<>>

Pick == /\ phase = "group"
        /\ case' \in Cases[group].cases
        /\ phase' = "built"
        /\ UNCHANGED <<group, kind, out>>

Evaluate == /\ phase = "built"
            /\ out' = Eval(kind, case)
            /\ phase' = "done"
            /\ UNCHANGED <<group, kind, case>>

Next == Pick \/ Evaluate
Spec == Init /\ [][Next]_vars

Refines == (phase = "done" /\ HasDef(kind, case)) => Core(kind, out) = Def(kind, case)
Laws    == phase = "done" => KindLaw(kind, case, out)
GridComplete == {Cases[g].kind : g \in DOMAIN Cases} = AllKinds /\ \A g \in DOMAIN Cases : Cases[g].cases # {}
ASSUME GridComplete
=============================================================================
