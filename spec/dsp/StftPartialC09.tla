--------------------------- MODULE StftPartialC09 ---------------------------
EXTENDS StftPartial
L(k, v) == [k |-> k, v |-> v]
C09Layers == << L("hop", "2"), L("hop", "1"), L("wnd", "ramp"), L("ola_normalize", "False"), L("size", "3") >>
=============================================================================
