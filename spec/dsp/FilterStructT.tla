---------------------------- MODULE FilterStructT ----------------------------
EXTENDS FilterStructG
X02Thorough ==
  CombCases({"fb", "ff"}, {R(0), R(1), R(2), R(3), R(4), R(5), Q(1, 4), Q(1, 2), Q(3, 4), Q(5, 4), Q(3, 2), Q(9, 4), Q(5, 2),
                           Q(7, 2), Q(17, 4), R(-1), R(-2)},
            {C(1), C(-1), CH, Const(<<-1, 2>>), C(2), C(-2), Const(<<1, 4>>), C(0), SP(<<Q(1, 2), R(2)>>), SP(<<R(-1)>>),
             SF(<<R(1), Q(-1, 2), R(2)>>), SF(<<>>), SF(<<R(2), R(2), R(1), R(1), Q(1, 2), R(1), R(3)>>)},
            {TRUE, FALSE}, {"none", "exact"}, {"sym"})
  \cup CombCases({"fb", "ff"}, {R(1), R(2), Q(3, 2), Q(9, 4)}, {CH, C(-1)}, {TRUE, FALSE}, {"none"}, {"num"})
  \cup TauCases({R(1), R(2), R(3), R(5), Q(1, 2), Q(3, 2), Q(9, 4), Q(7, 2)}, {TRUE, FALSE}, {"none", "exact"})
  \cup ListCases({"C", "P", "L"}, ArgSetsT(0), 0)
  \cup PredCases({"C", "P", "L"}, 0)
  \cup CallCases({MF, MG, MD, MH, M3, MHf, FnM, PFG}, 2, CallExtraT(0), {"sym", "num"})
  \cup CallCases({MF, MG, MD, M3, FnM}, 3, {}, {"sym"})
  \cup ZfCases(NumsT(0), DensT(0)) \cup ZPowCases(-4..4)
  \cup LinCases(FPolysT(0), LinDens(0))
  \cup NormRuns(DesignCases({ <<3, <<Inf>> >>, <<4, <<2>> >>, <<2, <<3>> >>, <<0, <<Inf>> >>, <<5, <<5>> >>, <<6, <<0>> >>,
                              <<3, <<Inf, Inf>> >>, <<4, <<2, 3>> >>, <<4, <<Inf, 1>> >>, <<2, <<4, 4>> >>, <<6, <<3, 2>> >>,
                              <<0, <<2, 2>> >>, <<5, <<0, Inf>> >> }))
  \cup NameCases(0)
=============================================================================
