------------------------------ MODULE LpcC10Q ------------------------------
(* C10, quick tier: blocks of length 2..4 over {-1,0,1,2} (+ rational blocks) at every order <= 3 for   *)
(* lpc.kautocor and lpc.kcovar, the directly given autocorrelation vectors, reflection coefficients     *)
(* in (-1,1) up to order 3.                                                                             *)
EXTENDS LpcC10
C10Quick == KaOf(Blocks({-1, 0, 1, 2}, {2, 3, 4}), 3) \cup KaOf(RatBlocks, 2)
            \cup KcOf(Blocks({-1, 0, 1, 2}, {2, 3, 4}), 3) \cup KcOf(RatBlocks, 2)
            \cup LdOf(RVecs, 4) \cup LdOf(RVecsRat, 3) \cup KlOf(KPool, {1, 2, 3})
=============================================================================
