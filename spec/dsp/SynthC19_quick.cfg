CONSTANTS
  NS = 8
  Cases <- C19Quick
INIT Init
NEXT Next
INVARIANT OnePerStep
INVARIANT Conforms
INVARIANT NoDrift
INVARIANT ProgReading
INVARIANT InRange
INVARIANT DoubleModIsId
INVARIANT AllBranchesAgree
INVARIANT ClosedFormCounter
INVARIANT CounterEnds
INVARIANT LineShape
INVARIANT Durations
INVARIANT AdsrShape
INVARIANT AttackShape
INVARIANT TableCyclic
INVARIANT ResampleValue
INVARIANT ResampleInteger
INVARIANT ResampleTracks
INVARIANT ResampleEnds
INVARIANT KarplusComb
CHECK_DEADLOCK FALSE
