------------------------------- MODULE Blocks -------------------------------
(***************************************************************************)
(* audiolazy.lazy_misc.blocks / zero_pad / Stream.blocks   (property C08). *)
(*                                                                         *)
(* Operational layer (shaped like the code, lazy_misc.py:74-160):          *)
(*   res  : the circular queue deque(maxlen=size), REUSED for every yield  *)
(*   idx  : position bookkeeping; after a yield it restarts at size-hop    *)
(*          (negative when hop > size: that many items are skipped)        *)
(*   one action per item pulled from the input (Take / TakeYield / Skip),  *)
(*   Exhaust when the input ends, then the tail test                       *)
(*          idx > max(size-hop, 0)   -> PadYield, otherwise NoTail.        *)
(*   out  : the SNAPSHOT of res taken at every yield (what a consumer that *)
(*          copies each block on receipt sees); rd : items consumed at it. *)
(*   zero_pad: three loops ZLeft / ZMid / ZRight appending to a flat out.  *)
(* Definition layer: module BlocksDef (hop-spaced windows + tail rule).    *)
(* Items are their 1-based index, the pad value is PAD = 0; contents are   *)
(* irrelevant to the index arithmetic, the driver maps indices to          *)
(* heterogeneous Python objects and PAD to the pad value in use.           *)
(***************************************************************************)
EXTENDS BlocksDef, TLC

CONSTANT Cases
(* a case is  [kind |-> "blocks", n |-> 0.., size |-> 1.., hop |-> 0..]   (hop = 0: not given)   *)
(*        or  [kind |-> "zpad",   n |-> 0.., left |-> 0.., right |-> 0..]                         *)

PAD     == 0
Item(i) == i

VARIABLES case, pos, res, idx, out, rd, pc
vars == <<case, pos, res, idx, out, rd, pc>>

H    == EffHop(case.size, case.hop)
Size == case.size

Push(q, x)  == IF Len(q) < Size THEN Append(q, x) ELSE Append(Tail(q), x)
RECURSIVE PushPads(_, _)
PushPads(q, k) == IF k = 0 THEN q ELSE PushPads(Push(q, PAD), k - 1)

Init == /\ case \in Cases
        /\ pos = 0 /\ res = <<>> /\ idx = 0 /\ out = <<>> /\ rd = <<>>
        /\ pc = IF case.kind = "blocks" THEN "loop" ELSE "left"

\* ---- blocks ----------------------------------------------------------------
InLoop   == case.kind = "blocks" /\ pc = "loop" /\ pos < case.n
Skipping == H > Size /\ idx < 0          \* only the hop > size loop tests this

Skip == /\ InLoop /\ Skipping
        /\ idx' = idx + 1 /\ pos' = pos + 1
        /\ UNCHANGED <<case, res, out, rd, pc>>

Take == /\ InLoop /\ ~Skipping /\ idx # Size - 1
        /\ res' = Push(res, Item(pos + 1))
        /\ idx' = idx + 1 /\ pos' = pos + 1
        /\ UNCHANGED <<case, out, rd, pc>>

TakeYield == /\ InLoop /\ ~Skipping /\ idx = Size - 1
             /\ res' = Push(res, Item(pos + 1))
             /\ out' = Append(out, res')               \* snapshot at the yield
             /\ rd'  = Append(rd, pos + 1)
             /\ idx' = Size - H /\ pos' = pos + 1
             /\ UNCHANGED <<case, pc>>

Exhaust == /\ case.kind = "blocks" /\ pc = "loop" /\ pos = case.n
           /\ pc' = "tail"
           /\ UNCHANGED <<case, pos, res, idx, out, rd>>

PadYield == /\ pc = "tail" /\ idx > BMax(Size - H, 0)
            /\ res' = PushPads(res, Size - idx)
            /\ out' = Append(out, res')
            /\ rd'  = Append(rd, pos)
            /\ pc'  = "done"
            /\ UNCHANGED <<case, pos, idx>>

NoTail == /\ pc = "tail" /\ ~(idx > BMax(Size - H, 0))
          /\ pc' = "done"
          /\ UNCHANGED <<case, pos, res, idx, out, rd>>

\* ---- zero_pad (idx is the loop counter, out the flat output) ---------------
ZLeft  == /\ pc = "left"
          /\ IF idx < case.left THEN out' = Append(out, PAD) /\ idx' = idx + 1 /\ pc' = pc
             ELSE out' = out /\ idx' = 0 /\ pc' = "mid"
          /\ UNCHANGED <<case, pos, res, rd>>
ZMid   == /\ pc = "mid"
          /\ IF pos < case.n THEN out' = Append(out, Item(pos + 1)) /\ pos' = pos + 1 /\ pc' = pc
             ELSE out' = out /\ pos' = pos /\ pc' = "right"
          /\ UNCHANGED <<case, res, idx, rd>>
ZRight == /\ pc = "right"
          /\ IF idx < case.right THEN out' = Append(out, PAD) /\ idx' = idx + 1 /\ pc' = pc
             ELSE out' = out /\ idx' = idx /\ pc' = "done"
          /\ UNCHANGED <<case, pos, res, rd>>

Next == Skip \/ Take \/ TakeYield \/ Exhaust \/ PadYield \/ NoTail \/ ZLeft \/ ZMid \/ ZRight
Spec == Init /\ [][Next]_vars

-----------------------------------------------------------------------------
(* Definition layer instantiated for a case                                  *)
Expected(c) ==
  IF c.kind = "blocks"
  THEN DefBlocks(c.n, c.size, EffHop(c.size, c.hop), Item, PAD)
  ELSE DefZeroPad(c.n, c.left, c.right, Item, PAD)
ExpectedReads(c) ==
  LET h == EffHop(c.size, c.hop) IN
  [k \in 1..NBlocks(c.n, c.size, h) |-> DueAt(k, c.n, c.size, h)]

IsBlocks == case.kind = "blocks"
Prefix(s, t) == Len(s) <= Len(t) /\ \A i \in 1..Len(s) : s[i] = t[i]

TypeOK == /\ pos \in 0..case.n
          /\ pc \in {"loop", "tail", "done", "left", "mid", "right"}
          /\ IsBlocks => /\ Len(res) <= Size
                         /\ idx \in (BMin(Size - H, 0))..(Size - 1)
                         /\ \A k \in DOMAIN out : Len(out[k]) = Size

\* THE property: what has been produced so far is exactly the promised blocks that are due, in order;
\* when the generator is finished it has produced all of them and nothing else.
BlocksRefine ==
  IsBlocks =>
    /\ Prefix(out, Expected(case))
    /\ pc = "loop" => Len(out) = NComplete(pos, Size, H)
    /\ pc = "tail" => Len(out) = NComplete(case.n, Size, H)
    /\ pc = "done" => out = Expected(case)

\* the bookkeeping that makes it true (inductive for the contents-free index machine):
\* idx counts the items of the next window seen so far (negative: still skipping to its start) ...
IdxInv == IsBlocks /\ pc \in {"loop", "tail"} => idx = pos - Len(out) * H
\* ... and those items are the newest entries of the queue
ResInv == IsBlocks /\ pc \in {"loop", "tail"} =>
            LET held == BMax(idx, 0) IN
            /\ held <= Len(res)
            /\ \A j \in 1..held : res[Len(res) - held + j] = Len(out) * H + j

\* padding never appears anywhere but at the end of the last block
PadOnlyAtEnd ==
  IsBlocks => \A k \in DOMAIN out : \A j \in 1..Size :
                 out[k][j] = PAD => /\ k = Len(out) /\ pc = "done"
                                    /\ \A jj \in j..Size : out[k][jj] = PAD

\* laziness (more specific than C08 states; the driver treats it as diagnostics)
ProducedWhenDue == IsBlocks => \A k \in DOMAIN rd : rd[k] = DueAt(k, case.n, Size, H)

ZeroPadRefine ==
  case.kind = "zpad" => /\ Prefix(out, Expected(case))
                        /\ pc = "done" => out = Expected(case)

\* a block once produced (snapshot) never changes and blocks are only appended
Monotone == [][Prefix(out, out') /\ Len(out') <= Len(out) + 1]_vars
=============================================================================
