---------------------------- MODULE FilterStructG ----------------------------
(* Case grids of extension X02 (module FilterStruct).  Every grid operator has a dummy parameter  *)
(* (TLC evaluates zero-arity definitions at start-up); the tiers are in FilterStructQ / T.        *)
EXTENDS FilterStruct

C(i)      == Const(R(i))
CH        == Const(<<1, 2>>)
Q(a, b)   == Norm(a, b)
SP(s)     == [k |-> "s", s |-> s, per |-> TRUE]       \* Stream(v1, v2, ...): endless cycle
SF(s)     == [k |-> "s", s |-> s, per |-> FALSE]      \* Stream([v1, ...]): finite

\* ---- members ------------------------------------------------------------------------------------
MF   == Flt(<<C(1), C(1)>>, <<C(1)>>, 0)                         \* 1 + z^-1
MG   == Flt(<<C(1)>>, <<C(1), Const(<<-1, 2>>)>>, 0)             \* 1 / (1 - z^-1 / 2)
MD   == Flt(<<C(0), C(0), C(1)>>, <<C(1)>>, 0)                   \* z^-2
MH   == Flt(<<C(2), C(-1)>>, <<C(1), C(0), CH>>, 0)              \* (2 - z^-1) / (1 + z^-2 / 2)
MNC  == Flt(<<C(1), C(1)>>, <<C(1)>>, 1)                         \* z + 1: not causal
MTV  == Flt(<<C(1), SP(<<R(1), R(2)>>)>>, <<C(1)>>, 0)           \* 1 + Stream(1, 2) * z^-1: not LTI
M3   == NumM(R(3))
MHf  == NumM(<<1, 2>>)
CFG  == Box("C", <<MF, MG>>)
PFG  == Box("P", <<MF, MG>>)
PFn  == Box("P", <<MF, FnM>>)
CNC  == Box("C", <<MD, MNC>>)
PTV  == Box("P", <<MTV, M3>>)

\* ---- A. comb ------------------------------------------------------------------------------------
\* the cases that exist: a fractional delay has to be linearized; delay 0 needs a constant alpha with
\* 1 - alpha # 0; a negative delay only for ff with a non-zero constant (the refusal); memory only with feedback
\* magnitude guard (TLC has 32-bit integers): the denominators of a feedback comb grow by den(alpha) * den(delay)
\* per recursion; cases whose bound exceeds 2^13 within MaxLen samples are left to the M3 records of shorter runs
RECURSIVE IPow(_, _), MaxDen(_, _)
IPow(b, e)     == IF e = 0 THEN 1 ELSE b * IPow(b, e - 1)
MaxDen(s, i)   == IF i > Len(s) THEN 1 ELSE MaxOf(s[i][2], MaxDen(s, i + 1))
DenOf(al)      == IF al.k = "c" THEN al.v[2] ELSE MaxDen(al.s, 1)
SmallEnough(D, al) == IPow(DenOf(al) * D[2], IF RLt(D, ROne) THEN MaxLen ELSE MaxLen \div RFloor(D)) <= 8192
ParamOk(f, D, al, l, mm) ==
  /\ CombRunnable(f, D, l)
  /\ (D = RZero => al.k = "c" /\ al.v # ROne /\ al.v # R(-1))    \* (1 - 1: no filter; 1 + -1: the all-zero filter of C04)
  /\ (f # "ff" /\ RLt(RZero, D) /\ RLt(D, ROne) /\ al.k = "c" => RMul(al.v, RSub(ROne, D)) # ROne)   \* (no zero gain)
  /\ (al.k = "s" => RLe(ROne, D))                       \* (a stream alpha below one sample of delay would vary a0)
  /\ (RLt(D, RZero) => f = "ff" /\ al.k = "c" /\ al.v # RZero /\ RIsInt(D))
  /\ (mm = "exact" => f # "ff")
  /\ (f # "ff" /\ RLt(RZero, D) => SmallEnough(D, al))
CombCases(forms, delays, alphas, lins, mems, zeros) ==
  {CombCase(t[1], t[2], t[3], "inf", t[4], t[5], t[6]) :
      t \in {u \in forms \X delays \X alphas \X lins \X mems \X zeros : ParamOk(u[1], u[2], u[3], u[4], u[5])}}
TauCases(delays, lins, mems) ==
  {CombCase("tau", t[1], COne, "inf", t[2], t[3], "sym") :
      t \in {u \in delays \X lins \X mems : CombRunnable("tau", u[1], u[2]) /\ RLt(RZero, u[1])}}

\* ---- B. containers ------------------------------------------------------------------------------
LO(cls, args, op, x, k, lo, hi) ==
  [kind |-> "listop", cls |-> cls, args |-> args, op |-> op, x |-> x, k |-> k, lo |-> lo, hi |-> hi]
Nil == [m |-> "none"]
ArgSetsQ(u) == { <<>>, <<MF>>, <<MF, MG>>, <<SeqA(<<MF, MG>>)>>, <<SeqA(<<>>)>>, <<M3>>, <<M3, MF>>,
                 <<SeqA(<<M3, MF, FnM>>)>>, <<FnM>>, <<CFG>>, <<Box("L", <<MF, MG>>)>>, <<PFG, MD>>, <<MF, MG, MD>> }
ArgSetsT(u) == ArgSetsQ(u) \cup { <<SeqA(<<MF>>)>>, <<MHf, M3>>, <<SeqA(<<CFG, PFG>>)>>, <<MNC, MTV>>, <<FnM, FnM>>,
                                  <<Box("L", <<>>)>>, <<MF, MF, MF>>, <<MH, MD, MG, MF>> }
Bases(u)    == { <<>>, <<MF>>, <<MF, MG, M3>>, <<SeqA(<<MG, FnM>>)>> }
OtherArgs(u)   == { SeqA(<<>>), SeqA(<<MD>>), SeqA(<<MG, M3>>), Box("C", <<MD>>), Box("P", <<MD, MF>>), Box("L", <<FnM>>) }
ListCases(classes, argsets, u) ==
  {LO(c, a, "build", Nil, 0, 0, 0) : c \in classes, a \in argsets}
  \cup {LO(c, a, "append", x, 0, 0, 0) : c \in classes, a \in Bases(u), x \in {MD, M3, FnM, CFG}}
  \cup {LO(c, a, op, x, 0, 0, 0) : c \in classes, a \in Bases(u), op \in {"extend", "concat", "rconcat"}, x \in OtherArgs(u)}
  \cup {LO(c, a, "times", Nil, k, 0, 0) : c \in classes, a \in Bases(u), k \in {-1, 0, 1, 2, 3}}
  \cup {LO(c, a, "index", Nil, k, 0, 0) : c \in classes, a \in Bases(u), k \in -4..3}
  \cup {LO(c, a, "slice", Nil, 0, lo, hi) : c \in classes, a \in Bases(u), lo \in {0, 1, -1}, hi \in {0, 2, 5, -1}}
  \cup {LO(c, a, "cmp", x, 0, 0, 0) : c \in classes, a \in {<<>>, <<MF, MG>>, <<MD>>, <<MG, M3>>},
          x \in {SeqA(<<>>), SeqA(<<MF, MG>>), SeqA(<<MG, MF>>), Box("C", <<MF, MG>>), Box("P", <<MF, MG>>), Box("L", <<MF, MG>>),
                 Box("C", <<>>), Box("P", <<>>), Box("C", <<MD>>), Box("P", <<MG, M3>>), Box("C", <<MF, MG, MD>>)}}
PredSets(u) == { <<>>, <<MF>>, <<MF, M3>>, <<M3>>, <<FnM>>, <<MF, FnM>>, <<MF, MNC>>, <<MTV>>, <<MTV, MNC>>, <<FnM, MNC>>,
                 <<CFG>>, <<PFn>>, <<MF, PFn>>, <<CNC, MF>>, <<PTV>>, <<Box("C", <<PFn>>), MG>>, <<Box("P", <<CNC, PTV>>)>>,
                 <<FnM, MTV>>, <<Box("C", <<>>), Box("P", <<>>)>> }
PolySets(u) == { <<MF>>, <<MF, MG>>, <<MG, MG>>, <<M3, MF>>, <<MF, M3>>, <<M3, MHf>>, <<M3>>, <<MH, MD, MG>>, <<FnM>>,
                 <<MF, FnM>>, <<FnM, MG>>, <<PFn>>, <<MF, Box("C", <<FnM>>)>> }
PredCases(classes, u) ==
  {LO(c, a, "pred", Nil, 0, 0, 0) : c \in classes, a \in PredSets(u)}
  \cup {LO(c, a, "polys", Nil, 0, 0, 0) : c \in classes \ {"L"}, a \in PolySets(u)}

CallOf(cls, items, zero) == [kind |-> "call", c |-> Box(cls, items), zero |-> zero]
SeqsUpTo(S, k) == UNION {[1..j -> S] : j \in 0..k}
CallCases(pool, k, extra, zeros) ==
  {CallOf(cls, it, z) : cls \in {"C", "P"}, it \in SeqsUpTo(pool, k) \cup extra, z \in zeros}
CallExtraQ(u) == { <<MF, MG, MD>>, <<MH, FnM, MG>>, <<CFG, MD>>, <<PFG, M3>>, <<Box("P", <<>>), MF>>, <<Box("C", <<>>), MF>>,
                   <<MF, MNC>>, <<CNC>>, <<PFn, PFn>>, <<MG, MG, MG>> }
CallExtraT(u) == CallExtraQ(u) \cup { <<MH, MH>>, <<Box("C", <<PFG, FnM>>), PFn>>, <<MD, MD, MD>>, <<MHf, MG, FnM, MD>>, <<MNC>>,
                                      <<Box("P", <<CFG, CFG>>)>> }

\* ---- C. ZFilter values --------------------------------------------------------------------------
PL(s)       == Compact([k \in {i - 1 : i \in DOMAIN s} |-> s[k + 1]])          \* list -> polynomial
PSh(p, m)   == [k \in {j + m : j \in DOMAIN p} |-> p[k - m]]                    \* powers shifted by m
NumsQ(u)    == { PEmpty, PL(<<R(1)>>), PL(<<R(1), R(0), R(2)>>), PL(<<R(0), R(0), R(0), R(2)>>), PL(<<R(-1), Q(1, 2)>>),
                 PSh(PL(<<R(1), R(1)>>), -1), PSh(PL(<<R(2)>>), -2), PSh(PL(<<R(1), R(0), R(0), R(-1)>>), -1) }
DensQ(u)    == { PL(<<R(1)>>), PL(<<R(1), R(0), R(0), R(-3)>>), PL(<<R(2), R(1)>>), PSh(PL(<<R(1), R(4)>>), 2),
                 PSh(PL(<<R(1), R(0), R(1)>>), -2), PL(<<Q(1, 2)>>) }
NumsT(u)    == NumsQ(u) \cup { PL(<<R(3), R(-1), R(1), R(1)>>), PSh(PL(<<R(1), R(2), R(3)>>), -3), PL(<<R(0), R(1)>>) }
DensT(u)    == DensQ(u) \cup { PL(<<R(-1), R(0), R(2)>>), PSh(PL(<<R(2), R(0), R(-1)>>), 1), PSh(PL(<<R(1), R(1)>>), -1) }
ZfCases(nums, dens) ==
  {[kind |-> "zf", n |-> nn, d |-> dd] : nn \in nums, dd \in dens}
  \cup {[kind |-> "cast", n |-> nn, d |-> dd, den |-> dn] :
          nn \in nums \ {PEmpty}, dd \in {PL(<<R(1)>>), PL(<<R(1), R(0), R(0), R(-3)>>), PL(<<R(2), R(1)>>)},
          dn \in {Nil, NumM(R(2)), NumM(Q(-1, 2)), [m |-> "zf", n |-> PL(<<R(1), R(1)>>), d |-> PL(<<R(1)>>)],
                  [m |-> "zf", n |-> PL(<<R(2)>>), d |-> PL(<<R(1), Q(1, 2)>>)],
                  [m |-> "zf", n |-> PSh(PL(<<R(1), R(1)>>), -1), d |-> PL(<<R(1)>>)]}}
ZPowCases(ks) == {[kind |-> "zpow", k |-> k] : k \in ks}
\* polynomials with fractional powers: sequences of <<power, coefficient>>
FT(a, b, c) == FTerm(Q(a, b), c)
One1        == << FT(0, 1, C(1)) >>
FPolysQ(u)  == { << FT(-17, 4, C(1)) >>, << FT(-3, 2, C(1)) >>, << FT(1, 2, C(1)) >>, << FT(17, 4, C(1)) >>, << FT(5, 4, C(2)) >>,
                 << FT(0, 1, C(1)), FT(5, 2, CH) >>, << FT(3, 2, C(1)), FT(2, 1, C(1)) >>, << FT(3, 2, C(2)), FT(5, 2, C(-1)) >>,
                 << FT(2, 1, C(1)), FT(1, 4, C(-1)), FT(3, 4, C(1)) >>, << FT(3, 1, C(2)) >>, One1,
                 << FT(1, 2, C(1)), FT(3, 2, C(-1)) >>, << FT(-1, 2, C(1)) >>, << FT(-9, 4, C(2)), FT(1, 1, C(1)) >> }
FPolysT(u)  == FPolysQ(u) \cup { << FT(7, 4, C(1)), FT(9, 4, C(1)) >>, << FT(-7, 2, CH), FT(-5, 2, C(1)) >>, << FT(11, 4, C(-2)) >>,
                                 << FT(0, 1, C(1)), FT(1, 4, C(1)), FT(1, 2, C(1)), FT(3, 4, C(1)), FT(1, 1, C(1)) >> }
LinCases(fps, dens) == {[kind |-> "lin", n |-> a, d |-> b] : a \in fps, b \in dens}
LinDens(u)  == { One1, << FT(0, 1, Const(<<-1, 4>>)), FT(3, 4, C(1)) >>,       \* (tap 0 cancels: the result is shifted)
                 << FT(0, 1, C(1)), FT(3, 2, Const(<<-1, 2>>)) >>, << FT(0, 1, C(2)), FT(9, 4, C(1)) >> }

\* ---- D. designed filters ------------------------------------------------------------------------
SubsetsOfSeq(s) == SUBSET {s[i] : i \in DOMAIN s}
DesignCases(runs) ==
  {[kind |-> "design", fam |-> f, name |-> nm, S |-> S, inlen |-> r[1], lens |-> r[2]] :
      f \in {"lowpass", "highpass"}, nm \in {DesignNames("lowpass")[i] : i \in 1..4}, S \in SUBSET {"cutoff"},
      r \in {rr \in runs : Len(rr[2]) = 1}}
  \cup {[kind |-> "design", fam |-> "resonator", name |-> nm, S |-> S, inlen |-> r[1], lens |-> r[2]] :
      nm \in {DesignNames("resonator")[i] : i \in 1..4}, S \in SUBSET {"freq", "bandwidth"},
      r \in {rr \in runs : Len(rr[2]) = 2}}
NameCases(u) == {[kind |-> "names", fam |-> f] : f \in {"comb", "resonator", "lowpass", "highpass"}}
\* a run: <<input length, <<length of each parameter stream (Inf: endless or a number)>> >>; lengths of
\* parameters that are not in S are ignored (normalised to Inf)
NormRuns(cs) == {[c EXCEPT !.lens = [i \in DOMAIN c.lens |-> IF DesignParams(c.fam)[i] \in c.S THEN c.lens[i] ELSE Inf]] : c \in cs}
=============================================================================
