------------------------------ MODULE PolyVal ------------------------------
(***************************************************************************)
(* audiolazy.lazy_poly.Poly AS A VALUE / CONTAINER (extension check X04).  *)
(* Module Poly (property C07) is the ring of Laurent polynomials; this     *)
(* module adds what an OBJECT of the class is on top of that:              *)
(*   - the constructor forms and the "compact zeros" pass (integer-valued  *)
(*     float powers become ints and move to the end of the OrderedDict,    *)
(*     pairs whose value equals the `zero` of the instance are dropped),   *)
(*   - terms(sort, reverse) / values() / order / is_polynomial /           *)
(*     is_laurent / __getitem__ / __len__ on the ordered store,            *)
(*   - item assignment, the `zero` setter, the freeze by __hash__,         *)
(*   - copy() against Poly(p): tee copies of Stream coefficients,          *)
(*   - the operator table PolyMeta builds out of OpMethod's rows,          *)
(*   - how `zero` travels through + - * ** / diff integrate copy,          *)
(*   - __truediv__ (number, one-term Poly, refusals), __pow__ with         *)
(*     negative / Poly / float exponents, == and hash against numbers,     *)
(*     corner cases of diff(n) / integrate(), `x`, lagrange's strategies.  *)
(*                                                                         *)
(* A power is a rational (Rat); in Python it is an int when it is integer- *)
(* valued and a float otherwise.  A coefficient is a Rat.  A zero value is *)
(* [v |-> Rat, ty |-> Python type tag] (identity of the object matters:    *)
(* p[absent] and p() of an empty polynomial return the zero ITSELF).       *)
(* A stored object is [d |-> sequence of <<power, coefficient>> in         *)
(* creation order (the OrderedDict), z |-> zero].  For arithmetic the      *)
(* object is [p |-> polynomial of module Poly, z |-> zero].                *)
(*                                                                         *)
(* Operational layer: V... operators transcribed from the code.            *)
(* Definition layer: D... operators written from the docstrings.           *)
(***************************************************************************)
EXTENDS Poly

TV == INSTANCE TableVal        \* OpMethod's 35 operator rows (TV!AllOpRows), shared with X03

---------------------------------------------------------------------------
(* values *)
ZV(v, ty) == [v |-> v, ty |-> ty]
ZFloat    == ZV(RZero, "float")                  \* the default: `0. if zero is None`
ZInt      == ZV(RZero, "int")
ZFrac     == ZV(RZero, "frac")
Obj(d, z) == [d |-> d, z |-> z]
PV(p, z)  == [p |-> p, z |-> z]
ONum(v)   == [k |-> "num", v |-> v]
OPoly(p, z) == [k |-> "poly", p |-> p, z |-> z]

\* results
Good(p, z) == [e |-> "none", p |-> p, z |-> z]
Fail(e)    == [e |-> e, p |-> PEmpty, z |-> ZFloat]

\* ---- OrderedDict ------------------------------------------------------------------------------
PairsOf(d)     == {d[i] : i \in DOMAIN d}
KeysOf(d)      == {d[i][1] : i \in DOMAIN d}
ODHas(d, k)    == k \in KeysOf(d)
ODIdx(d, k)    == CHOOSE i \in DOMAIN d : d[i][1] = k
ODGet(d, k)    == d[ODIdx(d, k)][2]
ODSet(d, k, v) == IF ODHas(d, k) THEN [d EXCEPT ![ODIdx(d, k)] = <<k, v>>] ELSE Append(d, <<k, v>>)
ODDel(d, k)    == SelectSeq(d, LAMBDA t : t[1] # k)
DistinctKeys(d) == \A i, j \in DOMAIN d : i # j => d[i][1] # d[j][1]
RevSeq(s)      == [i \in DOMAIN s |-> s[Len(s) + 1 - i]]

---------------------------------------------------------------------------
(* Constructor.  data forms:                                                *)
(*   [form |-> "none"] | [form |-> "num", v] | [form |-> "list", s]         *)
(*   | [form |-> "dict", ps] with ps a sequence of items [k, fl, c]         *)
(*     (fl: the key is given as a Python float) in the dict's order         *)
(*   | [form |-> "poly", o] | [form |-> "opaque", what] (tuple, generator,  *)
(*     string ...: `else: OrderedDict([(0, data)])`)                        *)
(* zarg: [given |-> FALSE] | [given |-> TRUE, z |-> zero]                   *)
Item(k, fl, c) == [k |-> k, fl |-> fl, c |-> c]
ZNone          == [given |-> FALSE]
ZGiven(z)      == [given |-> TRUE, z |-> z]

ItemsOf(data) ==
  CASE data.form = "none" -> <<>>
    [] data.form = "num"  -> <<Item(RZero, FALSE, data.v)>>
    [] data.form = "list" -> [i \in DOMAIN data.s |-> Item(R(i - 1), FALSE, data.s[i])]       \* enumerate
    [] data.form = "dict" -> data.ps
    [] data.form = "poly" -> [i \in DOMAIN data.o.d |-> Item(data.o.d[i][1], ~RIsInt(data.o.d[i][1]), data.o.d[i][2])]

ZeroOf(data, zarg) == IF zarg.given THEN zarg.z ELSE IF data.form = "poly" THEN data.o.z ELSE ZFloat

\* "Compact zeros": for key, value in list(items): an integer-valued float key is deleted and re-inserted as
\* rint(key) (so it moves to the END of the OrderedDict); a value equal to the zero is deleted
Moves(it) == it.fl /\ RIsInt(it.k)
RECURSIVE CompactLoop(_, _, _, _)
CompactLoop(d, items, i, z) ==
  IF i > Len(items) THEN d
  ELSE LET it == items[i]
           d1 == IF Moves(it) THEN Append(ODDel(d, it.k), <<it.k, it.c>>) ELSE d
           d2 == IF it.c = z.v THEN ODDel(d1, it.k) ELSE d1
       IN CompactLoop(d2, items, i + 1, z)

VCtor(data, zarg) ==
  LET items == ItemsOf(data)
      z     == ZeroOf(data, zarg)
  IN Obj(CompactLoop([i \in DOMAIN items |-> <<items[i].k, items[i].c>>], items, 1, z), z)

\* ---- what the object shows --------------------------------------------------------------------
IsLaurentD(d)    == \A k \in KeysOf(d) : RIsInt(k)
IsPolynomialD(d) == \A k \in KeysOf(d) : RIsInt(k) /\ k[1] >= 0
RECURSIVE VSortAsc(_)
VSortAsc(d) == IF d = <<>> THEN <<>>
               ELSE LET i == CHOOSE i \in DOMAIN d : \A j \in DOMAIN d : RLe(d[i][1], d[j][1])
                    IN <<d[i]>> \o VSortAsc(ODDel(d, d[i][1]))
\* terms(sort, reverse): sort \in {"auto", "yes", "no"}
VTerms(o, sort, reverse) ==
  LET s == IF sort = "auto" THEN IsLaurentD(o.d) ELSE sort = "yes"
  IN IF s THEN (IF reverse THEN RevSeq(VSortAsc(o.d)) ELSE VSortAsc(o.d))      \* sorted(keys, reverse=reverse)
     ELSE IF reverse THEN RevSeq(o.d) ELSE o.d
\* __getitem__: the stored coefficient, else the zero object itself
Hit(v)  == [zero |-> FALSE, v |-> v]
Miss(z) == [zero |-> TRUE, v |-> z.v]
VGet(o, k) == IF ODHas(o.d, k) THEN Hit(ODGet(o.d, k)) ELSE Miss(o.z)
MaxIntKey(d) == CHOOSE m \in {k[1] : k \in KeysOf(d)} : \A k \in KeysOf(d) : k[1] <= m
VOrder(o) == IF ~IsPolynomialD(o.d) THEN [e |-> "AttributeError", v |-> 0]
             ELSE [e |-> "none", v |-> IF o.d = <<>> THEN 0 ELSE MaxIntKey(o.d)]
\* values(): `if self._data: for key in xrange(self.order + 1): yield self[key]`
VValues(o) == IF o.d = <<>> THEN [e |-> "none", v |-> <<>>]
              ELSE IF VOrder(o).e # "none" THEN [e |-> VOrder(o).e, v |-> <<>>]
              ELSE [e |-> "none", v |-> [i \in 1..(VOrder(o).v + 1) |-> VGet(o, R(i - 1))]]

ProbeKeys == <<R(-1), RZero, ROne, R(2), Norm(3, 2), R(5)>>
Show(o) == [d      |-> o.d, z |-> o.z,
            auto   |-> VTerms(o, "auto", FALSE), rauto |-> VTerms(o, "auto", TRUE),
            srt    |-> VTerms(o, "yes", FALSE),  rsrt  |-> VTerms(o, "yes", TRUE),
            raw    |-> VTerms(o, "no", FALSE),   rraw  |-> VTerms(o, "no", TRUE),
            len    |-> Len(o.d),
            ispoly |-> IsPolynomialD(o.d), islaur |-> IsLaurentD(o.d),
            order  |-> VOrder(o), values |-> VValues(o),
            get    |-> [i \in DOMAIN ProbeKeys |-> VGet(o, ProbeKeys[i])],
            \* __call__ of an empty polynomial returns the zero object
            empty  |-> o.d = <<>>]

\* ---- definition layer of the constructor and the views ---------------------------------------
\* "A list [a0, a1, ...] inits a0 + a1 x + ...; a dict has powers as keys and the factors as values,
\*  you can neglect the zeros": the polynomial is the SET of (power, coefficient # zero) pairs
ItemSet(data)      == {ItemsOf(data)[i] : i \in DOMAIN ItemsOf(data)}
DCoefs(data, zarg) == {<<it.k, it.c>> : it \in {jt \in ItemSet(data) : jt.c # ZeroOf(data, zarg).v}}
\* creation order = order of the given data (stated by terms(): "in the creation order"); the library says
\* nothing about integer-valued float powers, whose re-insertion changes the order: no definition there
DHasOrder(data)    == \A i \in DOMAIN ItemsOf(data) : ~Moves(ItemsOf(data)[i])
DCreation(data, zarg) ==
  LET kept == SelectSeq(ItemsOf(data), LAMBDA it : it.c # ZeroOf(data, zarg).v)
  IN [i \in DOMAIN kept |-> <<kept[i].k, kept[i].c>>]
\* ascending by power: the element of rank r has exactly r-1 smaller powers
DSorted(S) == [r \in 1..Cardinality(S) |-> CHOOSE t \in S : Cardinality({u \in S : RLt(u[1], t[1])}) = r - 1]
DIsLaurent(S)    == \A t \in S : RIsInt(t[1])                       \* "any sum of integer powers of x"
DIsPolynomial(S) == \A t \in S : RIsInt(t[1]) /\ ~RLt(t[1], RZero)   \* "natural powers of x"
DCoef(S, z, k)   == IF \E t \in S : t[1] = k THEN Hit((CHOOSE t \in S : t[1] = k)[2]) ELSE Miss(z)
DOrder(S) == IF ~DIsPolynomial(S) THEN [e |-> "AttributeError", v |-> 0]
             ELSE [e |-> "none", v |-> IF S = {} THEN 0 ELSE CHOOSE m \in {t[1][1] : t \in S} : \A t \in S : t[1][1] <= m]

\* the documented facts about an object `shown` built from (data, zarg)
CtorContract(data, zarg, shown) ==
  LET S == DCoefs(data, zarg)
      z == ZeroOf(data, zarg)
  IN /\ PairsOf(shown.d) = S /\ Len(shown.d) = Cardinality(S) /\ shown.z = z      \* same terms, each once
     /\ \A t \in PairsOf(shown.d) : t[2] # z.v                                    \* no zero stored
     /\ shown.len = Cardinality(S)                                                \* "Number of terms, not values"
     /\ shown.srt = DSorted(S) /\ shown.rsrt = RevSeq(DSorted(S))
     /\ shown.islaur = DIsLaurent(S) /\ shown.ispoly = DIsPolynomial(S)
     /\ shown.auto = (IF DIsLaurent(S) THEN DSorted(S) ELSE shown.raw)            \* "auto" = sorted iff Laurent
     /\ shown.rauto = (IF DIsLaurent(S) THEN RevSeq(DSorted(S)) ELSE shown.rraw)
     /\ shown.rraw = RevSeq(shown.raw)
     /\ DHasOrder(data) => shown.raw = DCreation(data, zarg)                      \* creation order
     /\ shown.order = DOrder(S)
     /\ \A i \in DOMAIN ProbeKeys : shown.get[i] = DCoef(S, z, ProbeKeys[i])
     /\ (S # {} /\ DIsPolynomial(S)) =>                                           \* dense, zero-filled, index = power
           /\ shown.values.e = "none" /\ Len(shown.values.v) = DOrder(S).v + 1
           /\ \A i \in DOMAIN shown.values.v : shown.values.v[i] = DCoef(S, z, R(i - 1))
     /\ ~DIsPolynomial(S) => shown.values.e = "AttributeError"

---------------------------------------------------------------------------
(* Mutation: item assignment, the zero setter, freezing by hash.           *)
(* VSetItem / VSetZero return [e, o]                                        *)
VSetItem(o, hashed, it) ==
  IF hashed THEN [e |-> "TypeError", o |-> o]                  \* "Used this Poly instance as a hashable before"
  ELSE [e |-> "none",
        o |-> Obj(IF it.c # o.z.v THEN ODSet(o.d, it.k, it.c)   \* float 2.0 -> rint: same power, position kept
                  ELSE ODDel(o.d, it.k), o.z)]
VSetZero(o, hashed, z) ==
  IF hashed THEN [e |-> "TypeError", o |-> o]
  ELSE [e |-> "none", o |-> Obj(SelectSeq(o.d, LAMBDA t : t[2] # z.v), z)]
\* copy(zero) / Poly(p, zero): a new, unfrozen object with the same terms
VCopy(o, zarg) == VCtor([form |-> "poly", o |-> o], zarg)

\* definition: the polynomial after p[k] = c has coefficient c at k and is otherwise unchanged
DSetItem(S, z, it) == {t \in S : t[1] # it.k} \cup (IF it.c # z.v THEN {<<it.k, it.c>>} ELSE {})

---------------------------------------------------------------------------
(* Stream coefficients: copy() makes tee copies, Poly(p) shares the object  *)
(* case: stream content s, n items already consumed, then the new object is  *)
(* made, m items are read from ITS coefficient, then the original's is read  *)
(* to its end                                                                *)
SubFrom(s, a, b) == IF a > b THEN <<>> ELSE SubSeq(s, a, b)
MinI(a, b) == IF a < b THEN a ELSE b
VStreamCopy(s, n, m, how) ==
  LET L  == Len(s)
      hi == MinI(n + m, L)
  IN [new  |-> SubFrom(s, n + 1, hi),
      rest |-> IF how = "copy" THEN SubFrom(s, n + 1, L)       \* tee: both deliver everything that was left
               ELSE SubFrom(s, hi + 1, L),                     \* Poly(p): one Stream object, one position
      same |-> how # "copy"]
\* "a T (tee) copy when they're Stream instances, allowing maths using a polynomial more than once"
DStreamCopy(s, n, m) == [new |-> SubFrom(s, n + 1, MinI(n + m, Len(s))), rest |-> SubFrom(s, n + 1, Len(s)), same |-> FALSE]

---------------------------------------------------------------------------
(* The operator table.  PolyMeta.__operators__ = "+ - * pow truediv eq ne": *)
(* a symbol selects every row with it (binary, reflected, unary), a name    *)
(* selects one row.                                                         *)
PolyOpTokens == {"+", "-", "*", "pow", "truediv", "eq", "ne"}
PolyOpRows   == {r \in TV!AllOpRows : r.sym \in PolyOpTokens \/ r.name \in PolyOpTokens}
PolyOpNames  == {r.name : r \in PolyOpRows}
\* dunders written in the class body (the metaclass does not overwrite them)
ClassDefined == {"add", "sub", "mul", "eq", "ne", "pow", "truediv"}
\* what the class docstrings say: + - * with numbers on either side and as signs, ** and / "when other is not
\* Poly (no reverse)", comparison of terms
DPolyOpNames == {"add", "radd", "pos", "sub", "rsub", "neg", "mul", "rmul", "pow", "truediv", "eq", "ne"}
AllOpNames   == {r.name : r \in TV!AllOpRows}
Refused      == AllOpNames \ DPolyOpNames
\* container protocol of the class body
ContainerDunders == {"__len__", "__getitem__", "__setitem__", "__call__", "__hash__"}
NotContainer     == {"__iter__", "__contains__", "__delitem__", "__bool__", "__rtruediv__", "__rpow__"}
OpTableLaw ==
  /\ PolyOpNames = DPolyOpNames /\ Cardinality(PolyOpRows) = 12
  /\ \A r \in PolyOpRows : (r.arity = 2 /\ ~r.rev) => r.name \in ClassDefined     \* PolyMeta has no __binary__ template
  /\ \A r \in PolyOpRows : r.rev => r.name \in {"radd", "rsub", "rmul"}
  /\ {"rpow", "rtruediv", "lt", "le", "gt", "ge", "mod", "floordiv", "invert", "matmul"} \subseteq Refused
  /\ Cardinality(Refused) = 23

---------------------------------------------------------------------------
(* Arithmetic with the zero riding along.  a = PV(p, z); b an operand.      *)
AsP(b) == IF b.k = "poly" THEN b.p ELSE PConst(b.v)         \* Poly(other): "the other is probably a number"
VArith(op, a, b) ==
  CASE op = "add"  -> Good(OpAdd(a.p, AsP(b)), a.z)          \* Poly(..., zero=self.zero)
    [] op = "sub"  -> Good(OpSub(a.p, AsP(b)), a.z)          \* self + (-other)
    [] op = "mul"  -> Good(OpMul(a.p, AsP(b)), a.z)
    [] op = "radd" -> Good(OpAdd(PConst(b.v), a.p), a.z)     \* cls(other, zero=self.zero) + self
    [] op = "rsub" -> Good(OpSub(PConst(b.v), a.p), a.z)
    [] op = "rmul" -> Good(OpMul(PConst(b.v), a.p), a.z)
    [] op = "neg"  -> Good(OpNeg(a.p), a.z)
    [] op = "pos"  -> Good(OpPos(a.p), a.z)
    [] op = "compose" -> Good(OpCompose(a.p, b.p), a.z)      \* self(other): Poly(sum(coeff * value ** power ...), self.zero)
DArith(op, a, b) ==
  CASE op \in {"add", "radd"} -> Good(DefAdd(a.p, AsP(b)), a.z)
    [] op = "sub"  -> Good(DefSub(a.p, AsP(b)), a.z)
    [] op = "rsub" -> Good(DefSub(AsP(b), a.p), a.z)
    [] op \in {"mul", "rmul"} -> Good(DefMul(a.p, AsP(b)), a.z)
    [] op = "neg"  -> Good(DefNeg(a.p), a.z)
    [] op = "pos"  -> Good(a.p, a.z)
    [] op = "compose" -> Good(DefCompose(a.p, b.p), a.z)

\* ---- __truediv__ ------------------------------------------------------------------------------
VDiv(a, b) ==
  IF b.k = "poly"
  THEN IF NTerms(b.p) = 1
       THEN LET dl == PMaxKey(DOMAIN b.p)
            IN Good(Compact([k \in {j - dl : j \in DOMAIN a.p} |-> RDiv(a.p[k + dl], b.p[dl])]), a.z)
       ELSE IF NTerms(b.p) = 0 THEN Fail("ZeroDivisionError")          \* "Dividing Poly instance by zero"
       ELSE Fail("NotImplementedError")                                 \* "Can't divide general Poly instances"
  ELSE IF b.v = RZero
       THEN (IF a.p = PEmpty THEN Good(PEmpty, a.z) ELSE Fail("ZeroDivisionError"))   \* v / 0 per coefficient
       ELSE Good(Compact([k \in DOMAIN a.p |-> RDiv(a.p[k], b.v)]), a.z)
\* number / Poly: there is no __rtruediv__ ("no reverse")
VRDiv(a, b) == Fail("TypeError")
\* definition: the quotient q is the polynomial with q * divisor = dividend; a zero divisor is an error, a
\* divisor of several terms is refused (the empty dividend over the number 0 is left open)
DDivDefined(a, b) == ~(b.k = "num" /\ b.v = RZero /\ a.p = PEmpty)
DDiv(a, b) ==
  LET dv == AsP(b)
  IN IF dv = PEmpty THEN Fail("ZeroDivisionError")
     ELSE IF NTerms(dv) > 1 THEN Fail("NotImplementedError")
     ELSE Good(DefMul(a.p, MonoInv(dv)), a.z)

\* ---- __pow__ ----------------------------------------------------------------------------------
\* exponent: [k |-> "int", v |-> Int] | [k |-> "poly", p |-> polynomial with integer coefficients]
\* NegPowRefuses: TRUE = a negative exponent on a polynomial of several terms raises (the behaviour the
\* specification demands); FALSE = the pinned code: the list of copies `[self.copy() for unused in
\* xrange(other - 1)]` is empty for other <= 0 and reduce() over [self] alone returns self  (kept as a
\* sensitivity switch)
ExpGeneral(n) == n.k = "poly" /\ ~(DOMAIN n.p \subseteq {0})
ExpVal(n)     == IF n.k = "poly" THEN PCoef(n.p, 0)[1] ELSE n.v            \* other = other[0]
VPow(a, n, NegPowRefuses) ==
  IF ExpGeneral(n) THEN Fail("NotImplementedError")                       \* "Can't power general Poly instances"
  ELSE LET ev == ExpVal(n)
       IN IF ev = 0 THEN Good(PConst(ROne), a.z)
          ELSE IF a.p = PEmpty THEN Good(PEmpty, a.z)
          ELSE IF NTerms(a.p) = 1 THEN Good(OpPow(a.p, ev), a.z)      \* (k * n, v ** n)
          ELSE IF ev >= 1 THEN Good(MulChain(a.p, ev), a.z)
          ELSE IF NegPowRefuses THEN Fail("NotImplementedError") ELSE Good(a.p, a.z)
\* definition: the n-th power in the ring of Laurent polynomials -- the n-fold product, the inverse of a
\* one-term polynomial for n < 0; several terms have no inverse there: no value may be returned.
\* (0 ** negative, i.e. the empty polynomial, is left open.)
DPowDefined(a, n) == ExpGeneral(n) \/ ~(a.p = PEmpty /\ ExpVal(n) < 0)
DPow(a, n) ==
  IF ExpGeneral(n) THEN Fail("NotImplementedError")
  ELSE LET ev == ExpVal(n)
       IN IF ev >= 0 THEN Good(DefPow(a.p, ev), a.z)
          ELSE IF NTerms(a.p) = 1 THEN Good(DefPow(MonoInv(a.p), -ev), a.z)
          ELSE Fail("NotImplementedError")
\* what makes a returned value a power: evaluation commutes with it at every point where both sides exist
PowIsPower(a, n, r, V) ==
  (r.e = "none" /\ ~ExpGeneral(n)) =>
     \A v \in V : (v # RZero /\ DefEval(a.p, v) # RZero) => DefEval(r.p, v) = RPow(DefEval(a.p, v), ExpVal(n))

\* float exponents "work when the Poly has only one term": (c x^k) ** e with e = en/ed
\* key k * e (an integer-valued float product is stored as an int by the constructor), coefficient
\* `1 if v == 1 else v ** other` -- a float unless it is the kept 1
RootCands == {Norm(n, d) : n \in 1..12, d \in 1..12}
ExactRoot(c, q) == IF q = 1 THEN c ELSE CHOOSE r \in RootCands : RPow(r, q) = c
HasExactRoot(c, q) == q = 1 \/ \E r \in RootCands : RPow(r, q) = c
VPowF(k, c, e) ==
  [key   |-> RMul(R(k), e),
   coef  |-> IF c = ROne THEN ROne ELSE RPow(ExactRoot(c, e[2]), e[1]),
   float |-> c # ROne]
\* law: raising to e and then to 1/e gives the term back
PowFRoundTrip(k, c, e) ==
  (e[1] > 0 /\ k # 0) =>
     LET r == VPowF(k, c, e)
     IN /\ RMul(r.key, RInv(e)) = R(k)
        /\ (HasExactRoot(r.coef, e[1]) => RPow(ExactRoot(r.coef, e[1]), e[2]) = c)

\* ---- diff(n) / integrate() --------------------------------------------------------------------
VCalc(a, n) ==
  [diffn |-> Good(OpDiffN(a.p, IF n < 0 THEN 0 ELSE n), a.z),          \* xrange(n) is empty for n <= 0
   integ |-> IF CanIntegrate(a.p) THEN Good(OpIntegrate(a.p), a.z)
             ELSE Fail("ValueError")]                                   \* "Unable to integrate term that powers to -1"
RECURSIVE DDiffN(_, _)
DDiffN(p, n) == IF n = 0 THEN p ELSE DDiffN(DefDiff(p), n - 1)
\* antiderivative without integration constant: coefficient k+1 is p_k / (k+1)
DIntegrate(p) == FromCoefs([j \in {k + 1 : k \in DOMAIN p} |-> RDiv(p[j - 1], R(j))])
DCalc(a, n) ==
  [diffn |-> Good(DDiffN(a.p, n), a.z),
   integ |-> IF -1 \in DOMAIN a.p THEN Fail("ValueError") ELSE Good(DIntegrate(a.p), a.z)]
WithoutConst(p) == [k \in DOMAIN p \ {0} |-> p[k]]
CalcLaws(a, n, out) ==
  /\ (IsPolynomial(a.p) /\ (a.p = PEmpty \/ PMaxKey(DOMAIN a.p \cup {0}) < n)) => out.diffn.p = PEmpty   \* order < n
  /\ n = 0 => out.diffn.p = a.p
  /\ out.integ.e = "none" => /\ DefDiff(out.integ.p) = a.p                       \* diff undoes integrate
                             /\ 0 \notin DOMAIN out.integ.p                      \* no integration constant
  /\ (-1 \notin DOMAIN DefDiff(a.p)) /\ DIntegrate(DefDiff(a.p)) = WithoutConst(a.p)   \* x^-1 never comes out of diff
  /\ out.diffn.z = a.z /\ (out.integ.e = "none" => out.integ.z = a.z)

\* ---- == / != / hash against numbers and polynomials ------------------------------------------
\* other = Poly(other, zero=self.zero); zeros compare by value, the stores as dictionaries
VEq(a, b) ==
  LET o == IF b.k = "poly" THEN PV(b.p, b.z) ELSE PV(PConst(b.v), a.z)
  IN a.z.v = o.z.v /\ OpEq(a.p, o.p)
VEqShow(a, b) == [eq |-> VEq(a, b), ne |-> ~VEq(a, b),
                  hashsame |-> b.k = "poly" /\ HashKey(a.p) = HashKey(b.p) /\ a.z.v = b.z.v]
\* a polynomial equals a number iff it is that constant; two polynomials iff same terms and equal zeros
DEq(a, b) == IF b.k = "num" THEN a.p = PConst(b.v) ELSE (a.p = b.p /\ a.z.v = b.z.v)

\* ---- x, lagrange --------------------------------------------------------------------------------
VX == PV(PX, ZFloat)                                          \* x = Poly({1: 1})
XLaws(V) == /\ \A v \in V : OpCall(VX.p, v, "auto") = v       \* x(v) = v
            /\ OpPow(VX.p, 2) = OpMul(VX.p, VX.p) /\ OpPow(VX.p, -1) = Mono(-1, ROne)
            /\ OpDiff(VX.p) = PConst(ROne) /\ NTerms(VX.p) = 1
\* lagrange = StrategyDict("lagrange"): strategies in the order of their definition; the first one is the default
LagrangeStrategies == <<"func", "poly">>
LagrangeFacts == [name |-> "lagrange", keys |-> LagrangeStrategies, default |-> LagrangeStrategies[1]]
\* the two strategies are one interpolator: poly(pairs)(t) = func(pairs)(t)
LagrangeAgree(pts, V) == DistinctX(pts) => \A t \in V : DefEval(OpLagrangePoly(pts), t) = OpLagrangeFunc(pts, t)
============================================================================
