----------------------------- MODULE BlocksDef -----------------------------
(***************************************************************************)
(* Definition layer of property C08 (no variables: also used by Ola/Stft). *)
(*                                                                         *)
(* A sequence of n items is blocked with block length `size` and hop `h`.  *)
(* Items are addressed 1-based: item i, i \in 1..n.  Block k (k = 0, 1, ..)*)
(* is the window of items k*h+1 .. k*h+size.                                *)
(*   * the COMPLETE blocks are those that lie inside the input;            *)
(*   * after them comes ONE padded block iff the next window would hold    *)
(*     more than max(size-h, 0) real items (i.e. at least one item that no *)
(*     earlier block showed); the missing positions hold the pad value.    *)
(***************************************************************************)
EXTENDS Integers, Sequences

BMax(a, b) == IF a < b THEN b ELSE a
BMin(a, b) == IF a < b THEN a ELSE b

\* hop = 0 encodes "hop not given" (defaults to size)
EffHop(size, hop) == IF hop = 0 THEN size ELSE hop

\* number of windows k*h+1..k*h+size that fit into 1..n
NComplete(n, size, h) == IF n < size THEN 0 ELSE ((n - size) \div h) + 1

\* real items the window after the last complete one would hold (<= 0: it starts beyond the input)
TailReal(n, size, h)  == n - NComplete(n, size, h) * h
HasTail(n, size, h)   == TailReal(n, size, h) > BMax(size - h, 0)
NBlocks(n, size, h)   == NComplete(n, size, h) + (IF HasTail(n, size, h) THEN 1 ELSE 0)

\* block k (0-based) of the items Item(1..n); positions past the input hold `pad`
DefBlock(k, n, size, h, Item(_), pad) ==
  [j \in 1..size |-> IF k * h + j <= n THEN Item(k * h + j) ELSE pad]

\* all blocks the property promises, in order (a sequence of NBlocks sequences of length size)
DefBlocks(n, size, h, Item(_), pad) ==
  [k \in 1..NBlocks(n, size, h) |-> DefBlock(k - 1, n, size, h, Item, pad)]

\* zero_pad: `left` pad items, the n items, `right` pad items
DefZeroPad(n, left, right, Item(_), pad) ==
  [i \in 1..(left + n + right) |-> IF i <= left \/ i > left + n THEN pad ELSE Item(i - left)]

\* number of items that must have been consumed when block k (1-based in the output) is produced
DueAt(k, n, size, h) == IF k <= NComplete(n, size, h) THEN (k - 1) * h + size ELSE n
============================================================================
