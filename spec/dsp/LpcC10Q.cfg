CONSTANTS
  ThenStepDown = FALSE
  Cases <- C10Quick
INIT Init
NEXT Next
INVARIANT LevinsonSolves
INVARIANT ErrorIdentity
INVARIANT AcorrIsGram
INVARIANT KautocorMinimises
INVARIANT KautocorNoBetterNeighbour
INVARIANT LagIsGram
INVARIANT KcOrthogonal
INVARIANT KcovarSolves
INVARIANT EnergyIdentities
INVARIANT LevinsonRecoversKs
INVARIANT ErrProduct
INVARIANT LevinsonIsStepUp
CHECK_DEADLOCK FALSE
