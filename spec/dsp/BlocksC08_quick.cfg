CONSTANTS
  MaxN = 20
  MaxSize = 6
  MaxHop = 9
  MaxPad = 3
  MaxZN = 4
  Cases <- C08Grid
INIT Init
NEXT Next
INVARIANT TypeOK
INVARIANT BlocksRefine
INVARIANT IdxInv
INVARIANT ResInv
INVARIANT PadOnlyAtEnd
INVARIANT ProducedWhenDue
INVARIANT ZeroPadRefine
PROPERTY Monotone
CHECK_DEADLOCK FALSE
