CONSTANTS
  Powers <- PowersQ
  Coefs <- CoefsQ
  Zeros <- ZerosQ
  MaxTerms = 3
INIT Init
NEXT Next
VIEW View
INVARIANT Refines
INVARIANT NoZeroStored
INVARIANT ViewsCoherent
PROPERTY FrozenIsFinal
PROPERTY CreationOrder
CHECK_DEADLOCK FALSE
