----------------------------- MODULE WindowsReg -----------------------------
(***************************************************************************)
(* audiolazy.lazy_analysis._generate_window_strategies  (property C14,     *)
(* the cross-reference clause).                                            *)
(*                                                                         *)
(* Operational layer: the loop that fills the two strategy dictionaries -- *)
(*   for entry in table:                                                   *)
(*     for sdict in [window, wsymm]:                                       *)
(*       sdict.strategy(all names)(new function)       -- Register         *)
(*       if not distinct: wsymm[...] = window[sname]; break   -- Share     *)
(*     wsymm[sname].periodic = window[sname].periodic = window[sname]      *)
(*     wsymm[sname].symm     = window[sname].symm     = wsymm[sname]  -- Link *)
(* A strategy (function object) is identified by <<dictionary it was made  *)
(* for, sname>>.  ShareAllNames = TRUE is the intended behaviour (the      *)
(* shared rectangular strategy is reachable in wsymm under every name it   *)
(* has in window); FALSE registers it under its first name only.           *)
(* Definition layer: what the statement says about the finished            *)
(* dictionaries (CrossRefs and the invariants below).                      *)
(***************************************************************************)
EXTENDS WindowTable, TLC, FiniteSets

CONSTANT ShareAllNames

VARIABLES i,      \* index of the table entry being processed (Len(WTable)+1 = finished)
          ph,     \* "window" | "wsymm" | "share" | "link"
          reg,    \* [window |-> name -> strategy, wsymm |-> name -> strategy]
          link,   \* strategy -> [periodic |-> strategy, symm |-> strategy]
          dlink   \* dictionary-level attributes: window.symm, wsymm.periodic, ...
rvars == <<i, ph, reg, link, dlink>>

NEntries == Len(WTable)
E        == WTable[i]
Fn(d, e) == <<d, WSName(e)>>
Ext(f, S, v) == [x \in DOMAIN f \cup S |-> IF x \in S THEN v ELSE f[x]]

GInit == /\ i = 1 /\ ph = "window"
         /\ reg = [window |-> <<>>, wsymm |-> <<>>]
         /\ link = <<>>
         \* window.symm = wsymm.symm = wsymm ; window.periodic = wsymm.periodic = window
         /\ dlink = [window |-> [symm |-> "wsymm", periodic |-> "window"],
                     wsymm  |-> [symm |-> "wsymm", periodic |-> "window"]]

Register(d) ==
  /\ i <= NEntries /\ ph = d
  /\ reg' = [reg EXCEPT ![d] = Ext(reg[d], WSeqRange(E.names), Fn(d, E))]
  /\ ph' = IF d = "window" THEN (IF E.distinct THEN "wsymm" ELSE "share") ELSE "link"
  /\ UNCHANGED <<i, link, dlink>>

Share ==
  /\ i <= NEntries /\ ph = "share"
  /\ reg' = [reg EXCEPT !.wsymm = Ext(reg.wsymm,
                                      IF ShareAllNames THEN WSeqRange(E.names) ELSE {WSName(E)},
                                      reg.window[WSName(E)])]
  /\ ph' = "link"                                   \* break
  /\ UNCHANGED <<i, link, dlink>>

Link ==
  /\ i <= NEntries /\ ph = "link"
  /\ LET w == reg.window[WSName(E)]
         s == reg.wsymm[WSName(E)]
     IN link' = Ext(link, {w, s}, [periodic |-> w, symm |-> s])
  /\ i' = i + 1 /\ ph' = "window"
  /\ UNCHANGED <<reg, dlink>>

GNext == Register("window") \/ Register("wsymm") \/ Share \/ Link
GSpec == GInit /\ [][GNext]_rvars

---------------------------------------------------------------------------
Finished   == i = NEntries + 1
DoneNames  == UNION {WSeqRange(WTable[k].names) : k \in 1..(i - 1)}     \* names of finished entries

\* the statement: "the periodic/symm cross-references of both strategy dictionaries point at each other"
XrefOK(nm) ==
  /\ nm \in DOMAIN reg.window /\ nm \in DOMAIN reg.wsymm
  /\ LET w == reg.window[nm]
         s == reg.wsymm[nm]
     IN /\ link[w].symm = s     /\ link[s].periodic = w
        /\ link[w].periodic = w /\ link[s].symm = s
CrossRefs      == \A nm \in DoneNames : XrefOK(nm)
\* "all strategies and aliases": every name of an entry is the same strategy, in each dictionary
AliasesShare   == \A k \in 1..(i - 1), d \in {"window", "wsymm"} :
                     \A a \in WSeqRange(WTable[k].names) :
                        a \in DOMAIN reg[d] /\ reg[d][a] = reg[d][WSName(WTable[k])]
\* periodic and symmetric are different functions exactly for the distinct models
SharedIffNotDistinct == \A k \in 1..(i - 1) :
                     LET nm == WSName(WTable[k]) IN (reg.window[nm] = reg.wsymm[nm]) <=> ~WTable[k].distinct
\* different models are different strategies
ModelsDiffer   == \A k1, k2 \in 1..(i - 1), d \in {"window", "wsymm"} :
                     k1 # k2 => reg[d][WSName(WTable[k1])] # reg[d][WSName(WTable[k2])]
NoOtherNames   == Finished => DOMAIN reg.window = WAllNames /\ DOMAIN reg.wsymm = WAllNames
DictLevel      == /\ dlink.window.symm = "wsymm" /\ dlink.wsymm.periodic = "window"
                  /\ dlink.window.periodic = "window" /\ dlink.wsymm.symm = "wsymm"
============================================================================
