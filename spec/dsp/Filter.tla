------------------------------ MODULE Filter ------------------------------
(***************************************************************************)
(* audiolazy.lazy_filters.LinearFilter.__call__  (properties C04 and C06). *)
(*                                                                         *)
(* Operational layer: the generator the library writes as source text and  *)
(* executes -- registers m1..m(la-1) loaded from the normalised memory,    *)
(* d1..d(lb-1) loaded with the zero value, one Step per input sample that  *)
(* computes m0, emits it and shifts the registers high-to-low.  A          *)
(* coefficient is either a constant or a stream read once per Step.        *)
(* Definition layer: the difference equation                               *)
(*   a0[n]*y[n] = sum_k b_k[n]*x[n-k] - sum_{k>=1} a_k[n]*y[n-k]           *)
(* with x[<0] = zero value and y[-k] = k-th memory item.                   *)
(* Samples are linear forms over symbols (module Lin), so equality of the  *)
(* two layers is the identity for every sample value.                      *)
(***************************************************************************)
EXTENDS Lin, TLC, FiniteSets

CONSTANTS MaxLen,    \* number of input samples x1..xMaxLen
          MaxMem,    \* memory symbols M1..MaxMem
          Cases      \* set of case records (see below)

NS      == MaxLen + 1 + MaxMem             \* symbols: x_i -> i, Z -> MaxLen+1, M_j -> MaxLen+1+j
XSym(i) == LSym(NS, i)
ZSym    == LSym(NS, MaxLen + 1)
MSym(j) == LSym(NS, MaxLen + 1 + j)
Inf     == 1000000

(* A coefficient: [k |-> "c", v |-> rational]                               *)
(*             or [k |-> "s", s |-> <<rationals>>, per |-> BOOLEAN]  (stream; periodic or finite) *)
Const(v)       == [k |-> "c", v |-> v]
IsStr(c)       == c.k = "s"
CoefAt(c, t)   == IF c.k = "c" THEN c.v
                  ELSE IF c.per THEN c.s[(t % Len(c.s)) + 1] ELSE c.s[t + 1]
CoefLen(c)     == IF c.k = "c" \/ c.per THEN Inf ELSE Len(c.s)
IsZeroCoef(c)  == c.k = "c" /\ c.v = RZero

(* A case: [b |-> <<coef>>, a |-> <<coef>> (a[1] not zero), mem |-> "none"|"exact"|"longer",       *)
(*          zero |-> "sym"|"num", adv |-> 0.. (numerator advance: >0 means a negative delay)]      *)

\* Poly drops zero coefficients, so the lengths the code sees end at the last non-zero coefficient
LastNZ(cs) == LET nz == {i \in DOMAIN cs : ~IsZeroCoef(cs[i])} IN
              IF nz = {} THEN 0 ELSE CHOOSE i \in nz : \A j \in nz : j <= i
\* numerator advanced by `adv` samples: coefficient i sits at delay i-1-adv.  Only a NON-ZERO
\* coefficient at a negative delay makes the filter non-causal (zero coefficients are not terms).
MinOf(x, y)  == IF x < y THEN x ELSE y
Noncausal(c) == \E i \in 1..MinOf(c.adv, Len(c.b)) : ~IsZeroCoef(c.b[i])
EffB(c)      == IF c.adv = 0 THEN c.b ELSE SubSeq(c.b, MinOf(c.adv, Len(c.b)) + 1, Len(c.b))
La(c) == LastNZ(c.a)
Lb(c) == LastNZ(EffB(c))
Lm(c) == La(c) - 1
Zero(c) == IF c.zero = "sym" THEN ZSym ELSE LZero(NS)

\* a callable memory is called once, with the needed size (when nothing is needed, not asking at all is as good)
MemAsked(c) == <<Lm(c)>>
MemAskedOK(c, asked) == asked = MemAsked(c) \/ (Lm(c) = 0 /\ asked = <<>>)
\* memory after the code's normalisation: None -> zeros; iterable/callable -> its first lm items
MemInit(c) == [j \in 1..Lm(c) |-> IF c.mem = "none" THEN Zero(c) ELSE MSym(j)]

\* the generated expression has no term at all: "yield zero"
NoTerms(c) == /\ \A i \in DOMAIN EffB(c) : IsZeroCoef(EffB(c)[i])
              /\ \A i \in DOMAIN c.a : i = 1 \/ IsZeroCoef(c.a[i])

MinLen(S) == CHOOSE x \in S : \A y \in S : x <= y
\* the run ends with the input or with the first coefficient stream that ends
RunLen(c) == MinLen({MaxLen} \cup {CoefLen(EffB(c)[i]) : i \in DOMAIN EffB(c)} \cup {CoefLen(c.a[i]) : i \in DOMAIN c.a})

VARIABLES case, n, out, mreg, dreg, err
vars == <<case, n, out, mreg, dreg, err>>

Init == /\ case \in Cases
        /\ n = 0 /\ out = <<>> /\ err = "none"
        /\ mreg = MemInit(case)
        /\ dreg = [k \in 1..(Lb(case) - 1) |-> Zero(case)]

\* a filter with a negative delay refuses to run
Refuse == /\ Noncausal(case) /\ err = "none"
          /\ err' = "ValueError"
          /\ UNCHANGED <<case, n, out, mreg, dreg>>

RECURSIVE SumTerms(_, _, _)
\* sum_{k=lo..hi} f[k]   (f: function from 0.. to linear forms)
SumTerms(f, lo, hi) == IF lo > hi THEN LZero(NS) ELSE LAdd(f[lo], SumTerms(f, lo + 1, hi))

Step ==
  /\ ~Noncausal(case) /\ n < RunLen(case)
  /\ LET x   == XSym(n + 1)
         d   == [k \in 0..(Lb(case) - 1) |-> IF k = 0 THEN x ELSE dreg[k]]
         fwd == [k \in 0..(Lb(case) - 1) |-> LScale(CoefAt(EffB(case)[k + 1], n), d[k])]
         bwd == [k \in 1..Lm(case)       |-> LScale(CoefAt(case.a[k + 1], n), mreg[k])]
         acc == LSub(SumTerms(fwd, 0, Lb(case) - 1), SumTerms(bwd, 1, Lm(case)))
         m0  == IF NoTerms(case) THEN Zero(case) ELSE LDiv(acc, CoefAt(case.a[1], n))
     IN /\ out'  = Append(out, m0)
        /\ mreg' = [k \in 1..Lm(case) |-> IF k = 1 THEN m0 ELSE mreg[k - 1]]
        /\ dreg' = [k \in 1..(Lb(case) - 1) |-> IF k = 1 THEN x ELSE dreg[k - 1]]
  /\ n' = n + 1
  /\ UNCHANGED <<case, err>>

Next == Step \/ Refuse
Spec == Init /\ [][Next]_vars

---------------------------------------------------------------------------
(* Definition layer: the difference equation, independent of registers     *)
DefX(c, t) == IF t < 0 THEN Zero(c) ELSE XSym(t + 1)
\* y[-k] = k-th memory item (zero value when no memory is given)
DefMem(c, k) == IF c.mem = "none" THEN Zero(c) ELSE MSym(k)

RECURSIVE DefSeq(_, _)
\* <<y[0], ..., y[t-1]>>
DefSeq(c, t) ==
  IF t = 0 THEN <<>>
  ELSE LET prev == DefSeq(c, t - 1)
           tt   == t - 1
           Y(i) == IF i < 0 THEN DefMem(c, -i) ELSE prev[i + 1]
           bb   == EffB(c)
           fw   == [k \in 0..(Len(bb) - 1) |-> LScale(CoefAt(bb[k + 1], tt), DefX(c, tt - k))]
           bw   == [k \in 1..(Len(c.a) - 1) |->
                      IF IsZeroCoef(c.a[k + 1]) THEN LZero(NS)      \* (so y[-k] beyond the memory is never needed)
                      ELSE LScale(CoefAt(c.a[k + 1], tt), Y(tt - k))]
           acc  == LSub(SumTerms(fw, 0, Len(bb) - 1), SumTerms(bw, 1, Len(c.a) - 1))
       IN Append(prev, IF NoTerms(c) THEN Zero(c) ELSE LDiv(acc, CoefAt(c.a[1], tt)))

\* what the property promises for a case observed for `len` input samples
Expected(c, len) == IF Noncausal(c) THEN [err |-> "ValueError", out |-> <<>>]
                    ELSE [err |-> "none", out |-> DefSeq(c, IF len < RunLen(c) THEN len ELSE RunLen(c))]

---------------------------------------------------------------------------
OnePerInput      == Len(out) = n
DiffEq           == ~Noncausal(case) => out = DefSeq(case, n)
NonCausalRefuses == Noncausal(case) => out = <<>> /\ n = 0
AllZeroFilter    == NoTerms(case) => \A i \in DOMAIN out : out[i] = Zero(case)
EndsWithShortest == n <= RunLen(case)
===========================================================================
