----------------------------- MODULE FilterC06 -----------------------------
(***************************************************************************)
(* Property C06: time-varying coefficients (audiolazy.lazy_filters         *)
(* LinearFilter.__call__ with Stream coefficients, ZFilter / Poly algebra  *)
(* on such filters, StreamTeeHub accounting).  EXTENDS Filter: the         *)
(* difference equation (DefSeq, Expected, RunLen, CoefAt) is the one of    *)
(* module Filter; this module adds                                         *)
(*                                                                         *)
(*  definition layer  -- what the property says about filter ARITHMETIC:   *)
(*     the coefficient sequences of a sum / product / scaling are the      *)
(*     element-wise (per time index t) polynomial sums / convolutions of   *)
(*     the operands' coefficient values at t, a constant standing for the  *)
(*     constant stream (Frozen, FlatCase).  The run length is the input    *)
(*     length or the length of the shortest coefficient stream.            *)
(*                                                                         *)
(*  operational layer -- what the code does:                               *)
(*     Poly / ZFilter operators build coefficient STREAM EXPRESSIONS       *)
(*     (xmap chains over tee branches of the sources: SAdd, SMul, PMulS,   *)
(*     PAddS, Sym, with the equal-denominator shortcut of ZFilter.__add__);*)
(*     a Stream-valued a0 rescales every coefficient by 1/a0 (GainPath,    *)
(*     lazy_filters.py:169-176); the generated generator then does one     *)
(*     next() per coefficient stream and per input sample (Step6), each    *)
(*     leaf occurrence being its own tee branch with its own cursor, the   *)
(*     source being read only by the branch that is ahead (PullFrom).      *)
(*     (A tee over a derived stream, e.g. thub(1/a0, k), is represented by *)
(*     tee branches of the sources with the map re-applied per branch: the *)
(*     values and the source reads are the same.)                          *)
(*                                                                         *)
(*  invariants relate the two: DiffEq (operational output == difference    *)
(*  equation over the element-wise coefficient sequences), TeeAccounting   *)
(*  (every source read exactly n times after n outputs, whatever the       *)
(*  number of branches), NthValue (all branch cursors are n), EndsExactly  *)
(*  (the machine can step iff n < RunLen), ConstStream (a period-1 stream  *)
(*  == the constant), ReadBound.                                           *)
(***************************************************************************)
EXTENDS Filter

CONSTANT Raw6        \* set of raw cases [expr, src, mem, zero]  (see the grids below)

---------------------------------------------------------------------------
(* Sources: [s |-> <<rationals>>, per |-> BOOLEAN]; per: Stream(v1, v2, ...) endless cycle,      *)
(* otherwise Stream([v1, ...]) finite.  A periodic source has at least one value.               *)
SrcLen(q)    == IF q.per THEN Inf ELSE Len(q.s)
SrcHas(q, t) == q.per \/ t < Len(q.s)
SrcAt(q, t)  == IF q.per THEN q.s[(t % Len(q.s)) + 1] ELSE q.s[t + 1]

(* Coefficient of an atom: Const(v) (module Filter) or Leaf(i) = one use of source i            *)
Leaf(i)      == [k |-> "src", i |-> i]
IsC(e)       == e.k = "c"

(* Filter expressions (the "programs" of the quantifier):                                        *)
Flt(b, a)    == [t |-> "flt", b |-> b, a |-> a]            \* b, a: sequences of Const / Leaf, index k+1 = delay k
Add(l, r)    == [t |-> "add", l |-> l, r |-> r]
Sub(l, r)    == [t |-> "sub", l |-> l, r |-> r]
Mul(l, r)    == [t |-> "mul", l |-> l, r |-> r]
Scale(c, f)  == [t |-> "scale", c |-> c, f |-> f]          \* c: Const or Leaf   (c * f, f * c)
Neg(f)       == [t |-> "neg", f |-> f]

MaxOf(x, y)  == IF x > y THEN x ELSE y

RECURSIVE ExprLeaves(_), CoefLeaves(_)
\* the sources an expression uses, one entry per use
CoefLeaves(cs) == IF cs = <<>> THEN <<>>
                  ELSE (IF IsC(Head(cs)) THEN <<>> ELSE <<Head(cs).i>>) \o CoefLeaves(Tail(cs))
ExprLeaves(e) ==
  CASE e.t = "flt"   -> CoefLeaves(e.b) \o CoefLeaves(e.a)
    [] e.t = "scale" -> (IF IsC(e.c) THEN <<>> ELSE <<e.c.i>>) \o ExprLeaves(e.f)
    [] e.t = "neg"   -> ExprLeaves(e.f)
    [] OTHER         -> ExprLeaves(e.l) \o ExprLeaves(e.r)
UsedSrc(e) == {ExprLeaves(e)[j] : j \in DOMAIN ExprLeaves(e)}

---------------------------------------------------------------------------
(* DEFINITION LAYER: element-wise coefficient algebra                                            *)
(* constant polynomials in z^-1: sequences of rationals, index k+1 = delay k                     *)
\* TLC keeps [k \in S |-> e] as an unevaluated lambda and re-evaluates e at every application; Tup turns a
\* function with domain 1..n into an explicit tuple (evaluated once), which keeps nested products linear
Tup(f)       == f \o <<>>
CGet(p, k)   == IF k \in DOMAIN p THEN p[k] ELSE RZero
CAddP(p, q)  == Tup([k \in 1..MaxOf(Len(p), Len(q)) |-> RAdd(CGet(p, k), CGet(q, k))])
CNegP(p)     == Tup([k \in DOMAIN p |-> RNeg(p[k])])
RECURSIVE ConvSum(_, _, _, _)
ConvSum(p, q, k, i) == IF i > Len(p) THEN RZero
                       ELSE RAdd(IF (k + 1 - i) \in DOMAIN q THEN RMul(p[i], q[k + 1 - i]) ELSE RZero,
                                 ConvSum(p, q, k, i + 1))
CMulP(p, q)  == Tup([k \in 1..(Len(p) + Len(q) - 1) |-> ConvSum(p, q, k, 1)])

\* value of an atom coefficient at time t: the constant, or the t-th value of its stream
CV(c, t, src) == IF IsC(c) THEN c.v ELSE SrcAt(src[c.i], t)

RECURSIVE Frozen(_, _, _)
\* the filter at time t: <<numerator, denominator>> over the coefficient values at t
Frozen(e, t, src) ==
  CASE e.t = "flt"   -> [num |-> Tup([k \in DOMAIN e.b |-> CV(e.b[k], t, src)]),
                         den |-> Tup([k \in DOMAIN e.a |-> CV(e.a[k], t, src)])]
    [] e.t = "add"   -> LET f == Frozen(e.l, t, src)  g == Frozen(e.r, t, src)
                        IN [num |-> CAddP(CMulP(f.num, g.den), CMulP(g.num, f.den)), den |-> CMulP(f.den, g.den)]
    [] e.t = "sub"   -> LET f == Frozen(e.l, t, src)  g == Frozen(e.r, t, src)
                        IN [num |-> CAddP(CMulP(f.num, g.den), CMulP(CNegP(g.num), f.den)), den |-> CMulP(f.den, g.den)]
    [] e.t = "mul"   -> LET f == Frozen(e.l, t, src)  g == Frozen(e.r, t, src)
                        IN [num |-> CMulP(f.num, g.num), den |-> CMulP(f.den, g.den)]
    [] e.t = "scale" -> LET f == Frozen(e.f, t, src)
                        IN [num |-> CMulP(f.num, <<CV(e.c, t, src)>>), den |-> f.den]
    [] e.t = "neg"   -> LET f == Frozen(e.f, t, src) IN [num |-> CNegP(f.num), den |-> f.den]

\* number of time indices at which every coefficient stream still has a value (capped by the input)
MinNat(S)     == CHOOSE x \in S : \A y \in S : x <= y
Horizon(e, src) == MinNat({MaxLen} \cup {SrcLen(src[i]) : i \in UsedSrc(e)})

\* the coefficient SEQUENCES of the expression, as a case of module Filter (every coefficient a finite
\* stream record holding its values at t = 0..Horizon-1; RunLen of module Filter is then Horizon)
SeqCoef(vals) == [k |-> "s", s |-> vals, per |-> FALSE]
FlatCase(expr, src, mem, zero) ==
  LET hz == Horizon(expr, src)
      fr == Tup([t \in 1..hz |-> Frozen(expr, t - 1, src)])
      nb == IF hz = 0 THEN 1 ELSE Len(fr[1].num)
      na == IF hz = 0 THEN 1 ELSE Len(fr[1].den)
  IN [expr |-> expr, src |-> src, mem |-> mem, zero |-> zero, adv |-> 0,
      b |-> Tup([k \in 1..nb |-> SeqCoef(Tup([t \in 1..hz |-> fr[t].num[k]]))]),
      a |-> Tup([k \in 1..na |-> SeqCoef(Tup([t \in 1..hz |-> fr[t].den[k]]))])]

\* "a constant stream behaves like the constant": replace period-1 endless sources by their value
IsConstSrc(q)  == q.per /\ Len(q.s) = 1
ConstCoef(c, src) == IF ~IsC(c) /\ IsConstSrc(src[c.i]) THEN Const(src[c.i].s[1]) ELSE c
RECURSIVE Constify(_, _)
Constify(e, src) ==
  CASE e.t = "flt"   -> Flt([k \in DOMAIN e.b |-> ConstCoef(e.b[k], src)], [k \in DOMAIN e.a |-> ConstCoef(e.a[k], src)])
    [] e.t = "scale" -> Scale(ConstCoef(e.c, src), Constify(e.f, src))
    [] e.t = "neg"   -> Neg(Constify(e.f, src))
    [] OTHER         -> [t |-> e.t, l |-> Constify(e.l, src), r |-> Constify(e.r, src)]

---------------------------------------------------------------------------
(* OPERATIONAL LAYER 1: what Poly / ZFilter arithmetic builds                                    *)
(* stream expression: Const(v) | Leaf(i) | SOp(o, l, r)   (o: "add" "mul" "div" "neg")           *)
SOp(o, l, r) == [k |-> "op", o |-> o, l |-> l, r |-> r]
\* number op number is a number; anything with a Stream is a Stream (StreamMeta.__binary__/__rbinary__)
SAdd(x, y)   == IF IsC(x) /\ IsC(y) THEN Const(RAdd(x.v, y.v)) ELSE SOp("add", x, y)
SMul(x, y)   == IF IsC(x) /\ IsC(y) THEN Const(RMul(x.v, y.v)) ELSE SOp("mul", x, y)
SDiv(x, y)   == IF IsC(x) /\ IsC(y) THEN Const(RDiv(x.v, y.v)) ELSE SOp("div", x, y)
SNeg(x)      == IF IsC(x) THEN Const(RNeg(x.v)) ELSE SOp("neg", x, Const(RZero))
CZero        == Const(RZero)

RECURSIVE SLeaves(_)
SLeaves(e) == IF e.k = "c" THEN <<>> ELSE IF e.k = "src" THEN <<e.i>> ELSE SLeaves(e.l) \o SLeaves(e.r)

RECURSIVE LeavesOf(_)
LeavesOf(cs) == IF cs = <<>> THEN <<>> ELSE SLeaves(Head(cs)) \o LeavesOf(Tail(cs))

\* Poly with stream-expression coefficients: sequence, index k+1 = power k of z^-1; a zero constant is an
\* absent term (Poly.__init__ compacts zeros; absent terms take no part in the loops of __add__/__mul__)
PGet(p, k)   == IF k \in DOMAIN p THEN p[k] ELSE CZero
PAddS(p, q)  == Tup([k \in 1..MaxOf(Len(p), Len(q)) |->
                   IF IsZeroCoef(PGet(p, k)) THEN PGet(q, k)
                   ELSE IF IsZeroCoef(PGet(q, k)) THEN PGet(p, k) ELSE SAdd(p[k], q[k])])
PNegS(p)     == Tup([k \in DOMAIN p |-> SNeg(p[k])])
RECURSIVE MulCoef(_, _, _, _)
\* new_data[k1 + k2] += v1 * v2  over the present terms
MulCoef(p, q, k, i) ==
  IF i > Len(p) THEN CZero
  ELSE LET j    == k + 1 - i
           rest == MulCoef(p, q, k, i + 1)
       IN IF j \notin DOMAIN q \/ IsZeroCoef(p[i]) \/ IsZeroCoef(q[j]) THEN rest
          ELSE IF IsZeroCoef(rest) THEN SMul(p[i], q[j]) ELSE SAdd(SMul(p[i], q[j]), rest)
PMulS(p, q)  == Tup([k \in 1..(Len(p) + Len(q) - 1) |-> MulCoef(p, q, k, 1)])

\* Poly.__eq__: Streams are equal only when identical objects, so two denominators are "equal" only when
\* both are stream-free and have the same terms
PTrimLen(p)  == LastNZ(p)
ConstPolyEq(p, q) == /\ \A k \in DOMAIN p : IsC(p[k])
                     /\ \A k \in DOMAIN q : IsC(q[k])
                     /\ PTrimLen(p) = PTrimLen(q)
                     /\ \A k \in 1..PTrimLen(p) : p[k] = q[k]

RECURSIVE Sym(_)
\* ZFilter.__add__/__sub__/__mul__/__neg__, scalar (number or Stream) * filter
Sym(e) ==
  CASE e.t = "flt"   -> [num |-> e.b, den |-> e.a]
    [] e.t = "add"   -> LET f == Sym(e.l)  g == Sym(e.r)
                        IN IF ConstPolyEq(f.den, g.den) THEN [num |-> PAddS(f.num, g.num), den |-> f.den]
                           ELSE [num |-> PAddS(PMulS(f.num, g.den), PMulS(g.num, f.den)), den |-> PMulS(f.den, g.den)]
    [] e.t = "sub"   -> LET f == Sym(e.l)  g == Sym(e.r)
                        IN IF ConstPolyEq(f.den, g.den) THEN [num |-> PAddS(f.num, PNegS(g.num)), den |-> f.den]
                           ELSE [num |-> PAddS(PMulS(f.num, g.den), PMulS(PNegS(g.num), f.den)), den |-> PMulS(f.den, g.den)]
    [] e.t = "mul"   -> LET f == Sym(e.l)  g == Sym(e.r)
                        IN [num |-> PMulS(f.num, g.num), den |-> PMulS(f.den, g.den)]
    [] e.t = "scale" -> LET f == Sym(e.f) IN [num |-> PMulS(f.num, <<e.c>>), den |-> f.den]
    [] e.t = "neg"   -> LET f == Sym(e.f) IN [num |-> PNegS(f.num), den |-> f.den]

\* LinearFilter.__call__ with a Stream as a0: every coefficient times the stream 1/a0, a0 becomes 1
GainPath(f) ==
  IF IsC(f.den[1]) THEN f
  ELSE LET inv == SDiv(Const(ROne), f.den[1])
       IN [num |-> Tup([k \in DOMAIN f.num |-> IF IsZeroCoef(f.num[k]) THEN CZero ELSE SMul(f.num[k], inv)]),
           den |-> Tup([k \in DOMAIN f.den |-> IF k = 1 THEN Const(ROne)
                                               ELSE IF IsZeroCoef(f.den[k]) THEN CZero ELSE SMul(f.den[k], inv)])]

\* the filter the generated code runs: numerator / denominator cut after their last term
Prog(e) == LET g == GainPath(Sym(e))
           IN [b |-> SubSeq(g.num, 1, LastNZ(g.num)), a |-> SubSeq(g.den, 1, LastNZ(g.den))]

\* cases the property covers and the model represents faithfully (guards, see the driver's assumptions):
\*  * a sum of two filters with the same denominator other than 1 is excluded (same = same terms, a stream
\*    term being the same source: with a shared tee hub that is the same object).  The library then keeps the
\*    common denominator (ZFilter.__add__ shortcut) where the general rule cross-multiplies; both are
\*    element-wise arithmetic on coefficient sequences but they are different time-varying systems, and
\*    the statement fixes neither
\*  * no stream is eliminated by a multiplication with a zero polynomial (it is then no coefficient stream
\*    of the result), the filter has at least one term (the all-zero filter is C04's)
PolySame(p, q) == /\ PTrimLen(p) = PTrimLen(q)
                  /\ \A k \in 1..PTrimLen(p) : p[k] = q[k]
IsOnePoly(p)   == PTrimLen(p) = 1 /\ p[1] = Const(ROne)
RECURSIVE NoSharedDen(_)
NoSharedDen(e) ==
  CASE e.t = "flt"                -> TRUE
    [] e.t \in {"scale", "neg"}   -> NoSharedDen(e.f)
    [] e.t = "mul"                -> NoSharedDen(e.l) /\ NoSharedDen(e.r)
    [] OTHER                      -> /\ NoSharedDen(e.l) /\ NoSharedDen(e.r)
                                     /\ LET fd == Sym(e.l).den  gd == Sym(e.r).den
                                        IN PolySame(fd, gd) => IsOnePoly(fd)
CoveredExpr(expr, src, mem) ==
  /\ NoSharedDen(expr)
  /\ UsedSrc(expr) = DOMAIN src
  /\ LET p == Prog(expr)
         lv == LeavesOf(p.b \o Tail(p.a))
     IN /\ Len(p.b) >= 1 /\ Len(p.a) >= 1 /\ (mem # "none" => Len(p.a) - 1 <= MaxMem)
        /\ {lv[j] : j \in DOMAIN lv} = DOMAIN src
Covered(c) == CoveredExpr(c.expr, c.src, c.mem)

---------------------------------------------------------------------------
(* OPERATIONAL LAYER 2: the generated generator with one tee branch per leaf                      *)
VARIABLES flat,     \* FlatCase(case...): the element-wise coefficient sequences (definition layer), set by Build
          prog,     \* Prog(case.expr): the coefficient stream expressions the library built, set by Build
          reads,    \* reads[i]: values taken from source i so far
          cur,      \* cur[j]: position of tee branch j (one branch per leaf of prog, in pull order)
          fin,      \* "new" | "run" | "input-end" | "coef-end"
          cok       \* the case with its constant streams replaced by numbers is inside the guards as well
vars6 == <<vars, flat, prog, reads, cur, fin, cok>>

AllCoefs(p)  == p.b \o Tail(p.a)                     \* pull order: next(b0) .. next(b_lb-1), next(a1) ..
ProgLeaves(p) == LeavesOf(AllCoefs(p))
\* branch index of the first leaf of coefficient number j of AllCoefs
BaseOf(p, j) == Len(LeavesOf(SubSeq(AllCoefs(p), 1, j - 1)))

RECURSIVE SVal(_, _, _, _)
\* value produced by next() on a coefficient stream: every leaf yields the item at ITS OWN branch cursor
SVal(e, base, cu, src) ==
  IF e.k = "c" THEN e.v
  ELSE IF e.k = "src" THEN SrcAt(src[e.i], cu[base + 1])
  ELSE LET x == SVal(e.l, base, cu, src)
           y == SVal(e.r, base + Len(SLeaves(e.l)), cu, src)
       IN CASE e.o = "add" -> RAdd(x, y)
            [] e.o = "mul" -> RMul(x, y)
            [] e.o = "div" -> RDiv(x, y)
            [] e.o = "neg" -> RNeg(x)

RECURSIVE PullFrom(_, _, _, _, _)
\* advance branches j.. in order; a branch that is level with its source reads the source, a branch
\* that is behind takes the buffered item; stop at the first branch whose source has no item left
PullFrom(lv, src, j, rd, cu) ==
  IF j > Len(lv) THEN [reads |-> rd, cur |-> cu, ok |-> TRUE]
  ELSE LET i == lv[j] IN
       IF ~SrcHas(src[i], cu[j]) THEN [reads |-> rd, cur |-> cu, ok |-> FALSE]
       ELSE PullFrom(lv, src, j + 1, IF cu[j] = rd[i] THEN [rd EXCEPT ![i] = @ + 1] ELSE rd,
                     [cu EXCEPT ![j] = @ + 1])

\* `case` is the raw case [expr, src, mem, zero]
Init6 == /\ case \in Raw6
         /\ n = 0 /\ out = <<>> /\ err = "none" /\ fin = "new"
         /\ flat = <<>> /\ prog = <<>> /\ mreg = <<>> /\ dreg = <<>> /\ reads = <<>> /\ cur = <<>> /\ cok = FALSE

\* filter construction (ZFilter / Poly operators) and the call, up to the first next(): no source is read
Build == /\ fin = "new"
         /\ flat' = FlatCase(case.expr, case.src, case.mem, case.zero)
         /\ prog' = Prog(case.expr)
         /\ mreg' = [j \in 1..(Len(prog'.a) - 1) |-> IF case.mem = "none" THEN Zero(case) ELSE MSym(j)]
         /\ dreg' = [k \in 1..(Len(prog'.b) - 1) |-> Zero(case)]
         /\ reads' = [i \in DOMAIN case.src |-> 0]
         /\ cur' = [j \in DOMAIN ProgLeaves(prog') |-> 0]
         /\ fin' = "run"
         /\ cok' = LET ce == Constify(case.expr, case.src)
                   IN NoSharedDen(ce) /\ Len(Prog(ce).b) >= 1        \* (not the all-zero filter: that is C04's)
         /\ UNCHANGED <<case, n, out, err>>

Pulled == PullFrom(ProgLeaves(prog), case.src, 1, reads, cur)

Step6 ==
  /\ fin = "run" /\ n < MaxLen /\ Pulled.ok
  /\ LET lb  == Len(prog.b)
         lm  == Len(prog.a) - 1
         x   == XSym(n + 1)
         bv  == [k \in 0..(lb - 1) |-> SVal(prog.b[k + 1], BaseOf(prog, k + 1), cur, case.src)]
         av  == [k \in 1..lm       |-> SVal(prog.a[k + 1], BaseOf(prog, lb + k), cur, case.src)]
         d   == [k \in 0..(lb - 1) |-> IF k = 0 THEN x ELSE dreg[k]]
         fwd == [k \in 0..(lb - 1) |-> LScale(bv[k], d[k])]
         bwd == [k \in 1..lm       |-> LScale(av[k], mreg[k])]
         acc == LSub(SumTerms(fwd, 0, lb - 1), SumTerms(bwd, 1, lm))
         m0  == LDiv(acc, prog.a[1].v)
     IN /\ out'  = Append(out, m0)
        /\ mreg' = [k \in 1..lm |-> IF k = 1 THEN m0 ELSE mreg[k - 1]]
        /\ dreg' = [k \in 1..(lb - 1) |-> IF k = 1 THEN x ELSE dreg[k - 1]]
  /\ n' = n + 1
  /\ reads' = Pulled.reads /\ cur' = Pulled.cur
  /\ UNCHANGED <<case, err, flat, prog, fin, cok>>

\* "for d0 in seq" finds the input exhausted: nothing else is touched
InputEnd == /\ fin = "run" /\ n = MaxLen
            /\ fin' = "input-end"
            /\ UNCHANGED <<vars, flat, prog, reads, cur, cok>>

\* a coefficient stream is exhausted while there is input: the output ends (no exception)
CoefEnd == /\ fin = "run" /\ n < MaxLen /\ ~Pulled.ok
           /\ fin' = "coef-end"
           /\ reads' = Pulled.reads /\ cur' = Pulled.cur
           /\ UNCHANGED <<vars, flat, prog, cok>>

Next6 == Build \/ Step6 \/ InputEnd \/ CoefEnd
Spec6 == Init6 /\ [][Next6]_vars6

---------------------------------------------------------------------------
(* Invariants (OnePerInput is the one of module Filter; DefSeq and RunLen of module Filter are evaluated  *)
(* on `flat`, the element-wise coefficient sequences)                                                    *)
Built         == fin # "new"
DiffEq6       == Built => out = DefSeq(flat, n)
EndsWithShortest6 == Built => n <= RunLen(flat)
TeeAccounting == fin \in {"run", "input-end"} => \A i \in DOMAIN reads : reads[i] = n
NthValue      == fin \in {"run", "input-end"} => \A j \in DOMAIN cur : cur[j] = n
ReadBound     == Built => \A i \in DOMAIN reads : n <= reads[i] /\ reads[i] <= n + 1
EndsExactly   == /\ fin = "run" => ((n < MaxLen /\ Pulled.ok) <=> n < RunLen(flat))
                 /\ fin = "coef-end" => n = RunLen(flat) /\ n < MaxLen
                 /\ fin = "input-end" => n = RunLen(flat) /\ n = MaxLen
ConstStream   == (Built /\ cok /\ \E i \in DOMAIN case.src : IsConstSrc(case.src[i])) =>
                 out = DefSeq(FlatCase(Constify(case.expr, case.src), case.src, case.mem, case.zero), n)
ConstReads0   == n = 0 /\ fin = "run" => \A i \in DOMAIN reads : reads[i] = 0

---------------------------------------------------------------------------
(* Case grids                                                                                     *)
RS(s)    == [j \in DOMAIN s |-> R(s[j])]
Per(s)   == [s |-> RS(s), per |-> TRUE]
Fin(s)   == [s |-> RS(s), per |-> FALSE]
CI(v)    == Const(R(v))
HalfC    == Const(<<1, 2>>)

\* --- grid A: every subset of the coefficients of a shape replaced by streams ----------------
\* a shape: [b |-> <<ints>>, a |-> <<ints>>]; position p of Pos(shape) = (side, index) of a non-zero coefficient
Shapes == {[b |-> <<2>>,        a |-> <<1>>],
           [b |-> <<1, 2>>,     a |-> <<1>>],
           [b |-> <<1>>,        a |-> <<1, -1>>],
           [b |-> <<1, -1>>,    a |-> <<2, 1>>],
           [b |-> <<1, 0, 2>>,  a |-> <<1, 0, -1>>],
           [b |-> <<2, 1, -1>>, a |-> <<-1, 1, 2>>]}
ShapesQ == {sh \in Shapes : Len(sh.b) + Len(sh.a) <= 4}
PosOf(sh) == {<<"b", k>> : k \in {kb \in DOMAIN sh.b : sh.b[kb] # 0}} \cup {<<"a", k>> : k \in {ka \in DOMAIN sh.a : sh.a[ka] # 0}}
\* order positions: b1 < b2 < .. < a1 < a2 ..
PosRank(sh, p) == IF p[1] = "b" THEN p[2] ELSE Len(sh.b) + p[2]
RankIn(sh, P, p) == Cardinality({q \in P : PosRank(sh, q) <= PosRank(sh, p)})     \* 1-based rank of p within P

\* source pools: pool[r] is given to the r-th replaced position; a0 (position <<"a",1>>) gets PoolA0[r]
PoolPer   == <<Per(<<2, -1>>), Per(<<1, 0, 3>>), Per(<<-1, 2>>), Per(<<3>>), Per(<<1, 2>>), Per(<<-2, 1, 1>>)>>
PoolFin   == <<Fin(<<2, -1, 1, 3>>), Fin(<<1, 3>>), Per(<<-1, 2>>), Fin(<<3, 1, 2>>), Fin(<<>>), Fin(<<2>>)>>
PoolFin2  == <<Fin(<<>>), Per(<<2, -1>>), Fin(<<1>>), Fin(<<2, 2, 1>>), Per(<<1>>), Fin(<<1, 2, 3, 4, 5>>)>>
PoolConst == <<Per(<<2>>), Per(<<-1>>), Per(<<3>>), Per(<<1>>), Per(<<-2>>), Per(<<2>>)>>
A0Per     == Per(<<2, -1, 1>>)
A0Fin     == Fin(<<-1, 2, 1>>)
A0Const   == Per(<<2>>)
A0Fin2    == Fin(<<2>>)

\* variant "distinct": r-th replaced position uses its own source r; variant "shared": every replaced
\* position is a tee copy of source 1
ShapeCase(sh, P, pool, a0src, shared, mem, zero) ==
  LET idx(p)  == IF shared THEN 1 ELSE RankIn(sh, P, p)
      nsrc    == IF P = {} THEN 0 ELSE IF shared THEN 1 ELSE Cardinality(P)
      isA0(r) == \E p \in P : p = <<"a", 1>> /\ idx(p) = r
      cb(k)   == IF <<"b", k>> \in P THEN Leaf(idx(<<"b", k>>)) ELSE CI(sh.b[k])
      ca(k)   == IF <<"a", k>> \in P THEN Leaf(idx(<<"a", k>>)) ELSE CI(sh.a[k])
  IN [expr |-> Flt([k \in DOMAIN sh.b |-> cb(k)], [k \in DOMAIN sh.a |-> ca(k)]),
      src  |-> [r \in 1..nsrc |-> IF isA0(r) THEN a0src ELSE pool[r]],
      mem  |-> mem, zero |-> zero]

GridA(SH, variants) ==
  UNION {{ShapeCase(sh, P, v[1], v[2], v[3], mm, "sym") :
             P \in SUBSET PosOf(sh), v \in variants, mm \in (IF Len(sh.a) > 1 THEN {"none", "exact"} ELSE {"none"})}
         : sh \in SH}
VarQuick == {<<PoolPer, A0Per, FALSE>>, <<PoolFin, A0Fin, FALSE>>, <<PoolPer, A0Per, TRUE>>, <<PoolConst, A0Const, FALSE>>,
             <<PoolFin2, A0Fin2, FALSE>>}
VarFull  == VarQuick \cup {<<PoolFin, A0Per, FALSE>>, <<PoolPer, A0Fin, FALSE>>, <<PoolFin, A0Fin, TRUE>>,
                           <<PoolConst, A0Const, TRUE>>}

\* --- grid B: sums / products / scalings of filters with stream coefficients ---------------
\* atoms take the index of the source they use
S1(i)   == Flt(<<CI(0), Leaf(i)>>, <<CI(1)>>)                 \* s z^-1
S2(i)   == Flt(<<CI(0), CI(0), Leaf(i)>>, <<CI(1)>>)          \* s z^-2
G1(i)   == Flt(<<CI(1), Leaf(i)>>, <<CI(1)>>)                 \* 1 + s z^-1
G2(i)   == Flt(<<Leaf(i), CI(-1)>>, <<CI(1)>>)                \* s - z^-1
G3(i)   == Flt(<<Leaf(i), CI(2), Leaf(i)>>, <<CI(1)>>)        \* s + 2 z^-1 + s z^-2   (two copies)
R1(i)   == Flt(<<CI(1)>>, <<CI(1), Leaf(i)>>)                 \* 1 / (1 + s z^-1)
R2(i)   == Flt(<<CI(1), CI(1)>>, <<Leaf(i), CI(-1)>>)         \* (1 + z^-1) / (s - z^-1)     (a0 stream)
R3(i)   == Flt(<<Leaf(i)>>, <<CI(2), CI(0), Leaf(i)>>)        \* s / (2 + s z^-2)
L1      == Flt(<<CI(1), CI(-1)>>, <<CI(1)>>)                  \* 1 - z^-1
L2      == Flt(<<CI(2)>>, <<CI(1), HalfC>>)                   \* 2 / (1 + z^-1/2)
L3      == Flt(<<CI(1), CI(1)>>, <<CI(1)>>)                   \* 1 + z^-1
K2      == Flt(<<CI(2)>>, <<CI(1)>>)                          \* the number 2

\* source values that are safe as a0 and in products (no zero)
BSrcQ == {Per(<<2, -1, 1>>), Fin(<<-1, 2>>), Per(<<2>>)}
BSrcF == BSrcQ \cup {Fin(<<1, 2, -1, 2>>), Fin(<<>>), Per(<<-1, 2>>), Fin(<<2, 1, 1>>)}

\* (operators cannot sit in a set: dispatch by number)
AtomS(j, i) == CASE j = 1 -> S1(i) [] j = 2 -> G1(i) [] j = 3 -> G2(i) [] j = 4 -> G3(i) [] j = 5 -> R1(i)
                 [] j = 6 -> R2(i) [] j = 7 -> S2(i) [] j = 8 -> R3(i)
AtomL(j)    == CASE j = 1 -> L1 [] j = 2 -> L2 [] j = 3 -> L3 [] j = 4 -> K2
Bin(o, l, r) == [t |-> o, l |-> l, r |-> r]
Ops == {"add", "sub", "mul"}

MkB(e, src) == [expr |-> e, src |-> src, mem |-> "none", zero |-> "sym"]

\* stream-filter op stream-filter, two sources or the same source on both sides (tee copies)
PairsSS(JS, SRC) ==
  {MkB(Bin(o, AtomS(j1, 1), AtomS(j2, 2)), <<q1, q2>>) : o \in Ops, j1 \in JS, j2 \in JS, q1 \in SRC, q2 \in SRC}
  \cup {MkB(Bin(o, AtomS(j1, 1), AtomS(j2, 1)), <<q1>>) : o \in Ops, j1 \in JS, j2 \in JS, q1 \in SRC}
\* stream-filter op constant filter, both orders
PairsSL(JS, JL, SRC) ==
  {MkB(Bin(o, AtomS(j1, 1), AtomL(j2)), <<q1>>) : o \in Ops, j1 \in JS, j2 \in JL, q1 \in SRC}
  \cup {MkB(Bin(o, AtomL(j2), AtomS(j1, 1)), <<q1>>) : o \in Ops, j1 \in JS, j2 \in JL, q1 \in SRC}
\* scalings: by a number, by a stream (own source or a copy of the filter's), negation
Scalings(JS, SRC) ==
  {MkB(Scale(c, AtomS(j, 1)), <<q>>) : c \in {CI(2), CI(-1), HalfC}, j \in JS, q \in SRC}
  \cup {MkB(Scale(Leaf(2), AtomS(j, 1)), <<q1, q2>>) : j \in JS, q1 \in SRC, q2 \in SRC}
  \cup {MkB(Scale(Leaf(1), AtomS(j, 1)), <<q>>) : j \in JS, q \in SRC}
  \cup {MkB(Scale(Leaf(1), AtomL(j)), <<q>>) : j \in 1..4, q \in SRC}
  \cup {MkB(Neg(AtomS(j, 1)), <<q>>) : j \in JS, q \in SRC}
\* depth 2: (f op g) op h
Triples(JS, SRC) ==
  {MkB(Bin(o2, Bin(o1, AtomS(j1, 1), AtomS(j2, 2)), AtomS(j3, 1)), <<q1, q2>>) :
      o1 \in Ops, o2 \in Ops, j1 \in JS, j2 \in JS, j3 \in JS, q1 \in SRC, q2 \in SRC}
  \cup {MkB(Bin(o2, Scale(Leaf(1), AtomS(j1, 1)), Bin(o1, AtomL(j2), AtomS(j3, 2))), <<q1, q2>>) :
      o1 \in Ops, o2 \in Ops, j1 \in JS, j2 \in 1..3, j3 \in JS, q1 \in SRC, q2 \in SRC}

\* powers: f ** 2 and f ** 3 are the products f * f and (f * f) * f of tee copies of one filter
Powers(JS, SRC) ==
  {MkB(Bin("mul", AtomS(j, 1), AtomS(j, 1)), <<q>>) : j \in JS, q \in SRC}
  \cup {MkB(Bin("mul", Bin("mul", AtomS(j, 1), AtomS(j, 1)), AtomS(j, 1)), <<q>>) : j \in JS, q \in SRC}

Keep(S) == {c \in S : Covered(c)}     \* evaluated once, at constant level

\* The grids themselves are in FilterC06Q.tla / FilterC06T.tla (TLC evaluates every parameterless definition
\* of every loaded module at start-up, and the trace module EXTENDS this one).
============================================================================
