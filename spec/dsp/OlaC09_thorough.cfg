CONSTANTS
  MaxM = 4
  MaxSize = 4
  MaxL = 10
  WKinds = {"none", "ones", "ramp", "neg", "zero", "recip", "tri", "half"}
  Cases <- C09Grid
INIT Init
NEXT Next
INVARIANT ScopeOK
INVARIANT OlaRefine
INVARIANT OlaLength
INVARIANT WindowLayers
INVARIANT MemInv
INVARIANT ColaInversion
CHECK_DEADLOCK FALSE
