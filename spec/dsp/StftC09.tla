------------------------------ MODULE StftC09 ------------------------------
(* Configuration grid for the stft wrapper (C09).  Families:                                        *)
(*   Pipe   every subset of the four optional stages x two user functions x analysis window x     *)
(*          ola in {None, recording stub, overlap_add.list}           (order, skipping, windowing) *)
(*   Recon  no stages, analysis/synthesis windows, normalisation, hops    (reconstruction theorem) *)
(*   Layer  a few configurations spread over the keyword layers in several ways, with values that  *)
(*          a later layer must override                                   (parameter merge)        *)
(*   Errs   size missing, hop > size, unknown keyword, ola_* without ola; ola_* reaching the stub  *)
EXTENDS Stft

CONSTANTS Sizes, ReconSizes, Lens, Styles, ReconWA, ReconWS

One(name, v) == [n \in {name} |-> v]
RECURSIVE Cat(_)
Cat(ms) == IF ms = <<>> THEN Empty ELSE Upd(Head(ms), Cat(Tail(ms)))

\* h = 0, wa/ows/onorm = "absent": the keyword is not passed at all
P(s, h, wa, bf, tr, itr, af, ola, ows, onorm) ==
  Cat(<< One("size", s),
         IF h = 0 THEN Empty ELSE One("hop", h),
         IF wa = "absent" THEN Empty ELSE One("wnd", wa),
         One("before", bf), One("transform", tr), One("inverse_transform", itr), One("after", af),
         One("ola", ola),
         IF ows = "absent" THEN Empty ELSE One("ola_wnd", ows),
         IF onorm = "absent" THEN Empty ELSE One("ola_normalize", onorm = "on") >>)

Mk(st, a, b, c, f, l) == [style |-> st, a |-> a, b |-> b, c |-> c, func |-> f, len |-> l]

Pipe ==
  {Mk(st, P(s, h, wa, bf, tr, itr, af, ola, "absent", "absent"), Empty, Empty, f, l) :
     st \in Styles, s \in Sizes, h \in {0, 2}, wa \in {"absent", "ramp"}, bf \in {"None", "rot"},
     tr \in {"None", "tsz"}, itr \in {"None", "isz"}, af \in {"None", "ramp"}, ola \in {"None", "stub"},
     f \in {"id", "rev"}, l \in Lens}
  \cup
  {Mk("direct", Empty, Empty, P(s, h, "recip", bf, tr, itr, af, "list", ows, "absent"), f, l) :
     s \in Sizes, h \in {0, 1}, bf \in {"None", "rot"}, tr \in {"None", "tsz"}, itr \in {"None", "isz"},
     af \in {"None", "ramp"}, ows \in {"absent", "tri"}, f \in {"id", "rev"}, l \in Lens}

Recon ==
  {Mk(st, P(s, h, wa, "None", "None", "None", "None", "list", ows, onorm), Empty, Empty, "id", l) :
     st \in {"decorator"}, s \in ReconSizes, h \in {0, 1, 2}, wa \in ReconWA, ows \in ReconWS,
     onorm \in {"absent", "on", "off"}, l \in Lens}

\* a value a later layer has to override
Other(n, v) ==
  CASE n = "size" -> v + 1
    [] n = "hop"  -> IF v = 1 THEN 2 ELSE 1
    [] n \in {"wnd", "ola_wnd"} -> IF v = "neg" THEN "ones" ELSE "neg"
    [] n \in {"before", "transform", "inverse_transform", "after"} -> IF v = "None" THEN "rot" ELSE "None"
    [] n = "ola" -> IF v = "stub" THEN "None" ELSE "stub"
    [] n = "ola_normalize" -> ~v
    [] OTHER -> v
Decoy(e) == [n \in DOMAIN e |-> Other(n, e[n])]

Half1 == {"size", "before", "ola", "ola_wnd", "after"}
Spread(st, e, pat, f, l) ==
  LET abc ==
        CASE pat = "allA"  -> <<e, Empty, Empty>>
          [] pat = "allC"  -> <<Empty, Empty, e>>
          [] pat = "split" -> <<Restrict(e, DOMAIN e \ {"size", "hop", "wnd"}), Restrict(e, {"hop", "wnd"}),
                                Restrict(e, {"size"})>>
          [] pat = "decoy" -> <<Decoy(e), Restrict(e, Half1), Restrict(e, DOMAIN e \ Half1)>>
          [] pat = "late"  -> <<Decoy(e), Decoy(e), e>>
          [] pat = "over"  -> <<e, Restrict(Decoy(e), {"wnd", "before"}), Restrict(Decoy(e), {"size", "ola_wnd"})>>
  IN IF st = "partial" THEN Mk(st, abc[1], abc[2], abc[3], f, l)
     ELSE Mk(st, Upd(abc[1], abc[2]), Empty, abc[3], f, l)

LayerBases(s) ==
  { P(s, 2, "ramp", "rot", "None", "isz", "None", "stub", "tri", "off"),
    P(s, 0, "absent", "None", "tsz", "None", "ramp", "None", "absent", "absent"),
    P(s, 1, "tri", "None", "None", "None", "None", "list", "ones", "on"),
    P(s, s, "half", "rot", "tsz", "isz", "ramp", "list", "absent", "off") }

Layer ==
  {Spread(st, e, pat, f, l) :
     st \in {"direct", "decorator", "partial"}, e \in UNION {LayerBases(s) : s \in Sizes},
     pat \in {"allA", "allC", "split", "decoy", "late", "over"}, f \in {"id", "rev"}, l \in Lens}

ErrBases(s) ==
  LET ok == P(s, 2, "ramp", "None", "None", "None", "None", "stub", "absent", "absent")
      no == P(s, 2, "ramp", "None", "None", "None", "None", "None", "absent", "absent")
  IN { Restrict(ok, DOMAIN ok \ {"size"}),                    \* size missing
       Upd(ok, One("hop", s + 1)),                            \* hop > size
       Upd(ok, One("zzz", 7)),                                \* unknown keyword
       Upd(no, One("ola_wnd", "tri")),                        \* ola_* without an overlap-add
       Upd(no, One("ola_normalize", FALSE)),
       Upd(no, One("ola_lag", 7)),
       Upd(ok, One("ola_lag", 7)),                            \* fine: reaches the stub as lag = 7 (a name made of the letters of the prefix)
       Cat(<<ok, One("ola_wnd", "neg"), One("ola_normalize", FALSE), One("ola_lag", 7)>>),
       Upd(ok, One("hop", s)) }                               \* hop = size is allowed

Errs ==
  {Spread(st, e, pat, "id", l) :
     st \in {"direct", "decorator", "partial"}, e \in UNION {ErrBases(s) : s \in Sizes},
     pat \in {"allA", "allC", "split"}, l \in Lens}

C09Stft == {c \in Pipe \cup Recon \cup Layer \cup Errs : InScope(c)}
============================================================================
