------------------------------ MODULE LpcC11T ------------------------------
(* C11, thorough tier: order 4 (reflection coefficients of order 4 over a smaller pool), root sets up  *)
(* to order 4, every gain.                                                                             *)
EXTENDS LpcC11
KFew        == {Q(1, 2), Q(-1, 3), Q(1, 4), R(0), R(2), R(-1)}
C11Thorough == {CaseKs(s) : s \in KsOf(KAll, {1, 2, 3}) \cup KsOf(KFew, {4})}
               \cup {CaseKl(s) : s \in KsOf(KIn, {1, 2, 3, 4})}
               \cup StOf(4, Gains)
=============================================================================
