------------------------------ MODULE LpcC10 ------------------------------
(* Case grid operators for C10 (the grids themselves: LpcC10Q.tla, LpcC10T.tla): blocks of exact rational samples for lpc.kautocor / lpc.kcovar at every *)
(* order, autocorrelation vectors given directly (with zero extension, indefinite and singular *)
(* ones) and generated from reflection coefficients in (-1, 1).                                *)
EXTENDS Lpc

MinI(a, b)       == IF a < b THEN a ELSE b
Blocks(S, lens)  == UNION {[1..n -> {R(v) : v \in S}] : n \in lens}
Q(n, d)          == Norm(n, d)
\* blocks with non-integer samples
RatBlocks == { <<Q(1, 2), R(1), Q(-1, 3)>>, <<Q(1, 2), Q(1, 2), Q(-3, 2), R(1)>>, <<Q(2, 3), R(-1), Q(1, 3), R(2)>>,
               <<Q(-1, 2), Q(1, 4), R(1), Q(3, 4), R(-1)>>, <<R(3), Q(1, 2)>>, <<Q(1, 3), Q(-2, 3), R(1)>> }

KaOf(X, maxp) == UNION {{CaseKa(x, p) : p \in 1..MinI(Len(x) + 1, maxp)} : x \in X}
KcOf(X, maxp) == UNION {{CaseKc(x, p) : p \in 1..MinI(Len(x) - 1, maxp)} : x \in X}

\* autocorrelation vectors given directly: positive definite, indefinite (|k| > 1), singular at
\* order 2 (<<1,1>>, <<2,-2,2>>), r0 = 0, rational, with a zero reflection coefficient
RVecs == { <<R(2), R(1)>>, <<R(4), R(2), R(1)>>, <<R(3), R(-1), R(1), R(2)>>, <<R(1), R(1)>>, <<R(1), R(2)>>,
           <<R(2), R(0), R(0)>>, <<R(0), R(1)>>, <<R(12), R(6), R(0), R(-3)>>,
           <<R(2), R(-2), R(2)>>, <<R(5), R(3), R(1), R(-2), R(1)>>, <<R(1)>>, <<R(4), R(0), R(1)>> }
RVecsRat == { <<Q(5, 2), R(1), Q(1, 3)>>, <<Q(1, 2), Q(-1, 4)>>, <<R(1), Q(1, 2), Q(-1, 3)>> }
LdOf(V, maxp) == UNION {{CaseLd(v, p) : p \in 0..MinI(Len(v) + 2, maxp)} : v \in V}

KPool     == {Q(1, 2), Q(-1, 2), Q(1, 3), Q(-1, 3), Q(1, 4), R(0)}
KsOf(P, lens) == {s \in UNION {[1..n -> P] : n \in lens} : s[Len(s)] # RZero}
KlOf(P, lens) == {CaseKl(s) : s \in KsOf(P, lens)}

\* the tier grids are single definitions in LpcC10Q / LpcC10T (TLC builds every parameterless definition of
\* every loaded module at start-up, so the big sets live in the module of the tier that uses them)
===========================================================================
