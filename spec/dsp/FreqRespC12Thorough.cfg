CONSTANTS
  MaxLen = 7
  Cases <- TierCases
INIT Init
NEXT Next
INVARIANT PerElement
INVARIANT TransferFunction
INVARIANT CascadeProduct
INVARIANT ParallelSum
INVARIANT NanWhereDenVanishes
INVARIANT DiffEqC
INVARIANT RefIsH
INVARIANT SteadyState
INVARIANT DftOfImpulseResponse
INVARIANT DftIsDefiningSum
INVARIANT DftLinear
INVARIANT DcBinIsMean
CHECK_DEADLOCK FALSE
