----------------------------- MODULE FilterAlg -----------------------------
(***************************************************************************)
(* audiolazy.lazy_filters: algebra of ZFilter objects, CascadeFilter /     *)
(* ParallelFilter, == / != / hash  (property C05).                         *)
(*                                                                         *)
(* A filter value is a pair [n, d] of polynomials of module Poly in the    *)
(* variable z^-1 (power k stands for z^-k); d is never empty and its       *)
(* lowest power is 0 (LinearFilter.__init__ shifts both polynomials).      *)
(*                                                                         *)
(* Operational layer (F...): ZFilter.__add__ (with its equal-denominator   *)
(*   shortcut) / __sub__ / __mul__ / __truediv__ / __pow__ (reciprocal     *)
(*   first for a negative exponent of a multi-term filter), the reflected  *)
(*   and unary forms of ZFilterMeta, substitution f(g) as the two          *)
(*   sum(v * g ** -k) loops, the numpoly / denpoly folds of CascadeFilter  *)
(*   and ParallelFilter, structural __eq__.  Val(t) runs an expression     *)
(*   tree through them.                                                    *)
(* Definition layer (Q...): the field of rational functions -- plain       *)
(*   fraction arithmetic without shortcut or shift, compared by cross-     *)
(*   multiplication (QEquiv), Def(t) for a tree; and the LTI system a      *)
(*   causal value denotes: Apply(f, xs) = the difference equation at rest  *)
(*   on an arbitrary sequence of linear forms, tied to module Filter       *)
(*   (property C04) by RunsLikeFilter.                                     *)
(* The invariants state the property: Val ~ Def on every tree, field laws, *)
(* (f op g)(x) against the composition of outputs, cascade / parallel,     *)
(* eq / ne / hash coherence.                                               *)
(***************************************************************************)
EXTENDS Poly, Lin

CONSTANTS Cases,     \* set of case records (grids are in FilterAlgC05)
          MaxLen     \* input samples x1..xMaxLen (linear-form symbols)

VARIABLES case, pc, res
vars == <<case, pc, res>>

\* module Filter (C04): only its definition layer is used, on constant-coefficient cases at rest
Flt == INSTANCE Filter WITH MaxMem <- 0, Cases <- {}, n <- 0, out <- <<>>, mreg <- <<>>, dreg <- <<>>, err <- "none"

NSym    == MaxLen + 1                        \* same symbol space as Flt!NS
XS      == [i \in 1..MaxLen |-> LSym(NSym, i)]
Q2(a, b) == Norm(a, b)

---------------------------------------------------------------------------
(* Filter values                                                           *)
FV(n, d)    == [n |-> n, d |-> d]
Undef       == FV(PEmpty, PEmpty)            \* "no filter": the code raises (division by the zero filter ...)
IsDef(f)    == DOMAIN f.d # {}
IsZeroF(f)  == DOMAIN f.n = {}
IsCausal(f) == IsDef(f) /\ \A k \in DOMAIN f.n : k >= 0
\* LinearFilter.__init__: power = min(denominator powers); if power != 0: both polynomials *= x ** -power
FMake(n, d) == IF DOMAIN d = {} THEN Undef
               ELSE LET m == PMinKey(DOMAIN d)
                    IN IF m = 0 THEN FV(n, d) ELSE FV(OpMul(n, Mono(-m, ROne)), OpMul(d, Mono(-m, ROne)))
FOfNum(c)   == FV(PConst(c), PConst(ROne))   \* ZFilter([c])
FZ          == FMake(Mono(-1, ROne), PConst(ROne))      \* z = ZFilter({-1: 1})

---------------------------------------------------------------------------
(* Operational layer                                                       *)
FAdd(f, g) == IF f.d = g.d THEN FMake(OpAdd(f.n, g.n), f.d)                       \* equal-denominator shortcut
              ELSE FMake(OpAdd(OpMul(f.n, g.d), OpMul(g.n, f.d)), OpMul(f.d, g.d))
FNeg(f)    == FMake(OpNeg(f.n), f.d)                                             \* ZFilterMeta.__unary__
FPos(f)    == FMake(OpPos(f.n), f.d)
FSub(f, g) == FAdd(f, FNeg(g))                                                   \* self + (-other)
FMul(f, g) == FMake(OpMul(f.n, g.n), OpMul(f.d, g.d))
FDiv(f, g) == FMake(OpMul(f.n, g.d), OpMul(f.d, g.n))                            \* g = 0: empty denominator
FScale(f, c) == FMake(OpMul(f.n, PConst(c)), f.d)                                \* filter * number
RECURSIVE FPow(_, _)
FPow(f, e) == IF e < 0 /\ (NTerms(f.n) >= 2 \/ NTerms(f.d) >= 2)
              THEN FPow(FMake(f.d, f.n), -e)                                     \* ZFilter(den, num) ** -e
              ELSE IF e < 0 /\ IsZeroF(f) THEN Undef                             \* (0 ** negative: no value)
              ELSE FMake(OpPow(f.n, e), OpPow(f.d, e))
\* operands that are "no filter" propagate
L1(Op(_), f)       == IF IsDef(f) THEN Op(f) ELSE Undef
L2(Op(_, _), f, g) == IF IsDef(f) /\ IsDef(g) THEN Op(f, g) ELSE Undef

\* f(g): sum(v * g ** -k for k, v in numpoly.terms()) / sum(... denpoly.terms()); every sum starts from the
\* number 0 (0 + filter is ZFilter([0]) + filter), v * filter is ZFilter([v]) * filter
RECURSIVE SubstLoop(_, _, _, _)
SubstLoop(acc, ts, i, g) ==
  IF i > Len(ts) THEN acc
  ELSE SubstLoop(L2(FAdd, acc, L2(FMul, FOfNum(ts[i][2]), FPow(g, -ts[i][1]))), ts, i + 1, g)
FSubst(f, g) == L2(FDiv, SubstLoop(FOfNum(RZero), TermSeq(f.n), 1, g), SubstLoop(FOfNum(RZero), TermSeq(f.d), 1, g))

\* CascadeFilter.numpoly / denpoly: reduce(mul, numpolys), reduce(mul, denpolys)  (plain Poly products, no shift)
RECURSIVE PProdSeq(_, _, _)
PProdSeq(s, i, acc) == IF i > Len(s) THEN acc ELSE PProdSeq(s, i + 1, OpMul(acc, s[i]))
CascadeND(fs) == FV(PProdSeq([i \in DOMAIN fs |-> fs[i].n], 2, fs[1].n),
                    PProdSeq([i \in DOMAIN fs |-> fs[i].d], 2, fs[1].d))
\* ParallelFilter: the sum of the parts as ZFilter objects, reduce(operator.add, parts); numpoly and denpoly
\* are the two polynomials of that one sum (the pair has to denote the sum)
RECURSIVE FSumFrom(_, _, _)
FSumFrom(fs, i, acc) == IF i > Len(fs) THEN acc ELSE FSumFrom(fs, i + 1, FAdd(acc, fs[i]))
FSum(fs)      == FSumFrom(fs, 2, fs[1])
ParallelND(fs) == FSum(fs)

\* LinearFilter.__eq__: both polynomials equal; __hash__: the tuples of stored powers
FEq(f, g)   == OpEq(f.n, g.n) /\ OpEq(f.d, g.d)
FHashKey(f) == <<DOMAIN f.n, DOMAIN f.d>>

---------------------------------------------------------------------------
(* Definition layer 1: the field of rational functions                     *)
(* (a value with an empty denominator is "no value" and stays so)          *)
QIsDef(f)    == DOMAIN f.d # {}
QOfNum(c)    == FV(PConst(c), PConst(ROne))
QOne         == QOfNum(ROne)
QAdd(f, g)   == IF QIsDef(f) /\ QIsDef(g) THEN FV(DefAdd(DefMul(f.n, g.d), DefMul(g.n, f.d)), DefMul(f.d, g.d)) ELSE Undef
QNeg(f)      == FV(DefNeg(f.n), f.d)
QSub(f, g)   == QAdd(f, QNeg(g))
QMul(f, g)   == IF QIsDef(f) /\ QIsDef(g) THEN FV(DefMul(f.n, g.n), DefMul(f.d, g.d)) ELSE Undef
QDiv(f, g)   == IF QIsDef(f) /\ QIsDef(g) THEN FV(DefMul(f.n, g.d), DefMul(f.d, g.n)) ELSE Undef
QPow(f, e)   == IF ~QIsDef(f) THEN Undef
                ELSE IF e >= 0 THEN FV(DefPow(f.n, e), DefPow(f.d, e)) ELSE FV(DefPow(f.d, -e), DefPow(f.n, -e))
QEquiv(f, g) == DefMul(f.n, g.d) = DefMul(g.n, f.d)         \* same rational function (cross-multiplication)
\* substitute g = a/b for z in N(z^-1)/D(z^-1):  N(b/a)/D(b/a), cleared of negative powers of a and b:
\* sum_k n_k b^(k-lo) a^(hi-k)  over  sum_k d_k b^(k-lo) a^(hi-k);  g = 0 has no reciprocal: no value
Homog(p, a, b, lo, hi) ==
  LET ts == TermSeq(p)
      RECURSIVE H(_)
      H(i) == IF i > Len(ts) THEN PEmpty
              ELSE DefAdd(DefScale(ts[i][2], DefMul(DefPow(b, ts[i][1] - lo), DefPow(a, hi - ts[i][1]))), H(i + 1))
  IN H(1)
QSubst(f, g) ==
  IF ~QIsDef(f) \/ ~QIsDef(g) \/ DOMAIN g.n = {} THEN Undef
  ELSE LET ks == DOMAIN f.n \cup DOMAIN f.d \cup {0}
           lo == PMinKey(ks)
           hi == PMaxKey(ks)
       IN FV(Homog(f.n, g.n, g.d, lo, hi), Homog(f.d, g.n, g.d, lo, hi))

---------------------------------------------------------------------------
(* Expression trees                                                        *)
(*   [op |-> "lit", n, d]                 a filter given by its polynomials *)
(*   [op |-> "num", c]                    a plain number (scalar operand)   *)
(*   [op |-> "neg" | "pos", l]                                             *)
(*   [op |-> "pow", l, e]                 l ** e, e an integer             *)
(*   [op |-> "add"|"sub"|"mul"|"div", l, r]   (one side may be a "num")    *)
(*   [op |-> "subst", l, r]               l(r)                             *)
Lit(n, d)    == [op |-> "lit", n |-> n, d |-> d]
Num(c)       == [op |-> "num", c |-> c]
Un1(o, l)    == [op |-> o, l |-> l]
Pw(l, e)     == [op |-> "pow", l |-> l, e |-> e]
Bn(o, l, r)  == [op |-> o, l |-> l, r |-> r]
IsNum(t)     == t.op = "num"

FBin(o, f, g) == IF o = "add" THEN L2(FAdd, f, g) ELSE IF o = "sub" THEN L2(FSub, f, g)
                 ELSE IF o = "mul" THEN L2(FMul, f, g) ELSE IF o = "div" THEN L2(FDiv, f, g)
                 ELSE IF IsDef(g) /\ IsZeroF(g) THEN Undef            \* z := 0 has no z^-1
                 ELSE L2(FSubst, f, g)
\* filter (op) number: + is self + ZFilter([c]);  - is self + (-c);  * scales the numerator;  / is self * (1 / c)
FBinNum(o, f, c) == IF ~IsDef(f) THEN Undef
                    ELSE IF o = "add" THEN FAdd(f, FOfNum(c)) ELSE IF o = "sub" THEN FAdd(f, FOfNum(RNeg(c)))
                    ELSE IF o = "mul" THEN FScale(f, c)
                    ELSE IF c = RZero THEN Undef ELSE FScale(f, RInv(c))
QBin(o, f, g) == IF o = "add" THEN QAdd(f, g) ELSE IF o = "sub" THEN QSub(f, g)
                 ELSE IF o = "mul" THEN QMul(f, g) ELSE IF o = "div" THEN QDiv(f, g) ELSE QSubst(f, g)

RECURSIVE Val(_)
Val(t) ==
  IF t.op = "lit" THEN FMake(t.n, t.d)
  ELSE IF t.op = "neg" THEN L1(FNeg, Val(t.l))
  ELSE IF t.op = "pos" THEN L1(FPos, Val(t.l))
  ELSE IF t.op = "pow" THEN LET f == Val(t.l) IN IF IsDef(f) THEN FPow(f, t.e) ELSE Undef
  ELSE IF IsNum(t.r) THEN FBinNum(t.op, Val(t.l), t.r.c)
  ELSE IF IsNum(t.l) THEN FBin(t.op, FOfNum(t.l.c), Val(t.r))          \* reflected: cls([number]) op self
  ELSE FBin(t.op, Val(t.l), Val(t.r))

\* the rational function the tree denotes; a zero divisor makes the denominator empty, and it stays empty
RECURSIVE Def(_)
Def(t) ==
  IF t.op = "lit" THEN FV(t.n, t.d)
  ELSE IF t.op = "num" THEN QOfNum(t.c)
  ELSE IF t.op = "neg" THEN QNeg(Def(t.l))
  ELSE IF t.op = "pos" THEN Def(t.l)
  ELSE IF t.op = "pow" THEN QPow(Def(t.l), t.e)
  ELSE QBin(t.op, Def(t.l), Def(t.r))

---------------------------------------------------------------------------
(* Definition layer 2: the system a causal value denotes, at rest          *)
(* d_0 y[t] = sum_k n_k x[t-k] - sum_{k>=1} d_k y[t-k],  x[<0] = y[<0] = 0 *)
RECURSIVE LSumOver(_, _)
LSumOver(f, S) == IF S = {} THEN LZero(NSym)
                  ELSE LET k == CHOOSE j \in S : TRUE IN LAdd(f[k], LSumOver(f, S \ {k}))
RECURSIVE ApplyTo(_, _, _)
ApplyTo(f, xs, t) ==           \* <<y[0], ..., y[t-1]>>
  IF t = 0 THEN <<>>
  ELSE LET prev == ApplyTo(f, xs, t - 1)
           tt   == t - 1
           X(j) == IF j < 0 THEN LZero(NSym) ELSE xs[j + 1]
           Y(j) == IF j < 0 THEN LZero(NSym) ELSE prev[j + 1]
           fw   == LSumOver([k \in DOMAIN f.n |-> LScale(f.n[k], X(tt - k))], DOMAIN f.n)
           bw   == LSumOver([k \in DOMAIN f.d \ {0} |-> LScale(f.d[k], Y(tt - k))], DOMAIN f.d \ {0})
       IN Append(prev, LDiv(LSub(fw, bw), f.d[0]))
Apply(f, xs)  == ApplyTo(f, xs, Len(xs))
LAddSeq(a, b) == [i \in DOMAIN a |-> LAdd(a[i], b[i])]
LSubSeq(a, b) == [i \in DOMAIN a |-> LSub(a[i], b[i])]
LScaleSeq(c, a) == [i \in DOMAIN a |-> LScale(c, a[i])]
RECURSIVE ApplyTimes(_, _, _)
ApplyTimes(f, xs, e) == IF e = 0 THEN xs ELSE Apply(f, ApplyTimes(f, xs, e - 1))
Delayed(xs, k) == [i \in DOMAIN xs |-> IF i <= k THEN LZero(NSym) ELSE xs[i - k]]

\* the same system as a case of module Filter (constant coefficients, no memory given, numeric zero)
CoefSeq(p)    == IF DOMAIN p = {} THEN <<>> ELSE [i \in 1..(PMaxKey(DOMAIN p) + 1) |-> Flt!Const(PCoef(p, i - 1))]
AsFilterCase(f) == [b |-> CoefSeq(f.n), a |-> CoefSeq(f.d), mem |-> "none", zero |-> "num", adv |-> 0]
RunsLikeFilter(f) == IsCausal(f) => Apply(f, XS) = Flt!DefSeq(AsFilterCase(f), MaxLen)

---------------------------------------------------------------------------
(* The property, as predicates                                             *)
\* every defined tree evaluates (operationally) to the rational function it denotes
TreeOk(t) == LET v == Val(t)
                 q == Def(t)
             IN /\ IsDef(v) <=> QIsDef(q)
                /\ IsDef(v) => /\ QEquiv(v, q)
                               /\ IsPoly(v.n) /\ IsPoly(v.d) /\ PMinKey(DOMAIN v.d) = 0
FieldPair(f, g) ==
  /\ QEquiv(FAdd(f, g), FAdd(g, f)) /\ QEquiv(FMul(f, g), FMul(g, f))                 \* commutative
  /\ QEquiv(FAdd(FSub(f, g), g), f)                                                     \* - undoes +
  /\ ~IsZeroF(g) => QEquiv(FMul(FDiv(f, g), g), f)                                      \* (f/g)*g = f
  /\ ~IsZeroF(f) => QEquiv(FDiv(f, f), QOne)                                            \* f/f = 1
FieldTriple(f, g, h) ==
  /\ QEquiv(FAdd(FAdd(f, g), h), FAdd(f, FAdd(g, h)))                                   \* associative
  /\ QEquiv(FMul(FMul(f, g), h), FMul(f, FMul(g, h)))
  /\ QEquiv(FMul(f, FAdd(g, h)), FAdd(FMul(f, g), FMul(f, h)))                          \* distributive
RECURSIVE FoldMul(_, _)
FoldMul(f, e) == IF e = 0 THEN QOne ELSE QMul(f, FoldMul(f, e - 1))
PowIsProduct(f, e) == e >= 0 => QEquiv(FPow(f, e), FoldMul(f, e))                       \* f**n = n-fold product
\* == / != / hash
EqCoherent(f, g) == /\ FEq(f, g) <=> (f = g)
                    /\ FEq(f, g) => FHashKey(f) = FHashKey(g)
\* system algebra: (f op g)(x) against the composition of outputs, for causal operands at rest
SystemPair(f, g) ==
  LET fo == Apply(f, XS)
      go == Apply(g, XS)
  IN /\ Apply(FAdd(f, g), XS) = LAddSeq(fo, go)
     /\ Apply(FSub(f, g), XS) = LSubSeq(fo, go)
     /\ Apply(FMul(f, g), XS) = Apply(f, go) /\ Apply(f, go) = Apply(g, fo)
     /\ ~IsZeroF(g) => LET h == FMul(FDiv(f, g), g) IN IsCausal(h) /\ Apply(h, XS) = fo
CascadeParallelPair(f, g) ==
  /\ QEquiv(CascadeND(<<f, g>>), FMul(f, g)) /\ QEquiv(CascadeND(<<g, f>>), FMul(f, g))
  /\ QEquiv(ParallelND(<<f, g>>), FAdd(f, g)) /\ QEquiv(ParallelND(<<g, f>>), FAdd(f, g))
SystemOne(f, c, e) ==
  /\ Apply(FMul(FOfNum(c), f), XS) = LScaleSeq(c, Apply(f, XS))
  /\ Apply(FScale(f, c), XS) = LScaleSeq(c, Apply(f, XS))
  /\ e >= 0 => Apply(FPow(f, e), XS) = ApplyTimes(f, XS, e)
DelayLaw(k) == Apply(FPow(FZ, -k), XS) = Delayed(XS, k)
---------------------------------------------------------------------------
(* Checking machine: one initial state per case; the action performs the   *)
(* calls with the operational operators and leaves in `res` what the real  *)
(* objects must show (replayed by the driver).                             *)
(*   [kind |-> "tree",   t]            an expression tree                   *)
(*   [kind |-> "pair",   f, g]         two operand trees: laws, ==, system  *)
(*   [kind |-> "triple", f, g, h]      associativity, distributivity       *)
(*   [kind |-> "one",    f, c, e]      scalar multiple and power as systems *)
(*   [kind |-> "delay",  k]            z ** -k                              *)
Init == case \in Cases /\ pc = "start" /\ res = <<>>

OutOf(f) == IF IsCausal(f) THEN Apply(f, XS) ELSE <<>>

EvalTree ==
  /\ case.kind = "tree" /\ pc = "start"
  /\ LET v == Val(case.t) IN res' = [ok |-> IsDef(v), v |-> v, causal |-> IsCausal(v), out |-> OutOf(v)]
  /\ pc' = "done" /\ UNCHANGED case

Pair ==
  /\ case.kind = "pair" /\ pc = "start"
  /\ LET f == Val(case.f)
         g == Val(case.g)
         c == IsCausal(f) /\ IsCausal(g)
     IN res' = [f |-> f, g |-> g, add |-> FAdd(f, g), sub |-> FSub(f, g), mul |-> FMul(f, g),
                div |-> FDiv(f, g), divmul |-> L2(FMul, FDiv(f, g), g), ff |-> FDiv(f, f),
                eq |-> FEq(f, g), casc |-> CascadeND(<<f, g>>), par |-> ParallelND(<<f, g>>),
                causal |-> c,
                fo |-> IF c THEN Apply(f, XS) ELSE <<>>, go |-> IF c THEN Apply(g, XS) ELSE <<>>,
                addo |-> IF c THEN Apply(FAdd(f, g), XS) ELSE <<>>,
                subo |-> IF c THEN Apply(FSub(f, g), XS) ELSE <<>>,
                mulo |-> IF c THEN Apply(FMul(f, g), XS) ELSE <<>>,
                dmo  |-> IF c /\ ~IsZeroF(g) THEN Apply(FMul(FDiv(f, g), g), XS) ELSE <<>>]
  /\ pc' = "done" /\ UNCHANGED case

Triple ==
  /\ case.kind = "triple" /\ pc = "start"
  /\ LET f == Val(case.f)
         g == Val(case.g)
         h == Val(case.h)
     IN res' = [add3 |-> FAdd(FAdd(f, g), h), mul3 |-> FMul(FMul(f, g), h), dist |-> FMul(f, FAdd(g, h))]
  /\ pc' = "done" /\ UNCHANGED case

One ==
  /\ case.kind = "one" /\ pc = "start"
  /\ LET f == Val(case.f)
     IN res' = [f |-> f, left |-> FMul(FOfNum(case.c), f), right |-> FScale(f, case.c), pow |-> FPow(f, case.e),
                fo |-> Apply(f, XS), so |-> Apply(FScale(f, case.c), XS), po |-> Apply(FPow(f, case.e), XS)]
  /\ pc' = "done" /\ UNCHANGED case

Delay ==
  /\ case.kind = "delay" /\ pc = "start"
  /\ res' = [v |-> FPow(FZ, -case.k), out |-> Apply(FPow(FZ, -case.k), XS)]
  /\ pc' = "done" /\ UNCHANGED case

Next == EvalTree \/ Pair \/ Triple \/ One \/ Delay
Spec == Init /\ [][Next]_vars

Done(k) == case.kind = k /\ pc = "done"
TreeValue     == Done("tree") => /\ TreeOk(case.t)
                                 /\ res.ok => RunsLikeFilter(res.v)
FieldLaws     == /\ Done("pair")   => FieldPair(res.f, res.g)
                 /\ Done("triple") => FieldTriple(Val(case.f), Val(case.g), Val(case.h))
EqNeHash      == Done("pair") => /\ EqCoherent(res.f, res.g) /\ res.eq = (res.f = res.g)
                                 /\ EqCoherent(res.add, FAdd(res.g, res.f))
SystemAlgebra == /\ (Done("pair") /\ res.causal) => /\ SystemPair(res.f, res.g)
                                                    /\ RunsLikeFilter(res.add) /\ RunsLikeFilter(res.mul)
                 /\ Done("one")   => /\ SystemOne(res.f, case.c, case.e)
                                     /\ PowIsProduct(res.f, case.e)
                                     /\ RunsLikeFilter(res.pow)
                 /\ Done("delay") => DelayLaw(case.k) /\ res.out = Delayed(XS, case.k)
CascadeParallel == Done("pair") => CascadeParallelPair(res.f, res.g)
============================================================================
