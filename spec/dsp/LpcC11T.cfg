CONSTANTS
  ThenStepDown = TRUE
  Cases <- C11Thorough
INIT Init
NEXT Next
INVARIANT LevinsonSolves
INVARIANT ErrorIdentity
INVARIANT LevinsonRecoversKs
INVARIANT ErrProduct
INVARIANT LevinsonIsStepUp
INVARIANT StepDownInverts
INVARIANT ParCorOnlyAtUnit
INVARIANT RunIsMachine
INVARIANT SchurCohn
INVARIANT RootsAreRoots
INVARIANT StepDownMonic
CHECK_DEADLOCK FALSE
