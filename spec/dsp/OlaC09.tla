------------------------------ MODULE OlaC09 ------------------------------
(* Case grids for C09 (overlap_add.list).  Windows of a size come from a pool of rational lists:  *)
(* none, ones, ramp, alternating sign (negative entries), all-zero, reciprocals, triangular        *)
(* (constant overlap-add at hop size/2).  Blocks of distinct symbols decide the sum formula for    *)
(* every sample value; blocks of a signal of distinct symbols decide the inversion theorem.        *)
EXTENDS Ola

CONSTANTS MaxM, MaxSize, MaxL, WKinds

SymBlocks(m, s) == [k \in 1..m |-> [j \in 1..s |-> LSym(m * s, (k - 1) * s + j)]]
SymSignal(l)    == [i \in 1..l |-> LSym(l, i)]

BlockCases ==
  {[src |-> "blocks", data |-> SymBlocks(m, s), ns |-> m * s, size |-> s, hop |-> h, w |-> Wnd(wk, s),
    norm |-> nm, sizeGiven |-> TRUE] :
      m \in 0..MaxM, s \in 1..MaxSize, h \in 0..MaxSize, wk \in WKinds, nm \in BOOLEAN}
SigCases ==
  {[src |-> "sig", data |-> SymSignal(l), ns |-> l, size |-> s, hop |-> h, w |-> Wnd(wk, s),
    norm |-> nm, sizeGiven |-> TRUE] :
      l \in 0..MaxL, s \in 1..MaxSize, h \in 0..MaxSize, wk \in WKinds, nm \in BOOLEAN}
\* size found from the data (hop not given, see Ola!InScope for the empty case)
DetectCases ==
  {[src |-> "blocks", data |-> SymBlocks(m, s), ns |-> m * s, size |-> s, hop |-> h, w |-> Wnd(wk, s),
    norm |-> nm, sizeGiven |-> FALSE] :
      m \in 0..MaxM, s \in 1..MaxSize, h \in 0..MaxSize, wk \in WKinds, nm \in BOOLEAN}

C09Grid == {c \in BlockCases \cup SigCases \cup DetectCases : c.hop <= c.size /\ InScope(c)}
============================================================================
