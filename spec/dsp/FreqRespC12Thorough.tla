---------------------------- MODULE FreqRespC12Thorough ----------------------------
(* Root module of the thorough tier of C12: the only parameterless grid TLC builds in this run. *)
EXTENDS FreqRespC12
TierCases == Grid("thorough")
============================================================================
