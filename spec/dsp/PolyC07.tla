------------------------------ MODULE PolyC07 ------------------------------
(***************************************************************************)
(* Checking machine and case grids for property C07 over module Poly.      *)
(*                                                                         *)
(* One initial state per case; the machine performs the calls the case     *)
(* names with the OPERATIONAL operators of Poly and leaves what the real   *)
(* objects must show in `res` (the driver replays every dumped state on    *)
(* audiolazy.Poly and compares).  The Horner-like evaluation runs as a     *)
(* register machine, one action per reduce() step.  The invariants relate  *)
(* `res` / the registers to the DEFINITION layer and to the laws.          *)
(*                                                                         *)
(* case kinds                                                              *)
(*   [kind |-> "un",  p]        unary facts: -p, p-p, p**n, diff, integrate *)
(*   [kind |-> "ev",  p, v]     p(v): x=0 shortcut / general sum / Horner   *)
(*   [kind |-> "bin", p, q]     + - * p(q) == hash, homomorphism, calculus  *)
(*   [kind |-> "ter", p, q, r]  associativity, distributivity              *)
(*   [kind |-> "lag", pts]      Waring-Lagrange interpolation              *)
(***************************************************************************)
EXTENDS Poly

CONSTANTS Tier,      \* "quick" | "thorough": selects the case grid (section Grids below)
          MaxExp     \* exponents 0..MaxExp

VARIABLES case, pc, res, hreg
vars == <<case, pc, res, hreg>>

Q(n, d)  == Norm(n, d)
Points   == <<R(-2), R(-1), RZero, Q(1, 2), ROne, R(2), R(3)>>    \* evaluation points of the laws
PtSet    == {Points[i] : i \in DOMAIN Points}
CompPts  == {R(-1), ROne, Q(1, 2)}                                \* points for (p o q)(v) = p(q(v)) (32-bit room)
Scalars  == {R(-1), R(2), Q(1, 2)}                                \* scalars for the linearity of diff
NoReg    == [pw |-> 0, acc |-> RZero]

---------------------------------------------------------------------------
(* Grids.  Every grid operator takes the tier as a parameter: TLC evaluates *)
(* parameterless constant definitions eagerly at start-up, and the thorough *)
(* grid must not be built by a quick run.                                   *)
PolysOver(S, m, C)   == UNION {[T -> C] : T \in {U \in SUBSET S : Cardinality(U) <= m}}
ExactlyOver(S, m, C) == UNION {[T -> C] : T \in {U \in SUBSET S : Cardinality(U) = m}}

Un(P)        == {[kind |-> "un", p |-> p] : p \in P}
Ev(P, V)     == {c \in {[kind |-> "ev", p |-> p, v |-> v] : p \in P, v \in V} : EvalDefined(c.p, c.v)}
Bin(P)       == {[kind |-> "bin", p |-> p, q |-> q] : p \in P, q \in P}
Ter(P)       == {[kind |-> "ter", p |-> p, q |-> q, r |-> r] : p \in P, q \in P, r \in P}
PtSeqs(X, Y, n) == {s \in [1..n -> X \X Y] : DistinctX(s)}
Lag(X, Y, ns)   == {[kind |-> "lag", pts |-> s] : s \in UNION {PtSeqs(X, Y, n) : n \in ns}}

CSmall   == {R(-1), R(2), Q(1, 2)}
CMid     == {R(-1), R(2), Q(1, 2), Q(-1, 3)}
CFull    == {R(-2), R(-1), ROne, R(2), Q(1, 2), Q(-1, 3)}
P3a      == (0 :> ROne) @@ (1 :> Q(1, 2)) @@ (2 :> R(-1))
P3b      == (0 :> R(2)) @@ (2 :> R(-1)) @@ (3 :> ROne)
P2n      == (-2 :> Q(-1, 3)) @@ (3 :> R(2))
P2s      == (-1 :> Q(1, 2)) @@ (1 :> R(-1))

\* quick: every branch of every operator (empty / one term / several terms, gaps and no gaps in the
\* Horner scheme, negative powers, cancellation to zero, x = 0, exponent 0, single point)
\* thorough: the grid of DESIGN section 4 (all <= 3-term polynomials over -2..3 with 6 coefficient values for the
\* unary facts, about 145 x 145 pairs, 25^3 triples, point sets of size 1..4)
UnG(t)  == IF t = "quick"
           THEN PolysOver(-2..3, 2, CMid) \cup ExactlyOver(-1..2, 3, {R(-1), Q(-1, 3)}) \cup ExactlyOver({-2, 0, 1, 3}, 4, {ROne})
           ELSE PolysOver(-2..3, 3, CFull)
EvG(t)  == IF t = "quick"
           THEN PolysOver(-2..3, 2, {R(-1), Q(1, 2)}) \cup ExactlyOver(-1..2, 3, {R(2), Q(-1, 3)}) \cup ExactlyOver({-2, 0, 1, 3}, 4, {R(2)})
           ELSE PolysOver(-2..3, 3, CMid) \cup ExactlyOver({-2, 0, 1, 3}, 4, {R(2), Q(-1, 3)})
BinG(t) == IF t = "quick"
           THEN PolysOver(-1..2, 2, {R(-1), R(2)}) \cup {P3a, P3b, P2n, P2s, Mono(2, Q(1, 2)), Mono(-2, R(2))}
           ELSE PolysOver(-2..3, 2, {R(-1), Q(1, 2)}) \cup ExactlyOver(-1..2, 3, {R(2), Q(-1, 3)})
                \cup ExactlyOver(-2..3, 1, {ROne, R(2), R(-2), Q(-1, 3)}) \cup ExactlyOver(0..2, 2, {ROne, R(-2)}) \cup {P3a, P3b, P2n, P2s}
TerG(t) == IF t = "quick"
           THEN {PEmpty, PConst(R(2)), Mono(1, R(-1)), Mono(-1, R(2)), Mono(2, Q(1, 2)), P3a, P2s,
                 (0 :> R(-1)) @@ (1 :> R(2)), (0 :> R(2)) @@ (1 :> R(-2)), (-1 :> R(-1)) @@ (0 :> ROne)}
           ELSE PolysOver(-1..2, 1, {R(-1), R(2)}) \cup ExactlyOver(-1..1, 2, {R(-1), R(2)}) \cup {P3a, P3b, P2n, P2s}
LagG(t) == IF t = "quick"
           THEN Lag({R(-1), RZero, Q(1, 2)}, {R(-1), RZero, R(2)}, {1, 2}) \cup
                Lag({R(-1), RZero, R(2)}, {ROne, Q(-1, 2)}, {3})
           ELSE Lag({R(-1), RZero, ROne, Q(1, 2), R(2)}, {R(-1), RZero, R(2), Q(1, 2)}, {1, 2}) \cup
                Lag({R(-1), RZero, R(2), Q(1, 2)}, {RZero, ROne, Q(-1, 2)}, {3}) \cup
                Lag({R(-1), RZero, ROne, R(2)}, {ROne, R(-2)}, {4})
C07Grid(t) == Un(UnG(t)) \cup Ev(EvG(t), PtSet) \cup Bin(BinG(t)) \cup Ter(TerG(t)) \cup LagG(t)
Cases == C07Grid(Tier)

---------------------------------------------------------------------------
Init == /\ case \in Cases
        /\ pc = "start" /\ res = <<>> /\ hreg = NoReg

---------------------------------------------------------------------------
Unary ==
  /\ case.kind = "un" /\ pc = "start"
  /\ LET p == case.p IN
     res' = [neg     |-> OpNeg(p),
             pos     |-> OpPos(p),
             subself |-> OpSub(p, p),
             pows    |-> [i \in 1..(MaxExp + 1) |-> OpPow(p, i - 1)],
             diff    |-> OpDiff(p),
             diff2   |-> OpDiffN(p, 2),
             canint  |-> CanIntegrate(p),
             integ   |-> IF CanIntegrate(p) THEN OpIntegrate(p) ELSE PEmpty,
             dinteg  |-> IF CanIntegrate(p) THEN OpDiff(OpIntegrate(p)) ELSE PEmpty]
  /\ pc' = "done" /\ UNCHANGED <<case, hreg>>

\* ---- p(v) ---------------------------------------------------------------------------------------
Shortcut == DOMAIN case.p = {} \/ case.v = RZero
\* empty polynomial / x = 0: every mode returns before any scheme is chosen
EvalShort ==
  /\ case.kind = "ev" /\ pc = "start" /\ Shortcut
  /\ LET r == OpCall(case.p, case.v, "auto") IN res' = [sum |-> r, horner |-> r, auto |-> r]
  /\ pc' = "done" /\ UNCHANGED <<case, hreg>>
\* horner=False: the general sum
EvalSum ==
  /\ case.kind = "ev" /\ pc = "start" /\ ~Shortcut
  /\ res' = [sum |-> OpEvalSum(case.p, case.v)]
  /\ pc' = "sum" /\ UNCHANGED <<case, hreg>>
\* horner=True: first pair of the descending term list becomes the accumulator
HornerStart ==
  /\ case.kind = "ev" /\ pc = "sum"
  /\ hreg' = HornerInit(case.p)
  /\ res' = [sum |-> res.sum, part |-> HornerFinish(case.v, hreg')]
  /\ pc' = "horner" /\ UNCHANGED case
\* one horner_step
HornerNext ==
  /\ case.kind = "ev" /\ pc = "horner" /\ HornerMore(case.p, hreg)
  /\ hreg' = HornerStep(case.p, case.v, hreg)
  /\ res' = [sum |-> res.sum, part |-> HornerFinish(case.v, hreg')]
  /\ UNCHANGED <<case, pc>>
\* result * value ** last_power; horner="auto" picks the scheme by is_polynomial()
HornerEnd ==
  /\ case.kind = "ev" /\ pc = "horner" /\ ~HornerMore(case.p, hreg)
  /\ res' = [sum |-> res.sum, horner |-> HornerFinish(case.v, hreg),
             auto |-> IF IsPolynomial(case.p) THEN HornerFinish(case.v, hreg) ELSE res.sum]
  /\ pc' = "done" /\ UNCHANGED <<case, hreg>>

\* ---- two operands -------------------------------------------------------------------------------
HomAt(p, q, v) == IF EvalDefined(p, v) /\ EvalDefined(q, v)
                  THEN [def |-> TRUE, mul |-> OpCall(OpMul(p, q), v, "auto"), add |-> OpCall(OpAdd(p, q), v, "auto")]
                  ELSE [def |-> FALSE, mul |-> RZero, add |-> RZero]
Binary ==
  /\ case.kind = "bin" /\ pc = "start"
  /\ LET p == case.p
         q == case.q
     IN res' = [add  |-> OpAdd(p, q), sub |-> OpSub(p, q), mul |-> OpMul(p, q),
                cdef |-> ComposeDefined(p, q),
                comp |-> IF ComposeDefined(p, q) THEN OpCompose(p, q) ELSE PEmpty,
                eq   |-> OpEq(p, q),
                dadd |-> OpDiff(OpAdd(p, q)), dmul |-> OpDiff(OpMul(p, q)),
                hom  |-> [i \in DOMAIN Points |-> HomAt(p, q, Points[i])]]
  /\ pc' = "done" /\ UNCHANGED <<case, hreg>>

Ternary ==
  /\ case.kind = "ter" /\ pc = "start"
  /\ LET p == case.p
         q == case.q
         r == case.r
     IN res' = [add3 |-> OpAdd(OpAdd(p, q), r), mul3 |-> OpMul(OpMul(p, q), r), dist |-> OpMul(p, OpAdd(q, r))]
  /\ pc' = "done" /\ UNCHANGED <<case, hreg>>

Lagrange ==
  /\ case.kind = "lag" /\ pc = "start"
  /\ res' = [poly |-> OpLagrangePoly(case.pts),
             at   |-> [i \in DOMAIN case.pts |-> OpLagrangeFunc(case.pts, case.pts[i][1])],
             mid  |-> [i \in DOMAIN Points |-> OpLagrangeFunc(case.pts, Points[i])]]
  /\ pc' = "done" /\ UNCHANGED <<case, hreg>>

Next == Unary \/ EvalShort \/ EvalSum \/ HornerStart \/ HornerNext \/ HornerEnd \/ Binary \/ Ternary \/ Lagrange
Spec == Init /\ [][Next]_vars

---------------------------------------------------------------------------
Done(k) == case.kind = k /\ pc = "done"

\* every polynomial the machine leaves in `res` has no zero coefficient stored
NoZeroStored ==
  /\ Done("un")  => /\ \A f \in {"neg", "pos", "subself", "diff", "diff2", "integ", "dinteg"} : IsPoly(res[f])
                    /\ \A i \in DOMAIN res.pows : IsPoly(res.pows[i])
  /\ Done("bin") => \A f \in {"add", "sub", "mul", "comp", "dadd", "dmul"} : IsPoly(res[f])
  /\ Done("ter") => \A f \in {"add3", "mul3", "dist"} : IsPoly(res[f])
  /\ Done("lag") => IsPoly(res.poly)

UnaryLaws   == Done("un") => /\ LawsUnary(case.p, MaxExp)
                             /\ res.subself = PEmpty
                             /\ \A i \in DOMAIN res.pows : res.pows[i] = DefPow(case.p, i - 1)
                             /\ res.canint => res.dinteg = case.p
                             /\ res.diff2 = DefDiff(DefDiff(case.p))
RingBinary  == Done("bin") => /\ LawsBinary(case.p, case.q)
                              /\ res.add = DefAdd(case.p, case.q) /\ res.sub = DefSub(case.p, case.q)
                              /\ res.mul = DefMul(case.p, case.q)
RingTernary == Done("ter") => /\ LawsTernary(case.p, case.q, case.r)
                              /\ res.add3 = DefAdd(case.p, DefAdd(case.q, case.r))
                              /\ res.mul3 = DefMul(case.p, DefMul(case.q, case.r))
                              /\ res.dist = DefAdd(DefMul(case.p, case.q), DefMul(case.p, case.r))
Homomorphism == Done("bin") => /\ EvalHom(case.p, case.q, PtSet)
                               /\ \A i \in DOMAIN Points : res.hom[i].def =>
                                     /\ res.hom[i].mul = RMul(DefEval(case.p, Points[i]), DefEval(case.q, Points[i]))
                                     /\ res.hom[i].add = RAdd(DefEval(case.p, Points[i]), DefEval(case.q, Points[i]))
Composition == Done("bin") => /\ ComposeLaw(case.p, case.q, CompPts)
                              /\ res.cdef => res.comp = DefCompose(case.p, case.q)
Calculus    == Done("bin") => /\ DiffLaws(case.p, case.q, Scalars)
                              /\ res.dadd = DefAdd(DefDiff(case.p), DefDiff(case.q))
                              /\ res.dmul = DefAdd(DefMul(DefDiff(case.p), case.q), DefMul(case.p, DefDiff(case.q)))
EqHash      == Done("bin") => /\ EqHashCoherent(case.p, case.q)
                              /\ res.eq = (case.p = case.q)
                              /\ EqHashCoherent(OpAdd(case.p, case.q), OpAdd(case.q, case.p))
                              /\ OpEq(OpMul(case.p, case.q), OpMul(case.q, case.p))
Interpolation == Done("lag") => /\ PassesThrough(case.pts)
                                /\ \A i \in DOMAIN case.pts : res.at[i] = case.pts[i][2]
                                /\ \A i \in DOMAIN Points : res.mid[i] = DefEval(res.poly, Points[i])

\* evaluation: all schemes give sum_k p_k v^k ...
SchemeIndependent ==
  Done("ev") => /\ SchemesAgree(case.p, case.v)
                /\ res.sum = DefEval(case.p, case.v) /\ res.horner = res.sum /\ res.auto = res.sum
\* ... and the loop invariant of the Horner-like scheme: after consuming the terms of power >= pw the
\* registers hold the value of exactly that part of the polynomial
UpperPart(p, k) == [j \in {i \in DOMAIN p : i >= k} |-> p[j]]
HornerInvariant ==
  (case.kind = "ev" /\ pc = "horner") =>
     /\ hreg.pw \in DOMAIN case.p
     /\ res.part = DefEval(UpperPart(case.p, hreg.pw), case.v)
     /\ res.part = OpEvalHorner(UpperPart(case.p, hreg.pw), case.v)
============================================================================
