------------------------------- MODULE Poly -------------------------------
(***************************************************************************)
(* audiolazy.lazy_poly.Poly, lagrange  (property C07; the value layer of   *)
(* C05's rational functions is built on this module).                      *)
(*                                                                         *)
(* A polynomial (negative powers allowed) is a function from a finite set  *)
(* of integer powers to NON-ZERO rationals: "no zero coefficient is ever   *)
(* stored" is the type (IsPoly), and two polynomials are the same          *)
(* polynomial iff they are the same TLA+ value.                            *)
(*                                                                         *)
(* Operational layer (Op...): the code transcribed -- the chain/intersect  *)
(*   merge of __add__, the nested accumulate loop of __mul__, the branches *)
(*   of __pow__, the three routes of __call__ (x = 0 shortcut, Horner-like *)
(*   scheme with merged steps as a register machine HornerInit /           *)
(*   HornerStep / HornerFinish, general sum), composition as the           *)
(*   sum(coeff * value ** power) loop, diff / integrate, the Waring-       *)
(*   Lagrange double loop, and the "compact zeros" pass of __init__ that   *)
(*   every constructor call ends with.                                     *)
(* Definition layer (Def..., and the law predicates at the end): what the  *)
(*   property says -- coefficient formulas of a commutative ring,          *)
(*   evaluation as sum c_k v^k, the laws themselves.                       *)
(* This module is constant-level (no variables) so that PolyC07 (the       *)
(* checking machine and its grids), PolyTrace (judge of recorded calls)    *)
(* and FilterAlg use the same operators.                                   *)
(***************************************************************************)
EXTENDS Rat, FiniteSets, TLC

PEmpty          == <<>>                                   \* the empty polynomial (empty function)
PCoef(p, k)     == IF k \in DOMAIN p THEN p[k] ELSE RZero
IsPoly(p)       == \A k \in DOMAIN p : k \in Int /\ p[k] # RZero
NTerms(p)       == Cardinality(DOMAIN p)
IsPolynomial(p) == \A k \in DOMAIN p : k >= 0             \* Poly.is_polynomial

\* Poly.__init__, "Compact zeros": drop every stored pair whose value equals zero
Compact(f)      == [k \in {j \in DOMAIN f : f[j] # RZero} |-> f[k]]
Mono(k, c)      == Compact(k :> c)
PConst(c)       == Mono(0, c)                             \* Poly(number)
PX              == Mono(1, ROne)                          \* the module-level `x`

PMaxKey(S)      == CHOOSE a \in S : \A b \in S : b <= a
PMinKey(S)      == CHOOSE a \in S : \A b \in S : a <= b
RECURSIVE Ascending(_)
Ascending(S)    == IF S = {} THEN <<>> ELSE LET m == PMinKey(S) IN <<m>> \o Ascending(S \ {m})
RECURSIVE Descending(_)
Descending(S)   == IF S = {} THEN <<>> ELSE LET m == PMaxKey(S) IN <<m>> \o Descending(S \ {m})

\* <<power, coefficient>> pairs in ascending power order (what terms() yields for a Laurent polynomial)
TermSeq(p)      == LET ks == Ascending(DOMAIN p) IN [i \in 1..Len(ks) |-> <<ks[i], p[ks[i]]>>]

\* sum of f[k] over k in S (f a function to rationals)
RECURSIVE RSumFn(_, _)
RSumFn(f, S)    == IF S = {} THEN RZero
                   ELSE LET k == CHOOSE j \in S : TRUE IN RAdd(f[k], RSumFn(f, S \ {k}))

\* a polynomial logged as a sequence of <<power, <<num, den>>>> pairs (trace records; a logged zero
\* coefficient stays in the domain, so it is seen)
RatOfPair(x)    == <<x[1], x[2]>>
PolyOfPairs(s)  == [k \in {s[j][1] : j \in DOMAIN s} |->
                      LET j == CHOOSE jj \in DOMAIN s : s[jj][1] = k IN RatOfPair(s[j][2])]

---------------------------------------------------------------------------
(* Operational layer                                                       *)

\* __add__: OrderedDict(chain(self items, other items, intersect)) -- a later pair overrides an
\* earlier one, the sums on the common powers come last -- then the constructor compacts zeros
OpAdd(p, q) ==
  LET both == DOMAIN p \cap DOMAIN q
  IN Compact([k \in DOMAIN p \cup DOMAIN q |->
                IF k \in both THEN RAdd(p[k], q[k]) ELSE IF k \in DOMAIN q THEN q[k] ELSE p[k]])

\* PolyMeta.__unary__ : the operator applied to every stored value
OpNeg(p)    == Compact([k \in DOMAIN p |-> RNeg(p[k])])
OpPos(p)    == Compact(p)
\* __sub__ : self + (-other)
OpSub(p, q) == OpAdd(p, OpNeg(q))

\* __mul__: for k1,v1 in self: for k2,v2 in other: new_data[k1+k2] (+)= v1*v2 ; zeros are compacted
\* only by the constructor at the end (an entry may pass through zero in between)
PairSeq(p, q) ==
  LET tp == TermSeq(p)
      tq == TermSeq(q)
      n  == Len(tq)
  IN [i \in 1..(Len(tp) * n) |->
        LET a == tp[((i - 1) \div n) + 1]
            b == tq[((i - 1) % n) + 1]
        IN <<a[1] + b[1], RMul(a[2], b[2])>>]
Accumulate(acc, t) == IF t[1] \in DOMAIN acc THEN [acc EXCEPT ![t[1]] = RAdd(@, t[2])]
                      ELSE acc @@ (t[1] :> t[2])
RECURSIVE FoldAcc(_, _, _)
FoldAcc(acc, ts, i) == IF i > Len(ts) THEN acc ELSE FoldAcc(Accumulate(acc, ts[i]), ts, i + 1)
OpMul(p, q) == Compact(FoldAcc(PEmpty, PairSeq(p, q), 1))

\* reduce(operator.mul, [p] * n): ((p*p)*p)...   (n >= 1)
RECURSIVE MulChain(_, _)
MulChain(p, n) == IF n <= 1 THEN p ELSE OpMul(MulChain(p, n - 1), p)

\* __pow__ (integer exponent): 0 -> Poly(1); empty -> empty; one term -> (k*n, v**n) (this branch is
\* also what a negative exponent of a monomial goes through); otherwise the product chain (n >= 1)
OpPow(p, n) ==
  IF n = 0 THEN PConst(ROne)
  ELSE IF DOMAIN p = {} THEN PEmpty
  ELSE IF NTerms(p) = 1 THEN LET k == PMaxKey(DOMAIN p) IN Compact((k * n) :> RPow(p[k], n))
  ELSE MulChain(p, n)

\* ---- __call__ with a number -------------------------------------------------------------------
\* general route: sum(coeff * value ** power for power, coeff in self.terms())
OpEvalSum(p, v) == RSumFn([k \in DOMAIN p |-> RMul(p[k], RPow(v, k))], DOMAIN p)

\* Horner-like route: reduce(horner_step, terms sorted by descending power) as a register machine.
\* reg = [pw |-> power of the last consumed term, acc |-> partial result]
HornerInit(p)        == LET k == PMaxKey(DOMAIN p) IN [pw |-> k, acc |-> p[k]]
HornerMore(p, reg)   == {k \in DOMAIN p : k < reg.pw} # {}
HornerStep(p, v, reg) ==
  LET np    == PMaxKey({k \in DOMAIN p : k < reg.pw})
      scale == IF reg.pw = np + 1 THEN v ELSE RPow(v, reg.pw - np)      \* merged step over a gap
  IN [pw |-> np, acc |-> RAdd(p[np], RMul(reg.acc, scale))]
HornerFinish(v, reg) == RMul(reg.acc, RPow(v, reg.pw))                  \* result * value ** last_power
RECURSIVE HornerRun(_, _, _)
HornerRun(p, v, reg) == IF HornerMore(p, reg) THEN HornerRun(p, v, HornerStep(p, v, reg)) ELSE reg
OpEvalHorner(p, v)   == HornerFinish(v, HornerRun(p, v, HornerInit(p)))

\* the whole __call__(value, horner) for a number; mode \in {"auto", "horner", "sum"}
\* (v = 0 with a negative power stored is outside the property: see EvalDefined)
OpCall(p, v, mode) ==
  IF DOMAIN p = {} THEN RZero                               \* empty polynomial: the zero value
  ELSE IF v = RZero THEN PCoef(p, 0)                        \* "x = 0" shortcut: self[0]
  ELSE IF mode = "horner" \/ (mode = "auto" /\ IsPolynomial(p)) THEN OpEvalHorner(p, v)
  ELSE OpEvalSum(p, v)
EvalDefined(p, v) == v # RZero \/ IsPolynomial(p)

\* ---- __call__ with a Poly: Poly(sum(coeff * value ** power for power, coeff in items)) --------
\* `coeff * poly` is Poly(coeff) * poly (reflected operator), the sum starts from 0 (0 + poly)
ComposeDefined(p, q) == IsPolynomial(p) \/ NTerms(q) = 1   \* a negative power needs an invertible q
RECURSIVE ComposeLoop(_, _, _, _)
ComposeLoop(acc, ts, i, q) ==
  IF i > Len(ts) THEN acc
  ELSE ComposeLoop(OpAdd(acc, OpMul(PConst(ts[i][2]), OpPow(q, ts[i][1]))), ts, i + 1, q)
OpCompose(p, q) == ComposeLoop(PEmpty, TermSeq(p), 1, q)

\* ---- diff / integrate -------------------------------------------------------------------------
OpDiff(p)      == Compact([j \in {k - 1 : k \in DOMAIN p \ {0}} |-> RMul(R(j + 1), p[j + 1])])
RECURSIVE OpDiffN(_, _)
OpDiffN(p, n)  == IF n = 0 THEN Compact(p) ELSE OpDiffN(OpDiff(p), n - 1)
CanIntegrate(p) == -1 \notin DOMAIN p                        \* otherwise ValueError
OpIntegrate(p) == Compact([j \in {k + 1 : k \in DOMAIN p} |-> RDiv(p[j - 1], R(j))])

\* ---- lagrange.func / lagrange.poly ------------------------------------------------------------
\* pts: sequence of <<x, y>> with pairwise distinct x.
\* func(pairs)(t) = sum_j y_j * prod_{k : x_k # x_j} (t - x_k) / (x_j - x_k)
\* (the product over no factor -- a single point -- is 1: the interpolator of one point is constant)
DistinctX(pts) == \A i, j \in DOMAIN pts : i # j => pts[i][1] # pts[j][1]
RECURSIVE RProdFrom(_, _)
RProdFrom(s, i) == IF i > Len(s) THEN ROne ELSE RMul(s[i], RProdFrom(s, i + 1))
Others(pts, j)  == SelectSeq(pts, LAMBDA pt : pt[1] # pts[j][1])
OpLagrangeFunc(pts, t) ==
  RSumFn([j \in DOMAIN pts |->
            LET o == Others(pts, j)
            IN RMul(pts[j][2], RProdFrom([k \in DOMAIN o |-> RDiv(RSub(t, o[k][1]), RSub(pts[j][1], o[k][1]))], 1))],
         DOMAIN pts)
\* poly(pairs) = func(pairs)(x): the same loops on Poly values; (x - r) / d is the two-term polynomial
Factor(r, d) == Compact((1 :> RDiv(ROne, d)) @@ (0 :> RDiv(RNeg(r), d)))
RECURSIVE PProdFrom(_, _)
PProdFrom(s, i) == IF i > Len(s) THEN PConst(ROne)
                   ELSE IF i = Len(s) THEN s[i] ELSE OpMul(s[i], PProdFrom(s, i + 1))
RECURSIVE LagrangeLoop(_, _, _)
LagrangeLoop(acc, pts, j) ==
  IF j > Len(pts) THEN acc
  ELSE LET o    == Others(pts, j)
           prod == PProdFrom([k \in DOMAIN o |-> Factor(o[k][1], RSub(pts[j][1], o[k][1]))], 1)
       IN LagrangeLoop(OpAdd(acc, OpMul(PConst(pts[j][2]), prod)), pts, j + 1)
OpLagrangePoly(pts) == LagrangeLoop(PEmpty, pts, 1)

\* ---- comparison ---------------------------------------------------------------------------------
\* __eq__: same number of terms and every (power, value) of one found in the other (the zero values,
\* integer 0 or float 0.0 in every use made here, always compare equal).  __hash__ hashes the frozen
\* set of (power, value) pairs: a function of exactly what __eq__ compares.
OpEq(p, q)   == NTerms(p) = NTerms(q) /\ \A k \in DOMAIN p : k \in DOMAIN q /\ p[k] = q[k]
HashKey(p)   == {<<k, p[k]>> : k \in DOMAIN p}

---------------------------------------------------------------------------
(* Definition layer: the ring of Laurent polynomials over the rationals,   *)
(* stated coefficient by coefficient, and evaluation as a plain sum.       *)

FromCoefs(f)  == Compact(f)           \* the polynomial whose k-th coefficient is f[k] (0 elsewhere)
DefAdd(p, q)  == FromCoefs([k \in DOMAIN p \cup DOMAIN q |-> RAdd(PCoef(p, k), PCoef(q, k))])
DefNeg(p)     == [k \in DOMAIN p |-> RNeg(p[k])]
DefSub(p, q)  == FromCoefs([k \in DOMAIN p \cup DOMAIN q |-> RSub(PCoef(p, k), PCoef(q, k))])
\* Cauchy product: c_k = sum_{i+j=k} p_i q_j
DefMul(p, q)  == FromCoefs([k \in {i + j : i \in DOMAIN p, j \in DOMAIN q} |->
                              LET I == {i \in DOMAIN p : (k - i) \in DOMAIN q}
                              IN RSumFn([i \in I |-> RMul(p[i], q[k - i])], I)])
RECURSIVE DefPow(_, _)
DefPow(p, n)  == IF n = 0 THEN PConst(ROne) ELSE DefMul(p, DefPow(p, n - 1))     \* the n-fold product
DefScale(c, p) == FromCoefs([k \in DOMAIN p |-> RMul(c, p[k])])
DefEval(p, v) == RSumFn([k \in DOMAIN p |-> RMul(p[k], RPow(v, k))], DOMAIN p)   \* sum_k p_k v^k
\* inverse of a monomial c x^k (c # 0)
MonoInv(q)    == LET k == PMaxKey(DOMAIN q) IN Mono(-k, RInv(q[k]))
DefPowZ(q, n) == IF n >= 0 THEN DefPow(q, n) ELSE DefPow(MonoInv(q), -n)
\* p o q = sum_k p_k q^k
RECURSIVE DefComposeFrom(_, _, _)
DefComposeFrom(ts, i, q) == IF i > Len(ts) THEN PEmpty
                            ELSE DefAdd(DefScale(ts[i][2], DefPowZ(q, ts[i][1])), DefComposeFrom(ts, i + 1, q))
DefCompose(p, q) == DefComposeFrom(TermSeq(p), 1, q)
\* d/dx: coefficient k of p' is (k+1) p_{k+1}
DefDiff(p)    == FromCoefs([j \in {k - 1 : k \in DOMAIN p} |-> RMul(R(j + 1), p[j + 1])])

---------------------------------------------------------------------------
(* The laws of the property, as predicates on the operational operators.   *)
(* V is the finite set of evaluation points they are checked at.           *)

\* commutative ring, pairs
LawsBinary(p, q) ==
  LET s == OpAdd(p, q)
      d == OpSub(p, q)
      m == OpMul(p, q)
  IN /\ s = OpAdd(q, p)                                         \* + commutative
     /\ m = OpMul(q, p)                                         \* * commutative
     /\ s = DefAdd(p, q) /\ d = DefSub(p, q) /\ m = DefMul(p, q)
     /\ OpSub(s, q) = p /\ OpAdd(d, q) = p                      \* - undoes +
     /\ IsPoly(s) /\ IsPoly(d) /\ IsPoly(m)                     \* no zero coefficient stored
\* commutative ring, triples
LawsTernary(p, q, r) ==
  LET pq == OpMul(p, q)
      pr == OpMul(p, r)
      qr == OpAdd(q, r)
  IN /\ OpAdd(OpAdd(p, q), r) = OpAdd(p, qr)                    \* + associative
     /\ OpMul(pq, r) = OpMul(p, OpMul(q, r))                    \* * associative
     /\ OpMul(p, qr) = OpAdd(pq, pr)                            \* distributive (both sides)
     /\ OpMul(qr, p) = OpAdd(OpMul(q, p), OpMul(r, p))
\* one operand
LawsUnary(p, maxexp) ==
  /\ OpSub(p, p) = PEmpty                                        \* p - p is the empty polynomial
  /\ OpAdd(p, PEmpty) = p /\ OpMul(p, PConst(ROne)) = p /\ OpMul(p, PEmpty) = PEmpty
  /\ OpNeg(p) = DefNeg(p) /\ OpAdd(p, OpNeg(p)) = PEmpty /\ OpNeg(OpNeg(p)) = p
  /\ \A n \in 0..maxexp : LET pn == OpPow(p, n) IN pn = DefPow(p, n) /\ IsPoly(pn)   \* the n-fold product
  /\ LET dp == OpDiff(p) IN dp = DefDiff(p) /\ IsPoly(dp)
  /\ CanIntegrate(p) => LET ip == OpIntegrate(p) IN OpDiff(ip) = p /\ IsPoly(ip)     \* diff undoes integrate
\* evaluation: independent of the scheme ...
SchemesAgree(p, v) ==
  EvalDefined(p, v) => LET e == DefEval(p, v)
                       IN OpCall(p, v, "auto") = e /\ OpCall(p, v, "horner") = e /\ OpCall(p, v, "sum") = e
\* ... and a ring homomorphism
EvalHom(p, q, V) ==
  LET s == OpAdd(p, q)
      m == OpMul(p, q)
  IN \A v \in V : (EvalDefined(p, v) /\ EvalDefined(q, v)) =>
        LET pv == OpCall(p, v, "auto")
            qv == OpCall(q, v, "auto")
        IN /\ OpCall(m, v, "auto") = RMul(pv, qv)
           /\ OpCall(s, v, "auto") = RAdd(pv, qv)
\* p(q) is composition: canonical form, and (p o q)(v) = p(q(v)) wherever both sides are defined
ComposeLaw(p, q, V) ==
  ComposeDefined(p, q) =>
     LET c == OpCompose(p, q)
     IN /\ c = DefCompose(p, q) /\ IsPoly(c)
        /\ \A v \in V : EvalDefined(q, v) =>
              LET qv == OpCall(q, v, "auto")
              IN (EvalDefined(p, qv) /\ EvalDefined(c, v)) => OpCall(c, v, "auto") = OpCall(p, qv, "auto")
\* diff is linear and satisfies the product rule
DiffLaws(p, q, S) ==
  LET dp == OpDiff(p)
      dq == OpDiff(q)
  IN /\ OpDiff(OpAdd(p, q)) = OpAdd(dp, dq)
     /\ \A c \in S : OpDiff(OpMul(PConst(c), p)) = OpMul(PConst(c), dp)
     /\ OpDiff(OpMul(p, q)) = OpAdd(OpMul(dp, q), OpMul(p, dq))
\* the interpolator passes through its points (both strategies)
PassesThrough(pts) ==
  DistinctX(pts) => LET lp == OpLagrangePoly(pts)
                    IN \A i \in DOMAIN pts : /\ OpLagrangeFunc(pts, pts[i][1]) = pts[i][2]
                                             /\ OpCall(lp, pts[i][1], "auto") = pts[i][2]
\* == / hash coherence: == holds exactly for the same polynomial, and then the hash keys agree
EqHashCoherent(p, q) == /\ OpEq(p, q) <=> (p = q)
                        /\ OpEq(p, q) => HashKey(p) = HashKey(q)
===========================================================================
