CONSTANTS
  Layers <- C09Layers
  MaxDerive = 3
  SharedDefaults = TRUE
INIT Init
NEXT Next
INVARIANT NoLeak
CHECK_DEADLOCK FALSE
