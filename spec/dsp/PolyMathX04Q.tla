---------------------------- MODULE PolyMathX04Q ----------------------------
EXTENDS PolyMathX04

QKeyItems == {<<RZero, FALSE>>, <<ROne, FALSE>>, <<R(2), TRUE>>, <<R(-1), FALSE>>, <<Q(3, 2), TRUE>>, <<ROne, TRUE>>}
QCoefs    == {RZero, ROne, R(2)}
QObjs     == {Obj(<<>>, ZFloat), Obj(<< <<ROne, R(2)>> >>, ZInt), Obj(<< <<R(2), ROne>>, <<RZero, R(2)>> >>, ZFloat),
              Obj(<< <<Q(3, 2), R(2)>>, <<R(-1), Q(1, 2)>>, <<ROne, ROne>> >>, ZFrac),
              Obj(<< <<RZero, RZero>>, <<ROne, ROne>> >>, ZV(R(2), "int"))}
QData     == {[form |-> "none"]} \cup NumData({RZero, R(2), Q(1, 2)})
             \cup ListData({RZero, ROne, R(2)}, 0..3) \cup {[form |-> "list", s |-> <<R(7), ROne, R(7), Q(-1, 2)>>]}
             \cup DictData(QKeyItems, QCoefs, 1) \cup DictData(QKeyItems, QCoefs, 2)
             \cup DictData(QKeyItems, {ROne, R(2)}, 3)
             \cup PolyData(QObjs) \cup OpaqueData

P3a  == (0 :> ROne) @@ (1 :> Q(1, 2)) @@ (2 :> R(-1))
P2s  == (-1 :> Q(1, 2)) @@ (1 :> R(-1))
P2c  == (0 :> ROne) @@ (1 :> ROne)                         \* x + 1
QPolys == {PEmpty, PConst(R(3)), PConst(Q(-1, 2)), PX, Mono(2, R(2)), Mono(-2, Q(1, 2)), Mono(-1, R(-1)), P2c, P2s, P3a}
QNums  == {RZero, ROne, R(2), Q(-1, 2)}
QAs    == PVs(QPolys, {ZFloat, ZInt}) \cup PVs({P2c, Mono(1, R(2))}, {ZFrac})

QItems == {Item(RZero, FALSE, R(5)), Item(ROne, TRUE, RZero), Item(ROne, FALSE, R(2)), Item(Q(3, 2), TRUE, ROne),
           Item(R(4), TRUE, R(2)), Item(R(-1), FALSE, R(2))}

\* numbers for lazy_math
QReals == {NInt(-8), NInt(-1), NInt(0), NInt(1), NInt(2), NInt(8), NInt(10), NInt(1000), NFloat(RZero), NFloat(Q(1, 2)),
           NFloat(Q(-1, 2)), NFloat(R(2)), NFloat(R(-1)), NFloat(R(100)), NFrac(Q(1, 2)), NFrac(Q(-1, 3)), NFrac(Q(1, 10)),
           NFrac(R(-1)), NBool(TRUE), NBool(FALSE)}
QCplx  == {NCplx(RZero, RZero), NCplx(RZero, ROne), NCplx(R(-1), RZero), NCplx(R(3), R(4)), NCplx(RZero, R(-2)),
           NCplx(ROne, ROne), NCplx(R(-1), R(-1))}
QSpec  == {NSpec("inf"), NSpec("-inf"), NSpec("nan"), NSpec("-0.0")}
QAllNums == QReals \cup QCplx \cup QSpec
QBases == {NInt(10), NInt(2), NInt(0), NInt(-1), NInt(1), NFloat(ROne), NFloat(Q(1, 2)), NFloat(RZero), NFrac(Q(3, 2)),
           NBool(TRUE), NSpec("-0.0"), NSpec("inf"), NSpec("nan"), NFloat(Q(-1, 2))}
QFactNums == {NInt(n) : n \in -3..25} \cup {NInt(30), NInt(40), NFloat(RZero), NFloat(R(3)), NFloat(R(5)), NFloat(R(-3)),
              NFloat(Q(5, 2)), NFloat(Q(-5, 2)), NBool(TRUE), NBool(FALSE), NFrac(R(3)), NFrac(Q(1, 2)), NCplx(R(3), RZero),
              NOther("str")} \cup QSpec

X04Quick ==
  [ctor1    |-> G("ctor", CtorCases(QData, {ZNone})),
   ctor2    |-> G("ctor", CtorCases(QData, {ZGiven(ZInt)})),
   ctor3    |-> G("ctor", CtorCases(QData, {ZGiven(ZV(R(2), "int"))})),
   optable  |-> G("optable", {[x |-> 0]}),
   arith    |-> G("arith", ArithCases(QAs, {OPoly(p, z) : p \in {PEmpty, PX, P2c, P2s, Mono(-1, R(-1))}, z \in {ZFloat, ZInt}},
                           {ONum(v) : v \in QNums})),
   div      |-> G("div", DivCases(QAs, Operands({PEmpty, PConst(R(3)), Mono(1, R(2)), Mono(-2, Q(1, 2)), P2c, P3a}, {ZFloat, ZInt},
                                       {RZero, R(2), Q(-1, 2)}), {ONum(ROne), ONum(R(2))})),
   pow      |-> G("pow", PowCases(QAs, IntExp(-3..3) \cup PolyExp({PEmpty, PConst(R(2)), PConst(R(-1)), PX, P2c}))),
   powf     |-> G("powf", PowFCases({-2, -1, 0, 1, 2, 3}, {ROne, R(4), Q(1, 4), R(9)}, {Q(1, 2), Q(3, 2), Q(-1, 2), R(2), R(-1)})),
   calc     |-> G("calc", CalcCases(QAs, -1..3)),
   eqnum    |-> G("eqnum", EqCases(QAs, Operands(QPolys, {ZFloat, ZInt, ZV(R(2), "int")}, QNums \cup {R(3)}))),
   scopy    |-> G("scopy", SCopyCases({<<1, 2, 3, 4>>, <<>>}, {"copy", "ctor"})),
   mutc     |-> G("mutc", MutCases(QObjs, {ZNone, ZGiven(ZInt)}, QItems)),
   xobj     |-> G("xobj", {[x |-> 0]}),
   lagnames |-> G("lagnames", {[x |-> 0]}),
   log      |-> G("log", LogCases(QAllNums, QBases)),
   log10    |-> G("log10", XCases(QAllNums)),
   log2     |-> G("log2", XCases(QAllNums)),
   log1p    |-> G("log1p", XCases(QAllNums \cup {NInt(-2), NFloat(Q(-3, 2))})),
   fact     |-> G("fact", XCases(QFactNums)),
   db       |-> G("db", DbCases(QAllNums \cup {NInt(-10), NInt(100), NFloat(Q(1, 100)), NInt(1000000)})),
   sign     |-> G("sign", XCases(QAllNums \cup {NOther("str")})),
   abs      |-> G("abs", XCases(QAllNums \cup {NOther("str"), NCplx(Q(3, 2), R(2)), NCplx(R(-5), R(12))})),
   cexp     |-> G("cexp", XCases(QAllNums \cup {NOther("str")})),
   phase    |-> G("phase", XCases(QAllNums \cup {NOther("str")})),
   consts   |-> G("consts", {[x |-> 0]}),
   mathall  |-> G("mathall", {[x |-> 0]})]
=============================================================================
