---------------------------- MODULE WindowTable ----------------------------
(***************************************************************************)
(* audiolazy.lazy_analysis.window._content_generation_table as data: one   *)
(* entry per window model, its names in table order (the first one is the  *)
(* strategy's own name, `sname`), whether the periodic and the symmetric   *)
(* variants are distinct functions, and its extra parameter.               *)
(* Shared by Windows (sample values) and WindowsReg (strategy registry).   *)
(***************************************************************************)
EXTENDS Naturals, Sequences

WTable == <<
  [names |-> <<"hann", "hanning">>,                    distinct |-> TRUE,  param |-> "none"],
  [names |-> <<"hamming">>,                            distinct |-> TRUE,  param |-> "none"],
  [names |-> <<"rect", "dirichlet", "rectangular">>,   distinct |-> FALSE, param |-> "none"],
  [names |-> <<"bartlett">>,                           distinct |-> TRUE,  param |-> "none"],
  [names |-> <<"triangular", "triangle">>,             distinct |-> TRUE,  param |-> "none"],
  [names |-> <<"blackman">>,                           distinct |-> TRUE,  param |-> "alpha"],
  [names |-> <<"cos">>,                                distinct |-> TRUE,  param |-> "alpha"] >>

WSeqRange(s) == {s[i] : i \in DOMAIN s}
WSName(e)    == e.names[1]
WSNames      == {WSName(WTable[i]) : i \in DOMAIN WTable}
WAllNames    == UNION {WSeqRange(WTable[i].names) : i \in DOMAIN WTable}
\* table entry of a name (names are unique across the table)
WEntry(name) == WTable[CHOOSE i \in DOMAIN WTable : name \in WSeqRange(WTable[i].names)]
============================================================================
