----------------------------- MODULE FilterC04 -----------------------------
(* Case grids for C04 (constant coefficients).  The quick grid contains every branch of the   *)
(* expression builder: coefficient 1 / -1 / 0 / other on both sides, gain 1 / -1 / other,      *)
(* la = 1, lb = 1, lb = 0 (empty numerator), all-zero, sparse high delays.                    *)
EXTENDS Filter

CV(S, lens) == UNION {[1..k -> {Const(R(i)) : i \in S}] : k \in lens}
Half        == Const(<<1, 2>>)
I(s)        == [i \in DOMAIN s |-> Const(R(s[i]))]

BQuick(u) == CV({-1, 0, 1, 2}, {1, 2})
          \cup {I(<<1, 0, -1>>), I(<<0, 0, 2>>), I(<<2, -1, 1>>), I(<<1, 0, 0, 0, -1>>), I(<<0, 0, 0, 2>>)}
AQuick(u) == {<<Const(R(a0))>> \o r : a0 \in {1, -1, 3}, r \in {<<>>} \cup CV({-1, 0, 1, 2}, {1})
                                                     \cup {I(<<1, -1>>), I(<<0, 2>>), I(<<-1, 1>>), I(<<0, 0, 1>>)}}

BFull(u) == CV({-1, 0, 1, 2}, {1, 2, 3}) \cup {I(<<1, 0, 0, 0, -1>>), I(<<0, 0, 0, 2>>), <<Half, Const(R(1))>>,
                                              <<Const(R(1)), Half, Half>>}
AFull(u) == {<<Const(R(a0))>> \o r : a0 \in {1, -1, 2, 3}, r \in {<<>>} \cup CV({-1, 0, 1, 2}, {1, 2})
                                                     \cup {I(<<0, 0, 1>>), I(<<0, 0, -2>>), <<Half>>, <<Half, Const(R(-1))>>}}

Grid(B, A) ==
  {[b |-> b, a |-> a, mem |-> mm, zero |-> z, adv |-> 0] :
      b \in B, a \in A, mm \in {"none", "exact"}, z \in {"sym"}}
  \cup {[b |-> b, a |-> a, mem |-> "none", zero |-> "num", adv |-> 0] :
      b \in {x \in B : Len(x) = 1}, a \in A}
  \cup {[b |-> b, a |-> a, mem |-> "exact", zero |-> "sym", adv |-> v] :
      b \in {I(<<1, 1>>), I(<<2>>), I(<<0, 1, -1>>), I(<<0, 0>>)}, a \in {I(<<1>>), I(<<1, -1>>), I(<<2, 0, 1>>)}, v \in {1, 2}}

\* the grids themselves are in FilterC04Q / FilterC04T (TLC evaluates zero-arity definitions at start-up)
============================================================================
