---------------------------- MODULE StftPartial ----------------------------
(***************************************************************************)
(* Partial / decorator style of the STFT wrapper (property C09, calling    *)
(* styles): stft(a=..) returns a partial; partial(b=..) returns another      *)
(* partial; partial(f) a processor.  Every derivation merges its keywords  *)
(* over a COPY of the parent's options (later wins): a partial is a value. *)
(* Deriving from a partial must not change what the partial itself, or     *)
(* anything derived from it earlier or later, will do.                     *)
(*                                                                         *)
(* Operational layer: the option dictionary each partial closes over.      *)
(* Definition layer: the merge of the keyword layers along the partial's   *)
(* own derivation path.  SharedDefaults = TRUE is the variant in which a   *)
(* derivation updates the parent's dictionary in place (a regression this  *)
(* model must be able to see: NoLeak is violated).                         *)
(***************************************************************************)
EXTENDS Integers, Sequences, FiniteSets, TLC

CONSTANTS Layers,          \* keyword layers a derivation may give: sequence of records [k, v]
          MaxDerive,       \* derivations per history
          SharedDefaults   \* FALSE = the code's intended behaviour

Keys == {Layers[i].k : i \in DOMAIN Layers}
Root == [k \in Keys |-> IF k = "size" THEN "4" ELSE "unset"]
Put(d, l) == [d EXCEPT ![l.k] = l.v]

VARIABLES store,   \* partial id -> the dictionary it closes over (operational)
          path,    \* partial id -> sequence of layer indices of its derivation path (definition)
          hist     \* the derivations made: sequence of <<parent, layer index>>
vars == <<store, path, hist>>

RECURSIVE Along(_, _)
Along(d, p) == IF p = <<>> THEN d ELSE Along(Put(d, Layers[Head(p)]), Tail(p))
Def(i) == Along(Root, path[i])

Init == store = <<Root>> /\ path = << <<>> >> /\ hist = <<>>

Derive(p, li) ==
  /\ Len(hist) < MaxDerive
  /\ LET child == Put(store[p], Layers[li]) IN
       store' = IF SharedDefaults THEN Append([store EXCEPT ![p] = child], child) ELSE Append(store, child)
  /\ path' = Append(path, Append(path[p], li))
  /\ hist' = Append(hist, <<p, li>>)

Next == \E p \in DOMAIN store, li \in DOMAIN Layers : Derive(p, li)
Spec == Init /\ [][Next]_vars

\* every partial still means what its own derivation path says
NoLeak == \A i \in DOMAIN store : store[i] = Def(i)
\* a derivation never changes an existing partial
Frozen == [][\A i \in DOMAIN store : store'[i] = store[i]]_vars
============================================================================
