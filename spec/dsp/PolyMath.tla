------------------------------ MODULE PolyMath ------------------------------
(***************************************************************************)
(* Extension check X04 as ONE evaluator over tagged cases:                 *)
(*   Eval(kind, c)      operational layer (PolyVal's V..., MathVal's M...) *)
(*   Def(kind, c)       definition layer, where it is a function of the    *)
(*                      case (HasDef)                                      *)
(*   KindLaw(kind,c,o)  what the documentation states as a relation        *)
(* PolyMathGrid runs them on a case grid; PolyValTrace judges recorded     *)
(* calls of the real code with the same operators.                         *)
(***************************************************************************)
EXTENDS PolyVal, MathVal

CONSTANT NegPowRefuses      \* see PolyVal!VPow: TRUE = the specified behaviour, FALSE = the pinned code (sensitivity)

LawPts   == {R(-2), R(-1), Norm(1, 2), ROne, R(2), R(3)}
\* evaluation points of PowIsPower by exponent (32-bit room: p(v) ** n at |v| > 1 grows fast)
LawPtsFor(n) == IF n \in -2..2 THEN LawPts
                ELSE IF n \in {-3, 3} THEN {R(-1), ROne, R(2), Norm(1, 2)} ELSE {R(-1), ROne}
LagSets  == { << <<RZero, ROne>> >>, << <<R(-1), R(2)>>, <<ROne, RZero>> >>,
              << <<RZero, ROne>>, <<ROne, Norm(1, 2)>>, <<R(2), R(-1)>> >> }

\* copy() / Poly(p) followed by an item assignment on one of the two objects
VMutCopy(c) ==
  LET n == VCopy(c.o, c.zarg)
      r == VSetItem(IF c.target = "new" THEN n ELSE c.o, FALSE, c.it)
  IN [orig |-> IF c.target = "orig" THEN r.o ELSE c.o,
      new  |-> IF c.target = "new" THEN r.o ELSE n]

OpaqueShown(c) == [opaque |-> TRUE, len |-> 1, ispoly |-> TRUE, islaur |-> TRUE, order |-> 0,
                   z |-> ZeroOf(c.data, c.zarg)]

Eval(kind, c) ==
  CASE kind = "optable"  -> [ops |-> PolyOpNames, refused |-> AllOpNames \ PolyOpNames, classdef |-> ClassDefined,
                             container |-> ContainerDunders, absent |-> NotContainer]
    [] kind = "ctor"     -> IF c.data.form = "opaque" THEN OpaqueShown(c) ELSE Show(VCtor(c.data, c.zarg))
    [] kind = "arith"    -> VArith(c.op, c.a, c.b)
    [] kind = "div"      -> IF c.rev THEN VRDiv(c.a, c.b) ELSE VDiv(c.a, c.b)
    [] kind = "pow"      -> VPow(c.a, c.n, NegPowRefuses)
    [] kind = "powf"     -> VPowF(c.k, c.c, c.e)
    [] kind = "calc"     -> VCalc(c.a, c.n)
    [] kind = "eqnum"    -> VEqShow(c.a, c.b)
    [] kind = "scopy"    -> VStreamCopy(c.s, c.n, c.m, c.how)
    [] kind = "mutc"     -> VMutCopy(c)
    [] kind = "xobj"     -> [p |-> VX.p, z |-> VX.z, order |-> 1, at |-> [v \in LawPts |-> OpCall(VX.p, v, "auto")]]
    [] kind = "lagnames" -> LagrangeFacts
    [] kind = "log"      -> MLog(c.x, c.b)
    [] kind = "log10"    -> MLog10(c.x)
    [] kind = "log2"     -> MLog2(c.x)
    [] kind = "log1p"    -> MLog1p(c.x)
    [] kind = "fact"     -> MFactorial(c.x)
    [] kind = "db"       -> MDb(c.k, c.x)
    [] kind = "sign"     -> MSign(c.x)
    [] kind = "abs"      -> MAbs(c.x)
    [] kind = "cexp"     -> MCexp(c.x)
    [] kind = "phase"    -> MPhase(c.x)
    [] kind = "consts"   -> MathConsts
    [] kind = "mathall"  -> MAll

AllKinds == {"optable", "ctor", "arith", "div", "pow", "powf", "calc", "eqnum", "scopy", "mutc", "xobj", "lagnames",
             "log", "log10", "log2", "log1p", "fact", "db", "sign", "abs", "cexp", "phase", "consts", "mathall"}

\* kinds whose definition layer is a second, independently written function of the same case
HasDef(kind, c) ==
  \/ kind \in {"arith", "log", "log10", "log2", "fact"}
  \/ kind = "div" /\ ~c.rev /\ DDivDefined(c.a, c.b)
  \/ kind = "pow" /\ DPowDefined(c.a, c.n)
  \/ kind = "calc" /\ c.n >= 0
  \/ kind = "scopy" /\ c.how = "copy"
  \/ kind = "sign" /\ Ordered(c.x)

\* the part of the operational result the definition speaks about
Core(kind, o) ==
  IF kind \in {"log", "log10", "log2"} /\ o.r = "call" THEN [r |-> o.r, fn |-> o.fn, args |-> o.args]
  ELSE o

Def(kind, c) ==
  CASE kind = "arith"  -> DArith(c.op, c.a, c.b)
    [] kind = "div"    -> DDiv(c.a, c.b)
    [] kind = "pow"    -> DPow(c.a, c.n)
    [] kind = "calc"   -> DCalc(c.a, c.n)
    [] kind = "scopy"  -> DStreamCopy(c.s, c.n, c.m)
    [] kind = "log"    -> DMLog(c.x, c.b)
    [] kind = "log10"  -> DMLog(c.x, BGiven(NInt(10)))       \* the decimal logarithm
    [] kind = "log2"   -> DMLog(c.x, BGiven(NInt(2)))        \* the binary logarithm
    [] kind = "fact"   -> DMFactorial(c.x)
    [] kind = "sign"   -> DMSign(c.x)

KindLaw(kind, c, out) ==
  CASE kind = "optable" -> OpTableLaw
    [] kind = "ctor"    -> c.data.form # "opaque" => CtorContract(c.data, c.zarg, out)
    [] kind = "arith"   -> IsPoly(out.p) /\ out.z = c.a.z                       \* no zero stored; the zero of self
    [] kind = "div"     -> (out.e = "none" /\ ~c.rev /\ AsP(c.b) # PEmpty) =>
                              /\ OpMul(out.p, AsP(c.b)) = c.a.p                 \* quotient * divisor = dividend
                              /\ IsPoly(out.p) /\ out.z = c.a.z
    [] kind = "pow"     -> /\ DPowDefined(c.a, c.n) => PowIsPower(c.a, c.n, out, IF ExpGeneral(c.n) THEN {} ELSE LawPtsFor(ExpVal(c.n)))
                           /\ out.e = "none" => (IsPoly(out.p) /\ out.z = c.a.z)
    [] kind = "powf"    -> PowFRoundTrip(c.k, c.c, c.e)
    [] kind = "calc"    -> c.n >= 0 => CalcLaws(c.a, c.n, out)
    [] kind = "eqnum"   -> /\ out.eq = DEq(c.a, c.b) /\ out.ne = ~out.eq
                           /\ (c.b.k = "poly" /\ out.eq) => out.hashsame        \* equal polynomials hash equal
    [] kind = "mutc"    -> /\ c.target = "new" => out.orig = c.o                \* the copy is independent
                           /\ c.target = "orig" => out.new = VCopy(c.o, c.zarg)
                           /\ out.new.z = (IF c.zarg.given THEN c.zarg.z ELSE c.o.z)
    [] kind = "xobj"    -> XLaws(LawPts) /\ \A v \in LawPts : out.at[v] = v
    [] kind = "lagnames" -> \A pts \in LagSets : LagrangeAgree(pts, LawPts)
    [] kind = "log1p"   -> Log1pMatches(out, DMLog1p(c.x))
    [] kind = "fact"    -> FactLaws(c.x, out)
    [] kind = "db"      -> DbLaws(c.k, c.x, out)
    [] kind = "phase"   -> PhaseLaws(c.x, out)
    [] kind = "mathall" -> AllLaws(out)
    [] OTHER -> TRUE
============================================================================
