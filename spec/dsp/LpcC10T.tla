------------------------------ MODULE LpcC10T ------------------------------
(* C10, thorough tier.  Order 4 only on samples in {-1, 0, 1}: the definition layer squares residuals   *)
(* whose denominator is the determinant of the system, and 32-bit integers end at determinants of       *)
(* about 46000.                                                                                         *)
EXTENDS LpcC10
ThBlocks    == Blocks({-2, -1, 0, 1, 2}, {2, 3, 4}) \cup Blocks({-1, 1, 2}, {5})
SmBlocks    == Blocks({-1, 0, 1}, {4, 5})
C10Thorough == KaOf(ThBlocks, 3) \cup KaOf(SmBlocks, 4) \cup KaOf(RatBlocks, 2)
               \cup KcOf(ThBlocks, 3) \cup KcOf(SmBlocks, 4) \cup KcOf(RatBlocks, 2)
               \cup LdOf(RVecs, 5) \cup LdOf(RVecsRat, 3) \cup KlOf(KPool, {1, 2, 3, 4})
=============================================================================
