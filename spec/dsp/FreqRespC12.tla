---------------------------- MODULE FreqRespC12 ----------------------------
(* Case grids for C12.  Coefficient pools are small integers and 1/2 (exact as floats), asymmetric      *)
(* sequences included, so that a conjugated exponent, an off-by-one in k, a dropped normalisation or a   *)
(* product taken for a sum changes the value at w = pi/2.  Frequencies at which a denominator vanishes   *)
(* are kept only for w = 0 (the nan clause); see Covered in FreqResp.                                    *)
EXTENDS FreqResp

RSeqs(S, lens) == UNION {[1..n -> S] : n \in lens}
Half    == <<1, 2>>
I(s)    == [i \in DOMAIN s |-> R(s[i])]
Sec(b, a)       == [b |-> b, a |-> a, adv |-> 0]
SecAdv(b, a, v) == [b |-> b, a |-> a, adv |-> v]
Single(s)       == [comb |-> "single", secs |-> <<s>>]

AllMs == <<0, 1, 2, 3>>
\* the frequencies of AllMs the property covers for a filter
MsFor(f) == SelectSeq(AllMs, LAMBDA m : CoveredFilt(f, m))

BSmall == RSeqs({R(-1), R(0), R(1), R(2)}, {1, 2, 3})
BFull  == RSeqs({R(-2), R(-1), R(0), R(1), R(2)}, {1, 2, 3, 4})
ARec   == {<<R(a0)>> \o r : a0 \in {1, 2}, r \in RSeqs({R(-1), R(0), Half}, {0, 1, 2})}
ARecQ  == {<<R(a0)>> \o r : a0 \in {1, 2}, r \in RSeqs({R(-1), R(0), Half}, {0, 1})
                                                \cup {<<R(-1), Half>>, <<Half, Half>>, <<R(0), R(-1)>>, <<Half, R(-1)>>}}

\* --- freq_response of one LinearFilter, all covered frequencies in a list
FrSingle(B, A) == {[kind |-> "fr", filt |-> Single(Sec(b, a)), ms |-> MsFor(Single(Sec(b, a))), cont |-> "list"] :
                     b \in B, a \in A}

\* --- Laurent numerators (a positive power of z), sparse shapes, an empty numerator
Shapes == {Sec(I(<<1, 0, 0, 0, -1>>), I(<<1>>)), Sec(I(<<0, 0, 0, 2>>), I(<<2, 0, 0, 1>>)), Sec(<<>>, I(<<1, -1>>)),
           Sec(I(<<1, 2>>), <<R(1), RZero, RZero, Half>>), Sec(<<Half, R(1), R(-2)>>, I(<<-1, 0, 2>>)),
           Sec(I(<<0, 0>>), I(<<1>>)), Sec(I(<<1, -1, 1, -1, 1>>), I(<<2, 1>>))}
    \cup {SecAdv(b, a, v) : b \in {I(<<1, 2>>), I(<<0, 1, -1>>), I(<<2, 0, 1>>)}, a \in {I(<<1>>), I(<<2, -1>>)},
                            v \in {1, 2}}
FrShapes == {[kind |-> "fr", filt |-> Single(s), ms |-> MsFor(Single(s)), cont |-> "list"] : s \in Shapes}

\* --- containers of frequencies of every supported kind
ContFilts == {Single(Sec(I(<<1, 2, -1>>), <<R(2), R(-1)>>)), Single(Sec(I(<<1, -2>>), <<R(1), Half, Half>>)),
              [comb |-> "cascade", secs |-> <<Sec(I(<<1, 1>>), I(<<1>>)), Sec(I(<<1>>), <<R(1), Half>>)>>],
              [comb |-> "parallel", secs |-> <<Sec(I(<<1, 2>>), I(<<2>>)), Sec(I(<<0, 1>>), <<R(2), R(-1)>>)>>]}
OrdMs == {<<>>, <<2>>, <<3, 1, 1, 0>>, <<0, 1, 2, 3, 2, 1>>}
SetMs == {<<>>, <<1>>, <<0, 3, 2>>, <<3, 2, 1, 0>>}
FrCont == {[kind |-> "fr", filt |-> f, ms |-> ms, cont |-> ct] :
             f \in ContFilts, ms \in OrdMs, ct \in {"list", "tuple", "deque", "Stream", "generator", "map"}}
     \cup {[kind |-> "fr", filt |-> f, ms |-> ms, cont |-> ct] : f \in ContFilts, ms \in SetMs, ct \in SetKinds}
     \cup {[kind |-> "fr", filt |-> f, ms |-> <<m>>, cont |-> "scalar"] : f \in ContFilts, m \in 0..3}

\* --- cascades and parallel banks of 2 and 3 sections
SecPoolQ == {Sec(I(<<1, 1>>), I(<<1>>)), Sec(I(<<1, -2>>), I(<<2>>)), Sec(I(<<0, 1>>), <<R(1), Half>>),
             Sec(I(<<2>>), I(<<1, -1>>)), Sec(I(<<1, 0, -1>>), <<R(2), R(0), Half>>), Sec(I(<<1, -1>>), I(<<1>>)),
             SecAdv(I(<<1, 2>>), I(<<1>>), 1)}
SecPoolT == SecPoolQ \cup {Sec(I(<<-1, 2, 1>>), <<R(2), R(-1)>>), Sec(<<Half, R(-1)>>, I(<<1, 0, -1>>)),
                           Sec(I(<<0, 0, 1>>), I(<<1>>)), Sec(<<>>, I(<<1>>)), Sec(I(<<2, 1>>), <<R(1), Half, Half>>)}
Comb(f) == [kind |-> "fr", filt |-> f, ms |-> MsFor(f), cont |-> "list"]
FrComb2(P) == {Comb([comb |-> cb, secs |-> <<s, t>>]) : cb \in {"cascade", "parallel"}, s \in P, t \in P}
FrComb3(P) == {Comb([comb |-> cb, secs |-> <<s, t, u>>]) : cb \in {"cascade", "parallel"}, s \in P, t \in P, u \in P}
FrComb1(P) == {Comb([comb |-> cb, secs |-> <<s>>]) : cb \in {"cascade", "parallel"}, s \in P}
Pool3Q == {Sec(I(<<1, 1>>), I(<<1>>)), Sec(I(<<0, 1>>), <<R(1), Half>>), Sec(I(<<2>>), I(<<1, -1>>)),
           Sec(I(<<1, -2>>), I(<<2>>))}

\* --- time domain: FIR filters fed a complex exponential / an impulse
TdA(B, A0) == {[kind |-> "td", sec |-> Sec(b, <<R(a0)>>), m |-> m, sig |-> sg] :
                 b \in B, a0 \in A0, m \in 0..3, sg \in {"exp", "imp"}}
Td(B) == TdA(B, {1, 2})
BTdQ == RSeqs({R(-1), R(0), R(1), R(2)}, {1, 2, 3}) \cup {I(<<1, -2, 0, 2>>), I(<<0, 0, 0, 1>>), <<Half, R(1), R(-1), Half>>,
                                                        <<>>}

\* --- dft blocks
XPoolQ == {CInt(-1, 0), CInt(0, 0), CInt(1, 0), CInt(2, 0), CInt(0, 1), CInt(1, -1)}
XPoolT == XPoolQ \cup {CReal(Half), CInt(-2, 1)}
NoLin  == [lin |-> FALSE, y |-> <<>>, al |-> RZero, be |-> RZero]
DftCase(x, ms, nm) == [kind |-> "dft", x |-> x, ms |-> ms, norm |-> nm, lin |-> FALSE, y |-> <<>>, al |-> RZero, be |-> RZero]
DftBlocks(P, lens) == {DftCase(x, AllMs, nm) : x \in UNION {[1..n -> P] : n \in lens}, nm \in BOOLEAN}
DftLong == {DftCase(x, ms, nm) :
              x \in {[n \in 1..5 |-> CInt(n, 0)], [n \in 1..6 |-> CInt(n % 3, 1 - n)], [n \in 1..8 |-> UnitJ(n)],
                     [n \in 1..7 |-> CReal(<<n, 2>>)]},
              ms \in {AllMs, <<>>, <<3, 3, 0>>}, nm \in BOOLEAN}
     \cup {DftCase(<<>>, AllMs, FALSE)}
DftLin(P, lens) ==
  {[kind |-> "dft", x |-> x, ms |-> AllMs, norm |-> nm, lin |-> TRUE, y |-> y, al |-> al, be |-> be] :
     x \in UNION {[1..n -> P] : n \in lens}, y \in {[n \in 1..3 |-> CInt(n, -1)], [n \in 1..3 |-> CInt(0, n - 2)]},
     nm \in BOOLEAN, al \in {R(2), R(-1)}, be \in {R(1), R(-3), Half}}

Only(S) == {c \in S : Covered(c)}

\* The grids take the tier as a parameter on purpose: TLC evaluates every parameterless constant definition
\* at start-up, whichever configuration is run (the thorough grid would be built in a quick run).
Grid(tier) ==
  IF tier = "quick"
  THEN Only(FrSingle(BSmall, ARecQ) \cup FrShapes \cup FrCont \cup FrComb1(SecPoolQ) \cup FrComb2(SecPoolQ)
            \cup FrComb3(Pool3Q) \cup TdA(BTdQ, {1}) \cup TdA(RSeqs({R(-1), R(1), R(2)}, {1, 2}), {2}) \cup DftBlocks(XPoolQ, {1, 2, 3}) \cup DftLong
            \cup DftLin({CInt(1, 0), CInt(0, 1), CInt(-1, 2)}, {3}))
  ELSE Only(FrSingle(BFull, ARec) \cup FrShapes \cup FrCont \cup FrComb1(SecPoolT) \cup FrComb2(SecPoolT)
            \cup FrComb3(SecPoolQ) \cup Td(BFull \cup BTdQ) \cup DftBlocks(XPoolT, {1, 2, 3, 4}) \cup DftLong
            \cup DftLin(XPoolQ, {3}))
============================================================================
