---------------------------- MODULE FreqRespC12 ----------------------------
(* Case grids for C12.  Coefficient pools are small integers and 1/2 (exact as floats), asymmetric      *)
(* sequences included, so that a conjugated exponent, an off-by-one in k, a dropped normalisation or a   *)
(* product taken for a sum changes the value at w = pi/2.  Frequencies at which a denominator vanishes   *)
(* are kept only for w = 0 (the nan clause); see Covered in FreqResp.                                    *)
(*                                                                                                       *)
(* A grid is a function from group keys to sets of cases (FreqResp.Cases).  A group key is a record      *)
(* [t |-> kind of group, b |-> numerator (rationals), x |-> leading block samples, n |-> number] with    *)
(* the same fields in every group.  Everything that builds many cases takes a parameter: TLC evaluates   *)
(* every parameterless definition at start-up.                                                           *)
EXTENDS FreqResp

RSeqs(S, lens) == UNION {[1..n -> S] : n \in lens}
Half    == <<1, 2>>
I(s)    == [i \in DOMAIN s |-> R(s[i])]
Sec(b, a)       == [b |-> b, a |-> a, adv |-> 0]
SecAdv(b, a, v) == [b |-> b, a |-> a, adv |-> v]
Single(s)       == [comb |-> "single", secs |-> <<s>>]
Key(t, b, x, n) == [t |-> t, b |-> b, x |-> x, n |-> n]

AllMs == <<0, 1, 2, 3>>
\* the frequencies of AllMs the property covers for a filter
MsFor(f) == SelectSeq(AllMs, LAMBDA m : CoveredFilt(f, m))
FrList(f) == [kind |-> "fr", filt |-> f, ms |-> MsFor(f), cont |-> "list"]

BPool(tier) == IF tier = "quick" THEN RSeqs({R(-1), R(0), R(1), R(2)}, {1, 2, 3})
               ELSE RSeqs({R(-2), R(-1), R(0), R(1), R(2)}, {1, 2, 3, 4})
APool(tier) == IF tier = "quick"
               THEN {<<R(a0)>> \o r : a0 \in {1, 2}, r \in RSeqs({R(-1), R(0), Half}, {0, 1})
                                        \cup {<<R(-1), Half>>, <<Half, Half>>, <<R(0), R(-1)>>, <<Half, R(-1)>>}}
               ELSE {<<R(a0)>> \o r : a0 \in {1, 2}, r \in RSeqs({R(-1), R(0), Half}, {0, 1, 2})}

\* --- freq_response of one LinearFilter b/a, all covered frequencies in a list      (group: the numerator b)
FrSingleOf(b, tier) == {FrList(Single(Sec(b, a))) : a \in APool(tier)}

\* --- Laurent numerators (a positive power of z), sparse shapes, an empty numerator
Shapes(u) == {Sec(I(<<1, 0, 0, 0, -1>>), I(<<1>>)), Sec(I(<<0, 0, 0, 2>>), I(<<2, 0, 0, 1>>)), Sec(<<>>, I(<<1, -1>>)),
              Sec(I(<<1, 2>>), <<R(1), RZero, RZero, Half>>), Sec(<<Half, R(1), R(-2)>>, I(<<-1, 0, 2>>)),
              Sec(I(<<0, 0>>), I(<<1>>)), Sec(I(<<1, -1, 1, -1, 1>>), I(<<2, 1>>))}
    \cup {SecAdv(b, a, v) : b \in {I(<<1, 2>>), I(<<0, 1, -1>>), I(<<2, 0, 1>>)}, a \in {I(<<1>>), I(<<2, -1>>)},
                            v \in {1, 2}}
FrShapes(u) == {FrList(Single(s)) : s \in Shapes(u)}

\* --- containers of frequencies of every supported kind
ContFilts(u) == {Single(Sec(I(<<1, 2, -1>>), <<R(2), R(-1)>>)), Single(Sec(I(<<1, -2>>), <<R(1), Half, Half>>)),
                 [comb |-> "cascade", secs |-> <<Sec(I(<<1, 1>>), I(<<1>>)), Sec(I(<<1>>), <<R(1), Half>>)>>],
                 [comb |-> "parallel", secs |-> <<Sec(I(<<1, 2>>), I(<<2>>)), Sec(I(<<0, 1>>), <<R(2), R(-1)>>)>>]}
OrdMs == {<<>>, <<2>>, <<3, 1, 1, 0>>, <<0, 1, 2, 3, 2, 1>>}
SetMs == {<<>>, <<1>>, <<0, 3, 2>>, <<3, 2, 1, 0>>}
FrCont(u) ==
       {[kind |-> "fr", filt |-> f, ms |-> ms, cont |-> ct] :
             f \in ContFilts(u), ms \in OrdMs, ct \in {"list", "tuple", "deque", "Stream", "generator", "map"}}
  \cup {[kind |-> "fr", filt |-> f, ms |-> ms, cont |-> ct] : f \in ContFilts(u), ms \in SetMs, ct \in SetKinds}
  \cup {[kind |-> "fr", filt |-> f, ms |-> <<m>>, cont |-> "scalar"] : f \in ContFilts(u), m \in 0..3}

\* --- cascades and parallel banks of 1, 2 and 3 sections
SecPoolQ == {Sec(I(<<1, 1>>), I(<<1>>)), Sec(I(<<1, -2>>), I(<<2>>)), Sec(I(<<0, 1>>), <<R(1), Half>>),
             Sec(I(<<2>>), I(<<1, -1>>)), Sec(I(<<1, 0, -1>>), <<R(2), R(0), Half>>), Sec(I(<<1, -1>>), I(<<1>>)),
             SecAdv(I(<<1, 2>>), I(<<1>>), 1)}
SecPoolT == SecPoolQ \cup {Sec(I(<<-1, 2, 1>>), <<R(2), R(-1)>>), Sec(<<Half, R(-1)>>, I(<<1, 0, -1>>)),
                           Sec(I(<<0, 0, 1>>), I(<<1>>)), Sec(<<>>, I(<<1>>)), Sec(I(<<2, 1>>), <<R(1), Half, Half>>)}
Pool3Q   == {Sec(I(<<1, 1>>), I(<<1>>)), Sec(I(<<0, 1>>), <<R(1), Half>>), Sec(I(<<2>>), I(<<1, -1>>)),
             Sec(I(<<1, -2>>), I(<<2>>))}
Combs == {"cascade", "parallel"}
FrComb1(P) == {FrList([comb |-> cb, secs |-> <<s>>]) : cb \in Combs, s \in P}
FrComb2(P) == {FrList([comb |-> cb, secs |-> <<s, t>>]) : cb \in Combs, s \in P, t \in P}
FrComb3(P) == {FrList([comb |-> cb, secs |-> <<s, t, u>>]) : cb \in Combs, s \in P, t \in P, u \in P}

\* --- time domain: FIR filters fed a complex exponential / an impulse               (group: the numerator b)
TdOf(b, A0) == {[kind |-> "td", sec |-> Sec(b, <<R(a0)>>), m |-> m, sig |-> sg] :
                  a0 \in A0, m \in 0..3, sg \in {"exp", "imp"}}
BTdExtra == {I(<<1, -2, 0, 2>>), I(<<0, 0, 0, 1>>), <<Half, R(1), R(-1), Half>>, <<>>}
TdA0(b, tier) == IF tier = "thorough" \/ (Len(b) \in {1, 2} /\ \A i \in DOMAIN b : b[i] # RZero) THEN {1, 2} ELSE {1}

\* --- dft blocks                                                    (group: first sample and block length)
XPool(tier) == {CInt(-1, 0), CInt(0, 0), CInt(1, 0), CInt(2, 0), CInt(0, 1), CInt(1, -1)}
               \cup (IF tier = "quick" THEN {} ELSE {CReal(Half), CInt(-2, 1)})
XLens(tier) == IF tier = "quick" THEN {1, 2, 3} ELSE {1, 2, 3, 4}
DftCase(x, ms, nm) == [kind |-> "dft", x |-> x, ms |-> ms, norm |-> nm, lin |-> FALSE, y |-> <<>>, al |-> RZero, be |-> RZero]
DftBlocksOf(x1, n, tier) == {DftCase(<<x1>> \o r, AllMs, nm) : r \in [1..(n - 1) -> XPool(tier)], nm \in BOOLEAN}
DftLong(u) == {DftCase(x, ms, nm) :
                 x \in {[n \in 1..5 |-> CInt(n, 0)], [n \in 1..6 |-> CInt(n % 3, 1 - n)], [n \in 1..8 |-> UnitJ(n)],
                        [n \in 1..7 |-> CReal(<<n, 2>>)]},
                 ms \in {AllMs, <<>>, <<3, 3, 0>>}, nm \in BOOLEAN}
     \cup {DftCase(<<>>, AllMs, FALSE)}
DftLin(P) ==
  {[kind |-> "dft", x |-> x, ms |-> AllMs, norm |-> nm, lin |-> TRUE, y |-> y, al |-> al, be |-> be] :
     x \in [1..3 -> P], y \in {[n \in 1..3 |-> CInt(n, -1)], [n \in 1..3 |-> CInt(0, n - 2)]},
     nm \in BOOLEAN, al \in {R(2), R(-1)}, be \in {R(1), R(-3), Half}}

Only(S) == {c \in S : Covered(c)}

\* the group keys of a tier and the cases of a group
Groups(tier) ==
       {Key("frsingle", b, <<>>, 0) : b \in BPool(tier)}
  \cup {Key("td", b, <<>>, 0) : b \in BPool(tier) \cup BTdExtra}
  \cup {Key("dft", <<>>, <<x1>>, n) : x1 \in XPool(tier), n \in XLens(tier)}
  \cup {Key("misc", <<>>, <<>>, n) : n \in 1..7}

CasesOf(g, tier) ==
  Only(CASE g.t = "frsingle" -> FrSingleOf(g.b, tier)
         [] g.t = "td"       -> TdOf(g.b, TdA0(g.b, tier))
         [] g.t = "dft"      -> DftBlocksOf(g.x[1], g.n, tier)
         [] g.t = "misc"     ->
              CASE g.n = 1 -> FrShapes(0)
                [] g.n = 2 -> FrCont(0)
                [] g.n = 3 -> FrComb1(IF tier = "quick" THEN SecPoolQ ELSE SecPoolT)
                [] g.n = 4 -> FrComb2(IF tier = "quick" THEN SecPoolQ ELSE SecPoolT)
                [] g.n = 5 -> FrComb3(IF tier = "quick" THEN Pool3Q ELSE SecPoolQ)
                [] g.n = 6 -> DftLong(0)
                [] g.n = 7 -> DftLin(IF tier = "quick" THEN {CInt(1, 0), CInt(0, 1), CInt(-1, 2)} ELSE XPool("quick")))

\* the grid of a tier: a function that TLC keeps unevaluated until a group is picked
Grid(tier) == [g \in Groups(tier) |-> CasesOf(g, tier)]
============================================================================
