CONSTANTS
  Cases <- X04Quick
  NegPowRefuses = FALSE
INIT Init
NEXT Next
INVARIANT Refines
INVARIANT Laws
CHECK_DEADLOCK FALSE
