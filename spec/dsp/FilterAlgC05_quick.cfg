CONSTANTS
  Tier = "quick"
  MaxLen = 5
  Cases <- C05Cases
INIT Init
NEXT Next
INVARIANT TreeValue
INVARIANT FieldLaws
INVARIANT EqNeHash
INVARIANT SystemAlgebra
INVARIANT CascadeParallel
CHECK_DEADLOCK FALSE
