------------------------------ MODULE LpcC11 ------------------------------
(* Case grid operators for C11 (the grids themselves: LpcC11Q.tla, LpcC11T.tla): reflection-coefficient vectors (inside, outside and on the unit circle,  *)
(* zeros in non-final positions) stepped up and down again; the same vectors inside (-1,1)      *)
(* turned into an autocorrelation, run through Levinson and stepped down; denominators built    *)
(* from real and complex-conjugate rational roots inside / on / outside the unit circle with    *)
(* every gain.                                                                                  *)
EXTENDS Lpc

Q(n, d)   == Norm(n, d)
KIn       == {Q(1, 2), Q(-1, 2), Q(1, 3), Q(-1, 3), Q(1, 4), R(0)}
KAll      == KIn \cup {R(2), Q(-3, 2), R(1), R(-1)}
KsOf(P, lens) == {s \in UNION {[1..n -> P] : n \in lens} : s[Len(s)] # RZero}

\* real roots: 0, inside, on, outside;  complex pairs: |c|^2 = 1/2, 1 (on the circle), 2, 1/4
RootPool  == <<R(0), Q(1, 2), Q(-1, 2), Q(2, 3), R(1), R(-1), Q(3, 2), Q(-3, 2)>>
CplxPool  == <<<<Q(1, 2), Q(1, 2)>>, <<Q(3, 5), Q(4, 5)>>, <<R(1), R(1)>>, <<R(0), Q(1, 2)>>>>
Gains     == {R(1), R(-1), R(2), R(4), Q(1, 2), Q(-1, 3)}
\* multisets as non-decreasing index sequences
MSets(n, k) == {s \in [1..k -> 1..n] : \A i \in 1..(k - 1) : s[i] <= s[i + 1]}
\* (+-1/2, 2/3, 2/3, 2/3): the exact step-down leaves 32-bit integers; the only multisets left out
TooBig == {<<2, 4, 4, 4>>, <<3, 4, 4, 4>>}
RootSets(maxorder) ==
  UNION {UNION {{<<[i \in 1..nr |-> RootPool[s[i]]], [i \in 1..nc |-> CplxPool[t[i]]]>> :
                     s \in MSets(Len(RootPool), nr) \ TooBig, t \in MSets(Len(CplxPool), nc)}
                : nr \in 0..(maxorder - 2 * nc)}
         : nc \in 0..(maxorder \div 2)}
StOf(maxorder, G) == {CaseSt(rs[1], rs[2], g) : rs \in RootSets(maxorder), g \in G}

\* the tier grids are single definitions in LpcC11Q / LpcC11T (TLC builds every parameterless definition of
\* every loaded module at start-up, so the big sets live in the module of the tier that uses them)
===========================================================================
