-------------------------------- MODULE Ola --------------------------------
(***************************************************************************)
(* audiolazy.lazy_analysis.overlap_add.list   (property C09, first half).  *)
(*                                                                         *)
(* Operational layer (lazy_analysis.py:809-862), one action per stage:     *)
(*   Resolve      size detection from the first block when size is not     *)
(*                given, hop defaulting to size, window resolution and     *)
(*                normalisation (CodeWindow), mem = size zeros             *)
(*   EmptyUnknown no size given and no block at all: nothing to add        *)
(*   AddBlock     window the block, mem[:s_h] = mem[hop:] + blk,           *)
(*                mem[s_h:] = rest, emit mem[:hop]                         *)
(*   Flush        no more blocks: emit mem[hop:]                           *)
(* Definition layer: OlaDef!DefOla (windowed hop-shifted sum), Cola,       *)
(* Covered.  The blocks are either given (src = "blocks") or are the       *)
(* blocks of a signal (src = "sig": BlocksDef!DefBlocks, zero padded), so  *)
(* that "overlap-add inverts blocking" is a statement about this machine.  *)
(***************************************************************************)
EXTENDS OlaDef, TLC

CONSTANT Cases
(* a case: [src |-> "blocks", data |-> <<block, ..>>   (block = <<linear form, ..>> of length size)  *)
(*          or src |-> "sig", data |-> <<linear form, ..>>  (the signal; blocks = blocks(data, size, hop)) *)
(*          ns |-> number of symbols, size |-> 1.., hop |-> 0..size (0: not given = size),           *)
(*          w |-> <<rational, ..>> of length size or <<>> (no window), norm |-> BOOLEAN,             *)
(*          sizeGiven |-> BOOLEAN (FALSE: the code finds the size from the first block)]             *)

Hop(c)    == EffHop(c.size, c.hop)
BlocksOf(c) ==
  IF c.src = "blocks" THEN c.data
  ELSE DefBlocks(Len(c.data), c.size, Hop(c), LAMBDA i : c.data[i], LZero(c.ns))
M(c)      == Len(BlocksOf(c))
\* without a size and without a single block the output length m*h+size-h is only determined (= 0)
\* when the hop is not given either
InScope(c) == c.sizeGiven \/ M(c) > 0 \/ c.hop = 0

VARIABLES case, nb, mem, win, out, pc, aux
vars == <<case, nb, mem, win, out, pc, aux>>

Init == /\ case \in Cases
        /\ nb = 0 /\ mem = <<>> /\ win = <<>> /\ out = <<>> /\ pc = "start"
        /\ aux = [cola |-> Cola(case.w, case.size, Hop(case), case.norm),
                  g    |-> DefG(case.w, case.size, Hop(case), case.norm),
                  m    |-> M(case)]

EmptyUnknown == /\ pc = "start" /\ ~case.sizeGiven /\ M(case) = 0
                /\ pc' = "done"
                /\ UNCHANGED <<case, nb, mem, win, out, aux>>

Resolve == /\ pc = "start" /\ (case.sizeGiven \/ M(case) > 0)
           /\ LET size == IF case.sizeGiven THEN case.size ELSE Len(BlocksOf(case)[1]) IN
              /\ win' = CodeWindow(case.w, size, Hop(case), case.norm)
              /\ mem' = ZeroMem(size, case.ns)
           /\ pc' = "run"
           /\ UNCHANGED <<case, nb, out, aux>>

AddBlock == /\ pc = "run" /\ nb < M(case)
            /\ LET blk == ApplyWnd(win, BlocksOf(case)[nb + 1])
                   m2  == OlaStep(mem, blk, case.size, Hop(case))
               IN /\ mem' = m2
                  /\ out' = out \o SubSeq(m2, 1, Hop(case))
            /\ nb' = nb + 1
            /\ UNCHANGED <<case, win, pc, aux>>

Flush == /\ pc = "run" /\ nb = M(case)
         /\ out' = out \o SubSeq(mem, Hop(case) + 1, case.size)
         /\ pc' = "done"
         /\ UNCHANGED <<case, nb, mem, win, aux>>

Next == EmptyUnknown \/ Resolve \/ AddBlock \/ Flush
Spec == Init /\ [][Next]_vars

-----------------------------------------------------------------------------
Expected(c) ==
  IF ~c.sizeGiven /\ M(c) = 0 THEN <<>>
  ELSE DefOla(BlocksOf(c), c.size, Hop(c), c.w, c.norm, c.ns)

Prefix(s, t) == Len(s) <= Len(t) /\ \A i \in 1..Len(s) : s[i] = t[i]

ScopeOK == InScope(case)

\* THE property: the samples emitted so far are the first nb*h samples of the windowed hop-shifted
\* sum, and the finished run is exactly that sum (m*h+size-h samples)
OlaRefine ==
  /\ Prefix(out, Expected(case))
  /\ pc = "run"  => Len(out) = nb * Hop(case)
  /\ pc = "done" => out = Expected(case)

OlaLength == pc = "done" /\ (case.sizeGiven \/ M(case) > 0)
               => Len(out) = M(case) * Hop(case) + case.size - Hop(case)

\* the window the code multiplies in is g*w of the definition (both gain computations agree)
WindowLayers ==
  pc = "run" => \A j \in 1..case.size :
                   (IF win = <<>> THEN ROne ELSE win[j]) = RMul(aux.g, DefW(case.w, j))

\* mem holds the partial sums of the samples that are still open
MemInv ==
  pc = "run" /\ nb > 0 =>
    \A j \in 1..case.size :
       mem[j] = DefSample(BlocksOf(case), nb, (nb - 1) * Hop(case) + j, case.size, Hop(case),
                          case.w, aux.g, case.ns)

\* overlap-add inverts blocking: if the hop-shifted copies of g*w sum to one, every fully covered
\* sample of the signal comes back
ColaInversion ==
  pc = "done" /\ case.src = "sig" /\ aux.cola =>
    \A n \in 1..Len(case.data) : Covered(n, M(case), case.size, Hop(case)) => out[n] = case.data[n]
=============================================================================
