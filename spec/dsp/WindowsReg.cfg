CONSTANTS
  ShareAllNames = TRUE
INIT GInit
NEXT GNext
INVARIANT CrossRefs
INVARIANT AliasesShare
INVARIANT SharedIffNotDistinct
INVARIANT ModelsDiffer
INVARIANT NoOtherNames
INVARIANT DictLevel
CHECK_DEADLOCK FALSE
