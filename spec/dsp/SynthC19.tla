----------------------------- MODULE SynthC19 -----------------------------
(* Case grids for C19.  Every special case the code branches on is in the quick grid:          *)
(* modulo_counter: all 8 number/stream combinations, step = 0, negative steps, steps that are  *)
(* multiples of the modulo, int(modulo/step) = 0, 1, 2, >2 (fast path on/off), streams of      *)
(* different lengths (the counter ends with the shortest), time-varying start/modulo/step;     *)
(* durations 0, fractional (< 1/2, = 1/2, k + 1/2), integer, inf, None; zero-length envelope   *)
(* segments; table positions on and between entries and across the wrap; resampling ratios     *)
(* below / at / above 1, orders 1..3, inputs shorter than the first window.                    *)
EXTENDS Synth

Q(a, b)   == Norm(a, b)
Rs(S)     == {Q(p[1], p[2]) : p \in S}
KS(v, L)  == Str([i \in 1..L |-> v])                       \* constant stream of L items
Kinds(v, L) == {Num(v), KS(v, L)}
AllKinds(S, L) == UNION {Kinds(v, L) : v \in S}

\* ---- modulo_counter ----------------------------------------------------------------------
McCase(s, m, d) == [gen |-> "mc", cap |-> 6, start |-> s, modulo |-> m, step |-> d]
McConst(S, M, D) == {McCase(s, m, d) : s \in AllKinds(S, 5), m \in AllKinds(M, 6), d \in AllKinds(D, 4)}
VStart == {Str(<<R(0), Q(1, 2), Q(1, 2), R(3), R(-1), R(2)>>), Str(<<R(1), R(1), R(1)>>), Str(<<>>),
           Num(Q(1, 2)), Num(Q(-5, 4))}
VMod   == {Str(<<R(2), R(3), Q(3, 2), R(1), R(4), R(2)>>), Str(<<R(3), R(3)>>), Num(R(2)), Num(Q(3, 2))}
VStep  == {Str(<<R(1), Q(-1, 2), Q(3, 2), R(0), R(2), Q(1, 4)>>), Str(<<Q(1, 2)>>), Str(<<>>),
           Num(Q(1, 2)), Num(R(0)), Num(Q(-3, 4))}
McVar  == {McCase(s, m, d) : s \in VStart, m \in VMod, d \in VStep}
\* non-dyadic values: only with a number as start (the code's accumulator is then exact with Fractions)
McThirds == {McCase(Num(s), m, d) : s \in Rs({<<1, 3>>, <<-7, 3>>}),
                                    m \in {Num(Q(5, 3)), Num(R(1)), KS(Q(5, 3), 6), Str(<<Q(5, 3), R(1), Q(2, 3), R(2)>>)},
                                    d \in {Num(Q(1, 3)), Num(Q(2, 3)), Num(Q(-1, 3)), Num(Q(10, 3)), Num(Q(1, 6)),
                                           KS(Q(1, 3), 5), Str(<<Q(1, 3), Q(-2, 3), R(1), Q(5, 6)>>)}}

SQ == Rs({<<0, 1>>, <<1, 2>>, <<-5, 4>>, <<7, 2>>})
MQ == Rs({<<1, 1>>, <<3, 2>>, <<4, 1>>})
DQ == Rs({<<0, 1>>, <<1, 4>>, <<1, 2>>, <<1, 1>>, <<3, 2>>, <<-1, 2>>, <<-3, 2>>, <<3, 1>>, <<4, 1>>, <<8, 1>>})
ST == SQ \cup Rs({<<4, 1>>, <<-3, 1>>})
MT == MQ \cup Rs({<<1, 2>>, <<5, 2>>, <<3, 1>>})
DT == DQ \cup Rs({<<1, 8>>, <<3, 4>>, <<-1, 4>>, <<-4, 1>>, <<5, 2>>, <<2, 1>>, <<6, 1>>, <<9, 2>>})

\* ---- line, ones/zeros, impulse, noise ------------------------------------------------------
DurPool  == Rs({<<0, 1>>, <<1, 4>>, <<1, 2>>, <<1, 1>>, <<3, 2>>, <<2, 1>>, <<5, 2>>, <<3, 1>>, <<13, 4>>, <<4, 1>>})
LineGrid(Ds, B, E) ==
  {c \in {[gen |-> "line", cap |-> 6, dur |-> d, begin |-> b, end |-> e, fin |-> f] :
             d \in Ds, b \in B, e \in E, f \in BOOLEAN} : Covered(c)}
Durs(Ds) == {DNum(v) : v \in Ds} \cup {DInf, DNone}
ConstGrid(Ds) == {[gen |-> "const", cap |-> 6, which |-> w, dur |-> d] : w \in {"ones", "zeros"}, d \in Durs(Ds)}
ImpulseGrid(Ds) == {[gen |-> "impulse", cap |-> 6, dur |-> d, one |-> p[1], zero |-> p[2]] :
                       d \in Durs(Ds), p \in {<<R(1), R(0)>>, <<Q(-3, 2), Q(1, 4)>>}}
NoiseGrid(Ds) == {[gen |-> "noise", cap |-> 6, which |-> "white", dur |-> d, low |-> p[1], high |-> p[2]] :
                       d \in Durs(Ds), p \in {<<R(-1), R(1)>>, <<R(0), Q(1, 2)>>, <<R(2), R(2)>>}}
                 \cup {[gen |-> "noise", cap |-> 6, which |-> "gauss", dur |-> d, low |-> R(-1), high |-> R(1)] :
                       d \in Durs(Ds)}

\* ---- envelopes -----------------------------------------------------------------------------
AdsrGrid(Du, A, D, S, Rr) ==
  {c \in {[gen |-> "adsr", cap |-> 8, dur |-> du, a |-> a, d |-> d, s |-> s, r |-> r] :
             du \in Du, a \in A, d \in D, s \in S, r \in Rr} : Covered(c)}
AttackGrid(A, D) ==
  {[gen |-> "attack", cap |-> 7, a |-> a, d |-> d, s |-> s] :
      a \in A, d \in D, s \in {Num(Q(1, 2)), Num(R(0)), Str(<<Q(1, 2), Q(1, 4), R(0)>>), Str(<<Q(1, 2)>>)}}

\* ---- table lookup --------------------------------------------------------------------------
TlGrid(Sz, P, D) == {[gen |-> "tl", cap |-> 6, size |-> z, part |-> p, step |-> d] : z \in Sz, p \in P, d \in D}
TlGetGrid(Sz, I) == {[gen |-> "tlget", cap |-> 2, size |-> z, idx |-> i] : z \in Sz, i \in I}
TlPart == {Num(R(0)), Num(Q(1, 2)), Num(Q(9, 4)), Str(<<R(0), Q(1, 2), Q(1, 2), R(3), R(1), R(1)>>)}
TlStepQ == {Num(Q(1, 4)), Num(Q(1, 2)), Num(R(1)), Num(Q(3, 2)), Num(Q(-1, 2)), Num(R(0)), Num(R(6)),
            Str(<<R(1), Q(1, 2), Q(-1, 2), R(0), Q(3, 2)>>)}
TlIdx  == Rs({<<0, 1>>, <<1, 2>>, <<1, 1>>, <<7, 4>>, <<2, 1>>, <<9, 2>>, <<5, 1>>, <<27, 4>>})

\* ---- resample, karplus_strong --------------------------------------------------------------
RsGrid(Lens, Ratios, Orders) ==
  {[gen |-> "rs", cap |-> 20, len |-> l, old |-> R(q[1]), new |-> R(q[2]), order |-> p, zero |-> z] :
      l \in Lens, q \in Ratios, p \in Orders, z \in {"sym", "num"}}
RatiosQ == {<<1, 1>>, <<1, 2>>, <<2, 1>>, <<3, 2>>, <<2, 3>>}
KsGrid(Dl, Al) == {[gen |-> "ks", cap |-> 6, delay |-> d, alpha |-> a] : d \in Dl, a \in Al}

\* ---- the two tiers -------------------------------------------------------------------------
C19Quick ==
  McConst(SQ, MQ, DQ) \cup McVar \cup McThirds
  \cup LineGrid(DurPool, Rs({<<0, 1>>, <<1, 1>>, <<-1, 2>>}), Rs({<<1, 1>>, <<0, 1>>, <<3, 2>>}))
  \cup ConstGrid(DurPool) \cup ImpulseGrid(DurPool) \cup NoiseGrid(DurPool)
  \cup AdsrGrid(Rs({<<4, 1>>, <<9, 2>>}), Rs({<<0, 1>>, <<1, 2>>, <<3, 2>>}), Rs({<<0, 1>>, <<1, 1>>, <<2, 1>>}),
                Rs({<<1, 2>>, <<0, 1>>}), Rs({<<0, 1>>, <<1, 1>>, <<3, 2>>}))
  \cup AttackGrid(Rs({<<0, 1>>, <<1, 2>>, <<1, 1>>, <<2, 1>>}), Rs({<<0, 1>>, <<1, 1>>, <<3, 2>>}))
  \cup TlGrid({2, 3, 5}, TlPart, TlStepQ) \cup TlGetGrid({2, 3, 5}, TlIdx)
  \cup RsGrid(0..6, RatiosQ, 1..3)
  \cup KsGrid(Rs({<<1, 1>>, <<2, 1>>, <<5, 2>>, <<3, 1>>, <<13, 4>>, <<7, 2>>}), Rs({<<1, 1>>, <<1, 2>>, <<3, 4>>}))

C19Thorough ==
  McConst(ST, MT, DT) \cup McVar \cup McThirds
  \cup LineGrid(DurPool \cup Rs({<<1, 3>>, <<7, 3>>, <<5, 1>>}),
                Rs({<<0, 1>>, <<1, 1>>, <<-1, 2>>, <<1, 3>>}), Rs({<<1, 1>>, <<0, 1>>, <<3, 2>>, <<-2, 1>>}))
  \cup ConstGrid(DurPool) \cup ImpulseGrid(DurPool) \cup NoiseGrid(DurPool)
  \cup AdsrGrid(Rs({<<4, 1>>, <<9, 2>>, <<6, 1>>}), Rs({<<0, 1>>, <<1, 2>>, <<1, 1>>, <<3, 2>>, <<2, 1>>}),
                Rs({<<0, 1>>, <<1, 2>>, <<1, 1>>, <<2, 1>>}), Rs({<<0, 1>>, <<1, 2>>, <<1, 1>>}),
                Rs({<<0, 1>>, <<1, 1>>, <<3, 2>>, <<2, 1>>}))
  \cup AttackGrid(Rs({<<0, 1>>, <<1, 2>>, <<1, 1>>, <<3, 2>>, <<2, 1>>, <<3, 1>>}), Rs({<<0, 1>>, <<1, 2>>, <<1, 1>>, <<3, 2>>, <<3, 1>>}))
  \cup TlGrid({2, 3, 4, 5}, TlPart \cup {Num(Q(-3, 4)), Num(R(7))},
              TlStepQ \cup {Num(Q(3, 4)), Num(Q(-5, 4)), Num(R(5)), Num(Q(5, 2))})
  \cup TlGetGrid({2, 3, 4, 5}, TlIdx \cup Rs({<<1, 4>>, <<3, 1>>, <<15, 4>>, <<10, 1>>, <<21, 2>>}))
  \cup RsGrid(0..6, RatiosQ \cup {<<3, 4>>, <<4, 3>>, <<1, 3>>, <<5, 2>>}, 1..4)
  \cup KsGrid(Rs({<<1, 1>>, <<2, 1>>, <<5, 2>>, <<3, 1>>, <<13, 4>>, <<7, 2>>, <<4, 1>>, <<9, 4>>}),
              Rs({<<1, 1>>, <<1, 2>>, <<3, 4>>, <<1, 4>>}))
============================================================================
