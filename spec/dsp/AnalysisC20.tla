---------------------------- MODULE AnalysisC20 ----------------------------
(* Case grids for C20.  Linear tools: every strategy x window size x zero kind on symbolic samples  *)
(* x1..xMaxLen (one run = every input of that length).  Non-linear tools: every input of length     *)
(* <= len over the pool (the machine draws the next sample from the pool), crossed with the         *)
(* parameter sets below.  The pools contain every position relative to the thresholds the code      *)
(* compares with: below / at / inside / at / above the hysteresis band and the clip limits, jumps   *)
(* below / at / above max_delta, residues 0, < step/2, = step/2 (the tie) and > step/2.             *)
EXTENDS Analysis

Q(a, b) == Norm(a, b)
P3  == {R(-1), RZero, Half}
P4  == {R(-1), RZero, Half, R(2)}
P5  == {R(-2), Q(-1, 2), RZero, R(1), Q(3, 2)}
P6  == {R(-2), R(-1), RZero, Half, R(1), R(2)}
P7  == {R(-2), R(-1), Q(-1, 2), RZero, Half, R(1), R(2)}
P9  == P7 \cup {Q(3, 2), R(-3)}

Linear(sizes) ==
  {MavDeque(s, z) : s \in sizes, z \in {"sym", "num"}}
  \cup {MavRecursive(s, z) : s \in sizes, z \in {"sym", "num"}}
  \cup {MavFir(s, z) : s \in sizes, z \in {"sym", "num"}}
  \cup {AccIter, AccFunc, AccZ}

Limits(S) == {None} \cup {Some(r) : r \in S}
Pairs     == {<<R(1), R(2)>>, <<Half, R(2)>>, <<R(1), R(3)>>, <<R(3), R(2)>>, <<RZero, R(1)>>}
PairsFull == Pairs \cup {<<R(2), Q(3, 2)>>, <<Q(3, 2), Half>>, <<RZero, R(4)>>}

C20Quick ==
  Linear(1..4)
  \cup {Amdf(l, s, z, P3, 4) : l \in 1..3, s \in 1..3, z \in {RZero}}
  \cup {Amdf(l, s, z, P3, 3) : l \in 1..2, s \in 2..3, z \in {Half}}
  \cup {Envelope(s, P5, 3) : s \in {"rms", "abs", "squared"}}
  \cup {Clip(lo, hi, P7, 2) : lo \in Limits({R(-1), RZero, R(1)}), hi \in Limits({R(-1), RZero, R(1)})}
  \cup {ZCross(h, f, P6, 4) : h \in {RZero, Half, R(1)}, f \in {R(-1), RZero, R(1)}}
  \cup {Unwrap(p[1], p[2], P5, 5) : p \in Pairs}

C20Thorough ==
  Linear(1..8)
  \cup {Amdf(l, s, z, P4, 5) : l \in 1..3, s \in 1..4, z \in {RZero}}
  \cup {Amdf(l, s, z, P3, 5) : l \in 1..3, s \in 1..4, z \in {Half, R(-1)}}
  \cup {Envelope(s, P6, 5) : s \in {"rms", "abs", "squared"}}
  \cup {Clip(lo, hi, P9, 3) : lo \in Limits({R(-1), Q(-1, 2), RZero, R(1)}), hi \in Limits({R(-1), RZero, Half, R(1)})}
  \cup {ZCross(h, f, P7, 5) : h \in {RZero, Half, R(1)}, f \in {R(-1), RZero, R(1), Half, R(-2)}}
  \cup {Unwrap(p[1], p[2], P7, 5) : p \in PairsFull}
============================================================================
