-------------------------------- MODULE Lpc --------------------------------
(***************************************************************************)
(* audiolazy.lazy_lpc / lazy_analysis  (properties C10 and C11).           *)
(*                                                                         *)
(* Operational layer (shaped like the code): four machines selected by the *)
(* kind of the case,                                                       *)
(*   Levinson  : levinson_durbin -- A <- A - (<A,z^-m>/<B,B>) B with B the *)
(*               reversed A, inner product over the Toeplitz form of r,    *)
(*               zero extension of r when order >= len(r);  error = <A,A>  *)
(*               (lpc.kautocor = the same machine started on acorr(blk));  *)
(*   KCovar    : lpc.kcovar -- Gram-Schmidt over the lag-matrix product;   *)
(*   StepDown  : parcor -- k = last coefficient, f <- (f - k rev f)/(1-k^2)*)
(*               leading coefficient forced to 1, ParCorError iff k^2 = 1; *)
(*   Stab      : parcor_stable -- all(|k| < 1) over the step-down of the   *)
(*               denominator made monic (the intended behaviour: "whatever *)
(*               non-zero leading denominator coefficient").               *)
(* Definition layer (shaped like the property): Toeplitz normal equations  *)
(* and error identity, energy / gradient of the prediction residual of the *)
(* zero-extended block (autocorrelation method) and of the samples n >= p  *)
(* (covariance method), the step-up recursion, r generated from reflection *)
(* coefficients, pole locations of a denominator built from its roots.     *)
(* Filters are sequences of normalised rationals, index 1 <-> delay 0.     *)
(***************************************************************************)
EXTENDS Rat, TLC, FiniteSets

CONSTANTS Cases,         \* set of case records (uniform shape, see MkCase)
          ThenStepDown   \* BOOLEAN: Levinson cases continue with parcor(levinson_durbin(r))

(* A case: [kind, r, x, order, ks, roots, cpairs, gain]                                     *)
(*   "ld"  levinson_durbin(r, order)            "ka"  lpc.kautocor(x, order)                *)
(*   "kl"  levinson_durbin(RFromKs(ks))         "kc"  lpc.kcovar(x, order)                  *)
(*   "ks"  parcor(ZFilter(StepUp(ks)))          "st"  parcor_stable(1/Den(roots,cpairs,gain)) *)
MkCase(kind, r, x, order, ks, roots, cpairs, gain) ==
  [kind |-> kind, r |-> r, x |-> x, order |-> order, ks |-> ks, roots |-> roots, cpairs |-> cpairs, gain |-> gain]
CaseLd(r, p)      == MkCase("ld", r, <<>>, p, <<>>, <<>>, <<>>, ROne)
CaseKa(x, p)      == MkCase("ka", <<>>, x, p, <<>>, <<>>, <<>>, ROne)
CaseKc(x, p)      == MkCase("kc", <<>>, x, p, <<>>, <<>>, <<>>, ROne)
CaseKl(ks)        == MkCase("kl", <<>>, <<>>, Len(ks), ks, <<>>, <<>>, ROne)
CaseKs(ks)        == MkCase("ks", <<>>, <<>>, Len(ks), ks, <<>>, <<>>, ROne)
CaseSt(ro, cp, g) == MkCase("st", <<>>, <<>>, Len(ro) + 2 * Len(cp), <<>>, ro, cp, g)

---------------------------------------------------------------------------
(* Rational arithmetic that keeps intermediates small (lcm in sums, cross-cancellation in  *)
(* products): same values as Rat's RAdd/RMul/..., fewer 32-bit overflows.                   *)
QAdd(p, q) == IF p[2] = q[2] THEN Norm(p[1] + q[1], p[2])
              ELSE LET g == GCD(p[2], q[2]) IN
                   Norm(p[1] * (q[2] \div g) + q[1] * (p[2] \div g), (p[2] \div g) * q[2])
QSub(p, q) == QAdd(p, RNeg(q))
QMul(p, q) == IF p[1] = 0 \/ q[1] = 0 THEN RZero
              ELSE LET g1 == GCD(Abs(p[1]), q[2])
                       g2 == GCD(Abs(q[1]), p[2])
                   IN <<(p[1] \div g1) * (q[1] \div g2), (p[2] \div g2) * (q[2] \div g1)>>
QDiv(p, q) == QMul(p, RInv(q))                                              \* q # 0
RECURSIVE QSum(_)
QSum(s)    == IF s = <<>> THEN RZero ELSE QAdd(Head(s), QSum(Tail(s)))

(* Evaluation control (no meaning, only cost).  TLC evaluates LET definitions, operator      *)
(* arguments and [i \in S |-> e] lazily and, in recursive definitions, again at every         *)
(* reference.  Bind evaluates v once and hands the value to F as a bound variable; Mat turns   *)
(* a lazily defined sequence into an explicit tuple.                                          *)
Bind(v, F(_)) == CHOOSE res \in {F(a) : a \in {v}} : TRUE
Mat(s)        == s \o <<>>

(* sequences of rationals                                                   *)
RSq(p)        == QMul(p, p)
SeqRev(s)     == Mat([i \in 1..Len(s) |-> s[Len(s) + 1 - i]])
PadTo(s, n)   == Mat([i \in 1..n |-> IF i <= Len(s) THEN s[i] ELSE RZero])
UnitAt(n, k)  == [i \in 1..n |-> IF i = k THEN ROne ELSE RZero]
SeqFront(s)   == SubSeq(s, 1, Len(s) - 1)
SAdd(a, b)    == Mat([i \in DOMAIN a |-> QAdd(a[i], b[i])])
SScale(c, a)  == Mat([i \in DOMAIN a |-> QMul(c, a[i])])
\* index (1-based) of the last non-zero entry, 0 when there is none: Poly drops zero coefficients
LastNZIdx(s)  == LET nz == {i \in DOMAIN s : s[i] # RZero} IN
                 IF nz = {} THEN 0 ELSE CHOOSE i \in nz : \A j \in nz : j <= i
PolyMulV(a, b) == Mat([n \in 1..(Len(a) + Len(b) - 1) |->
                   QSum([i \in 1..Len(a) |-> IF n - i + 1 >= 1 /\ n - i + 1 <= Len(b)
                                                THEN QMul(a[i], b[n - i + 1]) ELSE RZero])])
PolyMul(a, b)  == Bind(a, LAMBDA av : Bind(b, LAMBDA bv : PolyMulV(av, bv)))

---------------------------------------------------------------------------
(* acorr / lag_matrix / toeplitz as the code writes them (0-based n, tau, i, j of the code   *)
(* shifted to 1-based sequences)                                                             *)
Acorr(x, maxlag) ==
  Mat([t \in 1..(maxlag + 1) |-> QSum([n \in 1..(Len(x) - (t - 1)) |-> QMul(x[n], x[n + t - 1])])])
LagMatrix(x, maxlag) ==
  Mat([j \in 1..(maxlag + 1) |-> Mat([i \in 1..(maxlag + 1) |->
     QSum([n \in 1..(Len(x) - maxlag) |-> QMul(x[n + maxlag - (i - 1)], x[n + maxlag - (j - 1)])])])])
Toeplitz(v) == Mat([j \in 1..Len(v) |-> Mat([i \in 1..Len(v) |-> v[Abs(i - j) + 1]])])

(* Definition layer for the tables: sample n (1-based) of the block extended by zeros on     *)
(* both sides, and the Gram sums  sum_{n=lo..hi} X(n-i) X(n-j)                               *)
XAt(x, n)            == IF n >= 1 /\ n <= Len(x) THEN x[n] ELSE RZero
Gram(x, lo, hi, i, j) == QSum([n \in 1..(hi - lo + 1) |-> QMul(XAt(x, lo + n - 1 - i), XAt(x, lo + n - 1 - j))])
\* autocorrelation method: the block convolved with an order-p filter lives on n = 1..N+p
GramZ(x, p, i, j)    == Gram(x, 1, Len(x) + p, i, j)
\* covariance method: only the samples that need no padding, n = p+1..N  ("n >= p", 0-based)
GramC(x, p, i, j)    == Gram(x, p + 1, Len(x), i, j)

(* prediction residual e[n] = sum_j a_j X(n-j) on n = lo..hi, its energy, and the partial    *)
(* derivative of half the energy with respect to a_i                                         *)
ResidAt(x, a, n)       == QSum([j \in 1..Len(a) |-> QMul(a[j], XAt(x, n - (j - 1)))])
ResidSeq(x, a, lo, hi) == Mat([n \in 1..(hi - lo + 1) |-> ResidAt(x, a, lo + n - 1)])
Energy(x, a, lo, hi)   == Bind(ResidSeq(x, a, lo, hi), LAMBDA e : QSum([n \in DOMAIN e |-> RSq(e[n])]))
HalfGrad(x, a, lo, hi, i) == QSum([n \in 1..(hi - lo + 1) |-> QMul(ResidAt(x, a, lo + n - 1), XAt(x, lo + n - 1 - i))])

---------------------------------------------------------------------------
(* Definition layer for Levinson-Durbin: the Toeplitz normal equations      *)
NormalLhs(r, a, i)   == QSum([j \in 1..Len(a) |-> QMul(a[j], r[Abs(i - (j - 1)) + 1])])      \* i = 0..p
SolvesToeplitz(r, a) == \A i \in 1..(Len(a) - 1) : NormalLhs(r, a, i) = RZero
ErrFormula(r, a)     == NormalLhs(r, a, 0)                                                     \* sum_j a_j r_j
Monic(a)             == Len(a) >= 1 /\ a[1] = ROne

(* step-up recursion, product formula of the error, r generated from reflection coefficients *)
RECURSIVE StepUp(_)
StepUp(ks) == IF ks = <<>> THEN <<ROne>>
              ELSE LET n == Len(ks) IN
                   Bind(PadTo(StepUp(SeqFront(ks)), n + 1),
                        LAMBDA a : Mat([i \in 1..(n + 1) |-> QAdd(a[i], QMul(ks[n], a[n + 2 - i]))]))
RECURSIVE ErrProd(_)
ErrProd(ks) == IF ks = <<>> THEN ROne ELSE QMul(ErrProd(SeqFront(ks)), QSub(ROne, RSq(ks[Len(ks)])))
RECURSIVE RFromKs(_)
\* r0 = 1;  r_m = -k_m E_{m-1} - sum_{j=1..m-1} a^(m-1)_j r_{m-j}
RFromKs(ks) == IF ks = <<>> THEN <<ROne>>
               ELSE LET m == Len(ks) IN
                    Bind(RFromKs(SeqFront(ks)), LAMBDA prev : Bind(StepUp(SeqFront(ks)), LAMBDA a :
                      Append(prev, QSub(RNeg(QMul(ks[m], ErrProd(SeqFront(ks)))),
                                        QSum([j \in 1..(m - 1) |-> QMul(a[j + 1], prev[m - j + 1])])))))

---------------------------------------------------------------------------
(* Step-down (parcor) as pure operators; the machine below uses the same SdNext              *)
\* f has md+1 coefficients and is monic; result has md coefficients
SdNextV(f, md) == LET k == f[md + 1]
                      q == QSub(ROne, RSq(k))
                  IN Mat([i \in 1..md |-> IF i = 1 THEN ROne                              \* forced to 1
                                          ELSE QDiv(QSub(f[i], QMul(k, f[md + 2 - i])), q)])
SdNext(f, md)  == Bind(f, LAMBDA fv : SdNextV(fv, md))
RECURSIVE StepDownRun(_, _, _)
StepDownRun(f, md, acc) ==
  IF md = 0 THEN [ks |-> acc, err |-> "none"]
  ELSE Bind(f, LAMBDA fv : Bind(Append(acc, fv[md + 1]), LAMBDA acc2 :
         IF RSq(fv[md + 1]) = ROne THEN [ks |-> acc2, err |-> "ParCorError"]
         ELSE StepDownRun(SdNextV(fv, md), md - 1, acc2)))
\* what list(parcor(ZFilter(a))) is for a monic a: coefficients last first, or ParCorError after a prefix
Parcor(a) == Bind(LastNZIdx(a), LAMBDA n : StepDownRun(SubSeq(a, 1, n), n - 1, <<>>))

RECURSIVE StabRun(_, _)
\* all(abs(k) < 1 for k in parcor(f)): stops at the first |k| >= 1
StabRun(f, md) == IF md = 0 THEN TRUE
                  ELSE Bind(f, LAMBDA fv : IF ~RLt(RSq(fv[md + 1]), ROne) THEN FALSE
                                           ELSE StabRun(SdNextV(fv, md), md - 1))

(* denominators built from their roots: g * prod(1 - rho z^-1) * prod(1 - 2 Re(c) z^-1 + |c|^2 z^-2) *)
RECURSIVE ProdReal(_)
ProdReal(ro) == IF ro = <<>> THEN <<ROne>> ELSE PolyMul(ProdReal(SeqFront(ro)), <<ROne, RNeg(ro[Len(ro)])>>)
CAbs2(c)     == QAdd(RSq(c[1]), RSq(c[2]))
RECURSIVE ProdCplx(_)
ProdCplx(cp) == IF cp = <<>> THEN <<ROne>>
                ELSE LET c == cp[Len(cp)] IN
                     PolyMul(ProdCplx(SeqFront(cp)), <<ROne, RNeg(QMul(R(2), c[1])), CAbs2(c)>>)
Den(c)       == SScale(c.gain, PolyMul(ProdReal(c.roots), ProdCplx(c.cpairs)))
MonicDen(c)  == Bind(Den(c), LAMBDA d : Mat([i \in DOMAIN d |-> QDiv(d[i], d[1])]))
\* every pole strictly inside the unit circle
Stable(c)    == /\ \A i \in DOMAIN c.roots  : RLt(RSq(c.roots[i]), ROne)
                /\ \A i \in DOMAIN c.cpairs : RLt(CAbs2(c.cpairs[i]), ROne)
StabVerdict(c) == Bind(MonicDen(c), LAMBDA f : StabRun(SubSeq(f, 1, LastNZIdx(f)), LastNZIdx(f) - 1))

\* the denominator really vanishes at its roots: sum_i d_i w^(n-i) = 0 for w = rho, w = c (Gaussian rationals)
CMul(u, v)   == <<QSub(QMul(u[1], v[1]), QMul(u[2], v[2])), QAdd(QMul(u[1], v[2]), QMul(u[2], v[1]))>>
CAdd(u, v)   == <<QAdd(u[1], v[1]), QAdd(u[2], v[2])>>
RECURSIVE CHorner(_, _, _)
\* Horner on d_1 w^(n-1) + ... + d_n  (= w^(n-1) * D(w) for D in powers of z^-1)
CHorner(d, w, k) == IF k = 1 THEN <<d[1], RZero>>
                    ELSE Bind(CHorner(d, w, k - 1), LAMBDA u : CAdd(CMul(u, w), <<d[k], RZero>>))
VanishesAt(d, w) == CHorner(d, w, Len(d)) = <<RZero, RZero>>

---------------------------------------------------------------------------
(* The machines                                                             *)
VARIABLES case,   \* the case record
          pc,     \* "ld" | "kc" | "pc" | "st" | "done"
          m,      \* Levinson / kcovar: orders done;  step-down: coefficients still to peel (md)
          r,      \* autocorrelation vector the Levinson inner product uses (zero-extended)
          phi,    \* kcovar: lag matrix
          A,      \* Levinson / kcovar: current filter
          ks,     \* Levinson / kcovar: coefficients found, first order first
          errv,   \* value of the .error attribute once computed, else <<>>
          err,    \* "none" or the exception the call ends with
          flag,   \* kcovar: "ValueError" once some k is outside (-1,1);  Stab: "stable"/"unstable"
          Bs, beta,   \* kcovar: orthogonal basis and its squared norms
          f,      \* step-down: current (monic) filter
          kd      \* step-down: coefficients yielded so far (last first)
vars == <<case, pc, m, r, phi, A, ks, errv, err, flag, Bs, beta, f, kd>>

IsLev(c) == c.kind \in {"ld", "ka", "kl"}
\* the vector levinson_durbin indexes: acdata itself, or acdata followed by zeros up to lag `order`
REff(c) == IF c.kind = "ka" THEN Acorr(c.x, c.order)
           ELSE IF c.kind = "kl" THEN RFromKs(c.ks)
           ELSE IF c.order >= Len(c.r) THEN PadTo(c.r, c.order + 1) ELSE c.r

Inner(rr, a, b) == QSum([i \in 1..Len(a) |-> QSum([j \in 1..Len(b) |->
                      QMul(rr[Abs(i - j) + 1], QMul(a[i], b[j]))])])
InnerPhi(ph, a, b) == QSum([i \in 1..Len(a) |-> QSum([j \in 1..Len(b) |->
                      QMul(ph[i][j], QMul(a[i], b[j]))])])

StartStepDown(a) == /\ f = SubSeq(a, 1, LastNZIdx(a)) /\ m = LastNZIdx(a) - 1
InitCommon == /\ errv = <<>> /\ err = "none" /\ flag = "none" /\ kd = <<>> /\ ks = <<>>

Init ==
  /\ case \in Cases
  /\ InitCommon
  /\ \/ /\ IsLev(case)
        /\ pc = "ld" /\ m = 0 /\ r = REff(case) /\ A = <<ROne>>
        /\ phi = <<>> /\ Bs = <<>> /\ beta = <<>> /\ f = <<>>
     \/ /\ case.kind = "kc"
        /\ pc = "kc" /\ m = 1 /\ r = <<>> /\ f = <<>>
        /\ phi = LagMatrix(case.x, case.order)
        /\ A = UnitAt(case.order + 1, 1)
        /\ Bs = <<UnitAt(case.order + 1, 2)>>
        /\ beta = <<phi[2][2]>>
     \/ /\ case.kind = "ks"
        /\ pc = "pc" /\ r = <<>> /\ A = StepUp(case.ks) /\ StartStepDown(A)
        /\ phi = <<>> /\ Bs = <<>> /\ beta = <<>>
     \/ /\ case.kind = "st"
        /\ pc = "st" /\ r = <<>> /\ A = Den(case) /\ StartStepDown(MonicDen(case))
        /\ phi = <<>> /\ Bs = <<>> /\ beta = <<>>

(* ---- levinson_durbin ---- *)
\* (\E v \in {e} binds the value of e once: see Bind)
LdStep ==
  /\ pc = "ld" /\ err = "none" /\ m < case.order
  /\ \E mm \in {m + 1} :
     \E Ap \in {PadTo(A, mm + 1)} :
     \E B \in {Mat([i \in 1..(mm + 1) |-> IF i = 1 THEN RZero ELSE A[mm + 2 - i]])} :        \* A(1/z) z^-mm
     \E num \in {Inner(r, Ap, UnitAt(mm + 1, mm + 1))} :
     \E den \in {Inner(r, B, B)} :
        IF den = RZero
        THEN /\ err' = "ParCorError" /\ UNCHANGED <<m, A, ks>>
        ELSE \E k \in {RNeg(QDiv(num, den))} :
             /\ A' = SAdd(Ap, SScale(k, B)) /\ ks' = Append(ks, k) /\ m' = mm /\ UNCHANGED err
  /\ UNCHANGED <<case, pc, r, phi, errv, flag, Bs, beta, f, kd>>

LdFinish ==
  /\ pc = "ld" /\ err = "none" /\ m = case.order
  /\ errv' = Inner(r, A, A)
  /\ IF ThenStepDown
     THEN /\ pc' = "pc" /\ f' = SubSeq(A, 1, LastNZIdx(A)) /\ m' = LastNZIdx(A) - 1
     ELSE /\ pc' = "done" /\ UNCHANGED <<f, m>>
  /\ UNCHANGED <<case, r, phi, A, ks, err, flag, Bs, beta, kd>>

(* ---- lpc.kcovar ---- *)
KcStep ==
  /\ pc = "kc" /\ err = "none"
  /\ \E P \in {case.order + 1} :
     IF beta[m] = RZero
     THEN /\ err' = "ZeroDivisionError" /\ UNCHANGED <<pc, m, A, ks, errv, flag, Bs, beta>>
     ELSE \E k \in {RNeg(QDiv(InnerPhi(phi, A, UnitAt(P, m + 1)), beta[m]))} :
          \E An \in {SAdd(A, SScale(k, Bs[m]))} :
             /\ A' = An /\ ks' = Append(ks, k) /\ UNCHANGED err
             /\ flag' = IF ~RLt(k, ROne) \/ ~RLt(RNeg(ROne), k) THEN "ValueError" ELSE flag
             /\ IF m >= case.order
                THEN /\ errv' = InnerPhi(phi, An, An) /\ pc' = "done" /\ UNCHANGED <<m, Bs, beta>>
                ELSE \E zq \in {Mat(UnitAt(P, m + 2))} :
                     \E gamma \in {Mat([q \in 1..m |-> QDiv(InnerPhi(phi, zq, Bs[q]), beta[q])])} :
                     \E Bn \in {Mat([i \in 1..P |-> QSub(zq[i], QSum([q \in 1..m |-> QMul(gamma[q], Bs[q][i])]))])} :
                        /\ Bs' = Append(Bs, Bn) /\ beta' = Append(beta, InnerPhi(phi, Bn, Bn))
                        /\ m' = m + 1 /\ UNCHANGED <<pc, errv>>
  /\ UNCHANGED <<case, r, phi, f, kd>>

(* ---- parcor ---- *)
PcStep ==
  /\ pc = "pc" /\ err = "none" /\ m > 0
  /\ LET k == f[m + 1] IN
     /\ kd' = Append(kd, k)
     /\ IF RSq(k) = ROne
        THEN /\ err' = "ParCorError" /\ UNCHANGED <<f, m>>
        ELSE /\ f' = SdNext(f, m) /\ m' = m - 1 /\ UNCHANGED err
  /\ UNCHANGED <<case, pc, r, phi, A, ks, errv, flag, Bs, beta>>

PcFinish ==
  /\ pc = "pc" /\ err = "none" /\ m = 0
  /\ pc' = "done"
  /\ UNCHANGED <<case, m, r, phi, A, ks, errv, err, flag, Bs, beta, f, kd>>

(* ---- parcor_stable ---- *)
StStep ==
  /\ pc = "st" /\ m > 0
  /\ LET k == f[m + 1] IN
     /\ kd' = Append(kd, k)
     /\ IF ~RLt(RSq(k), ROne)
        THEN /\ flag' = "unstable" /\ pc' = "done" /\ UNCHANGED <<f, m>>
        ELSE /\ f' = SdNext(f, m) /\ m' = m - 1 /\ UNCHANGED <<flag, pc>>
  /\ UNCHANGED <<case, r, phi, A, ks, errv, err, Bs, beta>>

StFinish ==
  /\ pc = "st" /\ m = 0
  /\ flag' = "stable" /\ pc' = "done"
  /\ UNCHANGED <<case, m, r, phi, A, ks, errv, err, Bs, beta, f, kd>>

Next == LdStep \/ LdFinish \/ KcStep \/ PcStep \/ PcFinish \/ StStep \/ StFinish
Spec == Init /\ [][Next]_vars

---------------------------------------------------------------------------
(* Invariants.  C10                                                         *)
LdLive == IsLev(case) /\ err = "none"
\* after m orders A is the monic order-m solution of the Toeplitz normal equations
LevinsonSolves   == LdLive => /\ Len(A) = Len(ks) + 1 /\ Monic(A) /\ SolvesToeplitz(r, A)
                              /\ (pc = "ld" => Len(ks) = m)
\* the reported error is sum_j a_j r_j
ErrorIdentity    == LdLive /\ errv # <<>> => errv = ErrFormula(r, A)
\* acorr is the Gram table of the zero-extended block (so the Toeplitz system IS the least-squares system)
AcorrIsGram      == case.kind = "ka" =>
                      \A i, j \in 0..case.order : r[Abs(i - j) + 1] = GramZ(case.x, case.order, i, j)
\* lpc.kautocor: the gradient of the energy of (a * zero-extended block) vanishes and error = that energy
KautocorMinimises == case.kind = "ka" /\ err = "none" /\ errv # <<>> =>
                      LET N == Len(case.x)  p == case.order IN
                      /\ \A i \in 1..p : HalfGrad(case.x, A, 1, N + p, i) = RZero
                      /\ errv = Energy(case.x, A, 1, N + p)
\* ... and it is a minimum: moving any single coefficient by +-1 does not lower the energy
KautocorNoBetterNeighbour == case.kind = "ka" /\ err = "none" /\ errv # <<>> =>
                      LET N == Len(case.x)  p == case.order IN
                      \A i \in 2..(p + 1) : \A s \in {R(1), R(-1)} :
                         RLe(errv, Energy(case.x, [A EXCEPT ![i] = QAdd(A[i], s)], 1, N + p))
\* the two algebraic identities that let the trace module judge recorded results with LINEAR equations:
\* d(E/2)/da_i = sum_j a_j Gram(i, j)  and  E = sum_i a_i d(E/2)/da_i  (so E = sum_j a_j Gram(0, j) at the optimum)
EnergyIdentities == case.kind \in {"ka", "kc"} /\ err = "none" =>
                      LET N  == Len(case.x)  p == case.order
                          lo == IF case.kind = "ka" THEN 1 ELSE p + 1
                          hi == IF case.kind = "ka" THEN N + p ELSE N
                      IN \E a \in {PadTo(A, p + 1)} :
                         \E g \in {Mat([i \in 1..(p + 1) |-> HalfGrad(case.x, a, lo, hi, i - 1)])} :
                           /\ \A i \in 0..p : g[i + 1] = QSum([j \in 1..(p + 1) |-> QMul(a[j], Gram(case.x, lo, hi, i, j - 1))])
                           /\ Energy(case.x, a, lo, hi) = QSum([i \in 1..(p + 1) |-> QMul(a[i], g[i])])
\* lag_matrix is the Gram table over n >= p, and is symmetric
LagIsGram        == case.kind = "kc" =>
                      \A i, j \in 0..case.order : /\ phi[i + 1][j + 1] = GramC(case.x, case.order, i, j)
                                                  /\ phi[i + 1][j + 1] = phi[j + 1][i + 1]
\* Gram-Schmidt keeps A orthogonal to the delays already processed
KcOrthogonal     == case.kind = "kc" /\ err = "none" =>
                      \A i \in 1..Len(ks) : InnerPhi(phi, A, UnitAt(case.order + 1, i + 1)) = RZero
\* lpc.kcovar, when it returns: covariance normal equations and residual energy over n >= p
KcovarSolves     == case.kind = "kc" /\ pc = "done" /\ err = "none" =>
                      LET N == Len(case.x)  p == case.order IN
                      /\ Monic(A) /\ Len(A) = p + 1
                      /\ \A i \in 1..p : HalfGrad(case.x, A, p + 1, N, i) = RZero
                      /\ errv = Energy(case.x, A, p + 1, N)

(* C11 *)
\* Levinson on r generated from reflection coefficients finds exactly those coefficients
LevinsonRecoversKs == case.kind = "kl" /\ err = "none" =>
                      /\ ks = SubSeq(case.ks, 1, Len(ks)) /\ A = StepUp(ks)
\* error = r0 * prod(1 - k_m^2)   (any Levinson case)
ErrProduct       == LdLive /\ errv # <<>> => errv = QMul(r[1], ErrProd(ks))
\* the filter Levinson returns is the step-up of its own reflection coefficients
LevinsonIsStepUp == LdLive => A = StepUp(ks)
\* the reference coefficients of a step-down: the case's (kind ks) or those Levinson found
RefKs == IF case.kind = "ks" THEN case.ks ELSE SubSeq(ks, 1, LastNZIdx(ks))
InStepDown == pc \in {"pc", "done"} /\ (case.kind = "ks" \/ (IsLev(case) /\ ThenStepDown /\ errv # <<>>))
\* step-down inverts step-up: what is left is the step-up of the first m coefficients and what was
\* yielded are the others, last first
StepDownInverts  == InStepDown /\ err = "none" =>
                      /\ f = StepUp(SubSeq(RefKs, 1, m))
                      /\ kd = SeqRev(SubSeq(RefKs, m + 1, Len(RefKs)))
\* ParCorError exactly when the coefficient just yielded has |k| = 1
ParCorOnlyAtUnit == InStepDown =>
                      /\ (err = "ParCorError" <=> (kd # <<>> /\ RSq(kd[Len(kd)]) = ROne))
                      /\ \A i \in 1..(Len(kd) - 1) : RSq(kd[i]) # ROne
\* the pure operator the trace module uses is this machine
RunIsMachine     == InStepDown /\ (pc = "done" \/ err # "none") =>
                      Parcor(A) = [ks |-> kd, err |-> err]
\* Schur-Cohn: the step-down verdict is the pole-location verdict, whatever the gain
SchurCohn        == case.kind = "st" /\ pc = "done" =>
                      /\ (flag = "stable") = Stable(case)
                      /\ (flag = "stable") = StabVerdict(case)
                      /\ flag \in {"stable", "unstable"}
\* the case's roots are the zeros of its denominator (poles of 1/Den), and the gain is its leading coefficient
RootsAreRoots    == case.kind = "st" =>
                      /\ A[1] = case.gain
                      /\ \A i \in DOMAIN case.roots  : VanishesAt(A, <<case.roots[i], RZero>>)
                      /\ \A i \in DOMAIN case.cpairs : /\ VanishesAt(A, case.cpairs[i])
                                                       /\ VanishesAt(A, <<case.cpairs[i][1], RNeg(case.cpairs[i][2])>>)
StepDownMonic    == pc \in {"pc", "st"} => Len(f) = m + 1 /\ f[1] = ROne
=============================================================================
