----------------------------- MODULE FilterC06Q -----------------------------
(* quick grid of C06: every subset of the coefficients of 6 shapes (order <= 2) replaced by streams in 5     *)
(* source variants, pairs / scalings / depth-2 trees of stream filters                                       *)
EXTENDS FilterC06
C06Quick    == Keep(GridA(Shapes, VarQuick)
                    \cup PairsSS({1, 2, 4, 5, 6}, {Per(<<2, -1, 1>>), Fin(<<-1, 2>>)})
                    \cup PairsSL({2, 5, 6}, {1, 2, 4}, BSrcQ)
                    \cup Powers({1, 2, 5}, {Per(<<2, -1, 1>>), Fin(<<-1, 2, 1>>)})
                    \cup Scalings({1, 2, 5, 6}, BSrcQ)
                    \cup Triples({6}, {Per(<<2, -1, 1>>), Fin(<<-1, 2>>)})
                    \cup Triples({2}, {Fin(<<-1, 2, 1>>)}))
=============================================================================
