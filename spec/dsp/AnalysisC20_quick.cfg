CONSTANTS
  MaxLen = 6
  MaxMem = 0
  Cases <- C20Quick
INIT AInit
NEXT ANext
INVARIANT OnePerSample
INVARIANT MavIsMean
INVARIANT AccIsRunSum
INVARIANT FiltIsDiffEq
INVARIANT AmdfIsMeanDiff
INVARIANT EnvIsLowpass
INVARIANT ClipSaturates
INVARIANT ClipBounded
INVARIANT ClipIdempotent
INVARIANT ClipRefuses
INVARIANT ZCrossIsDef
INVARIANT UnwrapMultiples
INVARIANT UnwrapUntouched
INVARIANT UnwrapNoBigJump
PROPERTY AppendOnly
CHECK_DEADLOCK FALSE
