----------------------------- MODULE BlocksIdx -----------------------------
(* Contents-free index machine of lazy_misc.blocks for Apalache: the input length N is an          *)
(* arbitrary natural number (symbolic), size S and hop H are fixed per run.  IndInv is inductive   *)
(* and implies that the number of yields is the number of complete windows, plus one padded block  *)
(* iff the open window holds more than max(S-H, 0) items -- for EVERY input length.                *)
EXTENDS Integers

CONSTANTS
  \* @type: Int;
  N,
  \* @type: Int;
  S,
  \* @type: Int;
  H

VARIABLES
  \* @type: Int;
  pos,
  \* @type: Int;
  idx,
  \* @type: Int;
  cnt,
  \* @type: Str;
  pc

Max(a, b) == IF a < b THEN b ELSE a

Init == pos = 0 /\ idx = 0 /\ cnt = 0 /\ pc = "loop"

Skip      == pc = "loop" /\ pos < N /\ H > S /\ idx < 0
             /\ idx' = idx + 1 /\ pos' = pos + 1 /\ UNCHANGED <<cnt, pc>>
Take      == pc = "loop" /\ pos < N /\ ~(H > S /\ idx < 0) /\ idx # S - 1
             /\ idx' = idx + 1 /\ pos' = pos + 1 /\ UNCHANGED <<cnt, pc>>
TakeYield == pc = "loop" /\ pos < N /\ ~(H > S /\ idx < 0) /\ idx = S - 1
             /\ idx' = S - H /\ pos' = pos + 1 /\ cnt' = cnt + 1 /\ UNCHANGED pc
Exhaust   == pc = "loop" /\ pos = N /\ pc' = "tail" /\ UNCHANGED <<pos, idx, cnt>>
PadYield  == pc = "tail" /\ idx > Max(S - H, 0) /\ cnt' = cnt + 1 /\ pc' = "done" /\ UNCHANGED <<pos, idx>>
NoTail    == pc = "tail" /\ ~(idx > Max(S - H, 0)) /\ pc' = "done" /\ UNCHANGED <<pos, idx, cnt>>
Next == Skip \/ Take \/ TakeYield \/ Exhaust \/ PadYield \/ NoTail

\* cnt complete windows fit into the first `p` items and no more: without division
IsNComplete(c, p) == \/ c = 0 /\ p < S
                     \/ c >= 1 /\ (c - 1) * H + S <= p /\ p < c * H + S

IndInv ==
  /\ pc \in {"loop", "tail", "done"}
  /\ 0 <= pos /\ pos <= N /\ cnt >= 0
  /\ pc \in {"tail", "done"} => pos = N
  /\ pc \in {"loop", "tail"} =>
       /\ idx = pos - cnt * H
       /\ idx <= S - 1
       /\ IF cnt = 0 THEN idx >= 0 ELSE idx >= S - H
       /\ IsNComplete(cnt, pos)
  /\ pc = "done" =>
       LET m == IF N - (pos - idx) > Max(S - H, 0) THEN cnt - 1 ELSE cnt IN
       \* m complete windows, and the padded one iff the open window holds more than max(S-H,0) items
       /\ IsNComplete(m, N)
       /\ (cnt = m + 1) <=> (N - m * H > Max(S - H, 0))
       /\ idx = N - m * H

\* the induction step starts from ANY state that satisfies the invariant
IndInit == /\ pc \in {"loop", "tail", "done"} /\ pos \in Int /\ idx \in Int /\ cnt \in Int
           /\ IndInv
============================================================================
