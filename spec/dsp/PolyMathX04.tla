---------------------------- MODULE PolyMathX04 ----------------------------
(* Case-grid builders for X04 (the tier grids are in PolyMathX04Q / PolyMathX04T: TLC evaluates every  *)
(* zero-arity definition at start-up, so everything here takes a parameter).                           *)
EXTENDS PolyMathGrid

Q(n, d) == Norm(n, d)
G(k, cs) == [kind |-> k, cases |-> cs]                 \* one group of the grid
SeqsOver(S, lens) == UNION {[1..n -> S] : n \in lens}

\* ---- constructor -----------------------------------------------------------------------------
\* dict data: sequences of n items over key items KI (<<Rat, given-as-float>>) with numerically distinct
\* keys and coefficients C
DictData(KI, C, n) ==
  {[form |-> "dict", ps |-> [i \in 1..n |-> Item(s[i][1][1], s[i][1][2], s[i][2])]] :
      s \in {t \in [1..n -> KI \X C] : \A i, j \in 1..n : i # j => t[i][1][1] # t[j][1][1]}}
ListData(C, lens) == {[form |-> "list", s |-> s] : s \in SeqsOver(C, lens)}
NumData(C)        == {[form |-> "num", v |-> v] : v \in C}
PolyData(objs)    == {[form |-> "poly", o |-> o] : o \in objs}
OpaqueData        == {[form |-> "opaque", what |-> w] : w \in {"tuple", "generator", "str"}}
CtorCases(datas, zargs) == [data : datas, zarg : zargs]

\* ---- arithmetic ------------------------------------------------------------------------------
PVs(ps, zs)     == {PV(p, z) : p \in ps, z \in zs}
Operands(ps, zs, nums) == {OPoly(p, z) : p \in ps, z \in zs} \cup {ONum(v) : v \in nums}
ArithCases(as, polyops, numops) ==
  [op : {"add", "sub", "mul"}, a : as, b : polyops \cup numops]
  \cup [op : {"radd", "rsub", "rmul"}, a : as, b : numops]
  \cup [op : {"neg", "pos"}, a : as, b : {ONum(RZero)}]
  \cup {c \in [op : {"compose"}, a : as, b : polyops] : ComposeDefined(c.a.p, c.b.p)}
DivCases(as, bs, nums) == [rev : {FALSE}, a : as, b : bs] \cup [rev : {TRUE}, a : as, b : nums]
IntExp(S)  == {[k |-> "int", v |-> n] : n \in S}
PolyExp(P) == {[k |-> "poly", p |-> p] : p \in P}
PowCases(as, ns) == [a : as, n : ns]
PowFCases(ks, cs, es) == {c \in [k : ks, c : cs, e : es] : HasExactRoot(c.c, c.e[2])}
CalcCases(as, ns) == [a : as, n : ns]
EqCases(as, bs)   == [a : as, b : bs]
SCopyCases(ss, hows) == {c \in [s : ss, n : 0..4, m : 0..4, how : hows] : c.n <= Len(c.s)}
MutCases(objs, zargs, items) == [o : objs, zarg : zargs, it : items, target : {"new", "orig"}]

\* ---- lazy_math ---------------------------------------------------------------------------------
XCases(nums) == [x : nums]
LogCases(nums, bases) == [x : nums, b : {BNone} \cup {BGiven(b) : b \in bases}]
DbCases(nums) == [k : {10, 20}, x : nums]
============================================================================
