CONSTANTS
  Layers <- C09Layers
  MaxDerive = 3
  SharedDefaults = FALSE
INIT Init
NEXT Next
INVARIANT NoLeak
PROPERTY Frozen
CHECK_DEADLOCK FALSE
