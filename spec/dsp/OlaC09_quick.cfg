CONSTANTS
  MaxM = 3
  MaxSize = 3
  MaxL = 7
  WKinds = {"none", "ones", "ramp", "neg", "zero", "recip", "tri"}
  Cases <- C09Grid
INIT Init
NEXT Next
INVARIANT ScopeOK
INVARIANT OlaRefine
INVARIANT OlaLength
INVARIANT WindowLayers
INVARIANT MemInv
INVARIANT ColaInversion
CHECK_DEADLOCK FALSE
