------------------------------ MODULE MathVal ------------------------------
(***************************************************************************)
(* audiolazy.lazy_math: value semantics of the functions (extension check  *)
(* X04; the elementwise broadcasting of the same functions is C01).        *)
(*                                                                         *)
(* A Python number is                                                      *)
(*   [t |-> "int" | "float" | "frac" | "bool", v |-> Rat]                  *)
(*   [t |-> "complex", re |-> Rat, im |-> Rat]                             *)
(*   [t |-> "special", s |-> "inf" | "-inf" | "nan" | "-0.0"]   (floats)   *)
(*   [t |-> "other", s |-> "str" | "none"]                    (no number)  *)
(* A result is                                                             *)
(*   [r |-> "ninf"]                         the float -inf                 *)
(*   [r |-> "raise", e |-> class name]                                     *)
(*   [r |-> "call", fn |-> "math.log" ..., args |-> <<...>>]  the value IS *)
(*        that library function of those arguments (TLC does not           *)
(*        re-implement libm: the driver compares the code's float with the *)
(*        same call, bit for bit); an argument is a number or              *)
(*        [f |-> "1+" | "abs", x |-> number]                               *)
(*   [r |-> "scaled", k |-> 10 | 20, fn, args]          k * fn(args)       *)
(*   [r |-> "exact", t |-> type tag, v |-> Rat]         an exact value     *)
(*   [r |-> "big", limbs |-> little-endian base-10000 digits]              *)
(* `ex` (where present) is the exact value the call must also have.        *)
(*                                                                         *)
(* Operational layer: M... operators = the if-chains of the code.          *)
(* Definition layer: DM... = decision tables / mathematical definitions.   *)
(***************************************************************************)
EXTENDS Rat, FiniteSets, TLC

NInt(n)      == [t |-> "int", v |-> R(n)]
NFloat(r)    == [t |-> "float", v |-> r]
NFrac(r)     == [t |-> "frac", v |-> r]
NBool(b)     == [t |-> "bool", v |-> IF b THEN ROne ELSE RZero]
NCplx(a, b)  == [t |-> "complex", re |-> a, im |-> b]
NSpec(s)     == [t |-> "special", s |-> s]
NOther(s)    == [t |-> "other", s |-> s]
BNone        == [given |-> FALSE]
BGiven(b)    == [given |-> TRUE, b |-> b]

IsRealN(x)   == x.t \in {"int", "float", "frac", "bool"}
IsCplx(x)    == x.t = "complex"
IsSpec(x)    == x.t = "special"
\* Python comparisons of a number with the rational r (nan compares False with everything)
PyEq(x, r)   == \/ IsRealN(x) /\ x.v = r
                \/ IsCplx(x) /\ x.im = RZero /\ x.re = r
                \/ IsSpec(x) /\ x.s = "-0.0" /\ r = RZero
PyLt(x, r)   == \/ IsRealN(x) /\ RLt(x.v, r)
                \/ IsSpec(x) /\ (x.s = "-inf" \/ (x.s = "-0.0" /\ RLt(RZero, r)))
PyGt(x, r)   == \/ IsRealN(x) /\ RLt(r, x.v)
                \/ IsSpec(x) /\ (x.s = "inf" \/ (x.s = "-0.0" /\ RLt(r, RZero)))
PyLe(x, r)   == PyLt(x, r) \/ PyEq(x, r)
Ordered(x)   == IsRealN(x) \/ IsSpec(x)                  \* `<` is defined (complex: TypeError)

NegInf          == [r |-> "ninf"]
Raise(e)        == [r |-> "raise", e |-> e]
Call(fn, args)  == [r |-> "call", fn |-> fn, args |-> args]
CallEx(fn, args, t, v) == [r |-> "call", fn |-> fn, args |-> args, ex |-> [t |-> t, v |-> v]]
Exact(t, v)     == [r |-> "exact", t |-> t, v |-> v]
Arg1p(x)        == [f |-> "1+", x |-> x]
ArgAbs(x)       == [f |-> "abs", x |-> x]

---------------------------------------------------------------------------
(* log / ln / log10 / log2 / log1p                                         *)
\* math.log(1) = 0.0, and log(1, base) = log(1) / log(base) = 0.0 exactly for every finite base
LogCall(fn, args, x) == IF IsRealN(x) /\ x.v = ROne /\ fn = "math.log" /\ (Len(args) = 2 => IsRealN(args[2]))
                        THEN CallEx(fn, args, "float", RZero)
                        ELSE Call(fn, args)
MLog(x, b) ==
  IF ~b.given
  THEN IF PyEq(x, RZero) THEN NegInf
       ELSE IF IsCplx(x) \/ PyLt(x, RZero) THEN Call("cmath.log", <<x>>)
       ELSE LogCall("math.log", <<x>>, x)
  ELSE IF PyLe(b.b, RZero) \/ PyEq(b.b, ROne) THEN Raise("ValueError")      \* "Not a valid logarithm base"
       ELSE IF PyEq(x, RZero) THEN NegInf
       ELSE IF IsCplx(x) \/ PyLt(x, RZero) THEN Call("cmath.log", <<x, b.b>>)
       ELSE LogCall("math.log", <<x, b.b>>, x)
MLog10(x) == MLog(x, BGiven(NInt(10)))
MLog2(x)  == MLog(x, BGiven(NInt(2)))
MLog1p(x) ==
  IF PyEq(x, R(-1)) THEN NegInf
  ELSE IF IsCplx(x) \/ PyLt(x, R(-1)) THEN Call("cmath.log", <<Arg1p(x)>>)
  ELSE IF IsRealN(x) /\ x.v = RZero THEN CallEx("math.log1p", <<x>>, "float", RZero)
  ELSE Call("math.log1p", <<x>>)

\* definition (a decision table, priorities top down): an invalid base is an error whatever x is; the
\* logarithm of zero is -inf; negative and complex numbers use the complex logarithm, the others the real one
BadBase(b)  == b.given /\ (PyLe(b.b, RZero) \/ PyEq(b.b, ROne))
LogArgs(x, b) == IF b.given THEN <<x, b.b>> ELSE <<x>>
DMLog(x, b) ==
  CASE BadBase(b)                       -> [r |-> "raise", e |-> "ValueError"]
    [] ~BadBase(b) /\ PyEq(x, RZero)    -> [r |-> "ninf"]
    [] ~BadBase(b) /\ ~PyEq(x, RZero)   -> [r |-> "call",
                                            fn |-> IF IsCplx(x) \/ PyLt(x, RZero) THEN "cmath.log" ELSE "math.log",
                                            args |-> LogArgs(x, b)]
\* log1p(x) = log(1 + x)
DMLog1p(x) ==
  LET viaLog == DMLog(IF IsRealN(x) THEN [t |-> x.t, v |-> RAdd(ROne, x.v)] ELSE x, BNone)
  IN IF PyEq(x, R(-1)) THEN [r |-> "ninf"]
     ELSE [r |-> "call", domain |-> IF IsCplx(x) \/ PyLt(x, R(-1)) THEN "cmath" ELSE "math"]
SameOutcome(a, b) == a.r = b.r /\ (a.r = "raise" => a.e = b.e) /\ (a.r = "call" => (a.fn = b.fn /\ a.args = b.args))
Log1pMatches(out, d) == out.r = d.r /\ (out.r = "call" => ((d.domain = "cmath") <=> (out.fn = "cmath.log")))

---------------------------------------------------------------------------
(* factorial: big numbers as little-endian base-10000 limb lists           *)
LB == 10000
\* (TLCEval forces the value of an argument: TLC passes arguments lazily, and the carry chain of a long limb list
\*  would otherwise be re-evaluated at every use)
RECURSIVE LMulC(_, _, _, _, _)
LMulC(l, m, i, carry, acc) ==
  IF i > Len(l)
  THEN IF carry = 0 THEN acc ELSE LMulC(l, m, i, TLCEval(carry \div LB), TLCEval(Append(acc, carry % LB)))
  ELSE LET t == TLCEval(l[i] * m + carry) IN LMulC(l, m, i + 1, TLCEval(t \div LB), TLCEval(Append(acc, t % LB)))
LMul(l, m) == IF m = 0 THEN <<0>> ELSE LMulC(l, m, 1, 0, <<>>)
\* reduce(operator.mul, takewhile(lambda m: m <= n, count(2)), 1)
RECURSIVE FoldUp(_, _, _)
FoldUp(acc, m, n) == IF m > n THEN acc ELSE FoldUp(TLCEval(LMul(acc, m)), m + 1, n)
MFactorial(x) ==
  LET n == IF x.t = "float" /\ RIsInt(x.v) THEN [t |-> "int", v |-> x.v]               \* n.is_integer(): int(n)
           ELSE IF x.t = "special" /\ x.s = "-0.0" THEN [t |-> "int", v |-> RZero] ELSE x
  IN IF n.t \notin {"int", "bool"} THEN Raise("TypeError")      \* "Non-integer input"
     ELSE IF n.v[1] < 0 THEN Raise("ValueError")                \* "Input shouldn't be negative"
     ELSE [r |-> "big", limbs |-> FoldUp(<<1>>, 2, n.v[1])]
\* definition: n! = n * (n-1)!, 0! = 1 (the product taken downwards); defined on the integers >= 0 (floats
\* count when integer-valued); other numbers are TypeError ("Non-integer input"), negative ones ValueError
RECURSIVE FactDown(_, _)
FactDown(acc, n) == IF n <= 1 THEN acc ELSE FactDown(TLCEval(LMul(acc, n)), n - 1)
IntegerValued(x) == (x.t \in {"int", "bool", "float"} /\ RIsInt(x.v)) \/ (x.t = "special" /\ x.s = "-0.0")
DMFactorial(x) ==
  IF ~IntegerValued(x) THEN [r |-> "raise", e |-> "TypeError"]
  ELSE IF x.t # "special" /\ x.v[1] < 0 THEN [r |-> "raise", e |-> "ValueError"]
  ELSE [r |-> "big", limbs |-> FactDown(<<1>>, IF x.t = "special" THEN 0 ELSE x.v[1])]
RECURSIVE LimbsToInt(_, _)
LimbsToInt(l, i) == IF i > Len(l) THEN 0 ELSE l[i] + LB * LimbsToInt(l, i + 1)      \* only for values < 2^31
RECURSIVE SmallFact(_)
SmallFact(n) == IF n <= 1 THEN 1 ELSE n * SmallFact(n - 1)
LimbsOK(l) == /\ Len(l) >= 1 /\ \A i \in DOMAIN l : l[i] \in 0..(LB - 1)
              /\ (Len(l) > 1 => l[Len(l)] # 0)                                       \* no leading zero limb
FactLaws(x, out) ==
  out.r = "big" =>
    LET n == IF x.t = "special" THEN 0 ELSE x.v[1]
    IN /\ LimbsOK(out.limbs)
       /\ n <= 12 => LimbsToInt(out.limbs, 1) = SmallFact(n)
       /\ n >= 1 => out.limbs = LMul(FoldUp(<<1>>, 2, n - 1), n)                     \* n! = n * (n-1)!

---------------------------------------------------------------------------
(* dB10 / dB20: k * log10(|data|), -inf for zero                            *)
RECURSIVE Pow10(_)
Pow10(m) == IF m = 0 THEN 1 ELSE 10 * Pow10(m - 1)
\* |x| = 10^m for an integer m in -4..6 ?  (then the value is k*m exactly)
TenExps == -4..6
TenPow(m) == IF m >= 0 THEN R(Pow10(m)) ELSE Norm(1, Pow10(-m))
IsTenPower(x) == IsRealN(x) /\ \E m \in TenExps : RAbs(x.v) = TenPow(m)
TenLog(x)     == CHOOSE m \in TenExps : RAbs(x.v) = TenPow(m)
MDb(k, x) ==
  IF ~PyEq(x, RZero)                                     \* `if data != 0`
  THEN IF IsTenPower(x) THEN [r |-> "scaled", k |-> k, fn |-> "math.log10", args |-> <<ArgAbs(x)>>,
                               ex |-> [t |-> "float", v |-> R(k * TenLog(x))]]
       ELSE [r |-> "scaled", k |-> k, fn |-> "math.log10", args |-> <<ArgAbs(x)>>]
  ELSE NegInf
\* definition: a gain in decibels is k times the decimal logarithm of the magnitude (k = 10 for a squared
\* amplitude, 20 for an amplitude); sign and phase of the input do not matter; silence is -inf
DMDb(k, x) == IF PyEq(x, RZero) THEN [r |-> "ninf"]
              ELSE [r |-> "scaled", k |-> k, fn |-> "math.log10", args |-> <<ArgAbs(x)>>]
DbLaws(k, x, out) ==
  /\ out.r = DMDb(k, x).r /\ (out.r = "scaled" => (out.k = k /\ out.fn = "math.log10" /\ out.args = DMDb(k, x).args))
  /\ (out.r = "scaled" /\ "ex" \in DOMAIN out) =>
        /\ MDb(30 - k, x).ex.v = (IF k = 10 THEN RMul(R(2), out.ex.v) ELSE RDiv(out.ex.v, R(2)))    \* dB20 = 2 dB10
        /\ (IsRealN(x) => MDb(k, [t |-> x.t, v |-> RNeg(x.v)]).ex = out.ex)                         \* through abs

---------------------------------------------------------------------------
(* sign, absolute, cexp, phase                                             *)
\* +(x > 0) or -(x < 0)
MSign(x) ==
  IF ~Ordered(x) THEN Raise("TypeError")                       \* '>' not supported for complex (and strings vs int)
  ELSE LET first == IF PyGt(x, RZero) THEN 1 ELSE 0
       IN Exact("int", R(IF first # 0 THEN first ELSE (IF PyLt(x, RZero) THEN -1 ELSE 0)))
\* "1 if positive, -1 if negative, 0 otherwise"
DMSign(x) == Exact("int", R(IF PyGt(x, RZero) THEN 1 ELSE IF PyLt(x, RZero) THEN -1 ELSE 0))

IsSquare(n)  == \E q \in 0..n : q * q = n
SqrtI(n)     == CHOOSE q \in 0..n : q * q = n
\* |a + bj| exactly when a^2 + b^2 is the square of a rational
Norm2(x)     == RAdd(RMul(x.re, x.re), RMul(x.im, x.im))
HasExactAbs(x) == IsSquare(Norm2(x)[1]) /\ IsSquare(Norm2(x)[2])
MAbs(x) ==
  CASE IsRealN(x)  -> Exact(IF x.t = "bool" THEN "int" ELSE x.t, RAbs(x.v))
    [] IsCplx(x)   -> IF HasExactAbs(x) THEN CallEx("builtins.abs", <<x>>, "float", Norm(SqrtI(Norm2(x)[1]), SqrtI(Norm2(x)[2])))
                      ELSE Call("builtins.abs", <<x>>)
    [] IsSpec(x)   -> Call("builtins.abs", <<x>>)
    [] OTHER       -> Raise("TypeError")
\* cmath.exp; e^0 = 1
MCexp(x) == IF (IsRealN(x) \/ IsCplx(x)) /\ PyEq(x, RZero) THEN CallEx("cmath.exp", <<x>>, "complex", ROne)
            ELSE IF x.t = "other" THEN Raise("TypeError") ELSE Call("cmath.exp", <<x>>)
\* cmath.phase(z) = atan2(z.imag, z.real); on the axes a multiple of pi/2: ex = [t |-> "pi", v |-> multiple]
ReOf(x) == IF IsCplx(x) THEN x.re ELSE x.v
ImOf(x) == IF IsCplx(x) THEN x.im ELSE RZero
MPhase(x) ==
  IF x.t = "other" THEN Raise("TypeError")
  ELSE IF IsSpec(x) THEN Call("cmath.phase", <<x>>)
  ELSE LET re == ReOf(x)
           im == ImOf(x)
           alt == [fn |-> "math.atan2", args |-> <<NFloat(im), NFloat(re)>>]
       IN IF im = RZero THEN [r |-> "call", fn |-> "cmath.phase", args |-> <<x>>, alt |-> alt,
                              ex |-> [t |-> "pi", v |-> IF RLt(re, RZero) THEN ROne ELSE RZero]]
          ELSE IF re = RZero THEN [r |-> "call", fn |-> "cmath.phase", args |-> <<x>>, alt |-> alt,
                                   ex |-> [t |-> "pi", v |-> IF RLt(im, RZero) THEN Norm(-1, 2) ELSE Norm(1, 2)]]
          ELSE [r |-> "call", fn |-> "cmath.phase", args |-> <<x>>, alt |-> alt]
\* the quadrant the angle must lie in, in units of pi/2: <<lo, hi>> (closed)
DMQuadrant(x) == LET re == ReOf(x)
                     im == ImOf(x)
                 IN IF ~RLt(im, RZero)
                    THEN (IF ~RLt(re, RZero) THEN <<0, 1>> ELSE <<1, 2>>)
                    ELSE (IF ~RLt(re, RZero) THEN <<-1, 0>> ELSE <<-2, -1>>)
PhaseLaws(x, out) ==
  (out.r = "call" /\ "ex" \in DOMAIN out) =>
      LET q == DMQuadrant(x) IN RLe(R(q[1]), RMul(R(2), out.ex.v)) /\ RLe(RMul(R(2), out.ex.v), R(q[2]))

---------------------------------------------------------------------------
(* constants and exported names                                            *)
\* value * 10^6, truncated (the driver logs int(value * 10**6))
MathConsts == [pi  |-> [fn |-> "math.pi", micro |-> 3141592],
               e   |-> [fn |-> "math.e",  micro |-> 2718281],
               inf |-> [fn |-> "inf", micro |-> 0],
               nan |-> [fn |-> "nan", micro |-> 0]]
OwnNames  == <<"absolute", "pi", "e", "cexp", "ln", "log", "log1p", "log10", "log2", "factorial", "dB10", "dB20",
               "inf", "nan", "phase", "sign">>
\* "All functions from math with one numeric input"
MathNames == <<"acos", "acosh", "asin", "asinh", "atan", "atanh", "ceil", "cos", "cosh", "degrees", "erf", "erfc",
               "exp", "expm1", "fabs", "floor", "frexp", "gamma", "isinf", "isnan", "lgamma", "modf", "radians",
               "sin", "sinh", "sqrt", "tan", "tanh", "trunc">>
SeqSet(s) == {s[i] : i \in DOMAIN s}
\* __all__ = [own names]; __all__.extend(_math_names)
MAll == [names   |-> OwnNames \o MathNames,
         \* wrapper name -> the function it must keep name and docstring of
         wraps   |-> [n \in SeqSet(MathNames) |-> "math." \o n] @@
                     ("absolute" :> "builtins.abs") @@ ("cexp" :> "cmath.exp") @@ ("phase" :> "cmath.phase"),
         aliases |-> [ln |-> "log"],
         consts  |-> {"pi", "e", "inf", "nan"}]
AllLaws(out) ==
  /\ Len(out.names) = Cardinality(SeqSet(out.names))                        \* no name twice
  /\ Len(out.names) = 45
  /\ SeqSet(OwnNames) \cap SeqSet(MathNames) = {}
  /\ DOMAIN out.wraps \subseteq SeqSet(out.names)
  /\ out.consts \subseteq SeqSet(out.names) /\ DOMAIN out.aliases \subseteq SeqSet(out.names)
  /\ out.wraps["exp"] = "math.exp" /\ out.wraps["cexp"] = "cmath.exp"      \* two exponentials, two names
============================================================================
