CONSTANTS
  Powers <- PowersT
  Coefs <- CoefsT
  Zeros <- ZerosT
  MaxTerms = 3
INIT Init
NEXT Next
VIEW View
INVARIANT Refines
INVARIANT NoZeroStored
INVARIANT ViewsCoherent
PROPERTY FrozenIsFinal
PROPERTY CreationOrder
CHECK_DEADLOCK FALSE
