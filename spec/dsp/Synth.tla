------------------------------- MODULE Synth -------------------------------
(***************************************************************************)
(* audiolazy.lazy_synth + lazy_poly.resample  (property C19).              *)
(*                                                                         *)
(* One generator = one case record `case` (field `gen` names the kind).    *)
(* OPERATIONAL LAYER (shaped like the code): every generator is a small    *)
(* machine  XInit(c) / XStep(c, s, t)  that mirrors its Python loop:       *)
(*   mc      modulo_counter: the eight branches chosen by which of (start, *)
(*           modulo, step) are streams, the lastp/c accumulator, the       *)
(*           `steps = int(modulo/step)` batched fast path, step = 0        *)
(*   line    slope m computed once, begin + i*m for i < int(dur + .5)      *)
(*   const   ones / zeros, impulse, noise (length only: rint(dur))         *)
(*   adsr    four counted segments (phase machine); attack (a, d, sustain) *)
(*   tl      TableLookup.__call__: modulo_counter(part, size, step) and    *)
(*           tbl[int(i)]*(1-f) + tbl[ceil(i)-size]*f ;  tlget: __getitem__ *)
(*   rs      resample: deque of order+1 samples, idx, `while idx >         *)
(*           threshold: append next; idx -= 1`, Lagrange weights           *)
(*   ks      karplus_strong: register machine of the linearised comb       *)
(* One Step action per family emits one sample; the generator's own end is *)
(* the `done` flag.                                                        *)
(* DEFINITION LAYER (shaped like the property): DefLen / DefAt give the    *)
(* closed-form length and the closed-form t-th sample (running sum mod m,  *)
(* begin + i*(end-begin)/(dur-finish), piecewise-linear envelopes, cyclic  *)
(* linear interpolation, Lagrange interpolation at m*old/new, the comb's   *)
(* difference equation).  The invariants at the end relate the two.        *)
(* Numbers are exact rationals (module Rat); table entries, resampler      *)
(* inputs and comb memories are linear forms over NS symbols (module Lin), *)
(* so those identities hold for every sample value.                        *)
(***************************************************************************)
EXTENDS Lin, TLC, FiniteSets

CONSTANTS NS,        \* number of symbols of the linear forms
          Cases      \* set of case records (every case has .gen and .cap = samples to observe)

Inf   == 1000000
RHalf == <<1, 2>>

\* ---- arguments that may be a number or a (finite) stream ------------------------------------
Num(v)      == [k |-> "n", v |-> v]
Str(s)      == [k |-> "s", s |-> s]
IsS(a)      == a.k = "s"
ArgAt(a, t) == IF a.k = "n" THEN a.v ELSE a.s[t + 1]            \* t = 0, 1, ...
ArgLen(a)   == IF a.k = "n" THEN Inf ELSE Len(a.s)
Lo2(x, y)   == IF x < y THEN x ELSE y
Lo3(x, y, z) == Lo2(x, Lo2(y, z))

\* ---- durations: a number, float("inf") or None ----------------------------------------------
DNum(v)    == [k |-> "num", v |-> v]
DInf       == [k |-> "inf"]
DNone      == [k |-> "none"]
Endless(d) == d.k # "num"
SegLen(x)  == RTrunc(RAdd(x, RHalf))                           \* int(x + .5)
DurLen(d)  == IF Endless(d) THEN Inf ELSE SegLen(d.v)

Stop       == [more |-> FALSE]
Y(y, s)    == [more |-> TRUE, y |-> y, s |-> s]

(***************************************************************************)
(* modulo_counter                                                          *)
(* case: [gen |-> "mc", start, modulo, step : Num(..) | Str(..)]           *)
(***************************************************************************)
Mod2(x, m)  == RMod(RMod(x, m), m)                             \* "% modulo % modulo"
McLen(c)    == Lo3(ArgLen(c.start), ArgLen(c.modulo), ArgLen(c.step))    \* zip ends with the shortest
McNumMS(c)  == ~IsS(c.modulo) /\ ~IsS(c.step)
McSteps(c)  == RTrunc(RDiv(c.modulo.v, c.step.v))              \* int(modulo / step)
McBatch(c)  == McNumMS(c) /\ c.step.v # RZero /\ McSteps(c) > 1
McInit(c)   == [c |-> IF IsS(c.start) THEN RZero ELSE c.start.v, lastp |-> RZero, k |-> 0]

McStep(c, s, t) ==
  LET p == ArgAt(c.start, t)
      m == ArgAt(c.modulo, t)
      d == ArgAt(c.step, t)
  IN
  IF IsS(c.start) THEN
    LET c1 == RAdd(s.c, RSub(p, s.lastp)) IN                   \* c += p - lastp
    IF McNumMS(c) /\ d = RZero THEN Y(Mod2(p, m), s)           \* step == 0: yield p % modulo % modulo
    ELSE IF McBatch(c) THEN                                    \* steps > 1: batched fast path
      LET k1 == s.k + 1 IN
      Y(Mod2(RAdd(c1, RMul(R(s.k), d)), m),
        IF k1 = McSteps(c)
        THEN [c |-> Mod2(RAdd(c1, RMul(R(McSteps(c)), d)), m), lastp |-> p, k |-> 0]
        ELSE [c |-> c1, lastp |-> p, k |-> k1])
    ELSE LET c2 == Mod2(c1, m) IN                              \* generic loop
      Y(c2, [c |-> RAdd(c2, d), lastp |-> p, k |-> 0])
  ELSE
    IF McNumMS(c) /\ d = RZero THEN Y(Mod2(c.start.v, m), s)   \* c = start % modulo % modulo; yield c forever
    ELSE IF McBatch(c) THEN
      LET k1 == s.k + 1 IN
      Y(Mod2(RAdd(s.c, RMul(R(s.k), d)), m),
        IF k1 = McSteps(c)
        THEN [s EXCEPT !.c = Mod2(RAdd(s.c, RMul(R(McSteps(c)), d)), m), !.k = 0]
        ELSE [s EXCEPT !.k = k1])
    ELSE LET c2 == Mod2(s.c, m) IN
      Y(c2, [s EXCEPT !.c = RAdd(c2, d)])

McGo(c, s, t) == IF t >= McLen(c) THEN Stop ELSE McStep(c, s, t)

RECURSIVE McRun(_, _)
\* outputs of the first t steps of the machine (used to compare branches with each other)
McRun(c, t) == IF t = 0 THEN [s |-> McInit(c), out |-> <<>>]
               ELSE LET r == McRun(c, t - 1)
                        q == McStep(c, r.s, t - 1)
                    IN [s |-> q.s, out |-> Append(r.out, q.y)]

\* --- definition: running sum of start and all earlier steps, reduced by the modulo -----------
RECURSIVE CountFrom(_, _, _, _)
CountFrom(c, t, n, acc) ==
  IF t >= n THEN <<>>
  ELSE <<RMod(RAdd(ArgAt(c.start, t), acc), ArgAt(c.modulo, t))>>
       \o CountFrom(c, t + 1, n, IF t + 1 < n THEN RAdd(acc, ArgAt(c.step, t)) ELSE acc)
DefCountSeq(c, n) == CountFrom(c, 0, n, RZero)
\* second reading for a time-varying modulo: the previous OUTPUT plus the previous step (plus the
\* movement of start) reduced by the current modulo; equal to the first for a constant modulo
RECURSIVE ProgFrom(_, _, _, _)
ProgFrom(c, t, n, prev) ==
  IF t >= n THEN <<>>
  ELSE LET v == IF t = 0 THEN RMod(ArgAt(c.start, 0), ArgAt(c.modulo, 0))
                ELSE RMod(RAdd(RAdd(prev, ArgAt(c.step, t - 1)),
                               RSub(ArgAt(c.start, t), ArgAt(c.start, t - 1))), ArgAt(c.modulo, t))
       IN <<v>> \o ProgFrom(c, t + 1, n, v)
DefProgSeq(c, n) == ProgFrom(c, 0, n, RZero)

IsConstArg(a)  == IsS(a) => (Len(a.s) > 0 /\ \A i \in DOMAIN a.s : a.s[i] = a.s[1])
ConstModulo(c) == ~IsS(c.modulo) \/ \A i \in DOMAIN c.modulo.s : c.modulo.s[i] = c.modulo.s[1]
AsNum(a)       == IF IsS(a) THEN Num(a.s[1]) ELSE a
AsNumbers(c)   == [c EXCEPT !.start = AsNum(c.start), !.modulo = AsNum(c.modulo), !.step = AsNum(c.step)]
McInRange(c, out) == \A t \in DOMAIN out : RLe(RZero, out[t]) /\ RLt(out[t], ArgAt(c.modulo, t - 1))

(***************************************************************************)
(* line / fadein / fadeout:  [gen |-> "line", dur, begin, end, fin]        *)
(***************************************************************************)
FinR(c)    == IF c.fin THEN ROne ELSE RZero
LineLen(c) == SegLen(c.dur)
LineStep(c, s, t) ==
  IF t >= LineLen(c) THEN Stop
  ELSE LET m == RDiv(RSub(c.end, c.begin), RSub(c.dur, FinR(c)))           \* the slope, computed once
       IN Y(RAdd(c.begin, RMul(R(t), m)), s)
DefLine(c, i) == RAdd(c.begin, RDiv(RMul(R(i), RSub(c.end, c.begin)), RSub(c.dur, FinR(c))))

(***************************************************************************)
(* ones / zeros: [gen |-> "const", which |-> "ones"|"zeros", dur]          *)
(* impulse:      [gen |-> "impulse", dur, one, zero]                       *)
(* noise:        [gen |-> "noise", which |-> "white"|"gauss", dur, low, high] (values not modelled) *)
(***************************************************************************)
ConstVal(c) == IF c.which = "ones" THEN ROne ELSE RZero
ConstStep(c, s, t) ==
  IF Endless(c.dur) THEN Y(ConstVal(c), s)                     \* while True: yield
  ELSE IF t < RTrunc(RAdd(RHalf, c.dur.v)) THEN Y(ConstVal(c), s) ELSE Stop

ImpulseStep(c, s, t) ==
  IF Endless(c.dur) THEN Y(IF t = 0 THEN c.one ELSE c.zero, s)
  ELSE IF RLe(RHalf, c.dur.v)                                   \* elif dur >= .5
       THEN IF t = 0 THEN Y(c.one, s)
            ELSE IF t - 1 < RTrunc(RSub(c.dur.v, RHalf)) THEN Y(c.zero, s) ELSE Stop
       ELSE Stop

NoiseStep(c, s, t) ==
  IF Endless(c.dur) THEN Y("rnd", s)
  ELSE IF t < RInt(c.dur.v) THEN Y("rnd", s) ELSE Stop          \* xrange(rint(dur))

(***************************************************************************)
(* adsr:   [gen |-> "adsr", dur, a, d, s, r]   (numbers)                   *)
(* attack: [gen |-> "attack", a, d, s : Num | Str]                         *)
(***************************************************************************)
AdsrLens(c) == LET la == SegLen(c.a)
                   ld == SegLen(c.d)
                   lr == SegLen(c.r)
               IN <<la, ld, SegLen(c.dur) - la - ld - lr, lr>>
RECURSIVE PhaseSkip(_, _)
\* leave exhausted (or empty) segments: the next `for` loop starts
PhaseSkip(L, s) == IF s.ph <= Len(L) /\ s.i >= L[s.ph] THEN PhaseSkip(L, [ph |-> s.ph + 1, i |-> 0]) ELSE s
AdsrStep(c, s0, t) ==
  LET s == PhaseSkip(AdsrLens(c), s0) IN
  IF s.ph > 4 THEN Stop
  ELSE Y((CASE s.ph = 1 -> RMul(R(s.i), RDiv(ROne, c.a))                                \* sample * m_a
            [] s.ph = 2 -> RAdd(ROne, RMul(R(s.i), RDiv(RSub(c.s, ROne), c.d)))        \* 1 + sample * m_d
            [] s.ph = 3 -> c.s
            [] s.ph = 4 -> RAdd(c.s, RMul(R(s.i), RDiv(RNeg(c.s), c.r)))),             \* s + sample * m_r
         [s EXCEPT !.i = @ + 1])
\* definition: total duration int(dur+.5); attack from 0 up to 1 over a, decay from 1 to s over d,
\* release from s to 0 over the LAST int(r+.5) samples, sustain level in between
DefAdsr(c, t) ==
  LET la == SegLen(c.a)
      ld == SegLen(c.d)
      rs == SegLen(c.dur) - SegLen(c.r)
  IN IF t < la THEN RDiv(R(t), c.a)
     ELSE IF t < la + ld THEN RAdd(ROne, RDiv(RMul(R(t - la), RSub(c.s, ROne)), c.d))
     ELSE IF t < rs THEN c.s
     ELSE RMul(c.s, RSub(ROne, RDiv(R(t - rs), c.r)))

AttLens(c) == <<SegLen(c.a), SegLen(c.d)>>
AttackStep(c, s0, t) ==
  LET s  == PhaseSkip(AttLens(c), s0)
      s0v == ArgAt(c.s, 0)                                       \* s = next(it_s)
  IN CASE s.ph = 1 -> Y(RMul(R(s.i), RDiv(ROne, c.a)), [s EXCEPT !.i = @ + 1])
       [] s.ph = 2 -> Y(RAdd(ROne, RMul(R(s.i), RDiv(RSub(s0v, ROne), c.d))), [s EXCEPT !.i = @ + 1])
       [] OTHER    -> IF ~IsS(c.s) THEN Y(c.s.v, s)                                     \* while True: yield s
                      ELSE IF s.i + 2 <= Len(c.s.s) THEN Y(c.s.s[s.i + 2], [s EXCEPT !.i = @ + 1])   \* for s in it_s
                      ELSE Stop
DefAttackAD(c, t) ==      \* attack and decay part (t < la + ld)
  LET la == SegLen(c.a) IN
  IF t < la THEN RDiv(R(t), c.a)
  ELSE RAdd(ROne, RDiv(RMul(R(t - la), RSub(ArgAt(c.s, 0), ROne)), c.d))
AttackADLen(c) == SegLen(c.a) + SegLen(c.d)

(***************************************************************************)
(* TableLookup: [gen |-> "tl", size, part, step : Num | Str]  (table units: *)
(*   part = phase * size / (cycles*2pi), step = freq * size / (cycles*2pi)) *)
(*              [gen |-> "tlget", size, idx]                                *)
(* table entry i is symbol i+1                                              *)
(***************************************************************************)
Tbl(c, i)    == LSym(NS, (i % c.size) + 1)                      \* Python index i in -size..size-1 and cyclic
TlCounter(c) == [gen |-> "mc", start |-> c.part, modulo |-> Num(R(c.size)), step |-> c.step]
TlInterp(c, idx) ==       \* tbl[int(idx)] * (1. - (idx - int(idx))) + tbl[int(ceil(idx)) - total_length] * (idx - int(idx))
  LET ii == RTrunc(idx)
      fr == RSub(idx, R(ii))
  IN LAdd(LScale(RSub(ROne, fr), Tbl(c, ii)), LScale(fr, Tbl(c, RCeil(idx) - c.size)))
TlStep(c, s, t) ==
  IF t >= McLen(TlCounter(c)) THEN Stop
  ELSE LET q == McStep(TlCounter(c), s, t) IN Y(TlInterp(c, q.y), q.s)
TlGetStep(c, s, t) ==
  IF t >= 1 THEN Stop
  ELSE LET ii == RTrunc(c.idx)
           fr == RSub(c.idx, R(ii))
       IN Y(LAdd(LScale(RSub(ROne, fr), Tbl(c, ii)), LScale(fr, Tbl(c, RCeil(c.idx)))), s)
\* definition: cyclic linear interpolation of the table at position pos
CyclicInterp(c, pos) ==
  LET fl == RFloor(pos)
      f  == RSub(pos, R(fl))
  IN LAdd(LScale(RSub(ROne, f), Tbl(c, fl)), LScale(f, Tbl(c, fl + 1)))

(***************************************************************************)
(* resample: [gen |-> "rs", len, old, new, order, zero |-> "sym"|"num"]     *)
(* input sample i (0-based) is symbol i+1, the zero value symbol NS         *)
(***************************************************************************)
RsZero(c)  == IF c.zero = "sym" THEN LSym(NS, NS) ELSE LZero(NS)
RsX(c, i)  == IF i < 0 THEN RsZero(c) ELSE LSym(NS, i + 1)
RsThr(c)   == Norm(c.order + 1, 2)                              \* threshold = .5 * (order + 1)
RsDelta(c) == RDiv(c.old, c.new)                                \* step = old / new
RsTake(c)  == RInt(RsThr(c))                                    \* sig.take(rint(threshold))
\* Waring-Lagrange weight of node j among nodes 0..p at abscissa x
RECURSIVE SyLgW(_, _, _, _)
SyLgW(p, j, x, k) == IF k > p THEN ROne
                     ELSE IF k = j THEN SyLgW(p, j, x, k + 1)
                     ELSE RMul(RDiv(RSub(x, R(k)), R(j - k)), SyLgW(p, j, x, k + 1))
RECURSIVE SyLgSum(_, _, _)
SyLgSum(data, x, j) == IF j > Len(data) - 1 THEN LZero(NS)
                       ELSE LAdd(LScale(SyLgW(Len(data) - 1, j, x, 0), data[j + 1]), SyLgSum(data, x, j + 1))
SyLagrange(data, x) == SyLgSum(data, x, 0)                      \* lagrange(enumerate(data))(x)

RsInit(c) ==
  IF c.len < RsTake(c) THEN [alive |-> FALSE]                   \* the input ends before the first window is full
  ELSE [alive |-> TRUE,
        data  |-> [j \in 1..(c.order + 1) |-> RsX(c, j + RsTake(c) - c.order - 2)],   \* deque([zero]*(order+1)) extended
        idx   |-> R(RTrunc(RsThr(c))),
        read  |-> RsTake(c)]
RECURSIVE RsFeed(_, _)
\* while idx > threshold: data.append(next(isig)); idx -= 1      (the resampler ends with its input)
RsFeed(c, s) == IF ~RLt(RsThr(c), s.idx) THEN s
                ELSE IF s.read >= c.len THEN [alive |-> FALSE]
                ELSE RsFeed(c, [alive |-> TRUE, data |-> Append(Tail(s.data), RsX(c, s.read)),
                                idx |-> RSub(s.idx, ROne), read |-> s.read + 1])
RsStep(c, s, t) ==
  IF ~s.alive THEN Stop
  ELSE Y(SyLagrange(s.data, s.idx), RsFeed(c, [s EXCEPT !.idx = RAdd(@, RsDelta(c))]))

\* definition: output m = order-p Lagrange interpolation of p+1 consecutive input samples that enclose
\* the position m*old/new (zero-extended on the left, nothing invented on the right)
RsPos(c, m)      == RMul(R(m), RsDelta(c))
RsWin(c, lo, x)  == SyLagrange([j \in 1..(c.order + 1) |-> RsX(c, lo + j - 1)], RSub(x, R(lo)))
RsWindows(c, m)  == {lo \in (RCeil(RsPos(c, m)) - c.order)..RFloor(RsPos(c, m)) : lo + c.order <= c.len - 1}
RsAllowed(c, m)  == {RsWin(c, lo, RsPos(c, m)) : lo \in RsWindows(c, m)}
\* output m MUST exist when every enclosing window lies inside the input
RsDemanded(c, m) == RFloor(RsPos(c, m)) + c.order <= c.len - 1

(***************************************************************************)
(* karplus_strong: [gen |-> "ks", delay, alpha]   delay = 2*pi/freq >= 1,   *)
(* alpha = e**(-delay/tau); memory item k (symbol k) is y[-k]; input zeros() *)
(***************************************************************************)
KsL(c)   == RFloor(c.delay)
KsF(c)   == RSub(c.delay, R(KsL(c)))
KsRegs(c) == IF KsF(c) = RZero THEN KsL(c) ELSE KsL(c) + 1
KsInit(c) == [m |-> [k \in 1..KsRegs(c) |-> LSym(NS, k)]]
KsStep(c, s, t) ==
  LET y == IF KsF(c) = RZero THEN LScale(c.alpha, s.m[KsL(c)])
           ELSE LAdd(LScale(RMul(c.alpha, RSub(ROne, KsF(c))), s.m[KsL(c)]),
                     LScale(RMul(c.alpha, KsF(c)), s.m[KsL(c) + 1]))
  IN Y(y, [m |-> [k \in 1..KsRegs(c) |-> IF k = 1 THEN y ELSE s.m[k - 1]]])
RECURSIVE DefKsSeq(_, _)
\* y[n] = alpha * ((1-f) * y[n-L] + f * y[n-L-1])
DefKsSeq(c, n) ==
  IF n = 0 THEN <<>>
  ELSE LET prev == DefKsSeq(c, n - 1)
           Yv(i) == IF i < 0 THEN LSym(NS, -i) ELSE prev[i + 1]
           t     == n - 1
       IN Append(prev, LAdd(LScale(RMul(c.alpha, RSub(ROne, KsF(c))), Yv(t - KsL(c))),
                            IF KsF(c) = RZero THEN LZero(NS)
                            ELSE LScale(RMul(c.alpha, KsF(c)), Yv(t - KsL(c) - 1))))

(***************************************************************************)
(* Guards: inputs the property does not cover                              *)
(***************************************************************************)
NonNeg(x)   == RLe(RZero, x)
DurOk(d)    == Endless(d) \/ NonNeg(d.v)
ArgAll(a, P(_)) == IF IsS(a) THEN \A i \in DOMAIN a.s : P(a.s[i]) ELSE P(a.v)
Positive(x) == RLt(RZero, x)
Covered(c) ==
  CASE c.gen = "mc"      -> ArgAll(c.modulo, Positive)
    [] c.gen = "line"    -> NonNeg(c.dur) /\ ~(LineLen(c) >= 1 /\ c.dur = FinR(c))    \* slope of an existing sample undefined
    [] c.gen = "const"   -> DurOk(c.dur)
    [] c.gen = "impulse" -> DurOk(c.dur)
    [] c.gen = "noise"   -> DurOk(c.dur) /\ RLe(c.low, c.high)
    [] c.gen = "adsr"    -> NonNeg(c.a) /\ NonNeg(c.d) /\ NonNeg(c.r) /\ AdsrLens(c)[3] >= 0
    [] c.gen = "attack"  -> NonNeg(c.a) /\ NonNeg(c.d) /\ ArgLen(c.s) >= 1
    [] c.gen = "tl"      -> c.size >= 1
    [] c.gen = "tlget"   -> c.size >= 1 /\ NonNeg(c.idx)
    [] c.gen = "rs"      -> Positive(c.old) /\ Positive(c.new) /\ c.order >= 1 /\ c.len >= 0
    [] c.gen = "ks"      -> RLe(ROne, c.delay)
    [] OTHER             -> FALSE

(***************************************************************************)
(* The machine                                                             *)
(***************************************************************************)
GInit(c) ==
  CASE c.gen = "mc"     -> McInit(c)
    [] c.gen = "tl"     -> McInit(TlCounter(c))
    [] c.gen = "adsr"   -> [ph |-> 1, i |-> 0]
    [] c.gen = "attack" -> [ph |-> 1, i |-> 0]
    [] c.gen = "rs"     -> RsInit(c)
    [] c.gen = "ks"     -> KsInit(c)
    [] OTHER            -> [i |-> 0]

GStep(c, s, t) ==
  CASE c.gen = "mc"      -> McGo(c, s, t)
    [] c.gen = "line"    -> LineStep(c, s, t)
    [] c.gen = "const"   -> ConstStep(c, s, t)
    [] c.gen = "impulse" -> ImpulseStep(c, s, t)
    [] c.gen = "noise"   -> NoiseStep(c, s, t)
    [] c.gen = "adsr"    -> AdsrStep(c, s, t)
    [] c.gen = "attack"  -> AttackStep(c, s, t)
    [] c.gen = "tl"      -> TlStep(c, s, t)
    [] c.gen = "tlget"   -> TlGetStep(c, s, t)
    [] c.gen = "rs"      -> RsStep(c, s, t)
    [] c.gen = "ks"      -> KsStep(c, s, t)

VARIABLES case, n, out, st, done
vars == <<case, n, out, st, done>>

Init == /\ case \in Cases
        /\ n = 0 /\ out = <<>> /\ done = FALSE
        /\ st = GInit(case)

Emit ==
  /\ ~done /\ n < case.cap
  /\ LET q == GStep(case, st, n) IN
       IF q.more THEN /\ out' = Append(out, q.y) /\ st' = q.s /\ n' = n + 1 /\ done' = FALSE
                 ELSE /\ done' = TRUE /\ UNCHANGED <<out, st, n>>
  /\ UNCHANGED case

StepCounter  == case.gen = "mc" /\ Emit
StepLine     == case.gen = "line" /\ Emit
StepConst    == case.gen \in {"const", "impulse", "noise"} /\ Emit
StepEnvelope == case.gen \in {"adsr", "attack"} /\ Emit
StepTable    == case.gen \in {"tl", "tlget"} /\ Emit
StepResample == case.gen = "rs" /\ Emit
StepKarplus  == case.gen = "ks" /\ Emit
Next == StepCounter \/ StepLine \/ StepConst \/ StepEnvelope \/ StepTable \/ StepResample \/ StepKarplus
Spec == Init /\ [][Next]_vars

(***************************************************************************)
(* Definition layer, uniform view: closed-form length and t-th sample for  *)
(* the generators whose statement fixes both                               *)
(***************************************************************************)
Exact(c) == c.gen \in {"line", "const", "impulse", "adsr", "tl", "tlget", "ks"}
            \/ (c.gen = "mc" /\ ConstModulo(c))
DefLen(c) ==
  CASE c.gen = "mc"      -> McLen(c)
    [] c.gen = "line"    -> LineLen(c)
    [] c.gen = "const"   -> DurLen(c.dur)
    [] c.gen = "impulse" -> DurLen(c.dur)
    [] c.gen = "noise"   -> DurLen(c.dur)
    [] c.gen = "adsr"    -> SegLen(c.dur)
    [] c.gen = "tl"      -> Lo2(ArgLen(c.part), ArgLen(c.step))
    [] c.gen = "tlget"   -> 1
    [] c.gen = "ks"      -> Inf
DefSeq(c, k) ==
  CASE c.gen = "mc"      -> DefCountSeq(c, k)
    [] c.gen = "line"    -> [t \in 1..k |-> DefLine(c, t - 1)]
    [] c.gen = "const"   -> [t \in 1..k |-> ConstVal(c)]
    [] c.gen = "impulse" -> [t \in 1..k |-> IF t = 1 THEN c.one ELSE c.zero]
    [] c.gen = "adsr"    -> [t \in 1..k |-> DefAdsr(c, t - 1)]
    [] c.gen = "tl"      -> LET pos == DefCountSeq(TlCounter(c), k) IN [t \in 1..k |-> CyclicInterp(c, pos[t])]
    [] c.gen = "tlget"   -> [t \in 1..k |-> CyclicInterp(c, c.idx)]
    [] c.gen = "ks"      -> DefKsSeq(c, k)

\* What the property promises about an observation: `o` = samples seen, `ended` = the generator ended
\* by itself after them.  Returns "ok" or the name of the broken clause.  (Used by the invariants
\* below on the model's own run and by SynthTrace on runs of the real code.)
LengthClause(c, o, ended, L) == IF Len(o) > L THEN "too-long"
                                ELSE IF ended /\ Len(o) # L THEN "too-short" ELSE "ok"
AttackClause(c, o, ended) ==
  LET ad == AttackADLen(c)
      k  == Len(o) - ad                                          \* samples seen after the decay
  IN IF \E t \in 1..Lo2(Len(o), ad) : o[t] # DefAttackAD(c, t - 1) THEN "value"
     ELSE IF ~IsS(c.s) THEN (IF ended THEN "too-short"
                             ELSE IF \E t \in (ad + 1)..Len(o) : o[t] # c.s.v THEN "sustain" ELSE "ok")
     ELSE IF Len(o) < ad THEN (IF ended THEN "too-short" ELSE "ok")
     \* a stream sustain: its first value is the level the decay reaches; the statement does not say
     \* whether that value is repeated afterwards, so both tails are accepted
     ELSE LET tail == SubSeq(o, ad + 1, Len(o))
              fits(from) == /\ k <= Len(c.s.s) - from + 1
                            /\ tail = SubSeq(c.s.s, from, from + k - 1)
                            /\ (ended => k = Len(c.s.s) - from + 1)
          IN IF fits(1) \/ fits(2) THEN "ok" ELSE "sustain"
ResampleClause(c, o, ended) ==
  IF \E m \in 1..Len(o) : o[m] \notin RsAllowed(c, m - 1) THEN "value"
  ELSE IF ended /\ RsDemanded(c, Len(o)) THEN "too-short"
  ELSE "ok"
CounterClause(c, o, ended) ==
  LET lc == LengthClause(c, o, ended, McLen(c)) IN
  IF lc # "ok" THEN lc
  ELSE IF ~McInRange(c, o) THEN "range"
  ELSE IF o = DefCountSeq(c, Len(o)) THEN "ok"
  ELSE IF ~ConstModulo(c) /\ o = DefProgSeq(c, Len(o)) THEN "ok"   \* either reading of a varying modulo
  ELSE "value"
Promise(c, o, ended) ==
  CASE c.gen = "mc"     -> CounterClause(c, o, ended)
    [] c.gen = "noise"  -> LengthClause(c, o, ended, DefLen(c))
    [] c.gen = "attack" -> AttackClause(c, o, ended)
    [] c.gen = "rs"     -> ResampleClause(c, o, ended)
    [] OTHER            -> LET lc == LengthClause(c, o, ended, DefLen(c)) IN
                           IF lc # "ok" THEN lc
                           ELSE IF o # DefSeq(c, Len(o)) THEN "value" ELSE "ok"

(***************************************************************************)
(* Invariants                                                              *)
(***************************************************************************)
Is(g)          == case.gen = g
OnePerStep     == Len(out) = n
\* the operational machine keeps the property's promise in every state
Conforms       == Promise(case, out, done) = "ok"
\* ... clause by clause
NoDrift        == Is("mc") /\ ConstModulo(case) => out = DefCountSeq(case, n)
ProgReading    == Is("mc") => out = DefProgSeq(case, n)          \* what the code does for a varying modulo
InRange        == Is("mc") => McInRange(case, out)
DoubleModIsId  == Is("mc") => \A t \in DOMAIN out : Mod2(out[t], ArgAt(case.modulo, t - 1)) = out[t]
AllBranchesAgree ==      \* constant streams behave exactly as the all-numbers branch (and its fast path)
  Is("mc") /\ IsConstArg(case.start) /\ IsConstArg(case.modulo) /\ IsConstArg(case.step)
     => out = McRun(AsNumbers(case), n).out
ClosedFormCounter ==     \* no drift against the multiplicative closed form
  Is("mc") /\ IsConstArg(case.start) /\ IsConstArg(case.modulo) /\ IsConstArg(case.step)
     => \A t \in DOMAIN out : out[t] = RMod(RAdd(AsNum(case.start).v, RMul(R(t - 1), AsNum(case.step).v)),
                                            AsNum(case.modulo).v)
CounterEnds    == Is("mc") => n <= McLen(case) /\ (done => n = McLen(case))
LineShape      == Is("line") => /\ \A t \in DOMAIN out : out[t] = DefLine(case, t - 1)
                                /\ n <= LineLen(case) /\ (done => n = LineLen(case))
                                /\ (case.fin /\ RIsInt(case.dur) /\ done /\ n >= 2 => out[n] = case.end)   \* linspace
                                /\ (n >= 1 => out[1] = case.begin)
Durations      == case.gen \in {"const", "impulse", "noise"}
                    => n <= DurLen(case.dur) /\ (done => n = DurLen(case.dur)) /\ (Endless(case.dur) => ~done)
AdsrShape      == Is("adsr") => /\ out = DefSeq(case, n)
                                /\ (done => n = SegLen(case.dur))
AttackShape    == Is("attack") => AttackClause(case, out, done) = "ok"
TableCyclic    == case.gen \in {"tl", "tlget"} => out = DefSeq(case, n)
ResampleValue  == Is("rs") => \A m \in DOMAIN out : out[m] \in RsAllowed(case, m - 1)
ResampleInteger == Is("rs") => \A m \in DOMAIN out : RIsInt(RsPos(case, m - 1))
                                  => out[m] = RsX(case, RFloor(RsPos(case, m - 1)))
ResampleTracks ==        \* the (idx, read) bookkeeping is the position m*old/new
  Is("rs") /\ ~done /\ st.alive =>
     RAdd(RSub(st.idx, R(RTrunc(RsThr(case)))), R(st.read - RsTake(case))) = RsPos(case, n)
ResampleEnds   == Is("rs") /\ done => ~RsDemanded(case, n)
KarplusComb    == Is("ks") => out = DefKsSeq(case, n)

ASSUME \A c \in Cases : Covered(c)
=============================================================================
