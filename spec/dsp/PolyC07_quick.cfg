CONSTANTS
  Tier = "quick"
  MaxExp = 3
INIT Init
NEXT Next
INVARIANT NoZeroStored
INVARIANT UnaryLaws
INVARIANT RingBinary
INVARIANT RingTernary
INVARIANT Homomorphism
INVARIANT Composition
INVARIANT Calculus
INVARIANT EqHash
INVARIANT Interpolation
INVARIANT SchemeIndependent
INVARIANT HornerInvariant
CHECK_DEADLOCK FALSE
