------------------------------ MODULE LpcC11Q ------------------------------
(* C11, quick tier: reflection-coefficient vectors up to order 3, root sets up to order 3, every gain. *)
EXTENDS LpcC11
C11Quick == {CaseKs(s) : s \in KsOf(KAll, {1, 2, 3})} \cup {CaseKl(s) : s \in KsOf(KIn, {1, 2, 3})}
            \cup StOf(3, Gains)
=============================================================================
