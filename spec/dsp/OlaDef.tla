------------------------------- MODULE OlaDef -------------------------------
(***************************************************************************)
(* Overlap-add (property C09): pure operators, no variables, shared by the *)
(* machines Ola and Stft.                                                  *)
(*                                                                         *)
(* Definition layer (the statement of C09):                                *)
(*   out[n] = sum_k g * w[n-k*h] * B_k[n-k*h],  m*h+size-h samples,        *)
(*   g = 1 without normalisation, otherwise the reciprocal of the largest  *)
(*   hop-strided sum of |w|  (1/ceil(size/h) when there is no window),     *)
(*   Cola / Covered: the hypothesis and the index set of the inversion.    *)
(* Operational layer (what lazy_analysis.overlap_add.list does):           *)
(*   CodeGain   : Stream(wnd).map(abs).blocks(hop) -> column sums -> max   *)
(*   CodeWindow : the list that is multiplied into every block             *)
(*   OlaStep    : mem[:s_h] = mem[hop:] + blk ; mem[s_h:] = rest of blk    *)
(* Samples are linear forms over ns symbols (module Lin), window entries   *)
(* and gains are rationals (module Rat).  Sequences are 1-based: block k   *)
(* (0-based) contributes to output sample n (1-based) at p = n - k*h.      *)
(***************************************************************************)
EXTENDS Lin, BlocksDef

CeilDiv(a, b) == -((-a) \div b)
RMaxSet(S)    == CHOOSE x \in S : \A y \in S : RLe(y, x)

\* windows by kind (the drivers build the same lists of Fractions); <<>> : no window
Wnd(kind, s) ==
  CASE kind = "none"  -> <<>>
    [] kind = "ones"  -> [j \in 1..s |-> ROne]
    [] kind = "ramp"  -> [j \in 1..s |-> R(j)]
    [] kind = "neg"   -> [j \in 1..s |-> R(IF j % 2 = 1 THEN -j ELSE j)]
    [] kind = "zero"  -> [j \in 1..s |-> RZero]
    [] kind = "recip" -> [j \in 1..s |-> <<1, j + 1>>]
    [] kind = "tri"   -> [j \in 1..s |-> Norm(BMin(2 * j - 1, 2 * (s - j) + 1), s)]
    [] kind = "half"  -> [j \in 1..s |-> <<1, 2>>]

RECURSIVE LSumFun(_, _, _, _)
\* sum_{k = lo..hi} f[k] of linear forms
LSumFun(f, lo, hi, ns) == IF lo > hi THEN LZero(ns) ELSE LAdd(f[lo], LSumFun(f, lo + 1, hi, ns))

-----------------------------------------------------------------------------
(* Definition layer                                                          *)
\* sum of f over the positions j, j+h, j+2h, .. <= size
StrideSum(f(_), size, h, j) ==
  LET cnt == IF j > size THEN 0 ELSE ((size - j) \div h) + 1 IN
  RSumSeq([t \in 1..cnt |-> f(j + (t - 1) * h)])

DefW(w, p) == IF w = <<>> THEN ROne ELSE w[p]          \* <<>> : no window

\* largest hop-strided sum of |w|
AbsGain(w, h) == RMaxSet({StrideSum(LAMBDA p : RAbs(w[p]), Len(w), h, j) : j \in 1..h})

DefG(w, size, h, norm) ==
  IF ~norm THEN ROne
  ELSE IF w = <<>> THEN <<1, CeilDiv(size, h)>>
  ELSE LET a == AbsGain(w, h) IN IF a = RZero THEN ROne ELSE RInv(a)   \* all-zero window: nothing to normalise

DefOlaLen(m, size, h) == m * h + size - h

\* contribution of blocks 0..upto-1 to output sample n
DefSample(B, upto, n, size, h, w, g, ns) ==
  LET term == [k \in 0..(upto - 1) |->
                 LET p == n - k * h IN
                 IF 1 <= p /\ p <= size THEN LScale(RMul(g, DefW(w, p)), B[k + 1][p]) ELSE LZero(ns)]
  IN LSumFun(term, 0, upto - 1, ns)

DefOla(B, size, h, w, norm, ns) ==
  LET g == DefG(w, size, h, norm) IN
  [n \in 1..DefOlaLen(Len(B), size, h) |-> DefSample(B, Len(B), n, size, h, w, g, ns)]

\* the hop-shifted copies of g*w sum to one
Cola(w, size, h, norm) ==
  LET g == DefG(w, size, h, norm) IN
  \A j \in 1..h : RMul(g, StrideSum(LAMBDA p : DefW(w, p), size, h, j)) = ROne

\* every window position that can lie over sample n belongs to one of the m blocks
\* (for h dividing size: n is covered by size/h blocks)
Covered(n, m, size, h) ==
  \A k \in (-size)..n : (1 <= n - k * h /\ n - k * h <= size) => (0 <= k /\ k < m)

-----------------------------------------------------------------------------
(* Operational layer                                                         *)
CodeGain(w, h) ==
  LET steps  == DefBlocks(Len(w), h, h, LAMBDA i : RAbs(w[i]), RZero)     \* .blocks(hop), padded with 0
      col(j) == RSumSeq([t \in 1..Len(steps) |-> steps[t][j]])            \* xzip(*steps) -> sum
  IN RMaxSet({col(j) : j \in 1..h})

\* the list multiplied into every block; <<>> : blocks are used as they are
CodeWindow(w, size, h, norm) ==
  IF norm
  THEN IF w # <<>>
       THEN LET gain == CodeGain(w, h) IN
            IF gain # RZero THEN [j \in DOMAIN w |-> RDiv(w[j], gain)] ELSE w
       ELSE [j \in 1..size |-> <<1, CeilDiv(size, h)>>]
  ELSE w

ApplyWnd(win, blk) == IF win = <<>> THEN blk ELSE [j \in DOMAIN blk |-> LScale(win[j], blk[j])]

OlaStep(mem, blk, size, h) ==
  [j \in 1..size |-> IF j <= size - h THEN LAdd(mem[h + j], blk[j]) ELSE blk[j]]

ZeroMem(size, ns) == [j \in 1..size |-> LZero(ns)]

RECURSIVE OlaFold(_, _, _, _, _, _)
OlaFold(B, k, mem, out, size, h) ==
  IF k > Len(B) THEN out \o SubSeq(mem, h + 1, size)
  ELSE LET m2 == OlaStep(mem, B[k], size, h) IN OlaFold(B, k + 1, m2, out \o SubSeq(m2, 1, h), size, h)

\* the whole run as a function (used by Stft; module Ola steps through it action by action)
CodeOla(B, size, h, w, norm, ns) ==
  LET win == CodeWindow(w, size, h, norm) IN
  OlaFold([k \in DOMAIN B |-> ApplyWnd(win, B[k])], 1, ZeroMem(size, ns), <<>>, size, h)
=============================================================================
