----------------------------- MODULE BlocksC08 -----------------------------
(* Case grid for C08: every input length 0..MaxN x size 1..MaxSize x hop 0..MaxHop (0 = hop not   *)
(* given; hop < size, = size, > size all occur) and zero_pad with every left/right 0..MaxPad.     *)
EXTENDS Blocks

CONSTANTS MaxN, MaxSize, MaxHop, MaxPad, MaxZN

C08Grid ==
  {[kind |-> "blocks", n |-> n, size |-> s, hop |-> h] : n \in 0..MaxN, s \in 1..MaxSize, h \in 0..MaxHop}
  \cup {[kind |-> "zpad", n |-> n, left |-> l, right |-> r] : n \in 0..MaxZN, l \in 0..MaxPad, r \in 0..MaxPad}
============================================================================
