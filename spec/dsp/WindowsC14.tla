---------------------------- MODULE WindowsC14 ----------------------------
(* Case grids for C14: every window model x both templates x sizes 1..S; blackman with the       *)
(* default alpha, 0.16 given explicitly, 0, 1/4 (the ends of the range where it stays in [0,1])  *)
(* and the "exact Blackman" 2*1430/18608; cos with the default, 1, 2 and 3.                      *)
EXTENDS Windows

Plain  == {"hann", "hamming", "rect", "bartlett", "triangular"}
BAlpha == {ADflt, <<4, 25>>, <<0, 1>>, <<1, 4>>, <<715, 4652>>}
CAlpha == {ADflt, <<1, 1>>, <<2, 1>>, <<3, 1>>}
Kinds  == {"periodic", "symm"}

Grid(S) ==
  {[name |-> nm, kind |-> kd, size |-> s, alpha |-> ADflt] : nm \in Plain, kd \in Kinds, s \in 1..S}
  \cup {[name |-> "blackman", kind |-> kd, size |-> s, alpha |-> a] : kd \in Kinds, s \in 1..S, a \in BAlpha}
  \cup {[name |-> "cos", kind |-> kd, size |-> s, alpha |-> a] : kd \in Kinds, s \in 1..S, a \in CAlpha}

C14Quick    == Grid(20)
C14Thorough == Grid(64)
============================================================================
