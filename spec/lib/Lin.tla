------------------------------- MODULE Lin -------------------------------
(***************************************************************************)
(* Linear forms over NS symbols with rational coefficients: a sample that  *)
(* "stands for every number".  A form is a sequence of NS rationals (the   *)
(* coefficient of symbol i at position i).  Filters, overlap-add, moving   *)
(* averages, running sums, interpolation are linear in their input, so an  *)
(* identity between linear forms is the identity for every sample value.   *)
(***************************************************************************)
EXTENDS Rat

LZero(ns)      == [i \in 1..ns |-> RZero]
LSym(ns, k)    == [i \in 1..ns |-> IF i = k THEN ROne ELSE RZero]
LAdd(a, b)     == [i \in DOMAIN a |-> RAdd(a[i], b[i])]
LSub(a, b)     == [i \in DOMAIN a |-> RSub(a[i], b[i])]
LNeg(a)        == [i \in DOMAIN a |-> RNeg(a[i])]
LScale(c, a)   == [i \in DOMAIN a |-> RMul(c, a[i])]
LDiv(a, c)     == [i \in DOMAIN a |-> RDiv(a[i], c)]

RECURSIVE LSumSeq(_, _)
LSumSeq(s, ns) == IF s = <<>> THEN LZero(ns) ELSE LAdd(Head(s), LSumSeq(Tail(s), ns))
==========================================================================
