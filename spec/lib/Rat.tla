------------------------------- MODULE Rat -------------------------------
(***************************************************************************)
(* Exact rational arithmetic for TLC: a rational is a normalised pair      *)
(* <<n, d>> with d > 0 and gcd(|n|, d) = 1, so equality of rationals is    *)
(* equality of TLA+ values.  TLC integers are 32-bit; overflow is a TLC    *)
(* error (a machinery failure for the harness, never a verdict).           *)
(***************************************************************************)
EXTENDS Integers, Sequences

Abs(x) == IF x < 0 THEN -x ELSE x

RECURSIVE GCD(_, _)
GCD(a, b) == IF b = 0 THEN a ELSE GCD(b, a % b)

Norm(n, d) ==
  LET s == IF d < 0 THEN -1 ELSE 1
      g == GCD(Abs(n), Abs(d))
  IN IF n = 0 THEN <<0, 1>> ELSE <<(s * n) \div g, (s * d) \div g>>

R(n)        == <<n, 1>>
RZero       == <<0, 1>>
ROne        == <<1, 1>>
IsRat(p)    == /\ p \in Int \X Int /\ p[2] > 0 /\ GCD(Abs(p[1]), p[2]) = 1
RAdd(p, q)  == IF p[2] = q[2] THEN Norm(p[1] + q[1], p[2])
               ELSE Norm(p[1] * q[2] + q[1] * p[2], p[2] * q[2])
RNeg(p)     == <<-p[1], p[2]>>
RSub(p, q)  == RAdd(p, RNeg(q))
RMul(p, q)  == Norm(p[1] * q[1], p[2] * q[2])
RInv(p)     == Norm(p[2], p[1])                    \* p # 0
RDiv(p, q)  == Norm(p[1] * q[2], p[2] * q[1])      \* q # 0
RLt(p, q)   == p[1] * q[2] < q[1] * p[2]
RLe(p, q)   == p[1] * q[2] <= q[1] * p[2]
RAbs(p)     == <<Abs(p[1]), p[2]>>
RSign(p)    == IF p[1] > 0 THEN 1 ELSE IF p[1] < 0 THEN -1 ELSE 0
RIsInt(p)   == p[2] = 1
RMin(p, q)  == IF RLt(q, p) THEN q ELSE p
RMax(p, q)  == IF RLt(p, q) THEN q ELSE p

\* floor / ceiling as integers (\div is floor division in TLA+)
RFloor(p)   == p[1] \div p[2]
RCeil(p)    == -((-p[1]) \div p[2])
\* int(): truncation toward zero
RTrunc(p)   == IF p[1] >= 0 THEN p[1] \div p[2] ELSE -((-p[1]) \div p[2])
\* audiolazy.rint: int(x + .5*sign(x)) = round half away from zero
RInt(p)     == IF p[1] >= 0 THEN (2 * p[1] + p[2]) \div (2 * p[2])
               ELSE -((2 * (-p[1]) + p[2]) \div (2 * p[2]))
\* Python's floor modulo: result has the sign of q
RMod(p, q)  == RSub(p, RMul(R(RFloor(RDiv(p, q))), q))

RECURSIVE RPow(_, _)
RPow(p, n)  == IF n = 0 THEN ROne ELSE IF n < 0 THEN RInv(RPow(p, -n)) ELSE RMul(p, RPow(p, n - 1))

RECURSIVE RSumSeq(_)
RSumSeq(s)  == IF s = <<>> THEN RZero ELSE RAdd(Head(s), RSumSeq(Tail(s)))
==========================================================================
