------------------------------- MODULE CRat -------------------------------
(***************************************************************************)
(* Gaussian rationals for TLC: a complex number with rational real and     *)
(* imaginary part is the pair <<re, im>> of normalised rationals of module *)
(* Rat, so equality of Gaussian rationals is equality of TLA+ values.      *)
(* They are exactly the numbers needed at the frequencies w = m*pi/2,      *)
(* where e^{-jw} is one of 1, -j, -1, j.                                   *)
(***************************************************************************)
EXTENDS Rat

C(re, im)     == <<re, im>>
CRe(c)        == c[1]
CIm(c)        == c[2]
CZero         == <<RZero, RZero>>
COne          == <<ROne, RZero>>
CJ            == <<RZero, ROne>>
CReal(r)      == <<r, RZero>>                       \* rational -> complex
CInt(a, b)    == <<R(a), R(b)>>                     \* a + bj, a, b integers
IsCRat(c)     == /\ c \in Seq(Int \X Int) /\ Len(c) = 2 /\ IsRat(c[1]) /\ IsRat(c[2])

CAdd(x, y)    == <<RAdd(x[1], y[1]), RAdd(x[2], y[2])>>
CNeg(x)       == <<RNeg(x[1]), RNeg(x[2])>>
CSub(x, y)    == <<RSub(x[1], y[1]), RSub(x[2], y[2])>>
CConj(x)      == <<x[1], RNeg(x[2])>>
CMul(x, y)    == <<RSub(RMul(x[1], y[1]), RMul(x[2], y[2])),
                   RAdd(RMul(x[1], y[2]), RMul(x[2], y[1]))>>
CScale(r, x)  == <<RMul(r, x[1]), RMul(r, x[2])>>   \* rational * complex
CScaleDiv(x, r) == <<RDiv(x[1], r), RDiv(x[2], r)>> \* complex / rational, r # 0
CNorm2(x)     == RAdd(RMul(x[1], x[1]), RMul(x[2], x[2]))   \* |x|^2, a rational
CInv(x)       == CScaleDiv(CConj(x), CNorm2(x))     \* x # 0
CDiv(x, y)    == CScaleDiv(CMul(x, CConj(y)), CNorm2(y))    \* y # 0

\* x^n by repeated squaring and sums by halving: TLC evaluates arguments lazily, so a linear recursion
\* nests one evaluation inside the other and a few dozen terms exhaust the Java stack
RECURSIVE CPow(_, _)
CPow(x, n)    == IF n = 0 THEN COne
                 ELSE IF n < 0 THEN CInv(CPow(x, -n))
                 ELSE IF n % 2 = 0 THEN LET h == CPow(x, n \div 2) IN CMul(h, h)
                 ELSE CMul(x, CPow(x, n - 1))

RECURSIVE CSumRange(_, _, _)
\* sum_{i = lo..hi} f[i]  for a function f into Gaussian rationals
CSumRange(f, lo, hi) == IF lo > hi THEN CZero
                        ELSE IF lo = hi THEN f[lo]
                        ELSE LET mid == (lo + hi) \div 2
                             IN CAdd(CSumRange(f, lo, mid), CSumRange(f, mid + 1, hi))
CSumSeq(s)    == CSumRange(s, 1, Len(s))

(* The four unit roots.  UnitJ(q) = j^q ; e^{-j*m*pi/2} = j^(-m) = UnitJ(-m) *)
UnitJ(q)      == LET r == q % 4 IN
                 IF r = 0 THEN COne ELSE IF r = 1 THEN CJ ELSE IF r = 2 THEN CNeg(COne) ELSE CNeg(CJ)
==========================================================================
