----------------------------- MODULE TrigForm -----------------------------
(***************************************************************************)
(* Exact "trigonometric forms" for TLC: finite rational combinations       *)
(*      c0 + sum_a c_a * cos(2*pi*a)          (a = p/q a rational angle)   *)
(* kept in a canonical shape, so that equality of TLA+ values implies      *)
(* equality of the real numbers they denote (the converse is not claimed:  *)
(* cosines of different angles can be rationally dependent).               *)
(*                                                                         *)
(* A form is a function  angle -> non-zero rational  whose domain holds    *)
(* only reduced pairs <<p, q>> with 0 <= p/q < 1/4; <<0, 1>> is the        *)
(* constant term (cos 0 = 1).  Every cosine is folded into that range by   *)
(* cos(x) = cos(-x) = cos(x + 2 pi) = -cos(pi - x), and the three angles   *)
(* of [0, pi/2] with a rational cosine (Niven: 0, pi/3, pi/2) are replaced *)
(* by their values 1, 1/2, 0.  Products use cos a cos b =                  *)
(* (cos(a+b) + cos(a-b)) / 2, so forms are closed under + - * and powers.  *)
(* This is what lets TLC decide window symmetry, the periodic/symmetric    *)
(* prefix relation and constant overlap sums at EVERY size, and the closed *)
(* form as a rational number wherever it is one.                           *)
(***************************************************************************)
EXTENDS Rat

TEmpty   == <<>>                                   \* the form 0
TZeroAng == <<0, 1>>
TConst(r) == IF r = RZero THEN TEmpty ELSE [a \in {TZeroAng} |-> r]

\* cos(2 pi p / q), q > 0, any integer p
TCos(p, q) ==
  LET m   == p % q                                 \* t = m/q in [0, 1)
      m1  == IF 2 * m > q THEN q - m ELSE m        \* t in [0, 1/2]
      neg == 4 * m1 > q                            \* t in (1/4, 1/2]: cos = -cos(pi - x)
      m2  == IF neg THEN q - 2 * m1 ELSE 2 * m1    \* t = m2 / (2q) in [0, 1/4]
      ang == Norm(m2, 2 * q)
      s   == IF neg THEN R(-1) ELSE ROne
  IN IF m2 = 0 THEN TConst(s)                      \* cos 0
     ELSE IF ang = <<1, 4>> THEN TEmpty            \* cos(pi/2)
     ELSE IF ang = <<1, 6>> THEN TConst(RMul(s, <<1, 2>>))   \* cos(pi/3)
     ELSE [a \in {ang} |-> s]

\* sin(2 pi p / q) = cos(2 pi (p/q - 1/4))
TSin(p, q) == TCos(4 * p - q, 4 * q)

TCoef(f, a) == IF a \in DOMAIN f THEN f[a] ELSE RZero
TAdd(f, g) ==
  LET D == DOMAIN f \cup DOMAIN g
      h == [a \in D |-> RAdd(TCoef(f, a), TCoef(g, a))]
  IN [a \in {x \in D : h[x] # RZero} |-> h[a]]
TScale(r, f) == IF r = RZero THEN TEmpty ELSE [a \in DOMAIN f |-> RMul(r, f[a])]
TNeg(f)      == [a \in DOMAIN f |-> RNeg(f[a])]
TSub(f, g)   == TAdd(f, TNeg(g))

RECURSIVE TSumSet(_, _)
\* sum of F[x] over x in S  (F: function into forms)
TSumSet(F, S) == IF S = {} THEN TEmpty
                 ELSE LET x == CHOOSE y \in S : TRUE IN TAdd(F[x], TSumSet(F, S \ {x}))

\* cos(2 pi a) * cos(2 pi b) for canonical angles a, b
TMulAng(a, b) ==
  LET q == a[2] * b[2]
      x == a[1] * b[2]
      y == b[1] * a[2]
  IN TScale(<<1, 2>>, TAdd(TCos(x + y, q), TCos(x - y, q)))
TMul(f, g) ==
  LET P == (DOMAIN f) \X (DOMAIN g)
      F == [ab \in P |-> TScale(RMul(f[ab[1]], g[ab[2]]), TMulAng(ab[1], ab[2]))]
  IN TSumSet(F, P)

RECURSIVE TPow(_, _)
TPow(f, k) == IF k = 0 THEN TConst(ROne) ELSE TMul(f, TPow(f, k - 1))

RECURSIVE TSumSeq(_)
TSumSeq(s) == IF s = <<>> THEN TEmpty ELSE TAdd(Head(s), TSumSeq(Tail(s)))

\* a form that is a plain rational number, and that number
TIsConst(f) == DOMAIN f \subseteq {TZeroAng}
TValue(f)   == TCoef(f, TZeroAng)

\* enclosure: every non-constant angle lies in (0, 1/4), where 0 < cos < 1
RECURSIVE TLoSet(_, _)
TLoSet(f, S) == IF S = {} THEN RZero
                ELSE LET x == CHOOSE y \in S : TRUE
                     IN RAdd(IF RLt(f[x], RZero) THEN f[x] ELSE RZero, TLoSet(f, S \ {x}))
RECURSIVE THiSet(_, _)
THiSet(f, S) == IF S = {} THEN RZero
                ELSE LET x == CHOOSE y \in S : TRUE
                     IN RAdd(IF RLt(RZero, f[x]) THEN f[x] ELSE RZero, THiSet(f, S \ {x}))
TLo(f) == RAdd(TValue(f), TLoSet(f, DOMAIN f \ {TZeroAng}))   \* value >= TLo (strict unless constant)
THi(f) == RAdd(TValue(f), THiSet(f, DOMAIN f \ {TZeroAng}))   \* value <= THi
===========================================================================
