-------------------------------- MODULE Fix --------------------------------
(***************************************************************************)
(* Fixed-point helpers for RELATIONAL contracts on recorded float samples  *)
(* (DESIGN 2.4): a float v is logged as the integer round(v * 2^20).       *)
(* |round(v*2^20) - v*2^20| <= 1/2, so two floats that denote the same     *)
(* real number up to rounding noise (<< 2^-21) are logged at most one unit *)
(* apart, and a sum of k logged samples is within k/2 units of the scaled  *)
(* real sum.  Tolerances below are those bounds, not tuned values.         *)
(***************************************************************************)
EXTENDS Rat

FxBits == 20
FxOne  == 1048576                                  \* 2^20
FxNear(a, b, tol) == Abs(a - b) <= tol

\* floor(r * 2^20) for a normalised rational with |numerator| < 2^20 and denominator < 2^20,
\* by long division in two 10-bit steps (everything stays below 2^30)
FxFits(r)  == Abs(r[1]) < FxOne /\ r[2] < FxOne
FxFloor(r) == LET a  == r[1] * 1024
                  a1 == a \div r[2]
                  r1 == a % r[2]
              IN a1 * 1024 + (r1 * 1024) \div r[2]
\* a logged sample fx stands for the rational r: |fx - r*2^20| <= 1/2  =>  fx in {floor, floor + 1}
FxIsRat(fx, r) == LET f == FxFloor(r) IN fx = f \/ fx = f + 1

RECURSIVE FxSum(_)
FxSum(s) == IF s = <<>> THEN 0 ELSE Head(s) + FxSum(Tail(s))
============================================================================
