--------------------------- MODULE FilterAlgTrace ---------------------------
(* Observations of real ZFilter / CascadeFilter / ParallelFilter objects (C05) judged by the     *)
(* specification of module FilterAlg: one initial state per record, Judge prints                 *)
(* <<"REJECT", i, clause>> for the first clause of a record that the specification refuses.      *)
(* Expression trees are logged as nested JSON objects, polynomials as [power, [num, den]] lists, *)
(* outputs as vectors of rationals over the symbols x1..xMaxLen (module Lin).                    *)
EXTENDS FilterAlg, Json, IOUtils

Data == JsonDeserialize(IOEnv.TRACE_FILE)
Recs == Data.recs

VARIABLE i
RInit == i \in 1..Len(Recs) /\ case = [kind |-> "record"] /\ pc = "start" /\ res = <<>>
RNext == UNCHANGED <<vars, i>>

RECURSIVE Conv(_)
Conv(t) == IF t.op = "lit" THEN Lit(PolyOfPairs(t.n), PolyOfPairs(t.d))
           ELSE IF t.op = "num" THEN Num(RatOfPair(t.c))
           ELSE IF t.op \in {"neg", "pos"} THEN Un1(t.op, Conv(t.l))
           ELSE IF t.op = "pow" THEN Pw(Conv(t.l), t.e)
           ELSE Bn(t.op, Conv(t.l), Conv(t.r))
Obs(r, fn, fd) == FV(PolyOfPairs(r[fn]), PolyOfPairs(r[fd]))
Vecs(s)        == [t \in DOMAIN s |-> [j \in DOMAIN s[t] |-> RatOfPair(s[t][j])]]
Same(obs, want) == Vecs(obs) = want

Clauses(r) ==
  IF r.op = "tree" THEN
     LET t == Conv(r.t)
         o == Obs(r, "n", "d")
     IN << <<"defined",  QIsDef(Def(t)) /\ IsDef(Val(t))>>,
           <<"denominator", DOMAIN o.d # {}>>,
           <<"value",    QEquiv(o, Def(t))>>,           \* the rational function the tree denotes
           <<"machine",  QEquiv(o, Val(t))>>,
           <<"model-structure", o = Val(t)>> >>          \* (diagnostic: same polynomials as the operational layer)
  ELSE IF r.op = "eq" THEN
     LET f == Val(Conv(r.f))
         g == Val(Conv(r.g))
     IN << <<"exactly-one", r.eq # r.ne>>,
           <<"hash",        r.eq => r.hasheq>>,
           <<"eq-model",    r.eq = FEq(f, g)>> >>         \* (diagnostic)
  ELSE IF r.op = "sys" THEN
     LET f  == Val(Conv(r.f))
         g  == Val(Conv(r.g))
         c  == RatOfPair(r.c)
         fo == Apply(f, XS)
         go == Apply(g, XS)
     IN << <<"causal",   IsCausal(f) /\ IsCausal(g)>>,
           <<"f(x)",     Same(r.fo, fo)>>,
           <<"g(x)",     Same(r.go, go)>>,
           <<"(f+g)(x)", Same(r.addo, LAddSeq(fo, go))>>,
           <<"(f-g)(x)", Same(r.subo, LSubSeq(fo, go))>>,
           <<"(f*g)(x)", Same(r.mulo, Apply(f, go))>>,
           <<"f(g(x))",  Same(r.fgo, Apply(f, go))>>,
           <<"g(f(x))",  Same(r.gfo, Apply(f, go))>>,
           <<"(c*f)(x)", Same(r.so, LScaleSeq(c, fo))>>,
           <<"(f**e)(x)", Same(r.po, ApplyTimes(f, XS, r.e))>>,
           <<"cascade(x)",  Same(r.casco, Apply(f, go))>>,
           <<"parallel(x)", Same(r.paro, LAddSeq(fo, go))>>,
           \* banks inside banks keep their structure: Cascade(Parallel(f, g), f) and Parallel(Cascade(f, g), g)
           <<"cascade-of-parallel(x)", "nesto" \in DOMAIN r => Same(r.nesto, Apply(f, LAddSeq(fo, go)))>>,
           <<"parallel-of-cascade(x)", "nest2o" \in DOMAIN r => Same(r.nest2o, LAddSeq(Apply(g, fo), go))>>,
           <<"cascade-polys",  QEquiv(Obs(r, "cascn", "cascd"), QMul(f, g))>>,
           <<"parallel-polys", QEquiv(Obs(r, "parn", "pard"), QAdd(f, g))>>,
           <<"model",    SystemPair(f, g) /\ RunsLikeFilter(FMul(f, g))>> >>
  ELSE << <<"unknown-op", FALSE>> >>

Failing(r) == SelectSeq(Clauses(r), LAMBDA c : ~c[2])
Judge == LET f == Failing(Recs[i])
         IN IF f = <<>> THEN TRUE ELSE PrintT(<<"REJECT", i, f[1][1]>>)
=============================================================================
