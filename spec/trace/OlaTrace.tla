------------------------------ MODULE OlaTrace ------------------------------
(* Observation records of real overlap_add.list runs (C09) judged by the definition layer of      *)
(* module Ola (Ola!Expected = OlaDef!DefOla on the case's blocks; Cola / Covered for the inversion *)
(* clause): one initial state per record                                                          *)
(*   [case |-> <case record of Ola>, err |-> "none" | <exception class>, out |-> <<linear form>>]  *)
(* Judge prints <<"REJECT", i, clause>>.                                                           *)
EXTENDS Ola, Json, IOUtils

Data == JsonDeserialize(IOEnv.TRACE_FILE)
Recs == Data.recs

VARIABLE i
RInit == /\ i \in 1..Len(Recs)
         /\ case = Recs[i].case /\ nb = 0 /\ mem = <<>> /\ win = <<>> /\ out = <<>> /\ pc = "done"
         /\ aux = [cola |-> FALSE, g |-> ROne, m |-> 0]
RNext == UNCHANGED <<vars, i>>

Verdict(r) ==
  LET c == r.case
      e == Expected(c)
      h == Hop(c)
  IN
  IF ~InScope(c) THEN "out-of-scope"
  ELSE IF r.err # "none" THEN "exception"
  ELSE IF Len(r.out) # Len(e) THEN "length"
  ELSE IF /\ c.src = "sig" /\ Cola(c.w, c.size, h, c.norm)
          /\ \E n \in 1..Len(c.data) : Covered(n, M(c), c.size, h) /\ r.out[n] # c.data[n]
       THEN "inversion"
  ELSE IF \E n \in DOMAIN e : r.out[n] # e[n] THEN "value"
  ELSE "ok"

Judge == LET v == Verdict(Recs[i]) IN IF v = "ok" THEN TRUE ELSE PrintT(<<"REJECT", i, v>>)
==============================================================================
