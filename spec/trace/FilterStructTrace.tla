-------------------------- MODULE FilterStructTrace --------------------------
(* Observations of the real lazy_filters objects (extension X02) judged by the specification of  *)
(* module FilterStruct: one initial state per record; Judge prints <<"REJECT", i, clause>> for   *)
(* the first clause of a record that the specification refuses.  Members, coefficients and      *)
(* linear forms are logged in the shape of the specification's own values (JSON objects ->      *)
(* records, arrays -> tuples, rationals as [num, den]).                                          *)
EXTENDS FilterStruct, Json, IOUtils

Data == JsonDeserialize(IOEnv.TRACE_FILE)
Recs == Data.recs

VARIABLE i
RInit == /\ i \in 1..Len(Recs)
         /\ case = [kind |-> "record"] /\ n = 0 /\ out = <<>> /\ err = "none" /\ mreg = <<>> /\ dreg = <<>> /\ res = <<>>
RNext == UNCHANGED <<svars, i>>

ToSet(s)     == {s[j] : j \in DOMAIN s}
PairsPoly(s) == PolyOfPairs(s)
ConvFP(s)    == [j \in DOMAIN s |-> <<RatOfPair(s[j][1]), Const(RatOfPair(s[j][2]))>>]
ConstTaps(t) == [k \in DOMAIN t |-> t[k].v]                     \* tap function of constants -> polynomial
DenseOk(obs, want) == obs.err = want.err /\ (want.err = "none" => obs.v = want.v)
PolyZOk(obs, want) == obs.err = want.err /\ (want.err = "none" => PairsPoly(obs.v) = want.v)

\* ---- list histories: fold the events over the container value ----------------------------------
RNone       == [t |-> "none"]
RErr(e)     == [t |-> "err", e |-> e]
RMember(v)  == [t |-> "member", v |-> v]
RItems(v)   == [t |-> "items", v |-> v]
RetEq(a, b) == a.t = b.t /\ (a.t = "err" => a.e = b.e) /\ (a.t \in {"member", "items"} => a.v = b.v)
EvStep(b, e) ==          \* -> [box |-> container afterwards, ret |-> what the call returns]
  CASE e.op = "append"  -> [box |-> OpAppend(b, e.x), ret |-> RNone]
    [] e.op = "extend"  -> [box |-> OpExtend(b, e.x), ret |-> RNone]
    [] e.op = "iadd"    -> [box |-> OpExtend(b, e.x), ret |-> RNone]
    [] e.op = "concat"  -> [box |-> OpConcat(b, e.x), ret |-> RNone]
    [] e.op = "times"   -> [box |-> OpTimes(b, e.k), ret |-> RNone]
    [] e.op = "imul"    -> [box |-> OpITimes(b, e.k), ret |-> RNone]
    [] e.op = "reverse" -> [box |-> OpReverse(b), ret |-> RNone]
    [] e.op = "insert"  -> [box |-> OpInsert(b, e.k, e.x), ret |-> RNone]
    [] e.op = "pop"     -> (LET r == OpPop(b, e.k) IN [box |-> r.box, ret |-> IF r.err = "none" THEN RMember(r.v) ELSE RErr(r.err)])
    [] e.op = "index"   -> (LET r == OpIndex(b, e.k) IN [box |-> b, ret |-> IF r.err = "none" THEN RMember(r.v) ELSE RErr(r.err)])
    [] e.op = "slice"   -> [box |-> b, ret |-> RItems(OpSlice(b, e.lo, e.hi).items)]
RECURSIVE HistBad(_, _, _, _)
\* index of the first event whose observation differs (0: none)
HistBad(b, evs, obs, j) ==
  IF j > Len(evs) THEN 0
  ELSE LET s == EvStep(b, evs[j])
       IN IF obs[j].box # s.box \/ ~RetEq(obs[j].ret, s.ret) THEN j ELSE HistBad(s.box, evs, obs, j + 1)
RECURSIVE HistEnd(_, _, _)
HistEnd(b, evs, j) == IF j > Len(evs) THEN b ELSE HistEnd(EvStep(b, evs[j]).box, evs, j + 1)

Clauses(r) ==
  IF r.op = "comb" THEN
     LET c == CombCase(r.form, RatOfPair(r.delay), r.alpha, "inf", r.lin, r.mem, r.zero)
         e == CombExpected(c, r.len)
     IN << <<"exception", r.err = e.err>>,
           <<"length",    Len(r.out) = Len(e.out)>>,
           <<"value",     r.out = e.out>>,
           <<"model",     e = Expected(c, r.len)>> >>            \* comb equation == difference equation of module Filter
  ELSE IF r.op = "hist" THEN
     LET b0  == Construct(r.cls, r.args)
         bad == HistBad(b0, r.events, r.obs, 1)
         b   == HistEnd(b0, r.events, 1)
         zv  == IF r.call.zero = "sym" THEN ZSym ELSE LZero(NS)
     IN << <<"constructor", r.built = b0>>,
           <<"event",       bad = 0>>,
           <<"is_linear",   r.final.linear = IsLinearOp(b) /\ IsLinearOp(b) = IsLinearDef(b)>>,
           <<"is_lti",      r.final.lti = IsLtiOp(b)>>,
           <<"is_causal",   r.final.causal = IsCausalOp(b) /\ IsCausalOp(b) = IsCausalDef(b)>>,
           <<"call-refusal", r.call.done => ((r.call.err = "ValueError") <=> ~IsCausalDef(b))>>,
           <<"call-value",  (r.call.done /\ r.call.err = "none") => r.call.out = CallDef(b, SubSeq(XS, 1, r.call.len), zv)>>,
           <<"call-reads",  (r.call.done /\ r.call.err = "none") => r.call.reads0 = 0 /\ r.call.reads = r.call.len>> >>
  ELSE IF r.op = "zf" THEN
     LET w == ZfResult(PairsPoly(r.n), PairsPoly(r.d))
         o == FV(PairsPoly(r.on), PairsPoly(r.od))
     IN << <<"value",    DOMAIN o.d # {} /\ QEquivS(o, FV(PairsPoly(r.n), PairsPoly(r.d))) /\ PMinKey(DOMAIN o.d) = 0>>,
           <<"model-structure", o = FV(w.n, w.d)>>,                       \* (diagnostic)
           <<"is_causal", r.causal = w.causal>>,
           <<"numlist",  DenseOk(r.numlist, w.numlist)>>,
           <<"denlist",  DenseOk(r.denlist, w.denlist)>>,
           <<"numpolyz", PolyZOk(r.numpolyz, w.numpolyz) /\ (w.causal => w.numpolyz.v = PolyZDef(w.n))>>,
           <<"denpolyz", PolyZOk(r.denpolyz, w.denpolyz) /\ w.denpolyz.v = PolyZDef(w.d)>> >>
  ELSE IF r.op = "lin" THEN
     LET fn == ConvFP(r.n)
         fd == ConvFP(r.d)
         w  == LinShift(LinDef(fn), LinDef(fd))
     IN << <<"numerator",   PairsPoly(r.on) = ConstTaps(w.n)>>,
           <<"denominator", PairsPoly(r.od) = ConstTaps(w.d)>>,
           <<"model",       LinOp(fn) = LinDef(fn) /\ LinOp(fd) = LinDef(fd)>> >>
  ELSE IF r.op = "design" THEN
     LET s    == DesignShape(r.fam, r.name, ToSet(r.S))
         ps   == DesignParams(r.fam)
         lens == [j \in DOMAIN ps |-> IF ps[j] \in ToSet(r.S) THEN r.lens[j] ELSE Inf]
         nout == DesignRunLen(r.inlen, lens)
     IN << <<"numerator-powers",   ToSet(r.num) = s.num /\ s.num = DocNumPowers(r.fam, r.name)>>,
           <<"denominator-powers", ToSet(r.den) = s.den /\ s.den = 0..DocPoles(r.fam)>>,
           <<"a0-is-one",          r.den0one>>,
           <<"stream-coefficients", ToSet(r.numS) = s.numS /\ ToSet(r.denS) = s.denS>>,
           <<"reads-at-construction", \A j \in DOMAIN r.reads0 : r.reads0[j] = 0>>,
           <<"length",             r.nout = nout>>,
           <<"reads",              \A j \in DOMAIN ps : ps[j] \in ToSet(r.S) => ReadsOk(r.reads[j], nout, lens[j])>> >>
  ELSE IF r.op = "tau" THEN
     << <<"powers",      ToSet(r.nump) = {0} /\ ToSet(r.denp) = {0, r.delay}>>,
        <<"ones",        r.num0 = r.one /\ r.den0 = r.one>>,
        <<"coefficient", r.dend = r.want>> >>                    \* -(e ** (-delay / tau)), as float.hex() strings
  ELSE << <<"unknown-op", FALSE>> >>

Failing(r) == SelectSeq(Clauses(r), LAMBDA c : ~c[2])
Judge == LET f == Failing(Recs[i])
         IN IF f = <<>> THEN TRUE ELSE PrintT(<<"REJECT", i, f[1][1]>>)
=============================================================================
