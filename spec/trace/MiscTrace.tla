----------------------------- MODULE MiscTrace -----------------------------
(***************************************************************************)
(* Extension check X03, code -> spec.  Observations of the real code are   *)
(* judged with the operators of module Misc (TableVal, IterFn, CtlFn):     *)
(*                                                                         *)
(*  * Data.recs   : one record [kind, c, out, ...] per call of a function  *)
(*    of the grid part on an input larger than the M1 grid; one initial    *)
(*    state per record, Judge prints <<"REJECT", i, clause>>.              *)
(*  * Data.traces : histories of a ControlStream with a derived            *)
(*    expression ("cs") or of a StreamTeeHub ("hub"); TNext explains every *)
(*    event by the step functions of CtlFn or prints                       *)
(*    <<"REJECT", tid, l, clause>>; the machine invariants are evaluated   *)
(*    in every state of the observed run.                                  *)
(* Both keys are always present in the file (possibly empty).              *)
(***************************************************************************)
EXTENDS Misc, Fix, Json, IOUtils

Data      == JsonDeserialize(IOEnv.TRACE_FILE)
Recs(u)   == Data.recs
Traces(u) == Data.traces

---------------------------------------------------------------------------
(* records *)
VARIABLE ri
Rec == Recs(0)[ri]

VARIABLES tid, l, st
tvars == <<ri, tid, l, st>>

RInit == ri \in 1..Len(Recs(0)) /\ tid = 0 /\ l = 0 /\ st = <<>>
RNext == UNCHANGED tvars

\* kinds judged through a relation on fixed-point samples / name sets (no case of the grid behind them)
Relational == {"shz", "f2l", "sawsym", "sinsym", "linames"}

\* a TableLookup result [e, t, cy] against the specification's
TVerdict(k, c, o) ==
  LET exp == Eval(k, c) IN
  IF o.e # exp.e THEN "exception"
  ELSE IF exp.e # "none" THEN "ok"
  ELSE IF Len(o.t) # Len(exp.t) THEN "length"
  ELSE IF o.cy # exp.cy THEN "cycles"
  ELSE IF o.t # exp.t THEN (IF k = "tharm" /\ ~HarmDivides(c.self, c.hd) THEN "value-undocumented" ELSE "value")
  ELSE "ok"

\* a sequence-valued result [e, out] (finite results complete, endless ones as their first h items)
SVerdict(exp, o) ==
  IF o.e # exp.e THEN "exception"
  ELSE IF exp.e # "none" THEN "ok"
  ELSE IF Len(o.out) # Len(exp.out) THEN "length"
  ELSE IF o.out # exp.out THEN "value"
  ELSE IF o.endless # exp.endless THEN "endless"
  ELSE "ok"

PlainVerdict(exp, o) == IF Len(o) # Len(exp) THEN "length" ELSE IF o # exp THEN "value" ELSE "ok"

RecVerdict(r) ==
  LET k == r.kind
      c == r.c
  IN
  IF k \notin Relational /\ HasDef(k, c) /\ Eval(k, c) # Def(k, c) THEN "layers"    \* the two layers disagree
  ELSE IF k \notin Relational /\ ~KindLaw(k, c, Eval(k, c)) THEN "law"
  ELSE
  CASE k \in {"tbin", "tun", "tharm"} -> TVerdict(k, c, r.out)
    [] k = "tnorm"   -> IF NormContract(c.self, r.out) THEN "ok" ELSE "contract"
    [] k = "tget"    -> IF r.out = Eval(k, c) THEN "ok" ELSE "value"
    [] k = "teq"     -> IF r.out = Eval(k, c) THEN "ok" ELSE "value"
    [] k \in {"ctor", "orange"} -> SVerdict(Eval(k, c), r.out)
    [] k \in {"count", "repeat", "cycle", "islice", "chain", "zipl", "zips", "accum", "zpad", "blk"}
                     -> PlainVerdict(Eval(k, c), r.out)
    [] k = "linames" -> LET its == SeqRange(c.itnames)
                            got == SeqRange(r.out)
                        IN IF ~(LiNames(its) \subseteq got) THEN "missing-name"
                           ELSE IF \E n \in its : n # LiRename(n) /\ n \in got THEN "not-renamed"
                           ELSE "ok"
    [] k = "shz"     -> IF r.s # c.rate THEN "seconds"                       \* s is the rate itself
                        ELSE IF ~FxNear(r.turnsfx, FxOne, 1) THEN "hertz"    \* Hz * s / (2 pi) = 1
                        ELSE "ok"
    [] k = "f2l"     -> IF ~FxNear(r.prodfx, FxOne, 1) THEN "product"        \* v * (2 pi / v) / (2 pi) = 1
                        ELSE IF ~FxNear(r.backfx, FxOne, 1) THEN "roundtrip" \* lag2freq(freq2lag(v)) / v = 1
                        ELSE "ok"
    [] k = "sinsym"  -> IF \E j \in DOMAIN r.a : ~FxNear(r.a[j] + r.b[j], 0, 1) THEN "antisymmetric"    \* sin[i] = -sin[N-i]
                        ELSE IF \E j \in DOMAIN r.a : ~FxNear(r.a[j], r.h[j], 1) THEN "half-wave"          \* sin[i] = sin[N/2-i]
                        ELSE IF \E j \in DOMAIN r.a : r.a[j] < 0 \/ r.a[j] > FxOne THEN "range"            \* first half-wave in [0, 1]
                        ELSE "ok"
    [] k = "sawsym"  -> IF \E j \in DOMAIN r.lo : ~FxNear(r.lo[j] + r.hi[j], 0, 1) THEN "antisymmetric"
                        ELSE IF \E j \in 1..(Len(r.lo) - 1) : r.lo[j] > r.lo[j + 1] THEN "monotone"
                        ELSE "ok"

Judge == LET v == RecVerdict(Rec) IN IF v = "ok" THEN TRUE ELSE PrintT(<<"REJECT", ri, v>>)

---------------------------------------------------------------------------
(* traces *)
Tr == Traces(0)[tid]

TInit == /\ tid \in 1..Len(Traces(0)) /\ l = 1 /\ ri = 0
         /\ st = IF Traces(0)[tid].kind = "cs"
                 THEN CsNew(Traces(0)[tid].expr, Traces(0)[tid].v0, Traces(0)[tid].d, Traces(0)[tid].per)
                 ELSE HubNew(Traces(0)[tid].n)

Apply(k, s, e) ==
  IF k = "cs"
  THEN CASE e.op = "set"    -> [st |-> CsSet(s, e.arg), res |-> <<>>]
         [] e.op = "take"   -> [st |-> CsTake(s, e.arg).st, res |-> CsTake(s, e.arg).out]
         [] e.op = "takecs" -> [st |-> CsTakeDirect(s, e.arg).st, res |-> CsTakeDirect(s, e.arg).out]
         [] e.op = "read"   -> [st |-> s, res |-> <<s.val>>]
  ELSE CASE e.op = "use"    -> HubUse(s)
         [] e.op \in {"peek", "copy"} -> HubPeek(s)
         [] e.op = "take"   -> HubTake(s)
         [] e.op \in {"calldel", "drop"} -> HubDel(s)

Step ==
  /\ l <= Len(Tr.events)
  /\ LET e == Tr.events[l]
         r == Apply(Tr.kind, st, e)
     IN IF r.res = e.res THEN st' = r.st
        ELSE PrintT(<<"REJECT", tid, l, e.op>>) /\ FALSE
  /\ l' = l + 1 /\ UNCHANGED <<tid, ri>>

TNext == Step
Accepted == (l = Len(Tr.events) + 1) => PrintT(<<"ACCEPT", tid>>)

\* machine invariants on the observed runs
HubCounts == Tr.kind = "hub" => (HubLeft(st) = IF st.cleared THEN 0 ELSE st.n - st.used) /\ st.used <= st.n
============================================================================
