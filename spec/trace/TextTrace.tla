----------------------------- MODULE TextTrace -----------------------------
(* Observation records of the real lazy_text / lazy_midi / rint / almost_eq code (extension check  *)
(* X01) judged by module Text: one initial state per record [case, out]; JudgeRec prints            *)
(* <<"REJECT", i, clause>> when the observed output breaks the documented behaviour (operator Judge *)
(* of the specification); the pseudo-clauses "NOTE" (allowed by the documentation but different     *)
(* from the operational layer) and "UNDECIDED" (outside the modelled set) are diagnostics only.     *)
EXTENDS Text, Json, IOUtils

NoCases(g) == {}            \* (the grid constants of module Text are not used here)
Data == JsonDeserialize(IOEnv.TRACE_FILE)
Recs == Data.recs

VARIABLE i
RInit == /\ i \in 1..Len(Recs)
         /\ case = Recs[i].case /\ pc = "done" /\ st = <<>> /\ res = <<>>
RNext == UNCHANGED <<vars, i>>

Verdict(r) == Judge(r.case, r.out)
OpSame(r)  == r.out = AsObserved(r.case, Run(r.case))
JudgeRec == LET r == Recs[i]
                v == Verdict(r)
            IN IF v # "ok" THEN PrintT(<<"REJECT", i, v>>)           \* v = "UNDECIDED": counted, not a rejection
               ELSE IF r.strict /\ ~OpSame(r) THEN PrintT(<<"REJECT", i, "NOTE">>) ELSE TRUE
=============================================================================
