---------------------------- MODULE AnalysisTrace ----------------------------
(* Observation records of real runs of the C20 tools, judged by the definition layer of module     *)
(* Analysis: one initial state per record; Judge prints <<"REJECT", i, clause>> for a record the    *)
(* property's statement does not allow.                                                              *)
(* Record fields: tool, the tool's parameters (rationals as [n, d]; an absent clip limit as []),    *)
(* x (input, list of rationals), out (observed output, list of rationals), err ("none" or the       *)
(* exception class).  Where the code computes in floats the driver snaps each observed sample to    *)
(* the lattice the exact results live on and sets near = FALSE if any sample is further than the    *)
(* stated tolerance from its snapped value; TLC then decides the identity on the snapped values.    *)
EXTENDS Analysis, Json, IOUtils

Data == JsonDeserialize(IOEnv.TRACE_FILE)
Recs == Data.recs

VARIABLE i
RInit == /\ i \in 1..Len(Recs)
         /\ case = Recs[i].tool /\ n = 0 /\ out = <<>> /\ err = "none" /\ mreg = <<>> /\ dreg = <<>>
         /\ xs = <<>> /\ st = <<>>
RNext == UNCHANGED <<avars, i>>

Forms(x)   == [k \in 1..Len(x) |-> F1(x[k])]
Scalars(f) == [k \in 1..Len(f) |-> f[k][1]]

\* first differing clause of a list <<name, holds>>, or "ok"
First(cl) == LET bad == SelectSeq(cl, LAMBDA c : ~c[2]) IN IF bad = <<>> THEN "ok" ELSE bad[1][1]

Verdict(r) ==
  IF r.tool = "clip" /\ BadLimits(r) THEN (IF r.err = "none" THEN "no-refusal" ELSE "ok")
  ELSE IF r.err # "none" THEN "exception"
  ELSE IF Len(r.out) # Len(r.x) THEN "length"
  ELSE IF ~r.near THEN "tolerance"
  ELSE IF r.tool = "maverage" THEN
    First(<< <<"mean", r.out = Scalars(MavDef(Forms(r.x), F1(r.zero), r.size))>> >>)
  ELSE IF r.tool = "accumulate" THEN
    First(<< <<"runsum", r.out = Scalars(AccDef(Forms(r.x)))>> >>)
  ELSE IF r.tool = "amdf" THEN
    First(<< <<"meanabsdiff", r.out = Scalars(AmdfDef(r.x, r.zero, r.lag, r.size))>> >>)
  ELSE IF r.tool = "envelope" THEN
    First(<< <<"lowpass", r.out = EnvInnovDef(r.x, r.strat)>> >>)
  ELSE IF r.tool = "clip" THEN
    First(<< <<"bounded",    \A k \in DOMAIN r.out : Bounded(r, r.out[k])>>,
             <<"idempotent", r.twice = r.out>>,
             <<"saturates",  r.out = ClipDef(r, r.x)>> >>)
  ELSE IF r.tool = "zcross" THEN
    First(<< <<"crossing", r.out = ZCrossDef(r.x, r.hyst, r.fs)>> >>)
  ELSE IF r.tool = "unwrap" THEN
    First(<< <<"multiples", UMultiples(r.x, r.out, r.step)>>,
             <<"untouched", UUntouched(r.x, r.out, r.md)>>,
             <<"bigjump",   UNoBigJump(r.out, r.md, r.step)>> >>)
  ELSE "unknown-tool"

Judge == LET v == Verdict(Recs[i]) IN IF v = "ok" THEN TRUE ELSE PrintT(<<"REJECT", i, v>>)
==============================================================================
