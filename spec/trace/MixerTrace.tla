----------------------------- MODULE MixerTrace -----------------------------
(***************************************************************************)
(* Trace validation for C16: histories recorded from real Streamix /       *)
(* ControlStream objects (one JSON record per add() / next() / assignment) *)
(* are judged with the operators of module Mixer.                          *)
(*                                                                         *)
(* The VERDICT on a mixer trace is given by the closed form of the         *)
(* definition layer (CumT, StartLo, StartHi, Due) on the recorded absolute *)
(* history `evs`, `now`:                                                   *)
(*   start       an event's first item appears at a sample in              *)
(*               {StartLo, StartHi} (the two nearest samples of T_i at an  *)
(*               exact half-sample tie, one sample otherwise; never before *)
(*               the sample at which it was added);                        *)
(*   start-missed  no event is still silent once StartHi is reached;       *)
(*   sum         the sample is the zero value (once) plus exactly the      *)
(*               items due, each once;                                     *)
(*   end-early / end-missed  without keep the output ends exactly when     *)
(*               nothing plays or pends, with keep it never ends;          *)
(*   neg         add() raises ValueError iff the delta is negative, and a  *)
(*               rejected event never plays.                               *)
(* Beside the verdict, Mixer's own machine (operational layer + frame) is  *)
(* stepped with the recorded inputs as long as the code agrees with it     *)
(* (`sync`), so that Mixer's invariants are evaluated in every state of    *)
(* the observed execution; the first disagreement (e.g. the other tie      *)
(* direction) is printed as <<"DIAG", ...>> and is not a rejection.        *)
(***************************************************************************)
EXTENDS Mixer, Json, IOUtils

Data   == JsonDeserialize(IOEnv.TRACE_FILE)
Traces == Data.traces

VARIABLES tid, l,
          S,       \* observed start sample of every event added (-1: no item seen yet)
          sync,    \* the code has agreed with Mixer's operational layer so far
          oend     \* the code has raised StopIteration
tvars == <<vars, tid, l, S, sync, oend>>

Kind == Traces[tid].kind

TInit ==
  /\ tid \in 1..Len(Traces) /\ l = 1 /\ S = <<>> /\ sync = TRUE /\ oend = FALSE
  /\ count = Q /\ np = <<>> /\ pl = <<>> /\ ended = FALSE /\ out = {}
  /\ sched = <<>> /\ base = 0 /\ evs = <<>> /\ now = 0
  /\ IF Traces[tid].kind = "mix"
     THEN keep = Traces[tid].keep /\ gid = [i \in 1..MaxLive |-> 0] /\ NoCtl
     ELSE keep = FALSE /\ gid = <<>> /\ cval = Traces[tid].init /\ cdef = Traces[tid].init

Ev == Traces[tid].events[l]

Reject(clause) == PrintT(<<"REJECT", tid, l, clause>>) /\ FALSE
FirstFailing(cs) == LET f == SelectSeq(cs, LAMBDA c : ~c[2]) IN IF f = <<>> THEN "" ELSE f[1][1]

---------------------------------------------------------------------------
(* add()                                                                   *)
TAdd(e) ==
  /\ e.op = "add"
  /\ LET bad == FirstFailing(<< <<"neg", (e.d < 0) = (e.res = "ValueError")>>,
                                <<"add", e.res \in {"ok", "ValueError"}>>,
                                <<"add-after-end", ~oend>> >>)
     IN IF bad = "" THEN TRUE ELSE Reject(bad)
  /\ IF e.d < 0
     THEN UNCHANGED <<vars, S, sync>>
     ELSE /\ S' = Append(S, -1)
          /\ IF sync /\ ~ended /\ FreeIds # {}
             THEN Add(e.d, e.len) /\ UNCHANGED sync
             ELSE /\ evs' = Append(evs, [d |-> e.d, len |-> e.len, at |-> now])
                  /\ sync' = FALSE
                  /\ UNCHANGED <<keep, count, np, pl, ended, out, sched, base, now, gid, cvars>>
  /\ UNCHANGED oend

---------------------------------------------------------------------------
(* next()                                                                  *)
Items(e) == {<<e.items[j][1], e.items[j][2]>> : j \in DOMAIN e.items}

\* the closed form's judgement of one observed sample / end, ties open
Judge(e) ==
  LET O    == IF e.res = "out" THEN Items(e) ELSE {}
      newS == [i \in DOMAIN S |-> IF S[i] = -1 /\ <<i, 0>> \in O THEN now ELSE S[i]]
      Len_(i) == evs[i].len
  IN IF e.res = "out" THEN
       FirstFailing(<<
         <<"after-end", ~oend>>,
         <<"zero", e.zc \in {1, -1}>>,              \* -1: the zero value is the number 0, not observable
         <<"item", /\ Cardinality(O) = Len(e.items)
                   /\ \A j \in DOMAIN e.items : /\ e.items[j][1] \in DOMAIN evs
                                                /\ e.items[j][2] >= 0
                                                /\ e.items[j][3] = 1>>,
         <<"start", \A i \in DOMAIN S : (S[i] = -1 /\ <<i, 0>> \in O)
                                           => now \in {StartLo(evs, i), StartHi(evs, i)}>>,
         <<"start-missed", \A i \in DOMAIN S : (newS[i] = -1 /\ Len_(i) > 0) => now < StartHi(evs, i)>>,
         <<"sum", O = Due(evs, newS, now)>>,
         <<"end-missed", keep \/ \E i \in DOMAIN S :
                                   IF Len_(i) > 0 THEN newS[i] = -1 \/ now < newS[i] + Len_(i)
                                   ELSE now < StartHi(evs, i)>> >>)
     ELSE IF e.res = "end" THEN
       FirstFailing(<<
         <<"end-keep", ~keep>>,
         <<"end-early", \A i \in DOMAIN S :
                           IF Len_(i) > 0 THEN S[i] >= 0 /\ now >= S[i] + Len_(i)
                           ELSE now >= StartLo(evs, i)>> >>)
     ELSE "exception"

TNextCall(e) ==
  /\ e.op = "next"
  /\ LET bad == Judge(e) IN IF bad = "" THEN TRUE ELSE Reject(bad)
  /\ LET O     == IF e.res = "out" THEN Items(e) ELSE {}
         pred  == IF ended \/ OpStep.stop THEN "end" ELSE "out"
         agree == /\ sync /\ pred = e.res
                  /\ e.res = "out" => {<<gid[x[1]], x[2]>> : x \in OpStep.out} = O
     IN /\ S' = [i \in DOMAIN S |-> IF S[i] = -1 /\ <<i, 0>> \in O THEN now ELSE S[i]]
        /\ oend' = (e.res = "end")
        /\ IF agree
           THEN (IF e.res = "end" THEN Stop ELSE Step) /\ UNCHANGED sync
           ELSE /\ sync' = FALSE
                /\ (sync => PrintT(<<"DIAG", tid, l, "operational layer predicts", pred,
                                     {<<gid[x[1]], x[2]>> : x \in OpStep.out}>>))
                /\ now' = IF e.res = "out" THEN now + 1 ELSE now
                /\ UNCHANGED <<keep, count, np, pl, ended, out, sched, base, evs, gid, cvars>>

---------------------------------------------------------------------------
(* ControlStream                                                           *)
TCtl(e) ==
  \/ /\ e.op = "assign" /\ CAssign(e.v)
  \/ /\ e.op = "read"
     /\ IF \A j \in DOMAIN e.got : e.got[j] = cdef THEN TRUE ELSE Reject("control-value")
     /\ CRead(cval)

---------------------------------------------------------------------------
TStep ==
  /\ l <= Len(Traces[tid].events)
  /\ IF Kind = "mix"
     THEN TAdd(Ev) \/ TNextCall(Ev)
     ELSE TCtl(Ev) /\ UNCHANGED <<S, sync, oend>>
  /\ l' = l + 1 /\ UNCHANGED tid

TNext == TStep
TSpec == TInit /\ [][TNext]_tvars

Accepted == (l = Len(Traces[tid].events) + 1) => PrintT(<<"ACCEPT", tid>>)

\* Mixer's invariants on the observed execution (while the code follows the operational layer)
TModel == (Kind = "mix" /\ sync) =>
             /\ OutIsPlaying /\ Refines /\ StartTimes /\ CountTracksBase /\ NoDrift
TControl == Kind = "ctl" => ControlYieldsLastAssigned
=============================================================================
