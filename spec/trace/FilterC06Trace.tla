--------------------------- MODULE FilterC06Trace ---------------------------
(* Observation records of real runs of filters with Stream coefficients (C06), judged with the          *)
(* operators of FilterC06 / Filter: FlatCase (element-wise coefficient sequences of the expression),    *)
(* Expected / DefSeq / RunLen (difference equation, end of the run), UsedSrc.                            *)
(* A record: [expr, src, mem, zero, len (input length), err, out (linear forms),                         *)
(*            reads0 (per source, after construction + call, before the first next()),                   *)
(*            steps  (per output k: the per-source read counters right after output k),                  *)
(*            reads  (per source, after the run ended)]                                                  *)
(* One initial state per record; Judge prints <<"REJECT", i, clause>>.                                   *)
EXTENDS FilterC06, Json, IOUtils

Data == JsonDeserialize(IOEnv.TRACE_FILE)
Recs == Data.recs

VARIABLE i
RInit == /\ i \in 1..Len(Recs)
         /\ case = <<>> /\ n = 0 /\ out = <<>> /\ err = "none" /\ mreg = <<>> /\ dreg = <<>>
         /\ flat = <<>> /\ prog = <<>> /\ reads = <<>> /\ cur = <<>> /\ fin = "new" /\ cok = FALSE
RNext == UNCHANGED <<vars6, i>>

Verdict6(r) ==
  LET c  == FlatCase(r.expr, r.src, r.mem, r.zero)
      e  == Expected(c, r.len)
      no == Len(e.out)
  IN
  IF ~CoveredExpr(r.expr, r.src, r.mem) THEN "guard"          \* outside the quantifier: not judged
  ELSE IF r.err # e.err THEN "exception"
  ELSE IF Len(r.out) # no THEN "length"
  ELSE IF \E t \in DOMAIN r.out : r.out[t] # e.out[t] THEN "value"
  ELSE IF \E s \in DOMAIN r.reads0 : r.reads0[s] # 0 THEN "construction-reads"
  \* after output k every coefficient source has been read exactly k times
  ELSE IF \E k \in DOMAIN r.steps : \E s \in DOMAIN r.src : r.steps[k][s] # k THEN "reads"
  \* at the end: nothing beyond the item needed to discover the end
  ELSE IF \E s \in DOMAIN r.src : r.reads[s] < no \/ r.reads[s] > no + 1 THEN "end-reads"
  ELSE "ok"

Judge == LET v == Verdict6(Recs[i]) IN IF v = "ok" THEN TRUE ELSE PrintT(<<"REJECT", i, v>>)
==============================================================================
