------------------------------ MODULE LpcTrace ------------------------------
(* Observation records of the real lazy_lpc / lazy_analysis functions (C10, C11) judged by   *)
(* the definitions of module Lpc.  One initial state per record; Judge prints                 *)
(* <<"REJECT", i, clause>> for a record the specification disagrees with.                      *)
(*                                                                                            *)
(* Exact observations (acorr, lag_matrix, toeplitz, parcor on Fraction filters, the Boolean   *)
(* of parcor_stable) are compared by equality with the Lpc operators.  levinson_durbin /      *)
(* lpc.kautocor / lpc.kcovar return floats; a float v is logged as the fixed-point number     *)
(*      [h, l] with  round(v * 2^s) = h * 2^15 + l,  0 <= l < 2^15                            *)
(* and TLC evaluates the *defining linear equations* of the property on these integers with  *)
(* 32-bit-safe limb arithmetic: a residual  sum_j c_j a_j  (c_j integer Gram / Toeplitz       *)
(* entries computed by the Lpc operators from the logged input) must vanish up to             *)
(*      sum_j |c_j|  units of 2^-s                                                            *)
(* (half of it is the logging resolution, the other half is 2^-31 ~ 5e-10 relative to the     *)
(* size of the equation's terms: the 1e-9 rule of DESIGN 2.4 applied to the residual).        *)
EXTENDS Lpc, Json, IOUtils

Data == JsonDeserialize(IOEnv.TRACE_FILE)
Recs == Data.recs

VARIABLE ri
RInit == /\ ri \in 1..Len(Recs)
         /\ case = <<>> /\ pc = "done" /\ m = 0 /\ r = <<>> /\ phi = <<>> /\ A = <<>> /\ ks = <<>>
         /\ errv = <<>> /\ err = "none" /\ flag = "none" /\ Bs = <<>> /\ beta = <<>> /\ f = <<>> /\ kd = <<>>
RNext == UNCHANGED <<vars, ri>>

---------------------------------------------------------------------------
(* limb arithmetic                                                          *)
RECURSIVE Pow2(_)
Pow2(n)  == IF n = 0 THEN 1 ELSE 2 * Pow2(n - 1)
W        == 32768                               \* 2^15
RECURSIVE ISum(_)
ISum(s)  == IF s = <<>> THEN 0 ELSE Head(s) + ISum(Tail(s))
IntOf(q) == q[1]                                \* of a rational known to be an integer
AllInt(c) == \A j \in DOMAIN c : c[j][2] = 1

\* | sum_j c_j * a_j  -  e * 2^(sa-se) |  <=  tol   in units of 2^-sa;  c: rationals that are integers,
\* a: fixed-point pairs at shift sa, e: fixed-point pair at shift se <= sa (or <<0,0>>)
LinNear(c, a, e, up, tol) ==
  LET sh == ISum([j \in DOMAIN c |-> IntOf(c[j]) * a[j][1]]) - e[1] * up
      sl == ISum([j \in DOMAIN c |-> IntOf(c[j]) * a[j][2]]) - e[2] * up
  IN /\ Abs(sh) <= 16384
     /\ Abs(sh * W + sl) <= tol
AbsSum(c) == ISum([j \in DOMAIN c |-> Abs(IntOf(c[j]))])

\* a fixed-point number v = [h, l] at shift s is within 2^-30 * (1 + |q|) < 1e-9 * (1 + |q|) of the rational
\* q = n/d, up to the logging resolution (half a unit of 2^-s, itself <= 2^-30 * (1/2 + |q|) for v near q):
\*   | V d - n 2^s | * 2^(30-s)  <=  2 d + 2 |n| ,   V = h 2^15 + l       (small q: |n|, d < 2^12)
\* a shift below 15 means |v| >= 2^16, which is near no such q
NearRat(v, s, q) ==
  /\ s >= 15 /\ s <= 30
  /\ LET hh == v[1] * q[2] - q[1] * Pow2(s - 15)
         ll == v[2] * q[2]
     IN /\ Abs(hh) <= 8192
        /\ Abs(hh * W + ll) <= (2 * q[2] + 2 * Abs(q[1])) \div Pow2(30 - s) + 1
NearSeq(vs, s, qs) == /\ Len(vs) = Len(qs)
                      /\ \A j \in DOMAIN qs : NearRat(vs[j], s, qs[j])

---------------------------------------------------------------------------
(* the defining equations of a Levinson / kautocor / kcovar result:                          *)
(*   C(i, j) for i, j = 0..p is the matrix of the quadratic form (Toeplitz of r, Gram of the *)
(*   zero-extended block, Gram over n >= p);  row i >= 1 must annihilate a, row 0 gives the  *)
(*   error.                                                                                  *)
Row(rec, i) ==
  LET p == rec.order IN
  IF rec.kind = "ld" THEN LET rr == REff(CaseLd(rec.r, p)) IN [j \in 1..(p + 1) |-> rr[Abs(i - (j - 1)) + 1]]
  ELSE IF rec.kind = "ka" THEN [j \in 1..(p + 1) |-> GramZ(rec.x, p, i, j - 1)]
  ELSE [j \in 1..(p + 1) |-> GramC(rec.x, p, i, j - 1)]

SolutionVerdict(rec) ==
  LET p == rec.order IN
  IF Len(rec.a) # p + 1 THEN "length"
  ELSE IF rec.a[1] # <<Pow2(rec.sa - 15), 0>> THEN "monic"
  ELSE IF \E i \in 0..p : ~AllInt(Row(rec, i)) THEN "input-not-integer"
  ELSE IF \E i \in 1..p : ~LinNear(Row(rec, i), rec.a, <<0, 0>>, 1, AbsSum(Row(rec, i)))
       THEN "normal-equations"
  ELSE IF ~LinNear(Row(rec, 0), rec.a, rec.e, Pow2(rec.sa - rec.se), AbsSum(Row(rec, 0)) + Pow2(rec.sa - rec.se))
       THEN "error"
  ELSE "ok"

\* levinson_durbin(RFromKs(ks)) and parcor of it
KlVerdict(rec) ==
  LET kk == rec.ks
      tk == SubSeq(kk, 1, LastNZIdx(kk))
  IN IF rec.r # RFromKs(kk) THEN "input"
     ELSE IF ~NearSeq(rec.a, rec.sa, StepUp(kk)) THEN "numerator"
     ELSE IF ~NearRat(rec.e, rec.se, ErrProd(kk)) THEN "error-product"
     ELSE IF ~NearSeq(rec.kout, rec.sk, SeqRev(tk)) THEN "parcor"
     ELSE "ok"

\* parcor on an exact (Fraction) monic filter: the yielded list, the exception, the step-up rebuild
KsVerdict(rec) ==
  LET e  == Parcor(rec.A)
      tA == SubSeq(rec.A, 1, LastNZIdx(rec.A))
      n  == IF Len(rec.kout) < Len(e.ks) THEN Len(rec.kout) ELSE Len(e.ks)
  IN \* ParCorError only when the coefficient just yielded has |k| = 1
     IF rec.err = "ParCorError" /\ (e.err # "ParCorError" \/ Len(rec.kout) # Len(e.ks)) THEN "parcorerror-without-unit-k"
     \* what was yielded are the reflection coefficients, last first (as far as the step-down is defined)
     ELSE IF SubSeq(rec.kout, 1, n) # SubSeq(e.ks, 1, n) THEN "coefficients"
     ELSE IF e.err = "none" /\ (rec.err # "none" \/ Len(rec.kout) # Len(e.ks)) THEN "coefficients"
     ELSE IF e.err = "none" /\ StepUp(SeqRev(rec.kout)) # tA THEN "step-up-rebuild"
     ELSE "ok"

\* the same when the library left exact arithmetic (a zero coefficient is read back as the float 0.0 and
\* everything after it is float): yielded values logged as fixed point
KsfVerdict(rec) ==
  LET e  == Parcor(rec.A)
      n  == IF Len(rec.kout) < Len(e.ks) THEN Len(rec.kout) ELSE Len(e.ks)
  IN \* |k| = 1 exactly is not decidable once the computation is in floats: when the exact step-down stops at
     \* a unit coefficient only the values up to there are judged
     IF e.err = "none" /\ rec.err = "ParCorError" THEN "parcorerror-without-unit-k"
     ELSE IF ~NearSeq(SubSeq(rec.kout, 1, n), rec.sk, SubSeq(e.ks, 1, n)) THEN "coefficients"
     ELSE IF e.err = "none" /\ (rec.err # "none" \/ Len(rec.kout) # Len(e.ks)) THEN "coefficients"
     ELSE IF Len(rec.kout) < Len(e.ks) THEN "coefficients"
     ELSE "ok"

StVerdict(rec) ==
  LET c == CaseSt(rec.roots, rec.cpairs, rec.gain) IN
  IF rec.den # Den(c) THEN "input"
  ELSE IF rec.verdict # Stable(c) THEN "pole-locations"
  ELSE IF rec.verdict # StabVerdict(c) THEN "step-down"
  ELSE "ok"

Verdict(rec) ==
  IF rec.kind = "acorr" THEN (IF rec.out = Acorr(rec.x, rec.maxlag) THEN "ok" ELSE "acorr")
  ELSE IF rec.kind = "lagm" THEN (IF rec.out = LagMatrix(rec.x, rec.maxlag) THEN "ok" ELSE "lag_matrix")
  ELSE IF rec.kind = "toep" THEN (IF rec.out = Toeplitz(rec.v) THEN "ok" ELSE "toeplitz")
  ELSE IF rec.kind \in {"ld", "ka", "kc"} THEN SolutionVerdict(rec)
  ELSE IF rec.kind = "kl" THEN KlVerdict(rec)
  ELSE IF rec.kind = "ks" THEN KsVerdict(rec)
  ELSE IF rec.kind = "ksf" THEN KsfVerdict(rec)
  ELSE IF rec.kind = "st" THEN StVerdict(rec)
  ELSE "unknown-kind"

Judge == LET v == Verdict(Recs[ri]) IN IF v = "ok" THEN TRUE ELSE PrintT(<<"REJECT", ri, v>>)
==============================================================================
