---------------------------- MODULE FreqRespTrace ----------------------------
(* Observation records of the real freq_response / FIR filtering / dft (C12) judged with the definition  *)
(* layer of module FreqResp.  One initial state per record; Judge prints <<"REJECT", i, clause>> for a   *)
(* record the specification disagrees with.                                                              *)
(*                                                                                                       *)
(* Values: Gaussian rationals <<<<n,d>>,<<n,d>>>>; NaN (module FreqResp) for a float nan.  The code      *)
(* computes e^{-jw} in floating point, so the recorder logs each observed complex number as the rational *)
(* of bounded denominator nearest to it and sets `exact` to FALSE when some logged value is farther than *)
(* the float tolerance from every such rational (it then cannot be the specified value, whose            *)
(* denominator is within the bound by the choice of the inputs).                                         *)
(*   fr  : [case, rtype (type name of what came back), obs (values, in order; distinct values for a set)]*)
(*   td  : [case, len, out (output samples), fr (freq_response(w)), dft (dft(out, [w], normalize=False)]*)
(*   dft : [case, obs (per frequency <<X>> or <<X, Y, Z>> for the blocks x, y, al*x + be*y)]             *)
EXTENDS FreqResp, Json, IOUtils

Data == JsonDeserialize(IOEnv.TRACE_FILE)
Recs == Data.recs

VARIABLE i
RInit == /\ i \in 1..Len(Recs)
         /\ case = Recs[i].case /\ k = 0 /\ out = <<>> /\ dreg = <<>> /\ ref = CZero
RNext == UNCHANGED <<vars, i>>

VerdictFr(r) ==
  LET c == r.case
      e == ExpectedFr(c)
  IN IF ~Covered(c) THEN "not-covered"
     ELSE IF r.rtype # ResultType(c.cont) THEN "container-type"
     ELSE IF c.cont \in SetKinds
          THEN IF {r.obs[t] : t \in DOMAIN r.obs} # Contents(c.cont, e) THEN "value" ELSE "ok"
     ELSE IF Len(r.obs) # Len(e) THEN "length"
     ELSE IF \E t \in DOMAIN e : (e[t] = NaN) # (r.obs[t] = NaN) THEN "nan"
     ELSE IF \E t \in DOMAIN e : r.obs[t] # e[t] THEN "value"
     ELSE "ok"

VerdictTd(r) ==
  LET c == r.case
      h == DefSection(c.sec, c.m)
  IN IF r.fr # h THEN "freq_response"
     ELSE IF c.sig = "exp" /\ (Len(r.out) # r.len
                               \/ \E t \in Order(c.sec)..(r.len - 1) : r.out[t + 1] # CMul(h, Expo(c.m, t)))
          THEN "steady-state"
     ELSE IF c.sig = "imp" /\ r.len >= Lb(c.sec) /\ DftDef(r.out, c.m, FALSE) # h THEN "impulse-response"
     ELSE IF c.sig = "imp" /\ r.len >= Lb(c.sec) /\ r.dft # h THEN "dft-of-impulse-response"
     ELSE "ok"

VerdictDft(r) ==
  LET c == r.case
      e == ExpectedDft(c)
  IN IF ~Covered(c) THEN "not-covered"
     ELSE IF Len(r.obs) # Len(e) THEN "length"
     ELSE IF \E t \in DOMAIN e : r.obs[t][1] # e[t] THEN "defining-sum"
     ELSE IF c.norm /\ \E t \in DOMAIN e : c.ms[t] = 0 /\ r.obs[t][1] # Mean(c.x) THEN "dc-mean"
     ELSE IF c.lin /\ \E t \in DOMAIN e :
                         r.obs[t][3] # CAdd(CScale(c.al, r.obs[t][1]), CScale(c.be, r.obs[t][2])) THEN "linear"
     ELSE "ok"

Verdict(r) ==
  IF ~r.exact THEN "inexact"
  ELSE CASE r.case.kind = "fr"  -> VerdictFr(r)
         [] r.case.kind = "td"  -> VerdictTd(r)
         [] r.case.kind = "dft" -> VerdictDft(r)

Judge == LET v == Verdict(Recs[i]) IN IF v = "ok" THEN TRUE ELSE PrintT(<<"REJECT", i, v>>)
==============================================================================
