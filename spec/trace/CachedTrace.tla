--------------------------- MODULE CachedTrace ---------------------------
(***************************************************************************)
(* Trace validation for X07: histories recorded from real `cached`         *)
(* functions (one JSON record per operation, with what it returned and the *)
(* projection of every cache and invocation counter after it) are accepted *)
(* iff they are behaviours of Cached.  More functions, more keys and far   *)
(* longer histories than the exhaustive graph.                             *)
(***************************************************************************)
EXTENDS Cached, Json, IOUtils

Data   == JsonDeserialize(IOEnv.TRACE_FILE)
Traces == Data.traces

VARIABLES tid, l
tvars == <<vars, tid, l>>

TInit == Init /\ tid \in 1..Len(Traces) /\ l = 1

Ev == Traces[tid].events[l]

\* what the operation hands back is an integer exactly when a value comes out of the cache / the function
IsIntRet(e) == e.op \in {"call", "index"} /\ ~(cache[e.f][e.k] = Absent /\ e.k \in Fail)

Clauses(e) ==
  <<  <<"ret",   IF IsIntRet(e) THEN e.reti = ret' ELSE e.rets = ret'>>,
      <<"cache", e.cache = cache'>>,
      <<"clock", e.clock = clock'>>,
      <<"ncall", e.ncall = ncall'>> >>

Failing(e) == SelectSeq(Clauses(e), LAMBDA c : ~c[2])

Step ==
  /\ l <= Len(Traces[tid].events)
  /\ LET e == Ev IN
       /\ \/ e.op = "call" /\ Call(e.f, e.k)
          \/ e.op = "index" /\ Index(e.f, e.k)
          \/ e.op = "has" /\ Has(e.f, e.k)
          \/ e.op = "poke" /\ Poke(e.f, e.k)
          \/ e.op = "evict" /\ Evict(e.f, e.k)
          \/ e.op = "clear" /\ Clear(e.f)
          \/ e.op = "unhashable" /\ CallUnhashable(e.f)
          \/ e.op = "keyword" /\ CallKeyword(e.f)
       /\ IF Failing(e) = <<>> THEN TRUE
          ELSE PrintT(<<"REJECT", tid, l, Failing(e)[1][1]>>) /\ FALSE
  /\ l' = l + 1 /\ UNCHANGED tid

TNext == Step
TSpec == TInit /\ [][TNext]_tvars

Accepted == (l = Len(Traces[tid].events) + 1) => PrintT(<<"ACCEPT", tid>>)
===========================================================================
