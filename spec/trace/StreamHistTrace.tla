-------------------------- MODULE StreamHistTrace --------------------------
(***************************************************************************)
(* Trace validation for C03: histories of method calls recorded from real  *)
(* Stream / StreamTeeHub objects (call, arguments, return value or         *)
(* exception) are accepted iff StreamHist's actions explain every call     *)
(* with exactly that return value.                                         *)
(***************************************************************************)
EXTENDS StreamHistC03, Json, IOUtils

Data   == JsonDeserialize(IOEnv.TRACE_FILE)
Traces == Data.traces
AllToks == {"None", "inf", "0.6", "1.4", "1.6", "3.7", "2.7", "0.4", "6.2", "9.8", "-2.5", "-0.3", "-inf", "nan"}
             \cup {IntToks[i] : i \in DOMAIN IntToks}

VARIABLES tid, l
tvars == <<vars, tid, l>>

TInit ==
  /\ tid \in 1..Len(Traces) /\ l = 1
  /\ LET b == [pre |-> Traces[tid].base.pre, per |-> Traces[tid].base.per] IN
       /\ M = [nodes |-> <<SrcNode(b)>>, grp |-> <<>>]
       /\ hd = <<1>> /\ rem = <<b>> /\ hub = <<>>
       /\ hist = <<[op |-> "init", pre |-> b.pre, per |-> b.per]>>
       /\ ret = RNone /\ dret = RNone

Ev == Traces[tid].events[l]

\* logged return value -> the spec's encoding
Logged(e) == [t |-> e.rt, v |-> e.rv]

Act(e) ==
  CASE e.op = "take"    -> Take(e.h, e.n)
    [] e.op = "next"    -> NextItem(e.h)
    [] e.op = "copy"    -> Copy(e.h)
    [] e.op = "peek"    -> Peek(e.h, e.n)
    [] e.op = "skip"    -> Skip(e.h, e.n)
    [] e.op = "limit"   -> Limit(e.h, e.n)
    [] e.op = "append"  -> \E a \in AppendArgs : a.tag = e.arg /\ AppendLit(e.h, a)
    [] e.op = "appendh" -> AppendH(e.h, e.g)
    [] e.op = "map"     -> MapOp(e.h)
    [] e.op = "filter"  -> FilterOp(e.h, e.p)
    [] e.op = "tee"     -> TeeOp(e.h, e.n)
    [] e.op = "thub"    -> Thub(e.h, e.n)
    [] e.op = "use"     -> HubUse(e.w)
    [] e.op = "hpeek"   -> HubPeek(e.n)
    [] e.op = "hcopy"   -> HubCopy
    [] e.op = "htake"   -> HubTake

Step ==
  /\ l <= Len(Traces[tid].events)
  /\ Act(Ev)
  /\ IF ret' = Logged(Ev) THEN TRUE
     ELSE PrintT(<<"REJECT", tid, l, IF ret'.t # Ev.rt THEN "return-kind" ELSE "return-value">>) /\ FALSE
  /\ l' = l + 1 /\ UNCHANGED tid

TNext == Step
Accepted == (l = Len(Traces[tid].events) + 1) => PrintT(<<"ACCEPT", tid>>)
============================================================================
