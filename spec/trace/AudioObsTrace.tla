--------------------------- MODULE AudioObsTrace ---------------------------
(* Recorded executions of the real lazy_io, projected on their observable events (backend calls, *)
(* thread start / end, the caller's stop / close / play), judged by the property-level           *)
(* specification AudioObs.  One initial state per record; a refused record prints                *)
(* <<"REJECT", i, clause, index of the refused event>>.                                          *)
EXTENDS AudioObsDef, TLC, Json, IOUtils

Data == JsonDeserialize(IOEnv.TRACE_FILE)
Recs == Data.recs

(* As a judge of one recorded observation sequence: <<"ok", 0>> or <<clause, index of the refused event>> *)
RECURSIVE JudgeFrom(_, _, _, _)
JudgeFrom(c, evs, i, s) ==
  IF i > Len(evs) THEN <<"ok", 0>>
  ELSE LET r == Refusal(c, evs[i], s) IN
       IF r # "ok" THEN <<r, i>> ELSE JudgeFrom(c, evs, i + 1, Apply(evs[i], s))
Verdict(c, evs) == JudgeFrom(c, evs, 1, ObsInitOf(c))

VARIABLE i

RInit == i \in 1..Len(Recs)
RNext == UNCHANGED i

Judge == LET r == Recs[i]
             v == Verdict([np |-> r.np, chunks |-> r.chunks, wait |-> r.wait], r.evs)
         IN IF v[1] = "ok" THEN TRUE ELSE PrintT(<<"REJECT", i, v[1], v[2]>>)
=============================================================================
