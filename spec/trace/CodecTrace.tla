----------------------------- MODULE CodecTrace -----------------------------
(***************************************************************************)
(* Observations of the real chunks.struct / chunks.array / WavStream (C18) *)
(* judged by the specification of module Codec: one initial state per      *)
(* record, Judge prints <<"REJECT", i, clause>> for a record it rejects.   *)
(*                                                                         *)
(* kind = "chunk": seq, size, fmt, order, pad and the byte strings each    *)
(*   strategy yielded (lists of bytes), or the exception it raised.  For   *)
(*   the integer formats TLC unpacks the bytes itself (UnpackAll); for f/d *)
(*   the driver unpacks them with stdlib struct and logs the value tokens  *)
(*   (4 * value; 2^31-1 for a float that is no such token) -- the IEEE     *)
(*   encoding is not specified, the placement of the values is.            *)
(* kind = "wav":  the bytes written into a file with stdlib wave, what     *)
(*   WavStream yielded (integers with keep; numerators v * 2^(bits-1)      *)
(*   otherwise, `exact` telling that every float was exactly such a        *)
(*   quotient), its rate/channels/bits, whether the file was open before   *)
(*   and closed after exhaustion.                                          *)
(***************************************************************************)
EXTENDS Codec, Json, IOUtils

Data == JsonDeserialize(IOEnv.TRACE_FILE)
Recs == Data.recs

VARIABLE ri
Rec == Recs[ri]

RInit == /\ ri \in 1..Len(Recs)
         /\ case = [kind |-> "none"] /\ st = "done" /\ pos = 0 /\ buf = <<>> /\ idx = 0 /\ out = <<>> /\ hdr = <<>>
RNext == UNCHANGED <<vars, ri>>

ChunkCase(r) == [kind |-> "chunk", fmt |-> r.fmt, order |-> r.order, size |-> r.size, seq |-> r.seq, pad |-> r.pad]

\* one strategy's output against the definition ("concatenated and unpacked ... the sequence, then pads")
\* and against the operational layer (the very bytes)
StrategyVerdict(c, err, chunks, unpacked) ==
  LET w == Width(c.fmt) IN
  IF err # "none" THEN "raises"
  ELSE IF Len(chunks) # NChunks(c) THEN "count"
  ELSE IF \E j \in 1..Len(chunks) : Len(chunks[j]) # c.size * w THEN "chunklen"
  ELSE IF IsIntFmt(c.fmt) /\ UnpackAll(Flat(chunks), w, c.order) # Padded(c) THEN "unpack"
  ELSE IF ~IsIntFmt(c.fmt) /\ unpacked # Padded(c) THEN "unpack"
  ELSE IF IsIntFmt(c.fmt) /\ \E j \in 1..Len(chunks) : chunks[j] # StructChunks(c)[j].bytes THEN "bytes"
  ELSE "ok"

ChunkVerdict(r) ==
  LET c == ChunkCase(r)
      s == StrategyVerdict(c, r.serr, r.struct, r.sunpacked)
      a == StrategyVerdict(c, r.aerr, r.array, r.aunpacked)
  IN IF s # "ok" THEN "struct-" \o s
     ELSE IF a # "ok" THEN "array-" \o a
     ELSE IF r.array # r.struct THEN "strategies-differ"
     ELSE "ok"

WavCase(r) == [kind |-> "wav", bits |-> r.bits, ch |-> r.ch, keep |-> r.keep, rate |-> r.rate, data |-> r.data]

WavVerdict(r) ==
  LET c == WavCase(r)
      e == WavDecodeOf(c)
      h == HalfOf(c.bits)
  IN IF r.hdr # <<c.rate, c.ch, c.bits>> THEN "header"
     ELSE IF ~r.exact THEN "type"
     ELSE IF Len(r.out) # Len(e) THEN "length"
     ELSE IF \E k \in 1..Len(e) : r.out[k] # (IF c.keep THEN e[k] ELSE e[k][1]) THEN "value"
     ELSE IF ~c.keep /\ \E k \in 1..Len(e) : r.out[k] < (-h) - h \/ r.out[k] > (h - 1) + h THEN "range"
     \* (r.open_mid - the file was still open before the last sample - is logged but not demanded: C18 bounds how
     \*  long the file may stay open, not how early a reader holding all the data may close it)
     ELSE IF ~r.closed_end THEN "not-closed"
     ELSE "ok"

Judge == LET v == IF Rec.kind = "chunk" THEN ChunkVerdict(Rec) ELSE WavVerdict(Rec)
         IN IF v = "ok" THEN TRUE ELSE PrintT(<<"REJECT", ri, v>>)
=============================================================================
