---------------------------- MODULE WindowsTrace ----------------------------
(***************************************************************************)
(* Observations of the real window / wsymm strategies (C14) judged by the  *)
(* specification: one initial state per record, Judge prints               *)
(* <<"REJECT", i, clause>> for a record the specification rejects.         *)
(*                                                                         *)
(* kind = "win": the lists returned by window.X(size), wsymm.X(size),      *)
(*   wsymm.X(size+1) and wsymm.X(1) for a name X (any alias), logged as    *)
(*   float.hex() strings (exact contracts) and round(v * 2^20) integers    *)
(*   (relational contracts, module Fix).  The contracts are Windows'       *)
(*   operators: ColaHops / HopIdx (which sums must be constant), Closed    *)
(*   (the documented closed form, compared wherever it is rational).       *)
(* kind = "xref": the projection of the two real dictionaries (name ->     *)
(*   function label, label -> labels of its .periodic / .symm) is loaded   *)
(*   into WindowsReg's variables and must satisfy ITS invariants.          *)
(***************************************************************************)
EXTENDS Windows, WindowsReg, Fix, Json, IOUtils

Data == JsonDeserialize(IOEnv.TRACE_FILE)
Recs == Data.recs

VARIABLE ri
Rec == Recs[ri]

RInit == /\ ri \in 1..Len(Recs)
         /\ case = [name |-> "rect", kind |-> "periodic", size |-> 1, alpha |-> ADflt]
         /\ pc = "ret" /\ sz = 0 /\ cnt = 0 /\ n = 0 /\ out = <<>>
         /\ i = NEntries + 1 /\ ph = "window"
         /\ IF Recs[ri].kind = "xref"
            THEN reg = Recs[ri].reg /\ link = Recs[ri].link /\ dlink = Recs[ri].dlink
            ELSE reg = [window |-> <<>>, wsymm |-> <<>>] /\ link = <<>> /\ dlink = <<>>
RNext == UNCHANGED <<vars, rvars, ri>>

OneHex == "0x1.0000000000000p+0"

FxHopSums(w, h) == [m \in 1..h |-> FxSum([k \in 1..(Len(w) \div h) |-> w[HopIdx(Len(w), h, m)[k]]])]

\* the closed form of sample k (0-based) is a rational number the fixed-point sample must stand for
ClosedOK(nm, kind, size, alpha, fx) ==
  \A k \in 1..size :
     LET f == Closed(nm, kind, k - 1, size, alpha)
     IN ClosedKnown(nm, kind, k - 1, size, alpha) /\ TIsConst(f) /\ FxFits(TValue(f)) => FxIsRat(fx[k], TValue(f))

WinVerdict(r) ==
  LET nm == WSName(WEntry(r.name))
      a  == <<r.alpha[1], r.alpha[2]>>
  IN
  IF ~(/\ Len(r.perfx) = r.size /\ Len(r.perhex) = r.size
       /\ Len(r.symfx) = r.size /\ Len(r.symim) = r.size /\ Len(r.sym1hex) = r.size + 1) THEN "length"
  ELSE IF \E k \in 1..r.size : r.perfx[k] < 0 \/ r.perfx[k] > FxOne THEN "range"
  ELSE IF r.perhex # SubSeq(r.sym1hex, 1, r.size) THEN "prefix"
  ELSE IF \E k \in 1..r.size : \/ ~FxNear(r.symfx[k], r.symfx[r.size + 1 - k], 1)
                                \/ ~FxNear(r.symim[k], r.symim[r.size + 1 - k], 1) THEN "symmetric"
  ELSE IF r.one # <<OneHex>> THEN "one"
  ELSE IF \E h \in ColaHops(nm, r.size) :
             LET s == FxHopSums(r.perfx, h) IN \E m \in 1..h : ~FxNear(s[m], s[1], r.size \div h)
       THEN "cola"
  ELSE IF ~ClosedOK(nm, "periodic", r.size, a, r.perfx) THEN "closed-periodic"
  ELSE IF ~ClosedOK(nm, "symm", r.size, a, r.symfx) THEN "closed-symm"
  ELSE "ok"

\* the observed projection has an entry for every label it mentions (else the invariants cannot be read)
Readable == /\ WSNames \subseteq DOMAIN reg.window /\ WSNames \subseteq DOMAIN reg.wsymm
            /\ \A d \in {"window", "wsymm"} : \A nm \in DOMAIN reg[d] : reg[d][nm] \in DOMAIN link

XrefVerdict ==
  IF ~Readable THEN "strategy-missing"
  ELSE IF ~DictLevel THEN "DictLevel"
  ELSE IF ~AliasesShare THEN "AliasesShare"
  ELSE IF ~CrossRefs THEN "CrossRefs"
  ELSE IF ~SharedIffNotDistinct THEN "SharedIffNotDistinct"
  ELSE IF ~ModelsDiffer THEN "ModelsDiffer"
  ELSE IF ~NoOtherNames THEN "NoOtherNames"
  ELSE "ok"

Judge == LET v == IF Rec.kind = "xref" THEN XrefVerdict ELSE WinVerdict(Rec)
         IN IF v = "ok" THEN TRUE ELSE PrintT(<<"REJECT", ri, v>>)
=============================================================================
