---------------------------- MODULE PolyValTrace ----------------------------
(***************************************************************************)
(* Extension check X04, code -> spec.  Observations of the real            *)
(* audiolazy.Poly / lazy_math code are judged with the operators of        *)
(* PolyMath (PolyVal, MathVal, Poly):                                      *)
(*                                                                         *)
(*  * Data.recs   : one record [kind, c, out] per call on an input larger  *)
(*    than the M1 grid; one initial state per record; Judge prints         *)
(*    <<"REJECT", i, clause>> (clause = first failing conjunct).           *)
(*  * Data.traces : histories [z0, events] of ONE Poly object under item   *)
(*    assignments, zero changes, hash() and copies; every event carries    *)
(*    what the object showed after the call; TNext explains it with        *)
(*    VSetItem / VSetZero / VCopy or prints <<"REJECT", tid, l, clause>>.  *)
(* Both keys are always present in the file (possibly empty).              *)
(* Polynomials are logged as lists of [power, [num, den]] pairs (a stored  *)
(* zero coefficient stays visible); everything else is logged in the shape *)
(* of the specification's own values.                                      *)
(***************************************************************************)
EXTENDS PolyMath, Json, IOUtils

Data      == JsonDeserialize(IOEnv.TRACE_FILE)
Recs(u)   == Data.recs
Traces(u) == Data.traces

VARIABLES ri, tid, l, st
tvars == <<ri, tid, l, st>>

RInit == ri \in 1..Len(Recs(0)) /\ tid = 0 /\ l = 0 /\ st = <<>>
RNext == UNCHANGED tvars
Rec   == Recs(0)[ri]

---------------------------------------------------------------------------
(* logged case -> case of the specification *)
PVOf(a)      == PV(PolyOfPairs(a.p), a.z)
OperandOf(b) == IF b.k = "poly" THEN OPoly(PolyOfPairs(b.p), b.z) ELSE b
ExpOf(n)     == IF n.k = "poly" THEN [k |-> "poly", p |-> PolyOfPairs(n.p)] ELSE n
CaseOf(kind, c) ==
  CASE kind = "arith" -> [op |-> c.op, a |-> PVOf(c.a), b |-> OperandOf(c.b)]
    [] kind = "div"   -> [rev |-> c.rev, a |-> PVOf(c.a), b |-> OperandOf(c.b)]
    [] kind = "pow"   -> [a |-> PVOf(c.a), n |-> ExpOf(c.n)]
    [] kind = "calc"  -> [a |-> PVOf(c.a), n |-> c.n]
    [] kind = "eqnum" -> [a |-> PVOf(c.a), b |-> OperandOf(c.b)]
    [] OTHER -> c

First(cl) == LET f == SelectSeq(cl, LAMBDA x : ~x[2]) IN IF f = <<>> THEN "ok" ELSE f[1][1]

\* a logged Poly result [e, p, z] against a specified one
PRes(exp, o) ==
  IF o.e # exp.e THEN "exception"
  ELSE IF exp.e # "none" THEN "ok"
  ELSE IF PolyOfPairs(o.p) # exp.p \/ Len(o.p) # NTerms(exp.p) THEN "terms"
  ELSE IF o.z # exp.z THEN "zero"
  ELSE "ok"

\* ---- constructor and views: the operational value AND the documented contract on the observation itself
CtorVerdict(c, exp, o) ==
  IF c.data.form = "opaque"
  THEN First(<< <<"opaque", o.opaque /\ o.len = 1 /\ o.ispoly /\ o.islaur /\ o.order = 0>>, <<"zero", o.z = exp.z>> >>)
  ELSE First(<<
    <<"terms",          PairsOf(o.d) = PairsOf(exp.d) /\ Len(o.d) = Len(exp.d)>>,
    <<"zero",           o.z = exp.z>>,
    <<"sorted",         o.srt = exp.srt /\ o.rsrt = exp.rsrt>>,
    <<"creation-order", DHasOrder(c.data) => (o.raw = exp.raw /\ o.rraw = exp.rraw /\ o.d = exp.d)>>,
    <<"auto",           IF exp.islaur THEN o.auto = exp.auto /\ o.rauto = exp.rauto
                        ELSE o.auto = o.raw /\ o.rauto = o.rraw>>,
    <<"len",            o.len = exp.len /\ o.empty = exp.empty>>,
    <<"is_polynomial",  o.ispoly = exp.ispoly>>,
    <<"is_laurent",     o.islaur = exp.islaur>>,
    <<"order",          o.order = exp.order>>,
    <<"values",         exp.d # <<>> => o.values = exp.values>>,          \* (the empty polynomial is left open)
    <<"getitem",        o.get = exp.get>>,
    <<"key-types",      o.ktypes>>,
    <<"call-empty",     o.callempty>>,
    <<"contract",       CtorContract(c.data, c.zarg, o)>>,
    <<"model-order",    o.raw = exp.raw /\ o.rraw = exp.rraw>>,        \* beyond the documentation: diagnostics
    <<"model-values",   o.values = exp.values>> >>)

NegMulti(c) == ~ExpGeneral(c.n) /\ ExpVal(c.n) < 0 /\ NTerms(c.a.p) > 1
PowVerdict(c, exp, o) ==
  IF NegMulti(c) THEN (IF o.e = "none" THEN "negative-multiterm" ELSE "ok")      \* any refusal will do
  ELSE IF ~DPowDefined(c.a, c.n) THEN (IF PRes(exp, o) = "ok" THEN "ok" ELSE "model-" \o PRes(exp, o))
  ELSE PRes(exp, o)

Near(f, r) ==      \* |f - r| <= 1e-6 * (1 + |r|), f logged as a rational approximation with denominator <= 10^6
  LET d == RAbs(RSub(f, r)) IN RLe(RMul(d, R(1000000)), RAdd(ROne, RAbs(r)))
PowFVerdict(c, exp, o) ==
  First(<< <<"power", o.key = exp.key>>, <<"power-type", o.ktype>>,
           <<"coefficient", IF exp.float THEN Near(o.coef, exp.coef) ELSE o.coef = exp.coef>>,
           <<"coefficient-type", o.float = exp.float>> >>)

CalcVerdict(c, exp, o) ==
  LET a == PRes(exp.diffn, o.diffn)
      b == PRes(exp.integ, o.integ)
  IN IF a # "ok" THEN "diff-" \o a ELSE IF b # "ok" THEN "integrate-" \o b ELSE "ok"

EqVerdict(c, exp, o) ==
  First(<< <<"eq", o.eq = exp.eq>>, <<"ne", o.ne = exp.ne>>, <<"reflected", o.req = exp.eq /\ o.rne = exp.ne>>,
           <<"hash", (c.b.k = "poly" /\ o.eq) => o.hashsame>> >>)

SCopyVerdict(c, exp, o) ==
  IF c.how = "copy" THEN First(<< <<"copy-items", o.new = exp.new>>, <<"original-items", o.rest = exp.rest>>,
                                  <<"tee", o.same = exp.same>> >>)
  ELSE IF o = exp THEN "ok" ELSE "model-shared-stream"

MutVerdict(c, exp, o) ==
  First(<< <<"distinct-object", o.distinct>>,
           <<"untouched", IF c.target = "new" THEN o.orig = exp.orig ELSE o.new = exp.new>>,
           <<"assigned", IF c.target = "new" THEN o.new = exp.new ELSE o.orig = exp.orig>>,
           <<"key-types", o.ktypes>> >>)

\* ---- lazy_math: logged result [r, e, t, exact, matches, limbs, pimult]
ArgName(a, i) == IF "f" \in DOMAIN a THEN (IF a.f = "1+" THEN "1+x" ELSE "abs(x)") ELSE (IF i = 1 THEN "x" ELSE "b")
ArgSig(args)  == IF Len(args) = 1 THEN ArgName(args[1], 1) ELSE ArgName(args[1], 1) \o "," \o ArgName(args[2], 2)
CallKey(exp)  == (IF exp.r = "scaled" THEN ToString(exp.k) \o "*" ELSE "") \o exp.fn \o "(" \o ArgSig(exp.args) \o ")"
NoRat == <<0, 0>>
ExHolds(ex, o) == CASE ex.t = "float"   -> o.t = "float" /\ o.exact = ex.v
                    [] ex.t = "complex" -> o.t = "complex" /\ o.exact = ex.v
                    [] ex.t = "pi"      -> o.t = "float" /\ o.pimult = ex.v
MVerdict(exp, o) ==
  CASE exp.r = "ninf"  -> IF o.r = "ninf" THEN "ok" ELSE "not-minus-inf"
    [] exp.r = "raise" -> IF o.r = "raise" /\ o.e = exp.e THEN "ok" ELSE "exception"
    [] exp.r \in {"call", "scaled"} ->
         IF o.r = "raise"                        \* the named library call itself raises that class (overflow ...)
         THEN (IF (CallKey(exp) \o "!" \o o.e) \in SeqSet(o.matches) THEN "ok" ELSE "raised")
         ELSE IF CallKey(exp) \notin SeqSet(o.matches) THEN "library-call"
         ELSE IF "ex" \in DOMAIN exp /\ ~ExHolds(exp.ex, o) THEN "exact-value"
         ELSE "ok"
    [] exp.r = "exact" -> IF o.r = "value" /\ o.t = exp.t /\ o.exact = exp.v THEN "ok" ELSE "value"
    [] exp.r = "big"   -> IF o.r = "value" /\ o.t = "int" /\ o.limbs = exp.limbs THEN "ok" ELSE "value"

MathKinds == {"log", "log10", "log2", "log1p", "fact", "db", "sign", "abs", "cexp", "phase"}

\* the per-kind laws of the grid; the evaluation points of PowIsPower are for the small grid polynomials only
\* (32-bit integers), on records the power is judged through the definition layer (DPow) instead
RecLaw(k, c, exp) == IF k = "pow" THEN (exp.e = "none" => (IsPoly(exp.p) /\ exp.z = c.a.z)) ELSE KindLaw(k, c, exp)

\* (the specified value is computed once: TLCEval forces it, and it travels as an operator argument)
Verdict(k, c, exp, out) ==
  IF HasDef(k, c) /\ Core(k, exp) # Def(k, c) THEN "layers"                  \* the two layers disagree
  ELSE IF ~RecLaw(k, c, exp) THEN "law"
  ELSE CASE k = "ctor"  -> CtorVerdict(c, exp, out)
         [] k \in {"arith", "div"} -> PRes(exp, out)
         [] k = "pow"   -> PowVerdict(c, exp, out)
         [] k = "powf"  -> PowFVerdict(c, exp, out)
         [] k = "calc"  -> CalcVerdict(c, exp, out)
         [] k = "eqnum" -> EqVerdict(c, exp, out)
         [] k = "scopy" -> SCopyVerdict(c, exp, out)
         [] k = "mutc"  -> MutVerdict(c, exp, out)
         [] k \in MathKinds -> MVerdict(exp, out)
RecVerdict(r) == Verdict(r.kind, TLCEval(CaseOf(r.kind, r.c)), TLCEval(Eval(r.kind, CaseOf(r.kind, r.c))), r.out)

Judge == LET v == RecVerdict(Rec) IN IF v = "ok" THEN TRUE ELSE PrintT(<<"REJECT", ri, v>>)

---------------------------------------------------------------------------
(* traces: st = [o |-> object, h |-> hashed, cf |-> definition layer's set of terms] *)
Tr == Traces(0)[tid]

TInit == /\ tid \in 1..Len(Traces(0)) /\ l = 1 /\ ri = 0
         /\ st = [o |-> Obj(<<>>, Traces(0)[tid].z0), h |-> FALSE, cf |-> {}]

Apply(s, e) ==
  CASE e.op = "set"  -> LET it == Item(e.k, e.fl, e.c)
                            r  == VSetItem(s.o, s.h, it)
                        IN [o |-> r.o, h |-> s.h, res |-> r.e, cf |-> IF s.h THEN s.cf ELSE DSetItem(s.cf, s.o.z, it)]
    [] e.op = "zero" -> LET r == VSetZero(s.o, s.h, e.z)
                        IN [o |-> r.o, h |-> s.h, res |-> r.e, cf |-> IF s.h THEN s.cf ELSE {t \in s.cf : t[2] # e.z.v}]
    [] e.op = "hash" -> [o |-> s.o, h |-> TRUE, res |-> "none", cf |-> s.cf]
    [] e.op \in {"copy", "ctor"} -> [o |-> VCopy(s.o, ZNone), h |-> FALSE, res |-> "none", cf |-> s.cf]

EvClauses(e, r) ==
  << <<"outcome", e.res = r.res>>,
     <<"terms",   PairsOf(e.raw) = r.cf /\ Len(e.raw) = Cardinality(r.cf)>>,        \* the definition layer's polynomial
     <<"zero",    e.zero = r.o.z>>,
     <<"creation-order", e.raw = r.o.d>>,
     <<"sorted",  e.srt = DSorted(r.cf)>>,
     <<"len",     e.len = Cardinality(r.cf)>>,
     <<"order",   e.order = DOrder(r.cf)>>,
     <<"is_laurent", e.islaur = DIsLaurent(r.cf)>>,
     <<"key-types", e.ktypes>> >>

Step ==
  /\ l <= Len(Tr.events)
  /\ LET e == Tr.events[l]
         r == Apply(st, e)
         v == First(EvClauses(e, r))
     IN IF v = "ok" THEN st' = [o |-> r.o, h |-> r.h, cf |-> r.cf]
        ELSE PrintT(<<"REJECT", tid, l, v>>) /\ FALSE
  /\ l' = l + 1 /\ UNCHANGED <<tid, ri>>

TNext == Step
Accepted == (l = Len(Tr.events) + 1) => PrintT(<<"ACCEPT", tid>>)
\* machine invariants on the observed runs
StoreCoherent == tid > 0 => (PairsOf(st.o.d) = st.cf /\ DistinctKeys(st.o.d) /\ \A t \in st.cf : t[2] # st.o.z.v)
=============================================================================
