----------------------------- MODULE BlocksTrace -----------------------------
(* Observation records of real blocks()/Stream.blocks()/zero_pad() runs (C08) judged by the     *)
(* definition layer of module Blocks (operators of BlocksDef through Blocks!Expected): one      *)
(* initial state per record.  A record is                                                      *)
(*   [case |-> <case record of Blocks>, out |-> <<observed>>, rd |-> <<items consumed at yield>>]*)
(* where observed items are coded as in the spec: input item i -> i, the pad value -> 0, any    *)
(* other object -> -1.  Judge prints <<"REJECT", i, clause>>.                                    *)
EXTENDS Blocks, Json, IOUtils

Data == JsonDeserialize(IOEnv.TRACE_FILE)
Recs == Data.recs

VARIABLE i
RInit == /\ i \in 1..Len(Recs)
         /\ case = Recs[i].case /\ pos = 0 /\ res = <<>> /\ idx = 0 /\ out = <<>> /\ rd = <<>> /\ pc = "done"
RNext == UNCHANGED <<vars, i>>

Verdict(r) ==
  LET c == r.case
      e == Expected(c)
  IN
  IF c.kind = "zpad"
  THEN IF Len(r.out) # Len(e) THEN "zpad-length"
       ELSE IF \E t \in DOMAIN e : r.out[t] # e[t] THEN "zpad-value" ELSE "ok"
  ELSE
    LET h  == EffHop(c.size, c.hop)
        nc == NComplete(c.n, c.size, h)
    IN
    IF Len(r.out) # Len(e)
      THEN (IF Len(r.out) < nc \/ Len(r.out) > nc + 1 THEN "count-complete" ELSE "tail-presence")
    ELSE IF \E k \in DOMAIN e : Len(r.out[k]) # c.size THEN "block-length"
    ELSE IF \E k \in 1..nc : r.out[k] # e[k] THEN "complete-block"
    ELSE IF \E k \in (nc + 1)..Len(e) : r.out[k] # e[k] THEN "tail-block"
    ELSE "ok"

\* diagnostics only (laziness is not part of C08): reads at each yield
Late(r) == r.case.kind = "blocks" /\ Len(r.rd) = Len(ExpectedReads(r.case))
           /\ \E k \in DOMAIN r.rd : r.rd[k] # ExpectedReads(r.case)[k]

Judge == LET v == Verdict(Recs[i]) IN
         /\ (v = "ok" \/ PrintT(<<"REJECT", i, v>>))
         /\ (~Late(Recs[i]) \/ PrintT(<<"NOTE", i, "reads">>))
==============================================================================
