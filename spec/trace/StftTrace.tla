------------------------------ MODULE StftTrace ------------------------------
(* Observation records of real stft-wrapper calls (C09) judged by the definition layer of module   *)
(* Stft: one initial state per record                                                              *)
(*   [case  |-> <configuration of Stft>,                                                           *)
(*    err   |-> "none" | exception class,                                                          *)
(*    res   |-> result: <<linear form>> (ola = list) or <<block>> (ola = None / stub),              *)
(*    fseen |-> the blocks the user function received (copied on receipt),                         *)
(*    ola   |-> keyword arguments the recording stub was called with (hop None logged as 0)]       *)
(* Clauses: "exception" (the property promises a result), "ola-options", "window-before-func",     *)
(* "value", "reconstruction"; "error-class" / "accepted" are notes (the statement of C09 does not  *)
(* speak about which exception rejects a bad configuration).                                       *)
EXTENDS Stft, Json, IOUtils

Data == JsonDeserialize(IOEnv.TRACE_FILE)
Recs == Data.recs

VARIABLE i
RInit == /\ i \in 1..Len(Recs)
         /\ case = Recs[i].case
         /\ li = 0 /\ kws = Empty /\ err = "none" /\ olaArgs = Empty /\ nb = 0
         /\ fseen = <<>> /\ pb = <<>> /\ res = <<>> /\ pc = "done"
         /\ aux = [cola |-> FALSE, ident |-> FALSE, nblocks |-> 0]
RNext == UNCHANGED <<vars, i>>

SameMap(f, g) == DOMAIN f = DOMAIN g /\ \A n \in DOMAIN f : f[n] = g[n]

Verdict(r) ==
  LET c  == r.case
      kw == DefMerged(c)
      de == DefError(kw)
  IN
  IF ~InScope(c) THEN "out-of-scope"
  ELSE IF de # "none"
       THEN (IF r.err = "none"
             THEN (IF \E n \in DOMAIN r.ola :
                         n \notin {"size", "hop"} \cup {OlaStrip[o] : o \in (DOMAIN kw) \cap (DOMAIN OlaStrip)}
                   THEN "ola-options" ELSE "accepted")
             ELSE IF r.err # de THEN "error-class" ELSE "ok")
  ELSE IF r.err # "none" THEN "exception"
  ELSE IF kw["ola"] = "stub" /\ ~OlaArgsOK(r.ola, kw) THEN "ola-options"
  ELSE LET B == DefBlocksOf(c, kw)
           e == DefResult(c)
           h == DefHop(kw)
       IN
       IF Len(r.fseen) # Len(B) \/ \E t \in DOMAIN B : r.fseen[t] # DefFuncInput(c, kw, B[t])
         THEN "window-before-func"
       ELSE IF Len(r.res) # Len(e) THEN "length"
       ELSE IF /\ kw["ola"] = "list" /\ IdentityProcessing(c, kw)
               /\ Cola2(DefAnalysisW(kw), DefSynthW(kw), kw["size"], h, DefSynthNorm(kw))
               /\ \E n \in 1..c.len : Covered(n, Len(B), kw["size"], h) /\ r.res[n] # Signal(c)[n]
            THEN "reconstruction"
       ELSE IF \E n \in DOMAIN e : r.res[n] # e[n] THEN "value"
       ELSE "ok"

Judge == LET v == Verdict(Recs[i]) IN IF v = "ok" THEN TRUE ELSE PrintT(<<"REJECT", i, v>>)
==============================================================================
