---------------------------- MODULE StreamOpsTrace ----------------------------
(* Observation records for C01 judged by StreamOps (operator expressions) and Broadcast           *)
(* (broadcasting functions): one initial state per record.                                         *)
EXTENDS StreamOps, Json, IOUtils

B == INSTANCE Broadcast WITH kind <- "scalar", n <- 1

Data == JsonDeserialize(IOEnv.TRACE_FILE)
Recs == Data.recs

VARIABLE i
RInit == /\ i \in 1..Len(Recs)
         /\ prog = Leaf("C", 1, 0) /\ cur = <<>> /\ out = <<>> /\ ended = FALSE
RNext == UNCHANGED <<vars, i>>

ExprVerdict(r) ==
  IF ~WellFormed(r.prog) THEN "not-well-formed"
  ELSE LET e == Expected(r.prog) IN
       IF Len(r.out) # Len(e.out) THEN "length"
       ELSE IF r.ended # e.ended THEN "end"
       ELSE IF ~SeqTermEq(r.out, e.out) THEN "value"
       ELSE "ok"

Verdict(r) == IF r.what = "expr" THEN ExprVerdict(r) ELSE B!Verdict(r)
Judge == LET v == Verdict(Recs[i]) IN IF v = "ok" THEN TRUE ELSE PrintT(<<"REJECT", i, v>>)
===============================================================================
