------------------------ MODULE MultiKeyDictTrace ------------------------
(***************************************************************************)
(* Trace validation for C15: histories recorded from the real              *)
(* MultiKeyDict / StrategyDict objects (one JSON record per public call,   *)
(* with the projection of the object's state taken through the public API  *)
(* after the call) are accepted iff they are behaviours of StrategyDict.   *)
(* Many traces per TLC run: `tid` selects the trace, `l` is the position.  *)
(***************************************************************************)
EXTENDS StrategyDict, Json, IOUtils

Data   == JsonDeserialize(IOEnv.TRACE_FILE)
Traces == Data.traces
Verbose == "TRACE_VERBOSE" \in DOMAIN IOEnv /\ IOEnv.TRACE_VERBOSE = "1"

VARIABLES tid, l
tvars == <<m, kv, ord, res, last, attrs, dflt, ddef, tid, l>>

TInit == SInit /\ tid \in 1..Len(Traces) /\ l = 1

Ev == Traces[tid].events[l]

\* logged projections are lists of pairs (JSON has no tuple-keyed maps)
PairsAre(ps, f) == /\ Len(ps) = Cardinality(DOMAIN f)
                   /\ \A i \in DOMAIN ps : ps[i][1] \in DOMAIN f /\ f[ps[i][1]] = ps[i][2]

Clauses(e) ==
  <<  <<"res",      e.res = res'>>,
      <<"kv",       PairsAre(e.kv, kv')>>,
      <<"key2keys", \A i \in DOMAIN e.k2k : /\ e.k2k[i][1] \in DOMAIN kv'
                                               /\ kv'[e.k2k[i][1]] \in DOMAIN ord'
                                               /\ e.k2k[i][2] = ord'[kv'[e.k2k[i][1]]]>>,
      <<"ord",      PairsAre(e.ord, ord')>>,
      <<"len",      e.len = Cardinality(DOMAIN ord')>>,
      <<"iter",     e.iter = Cardinality(DOMAIN ord')>>,
      <<"keys",     e.nkeys = Cardinality(DOMAIN ord')>>,
      <<"attrs",    Traces[tid].kind = "mk" \/ (\A k \in DOMAIN kv' : k \in DOMAIN attrs' /\ attrs'[k] = kv'[k]
                                                   /\ PairsAre(e.attrs, kv'))>>,
      <<"default",  Traces[tid].kind = "mk" \/ e.dflt = ddef'>>,
      <<"call",     Traces[tid].kind = "mk" \/ e.call = (IF ddef' = None THEN "NotImplemented" ELSE ddef')>> >>

Failing(e) == SelectSeq(Clauses(e), LAMBDA c : ~c[2])

Step ==
  /\ l <= Len(Traces[tid].events)
  /\ LET e == Ev IN
       /\ \/ e.op = "set" /\ SSetItem(e.ks, e.v)
          \/ e.op \in {"del", "delattr"} /\ (SDelItem(e.k, e.op) \/ SDelMissing(e.k, e.op))
       /\ IF Failing(e) = <<>> THEN TRUE
          ELSE PrintT(<<"REJECT", tid, l, Failing(e)[1][1]>>) /\ FALSE
  /\ l' = l + 1 /\ UNCHANGED tid

TNext == Step
TSpec == TInit /\ [][TNext]_tvars

Accepted == (l = Len(Traces[tid].events) + 1) => PrintT(<<"ACCEPT", tid>>)
Progress == Verbose => PrintT(<<"AT", tid, l>>)
\* the property-level invariants are evaluated on every state of every observed execution
===========================================================================
