----------------------------- MODULE AudioIOTrace -----------------------------
(***************************************************************************)
(* Trace validation for C17: executions of the real lazy_io module under   *)
(* the deterministic scheduler (one event per synchronisation / backend    *)
(* operation, with the projection of the shared state taken when the       *)
(* thread parks again) must be behaviours of module AudioIO.  Invisible    *)
(* steps (plain attribute accesses, the caller's choice of the next call)  *)
(* are not logged: TLC infers them.                                        *)
(***************************************************************************)
EXTENDS AudioIO, Json, IOUtils

Data   == JsonDeserialize(IOEnv.TRACE_FILE)
Traces == Data.traces

VARIABLES tid, l
tvars == <<vars, tid, l>>

\* kind of visible operation performed by the step that leaves a label
Kind(lab) ==
  CASE lab \in {"mp1", "c2", "ap1", "p10"}                -> "acquire:mgr"
    [] lab \in {"mp6", "mpE", "c3r", "c3s", "ap3", "p11r"} -> "release:mgr"
    [] lab = "c0"                                         -> "acquire:halt"
    [] lab = "c10"                                        -> "release:halt"
    [] lab \in {"pa1", "re1", "st1", "cs1", "p8"}         -> "acquire:thr"
    [] lab \in {"pa3", "re3", "st4", "cs4", "p12"}        -> "release:thr"
    [] lab = "pa2"                                        -> "clear"
    [] lab = "re2"                                        -> "set"
    [] lab \in {"st3", "cs3"}                             -> IF StopWakes THEN "set" ELSE "clear"
    [] lab = "mp3"                                        -> "open"
    [] lab = "mp5"                                        -> "start"
    [] lab \in {"c7", "c8j"}                              -> "join"
    [] lab = "c9"                                         -> "terminate"
    [] lab = "p0"                                         -> "begin"
    [] lab = "p1w"                                        -> "write"
    [] lab = "p2"                                         -> "is_set"
    [] lab = "p3"                                         -> "stop_stream"
    [] lab = "p5"                                         -> "wait"
    [] lab = "p6"                                         -> "start_stream"
    [] lab = "p9c"                                        -> "close"
    [] lab = "p13"                                        -> "end"
    [] OTHER                                              -> "invisible"

\* the player a visible operation of Main is aimed at (0 = none)
Target(lab) ==
  CASE lab \in {"pa1", "pa2", "pa3", "re1", "re2", "re3", "st1", "st3", "st4", "mp3", "mp5"} -> tgt
    [] lab \in {"cs1", "cs3", "cs4", "c7", "c8j"}                                                -> th
    [] OTHER                                                                                      -> 0

\* a device write that raised is logged as "write-fault": same label, the other branch of the step
OpOf(e)    == IF e.op = "write-fault" THEN "write" ELSE e.op
FaultOK(e) == IF e.op = "write-fault" THEN e.proc # MainId /\ faulted'[e.proc] /\ ~faulted[e.proc]
              ELSE faulted' = faulted

Stable == \A q \in ProcSet : pc[q] \notin Invisible

Proj == [go |-> go, halting |-> halting, finished |-> finished, nthreads |-> Len(threads),
         sstate |-> sstate, nwritten |-> [t \in Players |-> Len(written[t])],
         terminated |-> terminated, alive |-> alive]

Ev == Traces[tid].events[l]

ProjClauses(p) ==
  << <<"go", p.go = go>>, <<"halting", p.halting = halting>>, <<"finished", p.finished = finished>>,
     <<"nthreads", p.nthreads = Len(threads)>>, <<"sstate", p.sstate = sstate>>,
     <<"nwritten", p.nwritten = [t \in Players |-> Len(written[t])]>>,
     <<"terminated", p.terminated = terminated>>, <<"alive", p.alive = alive>> >>
ProjFailing(p) == SelectSeq(ProjClauses(p), LAMBDA c : ~c[2])

TInit == Init /\ tid \in 1..Len(Traces) /\ l = 1

StepOf(p) == IF p = MainId THEN Main ELSE Player(p)

Consume ==
  /\ l <= Len(Traces[tid].events)
  /\ Stable
  /\ (l > 1 => LET f == ProjFailing(Traces[tid].events[l - 1].after) IN
                 IF f = <<>> THEN TRUE ELSE PrintT(<<"REJECT", tid, l - 1, "state-" \o f[1][1]>>) /\ FALSE)
  /\ LET e == Ev IN
       /\ Kind(pc[e.proc]) = OpOf(e)
       /\ StepOf(e.proc)
       /\ FaultOK(e)
       /\ (e.proc = MainId /\ e.obj > 0) => Target(pc[MainId]) = e.obj
  /\ l' = l + 1 /\ UNCHANGED tid

Silent ==
  /\ \E q \in ProcSet : pc[q] \in Invisible /\ StepOf(q)
  /\ UNCHANGED <<tid, l>>

TNext == Consume \/ Silent

(* Fine-grained executions (line-level pre-emption in the harness): an invisible step may happen at any later   *)
(* time, so the projection logged right after a visible operation is compared right after that operation, and   *)
(* TLC infers when the invisible steps of all threads happened.                                                  *)
ProjP == [go |-> go', halting |-> halting', finished |-> finished', nthreads |-> Len(threads'),
          sstate |-> sstate', nwritten |-> [t \in Players |-> Len(written'[t])],
          terminated |-> terminated', alive |-> alive']
ConsumeF ==
  /\ l <= Len(Traces[tid].events)
  /\ LET e == Ev IN
       /\ Kind(pc[e.proc]) = OpOf(e)
       /\ StepOf(e.proc)
       /\ FaultOK(e)
       /\ (e.proc = MainId /\ e.obj > 0) => Target(pc[MainId]) = e.obj
       /\ IF ProjP = e.after THEN TRUE ELSE PrintT(<<"REJECT", tid, l, "state">>) /\ FALSE
  /\ l' = l + 1 /\ UNCHANGED tid
TNextF == ConsumeF \/ Silent
AtEndF == l = Len(Traces[tid].events) + 1
AcceptedF == AtEndF => PrintT(<<"ACCEPT", tid>>)

AtEnd == l = Len(Traces[tid].events) + 1 /\ Stable
Accepted == (AtEnd /\ ProjFailing(Traces[tid].events[l - 1].after) = <<>>) => PrintT(<<"ACCEPT", tid>>)
\* how far each trace got (diagnostics for rejected traces)
Progress == PrintT(<<"AT", tid, l>>)
==============================================================================
