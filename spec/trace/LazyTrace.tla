------------------------------ MODULE LazyTrace ------------------------------
(* Read counts observed on real stages (single stages with larger parameters, chains of two and    *)
(* three stages) judged by the closed forms of module Lazy.                                          *)
EXTENDS Lazy, Json, IOUtils

Data == JsonDeserialize(IOEnv.TRACE_FILE)
Recs == Data.recs

VARIABLE i
RInit == /\ i \in 1..Len(Recs)
         /\ case = Recs[i].chain[1] /\ pulled = 0 /\ emitted = 0 /\ ended = FALSE /\ built = FALSE
         /\ st = [first |-> TRUE, left |-> 0, idx2 |-> 0]
RNext == UNCHANGED <<vars, i>>

RECURSIVE NeedAlong(_, _, _)
\* chain[1] wraps the source, chain[n] is the outermost stage: Need_1(Need_2(...Need_n(k)))
NeedAlong(chain, n, k) == IF n = 0 THEN k ELSE NeedAlong(chain, n - 1, IF k >= Inf THEN Inf ELSE NeedUB(chain[n], k))

\* r.reads[j] = source items read after j-1 outputs (reads[1] = at construction)
Verdict(r) ==
  IF r.reads[1] # 0 THEN "read-at-construction"
  ELSE IF \E j \in 2..Len(r.reads) :
            r.reads[j] > MinOf(NeedAlong(r.chain, Len(r.chain), j - 1), SrcLen(r.chain[1]))
       THEN "over-read"
  ELSE IF r.budget THEN "no-finite-time"
  ELSE "ok"

FirstBad(r) == CHOOSE j \in 2..Len(r.reads) :
                 r.reads[j] > MinOf(NeedAlong(r.chain, Len(r.chain), j - 1), SrcLen(r.chain[1]))
Judge == LET v == Verdict(Recs[i]) IN
         IF v = "ok" THEN TRUE
         ELSE IF v = "over-read" THEN PrintT(<<"REJECT", i, v, FirstBad(Recs[i]) - 1>>)
         ELSE PrintT(<<"REJECT", i, v>>)
==============================================================================
