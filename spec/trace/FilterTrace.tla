----------------------------- MODULE FilterTrace -----------------------------
(* Observation records of real filter runs (C04, C06) judged by the specification of module   *)
(* Filter: one initial state per record; Judge prints <<"REJECT", i, clause>> for a record    *)
(* whose observed output differs from the difference equation.                                 *)
EXTENDS Filter, Json, IOUtils

Data == JsonDeserialize(IOEnv.TRACE_FILE)
Recs == Data.recs

VARIABLE i
RInit == /\ i \in 1..Len(Recs)
         /\ case = Recs[i].case /\ n = 0 /\ out = <<>> /\ err = "none" /\ mreg = <<>> /\ dreg = <<>>
RNext == UNCHANGED <<vars, i>>

Verdict(r) ==
  LET e == Expected(r.case, r.len) IN
  IF r.err # e.err THEN "exception"
  ELSE IF Len(r.out) # Len(e.out) THEN "length"
  ELSE IF \E t \in DOMAIN r.out : r.out[t] # e.out[t]
       THEN "value"
  ELSE IF ("asked" \in DOMAIN r) /\ ~MemAskedOK(r.case, r.asked) THEN "memory-size"
  ELSE IF ("reads" \in DOMAIN r) /\ (\E j \in DOMAIN r.reads : r.reads[j] > Len(e.out) + 1) THEN "reads"
  ELSE "ok"

Judge == LET v == Verdict(Recs[i]) IN IF v = "ok" THEN TRUE ELSE PrintT(<<"REJECT", i, v>>)
==============================================================================
