----------------------------- MODULE SynthTrace -----------------------------
(* Observations of the real generators (C19) judged by the specification of module Synth:      *)
(* one initial state per record  [case, out, ended, err]  (out = the samples the code produced, *)
(* ended = it ended by itself after them, err = exception class or "none").  Judge prints      *)
(* <<"REJECT", i, clause>> for a record that breaks the promise `Promise` of module Synth.      *)
(* Records of white noise carry, per sample v, the integers <<floor(v*2^16), ceil(v*2^16)>>.    *)
(* A record may carry `lat`: the driver mapped float samples to the nearest rational with a     *)
(* denominator <= lat (rule |float - q| <= 1e-9*(1+|q|)); the specification's own values must   *)
(* then lie on that lattice, otherwise the verdict is "lattice" (a machinery failure).          *)
EXTENDS Synth, Json, IOUtils

Data == JsonDeserialize(IOEnv.TRACE_FILE)
Recs == Data.recs

VARIABLE i
RInit == /\ i \in 1..Len(Recs)
         /\ case = Recs[i].case /\ n = 0 /\ out = <<>> /\ st = <<>> /\ done = FALSE
RNext == UNCHANGED <<vars, i>>

Scale == 65536
NoiseClause(c, o, ended) ==
  LET lc == LengthClause(c, o, ended, DefLen(c)) IN
  IF lc # "ok" THEN lc
  ELSE IF c.which = "white" /\ \E t \in DOMAIN o : \/ o[t][1] * c.low[2] < c.low[1] * Scale      \* v < low
                                                    \/ o[t][2] * c.high[2] > c.high[1] * Scale    \* v > high
       THEN "range"
  ELSE "ok"

IsLinGen(c) == c.gen \in {"tl", "tlget", "ks"}
OnLattice(c, k, lat) ==
  IF c.gen = "attack"
  THEN \A t \in 1..Lo2(k, AttackADLen(c)) : DefAttackAD(c, t - 1)[2] <= lat
  ELSE IF ~Exact(c) \/ k > DefLen(c) THEN TRUE
  ELSE LET e == DefSeq(c, k) IN
       IF IsLinGen(c) THEN \A t \in 1..k : \A j \in 1..NS : e[t][j][2] <= lat
       ELSE \A t \in 1..k : e[t][2] <= lat

Verdict(r) ==
  LET c == r.case IN
  IF ~Covered(c) THEN "uncovered"
  ELSE IF r.err # "none" THEN "exception"
  ELSE IF ("lat" \in DOMAIN r) /\ ~OnLattice(c, Len(r.out), r.lat) THEN "lattice"
  ELSE IF c.gen = "noise" THEN NoiseClause(c, r.out, r.ended)
  ELSE Promise(c, r.out, r.ended)

Judge == LET v == Verdict(Recs[i]) IN IF v = "ok" THEN TRUE ELSE PrintT(<<"REJECT", i, v>>)
==============================================================================
