------------------------------ MODULE PolyTrace ------------------------------
(* Calls recorded from the real audiolazy.Poly / lagrange objects (C07) judged by the         *)
(* specification of module Poly: one initial state per record; Judge prints                    *)
(* <<"REJECT", i, clause>> for a record whose logged result is not the value the specification *)
(* gives for the logged operands (clause = name of the first failing conjunct).                *)
(* A polynomial is logged as a list of [power, [num, den]] pairs (JSON has no integer-keyed    *)
(* maps); a stored zero coefficient stays visible (the domain of the rebuilt function differs  *)
(* from the specification's value).                                                            *)
EXTENDS Poly, Json, IOUtils

Data == JsonDeserialize(IOEnv.TRACE_FILE)
Recs == Data.recs

VARIABLE i
RInit == i \in 1..Len(Recs)
RNext == UNCHANGED i

Rt(x)    == RatOfPair(x)
PFrom(s) == PolyOfPairs(s)
PtsFrom(s) == [j \in DOMAIN s |-> <<Rt(s[j][1]), Rt(s[j][2])>>]
Has(r, f)  == f \in DOMAIN r

\* clauses per kind of record: sequences of <<name, holds>>
Clauses(r) ==
  IF r.op = "bin" THEN
     LET p == PFrom(r.p)
         q == PFrom(r.q)
     IN << <<"add",      PFrom(r.add) = OpAdd(p, q)>>,
           <<"radd",     PFrom(r.radd) = OpAdd(q, p)>>,
           <<"sub",      PFrom(r.sub) = OpSub(p, q)>>,
           <<"mul",      PFrom(r.mul) = OpMul(p, q)>>,
           <<"rmul",     PFrom(r.rmul) = OpMul(q, p)>>,
           <<"dmul",     PFrom(r.dmul) = OpDiff(OpMul(p, q))>>,
           <<"laws",     LawsBinary(p, q)>>,
           <<"eq-hash",  r.eq => (r.hasheq /\ ~r.ne)>>,
           <<"eq-model", r.eq = OpEq(p, q)>> >>
  ELSE IF r.op = "ter" THEN
     LET p == PFrom(r.p)
         q == PFrom(r.q)
         t == PFrom(r.r)
     IN << <<"add-assoc-l", PFrom(r.addl) = OpAdd(OpAdd(p, q), t)>>,
           <<"add-assoc-r", PFrom(r.addr) = OpAdd(p, OpAdd(q, t))>>,
           <<"mul-assoc-l", PFrom(r.mull) = OpMul(OpMul(p, q), t)>>,
           <<"mul-assoc-r", PFrom(r.mulr) = OpMul(p, OpMul(q, t))>>,
           <<"dist-l",      PFrom(r.distl) = OpMul(p, OpAdd(q, t))>>,
           <<"dist-r",      PFrom(r.distr) = OpAdd(OpMul(p, q), OpMul(p, t))>>,
           <<"laws",        LawsTernary(p, q, t)>> >>
  ELSE IF r.op = "pow" THEN
     LET p == PFrom(r.p)
     IN << <<"pow",  PFrom(r.out) = OpPow(p, r.n)>>,
           <<"fold", PFrom(r.out) = DefPow(p, r.n)>> >>
  ELSE IF r.op = "eval" THEN
     LET p == PFrom(r.p)
         v == Rt(r.v)
     IN << <<"defined", EvalDefined(p, v)>>,
           <<"auto",    Rt(r.auto) = OpCall(p, v, "auto")>>,
           <<"horner",  Rt(r.horner) = OpCall(p, v, "horner")>>,
           <<"sum",     Rt(r.sum) = OpCall(p, v, "sum")>>,
           <<"def",     Rt(r.auto) = DefEval(p, v)>> >>
  ELSE IF r.op = "hom" THEN
     LET p == PFrom(r.p)
         q == PFrom(r.q)
         v == Rt(r.v)
     IN << <<"mul", Rt(r.mulv) = RMul(DefEval(p, v), DefEval(q, v))>>,
           <<"add", Rt(r.addv) = RAdd(DefEval(p, v), DefEval(q, v))>> >>
  ELSE IF r.op = "compose" THEN
     LET p == PFrom(r.p)
         q == PFrom(r.q)
     IN << <<"defined", ComposeDefined(p, q)>>,
           <<"compose", PFrom(r.out) = OpCompose(p, q)>>,
           <<"def",     PFrom(r.out) = DefCompose(p, q)>> >>
  ELSE IF r.op = "calc" THEN
     LET p == PFrom(r.p)
     IN << <<"diff",      PFrom(r.diff) = OpDiff(p)>>,
           <<"diffn",     PFrom(r.diffn) = OpDiffN(p, r.n)>>,
           <<"integrate", CanIntegrate(p) => PFrom(r.integ) = OpIntegrate(p)>>,
           <<"undo",      CanIntegrate(p) => PFrom(r.dinteg) = p>> >>
  ELSE IF r.op = "lag" THEN
     LET pts == PtsFrom(r.pts)
         lp  == PFrom(r.poly)
     IN << <<"distinct",     DistinctX(pts)>>,
           <<"func-through", \A j \in DOMAIN pts : Rt(r.at[j]) = pts[j][2]>>,
           <<"poly-through", \A j \in DOMAIN pts : DefEval(lp, pts[j][1]) = pts[j][2]>>,
           <<"model",        PassesThrough(pts)>>,
           <<"poly-model",   lp = OpLagrangePoly(pts)>> >>
  ELSE << <<"unknown-op", FALSE>> >>

\* "eq-model" and "poly-model" (always last in their lists) say more than the property states (== is True
\* for every pair of equal polynomials; the interpolating polynomial is the one of least degree): the
\* driver reports a record rejected only by one of them as diagnostics, not as a violation.

Failing(r) == SelectSeq(Clauses(r), LAMBDA c : ~c[2])
Judge == LET f == Failing(Recs[i])
         IN IF f = <<>> THEN TRUE
            ELSE PrintT(<<"REJECT", i, f[1][1]>>)
==============================================================================
