---------------------------- MODULE OpTableTrace ----------------------------
(***************************************************************************)
(* Extension check X05, code -> spec.  Records of real executions of       *)
(* lazy_core.OpMethod / AbstractOperatorOverloaderMeta (and of the small   *)
(* neighbours lazy_stream.tostream / avoid_stream, lazy_compat.meta) are   *)
(* judged with the operators of OpTable / OpBuild / OpNbr: one initial     *)
(* state per record, Judge prints <<"REJECT", i, clause>> for the first    *)
(* clause a record fails.                                                  *)
(*                                                                         *)
(* kinds                                                                   *)
(*   get     [key, wo, out (names yielded, in order), err [t, msg]]        *)
(*   attrs   [ops: the attributes of every instance of get("all")]         *)
(*   class   [c, res, err, inst, calls, kept]  a metaclass built with      *)
(*           type(...) and one class constructed through it                *)
(*   lib     [cls, meta, bases, dunders]  a concrete class of the library  *)
(*   libsub  [cls, sub, res, err]  `class sub(cls): pass`                  *)
(*   meta / tostream / avoid   the neighbours (module OpNbr)               *)
(***************************************************************************)
EXTENDS OpNbr, Json, IOUtils

Data    == JsonDeserialize(IOEnv.TRACE_FILE)
Recs(u) == Data.recs

VARIABLE ri
Rec == Recs(0)[ri]
RInit == ri \in 1..Len(Recs(0))
RNext == UNCHANGED ri

NamesOf(out) == [i \in DOMAIN out |-> Rows[out[i]].name]
ErrSame(o, e) == o.t = e.t /\ (e.t = "ValueError" \/ e.msg # "" => o.msg = e.msg)      \* Python's own TypeError text is not modelled
KeyStrings(key) == IF key.k = "str" THEN {key.s}
                   ELSE IF key.k = "seq" THEN {key.items[i].s : i \in {j \in DOMAIN key.items : key.items[j].k = "str"}}
                   ELSE {}

GetVerdict(r) ==
  LET op  == RunGet(r.key, r.wo)
      def == DefGet(r.key, r.wo)
  IN IF \E s \in KeyStrings(r.key) \cup KeyStrings(r.wo) : ~WordsAgree(s) THEN "split"
     ELSE IF op # def THEN "layers"                                  \* the two layers disagree: a defect of the model
     ELSE IF r.err.t # def.err.t THEN "exception"
     ELSE IF Len(r.out) # Len(def.out) THEN "count"                  \* how many items were yielded before the end
     ELSE IF r.out # NamesOf(def.out) THEN "names"
     ELSE IF ~ErrSame(r.err, def.err) THEN "message"
     ELSE "ok"

AttrsVerdict(r) ==
  IF Len(r.ops) # NRows THEN "count"
  ELSE IF \E i \in 1..NRows : LET o == r.ops[i] w == Rows[i] IN
            ~(o.name = w.name /\ o.symbol = w.symbol /\ o.rev = w.rev /\ o.dname = w.dname /\ o.arity = w.arity /\ w.func \in SeqRange(o.funcs))
       THEN "attributes"
  ELSE IF \E i \in 1..NRows : r.ops[i].repr # Repr(Rows[i]) THEN "repr"
  ELSE "ok"

CaseOf(c) == [name |-> c.name, ops |-> c.ops, wo |-> c.wo, bld |-> SeqRange(c.bld), hand |-> SeqRange(c.hand),
              inh |-> SeqRange(c.inh)]
ClassVerdict(r) ==
  LET c   == CaseOf(r.c)
      op  == Construct(c)
      def == DefConstruct(c)
      sel == DefGet(EffOps(c), EffWo(c)).out
  IN IF op.ph # def.res \/ op.err # def.err \/ (op.ph = "done" /\ op.inst # def.inst) THEN "layers"
     ELSE IF r.res # def.res THEN "outcome"
     ELSE IF r.err.t # def.err.t THEN "exception"
     ELSE IF ~ErrSame(r.err, def.err) THEN "message"
     ELSE IF def.res = "done" /\ {x.d : x \in SeqRange(r.inst)} # {x.d : x \in def.inst} THEN "installed"
     ELSE IF def.res = "done" /\ {[d |-> x.d, kind |-> x.kind, op |-> x.op] : x \in SeqRange(r.inst)}
                                  # {[d |-> x.d, kind |-> x.kind, op |-> x.op] : x \in def.inst} THEN "template"
     ELSE IF def.res = "done" /\ \E x \in SeqRange(r.inst) : x.nm # x.d THEN "name"
     ELSE IF def.res = "done" /\ SeqRange(r.kept) # c.hand THEN "manual"
     ELSE IF \E i \in DOMAIN r.calls :
                ~\E q \in SeqRange(sel) : /\ Rows[q].dname = r.calls[i][2] /\ DefKind(Rows[q]) = r.calls[i][1]
                                          /\ Rows[q].dname \notin c.hand THEN "calls-justified"
     ELSE IF \E i \in DOMAIN r.calls : r.calls[i][3] # c.name THEN "calls-class"
     ELSE "ok"
LibVerdict(r) ==
  IF r.cls \notin DOMAIN LibClasses THEN "unknown-class"
  ELSE LET e    == LibExpected(r.cls)
           decl == LibClasses[r.cls]
           obs  == {x \in SeqRange(r.dunders) : x.d \in AllDnames}
           m    == LibMetas[decl.meta]
           SameDecl(o, d) == o.k = d.k /\ (o.k = "default" \/ Toks(o) = Toks(d))
       IN IF r.meta # decl.meta THEN "metaclass"
          ELSE IF r.bases # decl.bases THEN "bases"
          \* the transcription of the metaclass (module OpBuild) is the metaclass of the code
          ELSE IF ~SameDecl(r.decl.ops, m.ops) \/ ~SameDecl(r.decl.wo, m.wo) THEN "declaration"
          ELSE IF \E k \in Kinds : r.decl.bld[k] # m.bld[k] THEN "builders"
          ELSE IF e.res # "done" THEN "spec-says-unconstructible"
          ELSE IF {x.d : x \in obs} # {x.d : x \in e.dunders} THEN "dunders"
          ELSE IF {x.d : x \in {y \in obs : y.origin = "hand"}} # decl.hand THEN "hand-written"
          ELSE IF {[d |-> x.d, origin |-> x.origin] : x \in obs} # {[d |-> x.d, origin |-> x.origin] : x \in e.dunders} THEN "origin"
          ELSE IF \E x \in obs : x.origin # "hand" /\ x.owner # decl.meta THEN "owner"
          ELSE IF \E x \in obs : x.nm # x.d THEN "name"
          ELSE "ok"

LibSubVerdict(r) ==
  LET e == LibSubclassExpected(r.cls, r.sub) IN
  IF r.res # e.res THEN "outcome" ELSE IF r.err.t # e.err.t THEN "exception"
  ELSE IF ~ErrSame(r.err, e.err) THEN "message" ELSE "ok"

Verdict(r) ==
  CASE r.kind = "get"      -> GetVerdict(r)
    [] r.kind = "attrs"    -> AttrsVerdict(r)
    [] r.kind = "class"    -> ClassVerdict(r)
    [] r.kind = "lib"      -> LibVerdict(r)
    [] r.kind = "libsub"   -> LibSubVerdict(r)
    [] r.kind = "meta"     -> MetaVerdict(r)
    [] r.kind = "tostream" -> ToStreamVerdict(r)
    [] r.kind = "avoid"    -> AvoidVerdict(r)
    [] OTHER               -> "unknown-kind"

Judge == LET v == Verdict(Rec) IN IF v = "ok" THEN TRUE ELSE PrintT(<<"REJECT", ri, v>>)
==============================================================================
