------------------------------ MODULE Cached ------------------------------
(***************************************************************************)
(* audiolazy.lazy_misc.cached  (growth of the specification beyond the     *)
(* listed properties; extension check X07).                                *)
(*                                                                         *)
(* `cached(func)` returns `f = wraps(func)(lambda *key: cache[key])` where *)
(* `cache` is a dict subclass whose `__missing__` calls `func( *key)` and   *)
(* stores the result; the dict is exposed as `f.cache` ("You can access    *)
(* the cache contents using the cache attribute").                         *)
(*                                                                         *)
(* Operational layer: one action per way the code can be entered: the call *)
(* f( *key) (hit / miss / miss on a key whose computation raises), a call   *)
(* with an unhashable argument, a call with a keyword argument, and the    *)
(* uses of the exposed dictionary: `f.cache[key]` (which is NOT a plain    *)
(* read: `__missing__` computes and stores), `key in f.cache`,             *)
(* `f.cache[key] = v`, `del f.cache[key]`, `f.cache.clear()`.              *)
(* Definition layer: what memoisation promises: the underlying function is *)
(* never entered for a resident key, the first result is the one handed    *)
(* out until the user evicts or overwrites it, a failed computation leaves *)
(* no entry, decorated functions do not share state.                       *)
(*                                                                         *)
(* The underlying function is deliberately impure (its n-th invocation on  *)
(* key k returns 10*n + k), so that a recomputation is observable.         *)
(***************************************************************************)
EXTENDS Integers, Sequences, FiniteSets, TLC

CONSTANTS NF,        \* decorated functions
          NK,        \* keys 1..NK   (key k stands for the argument tuple Args(k) of the harness)
          Fail,      \* keys on which the underlying function raises ValueError
          MaxCalls   \* bound on the invocations of each underlying function

Fns  == 1..NF
Keys == 1..NK
Absent == 0
V(k, n) == 10 * n + k          \* result of the n-th invocation, on key k
Poked(k) == 900 + k            \* the value a user writes through f.cache

VARIABLES cache,     \* f -> [Keys -> value | Absent]        (f.cache)
          clock,     \* f -> invocations of the underlying function so far
          ncall,     \* f -> [Keys -> invocations on that key]
          ret,       \* outcome of the last operation
          last       \* the last operation
vars == <<cache, clock, ncall, ret, last>>

Init == /\ cache = [f \in Fns |-> [k \in Keys |-> Absent]]
        /\ clock = [f \in Fns |-> 0]
        /\ ncall = [f \in Fns |-> [k \in Keys |-> 0]]
        /\ ret = "ok" /\ last = <<"init">>

\* Cache.__missing__(key): result = self[key] = func( *key); return result
Missing(f, k) ==
  /\ clock[f] < MaxCalls
  /\ clock' = [clock EXCEPT ![f] = @ + 1]
  /\ ncall' = [ncall EXCEPT ![f][k] = @ + 1]
  /\ IF k \in Fail
     THEN ret' = "ValueError" /\ UNCHANGED cache
     ELSE /\ cache' = [cache EXCEPT ![f][k] = V(k, clock[f] + 1)]
          /\ ret' = V(k, clock[f] + 1)

Lookup(f, k) ==
  IF cache[f][k] # Absent
  THEN ret' = cache[f][k] /\ UNCHANGED <<cache, clock, ncall>>
  ELSE Missing(f, k)

\* f( *key)
Call(f, k)  == last' = <<"call", f, k>> /\ Lookup(f, k)
\* f.cache[key]  - the same dictionary lookup, hence the same computation on a miss
Index(f, k) == last' = <<"index", f, k>> /\ Lookup(f, k)
\* f([..]) : the key tuple is unhashable, the dictionary refuses before func is entered
CallUnhashable(f) == last' = <<"unhashable", f>> /\ ret' = "TypeError" /\ UNCHANGED <<cache, clock, ncall>>
\* f(x=..) : "a function without keyword arguments"
CallKeyword(f) == last' = <<"keyword", f>> /\ ret' = "TypeError" /\ UNCHANGED <<cache, clock, ncall>>
\* key in f.cache / f.cache.get(key) : plain reads, never compute
Has(f, k) == last' = <<"has", f, k>> /\ ret' = (IF cache[f][k] # Absent THEN "yes" ELSE "no")
             /\ UNCHANGED <<cache, clock, ncall>>
\* f.cache[key] = v
Poke(f, k) == /\ cache[f][k] # Poked(k)
              /\ last' = <<"poke", f, k>> /\ ret' = "ok"
              /\ cache' = [cache EXCEPT ![f][k] = Poked(k)] /\ UNCHANGED <<clock, ncall>>
\* del f.cache[key]
Evict(f, k) == /\ last' = <<"evict", f, k>>
               /\ IF cache[f][k] = Absent THEN ret' = "KeyError" /\ UNCHANGED cache
                  ELSE ret' = "ok" /\ cache' = [cache EXCEPT ![f][k] = Absent]
               /\ UNCHANGED <<clock, ncall>>
\* f.cache.clear()
Clear(f) == /\ \E k \in Keys : cache[f][k] # Absent
            /\ last' = <<"clear", f>> /\ ret' = "ok"
            /\ cache' = [cache EXCEPT ![f] = [k \in Keys |-> Absent]] /\ UNCHANGED <<clock, ncall>>

Next == \E f \in Fns :
          \/ CallUnhashable(f) \/ CallKeyword(f) \/ Clear(f)
          \/ \E k \in Keys : Call(f, k) \/ Index(f, k) \/ Has(f, k) \/ Poke(f, k) \/ Evict(f, k)
Spec == Init /\ [][Next]_vars

---------------------------------------------------------------------------
RECURSIVE SumTo(_, _)
SumTo(g, n) == IF n = 0 THEN 0 ELSE g[n] + SumTo(g, n - 1)

TypeOK == /\ \A f \in Fns : clock[f] \in 0..MaxCalls
          /\ \A f \in Fns, k \in Keys : cache[f][k] \in {Absent, Poked(k)} \cup {V(k, n) : n \in 1..MaxCalls}
\* every invocation of the underlying function is on some key
CallsAccounted == \A f \in Fns : clock[f] = SumTo(ncall[f], NK)
\* an entry is either what the user wrote or a result the function really produced for THAT key
EntriesAreResults == \A f \in Fns, k \in Keys :
   cache[f][k] \notin {Absent, Poked(k)} => \E n \in 1..clock[f] : cache[f][k] = V(k, n)
\* a computation that raised leaves nothing behind
FailureNotCached == \A f \in Fns, k \in Fail : cache[f][k] \in {Absent, Poked(k)}
\* the function is not entered for a resident key, and the resident value is the answer
NoRecompute == [][\A f \in Fns, k \in Keys :
                    (cache[f][k] # Absent /\ last' \in {<<"call", f, k>>, <<"index", f, k>>})
                       => (clock' = clock /\ ncall' = ncall /\ ret' = cache[f][k] /\ cache' = cache)]_vars
\* an entry changes only when the user evicts / overwrites / clears it
FirstResultSticks == [][\A f \in Fns, k \in Keys :
                    cache[f][k] # Absent =>
                       (cache'[f][k] = cache[f][k] \/ last' \in {<<"poke", f, k>>, <<"evict", f, k>>, <<"clear", f>>})]_vars
\* a miss enters the function exactly once and the answer handed out is the one stored
MissComputesOnce == [][\A f \in Fns, k \in Keys :
                    (cache[f][k] = Absent /\ last' \in {<<"call", f, k>>, <<"index", f, k>>})
                       => /\ clock'[f] = clock[f] + 1 /\ ncall'[f][k] = ncall[f][k] + 1
                          /\ (k \notin Fail => cache'[f][k] = ret' /\ ret' = V(k, clock'[f]))
                          /\ (k \in Fail => ret' = "ValueError" /\ cache' = cache)]_vars
\* plain reads and refused calls change nothing
ReadsArePure == [][last'[1] \in {"has", "unhashable", "keyword"} => UNCHANGED <<cache, clock, ncall>>]_vars
\* decorated functions share nothing
Independent == [][\A f \in Fns : (Len(last') >= 2 /\ last'[2] # f)
                    => (cache'[f] = cache[f] /\ clock'[f] = clock[f] /\ ncall'[f] = ncall[f])]_vars
===========================================================================
