"""C08 - blocks are the hop-spaced windows of the input, padded only at the end; zero_pad.

M1  TLC: spec/dsp/Blocks.tla on the BlocksC08 grid (every length x size x hop incl. "hop not given",
    zero_pad with every left/right): the deque/idx machine of lazy_misc.blocks refines the definition
    layer BlocksDef (complete windows in order + one padded tail iff it holds > max(size-hop,0) items).
M2  spec -> code: every state TLC reached is compared with the real blocks()/Stream.blocks()/zero_pad()
    on heterogeneous items, for every pad value kind and call route: the snapshots taken at each yield
    against the state's `out`, block by block (history-as-state: `out` at pc="done" is the whole run).
M3  code -> spec: seeded random larger (n, size, hop) runs recorded and judged by TLC
    (spec/trace/BlocksTrace.tla, which uses Blocks!Expected).
"""
import os
import shutil
import subprocess
from concurrent.futures import ThreadPoolExecutor
from fractions import Fraction

import common
import tlaval
import tlc
import tracecheck


class Opaque(object):
    """An item that is equal only to itself."""
    __slots__ = ("i",)

    def __init__(self, i):
        self.i = i

    def __repr__(self):
        return "Opaque(%d)" % self.i


KINDS = (lambda i: i, lambda i: "s%d" % i, lambda i: i + 0.5, lambda i: (i, "t"), lambda i: Fraction(i, 7),
         lambda i: Opaque(i), lambda i: [i], lambda i: complex(i, 1), lambda i: b"b%d" % i)

PADS = ("float0", "none", "sentinel", "default", "tuple", "emptytuple")


class Falsy(object):
    """A distinct object whose truth value is False."""
    def __init__(self, i):
        self.i = i

    def __bool__(self):
        return False
    __nonzero__ = __bool__

    def __repr__(self):
        return "Falsy(%d)" % self.i


# fresh, pairwise distinct objects that are all FALSE in a boolean context: what a block holds is never to be
# confused with whether it is true
FALSY_KINDS = (lambda i: Falsy(i), lambda i: [], lambda i: {}, lambda i: set(), lambda i: bytearray())


def make_items(n, shift=0):
    """n distinct heterogeneous objects; none of them is (or equals) a pad value.  Every third run (by `shift`)
    uses objects that are all falsy."""
    if shift % 3 == 2:
        return [FALSY_KINDS[(i + shift) % len(FALSY_KINDS)](i) for i in range(1, n + 1)]
    return [KINDS[(i + shift) % len(KINDS)](i) for i in range(1, n + 1)]


def make_pad(kind):
    if kind in ("float0", "default"):
        return 0.0
    if kind == "none":
        return None
    if kind == "tuple":
        return (Opaque(7), Opaque(8))        # a pad value that is itself iterable is still ONE pad value
    if kind == "emptytuple":
        return tuple([])
    return Opaque(0)


class Source(object):
    """Counting iterator: log[p] = number of blocks the consumer had received before the (p+1)-th read."""

    def __init__(self, items, seen):
        self.it = iter(items)
        self.seen = seen
        self.count = 0
        self.log = []

    def __iter__(self):
        return self

    def __next__(self):
        self.log.append(len(self.seen))
        v = next(self.it)
        self.count += 1
        return v


def coder(items, pad, padkind):
    ids = {id(o): k + 1 for k, o in enumerate(items)}

    def code(el):
        k = ids.get(id(el))
        if k is not None:
            return k
        if padkind == "default":
            return 0 if (type(el) is float and el == 0.0) else -1
        return 0 if el is pad else -1
    return code


BLOCK_ROUTES = ("func-pos", "func-kw", "stream-kw", "stream-pos", "func-list")


def run_blocks(al, n, size, hop, padkind, route, shift=0):
    """Observe the real code: (snapshots coded as index tuples, items consumed at each yield, read log, err)."""
    items = make_items(n, shift)
    if padkind != "none" and n and shift % 2:
        # "heterogeneous items": None is an item like any other (in every second run one item is None - the first
        # item a hop > size jumps over where there is one, any position otherwise)
        items[size if (hop and hop > size and n > size) else (shift // 2) % n] = None
    pad = make_pad(padkind)
    code = coder(items, pad, padkind)
    snaps, rd = [], []
    src = Source(items, snaps)
    seq = items if route == "func-list" else src
    kw = {}
    if hop:
        kw["hop"] = hop
    if padkind != "default":
        kw["padval"] = pad
    try:
        if route == "func-pos":
            if padkind == "default":
                gen = al.blocks(seq, size, hop or None)
            else:
                gen = al.blocks(seq, size, hop or None, pad)
        elif route in ("func-kw", "func-list"):
            gen = al.blocks(seq, size=size, **kw)
        elif route == "stream-kw":
            gen = al.Stream(seq).blocks(size=size, **kw)
        elif route == "stream-pos":
            if padkind == "default":
                gen = al.Stream(seq).blocks(size, hop or None)
            else:
                gen = al.Stream(seq).blocks(size, hop or None, pad)
        else:
            raise ValueError(route)
        for blk in gen:
            rd.append(src.count)
            snaps.append(tuple(code(el) for el in blk))      # snapshot: the container is reused
    except Exception as ex:                                    # noqa: any exception is an observation
        return snaps, rd, src.log, "%s: %s" % (type(ex).__name__, str(ex)[:80])
    return snaps, rd, src.log, None


ZP_ROUTES = ("pos", "kw", "default-zero", "gen")


def run_zero_pad(al, n, left, right, padkind, route, shift=0):
    items = make_items(n, shift)
    pad = make_pad(padkind)
    code = coder(items, pad, padkind)
    seq = iter(items) if route == "gen" else items
    try:
        if padkind == "default":
            g = al.zero_pad(seq, left, right) if route == "pos" else al.zero_pad(seq, left=left, right=right)
        elif route == "pos":
            g = al.zero_pad(seq, left, right, pad)
        else:
            g = al.zero_pad(seq, left=left, right=right, zero=pad)
        return tuple(code(el) for el in g), None
    except Exception as ex:                                    # noqa
        return (), "%s: %s" % (type(ex).__name__, str(ex)[:80])


def hoprel(size, hop):
    if hop == 0:
        return "hop-default"
    return "hop<size" if hop < size else ("hop=size" if hop == size else "hop>size")


def ncomplete(n, size, h):
    return 0 if n < size else (n - size) // h + 1


def clause_of(obs, exp, n, size, hop):
    """Which part of the statement the disagreement is about (only used to key the violation)."""
    h = hop or size
    nc = ncomplete(n, size, h)
    if len(obs) != len(exp):
        return "count-complete" if (len(obs) < nc or len(obs) > nc + 1) else "tail-presence"
    for k in range(len(exp)):
        if tuple(obs[k]) != tuple(exp[k]):
            return "complete-block" if k < nc else "tail-block"
    return "ok"


def m2(ctx, al, cfg):
    d = tlc.scratch_dir("c08")
    dump = os.path.join(d, "states")
    r = tlc.require_ok(tlc.run("BlocksC08", cfg, dump=dump), "BlocksC08",
                       need_actions=("Skip", "Take", "TakeYield", "Exhaust", "PadYield", "NoTail",
                                     "ZLeft", "ZMid", "ZRight"))
    ctx.add_tlc(r, "Blocks deque/idx machine == hop-spaced windows + tail rule; zero_pad")
    by_case = {}
    nstates = 0
    for st in tlaval.read_dump(dump + ".dump"):
        nstates += 1
        c = st["case"]
        key = (c["kind"], c["n"], c.get("size", c.get("left")), c.get("hop", c.get("right")))
        by_case.setdefault(key, []).append(st)
    if nstates != r.distinct:
        raise tlc.MachineryError("dump has %d states, TLC reported %d" % (nstates, r.distinct))
    late = 0
    nruns = 0
    ndiag = 0
    for key in sorted(by_case):
        states = by_case[key]
        kind, n = key[0], key[1]
        final = [s for s in states if s["pc"] == "done"]
        if len(final) != 1:
            raise tlc.MachineryError("case %r has %d final states" % (key, len(final)))
        exp = [tuple(b) for b in final[0]["out"]] if kind == "blocks" else tuple(final[0]["out"])
        if kind == "zpad":
            left, right = key[2], key[3]
            for padkind in PADS:
                for route in ZP_ROUTES:
                    if route == "default-zero" and padkind != "default":
                        continue
                    obs, err = run_zero_pad(al, n, left, right, padkind, route, shift=nruns)
                    nruns += 1
                    ctx.count(1, nontrivial_key=("zp", n, left, right) if (n and (left or right)) else None)
                    if err is not None or obs != exp:
                        ctx.violation("C08:zero_pad",
                                      {"call": "zero_pad", "n": n, "left": left, "right": right, "pad": padkind,
                                       "route": route, "expected": list(exp), "observed": list(obs), "error": err,
                                       "coding": "item i -> i, pad -> 0, anything else -> -1"})
                    # every intermediate state of the three loops is a prefix of the observed output
                    for s in states:
                        if tuple(s["out"]) != obs[:len(s["out"])] and err is None and obs == exp:
                            raise tlc.MachineryError("spec state is not a prefix of its own final state")
            continue
        size, hop = key[2], key[3]
        for padkind in PADS:
            for route in BLOCK_ROUTES:
                obs, rd, log, err = run_blocks(al, n, size, hop, padkind, route, shift=nruns)
                nruns += 1
                nontriv = (n, size, hop) if len(exp) >= 2 else None
                ctx.count(1, nontrivial_key=nontriv)
                if nruns % 4001 == 0:
                    ctx.sample({"call": route, "n": n, "size": size, "hop": hop or None, "pad": padkind,
                                "observed": [list(b) for b in obs][:6]})
                detail = {"call": route, "n": n, "size": size, "hop": hop or None, "pad": padkind,
                          "expected": [list(b) for b in exp], "observed": [list(b) for b in obs], "error": err,
                          "coding": "item i -> i, pad -> 0, anything else -> -1"}
                bad = None
                if err is not None:
                    bad = "exception"
                elif obs != exp:
                    bad = clause_of(obs, exp, n, size, hop)
                if bad:
                    if hop == 0:
                        # "hop not given" is outside the quantifier (all hop >= 1): diagnostics only
                        ndiag += 1
                        if ndiag <= 3:
                            ctx.log("diagnostic (hop default, not demanded by C08): %s %r" % (bad, detail))
                    else:
                        site = "Stream.blocks" if route.startswith("stream") else "blocks"
                        ctx.violation("C08:%s:%s:%s" % (site, hoprel(size, hop), bad), detail)
                    continue
                # stepwise: in spec state (pos = p, pc = loop) the consumer has received Len(out) blocks.
                # This is laziness (C02), more specific than C08: counted as diagnostics.
                if route != "func-list":
                    for s in states:
                        p = s["pos"]
                        if s["pc"] == "loop" and p < len(log) and log[p] != len(s["out"]):
                            late += 1
                    if list(rd) != list(final[0]["rd"]):
                        late += 1
    ctx.traces += nstates
    ctx.log("M2: %d spec states (%d cases) compared with %d real runs; diagnostics: read timing %d, "
            "hop-not-given %d" % (nstates, len(by_case), nruns, late, ndiag))


def m3(ctx, al, count, maxn, maxsize, maxhop, chunk):
    rng = ctx.rng
    recs, meta = [], []
    for t in range(count):
        if t % 7 == 6:
            n = rng.randint(0, maxn)
            left, right = rng.randint(0, 40), rng.randint(0, 40)
            padkind, route = rng.choice(PADS), rng.choice(ZP_ROUTES)
            if route == "default-zero":
                padkind = "default"
            obs, err = run_zero_pad(al, n, left, right, padkind, route, shift=t)
            case = {"kind": "zpad", "n": n, "left": left, "right": right}
            recs.append({"case": case, "out": list(obs), "rd": []})
            meta.append({"call": "zero_pad", "n": n, "left": left, "right": right, "pad": padkind, "route": route,
                         "error": err, "key": "C08:zero_pad"})
            ctx.count(1, nontrivial_key=("m3", t))
            if err is not None:
                ctx.violation("C08:zero_pad", meta[-1])
            continue
        size = rng.randint(1, maxsize)
        shape = rng.random()
        if shape < 0.4:
            hop = rng.randint(1, size)
        elif shape < 0.5:
            hop = size
        else:
            hop = rng.randint(1, maxhop)
        # lengths near block boundaries are the interesting ones
        if rng.random() < 0.5:
            n = max(0, min(maxn, size + hop * rng.randint(0, max(0, (maxn - size) // hop)) + rng.randint(-2, 2)))
        else:
            n = rng.randint(0, maxn)
        padkind, route = rng.choice(PADS), rng.choice(BLOCK_ROUTES)
        obs, rd, log, err = run_blocks(al, n, size, hop, padkind, route, shift=t)
        site = "Stream.blocks" if route.startswith("stream") else "blocks"
        m = {"call": route, "n": n, "size": size, "hop": hop, "pad": padkind, "error": err,
             "observed_first": [list(b) for b in obs[:2]], "observed_last": [list(b) for b in obs[-2:]],
             "blocks": len(obs), "site": site}
        ctx.count(1, nontrivial_key=("m3", t) if len(obs) >= 2 else None)
        if err is not None:
            ctx.violation("C08:%s:%s:exception" % (site, hoprel(size, hop)), m)
            continue
        recs.append({"case": {"kind": "blocks", "n": n, "size": size, "hop": hop},
                     "out": [list(b) for b in obs], "rd": list(rd) if route != "func-list" else []})
        meta.append(m)
    bad = tracecheck.run_records(ctx, "BlocksTrace", {"Cases": "{}"}, recs,
                                 what="C08 recorded blocks/zero_pad runs", chunk=chunk)
    ctx.traces += len(recs) - len(bad)
    ctx.log("M3: %d recorded runs judged by TLC, %d rejected" % (len(recs), len(bad)))
    if meta:
        ctx.sample({"recorded": {k: v for k, v in meta[0].items() if k != "site"}})
    for i, info in sorted(bad.items()):
        m = meta[i - 1]
        if m.get("key"):
            ctx.violation(m["key"], dict(m, clause=info[0]))
        else:
            ctx.violation("C08:%s:%s:%s" % (m["site"], hoprel(m["size"], m["hop"]), info[0]),
                          dict(m, clause=info[0]))


INST = """---- MODULE Inst ----
EXTENDS Integers
CONSTANT
  \\* @type: Int;
  N
VARIABLES
  \\* @type: Int;
  pos,
  \\* @type: Int;
  idx,
  \\* @type: Int;
  cnt,
  \\* @type: Str;
  pc
INSTANCE BlocksIdx WITH S <- %d, H <- %d
CInit == N \\in Nat
====
"""


def apalache_induction(ctx, pairs, timeout):
    """OPTIONAL, never a verdict: Apalache proves IndInv of spec/dsp/BlocksIdx.tla (the contents-free index
    machine) inductive for an ARBITRARY input length N, for each given (size, hop).  TLC stays the authority;
    any trouble here (tool missing, time-out, error) is only logged."""
    exe = shutil.which("apalache-mc")
    if not exe:
        ctx.log("apalache-mc not found: unbounded-length induction skipped")
        return
    src = os.path.join(tlc.SPEC, "dsp", "BlocksIdx.tla")

    def one(pair):
        size, hop = pair
        d = tlc.scratch_dir("apa")
        shutil.copy(src, d)
        with open(os.path.join(d, "Inst.tla"), "w") as fh:
            fh.write(INST % (size, hop))
        res = []
        for init, length in (("Init", 0), ("IndInit", 1)):
            cmd = ["timeout", str(timeout), exe, "check", "--out-dir=" + os.path.join(d, "out"), "--cinit=CInit",
                   "--init=" + init, "--inv=IndInv", "--length=%d" % length, "Inst.tla"]
            try:
                p = subprocess.run(cmd, cwd=d, stdout=subprocess.PIPE, stderr=subprocess.STDOUT,
                                   universal_newlines=True, timeout=timeout + 30)
                res.append("ok" if (p.returncode == 0 and "EXITCODE: OK" in p.stdout) else "rc=%s" % p.returncode)
            except Exception as ex:                                # noqa
                res.append(type(ex).__name__)
        return pair, res

    try:
        with ThreadPoolExecutor(max_workers=4) as ex:
            results = list(ex.map(one, pairs))
    except Exception as ex:                                        # noqa
        ctx.log("apalache induction skipped: %r" % ex)
        return
    proved = [list(pr) for pr, res in results if res == ["ok", "ok"]]
    other = {"%d,%d" % pr: res for pr, res in results if res != ["ok", "ok"]}
    ctx.extra["apalache_inductive_any_length"] = {"size_hop_proved": proved, "not_concluded": other}
    ctx.log("apalache (optional): IndInv inductive for every input length at (size, hop) in %s%s"
            % (proved, "; not concluded: %s" % other if other else ""))


def check(ctx):
    al = common.import_audiolazy()
    ctx.rule = ("M2: every (length, size, hop) / (length, left, right) of the TLC grid run through 4 pad kinds x "
                "5 (4) call routes, snapshots compared with the spec's blocks; non-trivial = at least 2 blocks "
                "(zero_pad: non-empty input and some padding); M3: random larger runs judged by TLC")
    ctx.assumptions = ["size >= 1, hop >= 1 (the statement's quantifier); 'hop not given' is modelled and replayed "
                       "but a disagreement there is diagnostics only",
                       "each block is observed by copying it at the moment it is produced (the deque is reused)",
                       "the number of items consumed at each yield is compared as diagnostics (laziness is C02)",
                       "zero_pad with left, right >= 0"]
    if ctx.thorough:
        m2(ctx, al, "BlocksC08_thorough.cfg")
        m3(ctx, al, 3000, 300, 40, 60, 150)
        apalache_induction(ctx, [(1, 1), (2, 1), (3, 1), (3, 2), (3, 3), (2, 3), (3, 5), (1, 4), (4, 2), (5, 3),
                                 (4, 9), (6, 4)], 240)
    else:
        m2(ctx, al, "BlocksC08_quick.cfg")
        m3(ctx, al, 420, 300, 40, 60, 105)
        apalache_induction(ctx, [(3, 2), (2, 5)], 60)
    ctx.exhaustive = True
