"""C12 - frequency response is the transfer function and matches the time domain.

M1  TLC: spec/dsp/FreqResp.tla on the FreqRespC12 grids (Gaussian rationals, frequencies m*pi/2):
    Poly.__call__ (Horner / Laurent sum), nan test, reduce(mul/add) over cascades / parallel banks, the
    elementwise wrapper, the generated FIR code on complex samples and dft's sum == the transfer function
    H(w), the polynomial product / sum of the sections, the steady-state scaling, the DFT of the impulse
    response, the defining sum, its linearity and the DC mean.
M2  spec -> code: every dumped state (case, k, out, ref) is replayed on the real objects (several
    construction routes, the container kinds of the case, scalar calls per element) and what the code
    returns is compared with the values TLC exported.
M3  code -> spec: seeded random filters of order <= 8, cascades / banks, longer signals and blocks are run
    on the real code, the observations logged and judged by TLC (spec/trace/FreqRespTrace.tla).
"""
import cmath
import math
import os
import types
from collections import deque
from fractions import Fraction

import common
import tlaval
import tlc
import tracecheck

PI2 = math.pi / 2
TOL = 1e-9
UNIT = (1 + 0j, 1j, -1 + 0j, -1j)        # j ** q, exact
SNAP_Q = 2048                            # denominator bound of logged observations (M3)
SNAP_MAG = 50                            # magnitude bound of the specified values (M3)
ORDERED = ("list", "tuple", "deque", "Stream", "generator", "map")


# ---------------------------------------------------------------------------------------------------
# values: spec encoding <-> Python
def fr_of(p):
    return Fraction(p[0], p[1])


def is_nan_spec(v):
    return v[0][1] == 0


def cval(v):
    """spec Gaussian rational -> Python complex (None for NaN)."""
    if is_nan_spec(v):
        return None
    return complex(float(fr_of(v[0])), float(fr_of(v[1])))


def is_nan_code(z):
    try:
        return cmath.isnan(z)
    except TypeError:
        return False


def close(z, exact):
    """The README's float rule; `exact` is the complex value of a Gaussian rational of magnitude O(1-100)."""
    try:
        z = complex(z)
    except (TypeError, ValueError):
        return False
    if is_nan_code(z):
        return False
    return abs(z - exact) <= TOL * (1 + abs(exact))


def matches(z, v):
    """code value z against exported spec value v (NaN <-> float nan in some component)."""
    e = cval(v)
    if e is None:
        return is_nan_code(z)
    return close(z, e)


def pynum(fr):
    """Fraction -> number the library computes with exactly (int, or a float for a dyadic rational)."""
    if fr.denominator == 1:
        return int(fr)
    fl = float(fr)
    if Fraction(fl) != fr:
        raise tlc.MachineryError("value %s is not a float" % fr)
    return fl


def pysample(v):
    """spec Gaussian rational -> sample for the real code (int / float when real, complex otherwise)."""
    re, im = fr_of(v[0]), fr_of(v[1])
    if im == 0:
        return pynum(re)
    return complex(pynum(re), pynum(im))


def rat(fr):
    return [fr.numerator, fr.denominator]


def crat(re, im):
    return [rat(Fraction(re)), rat(Fraction(im))]


NAN_ENC = [[0, 0], [0, 0]]


def freq_value(m, as_int_zero=False):
    if m == 0 and as_int_zero:
        return 0
    return m * PI2


# ---------------------------------------------------------------------------------------------------
# building the real objects
def build_section(al, sec, route):
    b = [pynum(fr_of(c)) for c in sec["b"]]
    a = [pynum(fr_of(c)) for c in sec["a"]]
    adv = sec["adv"]
    z = al.z
    if route == "list" and adv == 0:
        return al.ZFilter(b, a)
    if route == "zexpr":
        num = sum(v * z ** -k for k, v in enumerate(b))
        den = sum(v * z ** -k for k, v in enumerate(a))
        if not isinstance(num, al.ZFilter):
            num = al.ZFilter([num])
        f = num / den
        if adv:
            f = f * z ** adv
        return f
    return al.LinearFilter({k - adv: v for k, v in enumerate(b)}, {k: v for k, v in enumerate(a)})


_BANKS = [0]


def build_filter(al, filt, route, listarg=False):
    # equal sections of one bank are ONE filter object used in several branches (a bank may hold the same member
    # more than once; it still multiplies / adds across all of them)
    made, secs = [], []
    for sdesc in filt["secs"]:
        for d0, obj in made:
            if d0 == sdesc:
                secs.append(obj)
                break
        else:
            obj = build_section(al, sdesc, route)
            if filt["comb"] != "single" and len(sdesc["b"]) == 1 and len(sdesc["a"]) == 1 and sdesc["adv"] == 0 \
                    and fr_of(sdesc["a"][0]) == 1 and _BANKS[0] % 2 == 0:
                obj = pynum(fr_of(sdesc["b"][0]))       # a constant branch given as a plain number
            made.append((sdesc, obj))
            secs.append(obj)
    if filt["comb"] == "single":
        return secs[0]
    cls = al.CascadeFilter if filt["comb"] == "cascade" else al.ParallelFilter
    _BANKS[0] += 1
    if _BANKS[0] % 3 == 0:
        # a bank is a list: one that has answered before and whose members were replaced / appended afterwards is
        # the cascade / parallel bank of its CURRENT members
        bank = cls([al.ZFilter([1, 1], [1, 0.5])] * len(secs))
        try:
            bank.freq_response(0.75)
        except Exception:                        # noqa: the judged call is what counts
            pass
        for i, sec in enumerate(secs):
            if i % 2:
                bank[i] = sec
            else:
                bank[i:i + 1] = [sec]
        return bank
    return cls(secs) if listarg else cls(*secs)


def make_container(al, cont, ws):
    if cont == "list":
        return list(ws)
    if cont == "tuple":
        return tuple(ws)
    if cont == "deque":
        return deque(ws)
    if cont == "Stream":
        return al.Stream(list(ws))
    if cont == "generator":
        return (w for w in list(ws))
    if cont == "map":
        return map(float, list(ws))
    if cont == "set":
        return set(ws)
    if cont == "frozenset":
        return frozenset(ws)
    raise tlc.MachineryError("container kind %r" % cont)


def result_type(al, res):
    if isinstance(res, al.Stream):
        return "Stream"
    if isinstance(res, types.GeneratorType):
        return "generator"
    for name, t in (("list", list), ("tuple", tuple), ("deque", deque), ("set", set), ("frozenset", frozenset)):
        if type(res) is t:
            return name
    if isinstance(res, (complex, float, int)):
        return "scalar"
    return type(res).__name__


def expected_type(cont):
    return "generator" if cont in ("generator", "map") else cont


def filt_text(filt):
    def cs(v):
        return ",".join(str(fr_of(c)) for c in v)
    secs = ["[%s]/[%s]%s" % (cs(s["b"]), cs(s["a"]), (" z^%d" % s["adv"]) if s["adv"] else "") for s in filt["secs"]]
    return "%s(%s)" % (filt["comb"], " ; ".join(secs))


def call_fr(al, f, cont, ms, keyword=False):
    """Call freq_response on a container of the given kind; returns (type name, list of values) or error text."""
    ws = [freq_value(m) for m in ms]
    try:
        # the filter object has answered another question before (a response is a function of the frequency asked,
        # not of what was asked earlier)
        f.freq_response(0.3125)
        list(f.freq_response([0.0, 1.0]))
    except Exception:                            # noqa: the judged call below is what counts
        pass
    try:
        if cont == "scalar":
            w = freq_value(ms[0], as_int_zero=keyword)
            res = f.freq_response(freq=w) if keyword else f.freq_response(w)
            return result_type(al, res), [res]
        arg = make_container(al, cont, ws)
        res = f.freq_response(freq=arg) if keyword else f.freq_response(arg)
        return result_type(al, res), list(res)
    except Exception as ex:                      # the property promises a value
        return "exception " + type(ex).__name__ + ": " + str(ex)[:80], []


def set_match(vals, exp_vals):
    """Unordered comparison: every observed value is some specified one and every specified one is observed."""
    return (all(any(matches(z, v) for v in exp_vals) for z in vals)
            and all(any(matches(z, v) for z in vals) for v in exp_vals))


# ---------------------------------------------------------------------------------------------------
# M2
def m2_fr(ctx, al, st, idx, stats):
    case, k, out = st["case"], st["k"], st["out"]
    filt, cont = case["filt"], case["cont"]
    final = k == len(case["ms"])
    ms = list(case["ms"][:k])
    if cont == "scalar" and k == 0:
        return
    if cont in ("set", "frozenset") and not final:
        return                                   # prefixes of an unordered container are not prefixes of the result
    routes = ("list", "dict", "zexpr") if final else (("list", "dict", "zexpr")[idx % 3],)
    comb = filt["comb"]
    for route in routes:
        f = build_filter(al, filt, route, listarg=(idx % 2 == 0))
        rtype, vals = call_fr(al, f, cont, ms, keyword=(idx % 5 == 0))
        ctx.count(1, nontrivial_key=("fr", idx, route) if k >= 1 else None)
        detail = {"filter": filt_text(filt), "route": route, "container": cont, "freqs_in_units_of_pi/2": ms,
                  "expected": [None if is_nan_spec(v) else str(cval(v)) for v in out],
                  "observed": [str(v) for v in vals], "returned_type": rtype}
        if rtype != expected_type(cont):
            ctx.violation("C12:container-%s" % cont, detail)
            continue
        if cont in ("set", "frozenset"):
            ok = set_match(vals, out) and len(vals) <= len(ms)
        else:
            ok = len(vals) == len(out) and all(matches(z, v) for z, v in zip(vals, out))
        if not ok:
            nan_case = any(is_nan_spec(v) for v in out) and len(vals) == len(out) and all(
                matches(z, v) for z, v in zip(vals, out) if not is_nan_spec(v))
            if len(vals) != len(out) and cont not in ("set", "frozenset"):
                ctx.violation("C12:container-%s" % cont, detail)
            elif nan_case:
                ctx.violation("C12:nan-%s" % comb, detail)
            else:
                ctx.violation("C12:freq_response-%s" % comb, detail)
        # per element: the same value for the element alone
        if final and cont != "scalar" and route == routes[0]:
            for m, v in zip(ms, out):
                rt, one = call_fr(al, f, "scalar", [m])
                ctx.count(1)
                if rt != "scalar" or not matches(one[0], v):
                    ctx.violation("C12:%s-%s" % ("nan" if is_nan_spec(v) else "freq_response", comb),
                                  dict(detail, container="scalar", **{"freqs_in_units_of_pi/2": [m]},
                                       expected=[None if is_nan_spec(v) else str(cval(v))],
                                       observed=[str(x) for x in one], returned_type=rt))
    stats["nan"] += sum(1 for v in out if is_nan_spec(v))
    stats["fr_values"] += len(out)
    if idx % 2503 == 0 and k >= 2:
        ctx.sample({"freq_response": filt_text(filt), "container": cont, "freqs_in_units_of_pi/2": ms,
                    "spec": [None if is_nan_spec(v) else str(cval(v)) for v in out]})


def signal(case, n):
    if case["sig"] == "exp":
        return [UNIT[(case["m"] * t) % 4] for t in range(n)]
    return [1] + [0] * (n - 1) if n else []


def order_of(sec):
    nz = [i for i, c in enumerate(sec["b"]) if c[0] != 0]
    lb = (nz[-1] + 1) if nz else 0
    return lb, max(lb - 1, 0)


def m2_td(ctx, al, st, idx, stats):
    case, k, out, ref = st["case"], st["k"], st["out"], st["ref"]
    sec, m = case["sec"], case["m"]
    lb, order = order_of(sec)
    w = freq_value(m)
    route = ("list", "dict", "zexpr")[idx % 3]
    f = build_section(al, sec, route)
    x = signal(case, k)
    text = filt_text({"comb": "single", "secs": [sec]})
    detail = {"filter": text, "route": route, "signal": case["sig"], "freq_in_units_of_pi/2": m, "samples": k}
    try:
        y = list(f(list(x)))
        h = f.freq_response(w)
        d = al.dft(y, [w], normalize=False)[0] if case["sig"] == "imp" else None
    except Exception as ex:
        ctx.violation("C12:time-domain-exception", dict(detail, error=type(ex).__name__ + ": " + str(ex)[:80]))
        return
    ctx.count(1, nontrivial_key=("td", idx) if k > order else None)
    eref = cval(ref)
    if not close(h, eref):
        ctx.violation("C12:freq_response-single", dict(detail, expected=str(eref), observed=str(h)))
    exp_out = [cval(v) for v in out]
    if case["sig"] == "exp":
        bad = [t for t in range(order, k) if t >= len(y) or complex(y[t]) != exp_out[t]
               or not close(y[t], h * x[t])]
        if bad:
            ctx.violation("C12:steady-state", dict(detail, first_bad_index=bad[0], expected=[str(v) for v in exp_out],
                                                   observed=[str(v) for v in y], freq_response=str(h)))
        stats["steady"] += max(0, k - order)
    else:
        if k >= lb:
            if not close(d, eref):
                ctx.violation("C12:dft-impulse-response",
                              dict(detail, expected=str(eref), observed=str(d), impulse_response=[str(v) for v in y],
                                   freq_response=str(h)))
            stats["impdft"] += 1
    # transient / impulse-response samples are the business of C04: diagnostics only
    if len(y) != k or any(complex(a) != b for a, b in zip(y, exp_out)):
        stats["diag"] += 1
        if stats["diag"] <= 5:
            ctx.log("diagnostic (not a C12 verdict): filter output differs from the register machine", detail,
                    [str(v) for v in y], [str(v) for v in exp_out])
    if idx % 3301 == 0 and k > order + 1:
        ctx.sample({"filter": text, "signal": case["sig"], "freq_in_units_of_pi/2": m, "output": [str(v) for v in y],
                    "freq_response": str(h)})


def combo_block(case):
    al_, be_ = fr_of(case["al"]), fr_of(case["be"])
    blk = []
    for xv, yv in zip(case["x"], case["y"]):
        re = al_ * fr_of(xv[0]) + be_ * fr_of(yv[0])
        im = al_ * fr_of(xv[1]) + be_ * fr_of(yv[1])
        blk.append(pysample((rat(re), rat(im))))
    return blk


def m2_dft(ctx, al, st, idx, stats):
    case, k, out = st["case"], st["k"], st["out"]
    ms = list(case["ms"][:k])
    ws = [freq_value(m, as_int_zero=(idx % 2 == 0)) for m in ms]
    blocks = [[pysample(v) for v in case["x"]]]
    if case["lin"]:
        blocks += [[pysample(v) for v in case["y"]], combo_block(case)]
    if idx % 3 == 0:
        blocks = [tuple(b) for b in blocks]
    obs = []
    detail = {"block": [str(v) for v in blocks[0]], "freqs_in_units_of_pi/2": ms, "normalize": case["norm"]}
    try:
        for b in blocks:
            obs.append(al.dft(b, ws, normalize=case["norm"]) if idx % 2 else al.dft(b, ws, case["norm"]))
    except Exception as ex:
        ctx.violation("C12:dft-exception", dict(detail, error=type(ex).__name__ + ": " + str(ex)[:80]))
        return
    ctx.count(len(blocks), nontrivial_key=("dft", idx) if k >= 1 and len(case["x"]) >= 2 else None)
    for j, vals in enumerate(obs):
        exp = [o[j] for o in out]
        if not isinstance(vals, list) or len(vals) != len(exp) or not all(matches(z, v) for z, v in zip(vals, exp)):
            key = "C12:dft-linear" if j == 2 else ("C12:dft-normalised" if case["norm"] else "C12:dft-sum")
            ctx.violation(key, dict(detail, block=[str(v) for v in blocks[j]], expected=[str(cval(v)) for v in exp],
                                    observed=[str(v) for v in vals] if isinstance(vals, list) else repr(vals)))
    stats["dft_values"] += k * len(blocks)
    if case["norm"]:
        stats["dcmean"] += sum(1 for m in ms if m == 0)
    if idx % 1709 == 0 and k >= 2:
        ctx.sample({"dft_block": [str(v) for v in blocks[0]], "freqs_in_units_of_pi/2": ms, "normalize": case["norm"],
                    "observed": [str(v) for v in obs[0]]})


def m2(ctx, al, module, cfg):
    d = tlc.scratch_dir("c12")
    dump = os.path.join(d, "states")
    r = tlc.require_ok(tlc.run(module, cfg, dump=dump), module, need_actions=("Pick", "StepFr", "StepTd", "StepDft"))
    ctx.add_tlc(r, "FreqResp (C12 grid): code-shaped evaluation == transfer function / time domain / defining sum")
    ctx.log("M1: TLC %d distinct states, %.1fs wall" % (r.distinct, r.wall))
    stats = dict(nan=0, fr_values=0, steady=0, impdft=0, diag=0, dft_values=0, dcmean=0)
    kinds = {}
    conts = set()
    n = 0
    for st in tlaval.read_dump(dump + ".dump"):
        n += 1
        kind = st["case"]["kind"]
        kinds[kind] = kinds.get(kind, 0) + 1
        if kind == "group":
            continue                             # a group of the grid before Pick: nothing to observe
        if kind == "fr":
            conts.add(st["case"]["cont"])
            m2_fr(ctx, al, st, n, stats)
        elif kind == "td":
            m2_td(ctx, al, st, n, stats)
        else:
            m2_dft(ctx, al, st, n, stats)
    if n != r.distinct:
        raise tlc.MachineryError("dump has %d states, TLC reported %d" % (n, r.distinct))
    # vacuity: every clause of the property must have been exercised by the grid
    for key in ("nan", "fr_values", "steady", "impdft", "dft_values", "dcmean"):
        if stats[key] == 0:
            raise tlc.MachineryError("C12 grid never exercised clause %r" % key)
    if len(conts) < 9:
        raise tlc.MachineryError("C12 grid misses container kinds: %s" % sorted(conts))
    n -= kinds.get("group", 0)
    ctx.traces += n
    ctx.log("M2: %d spec states replayed %s; nan values %d, steady-state samples %d, impulse-response DFTs %d, "
            "dft values %d, register-machine diagnostics %d" %
            (n, kinds, stats["nan"], stats["steady"], stats["impdft"], stats["dft_values"], stats["diag"]))


# ---------------------------------------------------------------------------------------------------
# M3: exact screening from the inputs alone (never from what the code returned)
def ex_unit(q):
    return ((1, 0), (0, 1), (-1, 0), (0, -1))[q % 4]


def ex_direct(cs, adv, m):
    re = im = Fraction(0)
    for i, c in enumerate(cs):
        ur, ui = ex_unit(-(m * (i - adv)))
        re += c * ur
        im += c * ui
    return re, im


def ex_div(n, d):
    nn = d[0] * d[0] + d[1] * d[1]
    return ((n[0] * d[0] + n[1] * d[1]) / nn, (n[1] * d[0] - n[0] * d[1]) / nn)


def ex_filter(filt, m):
    """(re, im) Fractions, 'nan', or None when a denominator vanishes at m != 0 (outside the quantifier)."""
    acc = None
    for s in filt["secs"]:
        den = ex_direct(s["af"], 0, m)
        if den == (0, 0):
            if m != 0:
                return None
            val = "nan"
        else:
            val = ex_div(ex_direct(s["bf"], s["adv"], m), den)
        if acc is None:
            acc = val
        elif acc == "nan" or val == "nan":
            acc = "nan"
        elif filt["comb"] == "cascade":
            acc = (acc[0] * val[0] - acc[1] * val[1], acc[0] * val[1] + acc[1] * val[0])
        else:
            acc = (acc[0] + val[0], acc[1] + val[1])
    return acc


def ex_conv(p, q):
    if not p or not q:
        return []
    r = [Fraction(0)] * (len(p) + len(q) - 1)
    for i, x in enumerate(p):
        for j, y in enumerate(q):
            r[i + j] += x * y
    return r


def ex_padd(p, q):
    n = max(len(p), len(q))
    return [(p[i] if i < len(p) else 0) + (q[i] if i < len(q) else 0) for i in range(n)]


def tlc_safe(filt):
    """32-bit screen for the trace module's evaluation of the structure's transfer function (inputs only):
    with S = largest absolute coefficient sum and D = common denominator of the combined polynomials, every
    intermediate numerator / denominator of Rat / CRat arithmetic is below 2 S^2 D^4."""
    b, a, adv = filt["secs"][0]["bf"], filt["secs"][0]["af"], filt["secs"][0]["adv"]
    for s in filt["secs"][1:]:
        if filt["comb"] == "cascade":
            b, a, adv = ex_conv(b, s["bf"]), ex_conv(a, s["af"]), adv + s["adv"]
        else:
            ad = max(adv, s["adv"])
            b1 = ([Fraction(0)] * (ad - adv) + b) if b else []
            b2 = ([Fraction(0)] * (ad - s["adv"]) + s["bf"]) if s["bf"] else []
            b, a, adv = ex_padd(ex_conv(b1, s["af"]), ex_conv(b2, a)), ex_conv(a, s["af"]), ad
    big = max([sum(abs(c) for c in b), sum(abs(c) for c in a), Fraction(1)])
    den = 1
    for c in list(b) + list(a):
        den = den * c.denominator // math.gcd(den, c.denominator)
    return 2 * big * big * den ** 4 < (1 << 31)


def small(v, q=SNAP_Q, mag=SNAP_MAG):
    return v == "nan" or all(abs(p) <= mag and p.denominator <= q for p in v)


def snap(z, q=SNAP_Q, mag=SNAP_MAG):
    """Observed complex -> (spec encoding of the nearest Gaussian rational with denominators <= q, on the lattice?).
    `mag` bounds the magnitude the specified value can have (derived from the inputs); a value outside it, or
    farther than the float tolerance from every lattice point, is logged as off-lattice (TLC then rejects the
    record without doing arithmetic on it)."""
    try:
        z = complex(z)
    except (TypeError, ValueError):
        return NAN_ENC, False
    if is_nan_code(z):
        return NAN_ENC, True
    if cmath.isinf(z) or abs(z.real) > mag + 1 or abs(z.imag) > mag + 1:
        return NAN_ENC, False
    re = Fraction(z.real).limit_denominator(q)
    im = Fraction(z.imag).limit_denominator(q)
    near = complex(float(re), float(im))
    return [rat(re), rat(im)], abs(z - near) <= TOL * (1 + abs(near))


COEF_B = [Fraction(v) for v in (-4, -3, -2, -2, -1, -1, -1, 0, 0, 0, 1, 1, 1, 2, 2, 3, 4)] + \
         [Fraction(1, 2), Fraction(-1, 2), Fraction(3, 2), Fraction(1, 4)]
COEF_A = [Fraction(v) for v in (-1, -1, 0, 0, 0, 0, 1, 1)] + \
         [Fraction(1, 2), Fraction(-1, 2), Fraction(1, 4), Fraction(-1, 4)]


def rnd_section(rng, maxord, fir=False):
    lb = rng.randint(0, maxord + 1)
    b = [rng.choice(COEF_B) for _ in range(lb)]
    a0 = rng.choice([1, 1, 1, 2, -1, 4])
    a = [Fraction(a0)] + ([] if fir else [rng.choice(COEF_A) for _ in range(rng.randint(0, maxord))])
    adv = rng.choice([1, 2]) if (b and not fir and rng.random() < 0.12) else 0
    return {"b": [rat(c) for c in b], "a": [rat(c) for c in a], "adv": adv, "bf": b, "af": a}


def strip(sec):
    return {"b": sec["b"], "a": sec["a"], "adv": sec["adv"]}


def m3_fr(ctx, al, rng, recs, meta):
    r = rng.random()
    if r < 0.4:
        filt = {"comb": "single", "secs": [rnd_section(rng, 8)]}
    else:
        nsec = rng.choice([1, 2, 2, 3, 3, 4])
        filt = {"comb": rng.choice(["cascade", "parallel"]), "secs": [rnd_section(rng, 8 if nsec <= 2 else 3)
                                                                      for _ in range(nsec)]}
        if nsec >= 2 and rng.random() < 0.3:
            filt["secs"][-1] = dict(filt["secs"][0])          # the same member twice
        elif nsec >= 2 and rng.random() < 0.35:
            # a constant member (given to the bank as a plain number, see build_filter)
            c = rng.choice([-3, -1, 1, 2, 5])
            filt["secs"][rng.randrange(nsec)] = {"b": [rat(Fraction(c))], "a": [rat(Fraction(1))], "adv": 0,
                                                 "bf": [Fraction(c)], "af": [Fraction(1)]}
    cont = rng.choice(["scalar", "list", "list", "tuple", "deque", "Stream", "generator", "map", "set", "frozenset"])
    if cont == "scalar":
        ms = [rng.randint(0, 3)]
    elif cont in ("set", "frozenset"):
        ms = rng.sample([0, 1, 2, 3], rng.randint(0, 4))
    else:
        ms = [rng.randint(0, 3) for _ in range(rng.randint(0, 8))]
    exact = [ex_filter(filt, m) for m in ms]
    if any(v is None or not small(v) for v in exact) or not tlc_safe(filt):
        return False                              # outside the quantifier / beyond the logging lattice
    if cont in ("set", "frozenset") and len(set(exact)) != len(exact):
        pass                                      # equal responses collapse in the specification's set as well
    route = rng.choice(["list", "dict", "zexpr"])
    f = build_filter(al, filt, route, listarg=rng.random() < 0.5)
    rtype, vals = call_fr(al, f, cont, ms, keyword=rng.random() < 0.2)
    snapped = [snap(z) for z in vals]
    obs = [s[0] for s in snapped]
    if cont in ("set", "frozenset"):
        obs = [list(map(list, t)) for t in sorted(set(tuple(map(tuple, o)) for o in obs))]
    case = {"kind": "fr", "filt": {"comb": filt["comb"], "secs": [strip(s) for s in filt["secs"]]}, "ms": ms,
            "cont": cont}
    recs.append({"case": case, "rtype": rtype, "obs": obs, "exact": all(s[1] for s in snapped)})
    meta.append({"key": "C12:freq_response-%s" % filt["comb"], "filter": filt_text(case["filt"]), "route": route,
                 "container": cont, "freqs_in_units_of_pi/2": ms, "observed": [str(v) for v in vals],
                 "returned_type": rtype})
    ctx.count(1, nontrivial_key=("m3fr", len(recs)) if ms else None)
    return True


def m3_td(ctx, al, rng, recs, meta, maxlen):
    sec = rnd_section(rng, 8, fir=True)
    m = rng.randint(0, 3)
    sig = rng.choice(["exp", "exp", "imp"])
    lb, order = order_of(sec)
    n = rng.randint(0, maxlen)
    h = ex_filter({"comb": "single", "secs": [sec]}, m)
    if not small(h):
        return False
    variant = "exact"
    w = freq_value(m)
    if sig == "exp" and rng.random() < 0.4:
        variant = "cexp"                         # the exponential as a user would make it (library's cexp)
        x = [al.cexp(1j * w * t) for t in range(n)]
    else:
        x = signal({"sig": sig, "m": m}, n)
    route = rng.choice(["list", "dict", "zexpr"])
    f = build_section(al, sec, route)
    detail = {"key": "C12:steady-state" if sig == "exp" else "C12:dft-impulse-response",
              "filter": filt_text({"comb": "single", "secs": [sec]}), "route": route, "signal": sig,
              "variant": variant, "freq_in_units_of_pi/2": m, "samples": n}
    try:
        y = list(f(list(x)))
        fr = f.freq_response(w)
        d = al.dft(y, [w], normalize=False)[0] if sig == "imp" else 0
    except Exception as ex:
        ctx.violation("C12:time-domain-exception", dict(detail, error=type(ex).__name__ + ": " + str(ex)[:80]))
        return True
    bound = int(sum(abs(c) for c in sec["bf"]) / abs(sec["af"][0])) + 1      # |y[t]| <= sum|b| / |a0|
    sn = [snap(v, q=64, mag=bound) for v in y]
    sfr, sd = snap(fr), snap(d)
    recs.append({"case": {"kind": "td", "sec": strip(sec), "m": m, "sig": sig}, "len": n,
                 "out": [s[0] for s in sn], "fr": sfr[0], "dft": sd[0],
                 "exact": all(s[1] for s in sn) and sfr[1] and sd[1]})
    meta.append(dict(detail, observed=[str(v) for v in y][:12], freq_response=str(fr), dft=str(d)))
    ctx.count(1, nontrivial_key=("m3td", len(recs)) if n > order else None)
    return True


def m3_dft(ctx, al, rng, recs, meta, maxblk):
    n = rng.randint(1, maxblk)
    norm = rng.random() < 0.5
    lin = rng.random() < 0.4

    def block():
        return [(Fraction(rng.randint(-9, 9)) / rng.choice([1, 1, 1, 2]),
                 Fraction(rng.randint(-9, 9)) * rng.choice([0, 0, 1])) for _ in range(n)]
    x, y = block(), block()
    al_, be_ = Fraction(rng.choice([2, -1, 3, 1])), rng.choice([Fraction(1), Fraction(-3), Fraction(1, 2)])
    ms = [rng.randint(0, 3) for _ in range(rng.randint(0, 6))]
    case = {"kind": "dft", "x": [crat(*v) for v in x], "ms": ms, "norm": norm, "lin": lin,
            "y": [crat(*v) for v in y] if lin else [], "al": rat(al_), "be": rat(be_)}
    blocks = [[pysample(v) for v in case["x"]]]
    if lin:
        blocks += [[pysample(v) for v in case["y"]], combo_block(case)]
    ws = [freq_value(m) for m in ms]
    bound = int(max(sum(abs(complex(v)) for v in b) for b in blocks)) + 1    # |X(w)| <= sum |x[n]|
    detail = {"key": "C12:dft-normalised" if norm else "C12:dft-sum", "block": [str(v) for v in blocks[0]],
              "freqs_in_units_of_pi/2": ms, "normalize": norm, "linear": lin}
    try:
        res = [al.dft(b, ws, normalize=norm) for b in blocks]
    except Exception as ex:
        ctx.violation("C12:dft-exception", dict(detail, error=type(ex).__name__ + ": " + str(ex)[:80]))
        return True
    ok = True
    obs = []
    for t in range(len(ms)):
        tup = []
        for vals in res:
            s = snap(vals[t], q=128, mag=bound) if t < len(vals) else (NAN_ENC, False)
            ok = ok and s[1]
            tup.append(s[0])
        obs.append(tup)
    if any(len(vals) != len(ms) for vals in res):
        obs = obs[:min(len(vals) for vals in res)]
    recs.append({"case": case, "obs": obs, "exact": ok})
    meta.append(dict(detail, observed=[[str(v) for v in vals] for vals in res]))
    ctx.count(len(blocks), nontrivial_key=("m3dft", len(recs)) if ms and n >= 2 else None)
    return True


def m3(ctx, al, count, maxlen, maxblk):
    rng = ctx.rng
    recs, meta = [], []
    tries = 0
    while len(recs) < count and tries < 40 * count:
        tries += 1
        r = rng.random()
        if r < 0.5:
            m3_fr(ctx, al, rng, recs, meta)
        elif r < 0.8:
            m3_td(ctx, al, rng, recs, meta, maxlen)
        else:
            m3_dft(ctx, al, rng, recs, meta, maxblk)
    if len(recs) < count:
        raise tlc.MachineryError("C12 M3: only %d of %d records could be generated" % (len(recs), count))
    bad = tracecheck.run_records(ctx, "FreqRespTrace", {"MaxLen": maxlen, "Cases": "{}"}, recs,
                                 what="C12 recorded freq_response / filtering / dft observations", chunk=500)
    ctx.traces += len(recs) - len(bad)
    kinds = {}
    for rec in recs:
        kinds[rec["case"]["kind"]] = kinds.get(rec["case"]["kind"], 0) + 1
    ctx.log("M3: %d recorded observations judged by TLC %s, %d rejected" % (len(recs), kinds, len(bad)))
    if meta:
        ctx.sample({"recorded": meta[0]})
    for i, info in sorted(bad.items()):
        mt = dict(meta[i - 1])
        key = mt.pop("key")
        clause = info[0]
        if clause == "not-covered":
            raise tlc.MachineryError("C12 M3 generated a record outside the quantifier: %r" % (mt,))
        if clause in ("container-type", "length") and recs[i - 1]["case"]["kind"] == "fr":
            key = "C12:container-%s" % recs[i - 1]["case"]["cont"]
        elif clause == "nan":
            key = "C12:nan-%s" % recs[i - 1]["case"]["filt"]["comb"]
        elif clause == "freq_response":
            key = "C12:freq_response-single"
        elif clause == "linear":
            key = "C12:dft-linear"
        ctx.violation(key, dict(mt, clause=clause))


def check(ctx):
    al = common.import_audiolazy()
    ctx.rule = ("M2: every state (case, k) TLC reached is replayed on the real objects (construction routes x the "
                "case's container kind + scalar calls); non-trivial = at least one response / one steady-state "
                "sample / a block of >= 2 samples compared; M3: random filters of order <= 8, cascades / banks of "
                "<= 4 sections, longer signals and blocks judged by TLC")
    ctx.assumptions = [
        "frequencies are the multiples of pi/2 (the only ones where e^{-jw} is a Gaussian rational); agreement at "
        "other frequencies is not decided",
        "denominators are non-zero at the probed frequency (on the coefficient lattice that bounds them away from "
        "zero), or vanish at w = 0, the one frequency where the float denominator is then exactly 0 (nan clause)",
        "coefficients are integers or dyadic rationals of magnitude <= 4 (exact as floats); float results are "
        "compared with |code - exact| <= 1e-9 (1 + |exact|), exact values have denominators <= 2048 and magnitude "
        "<= 50, so distinct candidates differ by > 2e-7",
        "time-domain clauses for FIR filters (constant denominator), fed exact Gaussian-integer exponentials "
        "(M3 also exponentials made with the library's cexp)",
        "normalised dft of an empty block is excluded (0/0)"]
    if ctx.thorough:
        m2(ctx, al, "FreqRespC12Thorough", "FreqRespC12Thorough.cfg")
    else:
        m2(ctx, al, "FreqRespC12Quick", "FreqRespC12Quick.cfg")
    try:
        if ctx.thorough:
            m3(ctx, al, 4000, 40, 24)
        else:
            m3(ctx, al, 500, 24, 16)
    except tlc.MachineryError as ex:
        if not ctx.violations:
            raise
        # the code already disagrees with the specification on replayed states: its (wrong) values may be
        # beyond what TLC's 32-bit arithmetic can judge; the verdict stands on the M2 violations
        ctx.log("M3 not completed (%s); verdict given by the M2 violations" % str(ex).splitlines()[0])
    ctx.exhaustive = True
