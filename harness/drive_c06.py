"""C06 - time-varying coefficients are sampled once per output sample.

M1  TLC: spec/dsp/FilterC06.tla (EXTENDS Filter; grids in FilterC06Q.tla / FilterC06T.tla).  Operational layer: the coefficient stream expressions that
    Poly/ZFilter arithmetic builds (with the a0-stream rescaling of LinearFilter.__call__) run by the generated
    generator with one tee branch per use of a source; definition layer: difference equation of module Filter
    over the ELEMENT-WISE coefficient sequences of the expression.  Invariants DiffEq6, TeeAccounting, NthValue,
    EndsExactly, ConstStream, ReadBound, ConstReads0, OnePerInput.
M2  spec -> code: every state TLC reached (case, n, fin) is replayed: the real filter is built from counting
    sources through several construction routes and run on LinForm samples; outputs, exception, end of the
    run and the read counters are compared with what TLC exported.
M3  code -> spec: random expression trees of higher order on longer inputs are run on the real code, the
    records (outputs, per-step read counters) are judged by TLC (spec/trace/FilterC06Trace.tla).
"""
import json
import os
import re
import warnings
from fractions import Fraction

import common
import tlaval
import tlc
import tracecheck
from exact import LinForm, rat, lin_vec, vec_to_lin
from drive_c04 import coef_value, same

warnings.simplefilter("ignore")


# ---------------------------------------------------------------------------------------------------------
# counting sources
class Source(object):
    """A coefficient source: finite list or endless cycle; counts the items it hands out."""

    def __init__(self, spec, as_fraction):
        vals = [Fraction(p[0], p[1]) for p in spec["s"]]
        self.vals = [v if as_fraction else coef_value({"v": [v.numerator, v.denominator]}) for v in vals]
        self.per = bool(spec["per"])
        self.reads = 0
        self.stops = 0
        self.iters = 0

    def __iter__(self):
        self.iters += 1
        return self._gen()

    def _gen(self):
        i = 0
        while True:
            if self.per:
                v = self.vals[i % len(self.vals)]
            elif i < len(self.vals):
                v = self.vals[i]
            else:
                self.stops += 1
                return
            self.reads += 1
            yield v
            i += 1


def count_leaves(e, acc):
    t = e["t"]
    if t == "flt":
        for c in list(e["b"]) + list(e["a"]):
            if c["k"] == "src":
                acc[c["i"]] = acc.get(c["i"], 0) + 1
    elif t == "scale":
        if e["c"]["k"] == "src":
            acc[e["c"]["i"]] = acc.get(e["c"]["i"], 0) + 1
        count_leaves(e["f"], acc)
    elif t == "neg":
        count_leaves(e["f"], acc)
    else:
        count_leaves(e["l"], acc)
        count_leaves(e["r"], acc)
    return acc


class Builder(object):
    """Builds the real filter object of an expression.  route = (atom route, share route, side)."""

    def __init__(self, al, srcs, expr, atom_route, share_route, flip, as_fraction, const_mode=None):
        """const_mode: how an endless one-value source is given to the library: None = counting source like
        every other one, "stream" = the library's own constant stream Stream(v), "number" = the number v."""
        self.al = al
        self.sources = [Source(s, as_fraction) for s in srcs]
        self.const = {}
        if const_mode:
            for i, sp in enumerate(srcs, 1):
                if sp["per"] and len(sp["s"]) == 1:
                    self.const[i] = self.sources[i - 1].vals[0]
        self.const_mode = const_mode
        self.atom_route = atom_route
        self.flip = flip
        uses = count_leaves(expr, {})
        self.left = dict(uses)
        self.share_route = share_route
        self.base = {}
        for i, k in uses.items():
            src = self.sources[i - 1]
            if i in self.const:
                continue
            if share_route == "thub" and k > 1:
                self.base[i] = al.thub(src, k)            # every use takes one copy of the hub
            else:
                self.base[i] = al.Stream(src)

    def leaf(self, i):
        if i in self.const:
            return self.const[i] if self.const_mode == "number" else self.al.Stream(self.const[i])
        self.left[i] -= 1
        b = self.base[i]
        if isinstance(b, self.al.StreamTeeHub):
            return b
        if self.left[i] == 0:
            return b                                      # last use: the stream itself
        return b.copy()                                   # earlier uses: tee copies

    def coef(self, c):
        return self.leaf(c["i"]) if c["k"] == "src" else coef_value(c)

    def atom(self, e):
        al, z = self.al, self.al.z
        b = [self.coef(c) for c in e["b"]]
        a = [self.coef(c) for c in e["a"]]
        if self.atom_route == "list":
            return al.ZFilter(b, a)
        if self.atom_route == "dict":
            return al.ZFilter({k: v for k, v in enumerate(b)}, {k: v for k, v in enumerate(a)})

        def poly(vs):
            acc = None
            for k, v in enumerate(vs):
                if not isinstance(v, al.Stream) and v == 0:
                    continue
                term = v * z ** -k if k else (v * z ** 0)
                acc = term if acc is None else acc + term
            return acc
        num, den = poly(b), poly(a)
        if len(a) == 1 and not isinstance(a[0], al.Stream) and a[0] == 1:
            return num
        return num / den

    def build(self, e):
        t = e["t"]
        if t == "flt":
            return self.atom(e)
        if t == "scale":
            c = self.coef(e["c"])
            f = self.build(e["f"])
            return (f * c) if self.flip else (c * f)
        if t == "neg":
            return -self.build(e["f"])
        # f * f and (f * f) * f of one and the same filter expression: half of the routes write it as f ** n
        if t == "mul" and self.flip:
            base, n = None, 0
            if e["l"] == e["r"]:
                base, n = e["l"], 2
            elif e["l"]["t"] == "mul" and e["l"]["l"] == e["l"]["r"] == e["r"]:
                base, n = e["r"], 3
            if base is not None and base["t"] == "flt":
                return self.build(base) ** n
        # a zero-order atom c/1 is the number (or Stream) c: half of the routes hand the library the bare value,
        # which goes through the number/Stream branch of ZFilter.__add__/__sub__/__mul__ and their reflected forms
        def bare(x):
            return (x["t"] == "flt" and len(x["b"]) == 1 and len(x["a"]) == 1 and x["a"][0]["k"] == "c"
                    and x["a"][0]["v"] == [1, 1] or
                    x["t"] == "flt" and len(x["b"]) == 1 and len(x["a"]) == 1 and x["a"][0]["k"] == "c"
                    and tuple(x["a"][0]["v"]) == (1, 1))
        if self.flip and bare(e["r"]) and not bare(e["l"]):
            l = self.build(e["l"])
            r = self.coef(e["r"]["b"][0])
        elif self.flip and bare(e["l"]) and not bare(e["r"]):
            l = self.coef(e["l"]["b"][0])
            r = self.build(e["r"])
        else:
            l = self.build(e["l"])
            r = self.build(e["r"])
        if t == "add":
            return l + r
        if t == "sub":
            return l - r
        if t == "mul":
            return l * r
        raise ValueError(t)


def observe(al, case, n_in, ns, lm, maxlen, routes, as_fraction=False, zero_num=0, const_mode=None):
    """Run the real code on n_in LinForm samples, pulling one output at a time.
    Returns dict(err, out, reads0, steps, reads)."""
    atom_route, share_route, flip = routes
    bld = Builder(al, case["src"], case["expr"], atom_route, share_route, flip, as_fraction, const_mode)
    srcs = [s for i, s in enumerate(bld.sources, 1) if i not in bld.const]      # the counted ones
    obs = {"err": "none", "out": [], "reads0": None, "steps": [], "reads": None, "build_reads": None}
    try:
        f = bld.build(case["expr"])
        obs["build_reads"] = [s.reads for s in srcs]
        shape0 = (sorted(dict(f.numpoly.terms())), sorted(dict(f.denpoly.terms())))
        xs = [LinForm.sym(i) for i in range(1, n_in + 1)]
        kw = {"zero": LinForm.sym(maxlen + 1) if case["zero"] == "sym" else zero_num}
        if case["mem"] != "none":
            kw["memory"] = [LinForm.sym(maxlen + 1 + j) for j in range(1, lm + 1)]
        res = iter(f(xs, **kw))
        obs["reads0"] = [s.reads for s in srcs]
        while True:
            try:
                v = next(res)
            except StopIteration:
                break
            obs["out"].append(v)
            obs["steps"].append([s.reads for s in srcs])
            if len(obs["out"]) > n_in + 2:
                obs["err"] = "more outputs than inputs"
                break
    except Exception as ex:                                  # noqa
        obs["err"] = "%s: %s" % (type(ex).__name__, str(ex)[:80])
    try:      # calling a filter must not change the filter (its terms are what they were before the call)
        obs["mutated"] = (sorted(dict(f.numpoly.terms())), sorted(dict(f.denpoly.terms()))) != shape0
    except Exception:
        obs["mutated"] = False
    obs["reads"] = [s.reads for s in srcs]
    if obs["reads0"] is None:
        obs["reads0"] = list(obs["reads"])
    return obs


# ---------------------------------------------------------------------------------------------------------
def expr_str(e):
    def cs(c):
        if c["k"] == "src":
            return "S%d" % c["i"]
        return str(Fraction(c["v"][0], c["v"][1]))
    t = e["t"]
    if t == "flt":
        return "[%s]/[%s]" % (",".join(map(cs, e["b"])), ",".join(map(cs, e["a"])))
    if t == "scale":
        return "%s*(%s)" % (cs(e["c"]), expr_str(e["f"]))
    if t == "neg":
        return "-(%s)" % expr_str(e["f"])
    return "(%s %s %s)" % (expr_str(e["l"]), {"add": "+", "sub": "-", "mul": "*"}[t], expr_str(e["r"]))


def src_str(srcs):
    return "; ".join("S%d=%s(%s)" % (i + 1, "cycle" if s["per"] else "list",
                                     ",".join(str(Fraction(p[0], p[1])) for p in s["s"]))
                     for i, s in enumerate(srcs))


def case_str(case):
    return "%s  with %s  mem=%s zero=%s" % (expr_str(case["expr"]), src_str(case["src"]) or "no stream",
                                            case["mem"], case["zero"])


def expr_class(case):
    """Class of the input, used in violation keys."""
    e = case["expr"]
    if e["t"] != "flt":
        return "algebra"
    if e["a"] and e["a"][0]["k"] == "src":
        return "a0-stream"
    if any(c["k"] == "src" for c in e["a"]):
        return "den-stream"
    if any(c["k"] == "src" for c in e["b"]):
        return "num-stream"
    return "lti"


_VAR = re.compile(r"^/\\ (\w+) = ", re.M)


def read_dump_raw(path):
    """States of a TLC dump as {var: raw text}; values are parsed on demand (the dump is large)."""
    with open(path) as fh:
        text = fh.read()
    for block in re.split(r"^State \d+:\n", text, flags=re.M)[1:]:
        parts = _VAR.split(block)
        yield {parts[i]: parts[i + 1] for i in range(1, len(parts) - 1, 2)}


ROUTES = [("list", "copy", False), ("zexpr", "copy", True), ("list", "thub", True), ("dict", "copy", False),
          ("zexpr", "thub", False)]


def m2(ctx, al, module, cfg, maxlen, maxmem):
    d = tlc.scratch_dir("c06")
    dump = os.path.join(d, "states")
    r = tlc.require_ok(tlc.run(module, cfg, dump=dump), module,
                       need_actions=("Build", "Step6", "InputEnd", "CoefEnd"))
    ctx.add_tlc(r, "FilterC06: stream-expression machine with tee branches == difference equation over "
                   "element-wise coefficient sequences")
    ns = maxlen + 1 + maxmem
    # group the states by case
    groups = {}
    nstates = 0
    for st in read_dump_raw(dump + ".dump"):
        nstates += 1
        groups.setdefault(st["case"], []).append(st)
    if nstates != r.distinct:
        raise tlc.MachineryError("dump has %d states, TLC reported %d" % (nstates, r.distinct))
    replayed = unbuilt = 0
    multi2 = multi3 = 0
    diag = nconst = 0
    gi = 0
    for ctext in sorted(groups):
        gi += 1
        sts = groups[ctext]
        case = tlaval.parse(ctext)
        fins = [tlaval.parse(s["fin"]) for s in sts]
        if all(f == "new" for f in fins):
            unbuilt += 1                                   # outside the guards of the spec (Covered)
            continue
        term = [s for s, f in zip(sts, fins) if f in ("input-end", "coef-end")]
        if len(term) != 1:
            raise tlc.MachineryError("case without exactly one terminal state: %s" % case_str(case))
        term = term[0]
        tfin = tlaval.parse(term["fin"])
        tout = tlaval.parse(term["out"])
        treads = tlaval.parse(term["reads"])
        lm = len(tlaval.parse(term["mreg"]))
        nrun = len(tout)
        uses = count_leaves(case["expr"], {})
        mu = max(uses.values()) if uses else 0
        multi2 += mu >= 2
        multi3 += mu >= 3
        klass = expr_class(case)
        base = {"case": case_str(case), "expr": case["expr"], "src": case["src"], "mem": case["mem"],
                "zero": case["zero"]}
        nsrc = len(case["src"])

        def judge(obs, n_in, exp_out, exp_end, routes, exact_reads, tag=None):
            """exp_end: 'input' (the input is the shortest) or 'coef'."""
            det = dict(base, input_len=n_in, routes=list(routes), expected_len=len(exp_out),
                       expected=[repr(vec_to_lin(e)) for e in exp_out],
                       observed=[repr(o) for o in obs["out"]], err=obs["err"], reads=obs["reads"],
                       steps=obs["steps"])
            bad = False
            if obs["build_reads"] is not None and any(obs["build_reads"]):
                ctx.violation("C06:construction-reads:%s" % klass, dict(det, why="sources read while building"))
                bad = True
            if any(obs["reads0"]) and obs["build_reads"] is not None and not any(obs["build_reads"]):
                ctx.violation("C06:call-reads:%s" % klass, dict(det, why="sources read by the call itself"))
                bad = True
            if obs.get("mutated"):
                ctx.violation("C06:call-changes-the-filter:%s" % klass, dict(det, why="numpoly/denpoly terms differ "
                                                                             "after the call"))
            if obs["err"] != "none":
                ctx.violation("C06:%s-end:%s:%s" % (exp_end, klass, obs["err"].split(":")[0]), det)
                return False
            if len(obs["out"]) != len(exp_out):
                ctx.violation("C06:%s-end:%s:length" % (exp_end, klass), det)
                return False
            if not same(obs["out"], exp_out, ns):
                ctx.violation("C06:value:%s" % (tag or klass), det)
                return False
            for k, rd in enumerate(obs["steps"], 1):
                if any(x != k for x in rd):
                    ctx.violation("C06:reads:%s" % klass, dict(det, why="after output %d the sources were read %r"
                                                               % (k, rd)))
                    return False
            no = len(exp_out)
            if any(x < no or x > no + 1 for x in obs["reads"]):
                ctx.violation("C06:end-reads:%s" % klass, dict(det, why="final reads %r for %d outputs"
                                                               % (obs["reads"], no)))
                return False
            return not bad

        # every state of the case: the run on an input of n samples (prefix states) ...
        for s, f in zip(sts, fins):
            if f == "new":
                continue
            n = int(s["n"])
            sreads = list(tlaval.parse(s["reads"]))
            if f == "run":
                routes = ROUTES[(gi + n) % len(ROUTES)]
                obs = observe(al, case, n, ns, lm, maxlen, routes)
                ok = judge(obs, n, tout[:n], "input", routes, True)
                ctx.count(1, nontrivial_key=(ctext, n) if (n >= 2 and nsrc) else None)
                if ok and obs["reads"] != sreads:
                    # the input ended first: the model says exactly n reads
                    ctx.violation("C06:reads:%s" % klass, dict(base, input_len=n, reads=obs["reads"],
                                                               model_reads=sreads))
            else:
                # ... and the terminal state through every route
                lens = [maxlen] if f == "input-end" else sorted({maxlen, nrun + 1})
                for n_in in lens:
                    for ri, routes in enumerate(ROUTES):
                        if n_in != maxlen and ri != gi % len(ROUTES):
                            continue
                        if not ctx.thorough and gi % 3 and ri not in (gi % len(ROUTES), (gi + 2) % len(ROUTES)):
                            continue                       # quick tier: all 5 routes on every third case, 2 otherwise
                        for frac_vals in (False, True):
                            if frac_vals and ri != (gi + 1) % len(ROUTES):
                                continue
                            obs = observe(al, case, n_in, ns, lm, maxlen, routes, as_fraction=frac_vals)
                            ok = judge(obs, n_in, tout, "input" if f == "input-end" else "coef", routes, False)
                            ctx.count(1, nontrivial_key=(ctext, n_in, routes) if (nrun >= 2 and nsrc) else None)
                            if ok and obs["reads"] != list(treads):
                                diag += 1                  # which sources were touched while discovering the end
                if any(sp["per"] and len(sp["s"]) == 1 for sp in case["src"]):
                    # "a constant stream behaves like the constant": the library's Stream(v), and the number v
                    nconst += 1
                    for cm in ("stream", "number"):
                        if cm == "number" and tlaval.parse(term["cok"]) is not True:
                            continue       # with numbers the case would leave the guards (shared denominator)
                        routes = ROUTES[(gi + (cm == "number")) % len(ROUTES)]
                        obs = observe(al, case, maxlen, ns, lm, maxlen, routes, const_mode=cm)
                        judge(obs, maxlen, tout, "input" if f == "input-end" else "coef", routes, False,
                              tag="const-" + cm)
                        ctx.count(1, nontrivial_key=(ctext, cm) if nrun >= 2 else None)
                if case["zero"] == "sym" and case["mem"] == "none" and gi % 7 == 0:
                    # numeric zero value (int and float): same outputs with the zero symbol at 0
                    c2 = dict(case, zero="num")
                    for znum in (0, 0.0):
                        obs = observe(al, c2, maxlen, ns, lm, maxlen, ROUTES[gi % len(ROUTES)], zero_num=znum)
                        zs = maxlen + 1
                        exp0 = tuple(tuple((p if j + 1 != zs else (0, 1)) for j, p in enumerate(vec)) for vec in tout)
                        judge(obs, maxlen, exp0, "input" if f == "input-end" else "coef",
                              ROUTES[gi % len(ROUTES)], False)
                        ctx.count(1)
            replayed += 1
        if gi % 401 == 0:
            ctx.sample({"case": case_str(case), "end": tfin, "outputs": [repr(vec_to_lin(e)) for e in tout],
                        "model_reads": list(treads)})
    ctx.traces += replayed
    ctx.extra["cases_with_source_used_2+_times"] = multi2
    ctx.extra["cases_with_source_used_3+_times"] = multi3
    ctx.extra["cases_with_constant_stream"] = nconst
    if nconst == 0:
        raise tlc.MachineryError("grid has no constant stream (vacuous constant-stream clause)")
    if multi3 == 0:
        raise tlc.MachineryError("grid has no case with a source feeding 3 terms (vacuous tee accounting)")
    ctx.log("M2: %d spec states replayed (%d cases; %d with a source used >= 2 times, %d >= 3; %d outside the "
            "spec's guards); %d end-of-run read patterns differ from the model (diagnostics only)"
            % (replayed, len(groups), multi2, multi3, unbuilt, diag))


# ---------------------------------------------------------------------------------------------------------
# M3: random expressions
def py_frozen(e, t, srcs):
    """Screening only (never a verdict): coefficient values at time t, used to bound magnitudes."""
    def cv(c):
        if c["k"] == "c":
            return Fraction(c["v"][0], c["v"][1])
        s = srcs[c["i"] - 1]
        v = s["s"][t % len(s["s"])] if s["per"] else s["s"][t]
        return Fraction(v[0], v[1])

    def conv(p, q):
        r = [Fraction(0)] * (len(p) + len(q) - 1)
        for i, x in enumerate(p):
            for j, y in enumerate(q):
                r[i + j] += x * y
        return r

    def add(p, q):
        m = max(len(p), len(q))
        return [(p[i] if i < len(p) else 0) + (q[i] if i < len(q) else 0) for i in range(m)]
    k = e["t"]
    if k == "flt":
        return [cv(c) for c in e["b"]], [cv(c) for c in e["a"]]
    if k == "scale":
        n, d = py_frozen(e["f"], t, srcs)
        return [x * cv(e["c"]) for x in n], d
    if k == "neg":
        n, d = py_frozen(e["f"], t, srcs)
        return [-x for x in n], d
    n1, d1 = py_frozen(e["l"], t, srcs)
    n2, d2 = py_frozen(e["r"], t, srcs)
    if k == "mul":
        return conv(n1, n2), conv(d1, d2)
    if k == "sub":
        n2 = [-x for x in n2]
    return add(conv(n1, d2), conv(n2, d1)), conv(d1, d2)


def horizon(case, n_in):
    h = n_in
    uses = count_leaves(case["expr"], {})
    for i in uses:
        s = case["src"][i - 1]
        if not s["per"]:
            h = min(h, len(s["s"]))
    return h


def safe_len(case, n_in, bits=27):
    """Largest input length <= n_in for which the exact outputs stay far below 2^31 (magnitude bound computed
    from the inputs only)."""
    h = horizon(case, n_in)
    y = []
    den_bits = 0
    for t in range(h):
        n, d = py_frozen(case["expr"], t, case["src"])
        if d[0] == 0:
            return t if h > t else n_in                      # (generator never makes a0 = 0)
        a0 = abs(d[0])
        den_bits += max(a0.numerator.bit_length() - 1, 0) + sum(x.denominator.bit_length() - 1 for x in n + d)
        v = (sum(abs(x) for x in n) + sum(abs(x) * (y[t - k - 1] if t - k - 1 >= 0 else 1)
                                           for k, x in enumerate(d[1:]))) / a0
        y.append(v)
        if v.numerator.bit_length() + den_bits > bits or max(len(n), len(d)) > 12:
            # cut the INPUT here: the run then ends with the input at t samples
            return t
    return n_in


def rand_expr(rng, nsrc_box, depth, a0_ok):
    """Random expression; nsrc_box[0] counts the sources created so far (1-based indices)."""
    def new_src():
        nsrc_box[0] += 1
        return nsrc_box[0]

    def coef(p_stream, share, zero_ok=True):
        if rng.random() < p_stream:
            if share and nsrc_box[0] and rng.random() < 0.4:
                return {"k": "src", "i": rng.randint(1, nsrc_box[0])}
            return {"k": "src", "i": new_src()}
        return {"k": "c", "v": rat(rng.choice([-2, -1, 1, 1, 2, 3, Fraction(1, 2)] + ([0, 0] if zero_ok else [])))}
    if depth == 0 or rng.random() < 0.3:
        lb = rng.randint(1, 4)
        la = rng.choice([1, 1, 2, 3])
        b = [coef(0.4, True) for _ in range(lb)]
        if all(c["k"] == "c" and c["v"][0] == 0 for c in b):
            b[rng.randrange(lb)] = {"k": "c", "v": [1, 1]}
        a0 = {"k": "src", "i": new_src()} if (a0_ok and rng.random() < 0.3) else \
            {"k": "c", "v": rat(rng.choice([1, 1, 1, -1, 2]))}
        a = [a0] + [coef(0.4, True) for _ in range(la - 1)]
        return {"t": "flt", "b": b, "a": a}
    op = rng.choice(["add", "sub", "mul", "mul", "scale", "neg"])
    if op == "scale":
        return {"t": "scale", "c": coef(0.6, True, False), "f": rand_expr(rng, nsrc_box, depth - 1, a0_ok)}
    if op == "neg":
        return {"t": "neg", "f": rand_expr(rng, nsrc_box, depth - 1, a0_ok)}
    return {"t": op, "l": rand_expr(rng, nsrc_box, depth - 1, a0_ok), "r": rand_expr(rng, nsrc_box, depth - 1, a0_ok)}


def a0_sources(e, acc):
    """Sources that end up multiplied into the leading denominator coefficient."""
    t = e["t"]
    if t == "flt":
        if e["a"][0]["k"] == "src":
            acc.add(e["a"][0]["i"])
    elif t in ("scale", "neg"):
        a0_sources(e["f"], acc)
    else:
        a0_sources(e["l"], acc)
        a0_sources(e["r"], acc)
    return acc


def shared_den(e):
    """Guard NoSharedDen of the spec, conservatively: a sum/difference both of whose sides have a stream-free
    denominator that is not the constant 1 is not generated."""
    def den_info(x):        # (stream-free, is exactly 1)
        t = x["t"]
        if t == "flt":
            free = all(c["k"] == "c" for c in x["a"])
            one = free and x["a"][0]["v"] == [1, 1] and all(c["v"][0] == 0 for c in x["a"][1:])
            return free, one
        if t in ("scale", "neg"):
            return den_info(x["f"])
        f1, o1 = den_info(x["l"])
        f2, o2 = den_info(x["r"])
        return f1 and f2, o1 and o2
    t = e["t"]
    if t == "flt":
        return False
    if t in ("scale", "neg"):
        return shared_den(e["f"])
    if shared_den(e["l"]) or shared_den(e["r"]):
        return True
    if t == "mul":
        return False
    f1, o1 = den_info(e["l"])
    f2, o2 = den_info(e["r"])
    if o1 and o2:
        return False
    if f1 and f2:
        return True
    return bool(den_sources(e["l"], set()) & den_sources(e["r"], set()))


def den_sources(e, acc):
    t = e["t"]
    if t == "flt":
        acc.update(c["i"] for c in e["a"] if c["k"] == "src")
    elif t in ("scale", "neg"):
        den_sources(e["f"], acc)
    else:
        den_sources(e["l"], acc)
        den_sources(e["r"], acc)
    return acc


def m3(ctx, al, count, maxlen, maxmem):
    rng = ctx.rng
    ns = maxlen + 1 + maxmem
    recs, meta = [], []
    tries = 0
    while len(recs) < count and tries < count * 60:
        tries += 1
        box = [0]
        expr = rand_expr(rng, box, rng.choice([0, 0, 1, 1, 2]), True)
        if box[0] == 0 or shared_den(expr):
            continue
        a0s = a0_sources(expr, set())
        srcs = []
        for i in range(1, box[0] + 1):
            pool = [1, -1, 2, 1, -1] if i in a0s else [-2, -1, 0, 1, 1, 2, 3]
            per = rng.random() < 0.5
            ln = rng.randint(1, 4) if per else rng.choice([0, 1, 2, 5, 8, 12, 20, 30, 40])
            srcs.append({"s": [rat(rng.choice(pool)) for _ in range(ln)], "per": per})
        case = {"expr": expr, "src": srcs, "mem": "none", "zero": rng.choice(["sym", "sym", "num"])}
        n_in = safe_len(case, rng.randint(0, maxlen))
        # order of the denominator the library will see is not known here: memory only for atoms
        lm = 0
        if expr["t"] == "flt":
            la = max([k + 1 for k, c in enumerate(expr["a"]) if not (c["k"] == "c" and c["v"][0] == 0)])
            lm = la - 1
            if lm <= maxmem and rng.random() < 0.5:
                case["mem"] = "exact"
        routes = (rng.choice(["list", "dict", "zexpr"]), rng.choice(["copy", "thub"]), rng.random() < 0.5)
        obs = observe(al, case, n_in, ns, lm, maxlen, routes, as_fraction=True, zero_num=rng.choice([0, 0.0]))
        vecs = [lin_vec(o, ns) for o in obs["out"]]
        info = {"case": case_str(case), "expr": expr, "src": srcs, "mem": case["mem"], "zero": case["zero"],
                "input_len": n_in, "routes": list(routes), "err": obs["err"],
                "observed": [repr(o) for o in obs["out"]][:8], "reads": obs["reads"], "steps": obs["steps"][:8]}
        klass = expr_class(case)
        if any(v is None for v in vecs):
            ctx.violation("C06:value:%s" % klass, dict(info, why="output is not an exact linear form"))
            continue
        recs.append({"expr": expr, "src": srcs, "mem": case["mem"], "zero": case["zero"], "len": n_in,
                     "err": "none" if obs["err"] == "none" else "other", "out": vecs,
                     "reads0": obs["reads0"], "steps": obs["steps"], "reads": obs["reads"]})
        meta.append((klass, info, horizon(case, n_in) < n_in))
        ctx.count(1, nontrivial_key=("m3", len(recs)) if n_in >= 3 else None)
    bad = tracecheck.run_records(ctx, "FilterC06Trace",
                                 {"MaxLen": maxlen, "MaxMem": maxmem, "Cases": "{}", "Raw6": "{}"},
                                 recs, what="C06 recorded runs of time-varying filters", chunk=250)
    nguard = sum(1 for v in bad.values() if v[0] == "guard")
    ctx.traces += len(recs) - len(bad)
    ctx.log("M3: %d recorded runs judged by TLC, %d rejected, %d outside the spec's guards (not judged)"
            % (len(recs) - nguard, len(bad) - nguard, nguard))
    if nguard > len(recs) // 4:
        raise tlc.MachineryError("M3 generator produces too many cases outside the guards (%d)" % nguard)
    if meta:
        ctx.sample({"recorded": {k: meta[0][1][k] for k in ("case", "input_len", "routes", "observed", "reads")}})
    skipped = 0
    for i, info in sorted(bad.items()):
        klass, det, coef_first = meta[i - 1]
        clause = info[0]
        if clause == "guard":                 # the spec's guard CoveredExpr excludes the case: not judged
            skipped += 1
            ctx.traces -= 0
            continue
        if clause in ("exception", "length"):
            key = "C06:%s-end:%s:%s" % ("coef" if coef_first else "input", klass,
                                         det["err"].split(":")[0] if clause == "exception" else "length")
        else:
            key = "C06:%s:%s" % (clause, klass)
        ctx.violation(key, dict(det, clause=clause))


def check(ctx):
    al = common.import_audiolazy()
    ctx.rule = ("M2: every state (case, n) of the TLC run replayed on the real filter built from counting "
                "sources (terminal states through 2-5 construction routes, int and Fraction stream values); "
                "non-trivial = at least one stream coefficient and >= 2 outputs; M3: random expression trees "
                "judged by TLC")
    ctx.assumptions = [
        "a Stream object is used once in the user's expression; further uses are tee copies (Stream.copy() or "
        "thub), as the library documents - the uses the algebra itself multiplies (Poly.__mul__/__truediv__, "
        "a0 rescaling) are the library's business and are what the tee accounting clause is about",
        "streams used as (a factor of) the leading denominator coefficient never take the value 0",
        "a sum/difference of two filters that share a stream-free denominator other than 1 is excluded (guard "
        "NoSharedDen): the library keeps the common denominator there, the general rule cross-multiplies; both "
        "are element-wise coefficient arithmetic but different time-varying systems and the statement fixes neither",
        "coefficients and stream values are integers or dyadic rationals (the library formats constants into "
        "source text and 1/a0 is a float for integer a0); M3 uses Fraction stream values",
        "read counters: exactly k after the k-th output; at the end of the run one further item per source may "
        "have been taken to discover the end (which sources is diagnostics only)",
        "the all-zero filter and non-causal filters are C04's",
    ]
    if ctx.thorough:
        m2(ctx, al, "FilterC06T", "FilterC06T.cfg", 5, 3)
        m3(ctx, al, 2500, 30, 4)
    else:
        m2(ctx, al, "FilterC06Q", "FilterC06Q.cfg", 4, 3)
        m3(ctx, al, 250, 24, 4)
    ctx.exhaustive = True
